#!/bin/bash
# try_refactor.sh <dir with patch.diff> : apply a behaviour-preserving change to /repo, run every property's quick
# check, undo. Any VIOLATION here is a false alarm (or shows that the change was not behaviour-preserving).
m=$1
cd /repo && git status --short | grep -q . && { echo "/repo not clean"; exit 2; }
git -C /repo apply $m/patch.diff || { echo "patch does not apply"; exit 2; }
trap 'git -C /repo checkout -- . ; git -C /repo clean -fdq -- crates rust src' EXIT
cd /verif
for i in $(seq -w 1 20); do
  out=$(./check C$i --tier quick 2>&1 | grep -E "^(VIOLATION|OK|KNOWN)" | head -2 | tr '\n' ' ')
  echo "[$(basename $m)] C$i: $out"
done
