#!/bin/bash
# try_mutation.sh <mutation dir> <property...> : apply the seeded change to /repo, run ./check for
# the given properties (quick tier), undo the change straight afterwards.
m=$1; shift
cd /repo && git status --short | grep -q . && { echo "/repo not clean"; exit 2; }
git -C /repo apply $m/patch.diff || { echo "patch does not apply"; exit 2; }
trap 'git -C /repo checkout -- . ; git -C /repo clean -fdq -- crates rust src' EXIT
cd /verif
for p in "$@"; do
  out=$(./check $p --tier quick 2>&1 | grep -E "^(VIOLATION|OK|KNOWN)" | head -5)
  echo "[$(basename $m)] $p: $out"
done
