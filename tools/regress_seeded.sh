#!/bin/bash
# regress_seeded.sh : run every seeded change against its owning property's quick check (correspondence part; the
# Coq theorems do not depend on /repo except through the generated tables, which the C19/C20 checks rebuild)
cd /verif
out=seeded/REGRESSION.txt; [ -n "$RESUME" ] || : > $out
for d in seeded/C*/; do
  m=$(basename $d); p=${m:0:3}
  grep -q "^$m " $out && continue
  np=1; case $p in C19|C20) np=0;; esac
  r=$(VERIF_NO_PROOF=$np tools/try_mutation.sh /verif/seeded/$m $p 2>&1 | grep -E "VIOLATION|OK|not clean|does not apply" | head -1)
  echo "$m $r" | tee -a $out
done
echo "done: $(grep -c VIOLATION $out) reported, $(grep -c 'no-failing-input-found' $out) without a failing input, $(grep -vc VIOLATION $out) not reported" | tee -a $out
