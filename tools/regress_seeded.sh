#!/bin/bash
# regress_seeded.sh : run every seeded change against its owning property's quick check (correspondence part; the
# Coq theorems do not depend on /repo except through the generated tables, which the C19/C20 checks rebuild)
cd /verif
out=seeded/REGRESSION.txt; : > $out
for d in seeded/C*/; do
  m=$(basename $d); p=${m:0:3}
  r=$(tools/try_mutation.sh /verif/seeded/$m $p 2>&1 | grep -E "VIOLATION|OK|not clean|does not apply" | head -1)
  echo "$m $r" | tee -a $out
done
echo "done: $(grep -c VIOLATION $out) reported, $(grep -c 'no-failing-input-found' $out) without a failing input, $(grep -vc VIOLATION $out) not reported" | tee -a $out
