#!/bin/bash
# usage: goal.sh <file.v relative to coq/> <line>  -- show the proof state after <line>
f=$1; n=$2
mkdir -p /tmp/goal && head -n $n /verif/coq/$f > /tmp/goal/G.v && printf '\nShow.\nAbort.\n' >> /tmp/goal/G.v
cd /verif/coq && coqc -Q . Bourse -w -all /tmp/goal/G.v 2>&1 | head -${3:-60}
