#!/bin/bash
# mutation_batch.sh <id>...   e.g. C03a C03b : run the owning property's quick check against each seeded change
cd /verif
for m in "$@"; do
  p=${m:0:3}
  d=/tmp/mut/out/$m; [ -d $d ] || d=/verif/seeded/$m
  VERIF_NO_PROOF=${NOPROOF:-0} tools/try_mutation.sh $d $p 2>&1 | tee -a /tmp/mut/batch.log
done
