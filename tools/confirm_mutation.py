#!/usr/bin/env python3
"""confirm_mutation.py <mutation dir> <scratch worktree>
Confirms a seeded change independently: (1) the patch applies, the workspace builds and the
existing test suite passes with it; (2) the demonstration fails with the patch and passes
without it. Prints a JSON summary. Leaves the worktree clean."""
import sys, os, subprocess, json, glob, shutil, re
mdir, wt = sys.argv[1], sys.argv[2]
env = dict(os.environ, CARGO_NET_OFFLINE="true")
def sh(cmd, cwd=wt, timeout=1800):
    p = subprocess.run(cmd, shell=True, cwd=cwd, env=env, stdout=subprocess.PIPE, stderr=subprocess.STDOUT, text=True, timeout=timeout)
    return p.returncode, p.stdout
def clean():
    sh("git checkout -- . && git clean -fdq -- crates/order_book/tests crates/step_sim/tests rust src tests")
res = {"mutation": os.path.basename(mdir.rstrip("/"))}
clean()
demos = [f for f in glob.glob(os.path.join(mdir, "*")) if os.path.basename(f) not in ("patch.diff", "meta.json")]
rs = [f for f in demos if f.endswith(".rs")]
py = [f for f in demos if f.endswith(".py")]
def place_demo():
    cmds = []
    for f in rs:
        txt = open(f).read()
        pkg, d = ("bourse-de", "crates/step_sim/tests") if ("bourse_de" in txt) else ("bourse-book", "crates/order_book/tests")
        os.makedirs(os.path.join(wt, d), exist_ok=True)
        name = "vdemo_" + re.sub(r"\W", "_", os.path.basename(f)[:-3])
        shutil.copy(f, os.path.join(wt, d, name + ".rs"))
        cmds.append("cargo test -p %s --test %s --offline" % (pkg, name))
    return cmds
def run_demo(cmds):
    ok = True; out = ""
    for c in cmds:
        rc, o = sh(c); out += o[-1500:]
        ok = ok and rc == 0
    if py:
        # Python demonstrations run against the extension module built from the worktree as it is now
        rc, o = sh("cargo build -p bourse --release --offline 2>&1 | tail -2")
        d = os.path.join(wt, "target", "pydemo", "bourse")
        os.makedirs(d, exist_ok=True)
        shutil.copy(os.path.join(wt, "target", "release", "libbourse.so"), os.path.join(d, "core.so"))
        for f in py:
            if os.path.basename(f) != "demo.py" and len(py) > 1:
                continue
            rc, o = sh("python3-vt %s %s %s" % (f, os.path.dirname(d), wt))
            out += o[-1500:]
            ok = ok and rc == 0
    return ok, out
# without the patch
cmds = place_demo()
if not cmds and not py:
    res["error"] = "no runnable demo"; print(json.dumps(res)); sys.exit(1)
ok0, out0 = run_demo(cmds)
res["demo_passes_without_patch"] = ok0
# with the patch
rc, o = sh("git apply %s" % os.path.join(mdir, "patch.diff"))
res["patch_applies"] = rc == 0
okp, outp = run_demo(cmds)
res["demo_fails_with_patch"] = not okp
# remove the demo, run the existing suite with the patch
sh("git clean -fdq -- crates/order_book/tests crates/step_sim/tests")
rc, o = sh("cargo test --workspace --no-fail-fast --offline 2>&1 | grep -E '^test result|FAILED|^error' ")
res["suite_passes_with_patch"] = ("FAILED" not in o) and ("error" not in o) and ("test result: ok" in o)
res["suite_tail"] = o[-400:]
clean()
res["confirmed"] = bool(res["patch_applies"] and ok0 and (not okp) and res["suite_passes_with_patch"])
if not res["confirmed"]:
    res["demo_out_without"] = out0[-600:]; res["demo_out_with"] = outp[-600:]
print(json.dumps(res, indent=1))
