#!/usr/bin/env python3
"""Regenerates MANIFEST.json from the table below (kept in one place so it stays valid)."""
import json
CLAIMED = {
 "C04": dict(sec="8/C04", tech="Coq proof (no-op state equalities, identity preservation by induction over the matching loop) + differential execution against the extracted model with a lifecycle monitor",
    text="Machine-checked theorems over the hand-written Gallina model of orderbook.rs: redundant place/cancel/modify/process_event requests return the *same* state, set_time changes only the clock, ids are dense and id/side/trader/start volume survive every operation (all operations, all histories). The status-transition and time-stamp clauses are decided by the executable monitor c04_ok (Spec/Monitors.v) run on every implementation observation; its proof for the model is part of the refinement work (partial, named in DESIGN.md).",
    note="Trusted: Coq kernel; hand translation of orderbook.rs/side.rs (tied by differential execution on exhaustive depth-3/4 trees and seeded random histories after every operation); extraction (ExtrOcamlBasic), harness and runner glue. Axioms: none."),
 "C12": dict(sec="8/C12", tech="Coq proof (invariant by induction over operations) + differential execution with monitor",
    text="Theorems: creation succeeds iff price mod tick = 0 (market always); a rejected creation returns the identical state; the grid invariant is preserved by every API operation with arbitrary create/modify prices, hence holds in every reachable book. The level-accounting clause is checked by monitor c12_ok clause 3 on implementation traces.",
    note="Trusted: as C04. Axioms: none. The creation clause is monitored for every creation request whatever its price (including 0 and 2^32-1)."),
 "C13": dict(sec="8/C13", tech="Coq proof (case analysis of every operation with trading off) + differential execution with monitor and reference engine",
    text="Theorems: with the flag off no operation appends to the trade log or moves the traded-volume counter; a market order is Rejected and both sides are unchanged; a limit order rests with its whole volume; toggling changes only the flag (observations equal). Behaviour after re-enabling is compared with the reference engine on every explored history.",
    note="Trusted: as C04. Axioms: none."),
}
REASON_PENDING = "check under construction in this session (model and correspondence exist; theorem file not yet registered)"
m = {
 "version": 1,
 "setup_cmd": "./check setup",
 "hooks": {"guard": "bourse_verif",
           "enable": "RUSTFLAGS=\"--cfg bourse_verif\" (no hook is needed: every observation goes through the public API, catch_unwind and JSON)",
           "baseline_off_cmd": "cd /repo && cargo test --workspace --no-fail-fast --offline",
           "source_commits": [], "add_only": True},
 "engines": [{"name": "coq-model+differential", "path": "check", "serves_properties": sorted(CLAIMED),
              "kind_free_text": "Coq 8.16 theorems over a hand-written executable Gallina model; model tied to /repo by differential execution of the OCaml-extracted model, reference engine and monitors against the rebuilt Rust crates"}],
 "checks": [], "not_applicable": [],
 "notes": "Genuine defects found and repaired by fix: commits in /repo are listed in known_findings.json (fixed entries)."}
for i in range(1, 21):
    pid = "C%02d" % i
    if pid in CLAIMED:
        c = CLAIMED[pid]
        m["checks"].append({
            "property_id": pid, "quick_cmd": "./check %s --tier quick" % pid, "thorough_cmd": "./check %s --tier thorough" % pid,
            "evidence_file": "evidence/%s.json" % pid, "replay_cmd_template": "./check %s --replay {path}" % pid,
            "engine": "coq-model+differential",
            "level_claimed": {"category": "proof", "text": c["text"], "design_ref": "DESIGN.md section " + c["sec"]},
            "level_note": c["note"], "technique": c["tech"]})
    else:
        m["not_applicable"].append({"property_id": pid, "reason": REASON_PENDING})
json.dump(m, open("/verif/MANIFEST.json", "w"), indent=1)
print("claimed:", sorted(CLAIMED))
