#!/usr/bin/env python3
"""Regenerates MANIFEST.json from the table below (kept in one place so it stays valid)."""
import json
CLAIMED = {
 "C04": dict(sec="8/C04", tech="Coq proof (no-op state equalities, identity preservation by induction over the matching loop) + differential execution against the extracted model with a lifecycle monitor",
    text="Machine-checked theorems over the hand-written Gallina model of orderbook.rs: redundant place/cancel/modify/process_event requests return the *same* state, set_time changes only the clock, ids are dense and id/side/trader/start volume survive every operation (all operations, all histories). The status-transition and time-stamp clauses are decided by the executable monitor c04_ok (Spec/Monitors.v) run on every implementation observation; its proof for the model is part of the refinement work (partial, named in DESIGN.md).",
    note="Trusted: Coq kernel; hand translation of orderbook.rs/side.rs (tied by differential execution on exhaustive depth-3/4 trees and seeded random histories after every operation); extraction (ExtrOcamlBasic), harness and runner glue. Axioms: none."),
 "C12": dict(sec="8/C12", tech="Coq proof (invariant by induction over operations) + differential execution with monitor",
    text="Theorems: creation succeeds iff price mod tick = 0 (market always); a rejected creation returns the identical state; the grid invariant is preserved by every API operation with arbitrary create/modify prices, hence holds in every reachable book. The level-accounting clause is checked by monitor c12_ok clause 3 on implementation traces.",
    note="Trusted: as C04. Axioms: none. The creation clause is monitored for every creation request whatever its price (including 0 and 2^32-1)."),
 "C13": dict(sec="8/C13", tech="Coq proof (case analysis of every operation with trading off) + differential execution with monitor and reference engine",
    text="Theorems: with the flag off no operation appends to the trade log or moves the traded-volume counter; a market order is Rejected and both sides are unchanged; a limit order rests with its whole volume; toggling changes only the flag (observations equal). Behaviour after re-enabling is compared with the reference engine on every explored history.",
    note="Trusted: as C04. Axioms: none."),
 "C03": dict(sec="8/C03", tech="Coq proof (ledger invariant by induction over the matching loop and over histories) + differential execution with a ledger-audit monitor",
    text="Theorems over the model: for every operation the new log is the old log plus a suffix stamped with the book time, the counter moves by exactly the logged volume (or is reset), operations that cannot trade add nothing; each fill record carries min volume, the passive order's price and side and both ids and both orders lose exactly that volume; over any history the log only grows at its end. Per-order conservation and the admit-price clause are decided by the monitor c03_ok on implementation traces (their model-level proof needs the refinement invariant: partial, named).",
    note="Trusted: as C04. Axioms: none."),
 "C08": dict(sec="8/C08", tech="Coq proof (step = shuffle + replay, shuffle is a permutation) + exact differential execution (the model computes the schedule from the seed) + search over all schedules when they differ",
    text="Theorems: one environment step processes a permutation of the queue (each instruction exactly once, nothing else), the i-th at start+i on every book, then jumps the clock to start+step_size, empties the queue and refreshes the cached data, the recorded series and the per-step traded volume; the market afterwards is the plain replay (process_all) of that list. Tied to Env<L>, MarketEnv<A,L> by exact comparison of every observable after every operation; if a step's books differ, all schedules of the batch (<= 7 instructions) are replayed to decide whether any explains them.",
    note="Trusted: as C04 plus the exact model of Xoroshiro128** / rand 0.8.5 shuffle (Model/Rng.v, validated by the raw-draw comparison in every observation). Axioms: none."),
 "C10": dict(sec="8/C10", tech="Coq proof (state equalities for submissions) + differential execution with model-free monitor",
    text="Theorems: a submission changes only the addressed book's order list (one New entry) and the queue; cancel/modify submissions change only the queue; every getter but the order list is blind to the order list; the cached level-2 data equals the live books' at the end of each step and is blind to submissions and toggles. Monitor c10_ok compares full observations before/after every submission on implementation traces.",
    note="Trusted: as C08. Axioms: none."),
 "C11": dict(sec="8/C11", tech="Coq proof (what a step records; series lengths) + differential execution with model-free monitor over asymmetric books",
    text="Theorems: a step appends to every series exactly one entry, namely the end-of-step level-2 record of that asset (bid fields from bid getters, ask from ask), and the book's traded-volume counter; nothing else touches the series. Monitor c11_ok checks lengths, prefixes, equality of the last record with the live book and of the per-step volume with the logged trades, on Env/MarketEnv traces with asymmetric books; all duplicate accessors (get_prices, get_touch_volumes, ...) are cross-checked by the harness.",
    note="Trusted: as C08. Axioms: none."),
 "C14": dict(sec="8/C14", tech="Coq proof (locality of per-asset operations) + differential execution against a model that is a list of independent books",
    text="Theorems: a direct operation or a processed instruction addressed to asset a is the stand-alone book step on the a-th book and leaves every other book equal; set_time is map; ids are per-asset sequence numbers. The model of Market/MarketEnv is literally a list of stand-alone books sharing a clock, so exact agreement of the implementation with it on every explored interleaving is the lock-step comparison the property asks for; all-asset queries are cross-checked against per-asset ones by the harness.",
    note="Trusted: as C08. Axioms: none."),
 "C15": dict(sec="8/C15", tech="Coq proof (shuffle is a content-independent permutation function of length and generator state) + exact schedule comparison + the property's statistical test as search/supporting evidence",
    text="Theorems: the processed order is a permutation of the queue; shuffling commutes with every relabelling of the items, so the permutation depends only on the batch length and the generator state (equal states give equal permutations). Exact equality of the implementation's schedules with the modelled rand 0.8.5 Fisher-Yates over Xoroshiro128** on thousands of seeded steps (batch sizes up to 64). Uniformity of the algorithm's index sampler and the Fisher-Yates bijection are not yet proved (partial, named); the statistical test (Bernstein bound, false alarm < 1e-9) runs on the implementation as supporting evidence and as the search for a failing input.",
    note="Trusted: as C08. Statistical quality of Xoroshiro128** output is outside any theorem. Axioms: none."),
 "C09": dict(sec="8/C09", tech="Coq model of the whole simulation loop as a function of the seed (exact generator) + exact differential execution of agents and steps + runner determinism checks across processes and progress-bar branches",
    text="The model's simulation (agents in order, then the step, n times, on one generator seeded through SplitMix64) is a Gallina function of seed, parameters and the two named oracles; the theorem states the dependence on the seed is only through the seeded generator state. That the implementation equals this function is established run by run: every agent update and every step of random compositions of the built-in agents is compared with the model, raw draws included. sim_runner / market_sim_runner on derive-macro agent sets are run twice, in a separate OS process, with and without the progress bar and as a hand-written loop, and complete outputs compared. 'Different seeds give different runs' is measured, not proved.",
    note="Trusted: as C08, plus the oracles (log-normal table produced by the real rand_distr on the same stream; libm tanh through OCaml). Axioms: the four standard-library axioms Flocq's real-number theory brings (ClassicalDedekindReals.sig_forall_dec, sig_not_dec, FunctionalExtensionality.functional_extensionality_dep, Classical_Prop.classic) appear under Float-dependent definitions only."),
 "C16": dict(sec="8/C16", tech="Coq model of the six agent update functions with exact generator and Flocq binary64 + differential execution + model-free monitor of every update",
    text="Theorems: a draw is never below probability 0 and always below 1.0; the index sampler stays inside its half-open range (random agents' ticks and volumes); the price the noise/momentum helpers hand to the environment is a multiple of the tick size whatever the float pipeline produced, so their unwrap cannot abort on a price error (the repaired defect). The model of all agents (single- and multi-asset) is executed against the implementation call by call; monitor c16_ok checks every update's new orders (grid, tick/volume ranges, trader ids, buys <= mid <= sells, counts at probability 0 / >= 1, one live order per random trader) on implementation observations; an abort of the implementation where the model does not abort is a concrete violation. The float rounding lemma (floor/ceil to grid as real numbers) is not proved: partial, named.",
    note="Trusted: as C09."),
 "C17": dict(sec="8/C17", tech="Coq model (binary64 momentum recursion, tanh oracle) + exact differential execution on harness-imposed price paths + mirrored-run comparison",
    text="Theorems: with M = 0 a trader submits nothing (state unchanged); the trading probability is computed through fabs and fabs forgets the sign, so negating the signal leaves the propensity unchanged. The implementation is compared with the model on imposed rising/falling/mixed/flat paths; the harness runs each path and its mirror image with one seed and requires the order flow to be mirrored exactly, directions to follow the sign of M recomputed from the path, and one limit plus one market order per trader at saturated demand.",
    note="Trusted: as C09; tanh odd/monotone is an oracle assumption (sampled by the mirrored runs)."),
 "C20": dict(sec="8/C20", tech="translator (macro source -> Coq shape facts, regenerated every run) + Coq proof that a macro of that shape expands to the in-order call sequence + dynamic comparison of derived and hand-written sets",
    text="translators/macro_shapes.py re-reads crates/macros/src/lib.rs and regenerates Generated/MacroShapes.v (field-list source, loop header, bindings, guard, emitted tokens, generated method); Properties/C20.v proves the generated shapes are the canonical ones and that such a macro expands, for every field list, names and update functions, to the hand-written sequence (each named field once, in declaration order, on the shared threaded state; nesting flattens). Dynamically, 12 struct shapes (adversarial names, repeated types, nested sets) are compared call-by-call and draw-by-draw with the hand-written sequence for both macros.",
    note="Trusted: the translator (a source change it does not recognise makes the theorem fail, never pass), rustc's macro expansion. Axioms: none."),
}
REASON_PENDING = "check under construction in this session (model and correspondence exist; theorem file not yet registered)"
m = {
 "version": 1,
 "setup_cmd": "./check setup",
 "hooks": {"guard": "bourse_verif",
           "enable": "RUSTFLAGS=\"--cfg bourse_verif\" (no hook is needed: every observation goes through the public API, catch_unwind and JSON)",
           "baseline_off_cmd": "cd /repo && cargo test --workspace --no-fail-fast --offline",
           "source_commits": [], "add_only": True},
 "engines": [{"name": "coq-model+differential", "path": "check", "serves_properties": sorted(CLAIMED),
              "kind_free_text": "Coq 8.16 theorems over a hand-written executable Gallina model; model tied to /repo by differential execution of the OCaml-extracted model, reference engine and monitors against the rebuilt Rust crates"}],
 "checks": [], "not_applicable": [],
 "notes": "Genuine defects found and repaired by fix: commits in /repo are listed in known_findings.json (fixed entries)."}
for i in range(1, 21):
    pid = "C%02d" % i
    if pid in CLAIMED:
        c = CLAIMED[pid]
        m["checks"].append({
            "property_id": pid, "quick_cmd": "./check %s --tier quick" % pid, "thorough_cmd": "./check %s --tier thorough" % pid,
            "evidence_file": "evidence/%s.json" % pid, "replay_cmd_template": "./check %s --replay {path}" % pid,
            "engine": "coq-model+differential",
            "level_claimed": {"category": "proof", "text": c["text"], "design_ref": "DESIGN.md section " + c["sec"]},
            "level_note": c["note"], "technique": c["tech"]})
    else:
        m["not_applicable"].append({"property_id": pid, "reason": REASON_PENDING})
json.dump(m, open("/verif/MANIFEST.json", "w"), indent=1)
print("claimed:", sorted(CLAIMED))
