#!/usr/bin/env python3
"""record_seeded.py <mutation dir> <property> <confirm json file> <checks output text>
Copies a confirmed seeded change into /verif/seeded/<id>/ with a meta.json."""
import sys, os, json, shutil
mdir, prop, confirm, ran = sys.argv[1], sys.argv[2], sys.argv[3], sys.argv[4]
mid = os.path.basename(mdir.rstrip("/"))
dst = os.path.join("/verif/seeded", mid)
os.makedirs(dst, exist_ok=True)
for f in os.listdir(mdir):
    if f != "meta.json":
        shutil.copy(os.path.join(mdir, f), dst)
am = json.load(open(os.path.join(mdir, "meta.json")))
c = json.load(open(confirm))
meta = {"id": mid, "property": prop, "summary": am.get("summary"), "needs": am.get("needs"),
        "demonstration": am.get("demo"),
        "confirmed_independently": {k: c.get(k) for k in ("patch_applies", "suite_passes_with_patch", "demo_passes_without_patch", "demo_fails_with_patch", "confirmed")},
        "what_i_ran": "tools/confirm_mutation.py (apply patch in a scratch worktree, cargo test --workspace --offline, demo with/without patch); tools/try_mutation.sh (git -C /repo apply; ./check; git checkout)",
        "checks": ran}
json.dump(meta, open(os.path.join(dst, "meta.json"), "w"), indent=1)
print("recorded", dst)
