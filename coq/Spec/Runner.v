(** * One step of the correspondence check, as a Coq function

   The OCaml driver only splits lines into numbers; deciding what to compare,
   which monitors apply and what to report is done here, by extracted code. *)
From Bourse Require Import Model.Types Model.Book Model.Obs Model.Codec Spec.RefBook Spec.Monitors.

Inductive report :=
| RDecode                          (* undecodable line *)
| RPanic (model_panicked : bool)   (* exactly one side panicked *)
| ROut                             (* results differ *)
| RObs (cats : N) (idx : N)        (* observations differ: categories bitmask, first index *)
| RRef (cats : N) (idx : N)        (* reference engine differs from the implementation *)
| RMonitor (prop clause : N)       (* a property monitor is false on the implementation's trace *)
| RSched (explained : N).          (* a step's outcome differs from the predicted schedule's: 1 = some other
                                      schedule of the same batch explains it, 0 = none does, 2 = batch too large to search *)

Record rstate := mkRS {
  rs_L : nat; rs_tick : N;
  rs_model : book; rs_ref : rbook;
  rs_prev : observation;           (* the implementation's previous observation *)
  rs_trading : bool; rs_never_disabled : bool;
  rs_valid : bool;                 (* the script is still inside the valid-history domain *)
  rs_valid12 : bool;               (* ... inside C12's wider domain (every u32 price) *)
  rs_ended : bool }.               (* a panic occurred: nothing after it is compared *)

(** categories: 1 clock, 2 traded volume, 4 market data, 8 orders, 16 trades *)
Definition obs_cats (a b : observation) : N :=
  (if ob_t a =? ob_t b then 0 else 1)
  + (if ob_tvol a =? ob_tvol b then 0 else 2)
  + (if list_N_eqb (enc_obs (mkObs 0 0 (ob_bid a) (ob_ask a) (ob_bid_vol a) (ob_ask_vol a)
                               (ob_bid_bv a) (ob_ask_bv a) (ob_bid_bvo a) (ob_ask_bvo a)
                               (ob_bid_levels a) (ob_ask_levels a) (ob_l1 a) (ob_l2 a) (ob_mid a) [] []))
                    (enc_obs (mkObs 0 0 (ob_bid b) (ob_ask b) (ob_bid_vol b) (ob_ask_vol b)
                               (ob_bid_bv b) (ob_ask_bv b) (ob_bid_bvo b) (ob_ask_bvo b)
                               (ob_bid_levels b) (ob_ask_levels b) (ob_l1 b) (ob_l2 b) (ob_mid b) [] []))
     then 0 else 4)
  + (if list_N_eqb (flat_map enc_order (ob_orders a)) (flat_map enc_order (ob_orders b)) then 0 else 8)
  + (if trades_eqb (ob_trades a) (ob_trades b) then 0 else 16).

Definition dec_out (l : list N) : option out :=
  match l with
  | [0] => Some ONone
  | [1; id] => Some (OCreated (Created (N.to_nat id)))
  | [2; p; t] => Some (OCreated (PriceError p t))
  | _ => None
  end.

Definition rs_init (L : nat) (t0 tick : N) (trading : bool) (impl_obs : list N)
  : option rstate * list report :=
  match book_new t0 tick trading, dec_obs impl_obs with
  | Ok m, Some o =>
      let rep := match observe L m with
                 | Ok mo => match first_diff 0 (enc_obs mo) impl_obs with
                            | Some i => [RObs (obs_cats mo o) i] | None => [] end
                 | Panic => [RPanic true] end in
      (Some (mkRS L tick m (ref_new t0 tick trading) o trading trading true true false), rep)
  | _, _ => (None, [RDecode])
  end.

Definition monitors (st : rstate) (o : op) (x : out) (o2 : observation) : list report :=
  let mk p c := if c =? 0 then [] else [RMonitor p c] in
  let nd := rs_never_disabled st && negb (match o with ODisable => true | _ => false end) in
  mk 2 (c02_ok (rs_L st) (rs_tick st) nd o2)
  ++ mk 3 (c03_ok (rs_tick st) (rs_prev st) o o2)
  ++ mk 4 (c04_ok (rs_trading st) (rs_prev st) o x o2)
  ++ mk 12 (c12_ok (rs_L st) (rs_tick st) (rs_prev st) o x o2)
  ++ mk 13 (c13_ok (rs_trading st) (rs_prev st) o o2).

(** [impl_out = [9]] means the implementation panicked (no observation follows). *)
Definition rs_step (st : rstate) (opl impl_out impl_obs : list N) : rstate * list report :=
  if rs_ended st then (st, [])
  else
  let ended := mkRS (rs_L st) (rs_tick st) (rs_model st) (rs_ref st) (rs_prev st)
                 (rs_trading st) (rs_never_disabled st) (rs_valid st) (rs_valid12 st) true in
  match dec_op opl with
  | None => (ended, [RDecode])
  | Some o =>
      let impl_panicked := list_N_eqb impl_out [9] in
      let mres := do (m', x) <- step (rs_model st) o;
                  do mo <- observe (rs_L st) m';
                  Ok (m', x, mo) in
      match mres with
      | Panic => (ended, if impl_panicked then [] else [RPanic true])
      | Ok (m', x, mo) =>
          if impl_panicked then (ended, [RPanic false])
          else
          match dec_out impl_out, dec_obs impl_obs with
          | Some ix, Some o2 =>
              let valid := rs_valid st && valid_op (rs_tick st) (rs_prev st) o in
              let valid12 := rs_valid12 st && valid_op_gen true (rs_tick st) (rs_prev st) o in
              let r_out := if list_N_eqb (enc_out x) impl_out then [] else [ROut] in
              let r_obs := match first_diff 0 (enc_obs mo) impl_obs with
                           | Some i => [RObs (obs_cats mo o2) i] | None => [] end in
              let '(rf', r_ref) :=
                if valid then
                  match ref_step (rs_ref st) o with
                  | Some (rf', rx) =>
                      match ref_observe (rs_L st) rf' with
                      | Ok ro => (rf', match first_diff 0 (enc_obs ro) impl_obs with
                                       | Some i => [RRef (obs_cats ro o2) i]
                                       | None => if list_N_eqb (enc_out rx) impl_out then [] else [RRef 0 0] end)
                      | Panic => (rf', [RRef 0 1])
                      end
                  | None => (rs_ref st, [RRef 0 2])
                  end
                else (rs_ref st, []) in
              let r_mon :=
                if valid then monitors st o ix o2
                else if valid12 then
                  (let c := c12_ok (rs_L st) (rs_tick st) (rs_prev st) o ix o2 in
                   if c =? 0 then [] else [RMonitor 12 c])
                else if rs_valid12 st && negb (c12_create_ok (rs_tick st) (rs_prev st) o ix o2)
                     then [RMonitor 12 1] else [] in
              let trading' := match o with OEnable => true | ODisable => false | _ => rs_trading st end in
              let nd' := rs_never_disabled st && negb (match o with ODisable => true | _ => false end) in
              (mkRS (rs_L st) (rs_tick st) m' rf' o2 trading' nd' valid valid12 false,
               r_out ++ r_obs ++ r_ref ++ r_mon)
          | _, _ => (ended, [RDecode])
          end
      end
  end.

Definition enc_report (r : report) : list N :=
  match r with
  | RDecode => [0]
  | RPanic b => [1; if b then 1 else 0]
  | ROut => [2]
  | RObs c i => [3; c; i]
  | RRef c i => [4; c; i]
  | RMonitor p c => [5; p; c]
  | RSched x => [7; x]
  end.
