(** * Monitors and runner step for environments and markets (C08, C10, C11, C14) *)
From Bourse Require Import Model.Types Model.Book Model.Obs Model.Codec Model.Rng Model.Float Model.Env Model.EnvObs Model.Agents
  Spec.RefBook Spec.Monitors Spec.Runner.

Definition l2_eqb (L : nat) (a b : l2data) : bool := list_N_eqb (enc_l2 a) (enc_l2 b).

Fixpoint all2 {A B} (f : A -> B -> bool) (a : list A) (b : list B) : bool :=
  match a, b with
  | [], [] => true
  | x :: a', y :: b' => f x y && all2 f a' b'
  | _, _ => false
  end.

Fixpoint alli {A} (f : nat -> A -> bool) (i : nat) (l : list A) : bool :=
  match l with [] => true | x :: r => f i x && alli f (S i) r end.

Definition obs_same_but_orders (a b : observation) : bool :=
  obs_eqb (mkObs (ob_t a) (ob_tvol a) (ob_bid a) (ob_ask a) (ob_bid_vol a) (ob_ask_vol a) (ob_bid_bv a)
             (ob_ask_bv a) (ob_bid_bvo a) (ob_ask_bvo a) (ob_bid_levels a) (ob_ask_levels a) (ob_l1 a)
             (ob_l2 a) (ob_mid a) [] (ob_trades a))
          (mkObs (ob_t b) (ob_tvol b) (ob_bid b) (ob_ask b) (ob_bid_vol b) (ob_ask_vol b) (ob_bid_bv b)
             (ob_ask_bv b) (ob_bid_bvo b) (ob_ask_bvo b) (ob_bid_levels b) (ob_ask_levels b) (ob_l1 b)
             (ob_l2 b) (ob_mid b) [] (ob_trades b)).

Definition orders_eqb (a b : list order) : bool :=
  list_N_eqb (flat_map enc_order a) (flat_map enc_order b).

Definition series_eqb (L : nat) (a b : list l2data) : bool :=
  list_N_eqb (flat_map enc_l2 a) (flat_map enc_l2 b).

(** ** C10: queued instructions are invisible until the next step *)
Definition c10_ok (L : nat) (o1 : eobs) (o : eop) (x : out) (o2 : eobs) : N :=
  let same_env :=
    all2 (l2_eqb L) (eo_l2 o1) (eo_l2 o2)
    && all2 list_N_eqb (eo_tvols o1) (eo_tvols o2)
    && all2 (series_eqb L) (eo_hist o1) (eo_hist o2)
    && (eo_rng o1 =? eo_rng o2) in
  match o with
  | EPlace a sd v tr p =>
      if negb same_env then 1
      else if negb (alli (fun i (pr : observation * observation) =>
                      let '(b1, b2) := pr in
                      obs_same_but_orders b1 b2
                      && (if Nat.eqb i a then
                            match x with
                            | OCreated (Created id) =>
                                orders_eqb (ob_orders b2)
                                  (ob_orders b1 ++ [mkOrder sd SNew (ob_t b1) MAXT v v
                                     (match p with Some p => p | None => match sd with Bid => MAXP | Ask => 0 end end)
                                     tr (length (ob_orders b1))])
                                && Nat.eqb id (length (ob_orders b1))
                            | _ => orders_eqb (ob_orders b2) (ob_orders b1)
                            end
                          else orders_eqb (ob_orders b2) (ob_orders b1)))
                    0 (combine (eo_books o1) (eo_books o2))) then 2
      else if negb (Nat.eqb (length (eo_books o1)) (length (eo_books o2))) then 2
      else 0
  | ECancel _ _ | EModify _ _ _ _ =>
      if same_env && all2 obs_eqb (eo_books o1) (eo_books o2) then 0 else 3
  | _ => 0
  end.

(** the level-2 snapshot handed to agents equals the live book's level-2 data *)
Definition c10_cache_ok (L : nat) (o : eobs) : N :=
  if all2 (fun d b => l2_eqb L d (ob_l2 b)) (eo_l2 o) (eo_books o) then 0 else 4.

(** ** C11: recorded histories are complete, aligned and faithful *)
Definition c11_ok (L : nat) (o1 : eobs) (o : eop) (o2 : eobs) : N :=
  match o with
  | EStep =>
      if negb (all2 (fun h1 h2 => Nat.eqb (length h2) (S (length h1)) && series_eqb L (firstn (length h1) h2) h1)
                 (eo_hist o1) (eo_hist o2)) then 1
      else if negb (all2 (fun h2 b => match rev h2 with
                                      | last :: _ => l2_eqb L last (ob_l2 b)
                                                     && (l2_bid last =? ob_bid b) && (l2_ask last =? ob_ask b)
                                                     && (l2_bid_vol last =? ob_bid_vol b) && (l2_ask_vol last =? ob_ask_vol b)
                                                     && list_N_eqb (flat_map enc_pair (l2_bid_levels last)) (flat_map enc_pair (ob_bid_levels b))
                                                     && list_N_eqb (flat_map enc_pair (l2_ask_levels last)) (flat_map enc_pair (ob_ask_levels b))
                                      | [] => false end)
                      (eo_hist o2) (eo_books o2)) then 2
      else if negb (all2 (fun tv (pr : list N * observation) =>
                            let '(tv1, b) := pr in
                            list_N_eqb tv (tv1 ++ [ob_tvol b]))
                      (eo_tvols o2) (combine (eo_tvols o1) (eo_books o2))) then 3
      else if negb (all2 (fun tv h => Nat.eqb (length tv) (length h)) (eo_tvols o2) (eo_hist o2)) then 4
      else if negb (all2 (fun tv (pr : observation * observation) =>
                            let '(b1, b2) := pr in
                            match rev tv with
                            | last :: _ => last =? trades_vol (skipn (length (ob_trades b1)) (ob_trades b2))
                            | [] => false end)
                      (eo_tvols o2) (combine (eo_books o1) (eo_books o2))) then 6
      else 0
  | _ =>
      if all2 (series_eqb L) (eo_hist o1) (eo_hist o2) && all2 list_N_eqb (eo_tvols o1) (eo_tvols o2)
      then 0 else 5
  end.

(** ** C08 (the model-free clauses): clock, per-step traded volume, time stamps *)
Definition c08_ok (step_size : N) (batch : N) (o1 : eobs) (o : eop) (o2 : eobs) : N :=
  match o with
  | EStep =>
      if negb (all2 (fun b1 b2 => ob_t b2 =? ob_t b1 + step_size) (eo_books o1) (eo_books o2)) then 1
      else if negb (all2 (fun b1 b2 =>
                      let new := skipn (length (ob_trades b1)) (ob_trades b2) in
                      trades_eqb (firstn (length (ob_trades b1)) (ob_trades b2)) (ob_trades b1)
                      && (ob_tvol b2 =? trades_vol new)
                      && forallb (fun t => (ob_t b1 <=? tr_t t) && (tr_t t <? ob_t b1 + batch)) new)
                   (eo_books o1) (eo_books o2)) then 2
      else if negb (all2 (fun b1 b2 =>
                      (* no order is created or forgotten by a step; placed orders arrive within the batch window *)
                      Nat.eqb (length (ob_orders b1)) (length (ob_orders b2))
                      && forallb2 (fun a b =>
                           if status_eqb (o_status a) SNew && negb (status_eqb (o_status b) SNew)
                           then (ob_t b1 <=? o_arr b) && (o_arr b <? ob_t b1 + batch) else true)
                           (ob_orders b1) (ob_orders b2))
                   (eo_books o1) (eo_books o2)) then 3
      else 0
  | _ => 0
  end.

(** ** C14: an operation addressed to one asset changes only that asset *)
Definition c14_ok (o1 : eobs) (o : eop) (o2 : eobs) : N :=
  match o with
  | MDirect a _ | EPlace a _ _ _ _ =>
      if alli (fun i (pr : observation * observation) =>
                 if Nat.eqb i a then true else obs_eqb (fst pr) (snd pr))
              0 (combine (eo_books o1) (eo_books o2))
         && Nat.eqb (length (eo_books o1)) (length (eo_books o2)) then 0 else 1
  | MSetTime t =>
      if all2 (fun b1 b2 => obs_eqb (with_t b2 (ob_t b1)) b1 && (ob_t b2 =? t)) (eo_books o1) (eo_books o2) then 0 else 2
  | _ => 0
  end.

(** ** C13 at market / environment level: an asset whose trading flag is off (as the script's own
    switches leave it: [flags] are the model's, before the operation) records no trade, and a market-wide
    switch by itself changes no book *)
Definition c13e_ok (flags : list bool) (o1 : eobs) (o : eop) (o2 : eobs) : N :=
  if negb (all2 (fun (tr : bool) (pr : observation * observation) =>
                   tr || trades_eqb (ob_trades (fst pr)) (ob_trades (snd pr)))
                flags (combine (eo_books o1) (eo_books o2))) then 1
  else match o with
       | EEnable | EDisable => if all2 obs_eqb (eo_books o1) (eo_books o2) then 0 else 4
       | _ => 0
       end.

Definition clock_shared (o : eobs) : N :=
  match eo_books o with
  | b :: r => if forallb (fun b' => ob_t b' =? ob_t b) r then 0 else 3
  | [] => 0
  end.

(** ** Is the outcome of a step explained by *some* processing schedule?
    (decides whether a divergence at a step concerns C08/C14 or only the
    schedule, i.e. C15) *)
Fixpoint insert_all {A} (x : A) (l : list A) : list (list A) :=
  match l with
  | [] => [[x]]
  | h :: t => (x :: l) :: map (cons h) (insert_all x t)
  end.
Fixpoint perms {A} (l : list A) : list (list A) :=
  match l with
  | [] => [[]]
  | h :: t => flat_map (insert_all h) (perms t)
  end.

Definition books_match (L : nat) (m : market) (impl : list observation) : bool :=
  match all_obs L m with
  | Ok os => all2 obs_eqb os impl
  | Panic => false
  end.

Definition explained (L : nat) (e : menv) (impl : list observation) : bool :=
  match market_time (en_market e) with
  | Panic => false
  | Ok start =>
      existsb (fun q =>
                 match process_all start 0 (map reset_trade_vol (en_market e)) q with
                 | Ok m1 => books_match L (market_set_time m1 (start + en_step e)) impl
                 | Panic => false
                 end)
              (perms (en_queue e))
  end.

(** ** C16: what an agent's [update] may submit (checked on the implementation's
    observations; the agent's own order list is the model's, which agreed with
    the implementation up to this call) *)
Definition f32_ge_one (bits : N) : bool := (1065353216 <=? bits) && (bits <? 2139095041).   (* 1.0 <= x <= +inf *)
Definition f32_le_zero (bits : N) : bool := (bits =? 0) || (2147483648 <=? bits).             (* +0.0 or any negative *)

Definition c16_ok (ag : agent) (o1 o2 : eobs) : N :=
  let a := match ag with ARandom a _ _ | ANoise a _ _ _ _ | AMomentum a _ _ _ _ _ _ => a end in
  let dummy := mkObs 0 0 0 0 0 0 0 0 (0,0) (0,0) [] [] [] (mkL2 0 0 0 0 [] []) 0 [] [] in
  let b1 := nth a (eo_books o1) dummy in
  let b2 := nth a (eo_books o2) dummy in
  let new := skipn (length (ob_orders b1)) (ob_orders b2) in
  let mid2 := ob_bid b1 + ob_ask b1 in                        (* twice the mid-price the agent observed *)
  let others_same :=
    alli (fun i (pr : observation * observation) => if Nat.eqb i a then true else obs_eqb (fst pr) (snd pr))
         0 (combine (eo_books o1) (eo_books o2)) in
  let status1 id := o_status (oget (ob_orders b1) id) in
  if negb others_same then 1
  else if negb (orders_eqb (firstn (length (ob_orders b1)) (ob_orders b2)) (ob_orders b1) && obs_same_but_orders b1 b2) then 2
  else if negb (forallb (fun o => status_eqb (o_status o) SNew) new) then 3
  else
  match ag with
  | ARandom _ slots p =>
      let n := N.of_nat (length slots) in
      let live := N.of_nat (length (filter (fun s => match s with Some id => status_eqb (status1 id) SActive | None => false end) slots)) in
      (* (a tick range that starts at 0 contains the sell-side market sentinel price: no clause on [is_market]) *)
      if negb (forallb (fun o => (o_price o mod rp_tick p =? 0)
                                 && (rp_tick_lo p <=? o_price o / rp_tick p) && (o_price o / rp_tick p <? rp_tick_hi p)
                                 && (rp_vol_lo p <=? o_vol o) && (o_vol o <? rp_vol_hi p) && (o_trader o <? n)) new) then 4
      else if f32_ge_one (rp_rate p) && negb (N.of_nat (length new) =? n - live) then 5
      else if f32_le_zero (rp_rate p) && negb (N.of_nat (length new) =? 0) then 6
      else 0
  | ANoise _ _ first n p =>
      let lim := filter (fun o => negb (is_market o)) new in
      let mkt := filter is_market new in
      if negb (forallb (fun o => (o_vol o =? np_vol p) && (first <=? o_trader o) && (o_trader o <? first + n)
                                 && (is_market o || ((o_price o mod np_tick p =? 0)
                                     && (match o_side o with Bid => 2 * o_price o <=? mid2 | Ask => mid2 <=? 2 * o_price o end)))) new) then 4
      else if f32_ge_one (np_p_limit p) && negb (N.of_nat (length lim) =? n) then 5
      else if f32_le_zero (np_p_limit p) && negb (N.of_nat (length lim) =? 0) then 6
      else if f32_ge_one (np_p_market p) && negb (N.of_nat (length mkt) =? n) then 5
      else if f32_le_zero (np_p_market p) && negb (N.of_nat (length mkt) =? 0) then 6
      else if N.of_nat (length lim) <=? n then (if N.of_nat (length mkt) <=? n then 0 else 7) else 7
  | AMomentum _ _ first n p _ _ =>
      if negb (forallb (fun o => (o_vol o =? mp_vol p) && (first <=? o_trader o) && (o_trader o <? first + n)
                                 && (is_market o || ((o_price o mod mp_tick p =? 0)
                                     && (match o_side o with Bid => 2 * o_price o <=? mid2 | Ask => mid2 <=? 2 * o_price o end)))) new) then 4
      else if negb (forallb (fun o => side_eqb (o_side o) (o_side (hd dummy_order new))) new) then 8     (* one direction per step *)
      else if N.of_nat (length new) <=? 2 * n then 0 else 7
  end.

(** ** Runner state *)
Record estate := mkES {
  es_kind : N; es_L : nat; es_step : N;
  es_env : menv; es_rng : rng;
  es_prev : eobs;
  es_batch : N;        (* instructions submitted since the last step *)
  es_valid : bool; es_ended : bool;
  es_agents : list agent; es_pos : N }.

Definition eobs_cats (a b : eobs) : N :=
  (if all2 (fun x y => obs_cats x y =? 0) (eo_books a) (eo_books b) then 0 else 8)
  + (if list_N_eqb (flat_map enc_l2 (eo_l2 a)) (flat_map enc_l2 (eo_l2 b)) then 0 else 32)
  + (if all2 list_N_eqb (eo_tvols a) (eo_tvols b) then 0 else 64)
  + (if list_N_eqb (flat_map (flat_map enc_l2) (eo_hist a)) (flat_map (flat_map enc_l2) (eo_hist b)) then 0 else 128)
  + (if eo_rng a =? eo_rng b then 0 else 256).

Definition es_init (kind : N) (L : nat) (seed t0 step_size : N) (trading : bool) (ticks : list N)
  (impl_obs : list N) : option estate * list report :=
  match menv_new L t0 ticks step_size trading, dec_eobs kind L impl_obs with
  | Ok e, Some o =>
      let g := seed_from_u64 seed in
      let rep := match eobserve L e g with
                 | Ok mo => match first_diff 0 (enc_eobs kind L mo) impl_obs with
                            | Some i => [RObs (eobs_cats mo o) i] | None => [] end
                 | Panic => [RPanic true] end in
      (Some (mkES kind L step_size e g o 0 true false [] 0), rep)
  | _, _ => (None, [RDecode])
  end.

Definition valid_eop (st : estate) (o : eop) : bool :=
  let books := eo_books (es_prev st) in
  let nb := length books in
  let norders a := length (ob_orders (nth a books (mkObs 0 0 0 0 0 0 0 0 (0,0) (0,0) [] [] [] (mkL2 0 0 0 0 [] []) 0 [] []))) in
  match o with
  | EPlace a _ v _ p =>
      Nat.ltb a nb && (1 <=? v) && (v <? 1048576)
      && (match p with Some p => (0 <? p) && (p <? MAXP) | None => true end)
  | ECancel a id => Nat.ltb a nb && Nat.ltb id (norders a)
  | EModify a id p v => Nat.ltb a nb && Nat.ltb id (norders a) && price_ok 1 p
                        && (match v with Some v => (1 <=? v) && (v <? 1048576) | None => true end)
  | EStep => true
  | MDirect a o' => Nat.ltb a nb
  | _ => true
  end.

Definition es_add_agent (st : estate) (l : list N) : option estate :=
  match dec_agent l with
  | Some ag => Some (mkES (es_kind st) (es_L st) (es_step st) (es_env st) (es_rng st) (es_prev st)
                      (es_batch st) (es_valid st) (es_ended st) (es_agents st ++ [ag]) (es_pos st))
  | None => None
  end.

Definition es_step_fn (lognormal : N -> N -> option (N * N)) (tanh64 : N -> N)
  (st : estate) (opl impl_out impl_obs : list N) : estate * list report :=
  if es_ended st then (st, [])
  else
  let ended := mkES (es_kind st) (es_L st) (es_step st) (es_env st) (es_rng st) (es_prev st)
                 (es_batch st) (es_valid st) true (es_agents st) (es_pos st) in
  (* [20; k]: update agent k; everything else is an environment operation *)
  let parsed : option (eop + nat) :=
    match opl with
    | [20; k] => Some (inr (N.to_nat k))
    | _ => option_map inl (dec_eop opl)
    end in
  match parsed with
  | None => (ended, [RDecode])
  | Some po =>
      let o := match po with inl o => o | inr _ => EEnable end in   (* placeholder for the monitors below *)
      let is_agent := match po with inr _ => true | _ => false end in
      let impl_panicked := list_N_eqb impl_out [9] in
      let mres :=
        match po with
        | inl o =>
            do (e', g', x) <- menv_apply (es_L st) (es_env st) (es_rng st) o;
            do mo <- eobserve (es_L st) e' g';
            let pos' := match o with EStep => es_pos st + shuffle_draws (en_queue (es_env st)) (es_rng st) | _ => es_pos st end in
            Ok (e', g', x, mo, es_agents st, pos')
        | inr k =>
            match nth_error (es_agents st) k with
            | None => Panic
            | Some ag =>
                do (e', c', ag') <- agent_update lognormal tanh64 (N.of_nat k) (es_env st) (mkC (es_rng st) (es_pos st)) ag;
                do mo <- eobserve (es_L st) e' (cg c');
                Ok (e', cg c', ONone, mo, set_nth (es_agents st) k ag', cpos c')
            end
        end in
      match mres with
      | Panic => (ended, if impl_panicked then [] else [RPanic true])
      | Ok (e', g', x, mo, agents', pos') =>
          if impl_panicked then (ended, [RPanic false])
          else
          match dec_out impl_out, dec_eobs (es_kind st) (es_L st) impl_obs with
          | Some ix, Some o2 =>
              let valid := es_valid st && (is_agent || valid_eop st o) in
              let r_out := if list_N_eqb (enc_out x) impl_out then [] else [ROut] in
              let r_obs := match first_diff 0 (enc_eobs (es_kind st) (es_L st) mo) impl_obs with
                           | Some i => [RObs (eobs_cats mo o2) i] | None => [] end in
              let r_sched :=
                match o, r_obs with
                | EStep, _ :: _ =>
                    if negb (all2 obs_eqb (eo_books mo) (eo_books o2)) then
                      if Nat.leb (length (en_queue (es_env st))) 7 then
                        (if explained (es_L st) (es_env st) (eo_books o2) then [RSched 1] else [RSched 0])
                      else [RSched 2]
                    else []
                | _, _ => []
                end in
              let mk p c := if c =? 0 then [] else [RMonitor p c] in
              let batch' := if is_agent then es_batch st + 1000000 (* unknown: excluded from the batch-fits clause *) else match o with
                            | EPlace _ _ _ _ _ => (match ix with OCreated (Created _) => es_batch st + 1 | _ => es_batch st end)
                            | ECancel _ _ | EModify _ _ _ _ => es_batch st + 1
                            | EStep => 0 | _ => es_batch st end in
              let in_c08 := es_batch st <=? es_step st in
              let r_agent :=
                match po with
                | inr k => match nth_error (es_agents st) k with
                           | Some ag => mk 16 (c16_ok ag (es_prev st) o2)
                           | None => [] end
                | _ => []
                end in
              let r_mon :=
                if valid && is_agent then r_agent else
                if valid && negb is_agent then
                  mk 10 (c10_ok (es_L st) (es_prev st) o ix o2)
                  ++ (if es_kind st =? 2 then [] else mk 10 (c10_cache_ok (es_L st) o2))
                  ++ (if es_kind st =? 2 then [] else mk 11 (c11_ok (es_L st) (es_prev st) o o2))
                  ++ (if in_c08 then mk 8 (c08_ok (es_step st) (N.max 1 (es_batch st)) (es_prev st) o o2) else [])
                  ++ mk 14 (c14_ok (es_prev st) o o2) ++ mk 14 (clock_shared o2)
                  ++ mk 13 (c13e_ok (map b_trading (en_market (es_env st))) (es_prev st) o o2)
                else [] in
              (mkES (es_kind st) (es_L st) (es_step st) e' g' o2 batch' valid false agents' pos',
               r_out ++ r_obs ++ r_sched ++ r_mon)
          | _, _ => (ended, [RDecode])
          end
      end
  end.
