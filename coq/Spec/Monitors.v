(** * The properties as executable predicates over observation traces

   Each monitor looks only at what the public API exposes (an [observation]
   before and after one operation, the operation and its result) and returns
   [0] when the property's clauses hold and the number of the first failing
   clause otherwise. They are run on the *implementation's* observations by the
   correspondence check, and the theorems in Proofs/ show that the model's own
   traces satisfy them on every valid history. *)
From Bourse Require Import Model.Types Model.Book Model.Obs Model.Codec Spec.RefBook.

Definition obs_eqb (a b : observation) : bool := list_N_eqb (enc_obs a) (enc_obs b).

Definition subject (n1 : nat) (o : op) : option nat :=
  match o with
  | OCreatePlace _ _ _ _ => Some n1
  | OPlace id | OCancel id | OModify id _ _ => Some id
  | OEvent (EvNew id) | OEvent (EvCancel id) | OEvent (EvModify id _ _) => Some id
  | _ => None
  end.

Definition on_grid (tick p : N) : bool := p mod tick =? 0.
(* an off-grid modification price is inside the domain: the request is ignored (C12) *)
Definition price_in (wide : bool) (p : N) : bool :=
  if wide then p <? W32 else (0 <? p) && (p <? MAXP).
Definition price_ok_gen (wide : bool) (tick : N) (p : option N) : bool :=
  match p with Some p => price_in wide p | None => true end.
Definition price_ok := price_ok_gen false.
Definition vol_ok (v : option N) : bool :=
  match v with Some v => (1 <=? v) && (v <? W32) | None => true end.

(** ** The valid-history clause of the properties, as a predicate on the
    observation before the operation *)
(** [wide = false]: the domain the properties C01-C07 and C13 state (limit prices strictly between 0
    and 2^32-1). [wide = true]: C12's domain, which quantifies over arbitrary prices - every u32 price,
    the two ends included. *)
Definition valid_op_gen (wide : bool) (tick : N) (o1 : observation) (o : op) : bool :=
  let n := length (ob_orders o1) in
  (* room: the side the volume may come to rest on, and the traded-volume counter, stay below 2^32
     (a sufficient condition for the absence of u32 overflow, evaluated before the operation) *)
  let room (sd : side) v :=
    ((match sd with Bid => ob_bid_vol o1 | Ask => ob_ask_vol o1 end) + v <? W32) && (ob_tvol o1 + v <? W32) in
  let side_of id := o_side (oget (ob_orders o1) id) in
  let stamps := ob_t o1 + N.of_nat n + 2 <? MAXT in
  match o with
  | OCreate _ v _ p => (1 <=? v) && (v <? W32) && price_ok_gen wide tick p
  | OCreatePlace sd v _ p =>
      (1 <=? v) && room sd v && stamps && price_ok_gen wide tick p
  | OPlace id | OEvent (EvNew id) =>
      Nat.ltb id n && room (side_of id) (o_vol (oget (ob_orders o1) id)) && stamps
  | OCancel id | OEvent (EvCancel id) => Nat.ltb id n
  | OModify id p v | OEvent (EvModify id p v) =>
      Nat.ltb id n && price_ok_gen wide tick p && vol_ok v && stamps
      && (let ord := oget (ob_orders o1) id in
          let cur := if status_eqb (o_status ord) SActive then o_vol ord else 0 in
          let v' := match v with Some v => v | None => o_vol ord end in
          (* the order's own resting volume is replaced, not added to *)
          ((match side_of id with Bid => ob_bid_vol o1 | Ask => ob_ask_vol o1 end) - cur + v' <? W32) && (ob_tvol o1 + v' <? W32))
  | OSetTime t => (ob_t o1 <=? t) && (t + N.of_nat n + 2 <? MAXT)
  | _ => true
  end.
Definition valid_op := valid_op_gen false.

(** ** C02: every published number equals its recomputation from the order list *)
Definition c02_ok (L : nat) (tick : N) (never_disabled : bool) (o : observation) : N :=
  match ref_observe_tbl L (ob_t o) tick (ob_tvol o) (ob_orders o) (ob_trades o) with
  | Panic => 1
  | Ok r =>
      match first_diff 10 (enc_obs o) (enc_obs r) with
      | Some i => i
      | None =>
          if never_disabled
             && negb (match resting Bid (ob_orders o) with [] => true | _ => false end)
             && negb (match resting Ask (ob_orders o) with [] => true | _ => false end)
             && negb (ob_bid o <? ob_ask o)
          then 2 else 0
      end
  end.

(** ** C03: ledger audit across one operation *)
Definition traded (id : nat) (l : list trade) : N :=
  fold_right (fun t a => (if Nat.eqb (tr_active t) id || Nat.eqb (tr_passive t) id then tr_vol t else 0) + a) 0 l.
Definition trades_vol (l : list trade) : N := fold_right (fun t a => tr_vol t + a) 0 l.

Definition trade_eqb (a b : trade) : bool := list_N_eqb (enc_trade a) (enc_trade b).
Fixpoint trades_eqb (a b : list trade) : bool :=
  match a, b with
  | [], [] => true
  | x :: a', y :: b' => trade_eqb x y && trades_eqb a' b'
  | _, _ => false
  end.

Definition c03_trade_ok (o1 o2 : observation) (subj : option nat) (t : trade) : bool :=
  let n1 := length (ob_orders o1) in
  match subj with
  | None => false
  | Some a =>
      let pass := oget (ob_orders o1) (tr_passive t) in
      let agg := oget (ob_orders o2) a in
      (tr_t t =? ob_t o2) && (1 <=? tr_vol t)
      && Nat.eqb (tr_active t) a && Nat.ltb (tr_passive t) n1 && negb (Nat.eqb (tr_passive t) a)
      && status_eqb (o_status pass) SActive
      && side_eqb (tr_side t) (o_side pass) && (tr_price t =? o_price pass)
      && side_eqb (o_side agg) (opp (o_side pass))
      && admits agg pass
  end.

Definition c03_ok (tick : N) (o1 : observation) (o : op) (o2 : observation) : N :=
  let n1t := length (ob_trades o1) in
  let n1 := length (ob_orders o1) in
  let new := skipn n1t (ob_trades o2) in
  if negb (trades_eqb (firstn n1t (ob_trades o2)) (ob_trades o1)) then 1
  else if negb (forallb (c03_trade_ok o1 o2 (subject n1 o)) new) then 2
  else if negb (match o with
                | OResetTvol => ob_tvol o2 =? 0
                | _ => ob_tvol o2 =? ob_tvol o1 + trades_vol new end) then 3
  else
    let base (id : nat) (ord1 : order) : N :=
      match o with
      | OModify i np nv | OEvent (EvModify i np nv) =>
          if Nat.eqb i id && status_eqb (o_status ord1) SActive
             && (match np with Some p => on_grid tick p | None => true end)
          then match nv with Some v => v | None => o_vol ord1 end
          else o_vol ord1
      | _ => o_vol ord1
      end in
    let conserve (ord2 : order) : bool :=
      let id := o_id ord2 in
      if Nat.ltb id n1
      then o_vol ord2 + traded id new =? base id (oget (ob_orders o1) id)
      else o_vol ord2 + traded id new =? o_start ord2 in
    if negb (forallb conserve (ob_orders o2)) then 4 else 0.

(** ** C04: one-way lifecycle, stable identity, redundant requests are no-ops *)
Definition terminal (st : status) : bool :=
  match st with SFilled | SCancelled | SRejected => true | _ => false end.

Definition transition_ok (market trading : bool) (a b : status) : bool :=
  match a, b with
  | SNew, SNew => true
  | SNew, SActive => negb market
  | SNew, SFilled => true
  | SNew, SCancelled => market
  | SNew, SRejected => market && negb trading
  | SActive, SActive | SActive, SFilled | SActive, SCancelled => negb market
  | SFilled, SFilled | SCancelled, SCancelled | SRejected, SRejected => true
  | _, _ => false
  end.

Definition order_eqb (a b : order) : bool := list_N_eqb (enc_order a) (enc_order b).

Definition c04_order_ok (trading : bool) (t2 : N) (a b : order) : bool :=
  side_eqb (o_side a) (o_side b) && (o_trader a =? o_trader b) && Nat.eqb (o_id a) (o_id b)
  && (o_start a =? o_start b)
  && transition_ok (is_market a) trading (o_status a) (o_status b)
  && (if terminal (o_status a) then order_eqb a b else true)
  && (if status_eqb (o_status a) SNew && negb (status_eqb (o_status b) SNew)
      then o_arr b =? t2 else o_arr b =? o_arr a)
  && (if terminal (o_status b)
      then (if terminal (o_status a) then true else o_end b =? t2)
      else o_end b =? MAXT).

Fixpoint ids_dense (i : nat) (l : list order) : bool :=
  match l with [] => true | o :: r => Nat.eqb (o_id o) i && ids_dense (S i) r end.

Fixpoint forallb2 {A} (f : A -> A -> bool) (a b : list A) : bool :=
  match a, b with
  | x :: a', y :: b' => f x y && forallb2 f a' b'
  | _, _ => true
  end.

Definition with_t (o : observation) (t : N) : observation :=
  mkObs t (ob_tvol o) (ob_bid o) (ob_ask o) (ob_bid_vol o) (ob_ask_vol o) (ob_bid_bv o)
    (ob_ask_bv o) (ob_bid_bvo o) (ob_ask_bvo o) (ob_bid_levels o) (ob_ask_levels o)
    (ob_l1 o) (ob_l2 o) (ob_mid o) (ob_orders o) (ob_trades o).

Definition redundant (o1 : observation) (o : op) : bool :=
  let st id := o_status (oget (ob_orders o1) id) in
  match o with
  | OPlace id | OEvent (EvNew id) => negb (status_eqb (st id) SNew)
  | OCancel id | OEvent (EvCancel id) => negb (status_eqb (st id) SActive)
  | OModify id _ _ | OEvent (EvModify id _ _) => negb (status_eqb (st id) SActive)
  | OSetTime _ => true
  | _ => false
  end.

Definition c04_ok (trading : bool) (o1 : observation) (o : op) (x : out) (o2 : observation) : N :=
  let n1 := length (ob_orders o1) in
  let n2 := length (ob_orders o2) in
  let created := match x with OCreated (Created _) => true | _ => false end in
  if negb (Nat.eqb n2 (if created then S n1 else n1)) then 1
  else if negb (match x with OCreated (Created id) => Nat.eqb id n1 | _ => true end) then 2
  else if negb (ids_dense 0 (ob_orders o2)) then 3
  else if negb (forallb2 (c04_order_ok trading (ob_t o2)) (ob_orders o1) (ob_orders o2)) then 4
  else if negb (forallb (fun b =>
                  (* a freshly created order: its own life so far *)
                  c04_order_ok trading (ob_t o2)
                    (mkOrder (o_side b) SNew (ob_t o1) MAXT (o_start b) (o_start b) (o_price b) (o_trader b) (o_id b)) b
                  && (if status_eqb (o_status b) SNew then (o_arr b =? ob_t o1) && (o_vol b =? o_start b) else true))
                (skipn n1 (ob_orders o2))) then 5
  else if redundant o1 o
          && negb (obs_eqb (with_t o2 (ob_t o1)) o1 && match o with OSetTime t => ob_t o2 =? t | _ => ob_t o2 =? ob_t o1 end)
       then 6
  else 0.

(** ** C12: creation succeeds iff the price is on the grid; failures leave no trace;
    every price in the book is on the grid; published levels account for all
    resting volume within their range *)
Definition in_levels (sd : side) (tick : N) (L : nat) (tch p : N) : bool :=
  match sd with
  | Bid => (p <=? tch) && (tch - p <? N.of_nat L * tick)
  | Ask => (tch <=? p) && (p - tch <? N.of_nat L * tick)
  end.

(** creation clause: applies to *every* creation request, whatever its price *)
Definition c12_create_ok (tick : N) (o1 : observation) (o : op) (x : out) (o2 : observation) : bool :=
  let create_ok p := match p with Some p => on_grid tick p | None => true end in
  match o, x with
  | (OCreate _ _ _ p | OCreatePlace _ _ _ p), OCreated (Created _) => create_ok p
  | (OCreate _ _ _ (Some p) | OCreatePlace _ _ _ (Some p)), OCreated (PriceError p' t') =>
      negb (on_grid tick p) && (p' =? p) && (t' =? tick) && obs_eqb o2 o1
  | (OCreate _ _ _ _ | OCreatePlace _ _ _ _), _ => false
  | _, ONone => true
  | _, _ => false
  end.

Definition c12_ok (L : nat) (tick : N) (o1 : observation) (o : op) (x : out) (o2 : observation) : N :=
  if negb (c12_create_ok tick o1 o x o2) then 1
  else if negb (forallb (fun b => is_market b || on_grid tick (o_price b)) (ob_orders o2)) then 2
  else
    let acct sd lv :=
      let r := resting sd (ob_orders o2) in
      let tch := touch sd (ob_orders o2) in
      fold_right (fun (pc : N * N) a => fst pc + a) 0 lv
      =? sum_vol (filter (fun b => in_levels sd tick L tch (o_price b)) r) in
    if negb (acct Bid (ob_bid_levels o2) && acct Ask (ob_ask_levels o2)) then 3 else 0.

(** ** C13: while trading is disabled nothing trades *)
Definition c13_ok (trading : bool) (o1 : observation) (o : op) (o2 : observation) : N :=
  let n1 := length (ob_orders o1) in
  if trading then
    match o with
    | ODisable => if obs_eqb o2 o1 then 0 else 4
    | OEnable => if obs_eqb o2 o1 then 0 else 4
    | _ => 0
    end
  else
    if negb (trades_eqb (ob_trades o2) (ob_trades o1)) then 1
    else if negb (ob_tvol o2 =? match o with OResetTvol => 0 | _ => ob_tvol o1 end) then 1
    else match o with
         | OEnable | ODisable => if obs_eqb o2 o1 then 0 else 4
         | OPlace _ | OCreatePlace _ _ _ _ | OEvent (EvNew _) =>
             match subject n1 o with
             | Some id =>
                 let b := oget (ob_orders o2) id in
                 let was_new := if Nat.ltb id n1 then status_eqb (o_status (oget (ob_orders o1) id)) SNew
                                else Nat.ltb id (length (ob_orders o2)) in
                 if negb was_new then 0
                 else if is_market b
                 then (if status_eqb (o_status b) SRejected
                          && (ob_bid_vol o2 =? ob_bid_vol o1) && (ob_ask_vol o2 =? ob_ask_vol o1)
                          && (ob_bid o2 =? ob_bid o1) && (ob_ask o2 =? ob_ask o1) then 0 else 2)
                 else (if status_eqb (o_status b) SActive && (o_vol b =? o_start b) then 0 else 3)
             | None => 0
             end
         | _ => 0
         end.
