(** * The reference matching engine

   The "straightforward reference matching engine" of property C01, written as
   simply as possible: no keys, no time-stamps in the index, no aggregates.
   State = the order table, the trade log, the clock, the trading flag, the
   traded-volume counter and, per side, the *list of ids of resting orders in
   priority order* (best first). All published market data is recomputed from
   the order table alone. *)
From Bourse Require Import Model.Types Model.Book Model.Obs.

Record rbook := mkRef {
  r_t : N; r_tick : N; r_tvol : N;
  r_orders : list order;
  r_bidq : list nat; r_askq : list nat;
  r_trades : list trade; r_trading : bool }.

Definition ref_new (t0 tick : N) (trading : bool) : rbook :=
  mkRef t0 tick 0 [] [] [] [] trading.

Definition dummy_order : order := mkOrder Bid SNew 0 0 0 0 0 0 0.
Definition oget (tbl : list order) (id : nat) : order := nth id tbl dummy_order.

Definition rq (r : rbook) (sd : side) : list nat :=
  match sd with Bid => r_bidq r | Ask => r_askq r end.
Definition set_rq (r : rbook) (sd : side) (q : list nat) : rbook :=
  match sd with
  | Bid => mkRef (r_t r) (r_tick r) (r_tvol r) (r_orders r) q (r_askq r) (r_trades r) (r_trading r)
  | Ask => mkRef (r_t r) (r_tick r) (r_tvol r) (r_orders r) (r_bidq r) q (r_trades r) (r_trading r)
  end.
Definition set_rorders (r : rbook) (x : list order) : rbook :=
  mkRef (r_t r) (r_tick r) (r_tvol r) x (r_bidq r) (r_askq r) (r_trades r) (r_trading r).

(** does the aggressor's limit admit trading at the resting order's price? *)
Definition admits (agg pass : order) : bool :=
  match o_side agg with
  | Bid => o_price pass <=? o_price agg
  | Ask => o_price agg <=? o_price pass
  end.

(** is resting order [h] at a price at least as good as [o]'s (same side)? *)
Definition better_eq (o h : order) : bool :=
  match o_side o with
  | Bid => o_price o <=? o_price h
  | Ask => o_price h <=? o_price o
  end.

(** Walk the opposite queue from its head while the aggressor has volume left
    and its limit admits the head's price: fill [min] of the two remaining
    volumes at the head's price, drop the head when exhausted. *)
Fixpoint ref_match (t : N) (agg : order) (tbl : list order) (q : list nat)
  (log : list trade) (tv : N) : order * list order * list nat * list trade * N :=
  match q with
  | [] => (agg, tbl, [], log, tv)
  | id :: q' =>
      let p := oget tbl id in
      if (0 <? o_vol agg) && admits agg p then
        (* one fill ([Book.match_orders], characterised by theorem c03_fill_record): the smaller of the two
           remaining volumes, at the resting order's price; an exhausted order becomes Filled at time [t] *)
        let '(a2, p2, tr, v) := match_orders t agg p in
        let tbl' := set_nth tbl id p2 in
        if o_vol p2 =? 0 then ref_match t a2 tbl' q' (log ++ [tr]) (tv + v)
        else (a2, tbl', id :: q', log ++ [tr], tv + v)
      else (agg, tbl, q, log, tv)
  end.

(** Rest behind every id whose price is better or equal. *)
Fixpoint ref_insert (tbl : list order) (o : order) (id : nat) (q : list nat) : list nat :=
  match q with
  | [] => [id]
  | h :: q' => if better_eq o (oget tbl h) then h :: ref_insert tbl o id q' else id :: q
  end.

Fixpoint remove_id (id : nat) (q : list nat) : list nat :=
  match q with
  | [] => []
  | h :: q' => if Nat.eqb h id then q' else h :: remove_id id q'
  end.

(** An order [o] (already taken out of its own queue if it was resting)
    arrives: match if trading, then rest (limit) the remainder. *)
Definition ref_arrive (r : rbook) (o : order) : rbook * order :=
  let sd := o_side o in
  let '(o1, tbl, oq, log, tv) :=
    if r_trading r then ref_match (r_t r) o (r_orders r) (rq r (opp sd)) (r_trades r) (r_tvol r)
    else (o, r_orders r, rq r (opp sd), r_trades r, r_tvol r) in
  let r1 := set_rq (mkRef (r_t r) (r_tick r) tv tbl (r_bidq r) (r_askq r) log (r_trading r)) (opp sd) oq in
  if status_eqb (o_status o1) SFilled then (r1, o1)
  else (set_rq r1 sd (ref_insert tbl o1 (o_id o1) (rq r1 sd)), o1).

Definition is_market (o : order) : bool :=
  match o_side o with Bid => o_price o =? MAXP | Ask => o_price o =? 0 end.

Definition ref_place (r : rbook) (id : nat) : option rbook :=
  match nth_error (r_orders r) id with
  | None => None
  | Some o =>
      if negb (status_eqb (o_status o) SNew) then Some r
      else
        let o0 := set_arr (set_status o SActive) (r_t r) in
        let sd := o_side o0 in
        if is_market o0 then
          if r_trading r then
            let '(o1, tbl, oq, log, tv) :=
              ref_match (r_t r) o0 (r_orders r) (rq r (opp sd)) (r_trades r) (r_tvol r) in
            let o2 := if status_eqb (o_status o1) SFilled then o1
                      else set_end (set_status o1 SCancelled) (r_t r) in
            let r1 := set_rq (mkRef (r_t r) (r_tick r) tv tbl (r_bidq r) (r_askq r) log (r_trading r)) (opp sd) oq in
            Some (set_rorders r1 (set_nth (r_orders r1) id o2))
          else Some (set_rorders r (set_nth (r_orders r) id (set_end (set_status o0 SRejected) (r_t r))))
        else
          let '(r1, o1) := ref_arrive r o0 in
          Some (set_rorders r1 (set_nth (r_orders r1) id o1))
  end.

Definition ref_create (r : rbook) (sd : side) (vol trader : N) (price : option N)
  : rbook * create_out :=
  let id := length (r_orders r) in
  let mk p := (set_rorders r (r_orders r ++ [mkOrder sd SNew (r_t r) MAXT vol vol p trader id]), Created id) in
  match price with
  | Some p => if p mod (r_tick r) =? 0 then mk p else (r, PriceError p (r_tick r))
  | None => mk (match sd with Bid => MAXP | Ask => 0 end)
  end.

Definition ref_cancel (r : rbook) (id : nat) : option rbook :=
  match nth_error (r_orders r) id with
  | None => None
  | Some o =>
      if status_eqb (o_status o) SActive then
        let o1 := set_end (set_status o SCancelled) (r_t r) in
        let sd := o_side o in
        Some (set_rq (set_rorders r (set_nth (r_orders r) id o1)) sd (remove_id id (rq r sd)))
      else Some r
  end.

(** take the order out of the book and re-enter it as if newly arrived *)
Definition ref_replace (r : rbook) (id : nat) (o : order) (p v : N) : rbook :=
  let sd := o_side o in
  let r0 := set_rq r sd (remove_id id (rq r sd)) in
  let '(r1, o1) := ref_arrive r0 (set_price (set_vol o v) p) in
  set_rorders r1 (set_nth (r_orders r1) id o1).

Definition ref_modify (r : rbook) (id : nat) (np nv : option N) : option rbook :=
  match nth_error (r_orders r) id with
  | None => None
  | Some o =>
      if (match np with Some p => negb (p mod (r_tick r) =? 0) | None => false end) then Some r
      else if negb (status_eqb (o_status o) SActive) then Some r
      else match np, nv with
           | None, None => Some r
           | None, Some v =>
               if v <? o_vol o then Some (set_rorders r (set_nth (r_orders r) id (set_vol o v)))
               else Some (ref_replace r id o (o_price o) v)
           | Some p, None => Some (ref_replace r id o p (o_vol o))
           | Some p, Some v => Some (ref_replace r id o p v)
           end
  end.

Definition ref_step (r : rbook) (o : op) : option (rbook * out) :=
  match o with
  | OCreate sd v tr p => let '(r1, c) := ref_create r sd v tr p in Some (r1, OCreated c)
  | OCreatePlace sd v tr p =>
      match ref_create r sd v tr p with
      | (r1, Created id) => option_map (fun r2 => (r2, OCreated (Created id))) (ref_place r1 id)
      | (r1, e) => Some (r1, OCreated e)
      end
  | OPlace id | OEvent (EvNew id) => option_map (fun r1 => (r1, ONone)) (ref_place r id)
  | OCancel id | OEvent (EvCancel id) => option_map (fun r1 => (r1, ONone)) (ref_cancel r id)
  | OModify id p v | OEvent (EvModify id p v) => option_map (fun r1 => (r1, ONone)) (ref_modify r id p v)
  | OSetTime t => Some (mkRef t (r_tick r) (r_tvol r) (r_orders r) (r_bidq r) (r_askq r) (r_trades r) (r_trading r), ONone)
  | OEnable => Some (mkRef (r_t r) (r_tick r) (r_tvol r) (r_orders r) (r_bidq r) (r_askq r) (r_trades r) true, ONone)
  | ODisable => Some (mkRef (r_t r) (r_tick r) (r_tvol r) (r_orders r) (r_bidq r) (r_askq r) (r_trades r) false, ONone)
  | OResetTvol => Some (mkRef (r_t r) (r_tick r) 0 (r_orders r) (r_bidq r) (r_askq r) (r_trades r) (r_trading r), ONone)
  | OReload => Some (r, ONone)
  end.

(** ** Market data recomputed from the order table alone *)
Definition resting (sd : side) (tbl : list order) : list order :=
  filter (fun o => status_eqb (o_status o) SActive && side_eqb (o_side o) sd) tbl.

Definition sum_vol (l : list order) : N := fold_right (fun o a => o_vol o + a) 0 l.
Definition count (l : list order) : N := N.of_nat (length l).
Definition at_price (p : N) (l : list order) : list order :=
  filter (fun o => o_price o =? p) l.

Definition best_bid (tbl : list order) : N :=
  fold_right (fun o a => N.max (o_price o) a) 0 (resting Bid tbl).
Definition best_ask (tbl : list order) : N :=
  fold_right (fun o a => N.min (o_price o) a) MAXP (resting Ask tbl).
Definition touch (sd : side) (tbl : list order) : N :=
  match sd with Bid => best_bid tbl | Ask => best_ask tbl end.

Definition vol_count_at (sd : side) (tbl : list order) (p : N) : N * N :=
  let l := at_price p (resting sd tbl) in (sum_vol l, count l).

Definition ref_levels (sd : side) (tbl : list order) (tick : N) (L : nat) : res (list (N * N)) :=
  (fix go (i n : nat) : res (list (N * N)) :=
     match n with
     | O => Ok []
     | S n' =>
         do p <- level_price sd (touch sd tbl) tick i;
         do rest <- go (S i) n';
         Ok (vol_count_at sd tbl p :: rest)
     end) O L.

Definition ref_observe_tbl (L : nat) (t tick tvol : N) (tbl : list order) (trades : list trade)
  : res observation :=
  let bb := best_bid tbl in let ba := best_ask tbl in
  let bv := sum_vol (resting Bid tbl) in let av := sum_vol (resting Ask tbl) in
  let bvo := if resting Bid tbl then (0, 0) else vol_count_at Bid tbl bb in
  let avo := if resting Ask tbl then (0, 0) else vol_count_at Ask tbl ba in
  do bl <- ref_levels Bid tbl tick L;
  do al <- ref_levels Ask tbl tick L;
  Ok (mkObs t tvol bb ba bv av (fst bvo) (fst avo) bvo avo bl al
        [bb; ba; bv; av; fst bvo; fst avo; snd bvo; snd avo]
        (mkL2 bb ba bv av bl al) (f64_bits_of_half (bb + ba)) tbl trades).

Definition ref_observe (L : nat) (r : rbook) : res observation :=
  ref_observe_tbl L (r_t r) (r_tick r) (r_tvol r) (r_orders r) (r_trades r).
