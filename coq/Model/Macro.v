(** * The derive macros (crates/macros/src/lib.rs) as a function on field lists

   A macro whose shape is the canonical one (the field list is [fields.named] of
   a named-field struct, walked once by [for field in fields], each field with
   a name emitting exactly [self.#field_name.update(env, rng);] into the token
   stream that is spliced as the whole body of [update]) expands to one call
   per named field, in declaration order. *)
From Coq Require Import String List. Import ListNotations.
From Bourse Require Import Generated.MacroShapes.
Open Scope string_scope.

(** a struct field: [Some ident] for a named field *)
Definition field := option string.

(** the emitted calls, by field name *)
Fixpoint expand (fields : list field) : list string :=
  match fields with
  | [] => []
  | Some f :: r => f :: expand r       (* [if field_name.is_some()] -> one call *)
  | None :: r => expand r
  end.

(** semantics of a call list: sequential composition on a shared state
    (environment and generator), [upd f] being field [f]'s own [update] *)
Section Sem.
Variable St : Type.
Variable upd : string -> St -> St.
Definition run_calls (calls : list string) (s : St) : St := fold_left (fun st f => upd f st) calls s.

(** the hand-written equivalent: update each named field once, in declaration
    order, on the state left by the previous one *)
Fixpoint hand_written (fields : list field) (s : St) : St :=
  match fields with
  | [] => s
  | Some f :: r => hand_written r (upd f s)
  | None :: r => hand_written r s
  end.

Lemma derive_is_sequence fields s : run_calls (expand fields) s = hand_written fields s.
Proof.
  unfold run_calls. revert s; induction fields as [|[f|] r IH]; intros s; cbn; auto.
Qed.

(** each named field exactly once, in order: the call list is the list of names *)
Lemma expand_names (names : list string) : expand (map Some names) = names.
Proof. induction names as [|n r IH]; cbn; [reflexivity | rewrite IH; reflexivity]. Qed.

(** nesting: a field that is itself a derived set contributes its own members'
    calls, in its own declaration order, at that field's position *)
Lemma nested_flattens (pre inner post : list string) s :
  run_calls (pre ++ inner ++ post) s = run_calls post (run_calls inner (run_calls pre s)).
Proof. unfold run_calls. rewrite !fold_left_app. reflexivity. Qed.
End Sem.

Definition canonical_fields_from : string :=
  "match&ast.data{syn::Data::Struct(syn::DataStruct{fields:syn::Fields::Named(fields),..})=>&fields.named,_=>panic!(""expectedastructwithnamedfields""),};".

Definition canonical (trait_sig : string) : macro_shape :=
  mkShape canonical_fields_from "for field in fields" "name,fields,call_tokens,field_name,output"
    "field_name.is_some()" "self.#field_name.update(env,rng);" trait_sig 0.

Definition agent_set_sig : string :=
  "implbourse_de::agents::AgentSetfor#name{fnupdate<R:rand::RngCore>(&mutself,env:&mutbourse_de::Env,rng:&mutR){#call_tokens}}".
Definition market_agent_set_sig : string :=
  "implbourse_de::agents::MarketAgentSetfor#name{fnupdate<R:rand::RngCore,constM:usize,constN:usize>(&mutself,env:&mutbourse_de::MarketEnv<M,N>,rng:&mutR){#call_tokens}}".
