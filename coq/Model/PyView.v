(** * The PyO3 classes as views of the core (rust/src/order_book.rs, step_sim.rs, types.rs)

   Argument extraction happens *before* the method body: a Python integer
   outside the Rust type's range raises [OverflowError] and the wrapped object
   is never touched. The method bodies are the core calls; results are encoded
   as documented (sides as booleans, statuses as small integers, orders and
   trades as tuples). *)
From Bourse Require Import Model.Types Model.Book Model.Obs Model.Codec.
From Coq Require Import ZArith.

Inductive pyerr := OverflowError | ValueError.
Inductive pyres (A : Type) := PyOk (a : A) | PyErr (e : pyerr) | PyPanic.
Arguments PyOk {A} a. Arguments PyErr {A} e. Arguments PyPanic {A}.

Definition ext_u32 (z : Z) : option N := if ((0 <=? z) && (z <? 4294967296))%Z then Some (Z.to_N z) else None.
Definition ext_u64 (z : Z) : option N := if ((0 <=? z) && (z <? 18446744073709551616))%Z then Some (Z.to_N z) else None.
Definition ext_usize (z : Z) : option nat := option_map N.to_nat (ext_u64 z).
Definition ext_opt_u32 (z : option Z) : option (option N) :=
  match z with None => Some None | Some z => option_map Some (ext_u32 z) end.

Definition side_of_bool (b : bool) : side := if b then Bid else Ask.
Definition bool_of_side (s : side) : bool := match s with Bid => true | Ask => false end.
Definition status_code (st : status) : N := enc_status st.

(** [OrderBook.place_order(bid, vol, trader_id, price=None)] *)
Definition py_place_order (s : book) (bid : bool) (vol trader : Z) (price : option Z) : book * pyres nat :=
  match ext_u32 vol, ext_u32 trader, ext_opt_u32 price with
  | Some v, Some tr, Some p =>
      match create_and_place_order s (side_of_bool bid) v tr p with
      | Ok (s', Created id) => (s', PyOk id)
      | Ok (s', PriceError _ _) => (s', PyErr ValueError)
      | Panic => (s, PyPanic)
      end
  | _, _, _ => (s, PyErr OverflowError)
  end.

Definition py_cancel_order (s : book) (id : Z) : book * pyres unit :=
  match ext_usize id with
  | Some i => match cancel_order s i with Ok s' => (s', PyOk tt) | Panic => (s, PyPanic) end
  | None => (s, PyErr OverflowError)
  end.

Definition py_modify_order (s : book) (id : Z) (np nv : option Z) : book * pyres unit :=
  match ext_usize id, ext_opt_u32 np, ext_opt_u32 nv with
  | Some i, Some p, Some v => match modify_order s i p v with Ok s' => (s', PyOk tt) | Panic => (s, PyPanic) end
  | _, _, _ => (s, PyErr OverflowError)
  end.

Definition py_set_time (s : book) (t : Z) : book * pyres unit :=
  match ext_u64 t with Some t => (set_time s t, PyOk tt) | None => (s, PyErr OverflowError) end.

(** tuple encoders ([cast_order], [cast_trade]) *)
Definition py_order (o : order) : list N :=
  [if bool_of_side (o_side o) then 1 else 0; status_code (o_status o); o_arr o; o_end o; o_vol o; o_start o;
   o_price o; o_trader o; N.of_nat (o_id o)].
Definition py_trade (t : trade) : list N :=
  [tr_t t; if bool_of_side (tr_side t) then 1 else 0; tr_price t; tr_vol t; N.of_nat (tr_active t); N.of_nat (tr_passive t)].
Definition py_get_orders (s : book) : list (list N) := map (fun e => py_order (e_order e)) (b_orders s).
Definition py_get_trades (s : book) : list (list N) := map py_trade (b_trades s).
