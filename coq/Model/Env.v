(** * Multi-asset market, and the step environments
   (crates/order_book/src/market.rs, crates/step_sim/src/{env,market_env,data}.rs)

   [Market<ASSETS, LEVELS>] is a vector of books; [MarketEnv] adds the shared
   instruction queue, the cached level-2 data and the recorded histories.
   [Env] (single asset) is modelled as the one-asset instance: the two Rust
   types have the same structure, and the correspondence check drives both. *)
From Bourse Require Import Model.Types Model.Map Model.Side Model.Book Model.Obs Model.Rng.

Definition market := list book.

Fixpoint upd_nth {A} (l : list A) (i : nat) (f : A -> res A) : res (list A) :=
  match l, i with
  | [], _ => Panic                                  (* [self.order_books[asset]] out of range *)
  | h :: t, O => do h' <- f h; Ok (h' :: t)
  | h :: t, S i' => do t' <- upd_nth t i' f; Ok (h :: t')
  end.

Fixpoint market_new (t0 : N) (ticks : list N) (trading : bool) : res market :=
  match ticks with
  | [] => Ok []
  | tk :: r => do b <- book_new t0 tk trading; do m <- market_new t0 r trading; Ok (b :: m)
  end.

(** [Event<MarketOrderId>] *)
Inductive mevent :=
| MNew (a id : nat)
| MCancel (a id : nat)
| MModify (a id : nat) (np nv : option N).

Definition mev_asset (e : mevent) : nat :=
  match e with MNew a _ | MCancel a _ | MModify a _ _ _ => a end.
Definition mev_event (e : mevent) : event :=
  match e with MNew _ id => EvNew id | MCancel _ id => EvCancel id | MModify _ id p v => EvModify id p v end.

(** [Market::process_event]: dispatch to the addressed book (with the per-operation
    overflow check of [Book.step]) *)
Definition book_event (b : book) (ev : event) : res book :=
  do (b', _) <- step b (OEvent ev); Ok b'.
Definition market_process (m : market) (e : mevent) : res market :=
  upd_nth m (mev_asset e) (fun b => book_event b (mev_event e)).

Definition market_set_time (m : market) (t : N) : market := map (fun b => set_time b t) m.
Definition market_time (m : market) : res N :=
  match m with b :: _ => Ok (b_t b) | [] => Panic end.      (* [self.order_books[0]] *)

(** [Level2DataRecords]: the history is the list of appended records; each
    recorded series is a projection of it (see [Codec]/[EnvObs]). *)
Record menv := mkEnv {
  en_step : N;
  en_market : market;
  en_tvols : list (list N);        (* per asset, one entry per step *)
  en_queue : list mevent;
  en_l2 : list l2data;             (* cached level-2 data, per asset *)
  en_hist : list (list l2data) }.  (* per asset, one record per step *)

Fixpoint all_l2 (L : nat) (m : market) : res (list l2data) :=
  match m with
  | [] => Ok []
  | b :: r => do x <- level_2_data L b; do xs <- all_l2 L r; Ok (x :: xs)
  end.

Definition menv_new (L : nat) (t0 : N) (ticks : list N) (step_size : N) (trading : bool) : res menv :=
  do m <- market_new t0 ticks trading;
  do l2 <- all_l2 L m;
  Ok (mkEnv step_size m (map (fun _ => []) ticks) [] l2 (map (fun _ => []) ticks)).

(** the [for (i, t) in transactions.into_iter().enumerate()] loop *)
Fixpoint process_all (start : N) (i : N) (m : market) (q : list mevent) : res market :=
  match q with
  | [] => Ok m
  | e :: r =>
      if MAXT <? start + i then Panic                         (* [start_time + i] overflows u64 *)
      else do m1 <- market_process (market_set_time m (start + i)) e;
           process_all start (i + 1) m1 r
  end.

(** [MarketEnv::step] / [Env::step] *)
Definition menv_step (L : nat) (e : menv) (g : rng) : res (menv * rng) :=
  do start <- market_time (en_market e);
  let m0 := map reset_trade_vol (en_market e) in
  match shuffle (en_queue e) g with
  | None => Panic                                             (* rejection loop out of fuel: modelled as failure *)
  | Some (q, g') =>
      do m1 <- process_all start 0 m0 q;
      if MAXT <? start + en_step e then Panic
      else
        let m2 := market_set_time m1 (start + en_step e) in
        do l2 <- all_l2 L m2;
        Ok (mkEnv (en_step e) m2
              (map (fun p => fst p ++ [b_tvol (snd p)]) (combine (en_tvols e) m2))
              []
              l2
              (map (fun p => fst p ++ [snd p]) (combine (en_hist e) l2)),
            g')
  end.

Definition set_market (e : menv) (m : market) : menv :=
  mkEnv (en_step e) m (en_tvols e) (en_queue e) (en_l2 e) (en_hist e).
Definition push_event (e : menv) (ev : mevent) : menv :=
  mkEnv (en_step e) (en_market e) (en_tvols e) (en_queue e ++ [ev]) (en_l2 e) (en_hist e).

(** [place_order]: create (not place) the order and queue the instruction *)
Definition menv_place (e : menv) (a : nat) (sd : side) (vol trader : N) (price : option N)
  : res (menv * create_out) :=
  match nth_error (en_market e) a with
  | None => Panic
  | Some b =>
      let '(b', c) := create_order b sd vol trader price in
      match c with
      | Created id =>
          do m' <- upd_nth (en_market e) a (fun _ => Ok b');
          Ok (push_event (set_market e m') (MNew a id), c)
      | _ => Ok (e, c)
      end
  end.

Inductive eop :=
| EPlace (a : nat) (sd : side) (vol trader : N) (price : option N)
| ECancel (a id : nat)
| EModify (a id : nat) (np nv : option N)
| EStep
| EEnable
| EDisable
(* direct operations on a [Market] (no environment involved) *)
| MDirect (a : nat) (o : op)
| MSetTime (t : N)
| MResetTvols.

Definition menv_apply (L : nat) (e : menv) (g : rng) (o : eop) : res (menv * rng * out) :=
  match o with
  | EPlace a sd v tr p => do (e', c) <- menv_place e a sd v tr p; Ok (e', g, OCreated c)
  | ECancel a id => Ok (push_event e (MCancel a id), g, ONone)
  | EModify a id p v => Ok (push_event e (MModify a id p v), g, ONone)
  | EStep => do (e', g') <- menv_step L e g; Ok (e', g', ONone)
  | EEnable => Ok (set_market e (map (fun b => set_trading b true) (en_market e)), g, ONone)
  | EDisable => Ok (set_market e (map (fun b => set_trading b false) (en_market e)), g, ONone)
  | MDirect a o' =>
      match nth_error (en_market e) a with
      | None => Panic
      | Some b =>
          do (b', x) <- step b o';
          do m' <- upd_nth (en_market e) a (fun _ => Ok b');
          Ok (set_market e m', g, x)
      end
  | MSetTime t => Ok (set_market e (market_set_time (en_market e) t), g, ONone)
  | MResetTvols => Ok (set_market e (map reset_trade_vol (en_market e)), g, ONone)
  end.
