(** * The built-in agents (crates/step_sim/src/agents/{common,random_agent,
    noise_agent,momentum_agent}.rs), line for line, single- and multi-asset
    (the single-asset types are the asset-0 instance: same code shape).

   Two library functions have no Coq counterpart and are *oracles* (section
   variables, i.e. explicit arguments of the extracted functions, no axiom):
   - [lognormal pos]: the value (binary64 bits) [rand_distr::LogNormal::sample]
     returns when started at raw-draw position [pos] of the run's generator
     stream, and the number of raw draws it consumes;
   - [tanh64]: [f64::tanh] on bit patterns. *)
From Bourse Require Import Model.Types Model.Side Model.Book Model.Obs Model.Rng Model.Float Model.Env.
From Coq Require Import ZArith.

Section Agents.
Variable lognormal : N -> N -> option (N * N).   (* agent index, raw-draw position *)
Variable tanh64 : N -> N.

(** generator with the count of raw 64-bit draws made so far *)
Record crng := mkC { cg : rng; cpos : N }.

Definition c_u64 (c : crng) : N * crng :=
  let '(v, g) := next_u64 (cg c) in (v, mkC g (cpos c + 1)).
Definition c_u32 (c : crng) : N * crng := let '(v, c') := c_u64 c in (m32 v, c').
Definition c_f32 (c : crng) : N * crng := let '(v, c') := c_u32 c in (N.shiftr v 8, c').
Definition c_f64 (c : crng) : N * crng := let '(v, c') := c_u64 c in (N.shiftr v 11, c').
Definition c_bool_half (c : crng) : bool * crng :=
  let '(v, c') := c_u64 c in (v <? 9223372036854775808, c').

Fixpoint c_below (fuel : nat) (range : N) (c : crng) : option (N * crng) :=
  match fuel with
  | O => None
  | S f =>
      let '(v, c') := c_u32 c in
      let p := v * range in
      if m32 p <=? zone_of range then Some (N.shiftr p 32, c') else c_below f range c'
  end.

(** [rng.gen_range(lo..hi)]: panics on an empty range *)
Definition c_range (lo hi : N) (c : crng) : res (N * crng) :=
  if hi <=? lo then Panic
  else match c_below FUEL (hi - lo) c with
       | Some (x, c') => Ok (lo + x, c')
       | None => Panic
       end.

Fixpoint c_skip (n : nat) (c : crng) : crng :=
  match n with O => c | S k => c_skip k (snd (c_u64 c)) end.

(** one [LogNormal::sample]: the oracle's value, and the generator advanced by
    the draws it consumed *)
Definition c_lognormal (ln : N -> option (N * N)) (c : crng) : res (f64 * crng) :=
  match ln (cpos c) with
  | Some (bits, used) => Ok (f_of_bits bits, c_skip (N.to_nat used) c)
  | None => Panic
  end.

(** ** common.rs *)
Definition round_price (up : bool) (p tick : f64) : N :=
  f_to_u32_clamped (fmul ((if up then fceil else ffloor) (fdiv p tick)) tick).
Definition snap_to_grid (p tick : N) : res N :=
  if tick =? 0 then Panic else Ok (p - p mod tick).          (* [p % 0] panics *)

Definition order_status (e : menv) (a id : nat) : res status :=
  match nth_error (en_market e) a with
  | None => Panic
  | Some b => match nth_error (b_orders b) id with
              | None => Panic
              | Some en => Ok (o_status (e_order en))
              end
  end.

Definition mid_f64 (e : menv) (a : nat) : res f64 :=
  match nth_error (en_market e) a with
  | None => Panic
  | Some b => Ok (f_of_ZE (Z.of_N (mid_price_x2 b)) (-1))
  end.

(** [env.place_order(..).unwrap()] *)
Definition place_unwrap (e : menv) (a : nat) (sd : side) (vol trader : N) (price : option N)
  : res (menv * nat) :=
  do (e', c) <- menv_place e a sd vol trader price;
  match c with Created id => Ok (e', id) | PriceError _ _ => Panic end.

(** [place_buy_limit_order] / [place_sell_limit_order] followed by [.unwrap()] *)
Definition place_limit_dist (ln : N -> option (N * N)) (e : menv) (c : crng) (a : nat) (buy : bool) (mid : f64) (tick : N)
  (vol trader : N) : res (menv * crng * nat) :=
  do (d, c1) <- c_lognormal ln c;
  let d := fabs d in
  let p := if buy then fsub mid d else fadd mid d in
  let pr := round_price (negb buy) p (f_of_N tick) in
  do pr <- snap_to_grid pr tick;
  do (e', id) <- place_unwrap e a (if buy then Bid else Ask) vol trader (Some pr);
  Ok (e', c1, id).

(** [cancel_live_orders]: filter the Active ones, draw once per live order, keep
    those whose draw is [>= p_cancel], then submit the cancellations *)
Fixpoint partition_live (e : menv) (a : nat) (orders : list nat) (p_cancel : N) (c : crng)
  : res (list nat * list nat * crng) :=
  match orders with
  | [] => Ok ([], [], c)
  | id :: r =>
      do st <- order_status e a id;
      if status_eqb st SActive then
        let '(k, c1) := c_f32 c in
        do (keep, drop, c2) <- partition_live e a r p_cancel c1;
        if f32_draw_lt k p_cancel then Ok (keep, id :: drop, c2) else Ok (id :: keep, drop, c2)
      else partition_live e a r p_cancel c
  end.

Definition cancel_live_orders (e : menv) (c : crng) (a : nat) (orders : list nat) (p_cancel : N)
  : res (menv * crng * list nat) :=
  do (keep, drop, c') <- partition_live e a orders p_cancel c;
  Ok (fold_left (fun e id => push_event e (MCancel a id)) drop e, c', keep).

(** ** Agents *)
Record rand_params := mkRP { rp_tick_lo : N; rp_tick_hi : N; rp_vol_lo : N; rp_vol_hi : N;
                             rp_tick : N; rp_rate : N }.
Record noise_params := mkNP { np_tick : N; np_p_limit : N; np_p_market : N; np_p_cancel : N; np_vol : N }.
Record mom_params := mkMP { mp_tick : N; mp_p_cancel : N; mp_vol : N;
                            mp_decay : N; mp_demand : N; mp_scale : N; mp_ratio : N }.

Inductive agent :=
| ARandom (a : nat) (orders : list (option nat)) (p : rand_params)
| ANoise (a : nat) (orders : list nat) (first n : N) (p : noise_params)
| AMomentum (a : nat) (orders : list nat) (first n : N) (p : mom_params) (last : option f64) (mom : f64).

(** RandomAgents::update: one slot *)
Definition random_slot (e : menv) (c : crng) (a : nat) (p : rand_params) (n : nat) (slot : option nat)
  : res (menv * crng * option nat) :=
  let '(k, c1) := c_f32 c in
  if f32_draw_lt k (rp_rate p) then
    do live <- (match slot with
                | Some id => do st <- order_status e a id; Ok (status_eqb st SActive)
                | None => Ok false end);
    match slot, live with
    | Some id, true => Ok (push_event e (MCancel a id), c1, None)
    | _, _ =>
        match c_below FUEL 2 c1 with                       (* [[Side::Ask, Side::Bid].choose(rng)] *)
        | None => Panic
        | Some (si, c2) =>
            do (tk, c3) <- c_range (rp_tick_lo p) (rp_tick_hi p) c2;
            do (v, c4) <- c_range (rp_vol_lo p) (rp_vol_hi p) c3;
            let price := tk * rp_tick p in
            if W32 <=? price then Panic                     (* [tick * self.tick_size] overflows u32 *)
            else
              do (e', id) <- place_unwrap e a (if si =? 0 then Ask else Bid) v (N.of_nat n) (Some price);
              Ok (e', c4, Some id)
        end
    end
  else Ok (e, c1, slot).

Fixpoint random_slots (e : menv) (c : crng) (a : nat) (p : rand_params) (n : nat) (slots : list (option nat))
  : res (menv * crng * list (option nat)) :=
  match slots with
  | [] => Ok (e, c, [])
  | s :: r =>
      do (e1, c1, s') <- random_slot e c a p n s;
      do (e2, c2, r') <- random_slots e1 c1 a p (S n) r;
      Ok (e2, c2, s' :: r')
  end.

(** NoiseAgent::update: one trader *)
Definition noise_trader (ln : N -> option (N * N)) (e : menv) (c : crng) (a : nat) (p : noise_params) (mid : f64) (trader : N)
  (live : list nat) : res (menv * crng * list nat) :=
  let '(k, c1) := c_f32 c in
  do (e1, c2, live1) <-
    (if f32_draw_lt k (np_p_limit p) then
       let '(buy, c1') := c_bool_half c1 in
       do (e', c'', id) <- place_limit_dist ln e c1' a buy mid (np_tick p) (np_vol p) trader;
       Ok (e', c'', live ++ [id])
     else Ok (e, c1, live));
  let '(k2, c3) := c_f32 c2 in
  if f32_draw_lt k2 (np_p_market p) then
    let '(buy, c4) := c_bool_half c3 in
    do (e2, _) <- place_unwrap e1 a (if buy then Bid else Ask) (np_vol p) trader None;
    Ok (e2, c4, live1)
  else Ok (e1, c3, live1).

Fixpoint for_traders {S} (f : S -> N -> res S) (s : S) (first : N) (n : nat) : res S :=
  match n with
  | O => Ok s
  | S k => do s' <- f s first; for_traders f s' (first + 1) k
  end.

(** MomentumAgent::update: one trader *)
Definition mom_trader (ln : N -> option (N * N)) (e : menv) (c : crng) (a : nat) (p : mom_params) (mid m p_limit p_market : f64)
  (trader : N) (live : list nat) : res (menv * crng * list nat) :=
  let '(k, c1) := c_f64 c in
  do (e1, c2, live1) <-
    (if flt (f_of_ZE (Z.of_N k) (-53)) p_limit then
       if fgt m f_zero then
         do (e', c', id) <- place_limit_dist ln e c1 a true mid (mp_tick p) (mp_vol p) trader; Ok (e', c', live ++ [id])
       else if flt m f_zero then
         do (e', c', id) <- place_limit_dist ln e c1 a false mid (mp_tick p) (mp_vol p) trader; Ok (e', c', live ++ [id])
       else Ok (e, c1, live)
     else Ok (e, c1, live));
  let '(k2, c3) := c_f64 c2 in
  if flt (f_of_ZE (Z.of_N k2) (-53)) p_market then
    if fgt m f_zero then do (e2, _) <- place_unwrap e1 a Bid (mp_vol p) trader None; Ok (e2, c3, live1)
    else if flt m f_zero then do (e2, _) <- place_unwrap e1 a Ask (mp_vol p) trader None; Ok (e2, c3, live1)
    else Ok (e1, c3, live1)
  else Ok (e1, c3, live1).

Definition agent_update (k : N) (e : menv) (c : crng) (ag : agent) : res (menv * crng * agent) :=
  match ag with
  | ARandom a slots p =>
      do (e', c', slots') <- random_slots e c a p 0 slots;
      Ok (e', c', ARandom a slots' p)
  | ANoise a orders first n p =>
      do (e1, c1, live) <- cancel_live_orders e c a orders (np_p_cancel p);
      do mid <- mid_f64 e1 a;
      do (e2, c2, live') <- for_traders (fun s tr => let '(e, c, l) := s in noise_trader (lognormal k) e c a p mid tr l)
                              (e1, c1, live) first (N.to_nat n);
      Ok (e2, c2, ANoise a live' first n p)
  | AMomentum a orders first n p last mom =>
      do (e1, c1, live) <- cancel_live_orders e c a orders (mp_p_cancel p);
      do mid <- mid_f64 e1 a;
      let '(m, p_market) :=
        match last with
        | Some lp =>
            let m := fadd (fmul mom (fsub f_one (f_of_bits (mp_decay p))))
                          (fmul (f_of_bits (mp_decay p)) (fsub mid lp)) in
            let t := f_of_bits (tanh64 (f_bits_for_oracle (fmul (f_of_bits (mp_scale p)) m))) in
            (m, fabs (fdiv (fmul (f_of_bits (mp_demand p)) t) (f_of_N n)))
        | None => (f_zero, f_zero)
        end in
      let p_limit := fmul (f_of_bits (mp_ratio p)) p_market in
      do (e2, c2, live') <- for_traders (fun s tr => let '(e, c, l) := s in mom_trader (lognormal k) e c a p mid m p_limit p_market tr l)
                              (e1, c1, live) first (N.to_nat n);
      Ok (e2, c2, AMomentum a live' first n p (Some mid) m)
  end.

End Agents.

(** raw draws consumed by [shuffle] (to keep the draw position in step) *)
Fixpoint below_draws (fuel : nat) (range : N) (g : rng) : N :=
  match fuel with
  | O => 0
  | S f => let '(v, g') := next_u32 g in
           if m32 (v * range) <=? zone_of range then 1 else 1 + below_draws f range g'
  end.
Fixpoint shuffle_draws_from (i : nat) (g : rng) : N :=
  match i with
  | O => 0
  | S i' => match gen_index (N.of_nat (S i)) g with
            | None => 0
            | Some (_, g') => below_draws FUEL (N.of_nat (S i)) g + shuffle_draws_from i' g'
            end
  end.
Definition shuffle_draws {A} (l : list A) (g : rng) : N := shuffle_draws_from (length l - 1) g.

Definition dec_agent (l : list N) : option agent :=
  match l with
  | [1; a; n; tlo; thi; vlo; vhi; tick; rate] =>
      Some (ARandom (N.to_nat a) (repeat None (N.to_nat n)) (mkRP tlo thi vlo vhi tick rate))
  | [2; a; first; n; tick; pl; pm; pc; vol] =>
      Some (ANoise (N.to_nat a) [] first n (mkNP tick pl pm pc vol))
  | [3; a; first; n; tick; pc; vol; decay; demand; scale; ratio] =>
      Some (AMomentum (N.to_nat a) [] first n (mkMP tick pc vol decay demand scale ratio) None f_zero)
  | _ => None
  end.
