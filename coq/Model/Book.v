(** * The order book (crates/order_book/src/orderbook.rs), line for line

   Every public and private method of [OrderBook<LEVELS>] that changes or reads
   state. [LEVELS] is an explicit argument of the level getters. Panics of the
   Rust code (index out of range, [unwrap] on [None], unsigned underflow, u32/u64
   overflow in the build with overflow checks) are the result [Panic]. *)
From Bourse Require Import Model.Types Model.Map Model.Side.

Record book := mkBook {
  b_t : N; b_tick : N; b_tvol : N;
  b_ask : sidest; b_bid : sidest;
  b_orders : list entry; b_trades : list trade; b_trading : bool }.

(** [OrderBook::new] ([assert!(tick_size > 0)]) *)
Definition book_new (t0 tick : N) (trading : bool) : res book :=
  if tick =? 0 then Panic
  else Ok (mkBook t0 tick 0 sd_empty sd_empty [] [] trading).

Definition get_side (s : book) (sd : side) : sidest :=
  match sd with Bid => b_bid s | Ask => b_ask s end.
Definition set_side (s : book) (sd : side) (x : sidest) : book :=
  match sd with
  | Bid => mkBook (b_t s) (b_tick s) (b_tvol s) (b_ask s) x (b_orders s) (b_trades s) (b_trading s)
  | Ask => mkBook (b_t s) (b_tick s) (b_tvol s) x (b_bid s) (b_orders s) (b_trades s) (b_trading s)
  end.
Definition set_orders (s : book) (x : list entry) : book :=
  mkBook (b_t s) (b_tick s) (b_tvol s) (b_ask s) (b_bid s) x (b_trades s) (b_trading s).
Definition set_trades (s : book) (x : list trade) (tv : N) : book :=
  mkBook (b_t s) (b_tick s) tv (b_ask s) (b_bid s) (b_orders s) x (b_trading s).
Definition set_time (s : book) (t : N) : book :=
  mkBook t (b_tick s) (b_tvol s) (b_ask s) (b_bid s) (b_orders s) (b_trades s) (b_trading s).
Definition set_trading (s : book) (x : bool) : book :=
  mkBook (b_t s) (b_tick s) (b_tvol s) (b_ask s) (b_bid s) (b_orders s) (b_trades s) x.
Definition reset_trade_vol (s : book) : book :=
  mkBook (b_t s) (b_tick s) 0 (b_ask s) (b_bid s) (b_orders s) (b_trades s) (b_trading s).

Definition set_eorder (e : entry) (o : order) : entry :=
  mkEntry o (e_kside e) (e_kp e) (e_kt e).

(** ** Market data getters *)
Definition bid_ask (s : book) : N * N :=
  (best_price Bid (b_bid s), best_price Ask (b_ask s)).
Definition bid_vol (s : book) : N := sd_vol (b_bid s).
Definition ask_vol (s : book) : N := sd_vol (b_ask s).
Definition bid_best_vol (s : book) : N := sd_best_vol (b_bid s).
Definition ask_best_vol (s : book) : N := sd_best_vol (b_ask s).
Definition bid_best_vol_and_orders (s : book) := sd_best_vol_and_orders (b_bid s).
Definition ask_best_vol_and_orders (s : book) := sd_best_vol_and_orders (b_ask s).

(** [Price::try_from(i).unwrap() * self.tick_size] is a checked u32
    multiplication; [wrapping_add]/[wrapping_sub] wrap modulo 2^32. *)
Definition level_price (sd : side) (start tick : N) (i : nat) : res N :=
  let d := N.of_nat i * tick in
  if W32 <=? d then Panic
  else Ok (match sd with
           | Ask => (start + d) mod W32
           | Bid => (start + W32 - d) mod W32
           end).

Fixpoint levels_from (sd : side) (sdst : sidest) (start tick : N) (i n : nat)
  : res (list (N * N)) :=
  match n with
  | O => Ok []
  | S n' =>
      do p <- level_price sd start tick i;
      do rest <- levels_from sd sdst start tick (S i) n';
      Ok (vol_and_orders_at_price sd sdst p :: rest)
  end.

Definition bid_levels (L : nat) (s : book) : res (list (N * N)) :=
  levels_from Bid (b_bid s) (fst (bid_ask s)) (b_tick s) 0 L.
Definition ask_levels (L : nat) (s : book) : res (list (N * N)) :=
  levels_from Ask (b_ask s) (snd (bid_ask s)) (b_tick s) 0 L.

(** [mid_price]: [f64::from(bid) + 0.5 * (f64::from(ask) - f64::from(bid))].
    Every intermediate value is a multiple of 1/2 of magnitude below 2^33 and so
    exactly representable in binary64: the result is exactly [(bid + ask) / 2].
    The model carries twice the mid-price as an integer; [Float.f64_bits_of_half]
    gives its IEEE-754 bit pattern for comparison with the implementation. *)
Definition mid_price_x2 (s : book) : N := let '(b, a) := bid_ask s in b + a.

(** ** Order creation *)
Inductive create_out := Created (id : nat) | PriceError (price tick : N).

Definition create_order (s : book) (sd : side) (vol trader : N) (price : option N)
  : book * create_out :=
  let id := length (b_orders s) in
  let mk p :=
    let o := mkOrder sd SNew (b_t s) MAXT vol vol p trader id in
    (set_orders s (b_orders s ++ [mkEntry o sd (kp_of sd p) 0]), Created id) in
  match price with
  | Some p => if p mod (b_tick s) =? 0 then mk p else (s, PriceError p (b_tick s))
  | None => mk (match sd with Bid => MAXP | Ask => 0 end)
  end.

(** ** Matching *)

(** [match_orders(t, agg, pass, trades) -> Vol] *)
Definition match_orders (t : N) (agg pass : order) : order * order * trade * N :=
  let v := N.min (o_vol agg) (o_vol pass) in
  let agg1 := set_vol agg (o_vol agg - v) in
  let pass1 := set_vol pass (o_vol pass - v) in
  let tr := mkTrade t (o_side pass) (o_price pass) v (o_id agg) (o_id pass) in
  let pass2 := if o_vol pass1 =? 0 then set_status (set_end pass1 t) SFilled else pass1 in
  let agg2 := if o_vol agg1 =? 0 then set_status (set_end agg1 t) SFilled else agg1 in
  (agg2, pass2, tr, v).

(** loop guard of [match_bid] / [match_ask] *)
Definition crosses (sd : side) (agg : order) (s : book) : bool :=
  (0 <? o_vol agg) &&
  match sd with
  | Bid => best_price Ask (b_ask s) <=? o_price agg
  | Ask => o_price agg <=? best_price Bid (b_bid s)
  end.

(** One iteration of the [while] loop of [match_bid] ([sd = Bid]) / [match_ask]
    ([sd = Ask]): [IDone] when the guard is false or the opposite side is
    empty ([break]), [ICont] with the updated book and aggressor otherwise. *)
Inductive iter_res := IDone | ICont (s : book) (agg : order) | IPanic.

Definition match_iter (sd : side) (s : book) (agg : order) : iter_res :=
  if crosses sd agg s then
    let ps := get_side s (opp sd) in
    match sd_best_order_idx ps with
    | None => IDone                                       (* [break] *)
    | Some id =>
        match nth_error (b_orders s) id with
        | None => IPanic                                  (* [get_mut(id).unwrap()] *)
        | Some pe =>
            let '(agg', pass', tr, v) := match_orders (b_t s) agg (e_order pe) in
            let orders' := set_nth (b_orders s) id (set_eorder pe pass') in
            match (if status_eqb (o_status pass') SFilled
                   then sd_remove ps (e_kp pe) (e_kt pe) v
                   else sd_remove_vol ps (e_kp pe) v) with
            | Panic => IPanic
            | Ok ps' =>
                ICont (set_side
                         (set_trades (set_orders s orders') (b_trades s ++ [tr]) (b_tvol s + v))
                         (opp sd) ps') agg'
            end
        end
    end
  else IDone.

(** The loop is recursion on [fuel]; exhausted fuel is [None] (shown never to
    happen when [fuel] exceeds the length of the opposite queue by two). *)
Fixpoint match_loop (fuel : nat) (sd : side) (s : book) (agg : order)
  : option (res (book * order)) :=
  match fuel with
  | O => None
  | S fuel' =>
      match match_iter sd s agg with
      | IDone => Some (Ok (s, agg))
      | IPanic => Some Panic
      | ICont s1 agg1 => match_loop fuel' sd s1 agg1
      end
  end.

Definition match_fuel (s : book) (sd : side) : nat :=
  S (S (length (sd_orders (get_side s (opp sd))))).

Definition do_match (sd : side) (s : book) (agg : order) : res (book * order) :=
  match match_loop (match_fuel s sd) sd s agg with
  | Some r => r
  | None => Panic   (* unreachable: Proofs/Progress.v, do_match_ok *)
  end.

(** [place_bid_limit] / [place_ask_limit] on the copied entry *)
Definition place_limit (sd : side) (s : book) (e : entry) : res (book * entry) :=
  do (s1, o1) <- (if b_trading s then do_match sd s (e_order e) else Ok (s, e_order e));
  if status_eqb (o_status o1) SFilled then Ok (s1, set_eorder e o1)
  else
    do (sdst, kt) <- sd_queue (get_side s1 sd) (e_kp e) (b_t s1) (o_id o1) (o_vol o1);
    Ok (set_side s1 sd sdst, mkEntry o1 sd (e_kp e) kt).

(** [place_bid_market] / [place_ask_market] *)
Definition place_market (sd : side) (s : book) (e : entry) : res (book * entry) :=
  if b_trading s then
    do (s1, o1) <- do_match sd s (e_order e);
    if status_eqb (o_status o1) SFilled then Ok (s1, set_eorder e o1)
    else Ok (s1, set_eorder e (set_end (set_status o1 SCancelled) (b_t s1)))
  else Ok (s, set_eorder e (set_end (set_status (e_order e) SRejected) (b_t s))).

(** [place_order(order_id)] *)
Definition place_order (s : book) (id : nat) : res book :=
  match nth_error (b_orders s) id with
  | None => Panic                                           (* [self.orders[order_id]] *)
  | Some e =>
      if negb (status_eqb (o_status (e_order e)) SNew) then Ok s
      else
        let o := set_arr (set_status (e_order e) SActive) (b_t s) in
        let e0 := set_eorder e o in
        let sd := o_side o in
        let is_market := match sd with Bid => o_price o =? MAXP | Ask => o_price o =? 0 end in
        do (s1, e1) <- (if is_market then place_market sd s e0 else place_limit sd s e0);
        Ok (set_orders s1 (set_nth (b_orders s1) id e1))
  end.

Definition create_and_place_order (s : book) (sd : side) (vol trader : N) (price : option N)
  : res (book * create_out) :=
  match create_order s sd vol trader price with
  | (s1, Created id) => do s2 <- place_order s1 id; Ok (s2, Created id)
  | (s1, err) => Ok (s1, err)
  end.

(** [cancel_order(order_id)] *)
Definition cancel_order (s : book) (id : nat) : res book :=
  match nth_error (b_orders s) id with
  | None => Panic                                           (* explicit [panic!] *)
  | Some e =>
      if status_eqb (o_status (e_order e)) SActive then
        let o := set_end (set_status (e_order e) SCancelled) (b_t s) in
        let sd := e_kside e in
        do sdst <- sd_remove (get_side s sd) (e_kp e) (e_kt e) (o_vol o);
        Ok (set_side (set_orders s (set_nth (b_orders s) id (set_eorder e o))) sd sdst)
      else Ok s
  end.

(** [reduce_order_vol] on the copied entry *)
Definition reduce_order_vol (s : book) (e : entry) (reduce : N) : res (book * entry) :=
  do v <- csub (o_vol (e_order e)) reduce;
  do sdst <- sd_remove_vol (get_side s (e_kside e)) (e_kp e) reduce;
  Ok (set_side s (e_kside e) sdst, set_eorder e (set_vol (e_order e) v)).

(** [replace_order] on the copied entry *)
Definition replace_order (s : book) (e : entry) (new_price new_vol : N) : res (book * entry) :=
  let sd := e_kside e in
  do sdst <- sd_remove (get_side s sd) (e_kp e) (e_kt e) (o_vol (e_order e));
  let s0 := set_side s sd sdst in
  let o0 := set_price (set_vol (e_order e) new_vol) new_price in
  do (s1, o1) <- (if b_trading s0 then do_match sd s0 o0 else Ok (s0, o0));
  if status_eqb (o_status o1) SFilled then Ok (s1, set_eorder e o1)
  else
    let kp := kp_of sd new_price in
    do (sdst1, kt) <- sd_queue (get_side s1 sd) kp (b_t s1) (o_id o1) (o_vol o1);
    Ok (set_side s1 sd sdst1, mkEntry o1 sd kp kt).

(** [modify_order(order_id, new_price, new_vol)] *)
Definition modify_order (s : book) (id : nat) (new_price new_vol : option N) : res book :=
  match nth_error (b_orders s) id with
  | None => Panic
  | Some e =>
      if (match new_price with Some p => negb (p mod (b_tick s) =? 0) | None => false end)
      then Ok s
      else
        do (s1, e1) <-
          (if status_eqb (o_status (e_order e)) SActive then
             match new_price, new_vol with
             | None, None => Ok (s, e)
             | None, Some v =>
                 if v <? o_vol (e_order e)
                 then reduce_order_vol s e (o_vol (e_order e) - v)
                 else replace_order s e (o_price (e_order e)) v
             | Some p, None => replace_order s e p (o_vol (e_order e))
             | Some p, Some v => replace_order s e p v
             end
           else Ok (s, e));
        Ok (set_orders s1 (set_nth (b_orders s1) id e1))
  end.

(** [process_event(event)] *)
Definition process_event (s : book) (ev : event) : res book :=
  match ev with
  | EvNew id => place_order s id
  | EvCancel id => cancel_order s id
  | EvModify id p v => modify_order s id p v
  end.

(** ** Snapshot (serde): [OrderBook] serialises [t, tick_size, trade_vol,
    orders (entries with keys), trades, trading]; loading goes through
    [TryFrom<OrderBookState>], which re-inserts every Active entry with its
    stored key and remaining volume, in id order, into empty sides. *)
Record snapshot := mkSnap {
  sn_t : N; sn_tick : N; sn_tvol : N;
  sn_orders : list entry; sn_trades : list trade; sn_trading : bool }.

Definition to_snapshot (s : book) : snapshot :=
  mkSnap (b_t s) (b_tick s) (b_tvol s) (b_orders s) (b_trades s) (b_trading s).

Definition of_snapshot (sn : snapshot) : book :=
  let ins (acc : sidest * sidest) (e : entry) :=
    if status_eqb (o_status (e_order e)) SActive then
      match o_side (e_order e) with
      | Bid => (sd_insert (fst acc) (e_kp e) (e_kt e) (o_id (e_order e)) (o_vol (e_order e)), snd acc)
      | Ask => (fst acc, sd_insert (snd acc) (e_kp e) (e_kt e) (o_id (e_order e)) (o_vol (e_order e)))
      end
    else acc in
  let '(bid, ask) := fold_left ins (sn_orders sn) (sd_empty, sd_empty) in
  mkBook (sn_t sn) (sn_tick sn) (sn_tvol sn) ask bid (sn_orders sn) (sn_trades sn) (sn_trading sn).

(** ** The public API as one step function *)
Inductive op :=
| OCreate (sd : side) (vol trader : N) (price : option N)
| OCreatePlace (sd : side) (vol trader : N) (price : option N)
| OPlace (id : nat)
| OCancel (id : nat)
| OModify (id : nat) (new_price new_vol : option N)
| OEvent (ev : event)
| OSetTime (t : N)
| OEnable
| ODisable
| OResetTvol
| OReload.       (* serialise and load back *)

Inductive out := ONone | OCreated (c : create_out).

(** u32 overflow of the aggregates: Rust (built with overflow checks) panics at
    the addition that overflows; side volumes only grow by the final insertion
    of an operation and the traded volume only grows, so checking the final
    values is equivalent (level volumes never exceed their side's volume). *)
Definition bounded (s : book) : bool :=
  (sd_vol (b_bid s) <? W32) && (sd_vol (b_ask s) <? W32) && (b_tvol s <? W32).

Definition step_raw (s : book) (o : op) : res (book * out) :=
  match o with
  | OCreate sd v tr p => let '(s1, c) := create_order s sd v tr p in Ok (s1, OCreated c)
  | OCreatePlace sd v tr p => do (s1, c) <- create_and_place_order s sd v tr p; Ok (s1, OCreated c)
  | OPlace id => do s1 <- place_order s id; Ok (s1, ONone)
  | OCancel id => do s1 <- cancel_order s id; Ok (s1, ONone)
  | OModify id p v => do s1 <- modify_order s id p v; Ok (s1, ONone)
  | OEvent ev => do s1 <- process_event s ev; Ok (s1, ONone)
  | OSetTime t => Ok (set_time s t, ONone)
  | OEnable => Ok (set_trading s true, ONone)
  | ODisable => Ok (set_trading s false, ONone)
  | OResetTvol => Ok (reset_trade_vol s, ONone)
  | OReload => Ok (of_snapshot (to_snapshot s), ONone)
  end.

Definition step (s : book) (o : op) : res (book * out) :=
  do (s1, x) <- step_raw s o;
  if bounded s1 then Ok (s1, x) else Panic.

(** Every reachable state: [step] folded over any operation list. *)
Fixpoint run (s : book) (ops : list op) : res book :=
  match ops with
  | [] => Ok s
  | o :: r => match step s o with Ok (s', _) => run s' r | Panic => Panic end
  end.
