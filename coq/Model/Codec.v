(** * Flat numeric encodings used by the correspondence check

   Operations, results and observations travel between the Rust harness and
   the extracted model as lists of natural numbers. The decoders are defined
   here, in Coq, so that the OCaml glue only splits lines into numbers. *)
From Bourse Require Import Model.Types Model.Book Model.Obs.

Definition enc_side (sd : side) : N := match sd with Bid => 1 | Ask => 0 end.
Definition dec_side (n : N) : option side :=
  if n =? 1 then Some Bid else if n =? 0 then Some Ask else None.
Definition enc_status (st : status) : N :=
  match st with SNew => 0 | SActive => 1 | SFilled => 2 | SCancelled => 3 | SRejected => 4 end.
Definition dec_status (n : N) : option status :=
  match n with
  | 0 => Some SNew | 1 => Some SActive | 2 => Some SFilled
  | 3 => Some SCancelled | 4 => Some SRejected | _ => None end.
Definition enc_opt (x : option N) : list N :=
  match x with Some v => [1; v] | None => [0; 0] end.
Definition dec_opt (h v : N) : option N := if h =? 0 then None else Some v.

Definition enc_order (o : order) : list N :=
  [enc_side (o_side o); enc_status (o_status o); o_arr o; o_end o; o_vol o;
   o_start o; o_price o; o_trader o; N.of_nat (o_id o)].
Definition enc_trade (t : trade) : list N :=
  [tr_t t; enc_side (tr_side t); tr_price t; tr_vol t;
   N.of_nat (tr_active t); N.of_nat (tr_passive t)].
Definition enc_pair (p : N * N) : list N := [fst p; snd p].

Definition enc_l2 (d : l2data) : list N :=
  [l2_bid d; l2_ask d; l2_bid_vol d; l2_ask_vol d]
  ++ flat_map enc_pair (l2_bid_levels d) ++ flat_map enc_pair (l2_ask_levels d).

Definition enc_obs (o : observation) : list N :=
  [ob_t o; ob_tvol o; ob_bid o; ob_ask o; ob_bid_vol o; ob_ask_vol o;
   ob_bid_bv o; ob_ask_bv o]
  ++ enc_pair (ob_bid_bvo o) ++ enc_pair (ob_ask_bvo o)
  ++ [N.of_nat (length (ob_bid_levels o))]
  ++ flat_map enc_pair (ob_bid_levels o) ++ flat_map enc_pair (ob_ask_levels o)
  ++ ob_l1 o ++ enc_l2 (ob_l2 o) ++ [ob_mid o]
  ++ [N.of_nat (length (ob_orders o))] ++ flat_map enc_order (ob_orders o)
  ++ [N.of_nat (length (ob_trades o))] ++ flat_map enc_trade (ob_trades o).

(** ** Decoding: a small parser over [list N] *)
Definition parser (A : Type) := list N -> option (A * list N).
Definition pret {A} (a : A) : parser A := fun l => Some (a, l).
Definition pbind {A B} (p : parser A) (f : A -> parser B) : parser B :=
  fun l => match p l with Some (a, r) => f a r | None => None end.
Definition pnum : parser N := fun l => match l with x :: r => Some (x, r) | [] => None end.
Definition pfail {A} : parser A := fun _ => None.
Definition plift {A} (x : option A) : parser A := match x with Some a => pret a | None => pfail end.
Notation "'let*' x := e 'in' f" := (pbind e (fun x => f))
  (at level 200, x pattern, e at level 100, f at level 200, right associativity).

Fixpoint prep {A} (n : nat) (p : parser A) : parser (list A) :=
  match n with
  | O => pret []
  | S n' => let* x := p in let* r := prep n' p in pret (x :: r)
  end.

Definition ppair : parser (N * N) := let* a := pnum in let* b := pnum in pret (a, b).

Definition porder : parser order :=
  let* sd := pnum in let* sd := plift (dec_side sd) in
  let* st := pnum in let* st := plift (dec_status st) in
  let* arr := pnum in let* en := pnum in let* vol := pnum in let* sv := pnum in
  let* pr := pnum in let* trd := pnum in let* id := pnum in
  pret (mkOrder sd st arr en vol sv pr trd (N.to_nat id)).

Definition ptrade : parser trade :=
  let* t := pnum in let* sd := pnum in let* sd := plift (dec_side sd) in
  let* pr := pnum in let* v := pnum in let* a := pnum in let* p := pnum in
  pret (mkTrade t sd pr v (N.to_nat a) (N.to_nat p)).

Definition pobs : parser observation :=
  let* t := pnum in let* tv := pnum in let* b := pnum in let* a := pnum in
  let* bv := pnum in let* av := pnum in let* bbv := pnum in let* abv := pnum in
  let* bbvo := ppair in let* abvo := ppair in
  let* L := pnum in
  let* bl := prep (N.to_nat L) ppair in let* al := prep (N.to_nat L) ppair in
  let* l1 := prep 8 pnum in
  let* b2 := pnum in let* a2 := pnum in let* bv2 := pnum in let* av2 := pnum in
  let* bl2 := prep (N.to_nat L) ppair in let* al2 := prep (N.to_nat L) ppair in
  let* mid := pnum in
  let* no := pnum in let* os := prep (N.to_nat no) porder in
  let* nt := pnum in let* ts := prep (N.to_nat nt) ptrade in
  pret (mkObs t tv b a bv av bbv abv bbvo abvo bl al l1 (mkL2 b2 a2 bv2 av2 bl2 al2) mid os ts).

Definition dec_obs (l : list N) : option observation :=
  match pobs l with Some (o, []) => Some o | _ => None end.

(** ** Operations *)
Definition enc_op (o : op) : list N :=
  match o with
  | OCreate sd v tr p => [0; enc_side sd; v; tr] ++ enc_opt p
  | OCreatePlace sd v tr p => [1; enc_side sd; v; tr] ++ enc_opt p
  | OPlace id => [2; N.of_nat id]
  | OCancel id => [3; N.of_nat id]
  | OModify id p v => [4; N.of_nat id] ++ enc_opt p ++ enc_opt v
  | OEvent (EvNew id) => [5; N.of_nat id]
  | OEvent (EvCancel id) => [6; N.of_nat id]
  | OEvent (EvModify id p v) => [7; N.of_nat id] ++ enc_opt p ++ enc_opt v
  | OSetTime t => [8; t]
  | OEnable => [9]
  | ODisable => [10]
  | OResetTvol => [11]
  | OReload => [12]
  end.

Definition dec_op (l : list N) : option op :=
  match l with
  | [0; sd; v; tr; hp; p] => option_map (fun sd => OCreate sd v tr (dec_opt hp p)) (dec_side sd)
  | [1; sd; v; tr; hp; p] => option_map (fun sd => OCreatePlace sd v tr (dec_opt hp p)) (dec_side sd)
  | [2; id] => Some (OPlace (N.to_nat id))
  | [3; id] => Some (OCancel (N.to_nat id))
  | [4; id; hp; p; hv; v] => Some (OModify (N.to_nat id) (dec_opt hp p) (dec_opt hv v))
  | [5; id] => Some (OEvent (EvNew (N.to_nat id)))
  | [6; id] => Some (OEvent (EvCancel (N.to_nat id)))
  | [7; id; hp; p; hv; v] => Some (OEvent (EvModify (N.to_nat id) (dec_opt hp p) (dec_opt hv v)))
  | [8; t] => Some (OSetTime t)
  | [9] => Some OEnable
  | [10] => Some ODisable
  | [11] => Some OResetTvol
  | [12] => Some OReload
  | _ => None
  end.

Definition enc_out (x : out) : list N :=
  match x with
  | ONone => [0]
  | OCreated (Created id) => [1; N.of_nat id]
  | OCreated (PriceError p t) => [2; p; t]
  end.

Fixpoint list_N_eqb (a b : list N) : bool :=
  match a, b with
  | [], [] => true
  | x :: a', y :: b' => (x =? y) && list_N_eqb a' b'
  | _, _ => false
  end.

(** index of the first difference of two encodings (for reports) *)
Fixpoint first_diff (i : N) (a b : list N) : option N :=
  match a, b with
  | [], [] => None
  | x :: a', y :: b' => if x =? y then first_diff (i + 1) a' b' else Some i
  | _, _ => Some i
  end.
