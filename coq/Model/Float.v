(** * IEEE-754 binary64 arithmetic as Rust performs it (Flocq, executable) *)
From Coq Require Import ZArith NArith Bool.
From Flocq Require Import Core.Zaux IEEE754.BinarySingleNaN IEEE754.Bits.
From Flocq Require IEEE754.Binary.
Open Scope N_scope.

Definition f64 := binary_float 53 1024.

Lemma prec_gt_0_53 : FLX.Prec_gt_0 53. Proof. reflexivity. Qed.
Lemma prec_lt_emax_53 : Prec_lt_emax 53 1024. Proof. reflexivity. Qed.

Definition f_of_bits (b : N) : f64 := Binary.B2BSN 53 1024 (b64_of_bits (Z.of_N b)).

Definition fadd : f64 -> f64 -> f64 := @Bplus 53 1024 prec_gt_0_53 prec_lt_emax_53 mode_NE.
Definition fsub : f64 -> f64 -> f64 := @Bminus 53 1024 prec_gt_0_53 prec_lt_emax_53 mode_NE.
Definition fmul : f64 -> f64 -> f64 := @Bmult 53 1024 prec_gt_0_53 prec_lt_emax_53 mode_NE.
Definition fdiv : f64 -> f64 -> f64 := @Bdiv 53 1024 prec_gt_0_53 prec_lt_emax_53 mode_NE.
Definition fabs : f64 -> f64 := @Babs 53 1024.
Definition flt (a b : f64) : bool := Bltb a b.
Definition fgt (a b : f64) : bool := Bltb b a.
Definition ffloor : f64 -> f64 := @Bnearbyint 53 1024 prec_lt_emax_53 mode_DN.
Definition fceil : f64 -> f64 := @Bnearbyint 53 1024 prec_lt_emax_53 mode_UP.

(** exact embedding of [m * 2^e] (rounds to nearest even when not representable) *)
Definition f_of_ZE (m e : Z) : f64 :=
  binary_normalize 53 1024 prec_gt_0_53 prec_lt_emax_53 mode_NE m e false.
Definition f_of_N (n : N) : f64 := f_of_ZE (Z.of_N n) 0.
Definition f_zero : f64 := B754_zero false.
Definition f_one : f64 := f_of_N 1.

(** [x.clamp(0.0, u32::MAX as f64) as u32] for non-NaN [x] (Rust's [clamp]
    panics on NaN bounds only; a NaN value stays NaN and casts to 0) *)
Definition f_to_u32_clamped (x : f64) : N :=
  match x with
  | B754_nan => 0
  | _ =>
      if flt x f_zero then 0
      else if flt (f_of_N 4294967295) x then 4294967295
      else match Btrunc x with
           | Z.neg _ => 0
           | z => N.min (Z.to_N z) 4294967295
           end
  end.

Definition is_finite_f (x : f64) : bool := is_finite x.

(** bit pattern of a binary64 value (canonical quiet NaN for NaN), used to hand
    arguments to the [tanh] oracle *)
Definition f_bits_for_oracle (x : f64) : N :=
  let sgn (s : bool) : N := if s then 9223372036854775808 else 0 in
  match x with
  | B754_zero s => sgn s
  | B754_infinity s => sgn s + 9218868437227405312
  | B754_nan => 9221120237041090560
  | B754_finite s m e _ =>
      let m := Npos m in
      if m <? 4503599627370496 then sgn s + m                       (* subnormal: e = -1074 *)
      else sgn s + N.shiftl (Z.to_N (e + 1075)) 52 + (m - 4503599627370496)
  end.
