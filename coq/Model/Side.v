(** * One side of the book (crates/order_book/src/side.rs), line for line

   [OrderBookSide { vol, volumes: BTreeMap<Price,(Vol,OrderCount)>,
                    orders: BTreeMap<(Price,Nanos),OrderId> }].
   All prices here are *key* prices: the bid wrappers pass [Price::MAX - price]. *)
From Bourse Require Import Model.Types Model.Map.

Record sidest := mkSide {
  sd_vol : N;
  sd_volumes : vmap;
  sd_orders : list (key * nat) }.

Definition sd_empty : sidest := mkSide 0 [] [].

(** [insert_order(key, idx, vol)]: additions are unchecked here; the u32
    overflow check is made once per book operation (see [Book.bounded]). *)
Definition sd_insert (s : sidest) (kp kt : N) (id : nat) (vol : N) : sidest :=
  mkSide (sd_vol s + vol)
    (match vget kp (sd_volumes s) with
     | Some (v, c) => vset kp (v + vol, c + 1) (sd_volumes s)
     | None => vset kp (vol, 1) (sd_volumes s)
     end)
    (kinsert (kp, kt) id (sd_orders s)).

(** [queue_order(key, idx, vol) -> OrderKey]: the key time becomes one more than
    the last key time at that price when the requested time is not later. *)
Definition queue_time (s : sidest) (kp kt : N) : N :=
  match klast_at kp (sd_orders s) with
  | Some t => if kt <=? t then t + 1 else kt
  | None => kt
  end.

Definition sd_queue (s : sidest) (kp kt : N) (id : nat) (vol : N) : res (sidest * N) :=
  let t := queue_time s kp kt in
  if MAXT <? t then Panic            (* [t + 1] overflowed u64 *)
  else Ok (sd_insert s kp t id vol, t).

(** [remove_order(key, vol)] *)
Definition sd_remove (s : sidest) (kp kt : N) (vol : N) : res sidest :=
  let orders := kremove (kp, kt) (sd_orders s) in
  match vget kp (sd_volumes s) with
  | None => Panic                                    (* [.unwrap()] *)
  | Some (v, c) =>
      do v' <- csub v vol;
      do c' <- csub c 1;
      let volumes := if c' =? 0 then vremove kp (sd_volumes s)
                     else vset kp (v', c') (sd_volumes s) in
      do tot <- csub (sd_vol s) vol;
      Ok (mkSide tot volumes orders)
  end.

(** [remove_vol(price, vol)] *)
Definition sd_remove_vol (s : sidest) (kp : N) (vol : N) : res sidest :=
  match vget kp (sd_volumes s) with
  | None => Panic
  | Some (v, c) =>
      do v' <- csub v vol;
      do tot <- csub (sd_vol s) vol;
      Ok (mkSide tot (vset kp (v', c) (sd_volumes s)) (sd_orders s))
  end.

(** inner [best_price]: key price of the first entry of the priority map *)
Definition sd_best_kp (s : sidest) : N :=
  match sd_orders s with (k, _) :: _ => fst k | [] => MAXP end.

Definition sd_best_vol_and_orders (s : sidest) : N * N :=
  match sd_volumes s with (_, x) :: _ => x | [] => (0, 0) end.

Definition sd_best_vol (s : sidest) : N := fst (sd_best_vol_and_orders s).

Definition sd_best_order_idx (s : sidest) : option nat :=
  match sd_orders s with (_, id) :: _ => Some id | [] => None end.

Definition sd_at_kp (s : sidest) (kp : N) : N * N :=
  match vget kp (sd_volumes s) with Some x => x | None => (0, 0) end.

(** Key price transform of the [BidSide]/[AskSide] wrappers and
    [get_bid_key]/[get_ask_key]: bids are keyed by [Price::MAX - price].
    Prices are u32, so the subtraction cannot underflow. *)
Definition kp_of (sd : side) (price : N) : N :=
  match sd with Bid => MAXP - price | Ask => price end.

(** [BidSide::best_price] = [Price::MAX - inner], [AskSide::best_price] = inner *)
Definition best_price (sd : side) (s : sidest) : N := kp_of sd (sd_best_kp s).

(** [vol_and_orders_at_price(price)] (the bid wrapper transforms the price) *)
Definition vol_and_orders_at_price (sd : side) (s : sidest) (price : N) : N * N :=
  sd_at_kp s (kp_of sd price).
