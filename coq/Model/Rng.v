(** * The random generator, modelled exactly

   rand_xoshiro 0.6.0 [Xoroshiro128StarStar] (seeded through [SplitMix64], as
   [seed_from_u64] does) and the rand 0.8.5 samplers the code reaches:
   [UniformInt<u32>::sample_single] (widening multiply with rejection zone),
   [gen_index], slice [shuffle] and [choose], [Standard] for [f32]/[f64],
   [Bernoulli]. All 64/32-bit wrap-around is written with [N.land] masks. *)
From Bourse Require Import Model.Types.

Definition M64 : N := 18446744073709551615.
Definition M32 : N := 4294967295.
Definition m64 (x : N) : N := N.land x M64.
Definition m32 (x : N) : N := N.land x M32.
Definition rotl64 (x k : N) : N := m64 (N.lor (N.shiftl x k) (N.shiftr x (64 - k))).

Record rng := mkRng { g_s0 : N; g_s1 : N }.

(** [SplitMix64::next_u64] *)
Definition sm_next (x : N) : N * N :=
  let x := m64 (x + 11400714819323198485) in
  let z := m64 (N.lxor x (N.shiftr x 30) * 13787848793156543929) in
  let z := m64 (N.lxor z (N.shiftr z 27) * 10723151780598845931) in
  (N.lxor z (N.shiftr z 31), x).

(** [Xoroshiro128StarStar::seed_from_u64]: two SplitMix64 outputs fill the
    16-byte seed (little endian); an all-zero seed falls back to [seed_from_u64(0)]. *)
Definition seed_raw (seed : N) : rng :=
  let '(a, x1) := sm_next (m64 seed) in
  let '(b, _) := sm_next x1 in
  mkRng a b.
Definition seed_from_u64 (seed : N) : rng :=
  let g := seed_raw seed in
  if (g_s0 g =? 0) && (g_s1 g =? 0) then seed_raw 0 else g.

(** [next_u64]: result [rotl(s0 * 5, 7) * 9], then the xoroshiro state update *)
Definition next_u64 (g : rng) : N * rng :=
  let r := m64 (rotl64 (m64 (g_s0 g * 5)) 7 * 9) in
  let t1 := N.lxor (g_s1 g) (g_s0 g) in
  (r, mkRng (N.lxor (N.lxor (rotl64 (g_s0 g) 24) t1) (m64 (N.shiftl t1 16))) (rotl64 t1 37)).
Definition next_u32 (g : rng) : N * rng :=
  let '(r, g') := next_u64 g in (m32 r, g').

(** leading zeros of a non-zero 32-bit value *)
Definition lz32 (x : N) : N := 31 - N.log2 x.

(** [UniformInt<u32>::sample_single(0, range)] for [0 < range < 2^32]: draw a
    word [v], form [v * range]; accept when the low half is [<= zone] and
    return the high half. The rejection loop runs on explicit fuel; [None]
    when it is exhausted (probability below 2^-fuel). *)
Definition zone_of (range : N) : N := m32 (m32 (N.shiftl range (lz32 range)) + M32).
Fixpoint sample_below (fuel : nat) (range : N) (g : rng) : option (N * rng) :=
  match fuel with
  | O => None
  | S f =>
      let '(v, g') := next_u32 g in
      let p := v * range in
      if m32 p <=? zone_of range then Some (N.shiftr p 32, g')
      else sample_below f range g'
  end.
Definition FUEL : nat := 200.
Definition gen_index (ubound : N) (g : rng) : option (N * rng) := sample_below FUEL ubound g.

Definition swap_nth {A} (l : list A) (i j : nat) : list A :=
  match nth_error l i, nth_error l j with
  | Some a, Some b => set_nth (set_nth l i b) j a
  | _, _ => l
  end.

(** [slice.shuffle(rng)]: [for i in (1..len).rev() { swap(i, gen_index(rng, i + 1)) }] *)
Fixpoint shuffle_from {A} (i : nat) (l : list A) (g : rng) : option (list A * rng) :=
  match i with
  | O => Some (l, g)
  | S i' =>
      match gen_index (N.of_nat (S i)) g with
      | None => None
      | Some (j, g') => shuffle_from i' (swap_nth l i (N.to_nat j)) g'
      end
  end.
Definition shuffle {A} (l : list A) (g : rng) : option (list A * rng) :=
  shuffle_from (length l - 1) l g.

(** [Standard] for [f32]: [(next_u32 >> 8) * 2^-24]; for [f64]: [(next_u64 >> 11) * 2^-53].
    The model carries the integer numerators. *)
Definition gen_f32_num (g : rng) : N * rng := let '(v, g') := next_u32 g in (N.shiftr v 8, g').
Definition gen_f64_num (g : rng) : N * rng := let '(v, g') := next_u64 g in (N.shiftr v 11, g').

(** [gen_bool(0.5)]: [Bernoulli { p_int = 2^63 }], [next_u64 < p_int] *)
Definition gen_bool_half (g : rng) : bool * rng :=
  let '(v, g') := next_u64 g in (v <? 9223372036854775808, g').

(** [rng.gen_range(lo..hi)] for u32 with [lo < hi] *)
Definition gen_range_u32 (lo hi : N) (g : rng) : option (N * rng) :=
  match sample_below FUEL (hi - lo) g with
  | Some (x, g') => Some (lo + x, g')
  | None => None
  end.

(** exact comparison of an [f32] draw [k * 2^-24] with an [f32] given by its bits:
    [draw < rate] *)
Definition f32_draw_lt (k bits : N) : bool :=
  let sign := N.testbit bits 31 in
  let e := N.land (N.shiftr bits 23) 255 in
  let m := N.land bits 8388607 in
  if (e =? 255) then (if m =? 0 then negb sign else false)          (* +inf: true; -inf, NaN: false *)
  else if sign then false                                             (* rate <= -0: draw >= 0 is not below *)
  else
    (* rate = mant * 2^(ex - 150) with mant = m (+ 2^23 when normal), ex = max e 1 *)
    let mant := if e =? 0 then m else m + 8388608 in
    let ex := if e =? 0 then 1 else e in
    (* k * 2^-24 < mant * 2^(ex-150)  <=>  k * 2^126 < mant * 2^ex *)
    N.shiftl k 126 <? N.shiftl mant ex.
