(** * Observations of environments and markets, with their flat encoding *)
From Bourse Require Import Model.Types Model.Book Model.Obs Model.Codec Model.Rng Model.Env.

Record eobs := mkEObs {
  eo_books : list observation;      (* per asset: everything the book exposes *)
  eo_l2 : list l2data;              (* [level_2_data()] handed to agents *)
  eo_tvols : list (list N);         (* [get_trade_vols] *)
  eo_hist : list (list l2data);     (* the recorded level-2 series, as records *)
  eo_rng : N }.                     (* next raw draw of a clone of the generator *)

Fixpoint all_obs (L : nat) (m : market) : res (list observation) :=
  match m with
  | [] => Ok []
  | b :: r => do x <- observe L b; do xs <- all_obs L r; Ok (x :: xs)
  end.

Definition eobserve (L : nat) (e : menv) (g : rng) : res eobs :=
  do bs <- all_obs L (en_market e);
  Ok (mkEObs bs (en_l2 e) (en_tvols e) (en_hist e) (fst (next_u64 g))).

(** the recorded series, in the order the harness prints them:
    bid prices, ask prices, bid volumes, ask volumes, then per level
    bid volume, bid count, ask volume, ask count *)
Definition series (L : nat) (h : list l2data) : list (list N) :=
  [map l2_bid h; map l2_ask h; map l2_bid_vol h; map l2_ask_vol h]
  ++ flat_map (fun i =>
       [map (fun d => fst (nth i (l2_bid_levels d) (0, 0))) h;
        map (fun d => snd (nth i (l2_bid_levels d) (0, 0))) h;
        map (fun d => fst (nth i (l2_ask_levels d) (0, 0))) h;
        map (fun d => snd (nth i (l2_ask_levels d) (0, 0))) h]) (seq 0 L).

(** [kind]: 0 = Env, 1 = MarketEnv (cached data and histories printed), 2 = Market *)
Definition enc_eobs (kind : N) (L : nat) (o : eobs) : list N :=
  [N.of_nat (length (eo_books o))]
  ++ flat_map (fun b => let e := enc_obs b in N.of_nat (length e) :: e) (eo_books o)
  ++ (if kind =? 2 then [] else
        flat_map enc_l2 (eo_l2 o)
        ++ flat_map (fun tv => N.of_nat (length tv) :: tv) (eo_tvols o)
        ++ flat_map (fun h => N.of_nat (length h) :: concat (series L h)) (eo_hist o))
  ++ [eo_rng o].

(** ** Decoding *)
Definition pl2 (L : nat) : parser l2data :=
  let* b := pnum in let* a := pnum in let* bv := pnum in let* av := pnum in
  let* bl := prep L ppair in let* al := prep L ppair in
  pret (mkL2 b a bv av bl al).

Definition pobs_framed : parser observation :=
  let* n := pnum in
  fun l => match pobs (firstn (N.to_nat n) l) with
           | Some (o, []) => Some (o, skipn (N.to_nat n) l)
           | _ => None end.

Definition pseries_list : parser (list N) := let* n := pnum in prep (N.to_nat n) pnum.

(** rebuild the list of records from the printed series *)
Definition records_of (L : nat) (n : nat) (cols : list (list N)) : list l2data :=
  map (fun j =>
         let c k := nth j (nth k cols []) 0 in
         mkL2 (c 0%nat) (c 1%nat) (c 2%nat) (c 3%nat)
           (map (fun i => (c (4 + 4 * i)%nat, c (5 + 4 * i)%nat)) (seq 0 L))
           (map (fun i => (c (6 + 4 * i)%nat, c (7 + 4 * i)%nat)) (seq 0 L)))
      (seq 0 n).

Definition phist (L : nat) : parser (list l2data) :=
  let* n := pnum in
  let* cols := prep (4 + 4 * L) (prep (N.to_nat n) pnum) in
  pret (records_of L (N.to_nat n) cols).

Definition peobs (kind : N) (L : nat) : parser eobs :=
  let* a := pnum in
  let* bs := prep (N.to_nat a) pobs_framed in
  if kind =? 2 then
    let* r := pnum in pret (mkEObs bs [] [] [] r)
  else
    let* l2 := prep (N.to_nat a) (pl2 L) in
    let* tv := prep (N.to_nat a) pseries_list in
    let* h := prep (N.to_nat a) (phist L) in
    let* r := pnum in
    pret (mkEObs bs l2 tv h r).

Definition dec_eobs (kind : N) (L : nat) (l : list N) : option eobs :=
  match peobs kind L l with Some (o, []) => Some o | _ => None end.

(** ** Environment operations *)
Definition dec_eop (l : list N) : option eop :=
  match l with
  | [0; a; sd; v; tr; hp; p] => option_map (fun sd => EPlace (N.to_nat a) sd v tr (dec_opt hp p)) (dec_side sd)
  | [1; a; id] => Some (ECancel (N.to_nat a) (N.to_nat id))
  | [2; a; id; hp; p; hv; v] => Some (EModify (N.to_nat a) (N.to_nat id) (dec_opt hp p) (dec_opt hv v))
  | [3] => Some EStep
  | [4] => Some EEnable
  | [5] => Some EDisable
  | 6 :: a :: r => option_map (MDirect (N.to_nat a)) (dec_op r)
  | [7; t] => Some (MSetTime t)
  | [8] => Some MResetTvols
  | _ => None
  end.
