(** * Observations: everything the public API of [OrderBook<LEVELS>] exposes *)
From Bourse Require Import Model.Types Model.Map Model.Side Model.Book.

(** IEEE-754 binary64 bit pattern of [x / 2] for a natural number [x < 2^53]
    (exact: no rounding is involved). *)
Definition f64_bits_of_half (x : N) : N :=
  if x =? 0 then 0
  else let e := N.log2 x in
       N.shiftl (e + 1022) 52 + N.shiftl (x - N.shiftl 1 e) (52 - e).

Record l2data := mkL2 {
  l2_bid : N; l2_ask : N; l2_bid_vol : N; l2_ask_vol : N;
  l2_bid_levels : list (N * N); l2_ask_levels : list (N * N) }.

Record observation := mkObs {
  ob_t : N; ob_tvol : N;
  ob_bid : N; ob_ask : N;
  ob_bid_vol : N; ob_ask_vol : N;
  ob_bid_bv : N; ob_ask_bv : N;
  ob_bid_bvo : N * N; ob_ask_bvo : N * N;
  ob_bid_levels : list (N * N); ob_ask_levels : list (N * N);
  ob_l1 : list N;               (* Level1Data, 8 fields in declaration order *)
  ob_l2 : l2data;               (* Level2Data *)
  ob_mid : N;                   (* mid_price().to_bits() *)
  ob_orders : list order;       (* get_orders() *)
  ob_trades : list trade }.     (* get_trades() *)

Definition level_2_data (L : nat) (s : book) : res l2data :=
  do bl <- bid_levels L s;
  do al <- ask_levels L s;
  Ok (mkL2 (fst (bid_ask s)) (snd (bid_ask s)) (bid_vol s) (ask_vol s) bl al).

Definition level_1_data (s : book) : list N :=
  [fst (bid_ask s); snd (bid_ask s); bid_vol s; ask_vol s;
   fst (bid_best_vol_and_orders s); fst (ask_best_vol_and_orders s);
   snd (bid_best_vol_and_orders s); snd (ask_best_vol_and_orders s)].

Definition observe (L : nat) (s : book) : res observation :=
  do bl <- bid_levels L s;
  do al <- ask_levels L s;
  do l2 <- level_2_data L s;
  Ok (mkObs (b_t s) (b_tvol s) (fst (bid_ask s)) (snd (bid_ask s))
        (bid_vol s) (ask_vol s) (bid_best_vol s) (ask_best_vol s)
        (bid_best_vol_and_orders s) (ask_best_vol_and_orders s)
        bl al (level_1_data s) l2 (f64_bits_of_half (mid_price_x2 s))
        (map e_order (b_orders s)) (b_trades s)).
