(** * BTreeMap as strictly sorted association lists

   [std::collections::BTreeMap<K, V>] is modelled by a list of pairs strictly
   sorted by key. Two instances are used by side.rs: keys [(Price, Nanos)]
   (lexicographic order) for the price-time priority map and keys [Price] for
   the per-level volume map. Only the operations side.rs uses are modelled:
   insert (overwriting an equal key), remove, get, first_key_value and the
   "last key at a price" range query of [queue_order]. *)
From Bourse Require Import Model.Types.

(** ** Priority map: keys [(price key, time)] *)
Definition key := (N * N)%type.
Definition klt (a b : key) : bool :=
  (fst a <? fst b) || ((fst a =? fst b) && (snd a <? snd b)).
Definition keq (a b : key) : bool := (fst a =? fst b) && (snd a =? snd b).

Fixpoint kinsert (k : key) (v : nat) (l : list (key * nat)) : list (key * nat) :=
  match l with
  | [] => [(k, v)]
  | (k', v') :: t =>
      if klt k k' then (k, v) :: l
      else if keq k k' then (k, v) :: t
      else (k', v') :: kinsert k v t
  end.

Fixpoint kremove (k : key) (l : list (key * nat)) : list (key * nat) :=
  match l with
  | [] => []
  | (k', v') :: t => if keq k k' then t else (k', v') :: kremove k t
  end.

(** Largest time-stamp among the keys with price key [p]
    ([range((p, MIN)..=(p, MAX)).next_back()]). *)
Fixpoint klast_at (p : N) (l : list (key * nat)) : option N :=
  match l with
  | [] => None
  | ((p', t'), _) :: r =>
      match klast_at p r with
      | Some x => Some x
      | None => if p' =? p then Some t' else None
      end
  end.

(** ** Volume map: keys [price key], values [(volume, order count)] *)
Definition vmap := list (N * (N * N)).

Fixpoint vget (p : N) (m : vmap) : option (N * N) :=
  match m with
  | [] => None
  | (p', x) :: t => if p' =? p then Some x else vget p t
  end.

(** insert-or-overwrite, keeping the list sorted *)
Fixpoint vset (p : N) (x : N * N) (m : vmap) : vmap :=
  match m with
  | [] => [(p, x)]
  | (p', x') :: t =>
      if p <? p' then (p, x) :: m
      else if p =? p' then (p, x) :: t
      else (p', x') :: vset p x t
  end.

Fixpoint vremove (p : N) (m : vmap) : vmap :=
  match m with
  | [] => []
  | (p', x') :: t => if p' =? p then t else (p', x') :: vremove p t
  end.
