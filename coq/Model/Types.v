(** * Types of the order book model (crates/order_book/src/types.rs) *)
From Coq Require Export List NArith Bool Arith Lia.
Export ListNotations.
Open Scope N_scope.

(** Rust [u32::MAX] (= [Price::MAX]) and [u64::MAX] (= [Nanos::MAX]). *)
Definition MAXP : N := 4294967295.
Definition MAXT : N := 18446744073709551615.
Definition W32 : N := 4294967296.

Inductive side := Bid | Ask.
Inductive status := SNew | SActive | SFilled | SCancelled | SRejected.

Definition side_eqb (a b : side) : bool :=
  match a, b with Bid, Bid | Ask, Ask => true | _, _ => false end.
Definition status_eqb (a b : status) : bool :=
  match a, b with
  | SNew, SNew | SActive, SActive | SFilled, SFilled
  | SCancelled, SCancelled | SRejected, SRejected => true
  | _, _ => false end.
Definition opp (sd : side) : side := match sd with Bid => Ask | Ask => Bid end.

Lemma side_eqb_eq a b : side_eqb a b = true <-> a = b.
Proof. destruct a, b; simpl; split; congruence. Qed.
Lemma status_eqb_eq a b : status_eqb a b = true <-> a = b.
Proof. destruct a, b; simpl; split; congruence. Qed.
Lemma side_eqb_refl a : side_eqb a a = true.
Proof. destruct a; reflexivity. Qed.
Lemma status_eqb_refl a : status_eqb a a = true.
Proof. destruct a; reflexivity. Qed.

(** [struct Order] *)
Record order := mkOrder {
  o_side : side; o_status : status; o_arr : N; o_end : N;
  o_vol : N; o_start : N; o_price : N; o_trader : N; o_id : nat }.

(** [struct Trade] *)
Record trade := mkTrade {
  tr_t : N; tr_side : side; tr_price : N; tr_vol : N;
  tr_active : nat; tr_passive : nat }.

(** [struct OrderEntry]: order data and the key [(Side, u32, u64)]. *)
Record entry := mkEntry { e_order : order; e_kside : side; e_kp : N; e_kt : N }.

(** Functional record updates *)
Definition set_status (o : order) (x : status) : order :=
  mkOrder (o_side o) x (o_arr o) (o_end o) (o_vol o) (o_start o) (o_price o) (o_trader o) (o_id o).
Definition set_arr (o : order) (x : N) : order :=
  mkOrder (o_side o) (o_status o) x (o_end o) (o_vol o) (o_start o) (o_price o) (o_trader o) (o_id o).
Definition set_end (o : order) (x : N) : order :=
  mkOrder (o_side o) (o_status o) (o_arr o) x (o_vol o) (o_start o) (o_price o) (o_trader o) (o_id o).
Definition set_vol (o : order) (x : N) : order :=
  mkOrder (o_side o) (o_status o) (o_arr o) (o_end o) x (o_start o) (o_price o) (o_trader o) (o_id o).
Definition set_price (o : order) (x : N) : order :=
  mkOrder (o_side o) (o_status o) (o_arr o) (o_end o) (o_vol o) (o_start o) x (o_trader o) (o_id o).

(** Results of operations that may panic in Rust. *)
Inductive res (A : Type) := Ok (a : A) | Panic.
Arguments Ok {A} a.
Arguments Panic {A}.
Definition rbind {A B} (x : res A) (f : A -> res B) : res B :=
  match x with Ok a => f a | Panic => Panic end.
Notation "'do' x <- e ; f" := (rbind e (fun x => f))
  (at level 200, x pattern, e at level 100, f at level 200, right associativity).

(** Checked subtraction ([a - b] on unsigned integers panics on underflow). *)
Definition csub (a b : N) : res N := if b <=? a then Ok (a - b) else Panic.

(** list update *)
Fixpoint set_nth {A} (l : list A) (i : nat) (x : A) : list A :=
  match l, i with
  | [], _ => []
  | _ :: t, O => x :: t
  | h :: t, S i' => h :: set_nth t i' x
  end.

(** [Event<OrderId>] *)
Inductive event :=
| EvNew (id : nat)
| EvCancel (id : nat)
| EvModify (id : nat) (new_price new_vol : option N).
