(** * Orders that can still rest have positive volume (reference engine, then the model) *)
From Bourse Require Import Model.Types Model.Map Model.Side Model.Book Model.Obs Spec.RefBook
  Proofs.Basic Proofs.MapLemmas Proofs.Refine.
From Coq Require Import ZifyBool ZifyNat ZifyN.

Local Arguments N.sub : simpl never.
Local Arguments N.add : simpl never.
Local Arguments N.eqb : simpl never.
Local Arguments N.leb : simpl never.
Local Arguments N.ltb : simpl never.
Local Arguments N.min : simpl never.

(** volumes in requests are at least 1 (the property's valid histories) *)
Definition op_vols (o : op) : Prop :=
  match o with
  | OCreate _ v _ _ | OCreatePlace _ v _ _ => 1 <= v
  | OModify _ _ (Some v) | OEvent (EvModify _ _ (Some v)) => 1 <= v
  | _ => True
  end.

Definition pos (o : order) : Prop := 0 < o_vol o \/ ~ live (o_status o).
Definition posvol_tbl (tb : list order) : Prop := forall i o, nth_error tb i = Some o -> pos o.

Lemma posvol_set_nth tb id o : posvol_tbl tb -> pos o -> posvol_tbl (set_nth tb id o).
Proof.
  intros H Ho i x Hx. destruct (Nat.eq_dec id i) as [->|Hne].
  - destruct (Nat.lt_ge_cases i (length tb)) as [Hlt|Hge].
    + rewrite nth_error_set_nth_eq in Hx by assumption. injection Hx as <-. assumption.
    + assert (nth_error (set_nth tb i o) i = None) by (apply nth_error_None; rewrite set_nth_length; assumption). congruence.
  - rewrite nth_error_set_nth_neq in Hx by assumption. eapply H; eassumption.
Qed.

Lemma posvol_app tb o : posvol_tbl tb -> pos o -> posvol_tbl (tb ++ [o]).
Proof.
  intros H Ho i x Hx. destruct (Nat.lt_ge_cases i (length tb)) as [Hlt|Hge].
  - rewrite nth_error_app1 in Hx by assumption. eapply H; eassumption.
  - rewrite nth_error_app2 in Hx by assumption. destruct (i - length tb)%nat as [|k]; [|destruct k; discriminate].
    cbn in Hx. injection Hx as <-. assumption.
Qed.

Lemma not_live_filled o : o_status o = SFilled -> ~ live (o_status o).
Proof. intros E [H|H]; congruence. Qed.

Lemma match_orders_pos t a p a2 p2 tr v :
  match_orders t a p = (a2, p2, tr, v) -> pos a2 /\ pos p2.
Proof.
  unfold match_orders. intros H. injection H as <- <- _ _. cbn [o_vol set_vol]. split.
  - destruct (o_vol a - N.min (o_vol a) (o_vol p) =? 0) eqn:E.
    + right. apply not_live_filled. reflexivity.
    + left. cbn. lia.
  - destruct (o_vol p - N.min (o_vol a) (o_vol p) =? 0) eqn:E.
    + right. apply not_live_filled. reflexivity.
    + left. cbn. lia.
Qed.

Lemma ref_match_pos t : forall q agg tb log tv agg' tb' q' log' tv',
  ref_match t agg tb q log tv = (agg', tb', q', log', tv') ->
  posvol_tbl tb -> pos agg -> posvol_tbl tb' /\ pos agg'.
Proof.
  induction q as [|id q IH]; intros agg tb log tv agg' tb' q' log' tv' H Ht Ha; cbn [ref_match] in H.
  - injection H as <- <- _ _ _. auto.
  - destruct ((0 <? o_vol agg) && admits agg (oget tb id)).
    + destruct (match_orders t agg (oget tb id)) as [[[a2 p2] tr] v] eqn:Em.
      destruct (match_orders_pos _ _ _ _ _ _ _ Em) as [Pa Pp].
      destruct (o_vol p2 =? 0).
      * eapply IH; [exact H | apply posvol_set_nth; assumption | assumption].
      * injection H as <- <- _ _ _. split; [apply posvol_set_nth; assumption | assumption].
    + injection H as <- <- _ _ _. auto.
Qed.

Lemma ref_arrive_pos r o r1 o1 :
  ref_arrive r o = (r1, o1) -> posvol_tbl (r_orders r) -> pos o -> posvol_tbl (r_orders r1) /\ pos o1.
Proof.
  unfold ref_arrive. intros H Ht Ho.
  destruct (r_trading r).
  - destruct (ref_match (r_t r) o (r_orders r) (rq r (opp (o_side o))) (r_trades r) (r_tvol r)) as [[[[a tb] oq] lg] tv] eqn:Em.
    destruct (ref_match_pos _ _ _ _ _ _ _ _ _ _ _ Em Ht Ho) as [Ht' Ha].
    destruct (status_eqb (o_status a) SFilled); injection H as <- <-; (split; [|assumption]);
      destruct (o_side o), (o_side a); cbn; assumption.
  - destruct (status_eqb (o_status o) SFilled); injection H as <- <-; (split; [|assumption]);
      destruct (o_side o); cbn; assumption.
Qed.

Lemma r_orders_set_rq r sd q : r_orders (set_rq r sd q) = r_orders r.
Proof. destruct sd; reflexivity. Qed.

Lemma pos_not_live o : ~ live (o_status o) -> pos o.
Proof. intros H; right; assumption. Qed.

Lemma ref_place_pos r id r' : ref_place r id = Some r' -> posvol_tbl (r_orders r) -> posvol_tbl (r_orders r').
Proof.
  unfold ref_place. intros H Ht. destruct (nth_error (r_orders r) id) as [o|] eqn:Hn; [|discriminate].
  destruct (status_eqb (o_status o) SNew) eqn:Es; cbn [negb] in H; [|injection H as <-; assumption].
  apply status_eqb_eq in Es.
  assert (Po : pos (set_arr (set_status o SActive) (r_t r))).
  { destruct (Ht _ _ Hn) as [P|P]; [left; exact P|]. exfalso. apply P. left. assumption. }
  destruct (is_market (set_arr (set_status o SActive) (r_t r))).
  - destruct (r_trading r).
    + destruct (ref_match _ _ _ _ _ _) as [[[[a tb] oq] lg] tv] eqn:Em.
      destruct (ref_match_pos _ _ _ _ _ _ _ _ _ _ _ Em Ht Po) as [Ht' Ha].
      injection H as <-. cbn [r_orders set_rorders]. rewrite r_orders_set_rq. cbn [r_orders].
      apply posvol_set_nth; [assumption|].
      destruct (status_eqb (o_status a) SFilled) eqn:Ef; [assumption|]. apply pos_not_live. intros [C|C]; discriminate.
    + injection H as <-. cbn [r_orders set_rorders]. apply posvol_set_nth; [assumption|]. apply pos_not_live. intros [C|C]; discriminate.
  - destruct (ref_arrive r (set_arr (set_status o SActive) (r_t r))) as [r1 o1] eqn:Ea.
    destruct (ref_arrive_pos _ _ _ _ Ea Ht Po) as [Ht1 Po1].
    injection H as <-. cbn [r_orders set_rorders]. apply posvol_set_nth; assumption.
Qed.

Lemma ref_cancel_pos r id r' : ref_cancel r id = Some r' -> posvol_tbl (r_orders r) -> posvol_tbl (r_orders r').
Proof.
  unfold ref_cancel. intros H Ht. destruct (nth_error (r_orders r) id) as [o|] eqn:Hn; [|discriminate].
  destruct (status_eqb (o_status o) SActive); injection H as <-; [|assumption].
  rewrite r_orders_set_rq. cbn [r_orders set_rorders]. apply posvol_set_nth; [assumption|].
  apply pos_not_live. intros [C|C]; discriminate.
Qed.

Lemma ref_replace_pos r id o p v :
  posvol_tbl (r_orders r) -> 0 < v -> posvol_tbl (r_orders (ref_replace r id o p v)).
Proof.
  intros Ht Hv. unfold ref_replace.
  destruct (ref_arrive (set_rq r (o_side o) (remove_id id (rq r (o_side o)))) (set_price (set_vol o v) p)) as [r1 o1] eqn:Ea.
  destruct (ref_arrive_pos _ _ _ _ Ea) as [Ht1 Po1]; [rewrite r_orders_set_rq; assumption | left; exact Hv |].
  cbn [r_orders set_rorders]. apply posvol_set_nth; assumption.
Qed.

Lemma ref_modify_pos r id np nv r' :
  ref_modify r id np nv = Some r' -> (match nv with Some v => 1 <= v | None => True end) ->
  posvol_tbl (r_orders r) -> posvol_tbl (r_orders r').
Proof.
  unfold ref_modify. intros H Hv Ht. destruct (nth_error (r_orders r) id) as [o|] eqn:Hn; [|discriminate].
  destruct (match np with Some p => negb (p mod r_tick r =? 0) | None => false end); [injection H as <-; assumption|].
  destruct (status_eqb (o_status o) SActive) eqn:Es; cbn [negb] in H; [|injection H as <-; assumption].
  apply status_eqb_eq in Es.
  assert (Hov : 0 < o_vol o). { destruct (Ht _ _ Hn) as [P|P]; [exact P|]. exfalso. apply P. right. assumption. }
  destruct np as [p|], nv as [v|]; try (injection H as <-).
  - apply ref_replace_pos; [assumption | lia].
  - apply ref_replace_pos; assumption.
  - destruct (v <? o_vol o); injection H as <-.
    + cbn [r_orders set_rorders]. apply posvol_set_nth; [assumption|]. left. cbn. lia.
    + apply ref_replace_pos; [assumption | lia].
  - assumption.
Qed.

Lemma ref_create_pos r sd v tr p r' c :
  ref_create r sd v tr p = (r', c) -> 1 <= v -> posvol_tbl (r_orders r) -> posvol_tbl (r_orders r').
Proof.
  unfold ref_create. intros H Hv Ht.
  destruct p as [p|]; [destruct (p mod r_tick r =? 0)|]; injection H as <- _; try assumption;
    cbn [r_orders set_rorders]; apply posvol_app; try assumption; left; cbn; lia.
Qed.

Theorem ref_step_pos r o r' x :
  ref_step r o = Some (r', x) -> op_vols o -> posvol_tbl (r_orders r) -> posvol_tbl (r_orders r').
Proof.
  intros H Hv Ht. destruct o; cbn [ref_step op_vols] in *.
  - destruct (ref_create r sd vol trader price) as [r1 c] eqn:E. injection H as <- _. eapply ref_create_pos; eauto.
  - destruct (ref_create r sd vol trader price) as [r1 c] eqn:E.
    pose proof (ref_create_pos _ _ _ _ _ _ _ E Hv Ht) as Ht1.
    destruct c as [id|p t].
    + destruct (ref_place r1 id) as [r2|] eqn:Ep; [|discriminate]. cbn in H. injection H as <- _. eapply ref_place_pos; eauto.
    + injection H as <- _. assumption.
  - destruct (ref_place r id) as [r2|] eqn:Ep; [|discriminate]. cbn in H. injection H as <- _. eapply ref_place_pos; eauto.
  - destruct (ref_cancel r id) as [r2|] eqn:Ep; [|discriminate]. cbn in H. injection H as <- _. eapply ref_cancel_pos; eauto.
  - destruct (ref_modify r id new_price new_vol) as [r2|] eqn:Ep; [|discriminate]. cbn in H. injection H as <- _.
    refine (ref_modify_pos _ _ _ _ _ Ep _ Ht). destruct new_vol; exact Hv.
  - destruct ev; cbn in H.
    + destruct (ref_place r id) as [r2|] eqn:Ep; [|discriminate]. cbn in H. injection H as <- _. eapply ref_place_pos; eauto.
    + destruct (ref_cancel r id) as [r2|] eqn:Ep; [|discriminate]. cbn in H. injection H as <- _. eapply ref_cancel_pos; eauto.
    + destruct (ref_modify r id new_price new_vol) as [r2|] eqn:Ep; [|discriminate]. cbn in H. injection H as <- _.
      refine (ref_modify_pos _ _ _ _ _ Ep _ Ht). destruct new_vol; exact Hv.
  - injection H as <- _. assumption.
  - injection H as <- _. assumption.
  - injection H as <- _. assumption.
  - injection H as <- _. assumption.
  - injection H as <- _. assumption.
Qed.
