(** * C04 (first part): redundant requests are no-ops, identity fields are
    immutable, ids are dense. These facts need no invariant. *)
From Bourse Require Import Model.Types Model.Map Model.Side Model.Book Model.Obs Proofs.Basic.
From Coq Require Import ZifyBool ZifyNat ZifyN.

Ltac inv H := inversion H; subst; clear H.

Lemma set_orders_same s : set_orders s (b_orders s) = s.
Proof. destruct s; reflexivity. Qed.

(** ** No-op clauses, as state equalities *)
Theorem place_noop s id e :
  nth_error (b_orders s) id = Some e -> o_status (e_order e) <> SNew ->
  place_order s id = Ok s.
Proof.
  intros Hn Hs. unfold place_order. rewrite Hn.
  destruct (status_eqb (o_status (e_order e)) SNew) eqn:E; [apply status_eqb_eq in E; contradiction | reflexivity].
Qed.

Theorem cancel_noop s id e :
  nth_error (b_orders s) id = Some e -> o_status (e_order e) <> SActive ->
  cancel_order s id = Ok s.
Proof.
  intros Hn Hs. unfold cancel_order. rewrite Hn.
  destruct (status_eqb (o_status (e_order e)) SActive) eqn:E; [apply status_eqb_eq in E; contradiction | reflexivity].
Qed.

Theorem modify_noop s id e np nv :
  nth_error (b_orders s) id = Some e -> o_status (e_order e) <> SActive ->
  modify_order s id np nv = Ok s.
Proof.
  intros Hn Hs. unfold modify_order. rewrite Hn.
  destruct (match np with Some p => _ | None => false end); [reflexivity|].
  destruct (status_eqb (o_status (e_order e)) SActive) eqn:E; [apply status_eqb_eq in E; contradiction|].
  cbn. rewrite (set_nth_same _ _ _ Hn), set_orders_same. reflexivity.
Qed.

Theorem modify_nothing_noop s id e :
  nth_error (b_orders s) id = Some e -> modify_order s id None None = Ok s.
Proof.
  intros Hn. unfold modify_order. rewrite Hn.
  destruct (status_eqb (o_status (e_order e)) SActive); cbn;
    rewrite (set_nth_same _ _ _ Hn), set_orders_same; reflexivity.
Qed.

Theorem set_time_only_clock s t :
  let s' := set_time s t in
  b_t s' = t /\ b_tick s' = b_tick s /\ b_tvol s' = b_tvol s /\ b_ask s' = b_ask s /\
  b_bid s' = b_bid s /\ b_orders s' = b_orders s /\ b_trades s' = b_trades s /\
  b_trading s' = b_trading s.
Proof. cbn; auto 10. Qed.

Theorem process_event_noop s ev e :
  nth_error (b_orders s) (match ev with EvNew i | EvCancel i | EvModify i _ _ => i end) = Some e ->
  (match ev with
   | EvNew _ => o_status (e_order e) <> SNew
   | _ => o_status (e_order e) <> SActive end) ->
  process_event s ev = Ok s.
Proof.
  destruct ev; cbn; intros.
  - eapply place_noop; eauto.
  - eapply cancel_noop; eauto.
  - eapply modify_noop; eauto.
Qed.

(** ** Identity fields never change; ids are dense *)
Definition stable (a b : order) : Prop :=
  o_id a = o_id b /\ o_side a = o_side b /\ o_trader a = o_trader b /\ o_start a = o_start b.

Lemma stable_refl a : stable a a.
Proof. unfold stable; auto. Qed.
Lemma stable_trans a b c : stable a b -> stable b c -> stable a c.
Proof. unfold stable; intros (?&?&?&?) (?&?&?&?); repeat split; congruence. Qed.

(** every old order is still there, with the same identity *)
Definition keeps (l l' : list entry) : Prop :=
  forall i e, nth_error l i = Some e ->
    exists e', nth_error l' i = Some e' /\ stable (e_order e) (e_order e').

Lemma keeps_refl l : keeps l l.
Proof. intros i e H; exists e; split; auto using stable_refl. Qed.
Lemma keeps_trans a b c : keeps a b -> keeps b c -> keeps a c.
Proof.
  intros H1 H2 i e H. destruct (H1 _ _ H) as (e1 & Hn1 & S1).
  destruct (H2 _ _ Hn1) as (e2 & Hn2 & S2). exists e2; split; eauto using stable_trans.
Qed.
Lemma keeps_app l x : keeps l (l ++ x).
Proof.
  intros i e H. exists e; split; auto using stable_refl.
  rewrite nth_error_app1; auto. apply nth_error_Some; congruence.
Qed.
Lemma keeps_set_nth l id e0 e1 :
  nth_error l id = Some e0 -> stable (e_order e0) (e_order e1) -> keeps l (set_nth l id e1).
Proof.
  intros Hn Hs i e H. destruct (Nat.eq_dec id i) as [->|Hne].
  - exists e1. rewrite nth_error_set_nth_eq by (apply nth_error_Some; congruence).
    split; auto. congruence.
  - exists e. rewrite nth_error_set_nth_neq by auto. split; auto using stable_refl.
Qed.

Lemma match_orders_stable t a p a' p' tr v :
  match_orders t a p = (a', p', tr, v) -> stable a a' /\ stable p p'.
Proof.
  unfold match_orders; intros H; inv H; unfold stable.
  split; repeat split;
    repeat match goal with |- context [if ?c then _ else _] => destruct c end; reflexivity.
Qed.

Definition keeps_book (s s' : book) : Prop :=
  keeps (b_orders s) (b_orders s') /\ length (b_orders s') = length (b_orders s).

Lemma match_iter_keeps sd a0 s0 s a s1 a1 :
  (keeps_book s0 s /\ stable a0 a) ->
  match_iter sd s a = ICont s1 a1 -> keeps_book s0 s1 /\ stable a0 a1.
Proof.
  intros ((Hk & Hl) & Hs) H. apply match_iter_cont in H.
  destruct H as (id & pe & ps' & _ & _ & Hn & H).
  destruct (match_orders (b_t s) a (e_order pe)) as [[[agg' pass'] tr] v] eqn:Hm.
  destruct H as (_ & -> & ->). apply match_orders_stable in Hm. destruct Hm as [Ha Hp].
  unfold keeps_book. simp_side. cbn. rewrite set_nth_length. split; [split; [|exact Hl]|].
  - eapply keeps_trans; [exact Hk|]. eapply keeps_set_nth; eauto.
  - eapply stable_trans; eauto.
Qed.

Lemma do_match_keeps sd s a s' a' :
  do_match sd s a = Ok (s', a') -> keeps_book s s' /\ stable a a'.
Proof.
  intros H.
  eapply (do_match_inv (fun s1 a1 => keeps_book s s1 /\ stable a a1)); eauto.
  - intros; eapply match_iter_keeps; eauto.
  - split; [split; [apply keeps_refl | reflexivity] | apply stable_refl].
Qed.

Lemma keeps_book_refl s : keeps_book s s.
Proof. split; [apply keeps_refl | reflexivity]. Qed.
Lemma keeps_book_trans a b c : keeps_book a b -> keeps_book b c -> keeps_book a c.
Proof. intros [? ?] [? ?]; split; [eapply keeps_trans; eauto | congruence]. Qed.
Lemma keeps_book_side s sd x : keeps_book s (set_side s sd x).
Proof. unfold keeps_book; simp_side; split; [apply keeps_refl | reflexivity]. Qed.

Lemma place_limit_keeps sd s e s1 e1 :
  place_limit sd s e = Ok (s1, e1) -> keeps_book s s1 /\ stable (e_order e) (e_order e1).
Proof.
  intros H. unfold place_limit in H.
  assert (Hm : forall s' o', (if b_trading s then do_match sd s (e_order e) else Ok (s, e_order e)) = Ok (s', o') ->
                keeps_book s s' /\ stable (e_order e) o').
  { intros s' o' Hx. destruct (b_trading s); [eapply do_match_keeps; eauto|].
    inv Hx; split; [apply keeps_book_refl | apply stable_refl]. }
  destruct (if b_trading s then _ else _) as [[s' o']|]; [|discriminate]. cbn in H.
  destruct (Hm _ _ eq_refl) as [Hk Hs].
  destruct (status_eqb _ _); [inv H; auto|].
  destruct (sd_queue _ _ _ _ _) as [[x kt]|]; [|discriminate]. inv H. cbn. split; auto.
  eapply keeps_book_trans; [exact Hk | apply keeps_book_side].
Qed.

Lemma place_market_keeps sd s e s1 e1 :
  place_market sd s e = Ok (s1, e1) -> keeps_book s s1 /\ stable (e_order e) (e_order e1).
Proof.
  intros H. unfold place_market in H. destruct (b_trading s).
  - destruct (do_match sd s (e_order e)) as [[s' o']|] eqn:Hm; [|discriminate]. cbn in H.
    apply do_match_keeps in Hm. destruct Hm as [Hk Hs].
    destruct (status_eqb _ _); inv H; cbn; split; auto.
  - inv H; cbn. split; [apply keeps_book_refl | unfold stable; auto].
Qed.

Lemma keeps_book_entry s s1 id e e1 :
  keeps_book s s1 -> nth_error (b_orders s) id = Some e -> stable (e_order e) (e_order e1) ->
  keeps_book s (set_orders s1 (set_nth (b_orders s1) id e1)).
Proof.
  intros [Hk Hl] Hn Hs. split; cbn; [|rewrite set_nth_length; auto].
  intros i x Hx. destruct (Nat.eq_dec id i) as [->|Hne].
  - exists e1. rewrite nth_error_set_nth_eq.
    + split; auto. congruence.
    + rewrite Hl. apply nth_error_Some; congruence.
  - rewrite nth_error_set_nth_neq by auto. apply Hk; auto.
Qed.

Lemma place_order_keeps s id s' : place_order s id = Ok s' -> keeps_book s s'.
Proof.
  intros H. unfold place_order in H.
  destruct (nth_error (b_orders s) id) as [e|] eqn:Hn; [|discriminate].
  destruct (negb _); [inv H; apply keeps_book_refl|].
  match type of H with (do _ <- ?X; _) = _ => destruct X as [[s1 e1]|] eqn:Hp; [|discriminate] end.
  cbn in H; inv H.
  assert (keeps_book s s1 /\ stable (e_order e) (e_order e1)) as [Hk Hs].
  { match type of Hp with (if ?c then _ else _) = _ => destruct c end;
      [apply place_market_keeps in Hp | apply place_limit_keeps in Hp];
      destruct Hp as [? Hs]; split; auto; cbn in Hs; unfold stable in *; cbn in *; intuition. }
  eapply keeps_book_entry; eauto.
Qed.

Lemma cancel_order_keeps s id s' : cancel_order s id = Ok s' -> keeps_book s s'.
Proof.
  intros H. unfold cancel_order in H.
  destruct (nth_error (b_orders s) id) as [e|] eqn:Hn; [|discriminate].
  destruct (status_eqb _ _); [|inv H; apply keeps_book_refl].
  destruct (sd_remove _ _ _ _) as [x|]; [|discriminate]. cbn in H; inv H.
  eapply keeps_book_trans; [|apply keeps_book_side].
  eapply keeps_book_entry; eauto using keeps_book_refl. unfold stable; auto.
Qed.

Lemma replace_order_keeps s e p v s1 e1 :
  replace_order s e p v = Ok (s1, e1) -> keeps_book s s1 /\ stable (e_order e) (e_order e1).
Proof.
  intros H. unfold replace_order in H.
  destruct (sd_remove _ _ _ _) as [x|]; [|discriminate]. cbn in H.
  set (s0 := set_side s (e_kside e) x) in *.
  set (o0 := set_price (set_vol (e_order e) v) p) in *.
  assert (Hm : forall s2 o2, (if b_trading s0 then do_match (e_kside e) s0 o0 else Ok (s0, o0)) = Ok (s2, o2) ->
               keeps_book s s2 /\ stable (e_order e) o2).
  { intros s2 o2 Hx. destruct (b_trading s0).
    - apply do_match_keeps in Hx. destruct Hx as [Hk Hs]. split.
      + eapply keeps_book_trans; [apply keeps_book_side | exact Hk].
      + eapply stable_trans; [|exact Hs]. unfold stable; auto.
    - inv Hx. split; [apply keeps_book_side | unfold stable; auto]. }
  destruct (if b_trading s0 then _ else _) as [[s2 o2]|]; [|discriminate]. cbn in H.
  destruct (Hm _ _ eq_refl) as [Hk Hs].
  destruct (status_eqb _ _); [inv H; auto|].
  destruct (sd_queue _ _ _ _ _) as [[y kt]|]; [|discriminate]. inv H. cbn. split; auto.
  eapply keeps_book_trans; [exact Hk | apply keeps_book_side].
Qed.

Lemma modify_order_keeps s id np nv s' : modify_order s id np nv = Ok s' -> keeps_book s s'.
Proof.
  intros H. unfold modify_order in H.
  destruct (nth_error (b_orders s) id) as [e|] eqn:Hn; [|discriminate].
  destruct (match np with Some p => _ | None => false end); [inv H; apply keeps_book_refl|].
  match type of H with (do _ <- ?X; _) = _ => destruct X as [[s1 e1]|] eqn:Hp; [|discriminate] end.
  cbn in H; inv H.
  assert (keeps_book s s1 /\ stable (e_order e) (e_order e1)) as [Hk Hs].
  { destruct (status_eqb _ _); [|inv Hp; split; [apply keeps_book_refl | apply stable_refl]].
    destruct np as [p|], nv as [v|]; try (eapply replace_order_keeps; eauto; fail).
    - destruct (v <? _); [|eapply replace_order_keeps; eauto].
      unfold reduce_order_vol in Hp.
      destruct (csub _ _); [|discriminate]. cbn in Hp.
      destruct (sd_remove_vol _ _ _) as [x|]; [|discriminate]. inv Hp.
      split; [apply keeps_book_side | unfold stable; auto].
    - inv Hp; split; [apply keeps_book_refl | apply stable_refl]. }
  eapply keeps_book_entry; eauto.
Qed.

(** Orders are only ever appended; existing ones keep id, side, trader and
    starting volume; the list grows by exactly one on a successful creation. *)
Theorem identity_preserved s o s' x :
  step_raw s o = Ok (s', x) ->
  keeps (b_orders s) (b_orders s') /\
  length (b_orders s') =
    (match x with OCreated (Created _) => S (length (b_orders s)) | _ => length (b_orders s) end) /\
  (match x with OCreated (Created id) => id = length (b_orders s) | _ => True end).
Proof.
  intros H.
  assert (Hk : forall a b, keeps_book a b -> keeps (b_orders a) (b_orders b) /\ length (b_orders b) = length (b_orders a))
    by (unfold keeps_book; auto).
  destruct o; cbn in H.
  - destruct (create_order s sd vol trader price) as [s1 c] eqn:E. inv H.
    unfold create_order in E.
    destruct price as [p|]; [destruct (_ =? 0)|]; inv E; cbn;
      rewrite ?app_length; cbn; repeat split; auto using keeps_app, keeps_refl; lia.
  - unfold create_and_place_order in H.
    destruct (create_order s sd vol trader price) as [s1 c] eqn:E.
    assert (Hc : keeps (b_orders s) (b_orders s1) /\
                 match c with Created id => id = length (b_orders s) /\ length (b_orders s1) = S (length (b_orders s))
                         | _ => s1 = s end).
    { unfold create_order in E.
      destruct price as [p|]; [destruct (_ =? 0)|]; inv E; cbn; rewrite ?app_length; cbn;
        repeat split; auto using keeps_app, keeps_refl; lia. }
    destruct Hc as [Hk1 Hc]. destruct c as [id|p t].
    + destruct (place_order s1 id) as [s2|] eqn:Hp; [|discriminate]. cbn in H. inv H.
      apply place_order_keeps in Hp. destruct Hp as [Hk2 Hl2]. destruct Hc as [-> Hl1].
      repeat split; [eapply keeps_trans; eauto | congruence].
    + cbn in H. inv H. repeat split; auto.
  - destruct (place_order s id) as [s1|] eqn:Hp; [|discriminate]. inv H.
    apply place_order_keeps, Hk in Hp. intuition.
  - destruct (cancel_order s id) as [s1|] eqn:Hp; [|discriminate]. inv H.
    apply cancel_order_keeps, Hk in Hp. intuition.
  - destruct (modify_order s id new_price new_vol) as [s1|] eqn:Hp; [|discriminate]. inv H.
    apply modify_order_keeps, Hk in Hp. intuition.
  - destruct (process_event s ev) as [s1|] eqn:Hp; [|discriminate]. inv H.
    destruct ev; cbn in Hp;
      [apply place_order_keeps in Hp | apply cancel_order_keeps in Hp | apply modify_order_keeps in Hp];
      apply Hk in Hp; intuition.
  - inv H; cbn; auto using keeps_refl.
  - inv H; cbn; auto using keeps_refl.
  - inv H; cbn; auto using keeps_refl.
  - inv H; cbn; auto using keeps_refl.
  - inv H. unfold of_snapshot, to_snapshot; cbn.
    destruct (fold_left _ _ _) as [bid ask]; cbn; auto using keeps_refl.
Qed.
