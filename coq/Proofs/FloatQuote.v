(** * C16: a buy quote is at or below, a sell quote at or above, the mid-price the agent observed -
    as real numbers, through every binary64 rounding of [mid -/+ |d|], [/ tick], [floor/ceil],
    [* tick], the clamp and the cast *)
From Coq Require Import ZArith NArith Bool Reals Psatz Lia Lra.
From Flocq Require Import Core.Core IEEE754.BinarySingleNaN.
From Coq Require Import Floats.SpecFloat.
From Bourse Require Import Model.Types Model.Float Model.Agents.

Local Notation prec := 53%Z.
Local Notation emax := 1024%Z.
Local Notation fexp := (SpecFloat.fexp prec emax).
Local Notation rnd := (round radix2 fexp ZnearestE).
Local Open Scope R_scope.

Local Instance Hprec : FLX.Prec_gt_0 prec := prec_gt_0_53.
Local Instance Hemax : Prec_lt_emax prec emax := prec_lt_emax_53.
Local Instance Hvalid : Valid_exp fexp := fexp_correct prec emax Hprec.

(** "at most [r]" for a binary64 value on its way to the clamped cast: a NaN is cast to 0 and
    minus infinity is clamped to 0, so both count as small *)
Definition below (x : f64) (r : R) : Prop :=
  match x with
  | B754_nan => True
  | B754_infinity s => s = true
  | _ => B2R x <= r
  end.

Definition above (x : f64) (r : R) : Prop :=
  match x with
  | B754_nan => False
  | B754_infinity s => s = false
  | _ => r <= B2R x
  end.

Lemma B2SF_inf_inv' (z : f64) s : B2SF z = S754_infinity s -> z = B754_infinity s.
Proof. destruct z; simpl; intros H; try discriminate. congruence. Qed.

Lemma finite_lt_emax (x : f64) : is_finite x = true -> Rabs (B2R x) < bpow radix2 emax.
Proof. intros H. apply abs_B2R_lt_emax. Qed.

Lemma format_B2R (x : f64) : generic_format radix2 fexp (B2R x).
Proof. apply generic_format_B2R. Qed.

Lemma rnd_le_format x (y : f64) : x <= B2R y -> rnd x <= B2R y.
Proof.
  intros H. rewrite <- (round_generic radix2 fexp ZnearestE (B2R y)) by apply format_B2R.
  apply round_le; auto with typeclass_instances.
Qed.

Lemma rnd_ge_format x (y : f64) : B2R y <= x -> B2R y <= rnd x.
Proof.
  intros H. rewrite <- (round_generic radix2 fexp ZnearestE (B2R y)) by apply format_B2R.
  apply round_le; auto with typeclass_instances.
Qed.

Lemma sign_of_neg (x : f64) : is_finite x = true -> B2R x < 0 -> Bsign x = true.
Proof.
  destruct x as [s|s| |s m e H]; simpl; intros F Hx; try discriminate; try lra.
  destruct s; [reflexivity|]. exfalso. pose proof (F2R_gt_0 radix2 (Float radix2 (Z.pos m) e)) as P.
  simpl in P. unfold cond_Zopp in Hx. specialize (P eq_refl). lra.
Qed.

Lemma sign_of_pos (x : f64) : is_finite x = true -> 0 < B2R x -> Bsign x = false.
Proof.
  destruct x as [s|s| |s m e H]; simpl; intros F Hx; try discriminate; try lra.
  destruct s; [|reflexivity]. exfalso. pose proof (F2R_lt_0 radix2 (Float radix2 (Z.neg m) e)) as P.
  simpl in P. specialize (P eq_refl). unfold cond_Zopp in Hx. simpl in Hx. lra.
Qed.

Lemma below_finite (x : f64) r : is_finite x = true -> B2R x <= r -> below x r.
Proof. destruct x; simpl; intros F H; try discriminate; exact H. Qed.

Lemma above_finite (x : f64) r : is_finite x = true -> r <= B2R x -> above x r.
Proof. destruct x; simpl; intros F H; try discriminate; exact H. Qed.

(** ** step 1: [mid - |d|] and [mid + |d|] *)
Lemma sub_abs_below (mid d : f64) :
  is_finite mid = true -> Bsign mid = false -> below (fsub mid (fabs d)) (B2R mid).
Proof.
  intros Fm Sm. unfold fsub, fabs.
  destruct d as [sd|sd| |sd md ed Hd].
  - (* zero *)
    simpl (Babs _).
    pose proof (Bminus_correct prec emax prec_gt_0_53 prec_lt_emax_53 mode_NE mid (B754_zero false) Fm eq_refl) as C.
    simpl B2R in C. rewrite Rminus_0_r in C. simpl round_mode in C.
    rewrite (round_generic radix2 fexp ZnearestE (B2R mid)) in C by apply format_B2R.
    rewrite Rlt_bool_true in C by (apply finite_lt_emax; exact Fm).
    destruct C as (R1 & F1 & _). apply below_finite; [exact F1 | rewrite R1; lra].
  - destruct mid; try discriminate; simpl; reflexivity.
  - destruct mid; try discriminate; simpl; exact I.
  - set (D := B754_finite sd md ed Hd).
    pose proof (Bminus_correct prec emax prec_gt_0_53 prec_lt_emax_53 mode_NE mid (Babs D) Fm eq_refl) as C.
    rewrite B2R_Babs in C. simpl round_mode in C.
    destruct (Rlt_bool (Rabs (rnd (B2R mid - Rabs (B2R D)))) (bpow radix2 emax)).
    + destruct C as (R1 & F1 & _). apply below_finite; [exact F1|]. rewrite R1.
      apply rnd_le_format. pose proof (Rabs_pos (B2R D)). lra.
    + destruct C as (_ & S). rewrite Sm in S. simpl in S. discriminate.
Qed.

Lemma add_abs_above (mid d : f64) :
  is_finite mid = true -> is_nan d = false -> above (fadd mid (fabs d)) (B2R mid).
Proof.
  intros Fm Nd. unfold fadd, fabs.
  destruct d as [sd|sd| |sd md ed Hd]; try discriminate.
  - simpl (Babs _).
    pose proof (Bplus_correct prec emax prec_gt_0_53 prec_lt_emax_53 mode_NE mid (B754_zero false) Fm eq_refl) as C.
    simpl B2R in C. rewrite Rplus_0_r in C. simpl round_mode in C.
    rewrite (round_generic radix2 fexp ZnearestE (B2R mid)) in C by apply format_B2R.
    rewrite Rlt_bool_true in C by (apply finite_lt_emax; exact Fm).
    destruct C as (R1 & F1 & _). apply above_finite; [exact F1 | rewrite R1; lra].
  - destruct mid; try discriminate; simpl; reflexivity.
  - set (D := B754_finite sd md ed Hd).
    pose proof (Bplus_correct prec emax prec_gt_0_53 prec_lt_emax_53 mode_NE mid (Babs D) Fm eq_refl) as C.
    rewrite B2R_Babs in C. simpl round_mode in C.
    destruct (Rlt_bool (Rabs (rnd (B2R mid + Rabs (B2R D)))) (bpow radix2 emax)).
    + destruct C as (R1 & F1 & _). apply above_finite; [exact F1|]. rewrite R1.
      apply rnd_ge_format. pose proof (Rabs_pos (B2R D)). lra.
    + destruct C as (O & S). simpl in S. unfold binary_overflow in O. simpl overflow_to_inf in O.
      apply B2SF_inf_inv' in O. fold (Babs D) in O. rewrite O. simpl. exact S.
Qed.

(** ** step 2: division by a tick size [t >= 1] *)
Lemma abs_bound_no_overflow (x : f64) y :
  is_finite x = true -> - Rabs (B2R x) <= y <= Rabs (B2R x) ->
  Rlt_bool (Rabs (rnd y)) (bpow radix2 emax) = true.
Proof.
  intros F [L U]. apply Rlt_bool_true.
  assert (Fa : is_finite (Babs x) = true) by (rewrite is_finite_Babs; exact F).
  pose proof (finite_lt_emax _ Fa) as B. rewrite B2R_Babs, Rabs_Rabsolu in B.
  assert (U' : rnd y <= B2R (Babs x)) by (apply rnd_le_format; rewrite B2R_Babs; exact U).
  assert (L' : B2R (Bopp (Babs x)) <= rnd y) by (apply rnd_ge_format; rewrite B2R_Bopp, B2R_Babs; exact L).
  rewrite B2R_Bopp, B2R_Babs in L'. rewrite B2R_Babs in U'.
  apply Rabs_def1; lra.
Qed.

Lemma div_bound x t : 1 <= t -> - Rabs x <= x / t <= Rabs x.
Proof.
  intros Ht. assert (Hi : 0 < / t <= 1).
  { split; [apply Rinv_0_lt_compat; lra|]. rewrite <- Rinv_1. apply Rinv_le_contravar; lra. }
  unfold Rdiv. destruct (Rle_or_lt 0 x) as [P|N].
  - rewrite (Rabs_pos_eq x P). split; nra.
  - rewrite (Rabs_left x N). split; nra.
Qed.

Lemma div_below (x t : f64) r :
  below x r -> is_finite t = true -> 1 <= B2R t -> below (fdiv x t) (rnd (r / B2R t)).
Proof.
  intros Hx Ft Ht. unfold fdiv.
  assert (Tnz : B2R t <> 0) by lra.
  assert (St : Bsign t = false) by (apply sign_of_pos; [exact Ft | lra]).
  pose proof (Bdiv_correct prec emax prec_gt_0_53 prec_lt_emax_53 mode_NE x t Tnz) as C. simpl round_mode in C.
  destruct x as [sx|sx| |sx mx ex Hx'].
  - rewrite (abs_bound_no_overflow (B754_zero sx)) in C by (try reflexivity; apply div_bound; exact Ht).
    destruct C as (R1 & F1 & _). apply below_finite; [rewrite F1; reflexivity|]. rewrite R1.
    apply round_le; auto with typeclass_instances. simpl in Hx. simpl B2R.
    apply Rmult_le_compat_r; [left; apply Rinv_0_lt_compat; lra | exact Hx].
  - simpl in Hx. subst sx. destruct t; try discriminate; simpl in *; try lra. rewrite St. reflexivity.
  - destruct t; try discriminate; simpl in *; try lra; exact I.
  - set (X := B754_finite sx mx ex Hx') in *.
    rewrite (abs_bound_no_overflow X) in C by (try reflexivity; apply div_bound; exact Ht).
    destruct C as (R1 & F1 & _). apply below_finite; [rewrite F1; reflexivity|]. rewrite R1.
    apply round_le; auto with typeclass_instances.
    apply Rmult_le_compat_r; [left; apply Rinv_0_lt_compat; lra | exact Hx].
Qed.

Lemma div_above (x t : f64) r :
  above x r -> is_finite t = true -> 1 <= B2R t -> above (fdiv x t) (rnd (r / B2R t)).
Proof.
  intros Hx Ft Ht. unfold fdiv.
  assert (Tnz : B2R t <> 0) by lra.
  assert (St : Bsign t = false) by (apply sign_of_pos; [exact Ft | lra]).
  pose proof (Bdiv_correct prec emax prec_gt_0_53 prec_lt_emax_53 mode_NE x t Tnz) as C. simpl round_mode in C.
  destruct x as [sx|sx| |sx mx ex Hx'].
  - rewrite (abs_bound_no_overflow (B754_zero sx)) in C by (try reflexivity; apply div_bound; exact Ht).
    destruct C as (R1 & F1 & _). apply above_finite; [rewrite F1; reflexivity|]. rewrite R1.
    apply round_le; auto with typeclass_instances. simpl in Hx. simpl B2R.
    apply Rmult_le_compat_r; [left; apply Rinv_0_lt_compat; lra | exact Hx].
  - simpl in Hx. subst sx. destruct t; try discriminate; simpl in *; try lra. rewrite St. reflexivity.
  - simpl in Hx. contradiction.
  - set (X := B754_finite sx mx ex Hx') in *.
    rewrite (abs_bound_no_overflow X) in C by (try reflexivity; apply div_bound; exact Ht).
    destruct C as (R1 & F1 & _). apply above_finite; [rewrite F1; reflexivity|]. rewrite R1.
    apply round_le; auto with typeclass_instances.
    apply Rmult_le_compat_r; [left; apply Rinv_0_lt_compat; lra | exact Hx].
Qed.

(** ** step 3: floor / ceil; the result is an integer *)
Definition is_int (x : f64) : Prop := is_finite x = true -> exists n : Z, B2R x = IZR n.

Lemma floor_below (y : f64) r : below y r -> below (ffloor y) r /\ is_int (ffloor y).
Proof.
  intros Hy. unfold ffloor.
  destruct (Bnearbyint_correct prec emax prec_lt_emax_53 mode_DN y) as (R1 & F1 & _).
  simpl round_mode in R1. rewrite round_FIX_IZR in R1.
  split; [|intros _; eexists; exact R1].
  destruct y as [s|s| |s m e H]; try exact Hy.
  - set (Y := B754_finite s m e H : f64) in *. apply below_finite; [rewrite F1; reflexivity|]. rewrite R1.
    change (B2R Y <= r) in Hy. pose proof (Zfloor_lb (B2R Y)). lra.
Qed.

Lemma ceil_above (y : f64) r : above y r -> above (fceil y) r /\ is_int (fceil y).
Proof.
  intros Hy. unfold fceil.
  destruct (Bnearbyint_correct prec emax prec_lt_emax_53 mode_UP y) as (R1 & F1 & _).
  simpl round_mode in R1. rewrite round_FIX_IZR in R1.
  split; [|intros _; eexists; exact R1].
  destruct y as [s|s| |s m e H]; try exact Hy.
  - set (Y := B754_finite s m e H : f64) in *. apply above_finite; [rewrite F1; reflexivity|]. rewrite R1.
    change (r <= B2R Y) in Hy. pose proof (Zceil_ub (B2R Y)). lra.
Qed.

(** ** step 4: multiplication by the tick size *)
Lemma rnd_0 : rnd 0 = 0.
Proof. apply round_0; auto with typeclass_instances. Qed.

Lemma mul_below (f t m : f64) r :
  below f r -> is_finite t = true -> 1 <= B2R t -> is_finite m = true -> r * B2R t <= B2R m ->
  below (fmul f t) (B2R m).
Proof.
  intros Hf Ft Ht Fm Hm.
  assert (St : Bsign t = false) by (apply sign_of_pos; [exact Ft | lra]).
  pose proof (Bmult_correct prec emax prec_gt_0_53 prec_lt_emax_53 mode_NE f t) as C. simpl round_mode in C.
  assert (Key : is_finite f = true -> below (fmul f t) (B2R m)).
  { intros Ff. unfold fmul. assert (Hfr : B2R f <= r) by (destruct f; try discriminate; exact Hf).
    assert (Hle : rnd (B2R f * B2R t) <= B2R m) by (apply rnd_le_format; nra).
    destruct (Rlt_bool (Rabs (rnd (B2R f * B2R t))) (bpow radix2 emax)) eqn:Eo.
    - destruct C as (R1 & F1 & _). apply below_finite; [rewrite F1, Ff, Ft; reflexivity|]. rewrite R1. exact Hle.
    - (* overflow: only downwards *)
      unfold binary_overflow in C. simpl overflow_to_inf in C. apply B2SF_inf_inv' in C. rewrite C. simpl. rewrite St.
      assert (Hneg : B2R f < 0).
      { destruct (Rlt_or_le (B2R f) 0) as [N|P]; [exact N|]. exfalso.
        assert (P' : 0 <= rnd (B2R f * B2R t)) by (rewrite <- rnd_0; apply round_le; auto with typeclass_instances; nra).
        pose proof (finite_lt_emax m Fm) as Bm. apply Rabs_def2 in Bm.
        rewrite Rlt_bool_true in Eo; [discriminate|]. apply Rabs_def1; lra. }
      rewrite (sign_of_neg f Ff Hneg). reflexivity. }
  destruct f as [s|s| |s mf ef Hf']; try (apply Key; reflexivity); unfold fmul.
  - simpl in Hf. subst s. destruct t; try discriminate; simpl in *; try lra. rewrite St. reflexivity.
  - destruct t; simpl; exact I.
Qed.

Lemma mul_above (f t m : f64) r :
  above f r -> is_finite t = true -> 1 <= B2R t -> is_finite m = true -> B2R m <= r * B2R t ->
  above (fmul f t) (B2R m).
Proof.
  intros Hf Ft Ht Fm Hm.
  assert (St : Bsign t = false) by (apply sign_of_pos; [exact Ft | lra]).
  pose proof (Bmult_correct prec emax prec_gt_0_53 prec_lt_emax_53 mode_NE f t) as C. simpl round_mode in C.
  assert (Key : is_finite f = true -> above (fmul f t) (B2R m)).
  { intros Ff. unfold fmul. assert (Hfr : r <= B2R f) by (destruct f; try discriminate; exact Hf).
    assert (Hle : B2R m <= rnd (B2R f * B2R t)) by (apply rnd_ge_format; nra).
    destruct (Rlt_bool (Rabs (rnd (B2R f * B2R t))) (bpow radix2 emax)) eqn:Eo.
    - destruct C as (R1 & F1 & _). apply above_finite; [rewrite F1, Ff, Ft; reflexivity|]. rewrite R1. exact Hle.
    - unfold binary_overflow in C. simpl overflow_to_inf in C. apply B2SF_inf_inv' in C. rewrite C. simpl. rewrite St.
      assert (Hpos : 0 < B2R f).
      { destruct (Rlt_or_le 0 (B2R f)) as [P|N]; [exact P|]. exfalso.
        assert (N' : rnd (B2R f * B2R t) <= 0) by (rewrite <- rnd_0; apply round_le; auto with typeclass_instances; nra).
        pose proof (finite_lt_emax m Fm) as Bm. apply Rabs_def2 in Bm.
        rewrite Rlt_bool_true in Eo; [discriminate|]. apply Rabs_def1; lra. }
      rewrite (sign_of_pos f Ff Hpos). reflexivity. }
  destruct f as [s|s| |s mf ef Hf']; try (apply Key; reflexivity); unfold fmul.
  - simpl in Hf. subst s. destruct t; try discriminate; simpl in *; try lra. rewrite St. reflexivity.
  - simpl in Hf. contradiction.
Qed.

(** ** exact embeddings: [m * 2^e] with [|m| < 2^53] and [e >= -1074] *)
Lemma format_ZE (m e : Z) : (Z.abs m < 2 ^ 53)%Z -> (-1074 <= e)%Z -> generic_format radix2 fexp (F2R (Float radix2 m e)).
Proof.
  intros Hm He. change fexp with (FLT_exp (-1074) 53).
  apply generic_format_FLT. exact (FLT_spec radix2 (-1074) 53 _ (Float radix2 m e) eq_refl Hm He).
Qed.

Lemma f_of_ZE_exact (m e : Z) :
  (Z.abs m < 2 ^ 53)%Z -> (-1074 <= e <= 900)%Z ->
  B2R (f_of_ZE m e) = F2R (Float radix2 m e) /\ is_finite (f_of_ZE m e) = true.
Proof.
  intros Hm He. unfold f_of_ZE.
  pose proof (binary_normalize_correct prec emax prec_gt_0_53 prec_lt_emax_53 mode_NE m e false) as C.
  simpl round_mode in C. cbv zeta in C.
  rewrite (round_generic radix2 fexp ZnearestE) in C by (apply format_ZE; lia).
  rewrite Rlt_bool_true in C.
  - destruct C as (R1 & F1 & _). split; assumption.
  - apply F2R_lt_bpow. simpl Fnum. simpl Fexp.
    apply Z.lt_le_trans with (2 ^ 53)%Z; [exact Hm|].
    change (Zpower radix2 (emax - e)) with (2 ^ (1024 - e))%Z. apply Z.pow_le_mono_r; lia.
Qed.

Lemma f_of_N_exact (n : N) : (Z.of_N n < 2 ^ 53)%Z -> B2R (f_of_N n) = IZR (Z.of_N n) /\ is_finite (f_of_N n) = true.
Proof.
  intros H. unfold f_of_N. destruct (f_of_ZE_exact (Z.of_N n) 0) as [R1 F1]; [lia | lia |].
  split; [|exact F1]. rewrite R1. unfold F2R. simpl. ring.
Qed.

(** ** step 5: clamp and cast *)
Lemma B2R_max32 : B2R (f_of_N 4294967295) = 4294967295.
Proof. destruct (f_of_N_exact 4294967295) as [R1 _]; [reflexivity|]. rewrite R1. reflexivity. Qed.

Lemma cast_below (z : f64) r :
  below z r -> 0 <= r -> IZR (Z.of_N (f_to_u32_clamped z)) <= r.
Proof.
  intros Hz Hr.
  destruct z as [s|s| |s m e H] eqn:Ez.
  - replace (f_to_u32_clamped (B754_zero s)) with 0%N by (destruct s; vm_compute; reflexivity). simpl. lra.
  - simpl in Hz. subst s. replace (f_to_u32_clamped (B754_infinity true)) with 0%N by (vm_compute; reflexivity). simpl. lra.
  - simpl. lra.
  - rewrite <- Ez in *. assert (Fz : is_finite z = true) by (rewrite Ez; reflexivity).
    assert (Hzr : B2R z <= r) by (rewrite Ez in *; exact Hz).
    assert (Hc : f_to_u32_clamped z =
                 if flt z f_zero then 0%N else if flt (f_of_N 4294967295) z then 4294967295%N
                 else match Btrunc z with Z.neg _ => 0%N | zz => N.min (Z.to_N zz) 4294967295 end)
      by (rewrite Ez; reflexivity).
    rewrite Hc. clear Hc.
    unfold flt. rewrite (Bltb_correct prec emax z f_zero Fz eq_refl).
    destruct (Rlt_bool_spec (B2R z) (B2R f_zero)) as [Hn|Hp]; [simpl; lra|]. simpl (B2R f_zero) in Hp.
    assert (Fm : is_finite (f_of_N 4294967295) = true) by reflexivity.
    rewrite (Bltb_correct prec emax _ z Fm Fz), B2R_max32.
    destruct (Rlt_bool_spec 4294967295 (B2R z)) as [Hbig|Hsmall].
    { change (IZR (Z.of_N 4294967295)) with 4294967295. lra. }
    pose proof (Btrunc_correct prec emax prec_lt_emax_53 z) as T. rewrite round_FIX_IZR in T. apply eq_IZR in T.
    rewrite (Ztrunc_floor (B2R z) Hp) in T. pose proof (Zfloor_lb (B2R z)) as Lb. rewrite <- T in Lb.
    destruct (Btrunc z) as [|p|p] eqn:Eb; [simpl; lra| |simpl; lra].
    apply Rle_trans with (IZR (Z.pos p)); [apply IZR_le; lia | lra].
Qed.

Lemma cast_above (z : f64) (M : Z) :
  above z (IZR M) -> (0 <= M <= 4294967295)%Z -> (M <= Z.of_N (f_to_u32_clamped z))%Z.
Proof.
  intros Hz HM.
  destruct z as [s|s| |s m e H] eqn:Ez; try (simpl in Hz; contradiction).
  - replace (f_to_u32_clamped (B754_zero s)) with 0%N by (destruct s; vm_compute; reflexivity).
    simpl in Hz. apply le_IZR. simpl. lra.
  - simpl in Hz. subst s. replace (f_to_u32_clamped (B754_infinity false)) with 4294967295%N by (vm_compute; reflexivity). lia.
  - rewrite <- Ez in *. assert (Fz : is_finite z = true) by (rewrite Ez; reflexivity).
    assert (Hzr : IZR M <= B2R z) by (rewrite Ez in *; exact Hz).
    assert (HM0 : 0 <= IZR M) by (apply IZR_le; lia).
    assert (Hc : f_to_u32_clamped z =
                 if flt z f_zero then 0%N else if flt (f_of_N 4294967295) z then 4294967295%N
                 else match Btrunc z with Z.neg _ => 0%N | zz => N.min (Z.to_N zz) 4294967295 end)
      by (rewrite Ez; reflexivity).
    rewrite Hc. clear Hc.
    unfold flt. rewrite (Bltb_correct prec emax z f_zero Fz eq_refl).
    destruct (Rlt_bool_spec (B2R z) (B2R f_zero)) as [Hn|Hp]; [simpl (B2R f_zero) in Hn; lra|]. simpl (B2R f_zero) in Hp.
    assert (Fm : is_finite (f_of_N 4294967295) = true) by reflexivity.
    rewrite (Bltb_correct prec emax _ z Fm Fz), B2R_max32.
    destruct (Rlt_bool_spec 4294967295 (B2R z)) as [Hbig|Hsmall]; [lia|].
    pose proof (Btrunc_correct prec emax prec_lt_emax_53 z) as T. rewrite round_FIX_IZR in T. apply eq_IZR in T.
    rewrite (Ztrunc_floor (B2R z) Hp) in T.
    assert (Hfl : (M <= Zfloor (B2R z))%Z) by (apply Zfloor_lub; exact Hzr). rewrite <- T in Hfl.
    destruct (Btrunc z) as [|p|p] eqn:Eb; lia.
Qed.

(** ** the two quotes *)
Lemma nonneg_of_sign (x : f64) : is_finite x = true -> Bsign x = false -> 0 <= B2R x.
Proof.
  intros F S. destruct (Rle_or_lt 0 (B2R x)) as [P|N]; [exact P|].
  rewrite (sign_of_neg x F N) in S. discriminate.
Qed.

Lemma tick_float (tick : N) : (1 <= tick < 4294967296)%N ->
  is_finite (f_of_N tick) = true /\ B2R (f_of_N tick) = IZR (Z.of_N tick) /\ 1 <= IZR (Z.of_N tick).
Proof.
  intros Ht. destruct (f_of_N_exact tick) as [R1 F1]; [change (2 ^ 53)%Z with 9007199254740992%Z; lia|].
  repeat split; auto. apply (IZR_le 1). lia.
Qed.

Lemma below_int_tight (f : f64) q :
  below f (rnd q) -> is_int f -> (forall z : Z, IZR z <= rnd q -> IZR z <= q) -> below f q.
Proof.
  intros Hb Hi Hfl. destruct f as [s|s| |s m e H]; try exact Hb.
  - set (F := B754_zero s : f64) in *. destruct (Hi eq_refl) as (n & Hn).
    change (B2R F <= rnd q) in Hb. change (B2R F <= q). rewrite Hn in *. apply Hfl. exact Hb.
  - set (F := B754_finite s m e H : f64) in *. destruct (Hi eq_refl) as (n & Hn).
    change (B2R F <= rnd q) in Hb. change (B2R F <= q). rewrite Hn in *. apply Hfl. exact Hb.
Qed.

(** general form: the only thing needed of the quotient [mid / tick] is that rounding it does not
    carry it past an integer *)
Theorem buy_quote_le_mid_gen (mid d : f64) (tick p : N) :
  is_finite mid = true -> Bsign mid = false -> (1 <= tick < 4294967296)%N ->
  (forall z : Z, IZR z <= rnd (B2R mid / IZR (Z.of_N tick)) -> IZR z <= B2R mid / IZR (Z.of_N tick)) ->
  snap_to_grid (round_price false (fsub mid (fabs d)) (f_of_N tick)) tick = Ok p ->
  IZR (Z.of_N p) <= B2R mid.
Proof.
  intros Fm Sm Ht Hfl Hs.
  destruct (tick_float tick Ht) as (Ft & Rt & T1).
  pose proof (nonneg_of_sign mid Fm Sm) as M0.
  pose proof (sub_abs_below mid d Fm Sm) as B1.
  pose proof (div_below _ (f_of_N tick) _ B1 Ft) as B2. rewrite Rt in B2. specialize (B2 T1).
  destruct (floor_below _ _ B2) as [B3 I3].
  pose proof (below_int_tight _ _ B3 I3 Hfl) as B3'.
  assert (B4 : below (fmul (ffloor (fdiv (fsub mid (fabs d)) (f_of_N tick))) (f_of_N tick)) (B2R mid)).
  { apply (mul_below _ _ mid _ B3' Ft); [rewrite Rt; exact T1 | exact Fm |]. rewrite Rt. field_simplify; lra. }
  pose proof (cast_below _ _ B4 M0) as B5.
  unfold snap_to_grid in Hs. destruct (N.eqb_spec tick 0) as [E|_]; [discriminate|]. injection Hs as <-.
  unfold round_price in *. cbn [negb] in *.
  eapply Rle_trans; [|exact B5]. apply IZR_le. apply N2Z.inj_le, N.le_sub_l.
Qed.

Theorem buy_quote_le_mid (mid d : f64) (tick p : N) :
  is_finite mid = true -> Bsign mid = false -> (1 <= tick < 4294967296)%N ->
  rnd (B2R mid / IZR (Z.of_N tick)) = B2R mid / IZR (Z.of_N tick) ->
  snap_to_grid (round_price false (fsub mid (fabs d)) (f_of_N tick)) tick = Ok p ->
  IZR (Z.of_N p) <= B2R mid.
Proof.
  intros Fm Sm Ht Hrep. apply buy_quote_le_mid_gen; auto. intros z Hz. rewrite Hrep in Hz. exact Hz.
Qed.

Lemma above_int (f : f64) r : above f r -> is_int f -> above f (IZR (Zceil r)).
Proof.
  intros Ha Hi. destruct f as [s|s| |s m e H]; try exact Ha.
  - set (F := B754_zero s : f64) in *. destruct (Hi eq_refl) as (n & Hn).
    change (r <= B2R F) in Ha. change (IZR (Zceil r) <= B2R F). rewrite Hn in *. apply IZR_le, Zceil_glb. exact Ha.
  - set (F := B754_finite s m e H : f64) in *. destruct (Hi eq_refl) as (n & Hn).
    change (r <= B2R F) in Ha. change (IZR (Zceil r) <= B2R F). rewrite Hn in *. apply IZR_le, Zceil_glb. exact Ha.
Qed.

Lemma above_int_tight (f : f64) q :
  above f (rnd q) -> is_int f -> (forall z : Z, rnd q <= IZR z -> q <= IZR z) -> above f (IZR (Zceil q)).
Proof.
  intros Ha Hi Hcl. destruct f as [s|s| |s m e H]; try exact Ha.
  - set (F := B754_zero s : f64) in *. destruct (Hi eq_refl) as (n & Hn).
    change (rnd q <= B2R F) in Ha. change (IZR (Zceil q) <= B2R F). rewrite Hn in *. apply IZR_le, Zceil_glb, Hcl. exact Ha.
  - set (F := B754_finite s m e H : f64) in *. destruct (Hi eq_refl) as (n & Hn).
    change (rnd q <= B2R F) in Ha. change (IZR (Zceil q) <= B2R F). rewrite Hn in *. apply IZR_le, Zceil_glb, Hcl. exact Ha.
Qed.

Theorem sell_quote_ge_mid_gen (mid d : f64) (tick p : N) :
  is_finite mid = true -> 0 <= B2R mid -> is_nan d = false -> (1 <= tick < 4294967296)%N ->
  B2R mid <= IZR (Z.of_N (4294967295 - 4294967295 mod tick)) ->        (* the largest grid price *)
  (forall z : Z, rnd (B2R mid / IZR (Z.of_N tick)) <= IZR z -> B2R mid / IZR (Z.of_N tick) <= IZR z) ->
  snap_to_grid (round_price true (fadd mid (fabs d)) (f_of_N tick)) tick = Ok p ->
  B2R mid <= IZR (Z.of_N p).
Proof.
  intros Fm M0 Nd Ht HG Hcl Hs.
  destruct (tick_float tick Ht) as (Ft & Rt & T1).
  set (t := Z.of_N tick) in *. assert (Tpos : (0 < t)%Z) by (unfold t; lia).
  pose proof (add_abs_above mid d Fm Nd) as A1.
  pose proof (div_above _ (f_of_N tick) _ A1 Ft) as A2. rewrite Rt in A2. specialize (A2 T1).
  destruct (ceil_above _ _ A2) as [A3 I3].
  pose proof (above_int_tight _ _ A3 I3 Hcl) as A3'.
  set (n0 := Zceil (B2R mid / IZR t)) in *.
  set (G := Z.of_N (4294967295 - 4294967295 mod tick)) in *.
  assert (HGm : exists g, G = (g * t)%Z /\ (0 <= G <= 4294967295)%Z).
  { exists (4294967295 / t)%Z. unfold G, t. rewrite N2Z.inj_sub by (apply N.mod_le; lia).
    rewrite N2Z.inj_mod. change (Z.of_N 4294967295) with 4294967295%Z.
    pose proof (Z.div_mod 4294967295 (Z.of_N tick)). pose proof (Z.mod_pos_bound 4294967295 (Z.of_N tick)). lia. }
  destruct HGm as (g & Eg & Gb).
  assert (Tr : 0 < IZR t) by (apply (IZR_lt 0); exact Tpos).
  assert (Hq0 : 0 <= B2R mid / IZR t) by (apply Rmult_le_pos; [exact M0 | left; apply Rinv_0_lt_compat; exact Tr]).
  assert (Hn0 : (0 <= n0 <= g)%Z).
  { split.
    - apply le_IZR. pose proof (Zceil_ub (B2R mid / IZR t)). fold n0 in H. lra.
    - unfold n0. apply Zceil_glb. rewrite Eg, mult_IZR in HG.
      apply Rmult_le_reg_r with (IZR t); [exact Tr|]. unfold Rdiv. rewrite Rmult_assoc, Rinv_l by lra. lra. }
  set (M := (n0 * t)%Z).
  assert (HM : (0 <= M <= 4294967295)%Z) by (unfold M; nia).
  destruct (f_of_ZE_exact M 0) as [RM FM]; [change (2 ^ 53)%Z with 9007199254740992%Z; lia | lia |].
  assert (RM' : B2R (f_of_ZE M 0) = IZR M) by (rewrite RM; unfold F2R; simpl; ring).
  assert (A4 : above (fmul (fceil (fdiv (fadd mid (fabs d)) (f_of_N tick))) (f_of_N tick)) (B2R (f_of_ZE M 0))).
  { apply (mul_above _ _ (f_of_ZE M 0) _ A3' Ft); [rewrite Rt; exact T1 | exact FM |].
    rewrite RM', Rt. unfold M. rewrite mult_IZR. lra. }
  rewrite RM' in A4.
  pose proof (cast_above _ M A4 HM) as A5.
  unfold snap_to_grid in Hs. destruct (N.eqb_spec tick 0) as [E|_]; [discriminate|]. injection Hs as <-.
  unfold round_price in *. cbn [negb] in *.
  set (c := f_to_u32_clamped (fmul (fceil (fdiv (fadd mid (fabs d)) (f_of_N tick))) (f_of_N tick))) in *.
  assert (Hsnap : (M <= Z.of_N (c - c mod tick))%Z).
  { rewrite N2Z.inj_sub by (apply N.mod_le; lia). rewrite N2Z.inj_mod. fold t.
    pose proof (Z.div_mod (Z.of_N c) t). pose proof (Z.mod_pos_bound (Z.of_N c) t Tpos).
    assert (Hd : (n0 <= Z.of_N c / t)%Z) by (apply Z.div_le_lower_bound; [exact Tpos | unfold M in A5; lia]).
    unfold M. nia. }
  apply Rle_trans with (IZR M); [|apply IZR_le; exact Hsnap].
  unfold M. rewrite mult_IZR. pose proof (Zceil_ub (B2R mid / IZR t)) as U. fold n0 in U.
  apply Rmult_le_compat_r with (r := IZR t) in U; [|lra]. unfold Rdiv in U. rewrite Rmult_assoc, Rinv_l, Rmult_1_r in U by lra. exact U.
Qed.

Theorem sell_quote_ge_mid (mid d : f64) (tick p : N) :
  is_finite mid = true -> 0 <= B2R mid -> is_nan d = false -> (1 <= tick < 4294967296)%N ->
  B2R mid <= IZR (Z.of_N (4294967295 - 4294967295 mod tick)) ->        (* the largest grid price *)
  rnd (B2R mid / IZR (Z.of_N tick)) = B2R mid / IZR (Z.of_N tick) ->
  snap_to_grid (round_price true (fadd mid (fabs d)) (f_of_N tick)) tick = Ok p ->
  B2R mid <= IZR (Z.of_N p).
Proof.
  intros Fm M0 Nd Ht HG Hrep. apply sell_quote_ge_mid_gen; auto. intros z Hz. rewrite Hrep in Hz. exact Hz.
Qed.

