(** * C12 through markets and environments: in every reachable state every resting order of every
    asset is priced on that asset's grid, so the published per-level data of every asset accounts
    for all its resting volume within range *)
From Bourse Require Import Model.Types Model.Map Model.Side Model.Book Model.Obs Model.Rng Model.Env Spec.RefBook
  Spec.Monitors Proofs.Basic Proofs.Refine Proofs.Volumes Proofs.Reload Proofs.LevelsAccount Proofs.RestGrid Proofs.EnvProps Proofs.MarketInv Proofs.AssetProjection.
From Coq Require Import ZifyBool ZifyNat ZifyN.

Ltac inv H := inversion H; subst; clear H.

(** the book invariant behind level accounting, together with "no u32 counter has overflowed" *)
Definition GB (b : book) : Prop := RInv b /\ bounded b = true.
Definition MGB (m : market) : Prop := Forall GB m.

Lemma step_gb b o b' x : GB b -> op_u32 o -> step b o = Ok (b', x) -> GB b'.
Proof. intros [Hr _] Hu H. split; [eapply step_rinv; eassumption | eapply step_bounded; eassumption]. Qed.

(** an operation that cannot overflow a counter goes through [step] unchanged *)
Lemma gb_via_step b o b' : GB b -> op_u32 o -> step_raw b o = Ok (b', ONone) -> bounded b' = true -> GB b'.
Proof.
  intros Hg Hu Hs Hb. assert (H : step b o = Ok (b', ONone)) by (unfold step; rewrite Hs; cbn [rbind]; rewrite Hb; reflexivity).
  eapply step_gb; eassumption.
Qed.

Lemma set_time_gb b t : GB b -> GB (set_time b t).
Proof. intros Hg. apply (gb_via_step b (OSetTime t)); [exact Hg | exact I | reflexivity | exact (proj2 Hg)]. Qed.

Lemma set_trading_gb b f : GB b -> GB (set_trading b f).
Proof.
  intros Hg. destruct f.
  - apply (gb_via_step b OEnable); [exact Hg | exact I | reflexivity | exact (proj2 Hg)].
  - apply (gb_via_step b ODisable); [exact Hg | exact I | reflexivity | exact (proj2 Hg)].
Qed.

Lemma reset_tvol_gb b : GB b -> GB (reset_trade_vol b).
Proof.
  intros Hg. apply (gb_via_step b OResetTvol); [exact Hg | exact I | reflexivity|].
  destruct Hg as [_ Hb]. unfold bounded in *. cbn. apply andb_true_iff in Hb. destruct Hb as [Hb _]. rewrite Hb. reflexivity.
Qed.

Lemma create_order_gb b sd v tr p b' c : GB b -> (match p with Some px => px <= MAXP | None => True end) ->
  create_order b sd v tr p = (b', c) -> GB b'.
Proof.
  intros Hg Hu H. assert (Hs : step_raw b (OCreate sd v tr p) = Ok (b', OCreated c)) by (cbn [step_raw]; rewrite H; reflexivity).
  assert (Hb : bounded b' = true) by (rewrite (create_order_bounded _ _ _ _ _ _ _ H); exact (proj2 Hg)).
  assert (Hst : step b (OCreate sd v tr p) = Ok (b', OCreated c)) by (unfold step; rewrite Hs; cbn [rbind]; rewrite Hb; reflexivity).
  eapply step_gb; [exact Hg | | exact Hst]. destruct p; exact Hu.
Qed.

Lemma Forall_map_gb (f : book -> book) m : (forall b, GB b -> GB (f b)) -> MGB m -> MGB (map f m).
Proof. intros Hf H. unfold MGB in *. rewrite Forall_map. eapply Forall_impl; [|exact H]. exact Hf. Qed.

Lemma market_process_gb m e m' : MGB m -> mev_u32 e -> market_process m e = Ok m' -> MGB m'.
Proof.
  intros Hm Hu H. unfold market_process in H. eapply (upd_nth_Forall GB); [|exact Hm|exact H].
  intros b b' Hb Hx. unfold book_event in Hx. destruct (step b (OEvent (mev_event e))) as [[b1 y]|] eqn:E; [|discriminate]. inv Hx.
  eapply step_gb; [exact Hb | | exact E]. destruct e as [a id|a id|a id [p|] nv]; exact Hu || exact I.
Qed.

Lemma process_all_gb start : forall q i m m', MGB m -> Forall mev_u32 q -> process_all start i m q = Ok m' -> MGB m'.
Proof.
  induction q as [|e r IH]; intros i m m' Hm Hq H; cbn [process_all] in H; [inv H; assumption|].
  destruct (MAXT <? start + i); [discriminate|].
  destruct (market_process (market_set_time m (start + i)) e) as [m1|] eqn:E; [|discriminate]. cbn [rbind] in H.
  inversion Hq as [|? ? H1 H2]; subst. eapply IH; [|exact H2|exact H].
  eapply market_process_gb; [|exact H1|exact E]. apply Forall_map_gb; [intros; apply set_time_gb|]; assumption.
Qed.

Theorem menv_apply_gb L e g o e' g' x :
  MGB (en_market e) -> Forall mev_u32 (en_queue e) -> eop_u32 o -> menv_apply L e g o = Ok (e', g', x) ->
  MGB (en_market e') /\ Forall mev_u32 (en_queue e').
Proof.
  intros Hm Hq Hu H.
  assert (Hq' : Forall mev_u32 (en_queue e')).
  { assert (Hi : MInv (en_market e)) by (unfold MInv; eapply Forall_impl; [|exact Hm]; intros b Hb; exact (proj1 (proj1 Hb))).
    exact (proj2 (menv_apply_inv L e g o e' g' x Hi Hq Hu H)). }
  split; [|exact Hq'].
  destruct o; cbn [menv_apply] in H.
  - unfold menv_place in H. destruct (nth_error (en_market e) a) as [b|] eqn:Hb; [|discriminate].
    destruct (create_order b sd vol trader price) as [b' c] eqn:Hc. destruct c as [id|pp tt].
    + destruct (upd_nth (en_market e) a (fun _ => Ok b')) as [m'|] eqn:Hup; [|discriminate]. cbn in H. inv H.
      cbn [en_market push_event set_market].
      eapply (upd_nth_Forall GB); [|exact Hm|exact Hup]. intros y y' _ Hy. inv Hy.
      apply (create_order_gb b sd vol trader price y' (Created id)); [|destruct price; exact Hu|exact Hc].
      unfold MGB in Hm. rewrite Forall_forall in Hm. apply Hm. eapply nth_error_In; eassumption.
    + cbn in H. inv H. exact Hm.
  - inv H. exact Hm.
  - inv H. exact Hm.
  - destruct (menv_step L e g) as [[e1 g1]|] eqn:Es; [|discriminate]. cbn in H. inv H.
    unfold menv_step in Es. destruct (market_time (en_market e)) as [start|]; [|discriminate]. cbn [rbind] in Es.
    destruct (shuffle (en_queue e) g) as [[q g2]|] eqn:Esh; [|discriminate].
    destruct (process_all start 0 (map reset_trade_vol (en_market e)) q) as [m1|] eqn:Ep; [|discriminate]. cbn [rbind] in Es.
    destruct (MAXT <? start + en_step e); [discriminate|].
    destruct (all_l2 L (market_set_time m1 (start + en_step e))) as [l2|]; [|discriminate]. inv Es. cbn [en_market].
    apply Forall_map_gb; [intros; apply set_time_gb; assumption|].
    eapply process_all_gb; [| |exact Ep].
    + apply Forall_map_gb; [intros; apply reset_tvol_gb|]; assumption.
    + pose proof (shuffle_is_permutation _ _ _ _ Esh) as Hp. rewrite Forall_forall in *. intros y Hy. apply Hq.
      eapply Permutation.Permutation_in; [apply Permutation.Permutation_sym; exact Hp | exact Hy].
  - inv H. cbn [en_market set_market]. apply Forall_map_gb; [intros; apply set_trading_gb|]; assumption.
  - inv H. cbn [en_market set_market]. apply Forall_map_gb; [intros; apply set_trading_gb|]; assumption.
  - destruct (nth_error (en_market e) a) as [b|] eqn:Hb; [|discriminate].
    destruct (step b o) as [[b' y]|] eqn:Es; [|discriminate]. cbn [rbind] in H.
    destruct (upd_nth (en_market e) a (fun _ => Ok b')) as [m'|] eqn:Hup; [|discriminate]. cbn in H. inv H.
    cbn [en_market set_market].
    eapply (upd_nth_Forall GB); [|exact Hm|exact Hup]. intros z z' _ Hz. inv Hz.
    eapply step_gb; [|exact Hu|exact Es]. unfold MGB in Hm. rewrite Forall_forall in Hm. apply Hm. eapply nth_error_In; eassumption.
  - inv H. cbn [en_market set_market]. apply Forall_map_gb; [intros; apply set_time_gb|]; assumption.
  - inv H. cbn [en_market set_market]. apply Forall_map_gb; [intros; apply reset_tvol_gb|]; assumption.
Qed.

Lemma market_new_gb t0 : forall ticks tr m, market_new t0 ticks tr = Ok m -> MGB m.
Proof.
  induction ticks as [|tk r IH]; intros tr m H; cbn [market_new] in H; [inv H; constructor|].
  destruct (book_new t0 tk tr) as [b|] eqn:Eb; [|discriminate]. cbn [rbind] in H.
  destruct (market_new t0 r tr) as [m1|] eqn:Em; [|discriminate]. cbn [rbind] in H. injection H as <-.
  constructor; [|eapply IH; exact Em]. split; [eapply RInv_new; exact Eb|].
  unfold book_new in Eb. destruct (tk =? 0); [discriminate|]. injection Eb as <-. reflexivity.
Qed.

(** what it gives the reader of an asset's market data *)
Theorem mgb_levels_account L m a b ob :
  MGB m -> nth_error m a = Some b -> observe L b = Ok ob ->
  sumfst (ob_bid_levels ob) =
    sum_vol (filter (fun o => in_levels Bid (b_tick b) L (ob_bid ob) (o_price o)) (resting Bid (ob_orders ob))) /\
  sumfst (ob_ask_levels ob) =
    sum_vol (filter (fun o => in_levels Ask (b_tick b) L (ob_ask ob) (o_price o)) (resting Ask (ob_orders ob))).
Proof.
  intros Hm Hb Ho. unfold MGB in Hm. rewrite Forall_forall in Hm. destruct (Hm b (nth_error_In _ _ Hb)) as [Hr _].
  exact (levels_account_state L b ob Hr Ho).
Qed.
