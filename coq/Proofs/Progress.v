(** * Progress: in a state satisfying the invariant, an operation whose ids exist
    never panics (no [unwrap] on a missing level, no unsigned underflow, the
    matching loop never runs out of fuel); the only remaining aborts are the
    arithmetic overflows checked separately ([bounded], the u64 queue stamp) *)
From Bourse Require Import Model.Types Model.Map Model.Side Model.Book Model.Obs Spec.RefBook
  Proofs.Basic Proofs.MapLemmas Proofs.Refine Proofs.Volumes Proofs.Views Proofs.Reload.
From Coq Require Import ZifyBool ZifyNat ZifyN Sorting.Sorted.

Ltac inv H := inversion H; subst; clear H.
Local Arguments N.sub : simpl never.
Local Arguments N.add : simpl never.
Local Arguments N.eqb : simpl never.
Local Arguments N.leb : simpl never.
Local Arguments N.ltb : simpl never.
Local Arguments N.min : simpl never.

Lemma sumf_member f y l : In y l -> f y <= sumf f l.
Proof.
  induction l as [|x t IH]; intros H; [contradiction|]. rewrite sumf_cons.
  destruct H as [->|H]; [lia | specialize (IH H); lia].
Qed.

(** ** Side operations succeed on members *)
Lemma sd_remove_ok orders x kp kt id vol :
  vol_ok orders x -> In ((kp, kt), id) (sd_orders x) -> evol orders id = vol ->
  exists x', sd_remove x kp kt vol = Ok x'.
Proof.
  intros (_ & Hg & Ht) Hin Hv. unfold sd_remove. rewrite Hg.
  pose proof (sumf_member (fcnt kp) _ _ Hin) as Hc. rewrite fcnt_at, N.eqb_refl in Hc.
  pose proof (sumf_member (fvol orders kp) _ _ Hin) as Hf. rewrite fvol_at, N.eqb_refl, Hv in Hf.
  pose proof (sumf_member (ftot orders) _ _ Hin) as Hs. rewrite ftot_at, Hv, <- Ht in Hs.
  destruct (sumf (fcnt kp) (sd_orders x) =? 0) eqn:E0; [lia|].
  unfold csub. replace (vol <=? sumf (fvol orders kp) (sd_orders x)) with true by lia. cbn [rbind].
  replace (1 <=? sumf (fcnt kp) (sd_orders x)) with true by lia. cbn [rbind].
  replace (vol <=? sd_vol x) with true by lia. cbn [rbind]. eexists; reflexivity.
Qed.

Lemma sd_remove_vol_ok orders x kp kt id vol :
  vol_ok orders x -> In ((kp, kt), id) (sd_orders x) -> vol <= evol orders id ->
  exists x', sd_remove_vol x kp vol = Ok x'.
Proof.
  intros (_ & Hg & Ht) Hin Hv. unfold sd_remove_vol. rewrite Hg.
  pose proof (sumf_member (fcnt kp) _ _ Hin) as Hc. rewrite fcnt_at, N.eqb_refl in Hc.
  pose proof (sumf_member (fvol orders kp) _ _ Hin) as Hf. rewrite fvol_at, N.eqb_refl in Hf.
  pose proof (sumf_member (ftot orders) _ _ Hin) as Hs. rewrite ftot_at, <- Ht in Hs.
  destruct (sumf (fcnt kp) (sd_orders x) =? 0) eqn:E0; [lia|].
  unfold csub. replace (vol <=? sumf (fvol orders kp) (sd_orders x)) with true by lia. cbn [rbind].
  replace (vol <=? sd_vol x) with true by lia. cbn [rbind]. eexists; reflexivity.
Qed.

(** ** One iteration of the matching loop *)
Lemma match_iter_progress sd s a :
  loop_inv sd s ->
  match_iter sd s a = IDone \/
  exists s1 a1, match_iter sd s a = ICont s1 a1 /\
    ((length (sd_orders (get_side s1 (opp sd))) < length (sd_orders (get_side s (opp sd))))%nat \/ o_vol a1 = 0).
Proof.
  intros (Hopp & _ & _ & Hvopp & _). unfold match_iter.
  destruct (crosses sd a s); [|left; reflexivity].
  unfold sd_best_order_idx.
  destruct (sd_orders (get_side s (opp sd))) as [|[[kp kt] id] t] eqn:Hq; [left; reflexivity|].
  destruct Hopp as [Hs Hf]. rewrite Hq in Hf. inversion Hf as [|? ? (pe & Hn & _ & Hkp & Hkt & _ & Hact) _]; subst.
  cbn [fst snd] in Hn, Hkp, Hkt. rewrite Hn.
  destruct (match_orders (b_t s) a (e_order pe)) as [[[a2 p2] tr] v] eqn:Em.
  assert (Hin : In ((e_kp pe, e_kt pe), id) (sd_orders (get_side s (opp sd)))) by (rewrite Hq, Hkp, Hkt; left; reflexivity).
  assert (Hev : evol (b_orders s) id = o_vol (e_order pe)) by (unfold evol; rewrite Hn; reflexivity).
  unfold match_orders in Em. injection Em as <- <- _ <-.
  set (v := N.min (o_vol a) (o_vol (e_order pe))) in *.
  cbn [o_vol set_vol].
  destruct (o_vol (e_order pe) - v =? 0) eqn:Ep.
  - (* the passive order is exhausted: removed *)
    cbn [o_status set_status set_end status_eqb].
    destruct (sd_remove_ok (b_orders s) (get_side s (opp sd)) (e_kp pe) (e_kt pe) id v Hvopp Hin) as (x' & Hx'); [rewrite Hev; lia|].
    rewrite Hx'. right. eexists; eexists. split; [reflexivity|]. left.
    rewrite get_set_side_same. rewrite (sd_remove_orders _ _ _ _ _ Hx'), Hq, Hkp, Hkt, kremove_head. cbn [length]. lia.
  - (* partial fill of the passive order: the aggressor is exhausted *)
    assert (Hst : status_eqb (o_status (set_vol (e_order pe) (o_vol (e_order pe) - v))) SFilled = false).
    { cbn [o_status set_vol]. rewrite Hact. reflexivity. }
    rewrite Hst.
    destruct (sd_remove_vol_ok (b_orders s) (get_side s (opp sd)) (e_kp pe) (e_kt pe) id v Hvopp Hin) as (x' & Hx'); [rewrite Hev; lia|].
    rewrite Hx'. right. eexists; eexists. split; [reflexivity|]. right.
    destruct (o_vol a - v =? 0) eqn:Ea; cbn; lia.
Qed.

(** ** The loop terminates within its fuel *)
Lemma crosses_zero sd a s : o_vol a = 0 -> crosses sd a s = false.
Proof. intros H. unfold crosses. rewrite H. reflexivity. Qed.

Lemma match_loop_total sd : forall fuel s a n,
  loop_inv sd s ->
  ((length (sd_orders (get_side s (opp sd))) <= n)%nat /\ (n + 2 <= fuel)%nat \/ o_vol a = 0 /\ (1 <= fuel)%nat) ->
  exists s' a', match_loop fuel sd s a = Some (Ok (s', a')).
Proof.
  induction fuel as [|f IH]; intros s a n Hinv Hm; [destruct Hm as [[_ H]|[_ H]]; lia|].
  cbn [match_loop]. destruct Hm as [[Hlen Hf]|[Hz _]].
  - destruct (match_iter_progress sd s a Hinv) as [E|(s1 & a1 & E & Hp)]; rewrite E; [eexists; eexists; reflexivity|].
    pose proof (match_iter_loop_inv sd s a s1 a1 Hinv E) as Hinv1.
    destruct Hp as [Hlt|Hz].
    + apply (IH s1 a1 (n - 1)%nat Hinv1). left. lia.
    + apply (IH s1 a1 n Hinv1). right. lia.
  - unfold match_iter. rewrite (crosses_zero _ _ _ Hz). eexists; eexists; reflexivity.
Qed.

Theorem do_match_ok sd s a : loop_inv sd s -> exists s' a', do_match sd s a = Ok (s', a').
Proof.
  intros Hinv. unfold do_match, match_fuel.
  destruct (match_loop_total sd (S (S (length (sd_orders (get_side s (opp sd)))))) s a (length (sd_orders (get_side s (opp sd)))) Hinv) as (s' & a' & E);
    [left; lia|]. rewrite E. eexists; eexists; reflexivity.
Qed.

(** ** Queue stamps *)
Definition stamps_lt (B : N) (x : sidest) : Prop := forall y, In y (sd_orders x) -> snd (fst y) < B.

Lemma klast_at_in p l t : klast_at p l = Some t -> exists v, In ((p, t), v) l.
Proof.
  induction l as [|[[p' t'] v'] r IH]; cbn [klast_at]; [discriminate|].
  destruct (klast_at p r) as [x|] eqn:E.
  - intros H. injection H as ->. destruct (IH eq_refl) as (v & Hv). exists v. right; assumption.
  - destruct (p' =? p) eqn:Ep; [|discriminate]. intros H. injection H as ->. exists v'. left.
    f_equal. f_equal. lia.
Qed.

Lemma sd_queue_ok x kp kt id vol : stamps_lt MAXT x -> kt <= MAXT -> exists x' t, sd_queue x kp kt id vol = Ok (x', t).
Proof.
  intros Hst Hkt. unfold sd_queue, queue_time.
  destruct (klast_at kp (sd_orders x)) as [t|] eqn:E.
  - destruct (klast_at_in _ _ _ E) as (v & Hv). pose proof (Hst _ Hv) as Hlt. cbn [fst snd] in Hlt.
    destruct (kt <=? t); [replace (MAXT <? t + 1) with false by lia | replace (MAXT <? kt) with false by lia]; eexists; eexists; reflexivity.
  - replace (MAXT <? kt) with false by lia. eexists; eexists; reflexivity.
Qed.

Definition clock_ok (s : book) : Prop :=
  b_t s <= MAXT /\ stamps_lt MAXT (b_bid s) /\ stamps_lt MAXT (b_ask s).

Lemma stamps_get s sd : clock_ok s -> stamps_lt MAXT (get_side s sd).
Proof. intros (_ & Hb & Ha). destruct sd; assumption. Qed.

(** the loop leaves the aggressor's own side and the clock alone *)
Lemma do_match_own_side sd s a s' a' :
  do_match sd s a = Ok (s', a') -> get_side s' sd = get_side s sd /\ b_t s' = b_t s.
Proof.
  intros H. eapply (do_match_inv (fun s1 _ => get_side s1 sd = get_side s sd /\ b_t s1 = b_t s)); [| |exact H]; [|auto].
  intros s1 a1 s2 a2 [I1 I2] E. apply match_iter_cont in E. destruct E as (id & pe & ps' & _ & _ & _ & E).
  destruct (match_orders (b_t s1) a1 (e_order pe)) as [[[x1 x2] x3] x4]. destruct E as (_ & _ & ->).
  split; [rewrite <- I1; destruct sd; reflexivity | rewrite b_t_set_side; exact I2].
Qed.

(** ** An arrival *)
Lemma arrive_ok sd s0 o kp (e_blk : entry) :
  loop_inv sd s0 -> stamps_lt MAXT (get_side s0 sd) -> b_t s0 <= MAXT ->
  exists s2 e2,
    (do (s1, o1) <- (if b_trading s0 then do_match sd s0 o else Ok (s0, o));
     if status_eqb (o_status o1) SFilled then Ok (s1, set_eorder e_blk o1)
     else do (sdst, kt) <- sd_queue (get_side s1 sd) kp (b_t s1) (o_id o1) (o_vol o1);
          Ok (set_side s1 sd sdst, mkEntry o1 sd kp kt)) = Ok (s2, e2).
Proof.
  intros Hinv Hst Ht.
  assert (Hm : exists s1 o1, (if b_trading s0 then do_match sd s0 o else Ok (s0, o)) = Ok (s1, o1) /\
                             get_side s1 sd = get_side s0 sd /\ b_t s1 = b_t s0).
  { destruct (b_trading s0).
    - destruct (do_match_ok sd s0 o Hinv) as (s1 & o1 & E). exists s1, o1. split; [assumption | eapply do_match_own_side; eassumption].
    - exists s0, o. auto. }
  destruct Hm as (s1 & o1 & E & Es & Et). rewrite E. cbn [rbind].
  destruct (status_eqb (o_status o1) SFilled); [eexists; eexists; reflexivity|].
  destruct (sd_queue_ok (get_side s1 sd) kp (b_t s1) (o_id o1) (o_vol o1)) as (x' & t & Eq); [rewrite Es; assumption | rewrite Et; assumption|].
  rewrite Eq. cbn [rbind]. eexists; eexists; reflexivity.
Qed.

(** ** Operations *)
Theorem place_order_ok s id :
  Inv s -> clock_ok s -> (id < length (b_orders s))%nat -> exists s', place_order s id = Ok s'.
Proof.
  intros [Hq Hv] Hck Hid. unfold place_order.
  destruct (nth_error (b_orders s) id) as [e|] eqn:Hn; [|apply nth_error_None in Hn; lia].
  destruct (negb (status_eqb (o_status (e_order e)) SNew)); [eexists; reflexivity|].
  set (o := set_arr (set_status (e_order e) SActive) (b_t s)). set (sd := o_side o).
  pose proof (loop_inv_of sd None s Hq Hv) as Hli.
  destruct (match sd with Bid => o_price o =? MAXP | Ask => o_price o =? 0 end).
  - unfold place_market. destruct (b_trading s); [|eexists; reflexivity].
    destruct (do_match_ok sd s (e_order (set_eorder e o)) Hli) as (s1 & o1 & E). rewrite E. cbn [rbind].
    destruct (status_eqb (o_status o1) SFilled); eexists; reflexivity.
  - unfold place_limit.
    destruct (arrive_ok sd s (e_order (set_eorder e o)) (e_kp (set_eorder e o)) (set_eorder e o) Hli (stamps_get s sd Hck) (proj1 Hck)) as (s2 & e2 & E).
    rewrite E. cbn [rbind]. eexists; reflexivity.
Qed.

Theorem cancel_order_ok s id :
  Inv s -> (id < length (b_orders s))%nat -> exists s', cancel_order s id = Ok s'.
Proof.
  intros [Hq Hv] Hid. unfold cancel_order.
  destruct (nth_error (b_orders s) id) as [e|] eqn:Hn; [|apply nth_error_None in Hn; lia].
  destruct (status_eqb (o_status (e_order e)) SActive) eqn:Est; [|eexists; reflexivity].
  apply status_eqb_eq in Est. pose proof Hq as (_ & _ & Hwf & Hc). destruct (Hwf _ _ Hn) as (_ & Wks & _).
  assert (Hin : In ((e_kp e, e_kt e), id) (sd_orders (get_side s (e_kside e)))) by (rewrite Wks; apply Hc; auto; discriminate).
  assert (Hvo : vol_ok (b_orders s) (get_side s (e_kside e))) by (destruct Hv; destruct (e_kside e); assumption).
  destruct (sd_remove_ok (b_orders s) _ _ _ id (o_vol (set_end (set_status (e_order e) SCancelled) (b_t s))) Hvo Hin) as (x' & E);
    [unfold evol; rewrite Hn; reflexivity|].
  rewrite E. cbn [rbind]. eexists; reflexivity.
Qed.

Theorem modify_order_ok s id np nv :
  Inv s -> clock_ok s -> (id < length (b_orders s))%nat -> exists s', modify_order s id np nv = Ok s'.
Proof.
  intros [Hq Hv] Hck Hid. unfold modify_order.
  destruct (nth_error (b_orders s) id) as [e|] eqn:Hn; [|apply nth_error_None in Hn; lia].
  destruct (match np with Some p => negb (p mod b_tick s =? 0) | None => false end); [eexists; reflexivity|].
  destruct (status_eqb (o_status (e_order e)) SActive) eqn:Est; [|cbn [rbind]; eexists; reflexivity].
  apply status_eqb_eq in Est. pose proof Hq as (Hb & Ha & Hwf & Hc). destruct (Hwf _ _ Hn) as (_ & Wks & _).
  assert (Hin : In ((e_kp e, e_kt e), id) (sd_orders (get_side s (e_kside e)))) by (rewrite Wks; apply Hc; auto; discriminate).
  assert (Hvo : vol_ok (b_orders s) (get_side s (e_kside e))) by (destruct Hv; destruct (e_kside e); assumption).
  assert (Hev : evol (b_orders s) id = o_vol (e_order e)) by (unfold evol; rewrite Hn; reflexivity).
  assert (Hrep : forall p v, exists s1 e1, replace_order s e p v = Ok (s1, e1)).
  { intros p v. unfold replace_order.
    destruct (sd_remove_ok (b_orders s) _ _ _ id (o_vol (e_order e)) Hvo Hin Hev) as (x0 & E). rewrite E. cbn [rbind].
    pose proof E as E0. apply sd_remove_orders in E0. rewrite Wks in *.
    destruct (remove_own_entry s id e x0 Hq Hn Est E0) as (_ & Hq0 & _).
    pose proof (remove_own_entry_invv s id e x0 Hq Hv Hn Est E) as Hv0.
    set (sd := o_side (e_order e)) in *. set (s0 := set_side s sd x0) in *.
    assert (Hst0 : stamps_lt MAXT (get_side s0 sd)).
    { unfold s0. rewrite get_set_side_same. intros y Hy. rewrite E0 in Hy. apply In_kremove in Hy. exact (stamps_get s sd Hck y Hy). }
    assert (Ht0 : b_t s0 <= MAXT) by (unfold s0; rewrite b_t_set_side; exact (proj1 Hck)).
    exact (arrive_ok sd s0 _ (kp_of sd p) e (loop_inv_of sd (Some id) s0 Hq0 Hv0) Hst0 Ht0). }
  assert (Hfin : forall p v, exists s', (do (s1, e1) <- replace_order s e p v; Ok (set_orders s1 (set_nth (b_orders s1) id e1))) = Ok s').
  { intros p v. destruct (Hrep p v) as (s1 & e1 & E). rewrite E. cbn [rbind]. eexists; reflexivity. }
  destruct np as [p|], nv as [v|]; try apply Hfin; [|cbn [rbind]; eexists; reflexivity].
  destruct (v <? o_vol (e_order e)) eqn:Elt; [|apply Hfin].
  unfold reduce_order_vol, csub. replace (o_vol (e_order e) - v <=? o_vol (e_order e)) with true by lia. cbn [rbind].
  destruct (sd_remove_vol_ok (b_orders s) _ _ _ id (o_vol (e_order e) - v) Hvo Hin) as (x' & E); [rewrite Hev; lia|].
  rewrite E. cbn [rbind]. eexists; reflexivity.
Qed.

(** ids mentioned by a request exist *)
Definition op_ids (s : book) (o : op) : Prop :=
  match o with
  | OPlace id | OCancel id | OModify id _ _ | OEvent (EvNew id) | OEvent (EvCancel id) | OEvent (EvModify id _ _) =>
      (id < length (b_orders s))%nat
  | _ => True
  end.

Lemma clock_ok_create s sd v tr p s1 c : clock_ok s -> create_order s sd v tr p = (s1, c) -> clock_ok s1.
Proof.
  intros Hck H. unfold create_order in H.
  destruct p as [p|]; [destruct (p mod b_tick s =? 0)|]; injection H as <- _; exact Hck.
Qed.

Theorem step_raw_progress s o :
  Inv s -> clock_ok s -> op_u32 o -> op_ids s o -> exists s' x, step_raw s o = Ok (s', x).
Proof.
  intros Hinv Hck Hu Hid. destruct o; cbn [step_raw op_ids] in *;
    try (eexists; eexists; reflexivity).
  - destruct (create_order s sd vol trader price) as [s1 c]. eexists; eexists; reflexivity.
  - unfold create_and_place_order. destruct (create_order s sd vol trader price) as [s1 c] eqn:E.
    destruct c as [id|p t]; [|cbn [rbind]; eexists; eexists; reflexivity].
    assert (H1 : step_raw s (OCreate sd vol trader price) = Ok (s1, OCreated (Created id))) by (cbn [step_raw]; rewrite E; reflexivity).
    destruct (step_raw_inv_all s (OCreate sd vol trader price) s1 _ Hinv Hu H1) as [_ Hinv1].
    assert (Hlt : (id < length (b_orders s1))%nat).
    { unfold create_order in E. destruct price as [p|]; [destruct (p mod b_tick s =? 0)|]; inv E; cbn [b_orders set_orders]; rewrite app_length; cbn; lia. }
    destruct (place_order_ok s1 id Hinv1 (clock_ok_create _ _ _ _ _ _ _ Hck E) Hlt) as (s2 & E2). rewrite E2. cbn [rbind]. eexists; eexists; reflexivity.
  - destruct (place_order_ok s id Hinv Hck Hid) as (s' & E). rewrite E. cbn [rbind]. eexists; eexists; reflexivity.
  - destruct (cancel_order_ok s id Hinv Hid) as (s' & E). rewrite E. cbn [rbind]. eexists; eexists; reflexivity.
  - destruct (modify_order_ok s id new_price new_vol Hinv Hck Hid) as (s' & E). rewrite E. cbn [rbind]. eexists; eexists; reflexivity.
  - destruct ev; cbn [process_event].
    + destruct (place_order_ok s id Hinv Hck Hid) as (s' & E). rewrite E. cbn [rbind]. eexists; eexists; reflexivity.
    + destruct (cancel_order_ok s id Hinv Hid) as (s' & E). rewrite E. cbn [rbind]. eexists; eexists; reflexivity.
    + destruct (modify_order_ok s id new_price new_vol Hinv Hck Hid) as (s' & E). rewrite E. cbn [rbind]. eexists; eexists; reflexivity.
Qed.

(** ** Histories: the only aborts are ids that do not exist and arithmetic overflow
    (u32 volumes: [bounded]; u64 queue stamps and clock: [clock_ok]) *)
Fixpoint valid_run (s : book) (ops : list op) : Prop :=
  match ops with
  | [] => True
  | o :: r => op_ids s o /\ op_u32 o /\ clock_ok s /\
              forall s1 x, step_raw s o = Ok (s1, x) -> bounded s1 = true /\ valid_run s1 r
  end.

Theorem run_progress ops : forall s, Inv s -> valid_run s ops -> exists s' xs, run_outs s ops = Ok (s', xs).
Proof.
  induction ops as [|o r IH]; intros s Hinv Hv; cbn [run_outs]; [eexists; eexists; reflexivity|].
  destruct Hv as (Hid & Hu & Hck & Hnext).
  destruct (step_raw_progress s o Hinv Hck Hu Hid) as (s1 & x & E). unfold step. rewrite E. cbn [rbind].
  destruct (Hnext s1 x E) as [Hb Hv1]. rewrite Hb.
  destruct (step_raw_inv_all s o s1 x Hinv Hu E) as [_ Hinv1].
  destruct (IH s1 Hinv1 Hv1) as (s' & xs & E2). cbn [rbind]. rewrite E2. cbn [rbind]. eexists; eexists; reflexivity.
Qed.
