(** * Environment-level theorems: C08, C10, C11, C14 and the shuffle's
    structural facts used by C15 *)
From Bourse Require Import Model.Types Model.Map Model.Side Model.Book Model.Obs Model.Rng Model.Env Model.EnvObs Proofs.Basic.
From Coq Require Import ZifyBool ZifyNat ZifyN Permutation.

Ltac inv H := inversion H; subst; clear H.

(** ** The shuffle is a permutation that does not look at the items *)
Lemma set_nth_exchange {A} (t : list A) j a b :
  nth_error t j = Some b -> Permutation (a :: t) (b :: set_nth t j a).
Proof.
  revert j; induction t as [|h t IH]; intros [|j] H; cbn in H; try discriminate.
  - inv H. cbn. apply perm_swap.
  - cbn. transitivity (h :: a :: t); [apply perm_swap|].
    transitivity (h :: b :: set_nth t j a); [apply perm_skip, IH; exact H | apply perm_swap].
Qed.

Lemma set_nth_swap_perm {A} (l : list A) i j a b :
  nth_error l i = Some a -> nth_error l j = Some b ->
  Permutation l (set_nth (set_nth l i b) j a).
Proof.
  revert i j; induction l as [|h t IH]; intros [|i] [|j] Hi Hj; cbn in Hi, Hj; try discriminate; cbn.
  - inv Hi; inv Hj. reflexivity.
  - inv Hi. apply set_nth_exchange; exact Hj.
  - inv Hj. apply set_nth_exchange; exact Hi.
  - apply perm_skip. apply IH; assumption.
Qed.

Lemma swap_nth_perm {A} (l : list A) i j : Permutation l (swap_nth l i j).
Proof.
  unfold swap_nth.
  destruct (nth_error l i) as [a|] eqn:Hi; [|reflexivity].
  destruct (nth_error l j) as [b|] eqn:Hj; [|reflexivity].
  apply set_nth_swap_perm; assumption.
Qed.

Lemma shuffle_from_perm {A} i (l l' : list A) g g' :
  shuffle_from i l g = Some (l', g') -> Permutation l l'.
Proof.
  revert l g; induction i as [|i IH]; intros l g H; cbn [shuffle_from] in H.
  - inv H; reflexivity.
  - destruct (gen_index _ g) as [[j g1]|]; [|discriminate].
    apply IH in H. etransitivity; [apply swap_nth_perm | exact H].
Qed.

Theorem shuffle_is_permutation {A} (l l' : list A) g g' :
  shuffle l g = Some (l', g') -> Permutation l l'.
Proof. unfold shuffle; apply shuffle_from_perm. Qed.

Lemma swap_nth_map {A B} (f : A -> B) (l : list A) i j :
  swap_nth (map f l) i j = map f (swap_nth l i j).
Proof.
  unfold swap_nth. rewrite !nth_error_map.
  destruct (nth_error l i) as [a|], (nth_error l j) as [b|]; cbn;
    rewrite ?map_set_nth; reflexivity.
Qed.

(** The permutation applied depends on the length and the generator state
    only, never on what the items are: shuffling commutes with any relabelling. *)
Theorem shuffle_parametric {A B} (f : A -> B) (l : list A) g :
  shuffle (map f l) g = option_map (fun p => (map f (fst p), snd p)) (shuffle l g).
Proof.
  unfold shuffle. rewrite map_length. generalize (length l - 1)%nat as i.
  intros i; revert l g; induction i as [|i IH]; intros l g; cbn [shuffle_from].
  - reflexivity.
  - destruct (gen_index _ g) as [[j g1]|]; [|reflexivity].
    rewrite swap_nth_map. apply IH.
Qed.

(** ** C14: operations on one asset leave the others untouched *)
Lemma upd_nth_local {A} (m m' : list A) a f :
  upd_nth m a f = Ok m' ->
  length m' = length m /\
  (forall j, j <> a -> nth_error m' j = nth_error m j) /\
  (exists b b', nth_error m a = Some b /\ f b = Ok b' /\ nth_error m' a = Some b').
Proof.
  revert a m'; induction m as [|h t IH]; intros [|a] m' H; cbn in H; try discriminate.
  - destruct (f h) as [h'|] eqn:E; [|discriminate]. inv H. cbn. repeat split; auto.
    + intros [|j] Hj; [contradiction | reflexivity].
    + exists h, h'; auto.
  - destruct (upd_nth t a f) as [t'|] eqn:E; [|discriminate]. inv H.
    destruct (IH _ _ E) as (Hl & Ho & b & b' & Hb & Hf & Hb').
    cbn. repeat split; [lia | | exists b, b'; auto].
    intros [|j] Hj; [reflexivity | cbn; apply Ho; lia].
Qed.

Theorem market_event_local m e m' :
  market_process m e = Ok m' ->
  length m' = length m /\
  (forall j, j <> mev_asset e -> nth_error m' j = nth_error m j) /\
  exists b b', nth_error m (mev_asset e) = Some b /\ book_event b (mev_event e) = Ok b' /\
               nth_error m' (mev_asset e) = Some b'.
Proof. apply upd_nth_local. Qed.

Theorem market_direct_local L e g a o e' g' x :
  menv_apply L e g (MDirect a o) = Ok (e', g', x) ->
  g' = g /\ length (en_market e') = length (en_market e) /\
  (forall j, j <> a -> nth_error (en_market e') j = nth_error (en_market e) j) /\
  exists b b', nth_error (en_market e) a = Some b /\ step b o = Ok (b', x) /\
               nth_error (en_market e') a = Some b'.
Proof.
  cbn. destruct (nth_error (en_market e) a) as [b|] eqn:Hb; [|discriminate].
  destruct (step b o) as [[b' x']|] eqn:Hs; [|discriminate]. cbn.
  destruct (upd_nth (en_market e) a (fun _ => Ok b')) as [m'|] eqn:Hu; [|discriminate]. cbn.
  intros H; inv H. cbn. apply upd_nth_local in Hu.
  destruct Hu as (Hl & Ho & b0 & b1 & Hb0 & Hf & Hb1). inv Hf.
  repeat split; auto. exists b, b1; auto.
Qed.

Theorem market_clock_shared m t :
  market_set_time m t = map (fun b => set_time b t) m /\
  Forall (fun b => b_t b = t) (market_set_time m t).
Proof.
  split; [reflexivity|]. unfold market_set_time. induction m; cbn; constructor; auto.
Qed.

(** ** C10: submissions change nothing but the order list and the queue *)
Theorem getters_ignore_orders L s x :
  observe L (set_orders s x) =
  (do o <- observe L s;
   Ok (mkObs (ob_t o) (ob_tvol o) (ob_bid o) (ob_ask o) (ob_bid_vol o) (ob_ask_vol o) (ob_bid_bv o)
         (ob_ask_bv o) (ob_bid_bvo o) (ob_ask_bvo o) (ob_bid_levels o) (ob_ask_levels o) (ob_l1 o)
         (ob_l2 o) (ob_mid o) (map e_order x) (ob_trades o))).
Proof.
  unfold observe, level_2_data, bid_levels, ask_levels. cbn.
  destruct (levels_from Bid _ _ _ _ _); cbn; [|reflexivity].
  destruct (levels_from Ask _ _ _ _ _); cbn; reflexivity.
Qed.

Theorem level2_ignores_orders L s x : level_2_data L (set_orders s x) = level_2_data L s.
Proof. reflexivity. Qed.

Theorem level2_ignores_flag L s b : level_2_data L (set_trading s b) = level_2_data L s.
Proof. reflexivity. Qed.

Lemma create_order_shape s sd v tr p s' id :
  create_order s sd v tr p = (s', Created id) ->
  exists e, s' = set_orders s (b_orders s ++ [e]) /\ o_status (e_order e) = SNew /\
            o_id (e_order e) = length (b_orders s) /\ id = length (b_orders s).
Proof.
  unfold create_order. intros H.
  destruct p as [p|]; [destruct (_ =? 0)|]; inv H; eexists; repeat split; reflexivity.
Qed.

Theorem submission_invisible e a sd v tr p e' c :
  menv_place e a sd v tr p = Ok (e', c) ->
  en_l2 e' = en_l2 e /\ en_tvols e' = en_tvols e /\ en_hist e' = en_hist e /\ en_step e' = en_step e /\
  match c with
  | Created id =>
      en_queue e' = en_queue e ++ [MNew a id] /\
      (forall j, j <> a -> nth_error (en_market e') j = nth_error (en_market e) j) /\
      exists b ent, nth_error (en_market e) a = Some b /\
        nth_error (en_market e') a = Some (set_orders b (b_orders b ++ [ent])) /\
        o_status (e_order ent) = SNew /\ id = length (b_orders b)
  | PriceError _ _ => e' = e
  end.
Proof.
  unfold menv_place. destruct (nth_error (en_market e) a) as [b|] eqn:Hb; [|discriminate].
  destruct (create_order b sd v tr p) as [b' c'] eqn:Hc.
  destruct c' as [id|pp tt].
  - destruct (upd_nth (en_market e) a (fun _ => Ok b')) as [m'|] eqn:Hu; [|discriminate]. cbn.
    intros H; inv H. cbn. repeat split; auto.
    + apply upd_nth_local in Hu. tauto.
    + apply upd_nth_local in Hu. destruct Hu as (_ & _ & b0 & b1 & Hb0 & Hf & Hb1). inv Hf.
      apply create_order_shape in Hc. destruct Hc as (ent & -> & Hst & _ & ->).
      exists b, ent. rewrite Hb in Hb0. inv Hb0. auto.
  - intros H; inv H. repeat split; auto.
Qed.

Theorem cancel_modify_only_queue e ev :
  let e' := push_event e ev in
  en_market e' = en_market e /\ en_l2 e' = en_l2 e /\ en_tvols e' = en_tvols e /\
  en_hist e' = en_hist e /\ en_queue e' = en_queue e ++ [ev].
Proof. cbn; auto. Qed.

(** ** C08 / C11: what a step does *)
Theorem step_spec L e g e' g' :
  menv_step L e g = Ok (e', g') ->
  exists start q m1 l2,
    market_time (en_market e) = Ok start /\
    shuffle (en_queue e) g = Some (q, g') /\ Permutation (en_queue e) q /\
    process_all start 0 (map reset_trade_vol (en_market e)) q = Ok m1 /\
    en_market e' = market_set_time m1 (start + en_step e) /\
    en_queue e' = [] /\ en_step e' = en_step e /\
    all_l2 L (en_market e') = Ok l2 /\ en_l2 e' = l2 /\
    en_hist e' = map (fun p => fst p ++ [snd p]) (combine (en_hist e) l2) /\
    en_tvols e' = map (fun p => fst p ++ [b_tvol (snd p)]) (combine (en_tvols e) (en_market e')).
Proof.
  unfold menv_step. destruct (market_time (en_market e)) as [start|] eqn:Ht; [|discriminate]. cbn.
  destruct (shuffle (en_queue e) g) as [[q g1]|] eqn:Hs; [|discriminate].
  destruct (process_all start 0 _ q) as [m1|] eqn:Hp; [|discriminate]. cbn.
  destruct (MAXT <? start + en_step e); [discriminate|].
  destruct (all_l2 L _) as [l2|] eqn:Hl; [|discriminate]. cbn.
  intros H; inv H. cbn. exists start, q, m1, l2. repeat split; auto.
  eapply shuffle_is_permutation; eauto.
Qed.

(** the i-th processed instruction is handled at time [start + i] *)
Theorem process_all_times start i m e r m' :
  process_all start i m (e :: r) = Ok m' ->
  exists m1, market_process (market_set_time m (start + i)) e = Ok m1 /\
             process_all start (i + 1) m1 r = Ok m'.
Proof.
  cbn. destruct (MAXT <? start + i); [discriminate|].
  destruct (market_process _ e) as [m1|]; [|discriminate]. cbn. eauto.
Qed.

Lemma process_all_length start q : forall i m0 m1,
  process_all start i m0 q = Ok m1 -> length m1 = length m0.
Proof.
  induction q as [|ev r IH]; intros i m0 m1 Hp; cbn in Hp.
  - inv Hp; reflexivity.
  - destruct (MAXT <? start + i); [discriminate|].
    destruct (market_process _ ev) as [m2|] eqn:E; [|discriminate]. cbn in Hp.
    apply IH in Hp. apply upd_nth_local in E. destruct E as (El & _).
    unfold market_set_time in El. rewrite map_length in El. lia.
Qed.

Lemma all_l2_length L m : forall l2, all_l2 L m = Ok l2 -> length l2 = length m.
Proof.
  induction m as [|b r IH]; intros l2 Hl; cbn in Hl.
  - inv Hl; reflexivity.
  - destruct (level_2_data L b); [|discriminate]. cbn in Hl.
    destruct (all_l2 L r) as [xs|]; [|discriminate]. inv Hl. cbn. f_equal. apply IH; reflexivity.
Qed.

Lemma combine_snoc_shape {A B} (f : B -> A) (hs : list (list A)) : forall (xs : list B),
  length hs = length xs ->
  Forall2 (fun h h' => exists d, h' = h ++ [d]) hs (map (fun p => fst p ++ [f (snd p)]) (combine hs xs)).
Proof.
  induction hs as [|h t IH]; intros [|x xs] Hl; cbn in *; try lia; constructor.
  - eauto.
  - apply IH; lia.
Qed.

(** every recorded series and the traded-volume series grow by exactly one
    entry per step *)
Theorem records_grow L e g e' g' :
  menv_step L e g = Ok (e', g') ->
  length (en_hist e) = length (en_market e) -> length (en_tvols e) = length (en_market e) ->
  Forall2 (fun h h' => exists d, h' = h ++ [d]) (en_hist e) (en_hist e') /\
  Forall2 (fun t t' => exists v, t' = t ++ [v]) (en_tvols e) (en_tvols e').
Proof.
  intros H Hlh Hlt. apply step_spec in H.
  destruct H as (start & q & m1 & l2 & _ & _ & _ & Hp & Hm & _ & _ & Hl & _ & Hh & Htv).
  assert (Hlen1 : length (en_market e') = length (en_market e)).
  { rewrite Hm. unfold market_set_time. rewrite map_length.
    apply process_all_length in Hp. rewrite Hp. apply map_length. }
  assert (Hlen2 : length l2 = length (en_market e')) by (apply all_l2_length in Hl; exact Hl).
  split.
  - rewrite Hh. apply (combine_snoc_shape (fun d => d)). lia.
  - rewrite Htv. apply (combine_snoc_shape b_tvol). lia.
Qed.
