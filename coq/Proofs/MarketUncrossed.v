(** * C02 at environment level: while trading was never disabled, no asset of a multi-asset
    environment (or the single-asset one) is ever crossed - through submissions and whole steps, for
    every batch and every schedule *)
From Bourse Require Import Model.Types Model.Map Model.Side Model.Book Model.Obs Model.Rng Model.Env Spec.RefBook
  Proofs.Basic Proofs.Refine Proofs.Volumes Proofs.Reload Proofs.PosVol Proofs.Uncrossed Proofs.EnvProps Proofs.MarketInv.
From Coq Require Import ZifyBool ZifyNat ZifyN.

Ltac inv H := inversion H; subst; clear H.

Definition MXInv (m : market) : Prop := Forall XInv m.

(** queued modifications carry a volume of at least 1 (cancellations and placements carry none) *)
Definition mev_vols (e : mevent) : Prop := match e with MModify _ _ _ (Some v) => 1 <= v | _ => True end.

Lemma step_xinv b o b' x : XInv b -> op_u32 o -> op_vols o -> o <> ODisable -> step b o = Ok (b', x) -> XInv b'.
Proof.
  intros Hi Hu Hv Hd H. unfold step in H. destruct (step_raw b o) as [[b1 y]|] eqn:E; [|discriminate]. cbn [rbind] in H.
  destruct (bounded b1); [|discriminate]. inv H. exact (step_raw_xinv b o b' x Hi Hu Hv Hd E).
Qed.

Lemma set_time_xinv b t : XInv b -> XInv (set_time b t).
Proof.
  intros Hi. assert (H : step_raw b (OSetTime t) = Ok (set_time b t, ONone)) by reflexivity.
  refine (step_raw_xinv b (OSetTime t) _ _ Hi I I _ H). intros C; discriminate C.
Qed.

Lemma reset_tvol_xinv b : XInv b -> XInv (reset_trade_vol b).
Proof.
  intros Hi. assert (H : step_raw b OResetTvol = Ok (reset_trade_vol b, ONone)) by reflexivity.
  refine (step_raw_xinv b OResetTvol _ _ Hi I I _ H). intros C; discriminate C.
Qed.

Lemma Forall_map_x (f : book -> book) m : (forall b, XInv b -> XInv (f b)) -> MXInv m -> MXInv (map f m).
Proof. intros Hf H. unfold MXInv in *. rewrite Forall_map. eapply Forall_impl; [|exact H]. exact Hf. Qed.

Lemma market_process_xinv m e m' : MXInv m -> mev_u32 e -> mev_vols e -> market_process m e = Ok m' -> MXInv m'.
Proof.
  intros Hm Hu Hv H. unfold market_process in H. eapply (upd_nth_Forall XInv); [|exact Hm|exact H].
  intros b b' Hb Hx. unfold book_event in Hx. destruct (step b (OEvent (mev_event e))) as [[b1 y]|] eqn:E; [|discriminate]. inv Hx.
  eapply (step_xinv b (OEvent (mev_event e))); [exact Hb | | | intros C; discriminate C | exact E].
  - destruct e as [a id|a id|a id [p|] nv]; exact Hu || exact I.
  - destruct e as [a id|a id|a id np [v|]]; exact Hv || exact I.
Qed.

Lemma process_all_xinv start : forall q i m m',
  MXInv m -> Forall mev_u32 q -> Forall mev_vols q -> process_all start i m q = Ok m' -> MXInv m'.
Proof.
  induction q as [|e r IH]; intros i m m' Hm Hq Hv H; cbn [process_all] in H; [inv H; assumption|].
  destruct (MAXT <? start + i); [discriminate|].
  destruct (market_process (market_set_time m (start + i)) e) as [m1|] eqn:E; [|discriminate]. cbn [rbind] in H.
  inversion Hq as [|? ? H1 H2]; subst. inversion Hv as [|? ? V1 V2]; subst. eapply IH; [|exact H2|exact V2|exact H].
  eapply market_process_xinv; [|exact H1|exact V1|exact E]. apply Forall_map_x; [intros; apply set_time_xinv|]; assumption.
Qed.

Theorem menv_step_xinv L e g e' g' :
  MXInv (en_market e) -> Forall mev_u32 (en_queue e) -> Forall mev_vols (en_queue e) ->
  menv_step L e g = Ok (e', g') -> MXInv (en_market e').
Proof.
  intros Hm Hq Hv H. unfold menv_step in H. destruct (market_time (en_market e)) as [start|]; [|discriminate]. cbn [rbind] in H.
  destruct (shuffle (en_queue e) g) as [[q g1]|] eqn:Es; [|discriminate].
  destruct (process_all start 0 (map reset_trade_vol (en_market e)) q) as [m1|] eqn:Ep; [|discriminate]. cbn [rbind] in H.
  destruct (MAXT <? start + en_step e); [discriminate|].
  destruct (all_l2 L (market_set_time m1 (start + en_step e))) as [l2|]; [|discriminate]. inv H. cbn [en_market].
  apply Forall_map_x; [intros; apply set_time_xinv; assumption|].
  pose proof (shuffle_is_permutation _ _ _ _ Es) as Hp.
  eapply process_all_xinv; [| | |exact Ep].
  - apply Forall_map_x; [intros; apply reset_tvol_xinv|]; assumption.
  - rewrite Forall_forall in *. intros x Hx. apply Hq.
    eapply Permutation.Permutation_in; [apply Permutation.Permutation_sym; exact Hp | exact Hx].
  - rewrite Forall_forall in *. intros x Hx. apply Hv.
    eapply Permutation.Permutation_in; [apply Permutation.Permutation_sym; exact Hp | exact Hx].
Qed.

(** what it means for the reader of market data: best bid < best ask on every asset that is quoted on both sides *)
Theorem mxinv_touch m a b :
  MXInv m -> nth_error m a = Some b ->
  resting Bid (tbl b) <> [] -> resting Ask (tbl b) <> [] -> fst (bid_ask b) < snd (bid_ask b).
Proof.
  intros Hm Hb Hbid Hask. unfold MXInv in Hm. rewrite Forall_forall in Hm.
  destruct (Hm b (nth_error_In _ _ Hb)) as ((Hq & _) & _ & _ & Hux).
  apply uncrossed_touch; [assumption | assumption | exact (nonempty_resting b Bid Hq Hbid) | exact (nonempty_resting b Ask Hq Hask)].
Qed.

(** every environment operation except disabling trading *)
Definition eop_vols (o : eop) : Prop :=
  match o with
  | EPlace _ _ v _ _ => 1 <= v
  | EModify _ _ _ (Some v) => 1 <= v
  | MDirect _ o' => op_vols o' /\ o' <> ODisable
  | EDisable => False
  | _ => True
  end.

Lemma set_trading_true_xinv b : XInv b -> XInv (set_trading b true).
Proof.
  intros Hi. assert (H : step_raw b OEnable = Ok (set_trading b true, ONone)) by reflexivity.
  refine (step_raw_xinv b OEnable _ _ Hi I I _ H). intros C; discriminate C.
Qed.

Lemma mxinv_in m a b : MXInv m -> nth_error m a = Some b -> XInv b.
Proof. intros Hm Hb. unfold MXInv in Hm. rewrite Forall_forall in Hm. apply Hm. eapply nth_error_In; eassumption. Qed.

Theorem menv_apply_xinv L e g o e' g' x :
  MXInv (en_market e) -> Forall mev_u32 (en_queue e) -> Forall mev_vols (en_queue e) ->
  eop_u32 o -> eop_vols o -> menv_apply L e g o = Ok (e', g', x) ->
  MXInv (en_market e') /\ Forall mev_u32 (en_queue e') /\ Forall mev_vols (en_queue e').
Proof.
  intros Hm Hq Hv Hu Hvo H. destruct o; cbn [menv_apply] in H; cbn [eop_vols] in Hvo.
  - unfold menv_place in H. destruct (nth_error (en_market e) a) as [b|] eqn:Hb; [|discriminate].
    destruct (create_order b sd vol trader price) as [b' c] eqn:Hc. destruct c as [id|pp tt].
    + destruct (upd_nth (en_market e) a (fun _ => Ok b')) as [m'|] eqn:Hup; [|discriminate]. cbn in H. inv H.
      cbn [en_market en_queue push_event set_market]. split; [|split].
      * eapply (upd_nth_Forall XInv); [|exact Hm|exact Hup]. intros y y' _ Hy. inv Hy.
        assert (Hs : step_raw b (OCreate sd vol trader price) = Ok (y', OCreated (Created id))) by (cbn [step_raw]; rewrite Hc; reflexivity).
        refine (step_raw_xinv b (OCreate sd vol trader price) _ _ (mxinv_in _ _ _ Hm Hb) _ Hvo _ Hs); [destruct price; exact Hu | intros C; discriminate C].
      * apply Forall_app. split; [assumption | constructor; [exact I | constructor]].
      * apply Forall_app. split; [assumption | constructor; [exact I | constructor]].
    + cbn in H. inv H. auto.
  - inv H. cbn [en_market en_queue push_event]. repeat split; [assumption | |];
      (apply Forall_app; split; [assumption | constructor; [exact I | constructor]]).
  - inv H. cbn [en_market en_queue push_event]. repeat split; [assumption | |].
    + apply Forall_app; split; [assumption | constructor; [|constructor]]. destruct np; exact Hu || exact I.
    + apply Forall_app; split; [assumption | constructor; [|constructor]]. destruct nv; exact Hvo || exact I.
  - destruct (menv_step L e g) as [[e1 g1]|] eqn:Es; [|discriminate]. cbn in H. inv H.
    destruct (menv_step_inv L e g e' g') as [_ B]; [| exact Hq | exact Es |].
    + unfold MInv. eapply Forall_impl; [|exact Hm]. intros b Hb. exact (proj1 Hb).
    + split; [eapply menv_step_xinv; eassumption | rewrite B; split; constructor].
  - inv H. cbn [en_market en_queue set_market]. repeat split; [|assumption|assumption].
    apply Forall_map_x; [intros; apply set_trading_true_xinv|]; assumption.
  - contradiction.
  - destruct Hvo as [Hvo Hnd].
    destruct (nth_error (en_market e) a) as [b|] eqn:Hb; [|discriminate].
    destruct (step b o) as [[b' y]|] eqn:Es; [|discriminate]. cbn [rbind] in H.
    destruct (upd_nth (en_market e) a (fun _ => Ok b')) as [m'|] eqn:Hup; [|discriminate]. cbn in H. inv H.
    cbn [en_market en_queue set_market]. repeat split; [|assumption|assumption].
    eapply (upd_nth_Forall XInv); [|exact Hm|exact Hup]. intros z z' _ Hz. inv Hz.
    eapply (step_xinv b o); [exact (mxinv_in _ _ _ Hm Hb) | exact Hu | exact Hvo | exact Hnd | exact Es].
  - inv H. cbn [en_market en_queue set_market]. repeat split; [|assumption|assumption].
    apply Forall_map_x; [intros; apply set_time_xinv|]; assumption.
  - inv H. cbn [en_market en_queue set_market]. repeat split; [|assumption|assumption].
    apply Forall_map_x; [intros; apply reset_tvol_xinv|]; assumption.
Qed.

Lemma market_new_xinv t0 : forall ticks m, market_new t0 ticks true = Ok m -> MXInv m.
Proof.
  induction ticks as [|tk r IH]; intros m H; cbn [market_new] in H; [inv H; constructor|].
  destruct (book_new t0 tk true) as [b|] eqn:Eb; [|discriminate]. cbn [rbind] in H.
  destruct (market_new t0 r true) as [m1|] eqn:Em; [|discriminate]. cbn [rbind] in H. injection H as <-.
  constructor; [eapply XInv_new; eassumption | apply IH; reflexivity].
Qed.
