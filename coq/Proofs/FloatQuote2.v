(** * C16, continued: the quotes of a noise / momentum agent on *any* book (one-sided and empty books
    included, where the observed mid-price is not on the half-tick grid), for tick sizes up to 2^18 *)
From Coq Require Import ZArith NArith Bool Reals Psatz Lia Lra.
From Flocq Require Import Core.Core IEEE754.BinarySingleNaN Relative.
From Coq Require Import Floats.SpecFloat.
From Bourse Require Import Model.Types Model.Float Model.Agents Proofs.FloatQuote.

Local Notation prec := 53%Z.
Local Notation emax := 1024%Z.
Local Notation fexp := (SpecFloat.fexp prec emax).
Local Notation rnd := (round radix2 fexp ZnearestE).
Local Open Scope R_scope.

Local Instance Hprec : FLX.Prec_gt_0 prec := prec_gt_0_53.
Local Instance Hemax : Prec_lt_emax prec emax := prec_lt_emax_53.
Local Instance Hvalid : Valid_exp fexp := fexp_correct prec emax Hprec.

(** rounding a quotient of at most 2^33 moves it by less than 2^-19 *)
Lemma rnd_close q : 0 <= q <= bpow radix2 33 -> Rabs (rnd q - q) < bpow radix2 (-19).
Proof.
  intros [Q0 Q1].
  destruct (error_N_FLT radix2 (-1074) 53 eq_refl (fun x => negb (Z.even x)) q) as (eps & eta & He & Ht & _ & E).
  change (round radix2 (FLT_exp (-1074) 53) (Znearest (fun x => negb (Z.even x))) q) with (rnd q) in E.
  rewrite E. replace (q * (1 + eps) + eta - q) with (q * eps + eta) by ring.
  eapply Rle_lt_trans; [apply Rabs_triang|]. rewrite Rabs_mult, (Rabs_pos_eq q Q0).
  assert (B1 : q * Rabs eps <= bpow radix2 33 * (/ 2 * bpow radix2 (-53 + 1))).
  { apply Rmult_le_compat; [exact Q0 | apply Rabs_pos | exact Q1 | exact He]. }
  assert (B2 : bpow radix2 33 * (/ 2 * bpow radix2 (-53 + 1)) = bpow radix2 (-20)).
  { change (/ 2) with (bpow radix2 (-1)). rewrite <- !bpow_plus. reflexivity. }
  assert (B3 : / 2 * bpow radix2 (-1074) <= bpow radix2 (-21)).
  { change (/ 2) with (bpow radix2 (-1)). rewrite <- bpow_plus. apply bpow_le. lia. }
  assert (B4 : bpow radix2 (-20) + bpow radix2 (-21) < bpow radix2 (-19)).
  { replace (bpow radix2 (-19)) with (2 * bpow radix2 (-20)) by (change 2 with (bpow radix2 1); rewrite <- bpow_plus; reflexivity).
    assert (bpow radix2 (-21) < bpow radix2 (-20)) by (apply bpow_lt; lia). lra. }
  lra.
Qed.

(** the quotient [x2 / (2 tick)] stays at least [1 / (2 tick) >= 2^-19] away from the integers it is not equal to *)
Lemma quotient_gap (x2 t : Z) (z : Z) :
  (0 <= x2)%Z -> (1 <= t <= 262144)%Z ->
  let q := IZR x2 / 2 / IZR t in
  (q < IZR z -> q + bpow radix2 (-19) <= IZR z) /\ (IZR z < q -> IZR z + bpow radix2 (-19) <= q).
Proof.
  intros Hx Ht q.
  assert (Tr : 1 <= IZR t <= 262144) by (split; [apply (IZR_le 1) | apply (IZR_le _ 262144)]; lia).
  assert (Hq : q * (2 * IZR t) = IZR x2) by (unfold q; field; lra).
  assert (Hb : bpow radix2 (-19) = / 524288) by reflexivity.
  assert (Hg : bpow radix2 (-19) * (2 * IZR t) <= 1).
  { rewrite Hb. apply Rmult_le_reg_l with 524288; [lra|]. rewrite <- Rmult_assoc, Rinv_r, Rmult_1_l by lra. lra. }
  split; intros Hlt.
  - (* x2 < 2 t z, so x2 + 1 <= 2 t z *)
    assert (H1 : IZR x2 < IZR (2 * t * z)) by (rewrite !mult_IZR; nra).
    apply lt_IZR in H1. assert (H2 : IZR (x2 + 1) <= IZR (2 * t * z)) by (apply IZR_le; lia).
    rewrite plus_IZR, !mult_IZR in H2.
    apply Rmult_le_reg_r with (2 * IZR t); [lra|]. rewrite Rmult_plus_distr_r, Hq. nra.
  - assert (H1 : IZR (2 * t * z) < IZR x2) by (rewrite !mult_IZR; nra).
    apply lt_IZR in H1. assert (H2 : IZR (2 * t * z + 1) <= IZR x2) by (apply IZR_le; lia).
    rewrite plus_IZR, !mult_IZR in H2.
    apply Rmult_le_reg_r with (2 * IZR t); [lra|]. rewrite Rmult_plus_distr_r, Hq. nra.
Qed.

Lemma rounding_keeps_integers_apart (x2 t : Z) :
  (0 <= x2 < 2 ^ 34)%Z -> (1 <= t <= 262144)%Z ->
  let q := IZR x2 / 2 / IZR t in
  (forall z : Z, IZR z <= rnd q -> IZR z <= q) /\ (forall z : Z, rnd q <= IZR z -> q <= IZR z).
Proof.
  intros Hx Ht q.
  assert (Tr : 1 <= IZR t) by (apply (IZR_le 1); lia).
  assert (Q : 0 <= q <= bpow radix2 33).
  { assert (X0 : 0 <= IZR x2) by (apply (IZR_le 0); lia).
    assert (X1 : IZR x2 <= IZR (2 ^ 34)) by (apply IZR_le; lia).
    change (IZR (2 ^ 34)) with (bpow radix2 34) in X1.
    assert (B : bpow radix2 34 = 2 * bpow radix2 33) by (change 2 with (bpow radix2 1); rewrite <- bpow_plus; reflexivity).
    assert (Hi : 0 < / IZR t <= 1).
    { split; [apply Rinv_0_lt_compat; lra|]. rewrite <- Rinv_1. apply Rinv_le_contravar; lra. }
    unfold q, Rdiv. split; [apply Rmult_le_pos; [lra | lra]|]. pose proof (bpow_gt_0 radix2 33). nra. }
  pose proof (rnd_close q Q) as C. apply Rabs_def2 in C. destruct C as [C1 C2].
  split; intros z Hz.
  - destruct (Rle_or_lt (IZR z) q) as [L|G]; [exact L|]. exfalso.
    destruct (quotient_gap x2 t z) as [Ga _]; [lia | lia |]. fold q in Ga. specialize (Ga G). lra.
  - destruct (Rle_or_lt q (IZR z)) as [L|G]; [exact L|]. exfalso.
    destruct (quotient_gap x2 t z) as [_ Gb]; [lia | lia |]. fold q in Gb. specialize (Gb G). lra.
Qed.

(** ** the two quotes on any book *)
Theorem buy_quote_le_mid_any (mid d : f64) (tick p : N) (x2 : Z) :
  is_finite mid = true -> Bsign mid = false -> (1 <= tick <= 262144)%N ->
  B2R mid = IZR x2 / 2 -> (0 <= x2 < 2 ^ 34)%Z ->
  snap_to_grid (round_price false (fsub mid (fabs d)) (f_of_N tick)) tick = Ok p ->
  IZR (Z.of_N p) <= B2R mid.
Proof.
  intros Fm Sm Ht Hm Hx. apply buy_quote_le_mid_gen; auto; [lia|].
  rewrite Hm. exact (proj1 (rounding_keeps_integers_apart x2 (Z.of_N tick) Hx ltac:(lia))).
Qed.

Theorem sell_quote_ge_mid_any (mid d : f64) (tick p : N) (x2 : Z) :
  is_finite mid = true -> is_nan d = false -> (1 <= tick <= 262144)%N ->
  B2R mid = IZR x2 / 2 -> (0 <= x2 < 2 ^ 34)%Z ->
  B2R mid <= IZR (Z.of_N (4294967295 - 4294967295 mod tick)) ->
  snap_to_grid (round_price true (fadd mid (fabs d)) (f_of_N tick)) tick = Ok p ->
  B2R mid <= IZR (Z.of_N p).
Proof.
  intros Fm Nd Ht Hm Hx HG. apply sell_quote_ge_mid_gen; auto; [|lia|].
  - rewrite Hm. assert (0 <= IZR x2) by (apply (IZR_le 0); lia). lra.
  - rewrite Hm. exact (proj2 (rounding_keeps_integers_apart x2 (Z.of_N tick) Hx ltac:(lia))).
Qed.

(** ** from the real-number statement to the prices the agents submit *)
From Bourse Require Import Model.Book Model.Env Model.Rng Proofs.FloatSym Proofs.AgentDir Proofs.AgentOrders.

Lemma h_facts (x2 : N) : (Z.of_N x2 < 2 ^ 53)%Z ->
  B2R (h x2) = IZR (Z.of_N x2) / 2 /\ is_finite (h x2) = true /\ Bsign (h x2) = false.
Proof.
  intros Hx. unfold h, f_of_ZE.
  pose proof (binary_normalize_correct prec emax prec_gt_0_53 prec_lt_emax_53 mode_NE (Z.of_N x2) (-1) false) as C.
  cbv zeta in C. simpl round_mode in C.
  rewrite (round_generic radix2 fexp ZnearestE) in C by (apply format_ZE; lia).
  assert (Hv : F2R (Float radix2 (Z.of_N x2) (-1)) = IZR (Z.of_N x2) / 2) by (unfold F2R; simpl; lra).
  rewrite Rlt_bool_true in C.
  - destruct C as (R1 & F1 & S1). rewrite Hv in *. repeat split; auto.
    rewrite S1. assert (0 <= IZR (Z.of_N x2)) by (apply (IZR_le 0); lia).
    destruct (Rcompare_spec (IZR (Z.of_N x2) / 2) 0); try reflexivity. lra.
  - apply F2R_lt_bpow. simpl Fnum. simpl Fexp. change (Zpower radix2 (emax - -1)) with (2 ^ 1025)%Z.
    apply Z.lt_le_trans with (2 ^ 53)%Z; [lia | apply Z.pow_le_mono_r; lia].
Qed.

Lemma quotient_on_half_grid (x2 tick : N) (k : Z) :
  (1 <= tick)%N -> Z.of_N x2 = (k * Z.of_N tick)%Z -> (Z.of_N x2 < 2 ^ 53)%Z ->
  rnd (IZR (Z.of_N x2) / 2 / IZR (Z.of_N tick)) = IZR (Z.of_N x2) / 2 / IZR (Z.of_N tick).
Proof.
  intros Ht Hk Hx. assert (Tr : 0 < IZR (Z.of_N tick)) by (apply (IZR_lt 0); lia).
  assert (Hq : IZR (Z.of_N x2) / 2 / IZR (Z.of_N tick) = F2R (Float radix2 k (-1))).
  { rewrite Hk, mult_IZR. unfold F2R. simpl Fnum. simpl Fexp. change (bpow radix2 (-1)) with (/ 2). field. lra. }
  rewrite Hq. apply round_generic; auto with typeclass_instances. apply format_ZE; [|lia].
  assert (0 <= k)%Z by nia. assert (k <= Z.of_N x2)%Z by nia. lia.
Qed.

(** what is asked of the observed mid-price [x2 / 2] and the tick size: either both sides are quoted on
    the grid (then [x2] is a multiple of the tick size and any tick size will do), or the tick size
    is at most 2^18 (then any book will do, one-sided and empty ones included) *)
Definition grid_or_small (x2 tick : N) : Prop :=
  (exists k : Z, Z.of_N x2 = (k * Z.of_N tick)%Z) \/ (tick <= 262144)%N.

Section Quotes.
Variable ln : N -> option (N * N).
(** assumed of the log-normal oracle: it never returns a NaN (finite distribution parameters) *)
Hypothesis ln_not_nan : forall pos bits used, ln pos = Some (bits, used) -> is_nan (f_of_bits bits) = false.

(** a limit order placed by [place_buy_limit_order] / [place_sell_limit_order] around the observed
    mid-price [x2 / 2] (both sides quoted at multiples of the tick size, so [x2 = k * tick]) is on the
    grid, carries the configured volume and trader id, and is priced at or below (buy) / at or
    above (sell) that mid-price *)
Theorem limit_quote_on_its_side e c a (buy : bool) x2 tick v tr e' c' id :
  place_limit_dist ln e c a buy (h x2) tick v tr = Ok (e', c', id) ->
  (1 <= tick < 4294967296)%N -> grid_or_small x2 tick ->
  (x2 <= 2 * (4294967295 - 4294967295 mod tick))%N ->
  adds_only (fun o => helper_order tick v tr o /\ o_side o = (if buy then Bid else Ask) /\
                      if buy then (2 * o_price o <= x2)%N else (x2 <= 2 * o_price o)%N) a e e'.
Proof.
  intros H Ht Hk HG.
  assert (Hx : (Z.of_N x2 < 2 ^ 53)%Z).
  { change (2 ^ 53)%Z with 9007199254740992%Z. pose proof (N.mod_le 4294967295 tick). lia. }
  destruct (h_facts x2 Hx) as (Rm & Fm & Sm).
  assert (Hx34 : (0 <= Z.of_N x2 < 2 ^ 34)%Z).
  { change (2 ^ 34)%Z with 17179869184%Z. pose proof (N.mod_le 4294967295 tick). lia. }
  pose proof (place_limit_dist_adds _ _ _ _ _ _ _ _ _ _ _ _ H) as Hadd.
  unfold place_limit_dist in H. unfold c_lognormal in H.
  destruct (ln (cpos c)) as [[bits used]|] eqn:El; [|discriminate]. cbn [rbind] in H.
  pose proof (ln_not_nan _ _ _ El) as Nd.
  destruct (snap_to_grid _ tick) as [pr|] eqn:Es; [|discriminate]. cbn [rbind] in H.
  destruct (place_unwrap e a (if buy then Bid else Ask) v tr (Some pr)) as [[e1 i]|] eqn:E; [|discriminate]. cbn in H.
  injection H as <- _ _.
  assert (Hside : if buy then (2 * pr <= x2)%N else (x2 <= 2 * pr)%N).
  { destruct buy; cbn [negb] in Es.
    - assert (B : IZR (Z.of_N pr) <= B2R (h x2)).
      { destruct Hk as [(k & Hk)|Hsm].
        - pose proof (quotient_on_half_grid x2 tick k (proj1 Ht) Hk Hx) as Hrep. rewrite <- Rm in Hrep.
          exact (buy_quote_le_mid (h x2) (f_of_bits bits) tick pr Fm Sm Ht Hrep Es).
        - apply (buy_quote_le_mid_any (h x2) (f_of_bits bits) tick pr (Z.of_N x2) Fm Sm); auto. lia. }
      rewrite Rm in B.
      assert (IZR (2 * Z.of_N pr) <= IZR (Z.of_N x2)) by (rewrite mult_IZR; lra). apply le_IZR in H. lia.
    - assert (M0 : 0 <= B2R (h x2)) by (apply nonneg_of_sign; assumption).
      assert (HG' : B2R (h x2) <= IZR (Z.of_N (4294967295 - 4294967295 mod tick))).
      { rewrite Rm. assert (IZR (Z.of_N x2) <= IZR (2 * Z.of_N (4294967295 - 4294967295 mod tick))) by (apply IZR_le; lia).
        rewrite mult_IZR in H. lra. }
      assert (B : B2R (h x2) <= IZR (Z.of_N pr)).
      { destruct Hk as [(k & Hk)|Hsm].
        - pose proof (quotient_on_half_grid x2 tick k (proj1 Ht) Hk Hx) as Hrep. rewrite <- Rm in Hrep.
          exact (sell_quote_ge_mid (h x2) (f_of_bits bits) tick pr Fm M0 Nd Ht HG' Hrep Es).
        - apply (sell_quote_ge_mid_any (h x2) (f_of_bits bits) tick pr (Z.of_N x2) Fm Nd); auto. lia. }
      rewrite Rm in B.
      assert (IZR (Z.of_N x2) <= IZR (2 * Z.of_N pr)) by (rewrite mult_IZR; lra). apply le_IZR in H. lia. }
  pose proof (place_unwrap_adds _ _ _ _ _ _ _ _ E) as Hs.
  destruct Hs as [Eq|(b & x & H1 & H2 & F)]; [left; exact Eq|].
  destruct Hadd as [Eq|(b' & x' & H1' & H2' & F')].
  - left; exact Eq.
  - right. exists b, x. repeat split; auto.
    rewrite H1 in H1'. injection H1' as <-. rewrite H2 in H2'. injection H2' as E2.
    apply app_inv_head in E2. subst x'.
    rewrite Forall_forall in *. intros en Hin. split; [apply F'; exact Hin|].
    destruct (F en Hin) as (Hsd & _ & _ & _ & _ & Hp). split; [exact Hsd|]. rewrite Hp. exact Hside.
Qed.

(** on its side of the mid-price [x2 / 2], or a market order *)
Definition quote_ok (x2 : N) (o : order) : Prop :=
  o_price o = (match o_side o with Bid => MAXP | Ask => 0%N end) \/
  match o_side o with Bid => (2 * o_price o <= x2)%N | Ask => (x2 <= 2 * o_price o)%N end.

Lemma limit_quote_ok e c a (buy : bool) x2 tick v tr e' c' id :
  place_limit_dist ln e c a buy (h x2) tick v tr = Ok (e', c', id) ->
  (1 <= tick < 4294967296)%N -> grid_or_small x2 tick ->
  (x2 <= 2 * (4294967295 - 4294967295 mod tick))%N ->
  adds_only (quote_ok x2) a e e'.
Proof.
  intros H Ht Hk HG. eapply adds_weaken; [|eapply limit_quote_on_its_side; eassumption].
  intros o (_ & Hsd & Hq). right. rewrite Hsd. destruct buy; exact Hq.
Qed.

Lemma market_quote_ok e a sd v tr e' id x2 :
  place_unwrap e a sd v tr None = Ok (e', id) -> adds_only (quote_ok x2) a e e'.
Proof.
  intros H. eapply adds_weaken; [|eapply place_unwrap_adds; eassumption].
  intros o (S0 & _ & _ & _ & _ & S5). left. rewrite S5, S0. reflexivity.
Qed.

Section OneAgent.
Variables (x2 tick : N).
Hypothesis Ht : (1 <= tick < 4294967296)%N.
Hypothesis Hk : grid_or_small x2 tick.
Hypothesis HG : (x2 <= 2 * (4294967295 - 4294967295 mod tick))%N.

Theorem noise_trader_quotes e c a p tr live e' c' live' :
  np_tick p = tick ->
  noise_trader ln e c a p (h x2) tr live = Ok (e', c', live') -> adds_only (quote_ok x2) a e e'.
Proof.
  intros Etk. unfold noise_trader. rewrite Etk. destruct (c_f32 c) as [kk c1]. intros H.
  destruct (f32_draw_lt kk (np_p_limit p)).
  - destruct (c_bool_half c1) as [buy c1'].
    destruct (place_limit_dist ln e c1' a buy (h x2) tick (np_vol p) tr) as [[[e1 c2] id]|] eqn:E1; [|discriminate]. cbn [rbind] in H.
    pose proof (limit_quote_ok _ _ _ _ _ _ _ _ _ _ _ E1 Ht Hk HG) as G1.
    destruct (c_f32 c2) as [k2 c3]. destruct (f32_draw_lt k2 (np_p_market p)); [|injection H as <- _ _; exact G1].
    destruct (c_bool_half c3) as [buy2 c4].
    destruct (place_unwrap e1 a (if buy2 then Bid else Ask) (np_vol p) tr None) as [[e2 i2]|] eqn:E2; [|discriminate]. cbn in H.
    injection H as <- _ _. eapply adds_trans; [exact G1 | eapply market_quote_ok; eassumption].
  - cbn [rbind] in H. destruct (c_f32 c1) as [k2 c3]. destruct (f32_draw_lt k2 (np_p_market p)); [|injection H as <- _ _; apply adds_refl].
    destruct (c_bool_half c3) as [buy2 c4].
    destruct (place_unwrap e a (if buy2 then Bid else Ask) (np_vol p) tr None) as [[e2 i2]|] eqn:E2; [|discriminate]. cbn in H.
    injection H as <- _ _. eapply market_quote_ok; eassumption.
Qed.

Theorem mom_trader_quotes e c a p m pl pm tr live e' c' live' :
  mp_tick p = tick ->
  mom_trader ln e c a p (h x2) m pl pm tr live = Ok (e', c', live') -> adds_only (quote_ok x2) a e e'.
Proof.
  intros Etk. unfold mom_trader. rewrite Etk. destruct (c_f64 c) as [kk c1]. intros H.
  assert (Hmk : forall (e0 : menv) (c0 : crng) (l0 : list nat) (e3 : menv) (c3 : crng) (l3 : list nat),
            (if fgt m f_zero then do (e2, _) <- place_unwrap e0 a Bid (mp_vol p) tr None; Ok (e2, c0, l0)
             else if flt m f_zero then do (e2, _) <- place_unwrap e0 a Ask (mp_vol p) tr None; Ok (e2, c0, l0)
             else Ok (e0, c0, l0)) = Ok (e3, c3, l3) -> adds_only (quote_ok x2) a e0 e3).
  { intros e0 c0 l0 e3 c3 l3 Hx. destruct (fgt m f_zero); [|destruct (flt m f_zero)].
    - destruct (place_unwrap e0 a Bid (mp_vol p) tr None) as [[e2 i2]|] eqn:E2; [|discriminate]. cbn in Hx. injection Hx as <- _ _.
      eapply market_quote_ok; eassumption.
    - destruct (place_unwrap e0 a Ask (mp_vol p) tr None) as [[e2 i2]|] eqn:E2; [|discriminate]. cbn in Hx. injection Hx as <- _ _.
      eapply market_quote_ok; eassumption.
    - injection Hx as <- _ _. apply adds_refl. }
  assert (Hlim : forall (e0 : menv) (c0 : crng) (l0 : list nat) (e3 : menv) (c3 : crng) (l3 : list nat),
            (if fgt m f_zero then do (e', c', id) <- place_limit_dist ln e0 c0 a true (h x2) tick (mp_vol p) tr; Ok (e', c', l0 ++ [id])
             else if flt m f_zero then do (e', c', id) <- place_limit_dist ln e0 c0 a false (h x2) tick (mp_vol p) tr; Ok (e', c', l0 ++ [id])
             else Ok (e0, c0, l0)) = Ok (e3, c3, l3) -> adds_only (quote_ok x2) a e0 e3).
  { intros e0 c0 l0 e3 c3 l3 Hx. destruct (fgt m f_zero); [|destruct (flt m f_zero)].
    - destruct (place_limit_dist ln e0 c0 a true (h x2) tick (mp_vol p) tr) as [[[e1 c2] id]|] eqn:E1; [|discriminate]. cbn in Hx. injection Hx as <- _ _.
      exact (limit_quote_ok _ _ _ _ _ _ _ _ _ _ _ E1 Ht Hk HG).
    - destruct (place_limit_dist ln e0 c0 a false (h x2) tick (mp_vol p) tr) as [[[e1 c2] id]|] eqn:E1; [|discriminate]. cbn in Hx. injection Hx as <- _ _.
      exact (limit_quote_ok _ _ _ _ _ _ _ _ _ _ _ E1 Ht Hk HG).
    - injection Hx as <- _ _. apply adds_refl. }
  destruct (flt _ pl).
  - match type of H with (do _ <- ?X; _) = _ => destruct X as [[[e1 c2] l1]|] eqn:E1; [|discriminate] end. cbn [rbind] in H.
    pose proof (Hlim _ _ _ _ _ _ E1) as G1. destruct (c_f64 c2) as [k2 c3].
    destruct (flt _ pm); [|injection H as <- _ _; exact G1]. eapply adds_trans; [exact G1 | eapply Hmk; exact H].
  - cbn [rbind] in H. destruct (c_f64 c1) as [k2 c3]. destruct (flt _ pm); [|injection H as <- _ _; apply adds_refl]. eapply Hmk; exact H.
Qed.
End OneAgent.
End Quotes.

(** ** a whole update of a noise / momentum agent on a book quoted on both sides *)
Section Updates.
Variable lognormal : N -> N -> option (N * N).
Variable tanh64 : N -> N.
Hypothesis lognormal_not_nan : forall k pos bits used, lognormal k pos = Some (bits, used) -> is_nan (f_of_bits bits) = false.

Lemma for_traders_quotes x2 a (f : menv * crng * list nat -> N -> res (menv * crng * list nat)) :
  (forall e c l tr e' c' l', f (e, c, l) tr = Ok (e', c', l') -> adds_only (quote_ok x2) a e e') ->
  forall n e c l first e' c' l', for_traders f (e, c, l) first n = Ok (e', c', l') -> adds_only (quote_ok x2) a e e'.
Proof.
  intros Hf n e c l first e' c' l' H.
  eapply adds_weaken; [|eapply (for_traders_adds lognormal tanh64 (fun _ => quote_ok x2) a f Hf); exact H].
  intros o (_ & _ & Ho). exact Ho.
Qed.

Theorem noise_update_quotes k e c a orders first n p e' c' ag' b :
  agent_update lognormal tanh64 k e c (ANoise a orders first n p) = Ok (e', c', ag') ->
  nth_error (en_market e) a = Some b ->
  (1 <= np_tick p < 4294967296)%N -> grid_or_small (mid_price_x2 b) (np_tick p) ->
  (mid_price_x2 b <= 2 * (4294967295 - 4294967295 mod np_tick p))%N ->
  adds_only (quote_ok (mid_price_x2 b)) a e e'.
Proof.
  cbn [agent_update]. intros H Hb Ht Hk HG.
  destruct (cancel_live_orders e c a orders (np_p_cancel p)) as [[[e1 c1] live]|] eqn:Ec; [|discriminate]. cbn [rbind] in H.
  pose proof (cancel_live_market _ _ _ _ _ _ _ _ Ec) as Em.
  assert (Hb1 : nth_error (en_market e1) a = Some b) by (rewrite Em; exact Hb).
  rewrite (mid_f64_is_half _ _ _ Hb1) in H. cbn [rbind] in H.
  match type of H with (do _ <- for_traders ?f _ _ _; _) = _ => set (F := f) in * end.
  destruct (for_traders F (e1, c1, live) first (N.to_nat n)) as [[[e2 c2] live2]|] eqn:Ef; [|discriminate]. cbn in H.
  injection H as <- _ _.
  apply (adds_from _ a e e1 e2 Em).
  eapply (for_traders_quotes _ a F); [|exact Ef].
  intros e0 c0 l0 tr e3 c3 l3 Hx. unfold F in Hx.
  eapply (noise_trader_quotes (lognormal k) (lognormal_not_nan k) _ _ Ht Hk HG); [reflexivity | exact Hx].
Qed.

Theorem momentum_update_quotes k e c a orders first n p last mom e' c' ag' b :
  agent_update lognormal tanh64 k e c (AMomentum a orders first n p last mom) = Ok (e', c', ag') ->
  nth_error (en_market e) a = Some b ->
  (1 <= mp_tick p < 4294967296)%N -> grid_or_small (mid_price_x2 b) (mp_tick p) ->
  (mid_price_x2 b <= 2 * (4294967295 - 4294967295 mod mp_tick p))%N ->
  adds_only (quote_ok (mid_price_x2 b)) a e e'.
Proof.
  cbn [agent_update]. intros H Hb Ht Hk HG.
  destruct (cancel_live_orders e c a orders (mp_p_cancel p)) as [[[e1 c1] live]|] eqn:Ec; [|discriminate]. cbn [rbind] in H.
  pose proof (cancel_live_market _ _ _ _ _ _ _ _ Ec) as Em.
  assert (Hb1 : nth_error (en_market e1) a = Some b) by (rewrite Em; exact Hb).
  rewrite (mid_f64_is_half _ _ _ Hb1) in H. cbn [rbind] in H.
  destruct (match last with Some lp => _ | None => (f_zero, f_zero) end) as [m pmk].
  match type of H with (do _ <- for_traders ?f _ _ _; _) = _ => set (F := f) in * end.
  destruct (for_traders F (e1, c1, live) first (N.to_nat n)) as [[[e2 c2] live2]|] eqn:Ef; [|discriminate]. cbn in H.
  injection H as <- _ _.
  apply (adds_from _ a e e1 e2 Em).
  eapply (for_traders_quotes _ a F); [|exact Ef].
  intros e0 c0 l0 tr e3 c3 l3 Hx. unfold F in Hx.
  eapply (mom_trader_quotes (lognormal k) (lognormal_not_nan k) _ _ Ht Hk HG); [reflexivity | exact Hx].
Qed.
End Updates.
