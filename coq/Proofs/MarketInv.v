(** * The book invariant at market / environment level: every book of a multi-asset
    market (or of a step environment) satisfies [Inv] after every operation, so the
    book-level theorems (views, reload, ledger, lifecycle) hold per asset *)
From Bourse Require Import Model.Types Model.Map Model.Side Model.Book Model.Obs Model.Rng Model.Env Spec.RefBook
  Proofs.Basic Proofs.Refine Proofs.Volumes Proofs.Views Proofs.Reload Proofs.EnvProps.

Ltac inv H := inversion H; subst; clear H.

Definition MInv (m : market) : Prop := Forall Inv m.

Definition mev_u32 (e : mevent) : Prop := match e with MModify _ _ (Some p) _ => p <= MAXP | _ => True end.
Definition eop_u32 (o : eop) : Prop :=
  match o with
  | EPlace _ _ _ _ (Some p) | EModify _ _ (Some p) _ => p <= MAXP
  | MDirect _ o' => op_u32 o'
  | _ => True
  end.

Lemma step_inv b o b' x : Inv b -> op_u32 o -> step b o = Ok (b', x) -> Inv b'.
Proof.
  intros Hi Hu H. unfold step in H. destruct (step_raw b o) as [[b1 y]|] eqn:E; [|discriminate]. cbn [rbind] in H.
  destruct (bounded b1); [|discriminate]. inv H. exact (proj2 (step_raw_inv_all b o b' x Hi Hu E)).
Qed.

Lemma upd_nth_Forall {A} (P : A -> Prop) f : (forall x x', P x -> f x = Ok x' -> P x') ->
  forall l i l', Forall P l -> upd_nth l i f = Ok l' -> Forall P l'.
Proof.
  intros Hf. induction l as [|h t IH]; intros i l' Hl H; [destruct i; discriminate|].
  inversion Hl as [|? ? Hh Ht]; subst. destruct i as [|i]; cbn [upd_nth] in H.
  - destruct (f h) as [h'|] eqn:E; [|discriminate]. inv H. constructor; [eapply Hf; eassumption | assumption].
  - destruct (upd_nth t i f) as [t'|] eqn:E; [|discriminate]. inv H. constructor; [assumption | eapply IH; eassumption].
Qed.

Lemma Forall_map_inv (f : book -> book) m : (forall b, Inv b -> Inv (f b)) -> MInv m -> MInv (map f m).
Proof. intros Hf H. unfold MInv in *. rewrite Forall_map. eapply Forall_impl; [|exact H]. exact Hf. Qed.

Lemma set_time_inv b t : Inv b -> Inv (set_time b t).
Proof. intros Hi. assert (H : step_raw b (OSetTime t) = Ok (set_time b t, ONone)) by reflexivity. exact (proj2 (step_raw_inv_all b (OSetTime t) _ _ Hi I H)). Qed.
Lemma reset_tvol_inv b : Inv b -> Inv (reset_trade_vol b).
Proof. intros Hi. assert (H : step_raw b OResetTvol = Ok (reset_trade_vol b, ONone)) by reflexivity. exact (proj2 (step_raw_inv_all b OResetTvol _ _ Hi I H)). Qed.
Lemma set_trading_inv b f : Inv b -> Inv (set_trading b f).
Proof.
  intros Hi. destruct f.
  - assert (H : step_raw b OEnable = Ok (set_trading b true, ONone)) by reflexivity. exact (proj2 (step_raw_inv_all b OEnable _ _ Hi I H)).
  - assert (H : step_raw b ODisable = Ok (set_trading b false, ONone)) by reflexivity. exact (proj2 (step_raw_inv_all b ODisable _ _ Hi I H)).
Qed.

Lemma market_new_inv t0 : forall ticks tr m, market_new t0 ticks tr = Ok m -> MInv m.
Proof.
  induction ticks as [|tk r IH]; intros tr m H; cbn [market_new] in H; [inv H; constructor|].
  destruct (book_new t0 tk tr) as [b|] eqn:Eb; [|discriminate]. cbn [rbind] in H.
  destruct (market_new t0 r tr) as [m1|] eqn:Em; [|discriminate]. inv H.
  constructor; [eapply Inv_new; eassumption | eapply IH; eassumption].
Qed.

Lemma market_process_inv m e m' : MInv m -> mev_u32 e -> market_process m e = Ok m' -> MInv m'.
Proof.
  intros Hm Hu H. unfold market_process in H. eapply (upd_nth_Forall Inv); [|exact Hm|exact H].
  intros b b' Hb Hx. unfold book_event in Hx. destruct (step b (OEvent (mev_event e))) as [[b1 y]|] eqn:E; [|discriminate]. inv Hx.
  eapply step_inv; [exact Hb | | exact E]. destruct e as [a id|a id|a id [p|] nv]; exact Hu || exact I.
Qed.

Lemma process_all_inv start : forall q i m m', MInv m -> Forall mev_u32 q -> process_all start i m q = Ok m' -> MInv m'.
Proof.
  induction q as [|e r IH]; intros i m m' Hm Hq H; cbn [process_all] in H; [inv H; assumption|].
  destruct (MAXT <? start + i); [discriminate|].
  destruct (market_process (market_set_time m (start + i)) e) as [m1|] eqn:E; [|discriminate]. cbn [rbind] in H.
  inversion Hq as [|? ? H1 H2]; subst. eapply IH; [|exact H2|exact H].
  eapply market_process_inv; [|exact H1|exact E]. apply Forall_map_inv; [intros; apply set_time_inv|]; assumption.
Qed.

Theorem menv_step_inv L e g e' g' :
  MInv (en_market e) -> Forall mev_u32 (en_queue e) -> menv_step L e g = Ok (e', g') ->
  MInv (en_market e') /\ en_queue e' = [].
Proof.
  intros Hm Hq H. unfold menv_step in H. destruct (market_time (en_market e)) as [start|]; [|discriminate]. cbn [rbind] in H.
  destruct (shuffle (en_queue e) g) as [[q g1]|] eqn:Es; [|discriminate].
  destruct (process_all start 0 (map reset_trade_vol (en_market e)) q) as [m1|] eqn:Ep; [|discriminate]. cbn [rbind] in H.
  destruct (MAXT <? start + en_step e); [discriminate|].
  destruct (all_l2 L (market_set_time m1 (start + en_step e))) as [l2|]; [|discriminate]. inv H. cbn [en_market en_queue].
  split; [|reflexivity]. apply Forall_map_inv; [intros; apply set_time_inv; assumption|].
  eapply process_all_inv; [| |exact Ep].
  - apply Forall_map_inv; [intros; apply reset_tvol_inv|]; assumption.
  - pose proof (shuffle_is_permutation _ _ _ _ Es) as Hp. rewrite Forall_forall in *. intros x Hx. apply Hq.
    eapply Permutation.Permutation_in; [apply Permutation.Permutation_sym; exact Hp | exact Hx].
Qed.

Lemma create_order_inv b sd v tr p b' c : Inv b -> (match p with Some px => px <= MAXP | None => True end) ->
  create_order b sd v tr p = (b', c) -> Inv b'.
Proof.
  intros Hi Hu H. assert (Hs : step_raw b (OCreate sd v tr p) = Ok (b', OCreated c)) by (cbn [step_raw]; rewrite H; reflexivity).
  refine (proj2 (step_raw_inv_all b (OCreate sd v tr p) _ _ Hi _ Hs)). destruct p; exact Hu.
Qed.

Theorem menv_apply_inv L e g o e' g' x :
  MInv (en_market e) -> Forall mev_u32 (en_queue e) -> eop_u32 o -> menv_apply L e g o = Ok (e', g', x) ->
  MInv (en_market e') /\ Forall mev_u32 (en_queue e').
Proof.
  intros Hm Hq Hu H. destruct o; cbn [menv_apply] in H.
  - unfold menv_place in H. destruct (nth_error (en_market e) a) as [b|] eqn:Hb; [|discriminate].
    destruct (create_order b sd vol trader price) as [b' c] eqn:Hc. destruct c as [id|pp tt].
    + destruct (upd_nth (en_market e) a (fun _ => Ok b')) as [m'|] eqn:Hup; [|discriminate]. cbn in H. inv H.
      cbn [en_market en_queue push_event set_market]. split.
      * eapply (upd_nth_Forall Inv); [|exact Hm|exact Hup]. intros y y' _ Hy. inv Hy.
        apply (create_order_inv b sd vol trader price y' (Created id)); [|destruct price; exact Hu|exact Hc].
        unfold MInv in Hm. rewrite Forall_forall in Hm. apply Hm. eapply nth_error_In; eassumption.
      * apply Forall_app. split; [assumption | constructor; [exact I | constructor]].
    + cbn in H. inv H. auto.
  - inv H. cbn [en_market en_queue push_event]. split; [assumption | apply Forall_app; split; [assumption | constructor; [exact I | constructor]]].
  - inv H. cbn [en_market en_queue push_event]. split; [assumption | apply Forall_app; split; [assumption | constructor; [|constructor]]].
    destruct np; exact Hu || exact I.
  - destruct (menv_step L e g) as [[e1 g1]|] eqn:Es; [|discriminate]. cbn in H. inv H.
    destruct (menv_step_inv L e g e' g' Hm Hq Es) as [A B]. split; [assumption | rewrite B; constructor].
  - inv H. cbn [en_market en_queue set_market]. split; [apply Forall_map_inv; [intros; apply set_trading_inv|]; assumption | assumption].
  - inv H. cbn [en_market en_queue set_market]. split; [apply Forall_map_inv; [intros; apply set_trading_inv|]; assumption | assumption].
  - destruct (nth_error (en_market e) a) as [b|] eqn:Hb; [|discriminate].
    destruct (step b o) as [[b' y]|] eqn:Es; [|discriminate]. cbn [rbind] in H.
    destruct (upd_nth (en_market e) a (fun _ => Ok b')) as [m'|] eqn:Hup; [|discriminate]. cbn in H. inv H.
    cbn [en_market en_queue set_market]. split; [|assumption].
    eapply (upd_nth_Forall Inv); [|exact Hm|exact Hup]. intros z z' _ Hz. inv Hz.
    eapply step_inv; [|exact Hu|exact Es]. unfold MInv in Hm. rewrite Forall_forall in Hm. apply Hm. eapply nth_error_In; eassumption.
  - inv H. cbn [en_market en_queue set_market]. split; [apply Forall_map_inv; [intros; apply set_time_inv|]; assumption | assumption].
  - inv H. cbn [en_market en_queue set_market]. split; [apply Forall_map_inv; [intros; apply reset_tvol_inv|]; assumption | assumption].
Qed.

(** hence, per asset: every view is the recomputation from that asset's order list, and a snapshot of
    the whole market (the array of the books' snapshots) restores the identical market *)
Theorem market_views_recomputed L m a b : MInv m -> nth_error m a = Some b ->
  observe L b = ref_observe_tbl L (b_t b) (b_tick b) (b_tvol b) (map e_order (b_orders b)) (b_trades b).
Proof.
  intros Hm Hn. unfold MInv in Hm. rewrite Forall_forall in Hm. destruct (Hm b (nth_error_In _ _ Hn)) as [Hq Hv].
  exact (observe_recomputed L b Hq Hv).
Qed.

Theorem market_reload_identity m : MInv m -> map (fun b => of_snapshot (to_snapshot b)) m = m.
Proof.
  intros Hm. induction Hm as [|b t Hb Ht IH]; [reflexivity|]. cbn [map]. rewrite IH.
  destruct Hb as [Hq Hv]. rewrite (reload_identity b Hq Hv). reflexivity.
Qed.
