(** * The trade ledger: every fill is logged once with positive volume between two
    orders on opposite sides whose limits admit the price, and every order's lost
    volume is the sum of its logged trades (reference engine, then the model) *)
From Bourse Require Import Model.Types Model.Map Model.Side Model.Book Model.Obs Spec.RefBook Spec.Monitors
  Proofs.Basic Proofs.MapLemmas Proofs.Ledger Proofs.Refine Proofs.Volumes Proofs.Views Proofs.Reload Proofs.PosVol Proofs.LifeRef.
From Coq Require Import ZifyBool ZifyNat ZifyN.

Local Arguments N.sub : simpl never.
Local Arguments N.add : simpl never.
Local Arguments N.eqb : simpl never.
Local Arguments N.leb : simpl never.
Local Arguments N.ltb : simpl never.
Local Arguments N.min : simpl never.

Definition passive_of (j : nat) (tr : trade) : bool := Nat.eqb (tr_passive tr) j.
Definition party_of (j : nat) (tr : trade) : bool := Nat.eqb (tr_active tr) j || Nat.eqb (tr_passive tr) j.
Definition pvol (j : nat) (new : list trade) : N := sumv (filter (passive_of j) new).
(** volume of the logged trades order [j] took part in *)
Definition traded (j : nat) (new : list trade) : N := sumv (filter (party_of j) new).

Lemma sumv_cons tr l : sumv (tr :: l) = tr_vol tr + sumv l.
Proof. reflexivity. Qed.

Lemma pvol_cons j tr l : pvol j (tr :: l) = (if Nat.eqb (tr_passive tr) j then tr_vol tr else 0) + pvol j l.
Proof. unfold pvol, passive_of. cbn [filter]. destruct (Nat.eqb (tr_passive tr) j); [rewrite sumv_cons|]; lia. Qed.

Lemma traded_all id new : Forall (fun tr => tr_active tr = id) new -> traded id new = sumv new.
Proof.
  induction 1 as [|tr l Htr Hl IH]; [reflexivity|]. unfold traded, party_of in *. cbn [filter].
  rewrite Htr, Nat.eqb_refl. cbn [orb]. rewrite !sumv_cons, IH. reflexivity.
Qed.

Lemma traded_passive id j new : Forall (fun tr => tr_active tr = id) new -> j <> id -> traded j new = pvol j new.
Proof.
  intros H Hne. induction H as [|tr l Htr Hl IH]; [reflexivity|]. unfold traded, pvol, party_of, passive_of in *. cbn [filter].
  rewrite Htr. replace (Nat.eqb id j) with false by (symmetry; apply Nat.eqb_neq; auto). cbn [orb].
  destruct (Nat.eqb (tr_passive tr) j); [rewrite !sumv_cons, IH; reflexivity | exact IH].
Qed.

Lemma admits_fields a a' p : o_side a' = o_side a -> o_price a' = o_price a -> admits a' p = admits a p.
Proof. unfold admits. intros -> ->. reflexivity. Qed.

(** one record of the walk, relative to the table the walk started from *)
Definition walk_trade (t : N) (agg : order) (tb : list order) (q : list nat) (tr : trade) : Prop :=
  0 < tr_vol tr /\ tr_t tr = t /\ tr_active tr = o_id agg /\ In (tr_passive tr) q /\ tr_side tr = opp (o_side agg) /\
  exists p, nth_error tb (tr_passive tr) = Some p /\ tr_price tr = o_price p /\ admits agg p = true.

Lemma ref_match_ledger t : forall q agg tb log tv agg' tb' q' log' tv',
  NoDup q ->
  (forall id, In id q -> exists p, nth_error tb id = Some p /\ o_id p = id /\ o_side p = opp (o_side agg) /\ 0 < o_vol p) ->
  ref_match t agg tb q log tv = (agg', tb', q', log', tv') ->
  exists new, log' = log ++ new /\ tv' = tv + sumv new /\
    Forall (walk_trade t agg tb q) new /\
    o_vol agg = o_vol agg' + sumv new /\
    (forall j a, nth_error tb j = Some a ->
       exists b, nth_error tb' j = Some b /\ o_vol a = o_vol b + pvol j new /\ o_price b = o_price a /\ o_side b = o_side a).
Proof.
  induction q as [|id q IH]; intros agg tb log tv agg' tb' q' log' tv' Hnd Hq H; cbn [ref_match] in H.
  - injection H as <- <- _ <- <-. exists []. rewrite app_nil_r. cbn. repeat split; auto; try lia.
    intros j a Hj. exists a. unfold pvol. cbn. repeat split; auto. lia.
  - destruct ((0 <? o_vol agg) && admits agg (oget tb id)) eqn:Eg.
    2:{ injection H as <- <- _ <- <-. exists []. rewrite app_nil_r. cbn. repeat split; auto; try lia.
        intros j a Hj. exists a. unfold pvol. cbn. repeat split; auto. lia. }
    apply andb_prop in Eg. destruct Eg as [Eg1 Eg2].
    destruct (Hq id (or_introl eq_refl)) as (p & Hp & Hpid & Hpsd & Hpv). rewrite (oget_nth _ _ _ Hp) in H, Eg2.
    destruct (match_orders t agg p) as [[[a2 p2] trd] v] eqn:Em.
    destruct (match_orders_trade _ _ _ _ _ _ _ Em) as (T1 & T2 & T3 & T4 & T5 & T6 & T7 & T8 & T9 & T10).
    destruct (match_orders_fill _ _ _ _ _ _ _ Em) as [(A1 & _ & _ & _ & A5 & _) (P1 & _ & _ & _ & P5 & _)].
    assert (Hlt : (id < length tb)%nat) by (apply nth_error_Some; congruence).
    apply NoDup_cons_iff in Hnd. destruct Hnd as [Hnin Hnd'].
    assert (Hv : 0 < v /\ v <= o_vol agg /\ v <= o_vol p) by lia.
    assert (Htr : walk_trade t agg tb (id :: q) trd).
    { unfold walk_trade. rewrite T1, T2, T3, T4, T5, T6, Hpid. repeat split; try lia; auto; [left; reflexivity|].
      exists p. rewrite Hp. auto. }
    assert (Hone : forall j a, nth_error tb j = Some a ->
              exists b, nth_error (set_nth tb id p2) j = Some b /\ o_vol a = o_vol b + pvol j [trd] /\ o_price b = o_price a /\ o_side b = o_side a).
    { intros j a Hj. rewrite pvol_cons, T3, Hpid, T4. unfold pvol; cbn [filter sumv fold_right].
      destruct (Nat.eq_dec id j) as [<-|Hne].
      - exists p2. rewrite nth_error_set_nth_eq by assumption. assert (a = p) by congruence; subst a.
        rewrite Nat.eqb_refl. repeat split; auto; lia.
      - exists a. rewrite nth_error_set_nth_neq by assumption.
        replace (Nat.eqb id j) with false by (symmetry; apply Nat.eqb_neq; auto). repeat split; auto; lia. }
    destruct (o_vol p2 =? 0).
    + assert (Hq' : forall id', In id' q -> exists p', nth_error (set_nth tb id p2) id' = Some p' /\ o_id p' = id' /\ o_side p' = opp (o_side a2) /\ 0 < o_vol p').
      { intros id' Hin. destruct (Hq id' (or_intror Hin)) as (p' & Hp' & Hs'). exists p'.
        rewrite nth_error_set_nth_neq; [rewrite A1; auto | intros ->; contradiction]. }
      destruct (IH _ _ _ _ _ _ _ _ _ Hnd' Hq' H) as (new1 & L1 & V1 & F1 & S1 & R1).
      exists (trd :: new1). rewrite L1, V1, <- app_assoc. cbn [app]. rewrite sumv_cons, T4. repeat split; try lia.
      * constructor; [assumption|]. eapply Forall_impl; [|exact F1].
        intros tr (W1 & W2 & W3 & W4 & W5 & p' & W6 & W7 & W8). unfold walk_trade. rewrite W3, W5, T8, A1.
        repeat split; auto; [right; assumption|]. exists p'.
        rewrite nth_error_set_nth_neq in W6 by (intros ->; contradiction).
        rewrite (admits_fields agg a2 p' A1 A5) in W8. auto.
      * intros j a Hj. destruct (Hone j a Hj) as (b1 & Hb1 & Vb1 & Pb1 & Sb1).
        destruct (R1 j b1 Hb1) as (b & Hb & Vb & Pb & Sb). exists b. rewrite pvol_cons in *.
        unfold pvol in Vb1; cbn [filter] in Vb1. unfold passive_of in Vb1.
        destruct (Nat.eqb (tr_passive trd) j); cbn [sumv fold_right] in Vb1; repeat split; try congruence; lia.
    + injection H as <- <- _ <- <-. exists [trd]. cbn [sumv fold_right]. rewrite T4. repeat split; try lia.
      * constructor; [assumption | constructor].
      * exact Hone.
Qed.

Lemma ref_match_agg_fields t : forall q agg tb log tv agg' tb' q' log' tv',
  ref_match t agg tb q log tv = (agg', tb', q', log', tv') ->
  o_side agg' = o_side agg /\ o_price agg' = o_price agg /\ o_id agg' = o_id agg.
Proof.
  induction q as [|id q IH]; intros agg tb log tv agg' tb' q' log' tv' H; cbn [ref_match] in H.
  - injection H as <- _ _ _ _. auto.
  - destruct ((0 <? o_vol agg) && admits agg (oget tb id)); [|injection H as <- _ _ _ _; auto].
    destruct (match_orders t agg (oget tb id)) as [[[a2 p2] trd] v] eqn:Em.
    destruct (match_orders_fill _ _ _ _ _ _ _ Em) as [(A1 & _ & A3 & _ & A5 & _) _].
    destruct (o_vol p2 =? 0).
    + destruct (IH _ _ _ _ _ _ _ _ _ H) as (B1 & B2 & B3). repeat split; congruence.
    + injection H as <- _ _ _ _. auto.
Qed.

(** ** Queues: Active orders of that side, once each, stored under their own id, positive volume *)
Definition q_ok2 (r : rbook) : Prop :=
  forall sd, NoDup (rq r sd) /\
    forall id, In id (rq r sd) -> exists p, nth_error (r_orders r) id = Some p /\ o_id p = id /\ o_side p = sd /\ 0 < o_vol p.
Definition ids_ok (tb : list order) : Prop := forall i o, nth_error tb i = Some o -> o_id o = i.

Lemma q_ok2_abs s : InvQ None s -> posvol_tbl (tbl s) -> q_ok2 (abs s).
Proof.
  intros Hinv Hpv sd. rewrite rq_abs. pose proof (side_ok_get s sd Hinv) as Hok. split.
  - eapply side_ok_nodup; eassumption.
  - intros id Hin. destruct (in_qof_side _ _ _ _ Hok Hin) as (e & Hn & Hsd & Hst & _).
    assert (Hnt : nth_error (tbl s) id = Some (e_order e)) by (unfold tbl; rewrite nth_error_map, Hn; reflexivity).
    exists (e_order e). cbn [abs r_orders]. destruct Hinv as (_ & _ & Hwf & _). destruct (Hwf _ _ Hn) as (Wid & _).
    repeat split; auto. destruct (Hpv _ _ Hnt) as [P|P]; [exact P|]. exfalso. apply P. right. assumption.
Qed.

Lemma ids_ok_abs s : InvQ None s -> ids_ok (tbl s).
Proof. intros (_ & _ & Hwf & _) i o. apply table_ids. assumption. Qed.

(** a logged trade, read against the order list after the operation *)
Definition trade_ok (t : N) (tb' : list order) (tr : trade) : Prop :=
  0 < tr_vol tr /\ tr_t tr = t /\ tr_active tr <> tr_passive tr /\
  exists ag ps, nth_error tb' (tr_active tr) = Some ag /\ nth_error tb' (tr_passive tr) = Some ps /\
    o_side ps = opp (o_side ag) /\ tr_side tr = o_side ps /\ tr_price tr = o_price ps /\ admits ag ps = true.

Lemma admits_pass a p p' : o_price p' = o_price p -> admits a p' = admits a p.
Proof. unfold admits. intros ->. reflexivity. Qed.

Lemma arrival_ledger t tb q agg id a1 tb1 q1 log log1 tv tv1 oF :
  NoDup q ->
  (forall i, In i q -> exists p, nth_error tb i = Some p /\ o_id p = i /\ o_side p = opp (o_side agg) /\ 0 < o_vol p) ->
  o_id agg = id -> ~ In id q -> (id < length tb)%nat ->
  ref_match t agg tb q log tv = (a1, tb1, q1, log1, tv1) ->
  o_vol oF = o_vol a1 -> o_side oF = o_side agg -> o_price oF = o_price agg ->
  exists new, log1 = log ++ new /\ tv1 = tv + sumv new /\ Forall (trade_ok t (set_nth tb1 id oF)) new /\
    o_vol agg = o_vol oF + traded id new /\
    (forall j a, j <> id -> nth_error tb j = Some a ->
       exists b, nth_error (set_nth tb1 id oF) j = Some b /\ o_vol a = o_vol b + traded j new) /\
    (exists b, nth_error (set_nth tb1 id oF) id = Some b /\ b = oF).
Proof.
  intros Hnd Hq Hid Hnin Hlt H Hv Hs Hp.
  destruct (ref_match_ledger t q agg tb log tv a1 tb1 q1 log1 tv1 Hnd Hq H) as (new & L & V & F & S & R).
  assert (Hact : Forall (fun tr => tr_active tr = id) new).
  { eapply Forall_impl; [|exact F]. intros tr (_ & _ & W & _). congruence. }
  assert (Hlt1 : (id < length tb1)%nat).
  { destruct (nth_error tb id) as [a0|] eqn:E0; [|apply nth_error_None in E0; lia].
    destruct (R id a0 E0) as (b & Hb & _). apply nth_error_Some. congruence. }
  exists new. repeat split; auto.
  - eapply Forall_impl; [|exact F]. intros tr (W1 & W2 & W3 & W4 & W5 & p & W6 & W7 & W8).
    assert (Hne : tr_passive tr <> id) by (intros C; rewrite C in W4; contradiction).
    destruct (R _ _ W6) as (b & Hb & _ & Pb & Sb). destruct (Hq _ W4) as (p' & Hp' & _ & Hsd' & _).
    assert (p' = p) by congruence; subst p'.
    unfold trade_ok. rewrite W3, Hid. repeat split; auto.
    exists oF, b. rewrite nth_error_set_nth_eq by assumption. rewrite nth_error_set_nth_neq by auto.
    repeat split; auto; try congruence.
    rewrite (admits_pass _ p b Pb), (admits_fields agg oF p Hs Hp). assumption.
  - rewrite (traded_all id new Hact). lia.
  - intros j a Hne Hj. destruct (R j a Hj) as (b & Hb & Vb & _). exists b.
    rewrite nth_error_set_nth_neq by auto. rewrite (traded_passive id j new Hact Hne). auto.
  - exists oF. rewrite nth_error_set_nth_eq by assumption. auto.
Qed.

(** what one operation does to the log and to every order's volume: [base j a] is the volume from
    which order [j]'s trades of this operation are subtracted *)
Definition ledger_rel (t : N) (tb tb' : list order) (new : list trade) (base : nat -> order -> N) : Prop :=
  Forall (trade_ok t tb') new /\
  forall j a, nth_error tb j = Some a -> exists b, nth_error tb' j = Some b /\ base j a = o_vol b + traded j new.

Lemma ledger_rel_nil t tb : ledger_rel t tb tb [] (fun _ a => o_vol a).
Proof. split; [constructor|]. intros j a Hj. exists a. split; [assumption | unfold traded; cbn; lia]. Qed.

Lemma opp_neq sd : opp sd <> sd.
Proof. destruct sd; discriminate. Qed.

(** an order [o0] with the identity of table entry [id] arrives (the table entry itself is stale and
    overwritten at the end by [fin o1]) *)
Lemma arrive_ledger r o0 id a_old (fin : order -> order) r1 o1 :
  q_ok2 r -> nth_error (r_orders r) id = Some a_old -> o_side a_old = o_side o0 -> o_id o0 = id ->
  (forall x, o_vol (fin x) = o_vol x /\ o_side (fin x) = o_side x /\ o_price (fin x) = o_price x) ->
  ref_arrive r o0 = (r1, o1) ->
  exists new, r_trades r1 = r_trades r ++ new /\ r_tvol r1 = r_tvol r + sumv new /\
    ledger_rel (r_t r) (r_orders r) (set_nth (r_orders r1) id (fin o1)) new
      (fun j a => if Nat.eqb j id then o_vol o0 else o_vol a).
Proof.
  intros Hq Hn Hsd Hid Hfin H. unfold ref_arrive in H.
  assert (Hlt : (id < length (r_orders r))%nat) by (apply nth_error_Some; congruence).
  destruct (r_trading r).
  - destruct (ref_match (r_t r) o0 (r_orders r) (rq r (opp (o_side o0))) (r_trades r) (r_tvol r)) as [[[[a1 tb1] oq] lg] tv1] eqn:Em.
    destruct (Hq (opp (o_side o0))) as [Hnd Hact].
    assert (Hnin : ~ In id (rq r (opp (o_side o0)))).
    { intros C. destruct (Hact id C) as (p & Hp & _ & Hps & _). assert (p = a_old) by congruence; subst p.
      rewrite Hsd in Hps. exact (opp_neq _ (eq_sym Hps)). }
    assert (Hq' : forall i, In i (rq r (opp (o_side o0))) -> exists p, nth_error (r_orders r) i = Some p /\ o_id p = i /\ o_side p = opp (o_side o0) /\ 0 < o_vol p)
      by (intros i Hi; destruct (Hact i Hi) as (p & A & B & C & D); exists p; auto).
    assert (Hr1 : r_orders r1 = tb1 /\ r_trades r1 = lg /\ r_tvol r1 = tv1 /\ o1 = a1).
    { destruct (status_eqb (o_status a1) SFilled); injection H as <- <-; destruct (o_side o0), (o_side a1); cbn; auto. }
    destruct Hr1 as (E1 & E2 & E3 & E4). subst o1. rewrite E1, E2, E3.
    destruct (Hfin a1) as (F1 & F2 & F3).
    destruct (ref_match_agg_fields (r_t r) _ _ _ _ _ _ _ _ _ _ Em) as (Ws & Wp & _).
    destruct (arrival_ledger (r_t r) (r_orders r) _ o0 id a1 tb1 oq (r_trades r) lg (r_tvol r) tv1 (fin a1)
                Hnd Hq' Hid Hnin Hlt Em F1 (eq_trans F2 Ws) (eq_trans F3 Wp)) as (new & L & V & F & S & R & (b0 & Hb0 & Eb0)).
    exists new. split; [assumption|]. split; [assumption|]. split; [assumption|].
    intros j a Hj. destruct (Nat.eq_dec j id) as [->|Hne].
    + rewrite Nat.eqb_refl. exists b0. subst b0. split; [assumption | exact S].
    + replace (Nat.eqb j id) with false by (symmetry; apply Nat.eqb_neq; auto). apply R; assumption.
  - assert (Hr1 : r_orders r1 = r_orders r /\ r_trades r1 = r_trades r /\ r_tvol r1 = r_tvol r /\ o1 = o0).
    { destruct (status_eqb (o_status o0) SFilled); injection H as <- <-; destruct (o_side o0); cbn; auto. }
    destruct Hr1 as (E1 & E2 & E3 & E4). subst o1. rewrite E1, E2, E3. exists []. rewrite app_nil_r. cbn [sumv fold_right].
    split; [reflexivity|]. split; [lia|]. split; [constructor|].
    intros j a Hj. unfold traded; cbn [filter sumv fold_right]. destruct (Nat.eq_dec j id) as [->|Hne].
    + rewrite Nat.eqb_refl. exists (fin o0). rewrite nth_error_set_nth_eq by assumption. destruct (Hfin o0) as (F1 & _). split; [reflexivity | lia].
    + replace (Nat.eqb j id) with false by (symmetry; apply Nat.eqb_neq; auto). exists a. rewrite nth_error_set_nth_neq by auto. split; [assumption | lia].
Qed.

(** ** Operations *)
Definition is_vol_modify (o : op) (j : nat) (v : N) : Prop :=
  match o with
  | OModify id _ (Some v') | OEvent (EvModify id _ (Some v')) => id = j /\ v' = v
  | _ => False
  end.

(** the ledger across one operation [o]: every new record is well-formed against the order list
    after the operation, and for every order: volume before = volume after + its trades of this
    operation, unless [o] explicitly sets that order's volume, in which case the requested volume
    takes the place of the volume before *)
Definition ledger_audit (o : op) (t : N) (tb tb' : list order) (new : list trade) : Prop :=
  Forall (trade_ok t tb') new /\
  forall j a, nth_error tb j = Some a ->
    exists b, nth_error tb' j = Some b /\
      (o_vol a = o_vol b + traded j new \/ is_vol_modify o j (o_vol b + traded j new)).

Lemma ledger_audit_of_rel o t tb tb' new :
  ledger_rel t tb tb' new (fun _ a => o_vol a) -> ledger_audit o t tb tb' new.
Proof. intros [F R]. split; [assumption|]. intros j a Hj. destruct (R j a Hj) as (b & Hb & E). exists b. auto. Qed.

Lemma ledger_audit_nil o t tb : ledger_audit o t tb tb [].
Proof. apply ledger_audit_of_rel, ledger_rel_nil. Qed.

Lemma ledger_rel_replace_entry t tb id a0 b0 :
  nth_error tb id = Some a0 -> o_vol b0 = o_vol a0 -> ledger_rel t tb (set_nth tb id b0) [] (fun _ a => o_vol a).
Proof.
  intros Hn Hv. split; [constructor|]. intros j a Hj. unfold traded; cbn [filter sumv fold_right].
  destruct (Nat.eq_dec id j) as [<-|Hne].
  - exists b0. rewrite nth_error_set_nth_eq by (apply nth_error_Some; congruence). assert (a = a0) by congruence; subst a. split; [reflexivity | lia].
  - exists a. rewrite nth_error_set_nth_neq by assumption. split; [assumption | lia].
Qed.

Lemma ref_arrive_of_match r o0 a1 tb oq lg tv :
  r_trading r = true ->
  ref_match (r_t r) o0 (r_orders r) (rq r (opp (o_side o0))) (r_trades r) (r_tvol r) = (a1, tb, oq, lg, tv) ->
  exists r1, ref_arrive r o0 = (r1, a1) /\ r_orders r1 = tb /\ r_trades r1 = lg /\ r_tvol r1 = tv.
Proof.
  intros Htr Em. unfold ref_arrive. rewrite Htr, Em.
  destruct (status_eqb (o_status a1) SFilled); eexists; (split; [reflexivity|]); destruct (o_side o0), (o_side a1); cbn; auto.
Qed.

Lemma ref_place_ledger r id r' : q_ok2 r -> ids_ok (r_orders r) -> ref_place r id = Some r' ->
  exists new, r_trades r' = r_trades r ++ new /\ ledger_rel (r_t r) (r_orders r) (r_orders r') new (fun _ a => o_vol a).
Proof.
  intros Hq Hids H. unfold ref_place in H. destruct (nth_error (r_orders r) id) as [o|] eqn:Hn; [|discriminate].
  destruct (negb (status_eqb (o_status o) SNew)).
  { injection H as <-. exists []. rewrite app_nil_r. split; [reflexivity | apply ledger_rel_nil]. }
  set (o0 := set_arr (set_status o SActive) (r_t r)) in *.
  assert (Hid0 : o_id o0 = id) by (apply (Hids _ _ Hn)).
  assert (Hconv : forall new tbF, ledger_rel (r_t r) (r_orders r) tbF new (fun j a => if Nat.eqb j id then o_vol o0 else o_vol a) ->
                                  ledger_rel (r_t r) (r_orders r) tbF new (fun _ a => o_vol a)).
  { intros new tbF [F R]. split; [assumption|]. intros j a Hj. destruct (R j a Hj) as (b & Hb & E). exists b. split; [assumption|].
    destruct (Nat.eqb j id) eqn:Ej; [|assumption]. apply Nat.eqb_eq in Ej. subst j. assert (a = o) by congruence; subst a. exact E. }
  destruct (is_market o0).
  - destruct (r_trading r) eqn:Htr.
    + destruct (ref_match (r_t r) o0 (r_orders r) (rq r (opp (o_side o0))) (r_trades r) (r_tvol r)) as [[[[a1 tb] oq] lg] tv] eqn:Em.
      destruct (ref_arrive_of_match r o0 a1 tb oq lg tv Htr Em) as (r1 & Ea & E1 & E2 & E3).
      set (fin := fun x : order => if status_eqb (o_status x) SFilled then x else set_end (set_status x SCancelled) (r_t r)).
      destruct (arrive_ledger r o0 id o fin r1 a1 Hq Hn eq_refl Hid0) as (new & L & V & Rel); [|exact Ea|].
      { intros x. unfold fin. destruct (status_eqb (o_status x) SFilled); cbn; auto. }
      injection H as <-. cbn [r_orders set_rorders r_trades]. rewrite r_orders_set_rq. cbn [r_orders].
      assert (Etr : forall rr sd q, r_trades (set_rq rr sd q) = r_trades rr) by (intros ? [] ?; reflexivity).
      rewrite Etr. cbn [r_trades]. exists new. rewrite <- E2. split; [assumption|]. apply Hconv. rewrite <- E1. exact Rel.
    + injection H as <-. cbn [r_orders set_rorders r_trades]. exists []. rewrite app_nil_r. split; [reflexivity|].
      eapply ledger_rel_replace_entry; [exact Hn | reflexivity].
  - destruct (ref_arrive r o0) as [r1 o1] eqn:Ea.
    destruct (arrive_ledger r o0 id o (fun x => x) r1 o1 Hq Hn eq_refl Hid0) as (new & L & V & Rel); [auto | exact Ea |].
    injection H as <-. cbn [r_orders set_rorders r_trades]. exists new. split; [assumption|]. apply Hconv. exact Rel.
Qed.

Lemma ref_cancel_ledger r id r' : ref_cancel r id = Some r' ->
  r_trades r' = r_trades r /\ ledger_rel (r_t r) (r_orders r) (r_orders r') [] (fun _ a => o_vol a).
Proof.
  intros H. unfold ref_cancel in H. destruct (nth_error (r_orders r) id) as [o|] eqn:Hn; [|discriminate].
  destruct (status_eqb (o_status o) SActive); injection H as <-.
  - rewrite r_orders_set_rq. split; [destruct (o_side o); reflexivity|]. cbn [r_orders set_rorders].
    eapply ledger_rel_replace_entry; [exact Hn | reflexivity].
  - split; [reflexivity | apply ledger_rel_nil].
Qed.

Lemma q_ok2_remove r sd id : q_ok2 r -> q_ok2 (set_rq r sd (remove_id id (rq r sd))).
Proof.
  intros Hq sd'. assert (Hsub : forall q, NoDup q -> NoDup (remove_id id q) /\ forall x, In x (remove_id id q) -> In x q).
  { induction q as [|h q IH]; intros Hnd; cbn [remove_id]; [split; [constructor | auto]|].
    inversion Hnd as [|? ? Hh Hnd']; subst. destruct (IH Hnd') as [I1 I2].
    destruct (Nat.eqb h id); [split; [assumption | intros x Hx; right; assumption]|].
    split; [constructor; [intros C; apply Hh; apply I2; assumption | assumption]|].
    intros x [->|Hx]; [left; reflexivity | right; apply I2; assumption]. }
  destruct (Hq sd') as [Hnd Hact]. rewrite r_orders_set_rq.
  destruct sd, sd'; cbn [set_rq rq r_bidq r_askq] in *; try (split; assumption);
    destruct (Hsub _ Hnd) as [I1 I2]; (split; [assumption | intros x Hx; apply Hact; apply I2; assumption]).
Qed.

Lemma ref_replace_ledger r id o p v : q_ok2 r -> ids_ok (r_orders r) -> nth_error (r_orders r) id = Some o ->
  exists new, r_trades (ref_replace r id o p v) = r_trades r ++ new /\
    ledger_rel (r_t r) (r_orders r) (r_orders (ref_replace r id o p v)) new (fun j a => if Nat.eqb j id then v else o_vol a).
Proof.
  intros Hq Hids Hn. unfold ref_replace.
  set (r0 := set_rq r (o_side o) (remove_id id (rq r (o_side o)))).
  assert (Hq0 : q_ok2 r0) by (apply q_ok2_remove; assumption).
  assert (Ho0 : r_orders r0 = r_orders r) by apply r_orders_set_rq.
  assert (Ht0 : r_t r0 = r_t r) by (unfold r0; destruct (o_side o); reflexivity).
  assert (Htr0 : r_trades r0 = r_trades r) by (unfold r0; destruct (o_side o); reflexivity).
  destruct (ref_arrive r0 (set_price (set_vol o v) p)) as [r1 o1] eqn:Ea.
  destruct (arrive_ledger r0 (set_price (set_vol o v) p) id o (fun x => x) r1 o1 Hq0) as (new & L & V & Rel);
    [rewrite Ho0; exact Hn | reflexivity | apply (Hids _ _ Hn) | auto | exact Ea |].
  rewrite Ho0, Ht0, Htr0 in *. cbn [r_orders set_rorders r_trades]. exists new. split; [assumption | exact Rel].
Qed.

Lemma ref_modify_ledger r id np nv r' : q_ok2 r -> ids_ok (r_orders r) -> ref_modify r id np nv = Some r' ->
  exists new, r_trades r' = r_trades r ++ new /\ ledger_audit (OModify id np nv) (r_t r) (r_orders r) (r_orders r') new.
Proof.
  intros Hq Hids H. unfold ref_modify in H. destruct (nth_error (r_orders r) id) as [o|] eqn:Hn; [|discriminate].
  assert (Hnil : exists new, r_trades r = r_trades r ++ new /\ ledger_audit (OModify id np nv) (r_t r) (r_orders r) (r_orders r) new)
    by (exists []; rewrite app_nil_r; split; [reflexivity | apply ledger_audit_nil]).
  destruct (match np with Some p => negb (p mod r_tick r =? 0) | None => false end); [injection H as <-; exact Hnil|].
  destruct (negb (status_eqb (o_status o) SActive)); [injection H as <-; exact Hnil|].
  assert (Hrep : forall p v, (v = o_vol o \/ nv = Some v) ->
            exists new, r_trades (ref_replace r id o p v) = r_trades r ++ new /\
                        ledger_audit (OModify id np nv) (r_t r) (r_orders r) (r_orders (ref_replace r id o p v)) new).
  { intros p v Hv. destruct (ref_replace_ledger r id o p v Hq Hids Hn) as (new & L & F & R). exists new. split; [assumption|].
    split; [assumption|]. intros j a Hj. destruct (R j a Hj) as (b & Hb & E). exists b. split; [assumption|].
    destruct (Nat.eqb j id) eqn:Ej; [|left; assumption]. apply Nat.eqb_eq in Ej. subst j. assert (a = o) by congruence; subst a.
    destruct Hv as [->| ->]; [left; assumption | right; cbn; split; [reflexivity | assumption]]. }
  destruct np as [p|], nv as [v|]; try (injection H as <-); try (apply Hrep; auto; fail); try exact Hnil.
  destruct (v <? o_vol o); injection H as <-; [|apply Hrep; auto].
  cbn [r_orders set_rorders r_trades]. exists []. rewrite app_nil_r. split; [reflexivity|]. split; [constructor|].
  intros j a Hj. unfold traded; cbn [filter sumv fold_right]. destruct (Nat.eq_dec id j) as [<-|Hne].
  - exists (set_vol o v). rewrite nth_error_set_nth_eq by (apply nth_error_Some; congruence). split; [reflexivity|].
    right. cbn. split; [reflexivity | lia].
  - exists a. rewrite nth_error_set_nth_neq by assumption. split; [assumption | left; lia].
Qed.

Lemma ref_create_more r sd v tr p r' c :
  ref_create r sd v tr p = (r', c) -> r_trades r' = r_trades r /\ r_tvol r' = r_tvol r.
Proof. unfold ref_create. intros H. destruct p as [p|]; [destruct (p mod r_tick r =? 0)|]; injection H as <- _; auto. Qed.

Lemma q_ok2_create r sd v tr p r' c : q_ok2 r -> ref_create r sd v tr p = (r', c) -> q_ok2 r'.
Proof.
  intros Hq H. destruct (ref_create_life _ _ _ _ _ _ _ H) as (Hsame & Eb & Ea & _). intros sd'.
  destruct (Hq sd') as [Hnd Hact]. assert (E : rq r' sd' = rq r sd') by (destruct sd'; assumption). rewrite E.
  split; [assumption|]. intros id Hin. destruct (Hact id Hin) as (p0 & Hp0 & Hs0). exists p0. auto.
Qed.

Lemma ids_ok_create r sd v tr p r' c : ids_ok (r_orders r) -> ref_create r sd v tr p = (r', c) -> ids_ok (r_orders r').
Proof.
  intros Hids H. unfold ref_create in H.
  assert (Hmk : forall px, ids_ok (r_orders r ++ [mkOrder sd SNew (r_t r) MAXT v v px tr (length (r_orders r))])).
  { intros px i o Hi. destruct (Nat.lt_ge_cases i (length (r_orders r))) as [Hlt|Hge].
    - rewrite nth_error_app1 in Hi by assumption. apply Hids; assumption.
    - rewrite nth_error_app2 in Hi by assumption. destruct (i - length (r_orders r))%nat as [|k] eqn:Ek; [|destruct k; discriminate].
      cbn in Hi. injection Hi as <-. cbn. lia. }
  destruct p as [p|]; [destruct (p mod r_tick r =? 0)|]; injection H as <- _; cbn [r_orders set_rorders]; auto.
Qed.

Definition req_vol (o : op) : N := match o with OCreate _ v _ _ | OCreatePlace _ v _ _ => v | _ => 0 end.

Theorem ref_step_ledger r o r' x : q_ok2 r -> ids_ok (r_orders r) -> ref_step r o = Some (r', x) ->
  exists new, r_trades r' = r_trades r ++ new /\ ledger_audit o (r_t r) (r_orders r) (r_orders r') new /\
    (forall id, x = OCreated (Created id) ->
       exists b, nth_error (r_orders r') id = Some b /\ req_vol o = o_vol b + traded id new).
Proof.
  intros Hq Hids H.
  assert (Hnil : forall r2 y, r_trades r2 = r_trades r -> r_orders r2 = r_orders r -> y = ONone ->
            exists new, r_trades r2 = r_trades r ++ new /\ ledger_audit o (r_t r) (r_orders r) (r_orders r2) new /\
              (forall id, y = OCreated (Created id) -> exists b, nth_error (r_orders r2) id = Some b /\ req_vol o = o_vol b + traded id new)).
  { intros r2 y E1 E2 ->. exists []. rewrite app_nil_r, E2. split; [assumption|]. split; [apply ledger_audit_nil | intros id C; discriminate]. }
  assert (Hplace : forall id r2, ref_place r id = Some r2 ->
            exists new, r_trades r2 = r_trades r ++ new /\ ledger_audit o (r_t r) (r_orders r) (r_orders r2) new /\
              (forall id', ONone = OCreated (Created id') -> exists b, nth_error (r_orders r2) id' = Some b /\ req_vol o = o_vol b + traded id' new)).
  { intros id r2 Ep. destruct (ref_place_ledger r id r2 Hq Hids Ep) as (new & L & Rel). exists new. split; [assumption|].
    split; [apply ledger_audit_of_rel; assumption | intros id' C; discriminate]. }
  assert (Hcancel : forall id r2, ref_cancel r id = Some r2 ->
            exists new, r_trades r2 = r_trades r ++ new /\ ledger_audit o (r_t r) (r_orders r) (r_orders r2) new /\
              (forall id', ONone = OCreated (Created id') -> exists b, nth_error (r_orders r2) id' = Some b /\ req_vol o = o_vol b + traded id' new)).
  { intros id r2 Ep. destruct (ref_cancel_ledger r id r2 Ep) as (L & Rel). exists []. rewrite app_nil_r. split; [assumption|].
    split; [apply ledger_audit_of_rel; assumption | intros id' C; discriminate]. }
  destruct o; cbn [ref_step] in H.
  - destruct (ref_create r sd vol trader price) as [r1 c] eqn:E. injection H as <- <-.
    destruct (ref_create_life _ _ _ _ _ _ _ E) as (Hsame & _ & _ & _ & _ & Hc). destruct (ref_create_more _ _ _ _ _ _ _ E) as [Et _].
    exists []. rewrite app_nil_r. split; [assumption|]. split.
    + split; [constructor|]. intros j a Hj. exists a. split; [apply Hsame; assumption | left; unfold traded; cbn; lia].
    + intros id C. injection C as ->. destruct Hc as [_ Hn]. eexists. split; [exact Hn|]. unfold traded; cbn. lia.
  - destruct (ref_create r sd vol trader price) as [r1 c] eqn:E.
    destruct (ref_create_life _ _ _ _ _ _ _ E) as (Hsame & _ & _ & Et1 & _ & Hc). destruct (ref_create_more _ _ _ _ _ _ _ E) as [Et _].
    pose proof (q_ok2_create _ _ _ _ _ _ _ Hq E) as Hq1. pose proof (ids_ok_create _ _ _ _ _ _ _ Hids E) as Hids1.
    destruct c as [id|p t].
    + destruct (ref_place r1 id) as [r2|] eqn:Ep; [|discriminate]. cbn in H. injection H as <- <-.
      destruct (ref_place_ledger r1 id r2 Hq1 Hids1 Ep) as (new & L & F & R). rewrite Et, Et1 in *. exists new. split; [assumption|]. split.
      * split; [assumption|]. intros j a Hj. destruct (R j a (Hsame j a Hj)) as (b & Hb & Eb). exists b. auto.
      * intros id' C. injection C as <-. destruct Hc as [_ Hn]. destruct (R _ _ Hn) as (b & Hb & Eb). exists b. split; [assumption | exact Eb].
    + injection H as <- <-. destruct Hc. exists []. rewrite app_nil_r. split; [reflexivity|]. split; [apply ledger_audit_nil | intros id C; discriminate].
  - destruct (ref_place r id) as [r2|] eqn:Ep; [|discriminate]. cbn in H. injection H as <- <-. apply (Hplace id); assumption.
  - destruct (ref_cancel r id) as [r2|] eqn:Ep; [|discriminate]. cbn in H. injection H as <- <-. apply (Hcancel id); assumption.
  - destruct (ref_modify r id new_price new_vol) as [r2|] eqn:Ep; [|discriminate]. cbn in H. injection H as <- <-.
    destruct (ref_modify_ledger r id new_price new_vol r2 Hq Hids Ep) as (new & L & Rel). exists new. split; [assumption|].
    split; [assumption | intros id' C; discriminate].
  - destruct ev; cbn in H.
    + destruct (ref_place r id) as [r2|] eqn:Ep; [|discriminate]. cbn in H. injection H as <- <-. apply (Hplace id); assumption.
    + destruct (ref_cancel r id) as [r2|] eqn:Ep; [|discriminate]. cbn in H. injection H as <- <-. apply (Hcancel id); assumption.
    + destruct (ref_modify r id new_price new_vol) as [r2|] eqn:Ep; [|discriminate]. cbn in H. injection H as <- <-.
      destruct (ref_modify_ledger r id new_price new_vol r2 Hq Hids Ep) as (new & L & F & R). exists new. split; [assumption|].
      split; [split; [assumption|] | intros id' C; discriminate].
      intros j a Hj. destruct (R j a Hj) as (b & Hb & Eb). exists b. split; [assumption|]. exact Eb.
  - injection H as <- <-. apply Hnil; reflexivity.
  - injection H as <- <-. apply Hnil; reflexivity.
  - injection H as <- <-. apply Hnil; reflexivity.
  - injection H as <- <-. apply Hnil; reflexivity.
  - injection H as <- <-. apply Hnil; reflexivity.
Qed.

(** ** The model *)
Theorem step_raw_ledger s o s' x :
  Inv s -> posvol_tbl (tbl s) -> op_u32 o -> step_raw s o = Ok (s', x) ->
  exists new, b_trades s' = b_trades s ++ new /\ ledger_audit o (b_t s) (tbl s) (tbl s') new /\
    (forall id, x = OCreated (Created id) ->
       exists b, nth_error (tbl s') id = Some b /\ req_vol o = o_vol b + traded id new).
Proof.
  intros Hinv Hpv Hu H. destruct (step_raw_inv_all s o s' x Hinv Hu H) as [R _].
  exact (ref_step_ledger (abs s) o (abs s') x (q_ok2_abs s (proj1 Hinv) Hpv) (ids_ok_abs s (proj1 Hinv)) R).
Qed.

Lemma traded_app j a b : traded j (a ++ b) = traded j a + traded j b.
Proof. unfold traded. rewrite filter_app, sumv_app. reflexivity. Qed.

Definition vol_modifies (j : nat) (o : op) : Prop := exists v, is_vol_modify o j v.

(** over any history: what an order still holds plus everything the log says it traded is constant,
    as long as no request sets its volume explicitly *)
Theorem run_conservation ops : forall s s' xs,
  Inv s -> posvol_tbl (tbl s) -> Forall op_u32 ops -> Forall op_vols ops -> run_outs s ops = Ok (s', xs) ->
  forall j a, nth_error (tbl s) j = Some a -> Forall (fun o => ~ vol_modifies j o) ops ->
    exists b, nth_error (tbl s') j = Some b /\ o_vol a + traded j (b_trades s) = o_vol b + traded j (b_trades s').
Proof.
  induction ops as [|o r IH]; intros s s' xs Hinv Hpv Hu Hvo H j a Hj Hnm; cbn in H.
  - injection H as <- _. exists a. auto.
  - unfold step in H. destruct (step_raw s o) as [[s1 x]|] eqn:E; [|discriminate]. cbn in H.
    destruct (bounded s1); [|discriminate]. cbn in H.
    destruct (run_outs s1 r) as [[s2 xs2]|] eqn:E2; [|discriminate]. cbn in H. injection H as <- _.
    inversion Hu as [|? ? Hu1 Hu2]; subst. inversion Hvo as [|? ? Hv1 Hv2]; subst. inversion Hnm as [|? ? Hn1 Hn2]; subst.
    destruct (step_raw_inv_all s o s1 x Hinv Hu1 E) as [R Hinv1].
    assert (Hpv1 : posvol_tbl (tbl s1)) by exact (ref_step_pos _ _ _ _ R Hv1 Hpv).
    destruct (step_raw_ledger s o s1 x Hinv Hpv Hu1 E) as (new & L & (_ & Rel) & _).
    destruct (Rel j a Hj) as (b1 & Hb1 & [Eb1|Eb1]); [|exfalso; apply Hn1; eexists; exact Eb1].
    destruct (IH s1 s2 xs2 Hinv1 Hpv1 Hu2 Hv2 E2 j b1 Hb1 Hn2) as (b & Hb & Eb). exists b. split; [assumption|].
    rewrite <- Eb, L, traded_app. lia.
Qed.
