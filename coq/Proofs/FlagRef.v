(** * The configuration frame: which operations can change the clock, the tick size and the
    trading flag. Only [set_time] moves the clock, only the two switches change the flag, nothing
    changes the tick size - proved once on the reference engine and carried to the model by the
    refinement theorem. *)
From Bourse Require Import Model.Types Model.Map Model.Side Model.Book Model.Obs Spec.RefBook
  Proofs.Basic Proofs.Refine Proofs.Volumes Proofs.Reload.
From Coq Require Import ZifyBool ZifyNat ZifyN.

Definition cfg (r : rbook) : N * N * bool := (r_t r, r_tick r, r_trading r).

Lemma cfg_set_rq r sd q : cfg (set_rq r sd q) = cfg r.
Proof. destruct sd; reflexivity. Qed.

Lemma cfg_set_rorders r t : cfg (set_rorders r t) = cfg r.
Proof. reflexivity. Qed.

Lemma ref_arrive_cfg r o r1 o1 : ref_arrive r o = (r1, o1) -> cfg r1 = cfg r.
Proof.
  unfold ref_arrive. intros H.
  destruct (if r_trading r then _ else _) as [[[[a tbl] oq] lg] tv].
  destruct (status_eqb (o_status a) SFilled); injection H as <- _; rewrite ?cfg_set_rq; reflexivity.
Qed.

Lemma ref_place_cfg r id r1 : ref_place r id = Some r1 -> cfg r1 = cfg r.
Proof.
  unfold ref_place. intros H. destruct (nth_error (r_orders r) id) as [o|]; [|discriminate].
  destruct (negb _); [injection H as <-; reflexivity|].
  destruct (is_market _).
  - destruct (r_trading r) eqn:Htr.
    + destruct (ref_match _ _ _ _ _ _) as [[[[a tbl] oq] lg] tv]. injection H as <-.
      rewrite cfg_set_rorders, cfg_set_rq. unfold cfg; cbn. rewrite Htr. reflexivity.
    + injection H as <-. reflexivity.
  - destruct (ref_arrive r _) as [r2 o2] eqn:E. injection H as <-.
    rewrite cfg_set_rorders. eapply ref_arrive_cfg; eassumption.
Qed.

Lemma ref_cancel_cfg r id r1 : ref_cancel r id = Some r1 -> cfg r1 = cfg r.
Proof.
  unfold ref_cancel. intros H. destruct (nth_error (r_orders r) id) as [o|]; [|discriminate].
  destruct (status_eqb _ _); injection H as <-; rewrite ?cfg_set_rq; reflexivity.
Qed.

Lemma ref_replace_cfg r id o p v : cfg (ref_replace r id o p v) = cfg r.
Proof.
  unfold ref_replace. destruct (ref_arrive _ _) as [r1 o1] eqn:E.
  rewrite cfg_set_rorders, (ref_arrive_cfg _ _ _ _ E), cfg_set_rq. reflexivity.
Qed.

Lemma ref_modify_cfg r id np nv r1 : ref_modify r id np nv = Some r1 -> cfg r1 = cfg r.
Proof.
  unfold ref_modify. intros H. destruct (nth_error (r_orders r) id) as [o|]; [|discriminate].
  destruct (match np with Some p => _ | None => false end); [injection H as <-; reflexivity|].
  destruct (negb _); [injection H as <-; reflexivity|].
  destruct np as [p|], nv as [v|]; try (injection H as <-; apply ref_replace_cfg || reflexivity).
  destruct (v <? o_vol o); injection H as <-; [reflexivity | apply ref_replace_cfg].
Qed.

Lemma ref_create_cfg r sd v tr p r1 c : ref_create r sd v tr p = (r1, c) -> cfg r1 = cfg r.
Proof.
  unfold ref_create. intros H. destruct p as [p|].
  - destruct (p mod r_tick r =? 0); injection H as <- _; reflexivity.
  - injection H as <- _; reflexivity.
Qed.

(** what one operation does to (clock, tick size, flag) *)
Definition cfg_after (o : op) (c : N * N * bool) : N * N * bool :=
  let '(t, tick, tr) := c in
  match o with
  | OSetTime t' => (t', tick, tr)
  | OEnable => (t, tick, true)
  | ODisable => (t, tick, false)
  | _ => c
  end.

Theorem ref_step_cfg r o r' x : ref_step r o = Some (r', x) -> cfg r' = cfg_after o (cfg r).
Proof.
  intros H. destruct o as [sd v tr p|sd v tr p|id|id|id p v|ev| | | | |]; cbn [ref_step] in H; unfold cfg_after, cfg at 2.
  - destruct (ref_create r sd v tr p) as [r1 c] eqn:E. injection H as <- _. eapply ref_create_cfg; eassumption.
  - destruct (ref_create r sd v tr p) as [r1 c] eqn:E. pose proof (ref_create_cfg _ _ _ _ _ _ _ E) as C1.
    destruct c as [id|pp tt].
    + destruct (ref_place r1 id) as [r2|] eqn:E2; [|discriminate]. injection H as <- _.
      rewrite (ref_place_cfg _ _ _ E2). exact C1.
    + injection H as <- _. exact C1.
  - destruct (ref_place r id) as [r1|] eqn:E; [|discriminate]. injection H as <- _. eapply ref_place_cfg; eassumption.
  - destruct (ref_cancel r id) as [r1|] eqn:E; [|discriminate]. injection H as <- _. eapply ref_cancel_cfg; eassumption.
  - destruct (ref_modify r id p v) as [r1|] eqn:E; [|discriminate]. injection H as <- _. eapply ref_modify_cfg; eassumption.
  - destruct ev as [id|id|id p v].
    + destruct (ref_place r id) as [r1|] eqn:E; [|discriminate]. injection H as <- _. eapply ref_place_cfg; eassumption.
    + destruct (ref_cancel r id) as [r1|] eqn:E; [|discriminate]. injection H as <- _. eapply ref_cancel_cfg; eassumption.
    + destruct (ref_modify r id p v) as [r1|] eqn:E; [|discriminate]. injection H as <- _. eapply ref_modify_cfg; eassumption.
  - injection H as <- _. reflexivity.
  - injection H as <- _. reflexivity.
  - injection H as <- _. reflexivity.
  - injection H as <- _. reflexivity.
  - injection H as <- _. reflexivity.
Qed.

(** the model: the same frame for every successful operation (snapshot reloads included) on a book
    satisfying the invariant *)
Theorem step_raw_cfg s o s' x :
  Inv s -> op_u32 o -> step_raw s o = Ok (s', x) ->
  (b_t s', b_tick s', b_trading s') = cfg_after o (b_t s, b_tick s, b_trading s).
Proof.
  intros I U H. destruct (step_raw_inv_all _ _ _ _ I U H) as [Hr _].
  apply ref_step_cfg in Hr. exact Hr.
Qed.

Lemma ref_run_cfg : forall ops r r' xs,
  ref_run_outs r ops = Some (r', xs) -> cfg r' = fold_left (fun c o => cfg_after o c) ops (cfg r).
Proof.
  induction ops as [|o rest IH]; intros r r' xs H; cbn [ref_run_outs fold_left] in *.
  - injection H as <- _. reflexivity.
  - destruct (ref_step r o) as [[r1 x]|] eqn:E; [|discriminate].
    destruct (ref_run_outs r1 rest) as [[r2 xs2]|] eqn:E2; [|discriminate]. injection H as <- _.
    rewrite (IH _ _ _ E2), (ref_step_cfg _ _ _ _ E). reflexivity.
Qed.

(** every history from a new book: clock, tick size and flag at the end are what the history's own
    [set_time] calls and switches say - no placement, cancellation, modification, processed event,
    counter reset or reload has any say in them *)
Theorem run_cfg t0 tick tr s0 ops s xs :
  book_new t0 tick tr = Ok s0 -> Forall op_u32 ops -> run_outs s0 ops = Ok (s, xs) ->
  (b_t s, b_tick s, b_trading s) = fold_left (fun c o => cfg_after o c) ops (t0, tick, tr).
Proof.
  intros H0 Hu H. destruct (InvQ_new _ _ _ _ H0) as [_ E].
  destruct (run_inv_all ops s0 s xs (Inv_new _ _ _ _ H0) Hu H) as [Hr _].
  apply ref_run_cfg in Hr. rewrite E in Hr. exact Hr.
Qed.

(** in particular: the flag after a history is the last switch's (or the constructor's) *)
Fixpoint last_switch (ops : list op) (tr : bool) : bool :=
  match ops with
  | [] => tr
  | OEnable :: r => last_switch r true
  | ODisable :: r => last_switch r false
  | _ :: r => last_switch r tr
  end.

Lemma fold_cfg_flag : forall ops t tick tr,
  snd (fold_left (fun c o => cfg_after o c) ops (t, tick, tr)) = last_switch ops tr.
Proof.
  induction ops as [|o r IH]; intros t tick tr; cbn [fold_left last_switch]; [reflexivity|].
  destruct o; cbn [cfg_after]; apply IH.
Qed.

Theorem run_flag t0 tick tr s0 ops s xs :
  book_new t0 tick tr = Ok s0 -> Forall op_u32 ops -> run_outs s0 ops = Ok (s, xs) ->
  b_trading s = last_switch ops tr.
Proof.
  intros H0 Hu H. pose proof (run_cfg _ _ _ _ _ _ _ H0 Hu H) as C.
  rewrite <- (fold_cfg_flag ops t0 tick tr), <- C. reflexivity.
Qed.

(** C13, last clause: once trading is enabled again, whatever the book looks like by then (it may be
    crossed), the next operation is the reference engine's on the same order table, queues and log
    with the flag on - i.e. an arriving or re-priced order matches by the usual rules *)
Theorem after_enable_usual_rules s s1 x1 o s2 x2 :
  Inv s -> op_u32 o -> step_raw s OEnable = Ok (s1, x1) -> step_raw s1 o = Ok (s2, x2) ->
  ref_step (mkRef (b_t s) (b_tick s) (b_tvol s) (tbl s) (qof (b_bid s)) (qof (b_ask s)) (b_trades s) true) o
  = Some (abs s2, x2) /\ Inv s2.
Proof.
  intros I U H1 H2. assert (U1 : op_u32 OEnable) by exact Logic.I.
  destruct (step_raw_inv_all _ _ _ _ I U1 H1) as [R1 I1].
  cbn [ref_step] in R1.
  assert (E : abs s1 = mkRef (b_t s) (b_tick s) (b_tvol s) (tbl s) (qof (b_bid s)) (qof (b_ask s)) (b_trades s) true).
  { cbn [abs r_t r_tick r_tvol r_orders r_bidq r_askq r_trades] in R1. congruence. }
  rewrite <- E. exact (step_raw_inv_all _ _ _ _ I1 U H2).
Qed.
