(** * What the reference engine itself guarantees (so that "reference" is not
    just a second implementation): priority structure of matching and resting *)
From Bourse Require Import Model.Types Model.Book Model.Obs Spec.RefBook Proofs.Basic Proofs.Ledger.
From Coq Require Import ZifyBool ZifyNat ZifyN.

Ltac inv H := inversion H; subst; clear H.

(** the orders consumed by one arrival are a prefix of the opposite queue:
    what is left of the queue is a suffix of it *)
Lemma ref_match_suffix t : forall q agg tb log tv agg' tb' q' log' tv',
  ref_match t agg tb q log tv = (agg', tb', q', log', tv') -> exists done, q = done ++ q'.
Proof.
  induction q as [|id q IH]; intros agg tb log tv agg' tb' q' log' tv' H; cbn [ref_match] in H.
  - inv H. exists []; reflexivity.
  - destruct ((0 <? o_vol agg) && admits agg (oget tb id)).
    + destruct (match_orders t agg (oget tb id)) as [[[a2 p2] tr] v].
      destruct (o_vol p2 =? 0).
      * apply IH in H. destruct H as [done ->]. exists (id :: done); reflexivity.
      * inv H. exists []; reflexivity.
    + inv H. exists []; reflexivity.
Qed.

(** the log is extended, never rewritten, and the counter moves by the logged volume *)
Lemma ref_match_log t : forall q agg tb log tv agg' tb' q' log' tv',
  ref_match t agg tb q log tv = (agg', tb', q', log', tv') ->
  exists new, log' = log ++ new /\ tv' = tv + sumv new /\ Forall (fun tr => tr_t tr = t /\ tr_active tr = o_id agg) new.
Proof.
  induction q as [|id q IH]; intros agg tb log tv agg' tb' q' log' tv' H; cbn [ref_match] in H.
  - inv H. exists []. rewrite app_nil_r. cbn. repeat split; auto; lia.
  - destruct ((0 <? o_vol agg) && admits agg (oget tb id)).
    + destruct (match_orders t agg (oget tb id)) as [[[a2 p2] tr] v] eqn:Hm.
      apply match_orders_trade in Hm. destruct Hm as (Ht & Ha & _ & Hv & _ & _ & _ & Hid & _).
      destruct (o_vol p2 =? 0).
      * apply IH in H. destruct H as (new & -> & -> & F). exists (tr :: new).
        rewrite <- app_assoc. cbn [app]. split; [reflexivity|]. split.
        { change (sumv (tr :: new)) with (tr_vol tr + sumv new). lia. }
        constructor; [split; congruence|]. eapply Forall_impl; [|exact F]. cbn. intros x [? ?]; split; congruence.
      * inv H. exists [tr]. split; [reflexivity|]. split; [cbn; lia|]. constructor; [split; congruence | constructor].
    + inv H. exists []. rewrite app_nil_r. cbn. repeat split; auto; lia.
Qed.

(** the walk stops exactly when the aggressor is exhausted or the next head does not satisfy the limit *)
Lemma match_orders_partial t a p a2 p2 tr v :
  match_orders t a p = (a2, p2, tr, v) -> (o_vol p2 =? 0) = false -> o_vol a2 = 0.
Proof.
  unfold match_orders. intros H Hz. injection H as <- <- _ _.
  cbn [o_vol set_vol] in *.
  destruct (o_vol p - N.min (o_vol a) (o_vol p) =? 0) eqn:E1; cbn [o_vol set_vol set_status set_end] in Hz; [lia|].
  destruct (o_vol a - N.min (o_vol a) (o_vol p) =? 0) eqn:E2; cbn [o_vol set_vol set_status set_end]; lia.
Qed.

Lemma ref_match_stops t : forall q agg tb log tv agg' tb' q' log' tv',
  ref_match t agg tb q log tv = (agg', tb', q', log', tv') ->
  match q' with
  | [] => True
  | h :: _ => (0 <? o_vol agg') && admits agg' (oget tb' h) = false
  end.
Proof.
  induction q as [|id q IH]; intros agg tb log tv agg' tb' q' log' tv' H; cbn [ref_match] in H.
  - inv H. exact I.
  - destruct ((0 <? o_vol agg) && admits agg (oget tb id)) eqn:G.
    + destruct (match_orders t agg (oget tb id)) as [[[a2 p2] tr] v] eqn:Hm.
      destruct (o_vol p2 =? 0) eqn:Hz.
      * eapply IH; eauto.
      * inv H. rewrite (match_orders_partial _ _ _ _ _ _ _ Hm Hz). reflexivity.
    + inv H. exact G.
Qed.

(** resting: the remainder goes behind every order whose price is better or
    equal and in front of the first that is strictly worse *)
Lemma ref_insert_position tb o id : forall q,
  exists l1 l2, q = l1 ++ l2 /\ ref_insert tb o id q = l1 ++ id :: l2 /\
    Forall (fun h => better_eq o (oget tb h) = true) l1 /\
    match l2 with [] => True | h :: _ => better_eq o (oget tb h) = false end.
Proof.
  induction q as [|h q IH]; cbn [ref_insert].
  - exists [], []. repeat split; constructor.
  - destruct (better_eq o (oget tb h)) eqn:E.
    + destruct IH as (l1 & l2 & -> & E2 & F & T). exists (h :: l1), l2. rewrite E2. repeat split; auto.
    + exists [], (h :: q). repeat split; auto.
Qed.

(** C06 on the reference engine: a pure volume reduction changes that order's
    volume and nothing else; in particular both queues are the same lists *)
Lemma ref_modify_reduce r id o v :
  nth_error (r_orders r) id = Some o -> o_status o = SActive -> v < o_vol o ->
  ref_modify r id None (Some v) = Some (set_rorders r (set_nth (r_orders r) id (set_vol o v))).
Proof.
  intros Hn Hs Hv. unfold ref_modify. rewrite Hn, Hs. cbn.
  destruct (v <? o_vol o) eqn:E; [reflexivity | lia].
Qed.

(** every other effective modification is "take the order out, then treat it as newly arrived" *)
Lemma ref_modify_replace r id o np nv :
  nth_error (r_orders r) id = Some o -> o_status o = SActive ->
  (match np with Some p => p mod r_tick r = 0 | None => True end) ->
  (match np, nv with None, None => False | None, Some v => o_vol o <= v | _, _ => True end) ->
  ref_modify r id np nv =
  Some (ref_replace r id o (match np with Some p => p | None => o_price o end)
                           (match nv with Some v => v | None => o_vol o end)).
Proof.
  intros Hn Hs Hg Hc. unfold ref_modify. rewrite Hn, Hs. cbn.
  destruct np as [p|], nv as [v|]; cbn.
  - replace (p mod r_tick r =? 0) with true by lia. reflexivity.
  - replace (p mod r_tick r =? 0) with true by lia. reflexivity.
  - destruct (v <? o_vol o) eqn:E; [lia | reflexivity].
  - contradiction.
Qed.

Lemma ref_modify_noop r id o np nv :
  nth_error (r_orders r) id = Some o -> o_status o <> SActive -> ref_modify r id np nv = Some r.
Proof.
  intros Hn Hs. unfold ref_modify. rewrite Hn.
  destruct (match np with Some p => _ | None => false end); [reflexivity|].
  destruct (status_eqb (o_status o) SActive) eqn:E; [apply status_eqb_eq in E; contradiction | reflexivity].
Qed.
