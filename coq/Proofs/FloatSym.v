(** * Sign symmetry of binary64 arithmetic (round to nearest even) *)
From Coq Require Import ZArith NArith Bool Reals Psatz.
From Flocq Require Import Core.Core IEEE754.BinarySingleNaN.
From Coq Require Import Floats.SpecFloat.
From Bourse Require Import Model.Float.

Local Notation prec := 53%Z.
Local Notation emax := 1024%Z.

Lemma B2SF_inf_inv (z : f64) s : B2SF z = S754_infinity s -> z = B754_infinity s.
Proof. destruct z; simpl; intros H; try discriminate. congruence. Qed.

Theorem fmul_opp_r (x y : f64) : fmul x (Bopp y) = Bopp (fmul x y).
Proof.
  unfold fmul.
  destruct x as [sx|sx| |sx mx ex Hx], y as [sy|sy| |sy my ey Hy]; try reflexivity;
    try (simpl; f_equal; destruct sx, sy; reflexivity).
  set (X := B754_finite sx mx ex Hx). set (Y := B754_finite sy my ey Hy).
  pose proof (Bmult_correct prec emax prec_gt_0_53 prec_lt_emax_53 mode_NE X Y) as C1.
  pose proof (Bmult_correct prec emax prec_gt_0_53 prec_lt_emax_53 mode_NE X (Bopp Y)) as C2.
  rewrite B2R_Bopp in C2.
  replace (B2R X * - B2R Y)%R with (- (B2R X * B2R Y))%R in C2 by ring.
  simpl round_mode in C1, C2. rewrite round_NE_opp, Rabs_Ropp in C2.
  destruct (Rlt_bool (Rabs (round radix2 (SpecFloat.fexp prec emax) ZnearestE (B2R X * B2R Y))) (bpow radix2 emax)).
  - destruct C1 as (R1 & F1 & S1). destruct C2 as (R2 & F2 & S2).
    apply B2R_Bsign_inj.
    + rewrite F2. reflexivity.
    + rewrite is_finite_Bopp, F1. reflexivity.
    + rewrite R2, B2R_Bopp, R1. reflexivity.
    + unfold fmul in *. fold (fmul X Y) in *. fold (fmul X (Bopp Y)) in *.
      assert (N1 : is_nan (fmul X Y) = false) by (destruct (fmul X Y); try reflexivity; discriminate).
      assert (N2 : is_nan (fmul X (Bopp Y)) = false) by (destruct (fmul X (Bopp Y)); try reflexivity; discriminate).
      rewrite (S2 N2), (Bsign_Bopp _ _ _ N1), (S1 N1). simpl. destruct sx, sy; reflexivity.
  - unfold binary_overflow in C1, C2. simpl overflow_to_inf in C1, C2.
    apply B2SF_inf_inv in C1. apply B2SF_inf_inv in C2. rewrite C2, C1. simpl. f_equal. destruct sx, sy; reflexivity.
Qed.

Theorem fmul_opp_l (x y : f64) : fmul (Bopp x) y = Bopp (fmul x y).
Proof.
  unfold fmul.
  destruct x as [sx|sx| |sx mx ex Hx], y as [sy|sy| |sy my ey Hy]; try reflexivity;
    try (simpl; f_equal; destruct sx, sy; reflexivity).
  set (X := B754_finite sx mx ex Hx). set (Y := B754_finite sy my ey Hy).
  pose proof (Bmult_correct prec emax prec_gt_0_53 prec_lt_emax_53 mode_NE X Y) as C1.
  pose proof (Bmult_correct prec emax prec_gt_0_53 prec_lt_emax_53 mode_NE (Bopp X) Y) as C2.
  rewrite B2R_Bopp in C2.
  replace (- B2R X * B2R Y)%R with (- (B2R X * B2R Y))%R in C2 by ring.
  simpl round_mode in C1, C2. rewrite round_NE_opp, Rabs_Ropp in C2.
  destruct (Rlt_bool (Rabs (round radix2 (SpecFloat.fexp prec emax) ZnearestE (B2R X * B2R Y))) (bpow radix2 emax)).
  - destruct C1 as (R1 & F1 & S1). destruct C2 as (R2 & F2 & S2).
    apply B2R_Bsign_inj.
    + rewrite F2. reflexivity.
    + rewrite is_finite_Bopp, F1. reflexivity.
    + rewrite R2, B2R_Bopp, R1. reflexivity.
    + unfold fmul in *. fold (fmul X Y) in *. fold (fmul (Bopp X) Y) in *.
      assert (N1 : is_nan (fmul X Y) = false) by (destruct (fmul X Y); try reflexivity; discriminate).
      assert (N2 : is_nan (fmul (Bopp X) Y) = false) by (destruct (fmul (Bopp X) Y); try reflexivity; discriminate).
      rewrite (S2 N2), (Bsign_Bopp _ _ _ N1), (S1 N1). simpl. destruct sx, sy; reflexivity.
  - unfold binary_overflow in C1, C2. simpl overflow_to_inf in C1, C2.
    apply B2SF_inf_inv in C1. apply B2SF_inf_inv in C2. rewrite C2, C1. simpl. f_equal. destruct sx, sy; reflexivity.
Qed.

Theorem fdiv_opp_l (x y : f64) : fdiv (Bopp x) y = Bopp (fdiv x y).
Proof.
  unfold fdiv.
  destruct x as [sx|sx| |sx mx ex Hx], y as [sy|sy| |sy my ey Hy]; try reflexivity;
    try (simpl; f_equal; destruct sx, sy; reflexivity).
  set (X := B754_finite sx mx ex Hx). set (Y := B754_finite sy my ey Hy).
  assert (HY : B2R Y <> 0%R).
  { unfold Y. simpl. apply F2R_neq_0. simpl. destruct sy; discriminate. }
  pose proof (Bdiv_correct prec emax prec_gt_0_53 prec_lt_emax_53 mode_NE X Y HY) as C1.
  pose proof (Bdiv_correct prec emax prec_gt_0_53 prec_lt_emax_53 mode_NE (Bopp X) Y HY) as C2.
  rewrite B2R_Bopp in C2.
  replace (- B2R X / B2R Y)%R with (- (B2R X / B2R Y))%R in C2 by (unfold Rdiv; ring).
  simpl round_mode in C1, C2. rewrite round_NE_opp, Rabs_Ropp in C2.
  destruct (Rlt_bool (Rabs (round radix2 (SpecFloat.fexp prec emax) ZnearestE (B2R X / B2R Y))) (bpow radix2 emax)).
  - destruct C1 as (R1 & F1 & S1). destruct C2 as (R2 & F2 & S2).
    apply B2R_Bsign_inj.
    + rewrite F2. reflexivity.
    + rewrite is_finite_Bopp, F1. reflexivity.
    + rewrite R2, B2R_Bopp, R1. reflexivity.
    + unfold fdiv in *. fold (fdiv X Y) in *. fold (fdiv (Bopp X) Y) in *.
      assert (N1 : is_nan (fdiv X Y) = false) by (destruct (fdiv X Y); try reflexivity; discriminate).
      assert (N2 : is_nan (fdiv (Bopp X) Y) = false) by (destruct (fdiv (Bopp X) Y); try reflexivity; discriminate).
      rewrite (S2 N2), (Bsign_Bopp _ _ _ N1), (S1 N1). simpl. destruct sx, sy; reflexivity.
  - unfold binary_overflow in C1, C2. simpl overflow_to_inf in C1, C2.
    apply B2SF_inf_inv in C1. apply B2SF_inf_inv in C2. rewrite C2, C1. simpl. f_equal. destruct sx, sy; reflexivity.
Qed.

Definition is_zero (z : f64) : Prop := match z with B754_zero _ => True | _ => False end.
(** [y] is the negation of [x], up to the sign of a zero *)
Definition mirror (x y : f64) : Prop := y = Bopp x \/ (is_zero x /\ is_zero y).

Lemma finite_zero (z : f64) : is_finite z = true -> B2R z = 0%R -> is_zero z.
Proof.
  destruct z as [s|s| |s m e H]; simpl; intros F R; try discriminate; try exact I.
  exfalso. apply eq_0_F2R in R. simpl in R. destruct s; discriminate.
Qed.

Theorem fadd_opp (x y : f64) : mirror (fadd x y) (fadd (Bopp x) (Bopp y)).
Proof.
  unfold fadd, mirror.
  destruct x as [sx|sx| |sx mx ex Hx], y as [sy|sy| |sy my ey Hy];
    try (left; reflexivity);
    try (simpl; destruct sx, sy; simpl; first [left; reflexivity | right; split; exact I]).
  set (X := B754_finite sx mx ex Hx). set (Y := B754_finite sy my ey Hy).
  pose proof (Bplus_correct prec emax prec_gt_0_53 prec_lt_emax_53 mode_NE X Y eq_refl eq_refl) as C1.
  pose proof (Bplus_correct prec emax prec_gt_0_53 prec_lt_emax_53 mode_NE (Bopp X) (Bopp Y) eq_refl eq_refl) as C2.
  rewrite !B2R_Bopp in C2.
  replace (- B2R X + - B2R Y)%R with (- (B2R X + B2R Y))%R in C2 by ring.
  simpl round_mode in C1, C2. rewrite round_NE_opp, Rabs_Ropp in C2.
  set (S := (B2R X + B2R Y)%R) in *.
  destruct (Rlt_bool (Rabs (round radix2 (SpecFloat.fexp prec emax) ZnearestE S)) (bpow radix2 emax)).
  - destruct C1 as (R1 & F1 & S1). destruct C2 as (R2 & F2 & S2).
    destruct (Req_dec S 0) as [Z|NZ].
    + right. rewrite Z, round_0 in R1 by auto with typeclass_instances.
      rewrite Z, round_0, Ropp_0 in R2 by auto with typeclass_instances.
      split; apply finite_zero; assumption.
    + left. apply B2R_Bsign_inj.
      * assumption.
      * rewrite is_finite_Bopp. assumption.
      * rewrite R2, B2R_Bopp, R1. reflexivity.
      * fold (fadd X Y) in *. fold (fadd (Bopp X) (Bopp Y)) in *.
        assert (N1 : is_nan (fadd X Y) = false) by (destruct (fadd X Y); try reflexivity; discriminate).
        rewrite S2, (Bsign_Bopp _ _ _ N1), S1.
        destruct (Rcompare_spec S 0) as [L|E|G]; [| contradiction |].
        -- rewrite Rcompare_Gt by lra. reflexivity.
        -- rewrite Rcompare_Lt by lra. reflexivity.
  - left. destruct C1 as [C1 E1]. destruct C2 as [C2 E2]. unfold binary_overflow in C1, C2. simpl overflow_to_inf in C1, C2.
    apply B2SF_inf_inv in C1. apply B2SF_inf_inv in C2. rewrite C2, C1. simpl. reflexivity.
Qed.

Lemma mirror_opp x : mirror x (Bopp x).
Proof. left; reflexivity. Qed.

Lemma Bopp_nan_eq : @Bopp 53 1024 B754_nan = B754_nan. Proof. reflexivity. Qed.

Lemma mirror_fmul_l x x' k : mirror x x' -> mirror (fmul x k) (fmul x' k).
Proof.
  intros [->|[Zx Zx']]; [left; apply fmul_opp_l|].
  destruct x as [sx|sx| |sx mx ex Hx]; try contradiction. destruct x' as [sx'|sx'| |sx' mx' ex' Hx']; try contradiction.
  destruct k as [sk|sk| |sk mk ek Hk]; unfold fmul; simpl; first [left; reflexivity | right; split; exact I].
Qed.

Lemma mirror_fmul_r k y y' : mirror y y' -> mirror (fmul k y) (fmul k y').
Proof.
  intros [->|[Zy Zy']]; [left; apply fmul_opp_r|].
  destruct y as [sy|sy| |sy my ey Hy]; try contradiction. destruct y' as [sy'|sy'| |sy' my' ey' Hy']; try contradiction.
  destruct k as [sk|sk| |sk mk ek Hk]; unfold fmul; simpl; first [left; reflexivity | right; split; exact I].
Qed.

Lemma mirror_fdiv_l x x' k : mirror x x' -> mirror (fdiv x k) (fdiv x' k).
Proof.
  intros [->|[Zx Zx']]; [left; apply fdiv_opp_l|].
  destruct x as [sx|sx| |sx mx ex Hx]; try contradiction. destruct x' as [sx'|sx'| |sx' mx' ex' Hx']; try contradiction.
  destruct k as [sk|sk| |sk mk ek Hk]; unfold fdiv; simpl; first [left; reflexivity | right; split; exact I].
Qed.

Lemma fadd_zero_r (a : f64) s : is_zero a \/ fadd a (B754_zero s) = a.
Proof. destruct a as [sa|sa| |sa ma ea Ha]; [left; exact I | right; reflexivity | right; reflexivity | right; reflexivity]. Qed.
Lemma fadd_zero_l (a : f64) s : is_zero a \/ fadd (B754_zero s) a = a.
Proof. destruct a as [sa|sa| |sa ma ea Ha]; [left; exact I | right; reflexivity | right; reflexivity | right; reflexivity]. Qed.

Lemma is_zero_fadd a b : is_zero a -> is_zero b -> is_zero (fadd a b).
Proof.
  destruct a as [sa|sa| |sa ma ea Ha]; try contradiction. destruct b as [sb|sb| |sb mb eb Hb]; try contradiction.
  intros _ _. unfold fadd. simpl. destruct (Bool.eqb sa sb); exact I.
Qed.
Lemma is_zero_opp a : is_zero a -> is_zero (Bopp a).
Proof. destruct a; simpl; auto. Qed.

Lemma mirror_fadd a a' b b' : mirror a a' -> mirror b b' -> mirror (fadd a b) (fadd a' b').
Proof.
  intros [->|[Za Za']] [->|[Zb Zb']].
  - apply fadd_opp.
  - destruct b as [sb|sb| |sb mb eb Hb]; try contradiction. destruct b' as [sb'|sb'| |sb' mb' eb' Hb']; try contradiction.
    destruct a as [sa|sa| |sa ma ea Ha].
    + right. split; apply is_zero_fadd; exact I.
    + left. reflexivity.
    + left. reflexivity.
    + left. reflexivity.
  - destruct a as [sa|sa| |sa ma ea Ha]; try contradiction. destruct a' as [sa'|sa'| |sa' ma' ea' Ha']; try contradiction.
    destruct b as [sb|sb| |sb mb eb Hb].
    + right. split; apply is_zero_fadd; exact I.
    + left. reflexivity.
    + left. reflexivity.
    + left. reflexivity.
  - right. split; apply is_zero_fadd; assumption.
Qed.

Lemma mirror_fabs x x' : mirror x x' -> fabs x' = fabs x.
Proof.
  intros [->|[Zx Zx']]; [apply Babs_Bopp|].
  destruct x; try contradiction. destruct x'; try contradiction. reflexivity.
Qed.

Lemma mirror_sign m m' : mirror m m' ->
  fgt m' f_zero = flt m f_zero /\ flt m' f_zero = fgt m f_zero.
Proof.
  intros [->|[Z Z']].
  - destruct m as [s|s| |s mm ee Hm]; try destruct s; split; reflexivity.
  - destruct m as [s| | |]; try contradiction. destruct m' as [s'| | |]; try contradiction. split; reflexivity.
Qed.

(** ** The momentum agent's signal and propensity under a mirrored price history *)
From Bourse Require Import Model.Types Model.Agents Proofs.AgentDir.

Section Mirror.
Variable tanh64 : N -> N.
Definition T (x : f64) : f64 := f_of_bits (tanh64 (f_bits_for_oracle x)).
(** what is assumed of the [tanh] oracle (libm's tanh is odd and maps zeros to zeros) *)
Hypothesis tanh_odd : forall x, T (Bopp x) = Bopp (T x).
Hypothesis tanh_zero : forall x, is_zero x -> is_zero (T x).

Lemma mirror_T x x' : mirror x x' -> mirror (T x) (T x').
Proof. intros [->|[Z Z']]; [left; apply tanh_odd | right; split; apply tanh_zero; assumption]. Qed.

(** the propensity the agent computes from the signal *)
Definition propensity (p : mom_params) (n : N) (m : f64) : f64 :=
  fabs (fdiv (fmul (f_of_bits (mp_demand p)) (T (fmul (f_of_bits (mp_scale p)) m))) (f_of_N n)).

(** One step of the recursion: if the carried signal and the observed price move are
    mirrored (negated, up to the sign of a zero), then so is the new signal; the
    propensity (and with it the limit-order probability, a multiple of it) is equal;
    and the direction tests are exchanged: the mirrored agent sells exactly when the
    original buys and buys exactly when the original sells. By induction over the
    steps of a run, a mirrored price history gives the mirrored order flow. *)
Theorem momentum_mirror_step p n mom mom' mid lp mid' lp' :
  mirror mom mom' -> mirror (fsub mid lp) (fsub mid' lp') ->
  let m := mom_signal p mom mid lp in let m' := mom_signal p mom' mid' lp' in
  mirror m m' /\
  propensity p n m' = propensity p n m /\
  fgt m' f_zero = flt m f_zero /\ flt m' f_zero = fgt m f_zero.
Proof.
  intros Hm Hd m m'.
  assert (Hmm : mirror m m').
  { unfold m, m', mom_signal. apply mirror_fadd; [apply mirror_fmul_l | apply mirror_fmul_r]; assumption. }
  split; [exact Hmm|]. split; [|apply mirror_sign; exact Hmm].
  unfold propensity. apply mirror_fabs. apply mirror_fdiv_l. apply mirror_fmul_r. apply mirror_T. apply mirror_fmul_r. exact Hmm.
Qed.
End Mirror.

(** ** Differences of half-integer prices are exact in binary64 *)
Local Notation fx := (SpecFloat.fexp prec emax).

(** [z / 2] for an integer [|z| < 2^53] is representable *)
Lemma half_generic (z : Z) : (Z.abs z < 2 ^ 53)%Z -> generic_format radix2 fx (F2R (Float radix2 z (-1))).
Proof.
  intros Hz. change fx with (FLT_exp (3 - emax - prec) prec).
  apply generic_format_FLT. exists (Float radix2 z (-1)); simpl; [reflexivity | exact Hz | lia].
Qed.

Lemma half_small (z : Z) : (Z.abs z < 2 ^ 53)%Z -> (Rabs (F2R (Float radix2 z (-1))) < bpow radix2 emax)%R.
Proof.
  intros Hz. rewrite <- F2R_Zabs. simpl Fnum. unfold F2R. simpl Fnum. simpl Fexp.
  apply Rlt_le_trans with (IZR (2 ^ 53) * bpow radix2 (-1))%R.
  - apply Rmult_lt_compat_r; [apply bpow_gt_0 | apply IZR_lt; exact Hz].
  - change (IZR (2 ^ 53)) with (bpow radix2 53). rewrite <- bpow_plus. apply bpow_le. lia.
Qed.

Definition h (a : N) : f64 := f_of_ZE (Z.of_N a) (-1).

Lemma h_spec a : (Z.of_N a < 2 ^ 53)%Z ->
  B2R (h a) = F2R (Float radix2 (Z.of_N a) (-1)) /\ is_finite (h a) = true.
Proof.
  intros Ha. unfold h, f_of_ZE.
  pose proof (binary_normalize_correct prec emax prec_gt_0_53 prec_lt_emax_53 mode_NE (Z.of_N a) (-1) false) as C.
  cbv zeta in C. simpl round_mode in C.
  assert (Hz : (Z.abs (Z.of_N a) < 2 ^ 53)%Z) by lia.
  rewrite (round_generic radix2 fx ZnearestE _ (half_generic _ Hz)) in C.
  rewrite (Rlt_bool_true _ _ (half_small _ Hz)) in C. destruct C as (R & F & _). auto.
Qed.

Lemma F2R_half_sub a b : (F2R (Float radix2 a (-1)) - F2R (Float radix2 b (-1)))%R = F2R (Float radix2 (a - b) (-1)).
Proof. unfold F2R. simpl. rewrite minus_IZR. ring. Qed.

(** the difference of two half-integer prices, in binary64, is the exact difference *)
Lemma fsub_half a b : (Z.of_N a < 2 ^ 52)%Z -> (Z.of_N b < 2 ^ 52)%Z ->
  B2R (fsub (h a) (h b)) = F2R (Float radix2 (Z.of_N a - Z.of_N b) (-1)) /\ is_finite (fsub (h a) (h b)) = true /\
  Bsign (fsub (h a) (h b)) = match Rcompare (F2R (Float radix2 (Z.of_N a - Z.of_N b) (-1))) 0 with
                             | Eq => andb (Bsign (h a)) (negb (Bsign (h b))) | Lt => true | Gt => false end.
Proof.
  intros Ha Hb. destruct (h_spec a) as [Ra Fa]; [lia|]. destruct (h_spec b) as [Rb Fb]; [lia|].
  pose proof (Bminus_correct prec emax prec_gt_0_53 prec_lt_emax_53 mode_NE (h a) (h b) Fa Fb) as C.
  simpl round_mode in C. rewrite Ra, Rb, F2R_half_sub in C.
  assert (Hz : (Z.abs (Z.of_N a - Z.of_N b) < 2 ^ 53)%Z) by lia.
  rewrite (round_generic radix2 fx ZnearestE _ (half_generic _ Hz)) in C.
  rewrite (Rlt_bool_true _ _ (half_small _ Hz)) in C. exact C.
Qed.

(** mirrored quotes: if the mirrored mid-prices are [a', b'] with [a' - b' = b - a] (reflection about a
    fixed level), the move the mirrored agent sees is the negated move, up to the sign of a zero *)
Theorem mirrored_move a b a' b' :
  (Z.of_N a < 2 ^ 52)%Z -> (Z.of_N b < 2 ^ 52)%Z -> (Z.of_N a' < 2 ^ 52)%Z -> (Z.of_N b' < 2 ^ 52)%Z ->
  (Z.of_N a' - Z.of_N b' = Z.of_N b - Z.of_N a)%Z ->
  mirror (fsub (h a) (h b)) (fsub (h a') (h b')).
Proof.
  intros Ha Hb Ha' Hb' E.
  destruct (fsub_half a b Ha Hb) as (R1 & F1 & S1). destruct (fsub_half a' b' Ha' Hb') as (R2 & F2 & S2).
  rewrite E in R2, S2.
  assert (Hneg : F2R (Float radix2 (Z.of_N b - Z.of_N a) (-1)) = (- F2R (Float radix2 (Z.of_N a - Z.of_N b) (-1)))%R).
  { rewrite <- F2R_Zopp. simpl. f_equal. f_equal. lia. }
  destruct (Z.eq_dec (Z.of_N a) (Z.of_N b)) as [Eab|Nab].
  - right. split; apply finite_zero; try assumption.
    + rewrite R1. rewrite Eab, Z.sub_diag. apply F2R_0.
    + rewrite R2. rewrite Eab, Z.sub_diag. apply F2R_0.
  - left. apply B2R_Bsign_inj; [assumption | rewrite is_finite_Bopp; assumption | rewrite B2R_Bopp, R1, R2; exact Hneg |].
    assert (N1 : is_nan (fsub (h a) (h b)) = false) by (destruct (fsub (h a) (h b)); try reflexivity; discriminate).
    rewrite (Bsign_Bopp _ _ _ N1), S1, S2, Hneg.
    set (x := F2R (Float radix2 (Z.of_N a - Z.of_N b) (-1))).
    assert (Hx : x <> 0%R). { unfold x. intros C. apply eq_0_F2R in C. lia. }
    destruct (Rcompare_spec x 0) as [L|C|G]; [|contradiction|].
    + rewrite Rcompare_Gt by lra. reflexivity.
    + rewrite Rcompare_Lt by lra. reflexivity.
Qed.

(** one step of a run and of its mirror image: mid-prices [a/2, b/2] now and last time, mirrored [a'/2, b'/2] *)
Theorem mirrored_history_step tanh64
  (tanh_odd : forall x, T tanh64 (Bopp x) = Bopp (T tanh64 x))
  (tanh_zero : forall x, is_zero x -> is_zero (T tanh64 x))
  p n mom mom' a b a' b' :
  (Z.of_N a < 2 ^ 52)%Z -> (Z.of_N b < 2 ^ 52)%Z -> (Z.of_N a' < 2 ^ 52)%Z -> (Z.of_N b' < 2 ^ 52)%Z ->
  (Z.of_N a' - Z.of_N b' = Z.of_N b - Z.of_N a)%Z ->
  mirror mom mom' ->
  let m := mom_signal p mom (h a) (h b) in let m' := mom_signal p mom' (h a') (h b') in
  mirror m m' /\ propensity tanh64 p n m' = propensity tanh64 p n m /\
  fgt m' f_zero = flt m f_zero /\ flt m' f_zero = fgt m f_zero.
Proof.
  intros Ha Hb Ha' Hb' E Hm. apply momentum_mirror_step; try assumption. apply mirrored_move; assumption.
Qed.

(** ** The premises hold for the mid-prices an agent reads from a book satisfying the invariant *)
From Bourse Require Import Model.Map Model.Side Model.Book Model.Env Proofs.Refine Proofs.Views.

Lemma mid_f64_is_half e a b : nth_error (en_market e) a = Some b -> mid_f64 e a = Ok (h (mid_price_x2 b)).
Proof. intros H. unfold mid_f64. rewrite H. reflexivity. Qed.

Lemma mid_price_small b : InvQ None b -> (Z.of_N (mid_price_x2 b) < 2 ^ 52)%Z.
Proof.
  intros Hinv. unfold mid_price_x2, bid_ask.
  assert (Hb : N.le (best_price Bid (b_bid b)) MAXP) by (unfold best_price, kp_of, MAXP; lia).
  assert (Ha : N.le (best_price Ask (b_ask b)) MAXP).
  { unfold best_price, kp_of, sd_best_kp. pose proof (InvQ_el_ok b Ask Hinv) as Hel. cbn [get_side] in Hel.
    destruct (sd_orders (b_ask b)) as [|[[kp kt] id] t]; [unfold MAXP; lia|].
    inversion Hel as [|? ? (e & _ & Hk & Hp) _]; subst. cbn [fst] in *. rewrite Hk. exact Hp. }
  unfold MAXP in *. change (2 ^ 52)%Z with 4503599627370496%Z. lia.
Qed.
