(** * Order lifecycle: the status of every order only advances along the
    documented transitions, with the documented time-stamps (reference engine,
    transferred to the model by the refinement theorem) *)
From Bourse Require Import Model.Types Model.Map Model.Side Model.Book Model.Obs Spec.RefBook Spec.Monitors
  Proofs.Basic Proofs.MapLemmas Proofs.Refine Proofs.Volumes Proofs.Reload Proofs.PosVol.
From Coq Require Import ZifyBool ZifyNat ZifyN.

Local Arguments N.sub : simpl never.
Local Arguments N.add : simpl never.
Local Arguments N.eqb : simpl never.
Local Arguments N.leb : simpl never.
Local Arguments N.ltb : simpl never.
Local Arguments N.min : simpl never.

(** the transition relation of the property: [market] is the kind of the order
    (decided by its price when it is placed), [trading] the flag at the time *)
Definition tr_ok (market trading : bool) (a b : status) : bool :=
  match a, b with
  | SNew, SNew => true
  | SNew, SActive => negb market
  | SNew, SFilled => true
  | SNew, SCancelled => market
  | SNew, SRejected => market && negb trading
  | SActive, SActive | SActive, SFilled | SActive, SCancelled => true
  | SFilled, SFilled | SCancelled, SCancelled | SRejected, SRejected => true
  | _, _ => false
  end.

(** one order across one operation executed at book time [t] *)
Definition life_ok (trading : bool) (t : N) (a b : order) : Prop :=
  o_side b = o_side a /\ o_trader b = o_trader a /\ o_id b = o_id a /\ o_start b = o_start a /\
  tr_ok (is_market a) trading (o_status a) (o_status b) = true /\
  (terminal (o_status a) = true -> b = a) /\
  o_arr b = (if status_eqb (o_status a) SNew && negb (status_eqb (o_status b) SNew) then t else o_arr a) /\
  (terminal (o_status a) = false -> o_end b = if terminal (o_status b) then t else o_end a).

Lemma tr_ok_refl m tr st : tr_ok m tr st st = true.
Proof. destruct st; reflexivity. Qed.

Lemma life_ok_refl tr t a : life_ok tr t a a.
Proof.
  unfold life_ok. repeat split; auto using tr_ok_refl.
  - destruct (status_eqb (o_status a) SNew); reflexivity.
  - intros H. rewrite H. reflexivity.
Qed.

(** what a fill does to either order *)
Definition fill_rel (t : N) (a b : order) : Prop :=
  o_side b = o_side a /\ o_trader b = o_trader a /\ o_id b = o_id a /\ o_start b = o_start a /\
  o_price b = o_price a /\ o_arr b = o_arr a /\
  ((o_status b = o_status a /\ o_end b = o_end a) \/ (o_status b = SFilled /\ o_end b = t)).

Lemma fill_rel_refl t a : fill_rel t a a.
Proof. unfold fill_rel. repeat split; auto. Qed.

Lemma fill_rel_trans t a b c : fill_rel t a b -> fill_rel t b c -> fill_rel t a c.
Proof.
  intros (A1 & A2 & A3 & A4 & A5 & A6 & A7) (B1 & B2 & B3 & B4 & B5 & B6 & B7).
  unfold fill_rel. repeat split; try congruence.
  destruct B7 as [[S E]|[S E]]; [|right; auto].
  destruct A7 as [[S' E']|[S' E']]; [left; split; congruence | right; split; congruence].
Qed.

Lemma match_orders_fill t a p a2 p2 tr v :
  match_orders t a p = (a2, p2, tr, v) -> fill_rel t a a2 /\ fill_rel t p p2.
Proof.
  unfold match_orders. intros H. injection H as <- <- _ _. unfold fill_rel. split.
  - match goal with |- context [if ?c then _ else _] => destruct c end; cbn; repeat split; auto.
  - match goal with |- context [if ?c then _ else _] => destruct c end; cbn; repeat split; auto.
Qed.

Lemma life_of_fill tr t a b : fill_rel t a b -> o_status a = SActive -> life_ok tr t a b.
Proof.
  intros (A1 & A2 & A3 & A4 & A5 & A6 & A7) Hs. unfold life_ok. rewrite Hs. cbn [terminal status_eqb andb].
  repeat split; auto; try discriminate.
  - destruct A7 as [[S _]|[S _]]; rewrite S; [rewrite Hs|]; reflexivity.
  - intros _. destruct A7 as [[S E]|[S E]]; rewrite S; [rewrite Hs|]; cbn; assumption.
Qed.

Lemma oget_nth tb id p : nth_error tb id = Some p -> oget tb id = p.
Proof. intros H. unfold oget. apply nth_error_nth. assumption. Qed.

(** ** The matching walk *)
Lemma ref_match_life tr t : forall q agg tb log tv agg' tb' q' log' tv',
  NoDup q ->
  (forall id, In id q -> exists p, nth_error tb id = Some p /\ o_status p = SActive) ->
  ref_match t agg tb q log tv = (agg', tb', q', log', tv') ->
  fill_rel t agg agg' /\
  forall j a, nth_error tb j = Some a ->
    exists b, nth_error tb' j = Some b /\ life_ok tr t a b /\ (~ In j q -> b = a).
Proof.
  induction q as [|id q IH]; intros agg tb log tv agg' tb' q' log' tv' Hnd Hq H; cbn [ref_match] in H.
  - injection H as <- <- _ _ _. split; [apply fill_rel_refl|]. intros j a Hj. exists a. auto using life_ok_refl.
  - destruct ((0 <? o_vol agg) && admits agg (oget tb id)).
    2:{ injection H as <- <- _ _ _. split; [apply fill_rel_refl|]. intros j a Hj. exists a. auto using life_ok_refl. }
    destruct (Hq id (or_introl eq_refl)) as (p & Hp & Hps). rewrite (oget_nth _ _ _ Hp) in H.
    destruct (match_orders t agg p) as [[[a2 p2] trd] v] eqn:Em.
    destruct (match_orders_fill _ _ _ _ _ _ _ Em) as [Fa Fp].
    assert (Hlt : (id < length tb)%nat) by (apply nth_error_Some; congruence).
    inversion Hnd as [|? ? Hnin Hnd']; subst.
    assert (Hone : forall j a, nth_error tb j = Some a ->
              exists b, nth_error (set_nth tb id p2) j = Some b /\ life_ok tr t a b /\ (j <> id -> b = a)).
    { intros j a Hj. destruct (Nat.eq_dec id j) as [<-|Hne].
      - exists p2. rewrite nth_error_set_nth_eq by assumption. assert (a = p) by congruence; subst a.
        split; [reflexivity|]. split; [apply life_of_fill; assumption | intros C; contradiction].
      - exists a. rewrite nth_error_set_nth_neq by assumption. auto using life_ok_refl. }
    destruct (o_vol p2 =? 0).
    + assert (Hq' : forall id', In id' q -> exists p', nth_error (set_nth tb id p2) id' = Some p' /\ o_status p' = SActive).
      { intros id' Hin. destruct (Hq id' (or_intror Hin)) as (p' & Hp' & Hs'). exists p'.
        rewrite nth_error_set_nth_neq; [auto | intros ->; contradiction]. }
      destruct (IH _ _ _ _ _ _ _ _ _ Hnd' Hq' H) as (Fa' & Hrest). split; [eapply fill_rel_trans; eassumption|].
      intros j a Hj. destruct (Hone j a Hj) as (b1 & Hb1 & L1 & E1).
      destruct (Hrest j b1 Hb1) as (b & Hb & L & E). exists b. split; [assumption|].
      destruct (Nat.eq_dec j id) as [->|Hne].
      * rewrite (E Hnin). split; [assumption|]. intros C. exfalso. apply C. left; reflexivity.
      * rewrite (E1 Hne) in *. split; [assumption|]. intros C. apply E. intros C2. apply C. right; assumption.
    + injection H as <- <- _ _ _. split; [assumption|].
      intros j a Hj. destruct (Hone j a Hj) as (b1 & Hb1 & L1 & E1). exists b1. split; [assumption|]. split; [assumption|].
      intros C. apply E1. intros ->. apply C. left; reflexivity.
Qed.

(** ** Queues hold Active orders, once each *)
Definition q_ok (r : rbook) : Prop :=
  forall sd, NoDup (rq r sd) /\
    forall id, In id (rq r sd) -> exists p, nth_error (r_orders r) id = Some p /\ o_status p = SActive.

Lemma q_ok_abs s : InvQ None s -> q_ok (abs s).
Proof.
  intros Hinv sd. rewrite rq_abs. pose proof (side_ok_get s sd Hinv) as Hok. split.
  - eapply side_ok_nodup; eassumption.
  - intros id Hin. destruct (in_qof_side _ _ _ _ Hok Hin) as (e & Hn & _ & Hst & _).
    exists (e_order e). split; [|assumption]. cbn [abs r_orders]. unfold tbl. rewrite nth_error_map, Hn. reflexivity.
Qed.

Lemma rq_set_rq_other r sd q : rq (set_rq r sd q) (opp sd) = rq r (opp sd).
Proof. destruct sd; reflexivity. Qed.

Lemma life_ok_set_nth tr t tb tb' id b0 :
  (forall j a, nth_error tb j = Some a -> exists b, nth_error tb' j = Some b /\ life_ok tr t a b) ->
  (forall a, nth_error tb id = Some a -> life_ok tr t a b0) ->
  forall j a, nth_error tb j = Some a -> exists b, nth_error (set_nth tb' id b0) j = Some b /\ life_ok tr t a b.
Proof.
  intros H H0 j a Hj. destruct (H j a Hj) as (b & Hb & L). destruct (Nat.eq_dec id j) as [<-|Hne].
  - exists b0. rewrite nth_error_set_nth_eq by (apply nth_error_Some; congruence). split; [reflexivity | apply H0; assumption].
  - exists b. rewrite nth_error_set_nth_neq by assumption. auto.
Qed.

Lemma is_market_fields a b : o_side b = o_side a -> o_price b = o_price a -> is_market b = is_market a.
Proof. unfold is_market. intros -> ->. reflexivity. Qed.

(** an arrival: [o0] is the order as it enters (Active, already stamped), [a] what the table holds *)
Lemma ref_arrive_life r o0 r1 o1 :
  q_ok r -> ref_arrive r o0 = (r1, o1) ->
  fill_rel (r_t r) o0 o1 /\
  forall j a, nth_error (r_orders r) j = Some a ->
    exists b, nth_error (r_orders r1) j = Some b /\ life_ok (r_trading r) (r_t r) a b.
Proof.
  intros Hq H. unfold ref_arrive in H. destruct (r_trading r) eqn:Htr.
  - destruct (ref_match (r_t r) o0 (r_orders r) (rq r (opp (o_side o0))) (r_trades r) (r_tvol r)) as [[[[a1 tb] oq] lg] tv] eqn:Em.
    destruct (Hq (opp (o_side o0))) as [Hnd Hact].
    destruct (ref_match_life true (r_t r) _ _ _ _ _ _ _ _ _ _ Hnd Hact Em) as (Fa & Hrest).
    assert (Hr1 : r_orders r1 = tb).
    { destruct (status_eqb (o_status a1) SFilled); injection H as <- _; destruct (o_side o0), (o_side a1); reflexivity. }
    assert (Ho1 : o1 = a1) by (destruct (status_eqb (o_status a1) SFilled); injection H as _ <-; reflexivity).
    subst o1. rewrite Hr1. split; [assumption|]. intros j a Hj. destruct (Hrest j a Hj) as (b & Hb & L & _). exists b; auto.
  - assert (Hr1 : r_orders r1 = r_orders r).
    { destruct (status_eqb (o_status o0) SFilled); injection H as <- _; destruct (o_side o0); reflexivity. }
    assert (Ho1 : o1 = o0) by (destruct (status_eqb (o_status o0) SFilled); injection H as _ <-; reflexivity).
    subst o1. rewrite Hr1. split; [apply fill_rel_refl|]. intros j a Hj. exists a. auto using life_ok_refl.
Qed.

Lemma q_ok_remove r sd id : q_ok r -> q_ok (set_rq r sd (remove_id id (rq r sd))).
Proof.
  intros Hq sd'. assert (Hsub : forall q, NoDup q -> NoDup (remove_id id q) /\ forall x, In x (remove_id id q) -> In x q).
  { induction q as [|h q IH]; intros Hnd; cbn [remove_id]; [split; [constructor | auto]|].
    inversion Hnd as [|? ? Hh Hnd']; subst. destruct (IH Hnd') as [I1 I2].
    destruct (Nat.eqb h id); [split; [assumption | intros x Hx; right; assumption]|].
    split; [constructor; [intros C; apply Hh; apply I2; assumption | assumption]|].
    intros x [->|Hx]; [left; reflexivity | right; apply I2; assumption]. }
  destruct (Hq sd') as [Hnd Hact]. rewrite r_orders_set_rq.
  destruct sd, sd'; cbn [set_rq rq r_bidq r_askq] in *; try (split; assumption);
    destruct (Hsub _ Hnd) as [I1 I2]; (split; [assumption | intros x Hx; apply Hact; apply I2; assumption]).
Qed.

(** ** Operations of the reference engine *)
Lemma life_placed tr t o o1 :
  o_status o = SNew -> fill_rel t (set_arr (set_status o SActive) t) o1 ->
  (o_status o1 = SActive -> is_market o = false) -> life_ok tr t o o1.
Proof.
  intros Hs (A1 & A2 & A3 & A4 & A5 & A6 & A7) Hm. cbn in A1, A2, A3, A4, A5, A6, A7.
  unfold life_ok. rewrite Hs. cbn [terminal]. repeat split; auto; try discriminate.
  - destruct A7 as [[S _]|[S _]]; rewrite S; cbn; [rewrite Hm by assumption|]; reflexivity.
  - destruct A7 as [[S _]|[S _]]; rewrite S; cbn; assumption.
  - intros _. destruct A7 as [[S E]|[S E]]; rewrite S; cbn; assumption.
Qed.

Lemma life_market_done tr t o o1 :
  o_status o = SNew -> is_market o = true -> fill_rel t (set_arr (set_status o SActive) t) o1 ->
  life_ok tr t o (if status_eqb (o_status o1) SFilled then o1 else set_end (set_status o1 SCancelled) t).
Proof.
  intros Hs Hm (A1 & A2 & A3 & A4 & A5 & A6 & A7). cbn in A1, A2, A3, A4, A5, A6, A7.
  unfold life_ok. rewrite Hs, Hm. cbn [terminal].
  destruct A7 as [[S E]|[S E]]; rewrite S; cbn; rewrite ?S; cbn; repeat split; auto; try discriminate.
Qed.

Lemma ref_place_life r id r' : q_ok r -> ref_place r id = Some r' ->
  forall j a, nth_error (r_orders r) j = Some a ->
    exists b, nth_error (r_orders r') j = Some b /\ life_ok (r_trading r) (r_t r) a b.
Proof.
  intros Hq H. unfold ref_place in H. destruct (nth_error (r_orders r) id) as [o|] eqn:Hn; [|discriminate].
  destruct (status_eqb (o_status o) SNew) eqn:Es; cbn [negb] in H.
  2:{ injection H as <-. intros j a Hj. exists a. auto using life_ok_refl. }
  apply status_eqb_eq in Es.
  set (o0 := set_arr (set_status o SActive) (r_t r)) in *.
  assert (Hmk : is_market o0 = is_market o) by reflexivity.
  destruct (is_market o0) eqn:Em.
  - destruct (r_trading r) eqn:Htr.
    + destruct (ref_match (r_t r) o0 (r_orders r) (rq r (opp (o_side o0))) (r_trades r) (r_tvol r)) as [[[[a1 tb] oq] lg] tv] eqn:Emt.
      destruct (Hq (opp (o_side o0))) as [Hnd Hact].
      destruct (ref_match_life true (r_t r) _ _ _ _ _ _ _ _ _ _ Hnd Hact Emt) as (Fa & Hrest).
      injection H as <-. cbn [r_orders set_rorders]. rewrite r_orders_set_rq. cbn [r_orders].
      apply life_ok_set_nth.
      * intros j a Hj. destruct (Hrest j a Hj) as (b & Hb & L & _). exists b; auto.
      * intros a Ha. assert (a = o) by congruence; subst a. apply life_market_done; [assumption | congruence | exact Fa].
    + injection H as <-. cbn [r_orders set_rorders]. apply life_ok_set_nth.
      * intros j a Hj. exists a. auto using life_ok_refl.
      * intros a Ha. assert (a = o) by congruence; subst a.
        unfold life_ok. rewrite Es, <- Hmk. cbn. repeat split; auto; discriminate.
  - destruct (ref_arrive r o0) as [r1 o1] eqn:Ea. destruct (ref_arrive_life r o0 r1 o1 Hq Ea) as (Fa & Hrest).
    injection H as <-. cbn [r_orders set_rorders]. apply life_ok_set_nth; [exact Hrest|].
    intros a Ha. assert (a = o) by congruence; subst a. apply life_placed; [assumption | exact Fa | intros _; congruence].
Qed.

Lemma ref_cancel_life r id r' : ref_cancel r id = Some r' ->
  forall j a, nth_error (r_orders r) j = Some a ->
    exists b, nth_error (r_orders r') j = Some b /\ life_ok (r_trading r) (r_t r) a b.
Proof.
  intros H. unfold ref_cancel in H. destruct (nth_error (r_orders r) id) as [o|] eqn:Hn; [|discriminate].
  destruct (status_eqb (o_status o) SActive) eqn:Es; injection H as <-.
  2:{ intros j a Hj. exists a. auto using life_ok_refl. }
  apply status_eqb_eq in Es. rewrite r_orders_set_rq. cbn [r_orders set_rorders]. apply life_ok_set_nth.
  - intros j a Hj. exists a. auto using life_ok_refl.
  - intros a Ha. assert (a = o) by congruence; subst a. unfold life_ok. rewrite Es. cbn. repeat split; auto; discriminate.
Qed.

Lemma ref_replace_life r id o p v : q_ok r -> nth_error (r_orders r) id = Some o -> o_status o = SActive ->
  forall j a, nth_error (r_orders r) j = Some a ->
    exists b, nth_error (r_orders (ref_replace r id o p v)) j = Some b /\ life_ok (r_trading r) (r_t r) a b.
Proof.
  intros Hq Hn Hs. unfold ref_replace.
  set (r0 := set_rq r (o_side o) (remove_id id (rq r (o_side o)))).
  assert (Hq0 : q_ok r0) by (apply q_ok_remove; assumption).
  assert (Ho0 : r_orders r0 = r_orders r) by apply r_orders_set_rq.
  assert (Ht0 : r_t r0 = r_t r) by (unfold r0; destruct (o_side o); reflexivity).
  assert (Htr0 : r_trading r0 = r_trading r) by (unfold r0; destruct (o_side o); reflexivity).
  destruct (ref_arrive r0 (set_price (set_vol o v) p)) as [r1 o1] eqn:Ea.
  destruct (ref_arrive_life r0 _ r1 o1 Hq0 Ea) as (Fa & Hrest). rewrite Ho0, Ht0, Htr0 in *.
  cbn [r_orders set_rorders]. apply life_ok_set_nth; [exact Hrest|].
  intros a Ha. assert (a = o) by congruence; subst a.
  destruct Fa as (A1 & A2 & A3 & A4 & A5 & A6 & A7). cbn in A1, A2, A3, A4, A5, A6, A7.
  unfold life_ok. rewrite Hs. cbn [terminal status_eqb andb]. repeat split; auto; try discriminate.
  - destruct A7 as [[S _]|[S _]]; rewrite S; [rewrite Hs|]; reflexivity.
  - intros _. destruct A7 as [[S E]|[S E]]; rewrite S; [rewrite Hs|]; cbn; assumption.
Qed.

Lemma ref_modify_life r id np nv r' : q_ok r -> ref_modify r id np nv = Some r' ->
  forall j a, nth_error (r_orders r) j = Some a ->
    exists b, nth_error (r_orders r') j = Some b /\ life_ok (r_trading r) (r_t r) a b.
Proof.
  intros Hq H. unfold ref_modify in H. destruct (nth_error (r_orders r) id) as [o|] eqn:Hn; [|discriminate].
  assert (Hid : forall j a, nth_error (r_orders r) j = Some a -> exists b, nth_error (r_orders r) j = Some b /\ life_ok (r_trading r) (r_t r) a b)
    by (intros j a Hj; exists a; auto using life_ok_refl).
  destruct (match np with Some p => negb (p mod r_tick r =? 0) | None => false end); [injection H as <-; exact Hid|].
  destruct (status_eqb (o_status o) SActive) eqn:Es; cbn [negb] in H; [|injection H as <-; exact Hid].
  apply status_eqb_eq in Es.
  destruct np as [p|], nv as [v|]; try (injection H as <-); try (apply ref_replace_life; assumption); try exact Hid.
  destruct (v <? o_vol o); injection H as <-; [|apply ref_replace_life; assumption].
  cbn [r_orders set_rorders]. apply life_ok_set_nth; [exact Hid|].
  intros a Ha. assert (a = o) by congruence; subst a. unfold life_ok. rewrite Es. cbn. rewrite ?Es. cbn. repeat split; auto; try discriminate.
Qed.

Lemma ref_create_life r sd v tr p r' c : ref_create r sd v tr p = (r', c) ->
  (forall j a, nth_error (r_orders r) j = Some a -> nth_error (r_orders r') j = Some a) /\
  rq r' Bid = rq r Bid /\ rq r' Ask = rq r Ask /\ r_t r' = r_t r /\ r_trading r' = r_trading r /\
  match c with
  | Created id => id = length (r_orders r) /\
      nth_error (r_orders r') id = Some (mkOrder sd SNew (r_t r) MAXT v v
                                           (match p with Some p => p | None => match sd with Bid => MAXP | Ask => 0 end end) tr id)
  | PriceError _ _ => r' = r
  end.
Proof.
  unfold ref_create. intros H.
  assert (Hmk : forall px, (set_rorders r (r_orders r ++ [mkOrder sd SNew (r_t r) MAXT v v px tr (length (r_orders r))]), Created (length (r_orders r))) = (r', c) ->
     (forall j a, nth_error (r_orders r) j = Some a -> nth_error (r_orders r') j = Some a) /\
     rq r' Bid = rq r Bid /\ rq r' Ask = rq r Ask /\ r_t r' = r_t r /\ r_trading r' = r_trading r /\
     match c with Created id => id = length (r_orders r) /\ nth_error (r_orders r') id = Some (mkOrder sd SNew (r_t r) MAXT v v px tr id)
             | PriceError _ _ => r' = r end).
  { intros px E. injection E as <- <-. cbn [r_orders set_rorders rq r_bidq r_askq r_t r_trading]. repeat split; auto.
    - intros j a Hj. rewrite nth_error_app1; [assumption | apply nth_error_Some; congruence].
    - rewrite nth_error_app2, Nat.sub_diag by lia. reflexivity. }
  destruct p as [p|]; [destruct (p mod r_tick r =? 0)|]; try (apply Hmk; assumption).
  injection H as <- <-. repeat split; auto.
Qed.

Lemma q_ok_create r sd v tr p r' c : q_ok r -> ref_create r sd v tr p = (r', c) -> q_ok r'.
Proof.
  intros Hq H. destruct (ref_create_life _ _ _ _ _ _ _ H) as (Hsame & Eb & Ea & _). intros sd'.
  destruct (Hq sd') as [Hnd Hact]. assert (E : rq r' sd' = rq r sd') by (destruct sd'; assumption). rewrite E.
  split; [assumption|]. intros id Hin. destruct (Hact id Hin) as (p0 & Hp0 & Hs0). exists p0. auto.
Qed.

Theorem ref_step_life r o r' x : q_ok r -> ref_step r o = Some (r', x) ->
  forall j a, nth_error (r_orders r) j = Some a ->
    exists b, nth_error (r_orders r') j = Some b /\ life_ok (r_trading r) (r_t r) a b.
Proof.
  intros Hq H. assert (Hid : forall j a, nth_error (r_orders r) j = Some a -> exists b, nth_error (r_orders r) j = Some b /\ life_ok (r_trading r) (r_t r) a b)
    by (intros j a Hj; exists a; auto using life_ok_refl).
  destruct o; cbn [ref_step] in H.
  - destruct (ref_create r sd vol trader price) as [r1 c] eqn:E. injection H as <- _.
    destruct (ref_create_life _ _ _ _ _ _ _ E) as (Hsame & _). intros j a Hj. exists a. auto using life_ok_refl.
  - destruct (ref_create r sd vol trader price) as [r1 c] eqn:E.
    destruct (ref_create_life _ _ _ _ _ _ _ E) as (Hsame & _ & _ & Et & Etr & _).
    pose proof (q_ok_create _ _ _ _ _ _ _ Hq E) as Hq1.
    destruct c as [id|p t].
    + destruct (ref_place r1 id) as [r2|] eqn:Ep; [|discriminate]. cbn in H. injection H as <- _.
      intros j a Hj. rewrite <- Et, <- Etr. apply (ref_place_life r1 id r2 Hq1 Ep). apply Hsame; assumption.
    + injection H as <- _. intros j a Hj. exists a. auto using life_ok_refl.
  - destruct (ref_place r id) as [r2|] eqn:Ep; [|discriminate]. cbn in H. injection H as <- _. eapply ref_place_life; eassumption.
  - destruct (ref_cancel r id) as [r2|] eqn:Ep; [|discriminate]. cbn in H. injection H as <- _. eapply ref_cancel_life; eassumption.
  - destruct (ref_modify r id new_price new_vol) as [r2|] eqn:Ep; [|discriminate]. cbn in H. injection H as <- _. eapply ref_modify_life; eassumption.
  - destruct ev; cbn in H.
    + destruct (ref_place r id) as [r2|] eqn:Ep; [|discriminate]. cbn in H. injection H as <- _. eapply ref_place_life; eassumption.
    + destruct (ref_cancel r id) as [r2|] eqn:Ep; [|discriminate]. cbn in H. injection H as <- _. eapply ref_cancel_life; eassumption.
    + destruct (ref_modify r id new_price new_vol) as [r2|] eqn:Ep; [|discriminate]. cbn in H. injection H as <- _. eapply ref_modify_life; eassumption.
  - injection H as <- _. exact Hid.
  - injection H as <- _. exact Hid.
  - injection H as <- _. exact Hid.
  - injection H as <- _. exact Hid.
  - injection H as <- _. exact Hid.
Qed.

(** ** The model *)
Theorem step_raw_life s o s' x :
  Inv s -> op_u32 o -> step_raw s o = Ok (s', x) ->
  forall j a, nth_error (tbl s) j = Some a ->
    exists b, nth_error (tbl s') j = Some b /\ life_ok (b_trading s) (b_t s) a b.
Proof.
  intros Hinv Hu H. destruct (step_raw_inv_all s o s' x Hinv Hu H) as [R _].
  exact (ref_step_life (abs s) o (abs s') x (q_ok_abs s (proj1 Hinv)) R).
Qed.

(** a created order starts its life New, stamped with the book time, no end time, whole volume;
    if it is placed in the same call, what the table then holds is one lifecycle step away *)
Theorem step_raw_created s sd v tr p s' id :
  Inv s -> op_u32 (OCreate sd v tr p) -> step_raw s (OCreate sd v tr p) = Ok (s', OCreated (Created id)) ->
  id = length (tbl s) /\ length (tbl s') = S (length (tbl s)) /\
  nth_error (tbl s') id = Some (mkOrder sd SNew (b_t s) MAXT v v
                                  (match p with Some p => p | None => match sd with Bid => MAXP | Ask => 0 end end) tr id).
Proof.
  intros Hinv Hu H. destruct (step_raw_inv_all s _ s' _ Hinv Hu H) as [R _]. cbn [ref_step] in R.
  destruct (ref_create (abs s) sd v tr p) as [r1 c] eqn:E. injection R as E1 E2. subst r1 c.
  destruct (ref_create_life _ _ _ _ _ _ _ E) as (_ & _ & _ & _ & _ & Hid & Hn). cbn [abs r_orders r_t] in *.
  repeat split; try assumption.
  clear Hn Hid. unfold ref_create in E.
  destruct p as [p|]; [destruct (p mod r_tick (abs s) =? 0)|]; try discriminate E;
    apply (f_equal (fun z => length (r_orders (fst z)))) in E; cbn [fst r_orders set_rorders abs] in E;
    rewrite <- E, app_length; cbn; lia.
Qed.

Definition fresh_order (t : N) (o : op) (id : nat) : option order :=
  match o with
  | OCreate sd v tr p | OCreatePlace sd v tr p =>
      Some (mkOrder sd SNew t MAXT v v (match p with Some p => p | None => match sd with Bid => MAXP | Ask => 0 end end) tr id)
  | _ => None
  end.

Lemma create_order_t_trading s sd v tr p s1 c :
  create_order s sd v tr p = (s1, c) -> b_t s1 = b_t s /\ b_trading s1 = b_trading s.
Proof. unfold create_order. intros H. destruct p as [p|]; [destruct (p mod b_tick s =? 0)|]; injection H as <- _; auto. Qed.

(** the order created by a call, as the table holds it after the call (placed or not) *)
Theorem step_raw_fresh s o s' id :
  Inv s -> op_u32 o -> step_raw s o = Ok (s', OCreated (Created id)) ->
  exists a b, fresh_order (b_t s) o id = Some a /\ id = length (tbl s) /\
              nth_error (tbl s') id = Some b /\ life_ok (b_trading s) (b_t s) a b.
Proof.
  intros Hinv Hu H. destruct o; cbn [step_raw] in H;
    try (match type of H with (do _ <- ?X; _) = _ => destruct X; [|discriminate] end; cbn in H; discriminate);
    try discriminate.
  - destruct (step_raw_created s sd vol trader price s' id Hinv Hu H) as (Hid & _ & Hn).
    eexists; eexists. split; [reflexivity|]. split; [assumption|]. split; [exact Hn | apply life_ok_refl].
  - unfold create_and_place_order in H. destruct (create_order s sd vol trader price) as [s1 c] eqn:E.
    destruct c as [id0|pp tt]; [|cbn in H; discriminate].
    destruct (place_order s1 id0) as [s2|] eqn:Hp; [|discriminate]. cbn in H. injection H as <- <-.
    assert (H1 : step_raw s (OCreate sd vol trader price) = Ok (s1, OCreated (Created id0))) by (cbn [step_raw]; rewrite E; reflexivity).
    destruct (step_raw_created s sd vol trader price s1 id0 Hinv Hu H1) as (Hid & _ & Hn).
    destruct (step_raw_inv_all s (OCreate sd vol trader price) s1 _ Hinv Hu H1) as [_ Hinv1].
    assert (H2 : step_raw s1 (OPlace id0) = Ok (s2, ONone)) by (cbn [step_raw]; rewrite Hp; reflexivity).
    destruct (step_raw_life s1 (OPlace id0) s2 ONone Hinv1 I H2 id0 _ Hn) as (b & Hb & L).
    destruct (create_order_t_trading _ _ _ _ _ _ _ E) as [Et Etr]. rewrite Et, Etr in L.
    eexists; exists b. split; [reflexivity|]. auto.
Qed.

(** a Filled, Cancelled or Rejected order never changes again, whatever follows *)
Theorem run_terminal_forever ops : forall s s' xs,
  Inv s -> Forall op_u32 ops -> run_outs s ops = Ok (s', xs) ->
  forall j a, nth_error (tbl s) j = Some a -> terminal (o_status a) = true -> nth_error (tbl s') j = Some a.
Proof.
  induction ops as [|o r IH]; intros s s' xs Hinv Hu H j a Hj Ht; cbn in H.
  - injection H as <- _. assumption.
  - unfold step in H. destruct (step_raw s o) as [[s1 x]|] eqn:E; [|discriminate]. cbn in H.
    destruct (bounded s1); [|discriminate]. cbn in H.
    destruct (run_outs s1 r) as [[s2 xs2]|] eqn:E2; [|discriminate]. cbn in H. injection H as <- _.
    inversion Hu as [|? ? H1 H2]; subst.
    destruct (step_raw_inv_all s o s1 x Hinv H1 E) as [_ Hinv1].
    destruct (step_raw_life s o s1 x Hinv H1 E j a Hj) as (b & Hb & L).
    destruct L as (_ & _ & _ & _ & _ & Hterm & _). rewrite (Hterm Ht) in Hb.
    eapply IH; eassumption.
Qed.
