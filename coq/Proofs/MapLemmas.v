(** * Lemmas about the sorted association lists that model the two BTreeMaps *)
From Bourse Require Import Model.Types Model.Map Proofs.Basic.
From Coq Require Import ZifyBool ZifyNat ZifyN Sorting.Sorted.

Ltac inv H := inversion H; subst; clear H.

Definition kltP (a b : key * nat) : Prop := klt (fst a) (fst b) = true.
Definition ksorted (l : list (key * nat)) : Prop := StronglySorted kltP l.

Lemma klt_irrefl k : klt k k = false.
Proof. unfold klt. destruct k as [p t]; cbn. lia. Qed.
Lemma klt_trans a b c : klt a b = true -> klt b c = true -> klt a c = true.
Proof. unfold klt. destruct a, b, c; cbn. lia. Qed.
Lemma keq_spec a b : keq a b = true <-> a = b.
Proof. unfold keq. destruct a, b; cbn. split; [intros H; f_equal; lia | intros H; inv H; lia]. Qed.
Lemma klt_keq_false a b : klt a b = true -> keq a b = false.
Proof. unfold klt, keq. destruct a, b; cbn. lia. Qed.
Lemma klt_total a b : klt a b = false -> keq a b = false -> klt b a = true.
Proof. unfold klt, keq. destruct a, b; cbn. lia. Qed.

Lemma ksorted_tail x l : ksorted (x :: l) -> ksorted l.
Proof. intros H; inv H; assumption. Qed.
Lemma ksorted_head x l y : ksorted (x :: l) -> In y l -> klt (fst x) (fst y) = true.
Proof. intros H Hy; inv H. rewrite Forall_forall in H3. apply H3; assumption. Qed.

(** the head of a sorted map has the smallest key *)
Lemma ksorted_head_min x l y : ksorted (x :: l) -> In y (x :: l) -> klt (fst y) (fst x) = false.
Proof.
  intros H [<-|Hy]; [apply klt_irrefl|].
  pose proof (ksorted_head _ _ _ H Hy) as Hlt.
  destruct (klt (fst y) (fst x)) eqn:E; [|reflexivity].
  pose proof (klt_trans _ _ _ Hlt E) as C. rewrite klt_irrefl in C. discriminate.
Qed.

Lemma In_kinsert k v l x : In x (kinsert k v l) -> x = (k, v) \/ In x l.
Proof.
  induction l as [|[k' v'] t IH]; cbn; [intuition|].
  destruct (klt k k'); [cbn; intuition|].
  destruct (keq k k'); cbn; intuition.
Qed.

Lemma kinsert_sorted k v l : ksorted l -> ksorted (kinsert k v l).
Proof.
  induction l as [|[k' v'] t IH]; intros Hs; cbn.
  - constructor; constructor.
  - destruct (klt k k') eqn:E1.
    + constructor; [exact Hs|]. constructor; [exact E1|].
      rewrite Forall_forall. intros y Hy. unfold kltP; cbn.
      eapply klt_trans; [exact E1|]. apply (ksorted_head _ _ _ Hs Hy).
    + destruct (keq k k') eqn:E2.
      * apply keq_spec in E2; subst k'. inv Hs. constructor; assumption.
      * inv Hs. constructor; [apply IH; assumption|].
        rewrite Forall_forall. intros y Hy. apply In_kinsert in Hy. destruct Hy as [->|Hy].
        -- unfold kltP; cbn. apply klt_total; assumption.
        -- rewrite Forall_forall in H2. apply H2; assumption.
Qed.

Lemma In_kremove k l x : In x (kremove k l) -> In x l.
Proof.
  induction l as [|[k' v'] t IH]; cbn; [intuition|].
  destruct (keq k k'); cbn; intuition.
Qed.

Lemma kremove_sorted k l : ksorted l -> ksorted (kremove k l).
Proof.
  induction l as [|[k' v'] t IH]; intros Hs; cbn; [constructor|].
  destruct (keq k k'); [eapply ksorted_tail; eauto|].
  inv Hs. constructor; [apply IH; assumption|].
  rewrite Forall_forall in *. intros y Hy. apply H2. eapply In_kremove; eauto.
Qed.

(** keys of a sorted map are unique *)
Lemma ksorted_key_unique l k v1 v2 : ksorted l -> In (k, v1) l -> In (k, v2) l -> v1 = v2.
Proof.
  induction l as [|x t IH]; intros Hs H1 H2; [contradiction|].
  destruct H1 as [->|H1], H2 as [E|H2].
  - congruence.
  - pose proof (ksorted_head _ _ _ Hs H2) as C. cbn in C. rewrite klt_irrefl in C. discriminate.
  - subst x. pose proof (ksorted_head _ _ _ Hs H1) as C. cbn in C. rewrite klt_irrefl in C. discriminate.
  - eapply IH; eauto. eapply ksorted_tail; eauto.
Qed.

(** [klast_at]: the last (largest) time-stamp at a price *)
Lemma klast_at_none p l : klast_at p l = None -> forall t v, In ((p, t), v) l -> False.
Proof.
  induction l as [|[[p' t'] v'] r IH]; cbn; intros H t v Hin; [contradiction|].
  destruct (klast_at p r) eqn:E; [discriminate|].
  destruct (p' =? p) eqn:Ep; [discriminate|].
  destruct Hin as [Hin|Hin]; [inv Hin; lia | eapply IH; eauto].
Qed.

Lemma klast_at_max p l tl : ksorted l -> klast_at p l = Some tl ->
  forall t v, In ((p, t), v) l -> t <= tl.
Proof.
  induction l as [|[[p' t'] v'] r IH]; cbn; intros Hs H t v Hin; [contradiction|].
  destruct (klast_at p r) as [x|] eqn:E.
  - inv H. destruct Hin as [Hin|Hin].
    + inv Hin.
      (* the head is below every later key; some later key has price p and time tl *)
      assert (Hex : exists v2, In ((p, tl), v2) r).
      { clear - E. induction r as [|[[p2 t2] v2] r2 IH2]; cbn in E; [discriminate|].
        destruct (klast_at p r2) eqn:E2.
        - inv E. destruct (IH2 eq_refl) as [v3 H3]. exists v3; right; assumption.
        - destruct (p2 =? p) eqn:Ep; [|discriminate]. inv E. exists v2; left. f_equal. f_equal. lia. }
      destruct Hex as [v2 H2]. pose proof (ksorted_head _ _ _ Hs H2) as C. unfold klt in C; cbn in C. lia.
    + eapply IH; eauto. eapply ksorted_tail; eauto.
  - destruct (p' =? p) eqn:Ep; [|discriminate]. inv H.
    destruct Hin as [Hin|Hin]; [inv Hin; lia|]. exfalso. eapply klast_at_none; eauto.
Qed.

(** ** Volume map *)
Definition vsorted (m : vmap) : Prop := StronglySorted (fun a b => fst a < fst b) m.

Lemma vget_vset_same p x m : vget p (vset p x m) = Some x.
Proof.
  induction m as [|[p' x'] t IH]; cbn; [rewrite N.eqb_refl; reflexivity|].
  destruct (p <? p') eqn:E1; cbn; [rewrite N.eqb_refl; reflexivity|].
  destruct (p =? p') eqn:E2; cbn; [rewrite N.eqb_refl; reflexivity|].
  replace (p' =? p) with false by lia. exact IH.
Qed.

Lemma vget_lt_head p m : vsorted m -> (forall y, In y m -> p < fst y) -> vget p m = None.
Proof.
  induction m as [|[p' x'] t IH]; intros Hs H; cbn; [reflexivity|].
  pose proof (H (p', x') (or_introl eq_refl)) as Hh. cbn in Hh.
  replace (p' =? p) with false by lia. apply IH; [inv Hs; assumption | intros y Hy; apply H; right; assumption].
Qed.

Lemma vget_vset_other p q x m : vsorted m -> p <> q -> vget q (vset p x m) = vget q m.
Proof.
  induction m as [|[p' x'] t IH]; intros Hs Hne; cbn.
  - replace (p =? q) with false by lia. reflexivity.
  - destruct (p <? p') eqn:E1; cbn.
    + replace (p =? q) with false by lia. reflexivity.
    + destruct (p =? p') eqn:E2; cbn.
      * assert (p = p') by lia; subst p'. replace (p =? q) with false by lia. reflexivity.
      * destruct (p' =? q); [reflexivity|]. apply IH; [inv Hs; assumption | assumption].
Qed.

Lemma In_vset p x m y : In y (vset p x m) -> y = (p, x) \/ In y m.
Proof.
  induction m as [|[p' x'] t IH]; cbn; [intuition|].
  destruct (p <? p'); [cbn; intuition|]. destruct (p =? p'); cbn; intuition.
Qed.

Lemma vset_sorted p x m : vsorted m -> vsorted (vset p x m).
Proof.
  induction m as [|[p' x'] t IH]; intros Hs; cbn.
  - constructor; constructor.
  - destruct (p <? p') eqn:E1.
    + constructor; [exact Hs|]. constructor; [cbn; lia|].
      inv Hs. rewrite Forall_forall in *. intros y Hy. cbn. specialize (H2 y Hy). cbn in H2. lia.
    + destruct (p =? p') eqn:E2.
      * assert (p = p') by lia; subst p'. inv Hs. constructor; assumption.
      * inv Hs. constructor; [apply IH; assumption|].
        rewrite Forall_forall in *. intros y Hy. apply In_vset in Hy. destruct Hy as [->|Hy]; [cbn; lia | apply H2; assumption].
Qed.

Lemma In_vremove p m y : In y (vremove p m) -> In y m.
Proof. induction m as [|[p' x'] t IH]; cbn; [intuition|]. destruct (p' =? p); cbn; intuition. Qed.

Lemma vremove_sorted p m : vsorted m -> vsorted (vremove p m).
Proof.
  induction m as [|[p' x'] t IH]; intros Hs; cbn; [constructor|].
  destruct (p' =? p); [inv Hs; assumption|].
  inv Hs. constructor; [apply IH; assumption|].
  rewrite Forall_forall in *. intros y Hy. apply H2. eapply In_vremove; eauto.
Qed.

Lemma vget_vremove_same p m : vsorted m -> vget p (vremove p m) = None.
Proof.
  induction m as [|[p' x'] t IH]; intros Hs; cbn; [reflexivity|].
  destruct (p' =? p) eqn:E.
  - assert (p' = p) by lia; subst p'. inv Hs. apply vget_lt_head; [assumption|].
    rewrite Forall_forall in H2. intros y Hy. apply (H2 y Hy).
  - cbn. rewrite E. apply IH. inv Hs; assumption.
Qed.

Lemma vget_vremove_other p q m : p <> q -> vget q (vremove p m) = vget q m.
Proof.
  induction m as [|[p' x'] t IH]; intros Hne; cbn; [reflexivity|].
  destruct (p' =? p) eqn:E; cbn.
  - replace (p' =? q) with false by lia. reflexivity.
  - destruct (p' =? q); [reflexivity | apply IH; assumption].
Qed.
