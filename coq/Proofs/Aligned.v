(** * C11: after k steps every recorded series of every asset has exactly k entries - as an
    invariant from construction through every environment operation *)
From Bourse Require Import Model.Types Model.Map Model.Side Model.Book Model.Obs Model.Rng Model.Env
  Proofs.Basic Proofs.EnvProps Proofs.CacheInv.

Ltac inv H := inversion H; subst; clear H.

Definition Aligned (k : nat) (e : menv) : Prop :=
  length (en_hist e) = length (en_market e) /\ length (en_tvols e) = length (en_market e) /\
  Forall (fun h => length h = k) (en_hist e) /\ Forall (fun t => length t = k) (en_tvols e).

Lemma market_new_len t0 : forall ticks tr m, market_new t0 ticks tr = Ok m -> length m = length ticks.
Proof.
  induction ticks as [|tk r IH]; intros tr m H; cbn [market_new] in H; [inv H; reflexivity|].
  destruct (book_new t0 tk tr) as [b|]; [|discriminate]. cbn [rbind] in H.
  destruct (market_new t0 r tr) as [m1|] eqn:Em; [|discriminate]. cbn [rbind] in H. inv H. cbn. f_equal. eapply IH; exact Em.
Qed.

Theorem aligned_new L t0 ticks step trading e : menv_new L t0 ticks step trading = Ok e -> Aligned 0 e.
Proof.
  unfold menv_new. destruct (market_new t0 ticks trading) as [m|] eqn:Em; [|discriminate]. cbn [rbind].
  destruct (all_l2 L m) as [l2|]; [|discriminate]. cbn [rbind]. intros H. inv H. unfold Aligned. cbn.
  rewrite !map_length, (market_new_len _ _ _ _ Em). repeat split; apply Forall_forall; intros x Hx; apply in_map_iff in Hx; destruct Hx as (? & <- & _); reflexivity.
Qed.

Lemma Forall2_snoc_len {A} (k : nat) (l l' : list (list A)) :
  Forall2 (fun h h' => exists d, h' = h ++ [d]) l l' -> Forall (fun h => length h = k) l -> Forall (fun h => length h = S k) l'.
Proof.
  intros H. induction H as [|h h' t t' (d & ->) Ht IH]; intros Hl; [constructor|].
  inv Hl. constructor; [rewrite app_length; cbn; lia | apply IH; assumption].
Qed.

Lemma Forall2_len {A B} (R : A -> B -> Prop) l l' : Forall2 R l l' -> length l = length l'.
Proof. intros H. induction H; cbn; congruence. Qed.

Theorem aligned_step L e g e' g' k : Aligned k e -> menv_step L e g = Ok (e', g') -> Aligned (S k) e'.
Proof.
  intros (Hh & Ht & Fh & Ft) H. destruct (records_grow L e g e' g' H Hh Ht) as [Gh Gt].
  assert (Hlen : length (en_market e') = length (en_market e)).
  { apply step_spec in H. destruct H as (start & q & m1 & l2 & _ & _ & _ & Hp & Hm & _).
    rewrite Hm. unfold market_set_time. rewrite map_length. apply process_all_length in Hp. rewrite Hp. apply map_length. }
  unfold Aligned. rewrite <- (Forall2_len _ _ _ Gh), <- (Forall2_len _ _ _ Gt), Hlen.
  repeat split; auto; eapply Forall2_snoc_len; eassumption.
Qed.

Theorem aligned_other L e g o e' g' x k :
  env_op o -> o <> EStep -> Aligned k e -> menv_apply L e g o = Ok (e', g', x) -> Aligned k e'.
Proof.
  intros Ho Hs (Hh & Ht & Fh & Ft) H. destruct o; try contradiction; cbn [menv_apply] in H.
  - destruct (menv_place e a sd vol trader price) as [[e1 c]|] eqn:Ep; [|discriminate]. cbn in H. inv H.
    pose proof (submission_invisible _ _ _ _ _ _ _ _ Ep) as (_ & Et & Eh & _ & Sc).
    assert (Hlen : length (en_market e') = length (en_market e)).
    { destruct c as [id|pp tt]; [|rewrite Sc; reflexivity].
      unfold menv_place in Ep. destruct (nth_error (en_market e) a) as [b|]; [|discriminate].
      destruct (create_order b sd vol trader price) as [b' c'] eqn:Hcr. destruct c' as [i|? ?]; [|inv Ep].
      destruct (upd_nth (en_market e) a (fun _ => Ok b')) as [m'|] eqn:Hu; [|discriminate]. cbn in Ep. inv Ep.
      cbn [en_market push_event set_market]. apply upd_nth_local in Hu. tauto. }
    unfold Aligned. rewrite Et, Eh, Hlen. auto.
  - inv H. unfold Aligned. cbn. auto.
  - inv H. unfold Aligned. cbn. auto.
  - inv H. unfold Aligned. cbn [en_market en_hist en_tvols set_market]. rewrite map_length. auto.
  - inv H. unfold Aligned. cbn [en_market en_hist en_tvols set_market]. rewrite map_length. auto.
Qed.
