(** * Agent-level theorems (C16, C17): what can be said without real-number
    reasoning about the float pipeline *)
From Bourse Require Import Model.Types Model.Side Model.Book Model.Obs Model.Rng Model.Float Model.Env Model.Agents.
From Coq Require Import ZArith ZifyBool ZifyNat ZifyN Lia.

Ltac inv H := inversion H; subst; clear H.

(** ** Probabilities 0 and 1: never / always *)
Lemma draw_never_below_zero k : f32_draw_lt k 0 = false.
Proof.
  unfold f32_draw_lt. cbn. apply N.ltb_ge. apply N.le_0_l.
Qed.

(** [1.0f32] has bits [0x3F800000]; every draw [k * 2^-24] with [k < 2^24] is below it *)
Lemma draw_always_below_one k : k < 16777216 -> f32_draw_lt k 1065353216 = true.
Proof.
  intros H. unfold f32_draw_lt. cbn.
  rewrite !N.shiftl_mul_pow2. apply N.ltb_lt.
  change (2 ^ 127) with (2 * 2 ^ 126). nia.
Qed.

(** the [f32] draw numerator is always below [2^24] *)
Lemma f32_num_bound g : fst (gen_f32_num g) < 16777216.
Proof.
  unfold gen_f32_num. destruct (next_u32 g) as [v g'] eqn:E. cbn [fst].
  unfold next_u32 in E. destruct (next_u64 g) as [r g2]. inv E.
  assert (Hm : m32 r < 4294967296).
  { unfold m32, M32. change 4294967295 with (N.ones 32). rewrite N.land_ones. apply N.mod_lt. discriminate. }
  rewrite N.shiftr_div_pow2. change (2 ^ 8) with 256. apply N.div_lt_upper_bound; lia.
Qed.

(** ** Index sampling stays in range, so random agents quote inside their tick range *)
Lemma c_u32_bound c : fst (c_u32 c) < 4294967296.
Proof.
  unfold c_u32. destruct (c_u64 c) as [w c2]. cbn [fst]. unfold m32, M32.
  change 4294967295 with (N.ones 32). rewrite N.land_ones. apply N.mod_lt. discriminate.
Qed.

Lemma c_below_range fuel range c x c' :
  0 < range -> c_below fuel range c = Some (x, c') -> x < range.
Proof.
  intros Hr. revert c. induction fuel as [|f IH]; intros c H; cbn [c_below] in H; [discriminate|].
  pose proof (c_u32_bound c) as Hv.
  destruct (c_u32 c) as [v c1]. cbn [fst] in Hv.
  destruct (m32 (v * range) <=? zone_of range).
  - assert (Hx : N.shiftr (v * range) 32 = x) by congruence.
    rewrite <- Hx. rewrite N.shiftr_div_pow2.
    apply N.div_lt_upper_bound; [apply N.pow_nonzero; discriminate|].
    assert (E : 2 ^ 32 = 4294967296) by reflexivity. rewrite E. nia.
  - eapply IH; eauto.
Qed.

Lemma c_range_spec lo hi c x c' : c_range lo hi c = Ok (x, c') -> lo <= x < hi.
Proof.
  unfold c_range. intros H. destruct (hi <=? lo) eqn:E; [discriminate|].
  destruct (c_below FUEL (hi - lo) c) as [[y c1]|] eqn:B; [|discriminate].
  assert (Hx : lo + y = x) by congruence.
  apply c_below_range in B; lia.
Qed.

(** ** Prices handed to the environment by the noise / momentum helpers are on the grid *)
Lemma snap_on_grid p tick q : snap_to_grid p tick = Ok q -> q mod tick = 0 /\ q <= p.
Proof.
  unfold snap_to_grid. destruct (tick =? 0) eqn:E; [discriminate|]. intros H; inv H.
  assert (tick <> 0) by lia.
  pose proof (N.mod_le p tick H). split; [|lia].
  rewrite (N.div_mod p tick H) at 1.
  rewrite N.add_sub, N.mul_comm. apply N.mod_mul; assumption.
Qed.

(** ** C17: the direction of a momentum agent's orders is the sign of M, and M = 0 trades nothing *)
Lemma mom_flat_no_orders ln e c a p mid pl pm trader live e' c' live' :
  mom_trader ln e c a p mid f_zero pl pm trader live = Ok (e', c', live') ->
  e' = e /\ live' = live.
Proof.
  unfold mom_trader. destruct (c_f64 c) as [k c1].
  assert (Hz1 : fgt f_zero f_zero = false) by reflexivity.
  assert (Hz2 : flt f_zero f_zero = false) by reflexivity.
  rewrite Hz1, Hz2.
  destruct (flt _ pl); cbn; destruct (c_f64 c1) as [k2 c3]; destruct (flt _ pm); intros H; inv H; auto.
Qed.

(** the trading probability goes through [fabs], and [fabs] forgets the sign *)
Lemma fabs_opp (x : f64) : fabs (BinarySingleNaN.Bopp x) = fabs x.
Proof. destruct x; reflexivity. Qed.
