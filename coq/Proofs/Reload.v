(** * Snapshot reload: rebuilding both side indexes from the order list gives
    back exactly the state that was saved ([of_snapshot (to_snapshot s) = s]) *)
From Bourse Require Import Model.Types Model.Map Model.Side Model.Book Model.Obs Spec.RefBook
  Proofs.Basic Proofs.MapLemmas Proofs.Refine Proofs.Volumes.
From Coq Require Import ZifyBool ZifyNat ZifyN Sorting.Sorted Permutation.

Local Arguments N.sub : simpl never.
Local Arguments N.add : simpl never.
Local Arguments N.eqb : simpl never.
Local Arguments N.leb : simpl never.
Local Arguments N.ltb : simpl never.

(** ** Sorted maps are determined by their contents *)
Lemma ksorted_ext l : forall l', ksorted l -> ksorted l' -> (forall y, In y l <-> In y l') -> l = l'.
Proof.
  induction l as [|x t IH]; intros [|x' t'] Hs Hs' H.
  - reflexivity.
  - destruct (proj2 (H x') (or_introl eq_refl)).
  - destruct (proj1 (H x) (or_introl eq_refl)).
  - assert (Hx : x = x').
    { destruct (proj1 (H x) (or_introl eq_refl)) as [E|Hin]; [auto|].
      destruct (proj2 (H x') (or_introl eq_refl)) as [E|Hin']; [auto|].
      pose proof (ksorted_head _ _ _ Hs' Hin) as C1. pose proof (ksorted_head _ _ _ Hs Hin') as C2.
      pose proof (klt_trans _ _ _ C1 C2) as C. rewrite klt_irrefl in C. discriminate. }
    subst x'. f_equal. apply IH; [eapply ksorted_tail; eauto | eapply ksorted_tail; eauto |].
    intros y. split; intros Hy.
    + destruct (proj1 (H y) (or_intror Hy)) as [E|Hin]; [|assumption]. subst y.
      pose proof (ksorted_head _ _ _ Hs Hy) as C. rewrite klt_irrefl in C. discriminate.
    + destruct (proj2 (H y) (or_intror Hy)) as [E|Hin]; [|assumption]. subst y.
      pose proof (ksorted_head _ _ _ Hs' Hy) as C. rewrite klt_irrefl in C. discriminate.
Qed.

Lemma vget_in p x m : vget p m = Some x -> In (p, x) m.
Proof.
  induction m as [|[p' x'] t IH]; cbn [vget]; [discriminate|].
  destruct (p' =? p) eqn:E; intros H.
  - injection H as <-. left. f_equal. lia.
  - right. apply IH; assumption.
Qed.

Lemma vsorted_tail a m : vsorted (a :: m) -> vsorted m.
Proof. intros H; inversion H; assumption. Qed.
Lemma vsorted_head a m y : vsorted (a :: m) -> In y m -> fst a < fst y.
Proof. intros H Hy; inversion H as [|? ? ? Hall]; subst. rewrite Forall_forall in Hall. apply Hall; assumption. Qed.

Lemma vsorted_ext m : forall m', vsorted m -> vsorted m' -> (forall p, vget p m = vget p m') -> m = m'.
Proof.
  induction m as [|[k x] t IH]; intros [|[k' x'] t'] Hs Hs' H.
  - reflexivity.
  - specialize (H k'). cbn [vget] in H. rewrite N.eqb_refl in H. discriminate.
  - specialize (H k). cbn [vget] in H. rewrite N.eqb_refl in H. discriminate.
  - assert (Hk : k = k').
    { pose proof (H k) as H1. pose proof (H k') as H2. cbn [vget] in H1, H2. rewrite N.eqb_refl in H1, H2.
      destruct (k' =? k) eqn:E1; [lia|]. destruct (k =? k') eqn:E2; [lia|].
      symmetry in H1. apply vget_in in H1. apply vget_in in H2.
      pose proof (vsorted_head _ _ _ Hs' H1) as C1. pose proof (vsorted_head _ _ _ Hs H2) as C2. cbn [fst] in C1, C2. lia. }
    subst k'. pose proof (H k) as H1. cbn [vget] in H1. rewrite N.eqb_refl in H1. injection H1 as <-.
    f_equal. apply IH; [eapply vsorted_tail; eauto | eapply vsorted_tail; eauto |].
    intros p. pose proof (H p) as Hp. cbn [vget] in Hp. destruct (k =? p) eqn:E; [|assumption].
    assert (p = k) by lia. subst p.
    rewrite (vget_lt_head k t), (vget_lt_head k t') in *; try reflexivity.
    + eapply vsorted_tail; eauto.
    + intros y Hy. apply (vsorted_head (k, x) t' y Hs' Hy).
    + eapply vsorted_tail; eauto.
    + intros y Hy. apply (vsorted_head (k, x) t y Hs Hy).
Qed.

(** a side is determined by its priority map once the volume invariant holds *)
Lemma side_ext orders x x' :
  vol_ok orders x -> vol_ok orders x' -> sd_orders x = sd_orders x' -> x = x'.
Proof.
  intros (Hs & Hg & Ht) (Hs' & Hg' & Ht') E. destruct x as [v m q], x' as [v' m' q']. cbn [sd_vol sd_volumes sd_orders] in *.
  subst q'. f_equal.
  - congruence.
  - apply vsorted_ext; [assumption | assumption |]. intros p. rewrite Hg, Hg'. reflexivity.
Qed.

(** ** One side of the rebuilt index *)
Definition ins1 (sd : side) (acc : sidest) (e : entry) : sidest :=
  if status_eqb (o_status (e_order e)) SActive && side_eqb (o_side (e_order e)) sd
  then sd_insert acc (e_kp e) (e_kt e) (o_id (e_order e)) (o_vol (e_order e)) else acc.
Definition rebuild (sd : side) (l : list entry) : sidest := fold_left (ins1 sd) l sd_empty.

Lemma of_snapshot_sides l : forall b a,
  fold_left (fun (acc : sidest * sidest) (e : entry) =>
    if status_eqb (o_status (e_order e)) SActive then
      match o_side (e_order e) with
      | Bid => (sd_insert (fst acc) (e_kp e) (e_kt e) (o_id (e_order e)) (o_vol (e_order e)), snd acc)
      | Ask => (fst acc, sd_insert (snd acc) (e_kp e) (e_kt e) (o_id (e_order e)) (o_vol (e_order e)))
      end
    else acc) l (b, a) = (fold_left (ins1 Bid) l b, fold_left (ins1 Ask) l a).
Proof.
  induction l as [|e t IH]; intros b a; cbn [fold_left]; [reflexivity|].
  unfold ins1 at 2 4. destruct (status_eqb (o_status (e_order e)) SActive); cbn [andb]; [|apply IH].
  destruct (o_side (e_order e)); cbn [side_eqb fst snd]; apply IH.
Qed.

Definition is_resting (sd : side) (e : entry) : Prop :=
  o_status (e_order e) = SActive /\ o_side (e_order e) = sd.

Lemma rebuild_spec s sd : InvQ None s ->
  forall pre post, b_orders s = pre ++ post ->
  let acc := rebuild sd pre in
  ksorted (sd_orders acc) /\
  (forall y, In y (sd_orders acc) <->
             exists i e, nth_error pre i = Some e /\ is_resting sd e /\ y = ((e_kp e, e_kt e), i)) /\
  vol_ok (b_orders s) acc.
Proof.
  intros Hinv. pose proof Hinv as (_ & _ & Hwf & Hc). pose proof (side_ok_get s sd Hinv) as [Hks _].
  induction pre as [|e pre IH] using rev_ind; intros post E acc.
  - unfold acc, rebuild. cbn. msplit.
    + constructor.
    + intros y. split; [contradiction|]. intros (i & e & Hn & _). destruct i; discriminate.
    + unfold vol_ok. cbn. msplit; try constructor; auto.
  - rewrite <- app_assoc in E. cbn [app] in E. destruct (IH _ E) as (Hs & Hin & Hv).
    unfold acc, rebuild. rewrite fold_left_app. cbn [fold_left]. fold (rebuild sd pre).
    assert (Hne : nth_error (b_orders s) (length pre) = Some e).
    { rewrite E, nth_error_app2 by lia. rewrite Nat.sub_diag. reflexivity. }
    assert (Hpre : forall i x, nth_error pre i = Some x -> nth_error (b_orders s) i = Some x).
    { intros i x Hx. rewrite E, nth_error_app1; [assumption | apply nth_error_Some; congruence]. }
    assert (Hmem : forall y, (exists i x, nth_error (pre ++ [e]) i = Some x /\ is_resting sd x /\ y = ((e_kp x, e_kt x), i)) <->
                   ((exists i x, nth_error pre i = Some x /\ is_resting sd x /\ y = ((e_kp x, e_kt x), i)) \/
                    (is_resting sd e /\ y = ((e_kp e, e_kt e), length pre)))).
    { intros y. split.
      - intros (i & x & Hn & Hr & Ey). destruct (Nat.lt_ge_cases i (length pre)) as [Hlt|Hge].
        + left. exists i, x. rewrite nth_error_app1 in Hn by assumption. auto.
        + right. rewrite nth_error_app2 in Hn by assumption.
          destruct (i - length pre)%nat as [|k] eqn:Ek; [|destruct k; discriminate]. cbn in Hn. injection Hn as <-.
          assert (i = length pre) by lia. subst i. auto.
      - intros [(i & x & Hn & Hr & Ey) | (Hr & Ey)].
        + exists i, x. rewrite nth_error_app1 by (apply nth_error_Some; congruence). auto.
        + exists (length pre), e. rewrite nth_error_app2, Nat.sub_diag by lia. auto. }
    unfold ins1. destruct (status_eqb (o_status (e_order e)) SActive && side_eqb (o_side (e_order e)) sd) eqn:Eb.
    + apply andb_prop in Eb. destruct Eb as [Est Esd]. apply status_eqb_eq in Est. apply side_eqb_eq in Esd.
      destruct (Hwf _ _ Hne) as (Wid & _). rewrite Wid.
      assert (Hfresh : forall y, In y (sd_orders (rebuild sd pre)) -> keq (e_kp e, e_kt e) (fst y) = false).
      { intros y Hy. apply Hin in Hy. destruct Hy as (i & x & Hn & (Hxs & Hxd) & ->). cbn [fst].
        destruct (keq (e_kp e, e_kt e) (e_kp x, e_kt x)) eqn:Ek; [|reflexivity]. apply keq_spec in Ek.
        assert (H1 : In ((e_kp e, e_kt e), length pre) (sd_orders (get_side s sd))) by (rewrite <- Esd; apply Hc; auto; discriminate).
        assert (H2 : In ((e_kp x, e_kt x), i) (sd_orders (get_side s sd))) by (rewrite <- Hxd; apply Hc; auto; discriminate).
        rewrite <- Ek in H2. pose proof (ksorted_key_unique _ _ _ _ Hks H1 H2) as C.
        assert (i < length pre)%nat by (apply nth_error_Some; congruence). lia. }
      msplit.
      * cbn [sd_insert sd_orders]. apply kinsert_sorted; assumption.
      * intros y. rewrite Hmem. cbn [sd_insert sd_orders]. split.
        -- intros Hy. apply In_kinsert in Hy. destruct Hy as [->|Hy]; [right; split; [split; assumption | reflexivity] | left; apply Hin; assumption].
        -- intros [Hy | (_ & ->)].
           ++ apply Hin in Hy. eapply Permutation_in; [apply kinsert_perm; exact Hfresh | right; assumption].
           ++ eapply Permutation_in; [apply kinsert_perm; exact Hfresh | left; reflexivity].
      * apply (vol_ok_insert (b_orders s)); [assumption | assumption | reflexivity |].
        unfold evol. rewrite Hne. reflexivity.
    + msplit; [assumption | | assumption]. intros y. rewrite Hmem, Hin. split; [auto|].
      intros [H|((Hst & Hsd) & _)]; [assumption|]. rewrite Hst, Hsd, status_eqb_refl, side_eqb_refl in Eb. discriminate.
Qed.

Lemma rebuild_side s sd : InvQ None s -> InvV s -> rebuild sd (b_orders s) = get_side s sd.
Proof.
  intros Hinv Hv. destruct (rebuild_spec s sd Hinv (b_orders s) [] (eq_sym (app_nil_r _))) as (Hs & Hin & Hvo).
  pose proof (side_ok_get s sd Hinv) as [Hks Hf]. destruct Hinv as (_ & _ & Hwf & Hc).
  apply (side_ext (b_orders s)); [assumption | destruct Hv; destruct sd; assumption |].
  apply ksorted_ext; [assumption | assumption |]. intros y. rewrite Hin. split.
  - intros (i & e & Hn & (Hst & Hsd) & ->). rewrite <- Hsd. apply Hc; [assumption | assumption | discriminate].
  - intros Hy. rewrite Forall_forall in Hf. destruct (Hf _ Hy) as (e & Hn & _ & Hkp & Hkt & Hsd & Hst).
    exists (snd y), e. msplit; [assumption | split; assumption |]. destruct y as [[kp kt] id]. cbn [fst snd] in *. rewrite Hkp, Hkt. reflexivity.
Qed.

(** ** The reload theorem *)
Theorem reload_identity s : InvQ None s -> InvV s -> of_snapshot (to_snapshot s) = s.
Proof.
  intros Hinv Hv. unfold of_snapshot, to_snapshot. cbn [sn_orders sn_t sn_tick sn_tvol sn_trades sn_trading].
  rewrite of_snapshot_sides. fold (rebuild Bid (b_orders s)). fold (rebuild Ask (b_orders s)).
  rewrite (rebuild_side s Bid Hinv Hv), (rebuild_side s Ask Hinv Hv). destruct s; reflexivity.
Qed.

(** the refinement and invariant theorem with reloads allowed *)
Theorem step_raw_inv_all s o s' x :
  Inv s -> op_u32 o -> step_raw s o = Ok (s', x) ->
  ref_step (abs s) o = Some (abs s', x) /\ Inv s'.
Proof.
  intros Hinv Hu H. destruct o; try (apply step_raw_inv; [assumption | assumption | discriminate | assumption]).
  cbn [step_raw] in H. destruct Hinv as [Hq Hv]. rewrite (reload_identity s Hq Hv) in H. injection H as <- <-.
  split; [reflexivity | split; assumption].
Qed.

Theorem run_inv_all ops : forall s s' xs,
  Inv s -> Forall op_u32 ops -> run_outs s ops = Ok (s', xs) ->
  ref_run_outs (abs s) ops = Some (abs s', xs) /\ Inv s'.
Proof.
  induction ops as [|o r IH]; intros s s' xs Hinv Hu H; cbn in H.
  - injection H as <- <-. auto.
  - unfold step in H. destruct (step_raw s o) as [[s1 x]|] eqn:E; [|discriminate]. cbn in H.
    destruct (bounded s1); [|discriminate]. cbn in H.
    destruct (run_outs s1 r) as [[s2 xs2]|] eqn:E2; [|discriminate]. cbn in H. injection H as <- <-.
    inversion Hu as [|? ? H1 H2]; subst. destruct (step_raw_inv_all s o s1 x Hinv H1 E) as [R I].
    destruct (IH s1 s2 xs2 I H2 E2) as [R2 I2].
    cbn [ref_run_outs]. rewrite R, R2. auto.
Qed.
