(** * C13: while trading is disabled nothing trades; market orders are rejected
    without touching the book; the flag changes nothing by itself *)
From Bourse Require Import Model.Types Model.Map Model.Side Model.Book Model.Obs Proofs.Basic.
From Coq Require Import ZifyBool ZifyNat ZifyN.

Ltac inv H := inversion H; subst; clear H.

Definition same_ledger (s s' : book) : Prop :=
  b_trades s' = b_trades s /\ b_tvol s' = b_tvol s /\ b_trading s' = b_trading s.

Lemma place_limit_off sd s e s1 e1 :
  b_trading s = false -> place_limit sd s e = Ok (s1, e1) -> same_ledger s s1.
Proof.
  intros Hoff H. unfold place_limit in H. rewrite Hoff in H. cbn in H.
  destruct (status_eqb (o_status (e_order e)) SFilled); [inv H; repeat split|].
  destruct (sd_queue _ _ _ _ _) as [[x kt]|]; [|discriminate]. inv H.
  unfold same_ledger; simp_side; auto.
Qed.

Lemma place_market_off sd s e s1 e1 :
  b_trading s = false -> place_market sd s e = Ok (s1, e1) ->
  s1 = s /\ o_status (e_order e1) = SRejected /\ o_end (e_order e1) = b_t s
  /\ o_vol (e_order e1) = o_vol (e_order e).
Proof.
  intros Hoff H. unfold place_market in H. rewrite Hoff in H. inv H. cbn. auto.
Qed.

Lemma place_order_off s id s' :
  b_trading s = false -> place_order s id = Ok s' -> same_ledger s s'.
Proof.
  intros Hoff H. unfold place_order in H.
  destruct (nth_error (b_orders s) id) as [e|]; [|discriminate].
  destruct (negb _); [inv H; repeat split|].
  match type of H with (do _ <- ?X; _) = _ => destruct X as [[s1 e1]|] eqn:Hp; [|discriminate] end.
  cbn in H; inv H.
  match type of Hp with (if ?c then _ else _) = _ => destruct c end.
  - apply place_market_off in Hp; auto. destruct Hp as (-> & _). repeat split.
  - apply place_limit_off in Hp; auto.
Qed.

Lemma cancel_order_ledger s id s' : cancel_order s id = Ok s' -> same_ledger s s'.
Proof.
  intros H. unfold cancel_order in H.
  destruct (nth_error (b_orders s) id) as [e|]; [|discriminate].
  destruct (status_eqb _ _); [|inv H; repeat split].
  destruct (sd_remove _ _ _ _) as [x|]; [|discriminate]. cbn in H. inv H.
  unfold same_ledger; simp_side; auto.
Qed.

Lemma replace_order_off s e p v s1 e1 :
  b_trading s = false -> replace_order s e p v = Ok (s1, e1) -> same_ledger s s1.
Proof.
  intros Hoff H. unfold replace_order in H.
  destruct (sd_remove _ _ _ _) as [x|]; [|discriminate]. cbn in H.
  rewrite b_trading_set_side, Hoff in H. cbn in H.
  destruct (status_eqb _ _); [inv H; unfold same_ledger; simp_side; auto|].
  destruct (sd_queue _ _ _ _ _) as [[y kt]|]; [|discriminate]. inv H.
  unfold same_ledger; simp_side; auto.
Qed.

Lemma modify_order_off s id np nv s' :
  b_trading s = false -> modify_order s id np nv = Ok s' -> same_ledger s s'.
Proof.
  intros Hoff H. unfold modify_order in H.
  destruct (nth_error (b_orders s) id) as [e|]; [|discriminate].
  destruct (match np with Some p => _ | None => false end); [inv H; repeat split|].
  match type of H with (do _ <- ?X; _) = _ => destruct X as [[s1 e1]|] eqn:Hp; [|discriminate] end.
  cbn in H; inv H.
  assert (same_ledger s s1) as Hs; [|exact Hs].
  destruct (status_eqb _ _); [|inv Hp; repeat split].
  destruct np as [p|], nv as [v|]; try (eapply replace_order_off; eauto; fail).
  - destruct (v <? _); [|eapply replace_order_off; eauto].
    unfold reduce_order_vol in Hp.
    destruct (csub _ _); [|discriminate]. cbn in Hp.
    destruct (sd_remove_vol _ _ _) as [x|]; [|discriminate]. inv Hp.
    unfold same_ledger; simp_side; auto.
  - inv Hp; repeat split.
Qed.

Lemma create_order_ledger s sd v tr p s' c :
  create_order s sd v tr p = (s', c) -> same_ledger s s'.
Proof.
  unfold create_order; intros H.
  destruct p as [p|]; [destruct (_ =? 0)|]; inv H; repeat split.
Qed.

Lemma same_ledger_trans a b c : same_ledger a b -> same_ledger b c -> same_ledger a c.
Proof. unfold same_ledger; intros (?&?&?) (?&?&?); repeat split; congruence. Qed.

(** No operation records a trade or moves the traded-volume counter while
    trading is disabled (the counter reset aside). *)
Theorem no_trade_when_off s o s' x :
  b_trading s = false -> step_raw s o = Ok (s', x) ->
  b_trades s' = b_trades s /\
  b_tvol s' = (match o with OResetTvol => 0 | _ => b_tvol s end).
Proof.
  intros Hoff H.
  assert (Hsl : forall a b, same_ledger a b -> b_trades b = b_trades a /\ b_tvol b = b_tvol a)
    by (unfold same_ledger; intuition).
  destruct o; cbn in H.
  - destruct (create_order s sd vol trader price) as [s1 c] eqn:E. inv H.
    apply Hsl. eapply create_order_ledger; eauto.
  - unfold create_and_place_order in H.
    destruct (create_order s sd vol trader price) as [s1 c] eqn:E.
    pose proof (create_order_ledger _ _ _ _ _ _ _ E) as L1.
    destruct c as [id|p t].
    + destruct (place_order s1 id) as [s2|] eqn:Hp; [|discriminate]. cbn in H. inv H.
      apply Hsl. eapply same_ledger_trans; [exact L1|].
      apply place_order_off in Hp; auto. destruct L1 as (_ & _ & ->); auto.
    + cbn in H. inv H. apply Hsl; auto.
  - destruct (place_order s id) as [s1|] eqn:Hp; [|discriminate]. inv H.
    apply Hsl. eapply place_order_off; eauto.
  - destruct (cancel_order s id) as [s1|] eqn:Hp; [|discriminate]. inv H.
    apply Hsl. eapply cancel_order_ledger; eauto.
  - destruct (modify_order s id new_price new_vol) as [s1|] eqn:Hp; [|discriminate]. inv H.
    apply Hsl. eapply modify_order_off; eauto.
  - destruct (process_event s ev) as [s1|] eqn:Hp; [|discriminate]. inv H.
    apply Hsl. destruct ev; cbn in Hp.
    + eapply place_order_off; eauto.
    + eapply cancel_order_ledger; eauto.
    + eapply modify_order_off; eauto.
  - inv H; auto.
  - inv H; auto.
  - inv H; auto.
  - inv H; auto.
  - inv H. unfold of_snapshot, to_snapshot; cbn.
    destruct (fold_left _ _ _) as [bid ask]; auto.
Qed.

(** A market order placed while trading is disabled is rejected and nothing
    else in the book changes. *)
Theorem market_rejected_when_off s id e s' :
  b_trading s = false ->
  nth_error (b_orders s) id = Some e ->
  o_status (e_order e) = SNew ->
  (match o_side (e_order e) with Bid => o_price (e_order e) =? MAXP | Ask => o_price (e_order e) =? 0 end) = true ->
  place_order s id = Ok s' ->
  exists e', nth_error (b_orders s') id = Some e' /\
    o_status (e_order e') = SRejected /\ o_end (e_order e') = b_t s /\
    b_bid s' = b_bid s /\ b_ask s' = b_ask s /\ b_trades s' = b_trades s /\
    forall j, j <> id -> nth_error (b_orders s') j = nth_error (b_orders s) j.
Proof.
  intros Hoff Hn Hst Hmk H. unfold place_order in H. rewrite Hn, Hst in H. cbn in H.
  cbn in Hmk. rewrite Hmk in H.
  unfold place_market in H. rewrite Hoff in H. cbn in H. inv H. cbn.
  eexists; split.
  - apply nth_error_set_nth_eq. apply nth_error_Some. congruence.
  - cbn. repeat split; auto. intros j Hj. apply nth_error_set_nth_neq; auto.
Qed.

(** A limit order placed while trading is disabled rests with its whole
    volume, whatever the opposite side looks like (the book may cross). *)
Theorem limit_rests_when_off s id e s' :
  b_trading s = false ->
  nth_error (b_orders s) id = Some e ->
  o_status (e_order e) = SNew ->
  (match o_side (e_order e) with Bid => o_price (e_order e) =? MAXP | Ask => o_price (e_order e) =? 0 end) = false ->
  place_order s id = Ok s' ->
  exists e', nth_error (b_orders s') id = Some e' /\
    o_status (e_order e') = SActive /\ o_vol (e_order e') = o_vol (e_order e) /\
    o_price (e_order e') = o_price (e_order e) /\ o_arr (e_order e') = b_t s /\
    get_side s' (opp (o_side (e_order e))) = get_side s (opp (o_side (e_order e))).
Proof.
  intros Hoff Hn Hst Hmk H. unfold place_order in H. rewrite Hn, Hst in H. cbn in H.
  cbn in Hmk. rewrite Hmk in H.
  unfold place_limit in H. rewrite Hoff in H. cbn in H.
  destruct (sd_queue _ _ _ _ _) as [[x kt]|]; [|discriminate]. cbn in H. inv H.
  eexists; split.
  - cbn. simp_side. apply nth_error_set_nth_eq. apply nth_error_Some. congruence.
  - cbn. repeat split; auto. destruct (o_side (e_order e)); reflexivity.
Qed.

(** Switching the flag changes the flag and nothing else. *)
Theorem toggle_only_flag s b :
  let s' := set_trading s b in
  b_t s' = b_t s /\ b_tick s' = b_tick s /\ b_tvol s' = b_tvol s /\ b_ask s' = b_ask s /\
  b_bid s' = b_bid s /\ b_orders s' = b_orders s /\ b_trades s' = b_trades s /\ b_trading s' = b.
Proof. cbn; auto 10. Qed.

Corollary toggle_observation L s b : observe L (set_trading s b) = observe L s.
Proof. reflexivity. Qed.
