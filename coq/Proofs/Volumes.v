(** * The volume maps: per-level volume and order count, and the side total,
    always equal the sums over the priority map (invariant [InvV]) *)
From Bourse Require Import Model.Types Model.Map Model.Side Model.Book Model.Obs Spec.RefBook
  Proofs.Basic Proofs.MapLemmas Proofs.Refine.
From Coq Require Import ZifyBool ZifyNat ZifyN Sorting.Sorted Permutation.

Ltac inv H := inversion H; subst; clear H.
Ltac msplit := repeat match goal with |- _ /\ _ => split end.
Local Arguments N.sub : simpl never.
Local Arguments N.add : simpl never.
Local Arguments N.eqb : simpl never.
Local Arguments N.leb : simpl never.
Local Arguments N.ltb : simpl never.

Definition sumf (f : key * nat -> N) (l : list (key * nat)) : N := fold_right (fun y a => f y + a) 0 l.

Lemma sumf_perm f l l' : Permutation l l' -> sumf f l = sumf f l'.
Proof.
  unfold sumf. induction 1 as [|x l l' Hp IH|x y l|l l' l'' H1 IH1 H2 IH2]; cbn [fold_right].
  - reflexivity.
  - rewrite IH. reflexivity.
  - lia.
  - congruence.
Qed.
Lemma sumf_ext f g l : (forall y, In y l -> f y = g y) -> sumf f l = sumf g l.
Proof.
  unfold sumf. induction l as [|y t IH]; intros H; cbn [fold_right]; [reflexivity|].
  rewrite (H y (or_introl eq_refl)), IH; [reflexivity|]. intros z Hz; apply H; right; assumption.
Qed.

Definition evol (orders : list entry) (id : nat) : N :=
  match nth_error orders id with Some e => o_vol (e_order e) | None => 0 end.
Definition fvol (orders : list entry) (p : N) (y : key * nat) : N := if fst (fst y) =? p then evol orders (snd y) else 0.
Definition fcnt (p : N) (y : key * nat) : N := if fst (fst y) =? p then 1 else 0.
Definition ftot (orders : list entry) (y : key * nat) : N := evol orders (snd y).

Definition vol_ok (orders : list entry) (x : sidest) : Prop :=
  vsorted (sd_volumes x) /\
  (forall p, vget p (sd_volumes x) =
             if sumf (fcnt p) (sd_orders x) =? 0 then None
             else Some (sumf (fvol orders p) (sd_orders x), sumf (fcnt p) (sd_orders x))) /\
  sd_vol x = sumf (ftot orders) (sd_orders x).

Definition InvV (s : book) : Prop := vol_ok (b_orders s) (b_bid s) /\ vol_ok (b_orders s) (b_ask s).

(** ** Permutation facts about the priority map operations *)
Lemma kinsert_perm k v l : (forall y, In y l -> keq k (fst y) = false) -> Permutation ((k, v) :: l) (kinsert k v l).
Proof.
  induction l as [|[k' v'] t IH]; intros H; cbn [kinsert]; [reflexivity|].
  destruct (klt k k'); [reflexivity|].
  pose proof (H (k', v') (or_introl eq_refl)) as Hk. cbn [fst] in Hk. rewrite Hk.
  etransitivity; [apply perm_swap|]. apply perm_skip. apply IH. intros y Hy. apply H. right; assumption.
Qed.

Lemma kremove_perm k v l : ksorted l -> In (k, v) l -> Permutation l ((k, v) :: kremove k l).
Proof.
  induction l as [|[k' v'] t IH]; intros Hs Hin; [contradiction|]. cbn [kremove].
  destruct Hin as [E|Hin].
  - inv E. rewrite (proj2 (keq_spec k k) eq_refl). reflexivity.
  - assert (Hne : keq k k' = false).
    { destruct (keq k k') eqn:E; [|reflexivity]. apply keq_spec in E; subst k'.
      pose proof (ksorted_head _ _ _ Hs Hin) as C. cbn in C. rewrite klt_irrefl in C. discriminate. }
    rewrite Hne. etransitivity; [apply perm_skip; apply IH; [eapply ksorted_tail; eauto | assumption]|]. apply perm_swap.
Qed.

(** ** Frame: the sums only look at the ids in the map *)
Lemma vol_ok_frame orders orders' x :
  (forall y, In y (sd_orders x) -> evol orders' (snd y) = evol orders (snd y)) -> vol_ok orders x -> vol_ok orders' x.
Proof.
  intros Hsame (Hs & Hg & Ht). unfold vol_ok. msplit; [assumption| |].
  - intros p. rewrite Hg. rewrite (sumf_ext (fvol orders' p) (fvol orders p)); [reflexivity|].
    intros y Hy. unfold fvol. rewrite (Hsame y Hy). reflexivity.
  - rewrite Ht. apply sumf_ext. intros y Hy. unfold ftot. symmetry. apply Hsame; assumption.
Qed.

Lemma fcnt_at p kp kt id : fcnt p ((kp, kt), id) = if kp =? p then 1 else 0.
Proof. reflexivity. Qed.
Lemma fvol_at orders p kp kt id : fvol orders p ((kp, kt), id) = if kp =? p then evol orders id else 0.
Proof. reflexivity. Qed.
Lemma ftot_at orders kp kt id : ftot orders ((kp, kt), id) = evol orders id.
Proof. reflexivity. Qed.

Lemma sumf_cons f y l : sumf f (y :: l) = f y + sumf f l.
Proof. reflexivity. Qed.

Lemma fcnt_zero_fvol_zero orders p l : sumf (fcnt p) l = 0 -> sumf (fvol orders p) l = 0.
Proof.
  induction l as [|y t IH]; intros H; [reflexivity|]. rewrite sumf_cons in *.
  unfold fcnt at 1 in H. unfold fvol at 1. destruct (fst (fst y) =? p); [lia|]. rewrite IH; lia.
Qed.

(** ** Insertion *)
Lemma vol_ok_insert orders orders' x kp kt id vol :
  vol_ok orders x ->
  (forall y, In y (sd_orders x) -> keq (kp, kt) (fst y) = false) ->
  (forall y, In y (sd_orders x) -> evol orders' (snd y) = evol orders (snd y)) ->
  evol orders' id = vol ->
  vol_ok orders' (sd_insert x kp kt id vol).
Proof.
  intros (Hs & Hg & Ht) Hfresh Hsame Hvol.
  pose proof (kinsert_perm (kp, kt) id (sd_orders x) Hfresh) as Hperm.
  assert (Hsum : forall f, sumf f (kinsert (kp, kt) id (sd_orders x)) = f ((kp, kt), id) + sumf f (sd_orders x)).
  { intros f. rewrite <- (sumf_perm f _ _ Hperm). reflexivity. }
  assert (Hv' : forall p, sumf (fvol orders' p) (sd_orders x) = sumf (fvol orders p) (sd_orders x)).
  { intros p. apply sumf_ext. intros y Hy. unfold fvol. rewrite (Hsame y Hy). reflexivity. }
  unfold sd_insert, vol_ok. cbn [sd_vol sd_volumes sd_orders]. msplit.
  - destruct (vget kp (sd_volumes x)) as [[v c]|]; apply vset_sorted; assumption.
  - intros p. rewrite !Hsum, Hv', !fcnt_at, fvol_at, Hvol.
    pose proof (Hg kp) as Hgk. pose proof (Hg p) as Hgp.
    destruct (kp =? p) eqn:E.
    + assert (kp = p) by lia; subst p.
      replace (1 + sumf (fcnt kp) (sd_orders x) =? 0) with false by lia.
      destruct (vget kp (sd_volumes x)) as [[v c]|] eqn:Ev.
      * rewrite vget_vset_same. destruct (sumf (fcnt kp) (sd_orders x) =? 0); [discriminate|]. inv Hgk. f_equal. f_equal; lia.
      * rewrite vget_vset_same. destruct (sumf (fcnt kp) (sd_orders x) =? 0) eqn:Ez; [|discriminate].
        assert (sumf (fcnt kp) (sd_orders x) = 0) by lia.
        assert (sumf (fvol orders kp) (sd_orders x) = 0) by (apply fcnt_zero_fvol_zero; assumption).
        f_equal. f_equal; lia.
    + assert (kp <> p) by lia. rewrite !N.add_0_l.
      destruct (vget kp (sd_volumes x)) as [[v c]|]; rewrite vget_vset_other by assumption; exact Hgp.
  - rewrite Hsum, ftot_at, Hvol, Ht.
    rewrite (sumf_ext (ftot orders') (ftot orders)); [lia|]. intros y Hy. unfold ftot. apply Hsame; assumption.
Qed.

(** ** Removal of an order, and of volume at a level *)
Lemma sumf_split f k id l : ksorted l -> In (k, id) l -> sumf f l = f (k, id) + sumf f (kremove k l).
Proof. intros Hs Hin. rewrite (sumf_perm f _ _ (kremove_perm k id l Hs Hin)). reflexivity. Qed.

Lemma vol_ok_remove orders orders' x kp kt id vol x' :
  vol_ok orders x -> ksorted (sd_orders x) -> In ((kp, kt), id) (sd_orders x) ->
  evol orders id = vol ->
  (forall y, In y (kremove (kp, kt) (sd_orders x)) -> evol orders' (snd y) = evol orders (snd y)) ->
  sd_remove x kp kt vol = Ok x' ->
  vol_ok orders' x'.
Proof.
  intros (Hs & Hg & Ht) Hks Hin Hvol Hsame H. unfold sd_remove in H.
  pose proof (Hg kp) as Hgk.
  destruct (vget kp (sd_volumes x)) as [[v0 c0]|] eqn:Ev; [|discriminate].
  unfold csub in H.
  destruct (vol <=? v0) eqn:E1; [|discriminate]. cbn [rbind] in H.
  destruct (1 <=? c0) eqn:E2; [|discriminate]. cbn [rbind] in H.
  destruct (vol <=? sd_vol x) eqn:E3; [|discriminate]. cbn [rbind] in H. injection H as <-.
  assert (Hsp : forall f, sumf f (sd_orders x) = f ((kp, kt), id) + sumf f (kremove (kp, kt) (sd_orders x)))
    by (intros f; apply sumf_split; assumption).
  assert (Hv' : forall p, sumf (fvol orders' p) (kremove (kp, kt) (sd_orders x)) = sumf (fvol orders p) (kremove (kp, kt) (sd_orders x))).
  { intros p. apply sumf_ext. intros y Hy. unfold fvol. rewrite (Hsame y Hy). reflexivity. }
  rewrite (Hsp (fcnt kp)), (Hsp (fvol orders kp)), fcnt_at, fvol_at, N.eqb_refl, Hvol in Hgk.
  destruct (1 + sumf (fcnt kp) (kremove (kp, kt) (sd_orders x)) =? 0) eqn:Ez0; [lia|].
  injection Hgk as Hv0 Hc0. subst v0 c0.
  unfold vol_ok. cbn [sd_vol sd_volumes sd_orders]. msplit.
  - match goal with |- context [if ?c then vremove _ _ else _] => destruct c end; [apply vremove_sorted | apply vset_sorted]; assumption.
  - intros p. rewrite Hv'. pose proof (Hg p) as Hgp. rewrite (Hsp (fcnt p)), (Hsp (fvol orders p)), fcnt_at, fvol_at in Hgp.
    destruct (kp =? p) eqn:E.
    + assert (kp = p) by lia; subst p.
      replace (1 + sumf (fcnt kp) (kremove (kp, kt) (sd_orders x)) - 1) with (sumf (fcnt kp) (kremove (kp, kt) (sd_orders x))) by lia.
      destruct (sumf (fcnt kp) (kremove (kp, kt) (sd_orders x)) =? 0) eqn:Ez.
      * apply vget_vremove_same; assumption.
      * rewrite vget_vset_same. f_equal. f_equal. lia.
    + assert (kp <> p) by lia. rewrite !N.add_0_l in Hgp.
      match goal with |- context [if ?c then vremove _ _ else _] => destruct c end; [rewrite vget_vremove_other by assumption | rewrite vget_vset_other by assumption]; exact Hgp.
  - rewrite Ht, (Hsp (ftot orders)), ftot_at, Hvol.
    rewrite (sumf_ext (ftot orders') (ftot orders)); [lia|]. intros y Hy. unfold ftot. apply Hsame; assumption.
Qed.

Lemma vol_ok_remove_vol orders orders' x kp kt id v x' :
  vol_ok orders x -> ksorted (sd_orders x) -> In ((kp, kt), id) (sd_orders x) ->
  evol orders' id + v = evol orders id ->
  (forall y, In y (kremove (kp, kt) (sd_orders x)) -> evol orders' (snd y) = evol orders (snd y)) ->
  sd_remove_vol x kp v = Ok x' ->
  vol_ok orders' x'.
Proof.
  intros (Hs & Hg & Ht) Hks Hin Hvol Hsame H. unfold sd_remove_vol in H.
  pose proof (Hg kp) as Hgk.
  destruct (vget kp (sd_volumes x)) as [[v0 c0]|] eqn:Ev; [|discriminate].
  unfold csub in H.
  destruct (v <=? v0) eqn:E1; [|discriminate]. cbn [rbind] in H.
  destruct (v <=? sd_vol x) eqn:E3; [|discriminate]. cbn [rbind] in H. injection H as <-.
  assert (Hsp : forall f, sumf f (sd_orders x) = f ((kp, kt), id) + sumf f (kremove (kp, kt) (sd_orders x)))
    by (intros f; apply sumf_split; assumption).
  assert (Hv' : forall p, sumf (fvol orders' p) (kremove (kp, kt) (sd_orders x)) = sumf (fvol orders p) (kremove (kp, kt) (sd_orders x))).
  { intros p. apply sumf_ext. intros y Hy. unfold fvol. rewrite (Hsame y Hy). reflexivity. }
  rewrite (Hsp (fcnt kp)), (Hsp (fvol orders kp)), fcnt_at, fvol_at, N.eqb_refl in Hgk.
  destruct (1 + sumf (fcnt kp) (kremove (kp, kt) (sd_orders x)) =? 0) eqn:Ez0; [lia|].
  injection Hgk as Hv0 Hc0. subst v0 c0.
  unfold vol_ok. cbn [sd_vol sd_volumes sd_orders]. msplit.
  - apply vset_sorted; assumption.
  - intros p. rewrite (Hsp (fcnt p)), (Hsp (fvol orders' p)), Hv', fcnt_at, fvol_at. pose proof (Hg p) as Hgp.
    rewrite (Hsp (fcnt p)), (Hsp (fvol orders p)), fcnt_at, fvol_at in Hgp.
    destruct (kp =? p) eqn:E.
    + assert (kp = p) by lia; subst p. rewrite vget_vset_same.
      replace (1 + sumf (fcnt kp) (kremove (kp, kt) (sd_orders x)) =? 0) with false by lia. f_equal. f_equal. lia.
    + assert (kp <> p) by lia. rewrite vget_vset_other by assumption. exact Hgp.
  - rewrite (Hsp (ftot orders')). rewrite Ht, (Hsp (ftot orders)), !ftot_at.
    rewrite (sumf_ext (ftot orders') (ftot orders) (kremove _ _)); [lia|]. intros y Hy. unfold ftot. apply Hsame; assumption.
Qed.

(** ** The matching loop preserves the volume invariant *)
Lemma evol_set_nth_eq orders id e : (id < length orders)%nat -> evol (set_nth orders id e) id = o_vol (e_order e).
Proof. intros H. unfold evol. rewrite nth_error_set_nth_eq by assumption. reflexivity. Qed.
Lemma evol_set_nth_neq orders id j e : id <> j -> evol (set_nth orders id e) j = evol orders j.
Proof. intros H. unfold evol. rewrite nth_error_set_nth_neq by assumption. reflexivity. Qed.

Lemma match_orders_vols t a p a2 p2 tr v :
  match_orders t a p = (a2, p2, tr, v) -> o_vol p2 + v = o_vol p /\ ((o_vol p2 =? 0) = true -> v = o_vol p).
Proof.
  unfold match_orders. intros H. injection H as _ <- _ <-. cbn [o_vol set_vol].
  assert (Hv : o_vol (if o_vol p - N.min (o_vol a) (o_vol p) =? 0 then set_status (set_end (set_vol p (o_vol p - N.min (o_vol a) (o_vol p))) t) SFilled
                      else set_vol p (o_vol p - N.min (o_vol a) (o_vol p))) = o_vol p - N.min (o_vol a) (o_vol p))
    by (destruct (_ =? 0); reflexivity).
  rewrite Hv. split; lia.
Qed.

Definition loop_inv (sd : side) (s : book) : Prop :=
  side_ok (b_orders s) (opp sd) (get_side s (opp sd)) /\ side_ok (b_orders s) sd (get_side s sd) /\
  table_wf (b_orders s) /\ vol_ok (b_orders s) (get_side s (opp sd)) /\ vol_ok (b_orders s) (get_side s sd).

Lemma match_iter_loop_inv sd s a s1 a1 :
  loop_inv sd s -> match_iter sd s a = ICont s1 a1 -> loop_inv sd s1.
Proof.
  intros (Hopp & Hown & Hwf & Hvopp & Hvown) E. apply match_iter_cont in E.
  destruct E as (id & pe & ps' & _ & Hbest & Hn & E).
  destruct (match_orders (b_t s) a (e_order pe)) as [[[a2 p2] tr] v] eqn:Hm.
  destruct E as (Hrem & -> & ->).
  destruct (sd_orders (get_side s (opp sd))) as [|[k id0] t] eqn:Hq; [unfold sd_best_order_idx in Hbest; rewrite Hq in Hbest; discriminate|].
  unfold sd_best_order_idx in Hbest. rewrite Hq in Hbest. injection Hbest as ->.
  pose proof Hopp as [Hs Hf]. rewrite Hq in Hs, Hf. pose proof Hf as Hf0. inv Hf.
  destruct H1 as (e & Hn' & Hks & Hkp & Hkt & Hside & Hact). cbn [fst snd] in Hn', Hkp, Hkt.
  assert (e = pe) by congruence; subst e.
  assert (Hk : k = (e_kp pe, e_kt pe)) by (destruct k; cbn [fst snd] in *; congruence). subst k.
  pose proof (match_orders_fields _ _ _ _ _ _ _ Hm) as (_ & _ & _ & Fp1 & Fp2 & Fp3).
  pose proof (match_orders_status _ _ _ _ _ _ _ Hact Hm) as (Hfilled & _ & Hp2act).
  pose proof (match_orders_vols _ _ _ _ _ _ _ Hm) as (Hvsum & Hvfull).
  rewrite Hfilled in Hrem.
  set (orders1 := set_nth (b_orders s) id (set_eorder pe p2)).
  assert (Hlt : (id < length (b_orders s))%nat) by (apply nth_error_Some; congruence).
  assert (Hnd : ~ In id (map snd t)).
  { pose proof (side_ok_nodup (b_orders s) (opp sd) (mkSide 0 [] (((e_kp pe, e_kt pe), id) :: t)) (conj Hs Hf0)) as Hnd.
    unfold qof in Hnd. cbn in Hnd. inv Hnd. assumption. }
  assert (Hother : forall y, In y t -> snd y <> id) by (intros y Hy C; apply Hnd; rewrite <- C; apply in_map; assumption).
  assert (Hownids : forall y, In y (sd_orders (get_side s sd)) -> snd y <> id).
  { intros y Hy C. destruct Hown as [_ Hfo]. rewrite Forall_forall in Hfo. destruct (Hfo _ Hy) as (e2 & Hn2 & _ & _ & _ & Hs2 & _).
    rewrite C in Hn2. assert (e2 = pe) by congruence; subst e2. destruct sd; cbn in *; congruence. }
  unfold loop_inv. simp_side. rewrite get_set_side_same. cbn [b_orders set_orders set_trades].
  assert (Hgo : get_side (set_side (set_trades (set_orders s orders1) (b_trades s ++ [tr]) (b_tvol s + v)) (opp sd) ps') sd = get_side s sd)
    by (destruct sd; reflexivity).
  rewrite Hgo. fold orders1.
  assert (Hwf1 : table_wf orders1).
  { eapply table_wf_set; eauto. destruct (Hwf _ _ Hn) as (W1 & W2 & W3 & W4). unfold entry_wf. cbn. rewrite Fp1, Fp2, Fp3. msplit; auto.
    intros _. apply W3. right; exact Hact. }
  assert (Hown1 : side_ok orders1 sd (get_side s sd)).
  { eapply side_ok_frame; [exact Hown|]. intros i Hi. unfold orders1. apply nth_error_set_nth_neq.
    intros C; subst i. unfold qof in Hi. apply in_map_iff in Hi. destruct Hi as (y & Ey & Hy). apply (Hownids y Hy Ey). }
  assert (Hvown1 : vol_ok orders1 (get_side s sd)).
  { eapply vol_ok_frame; [|exact Hvown]. intros y Hy. unfold orders1. apply evol_set_nth_neq. intros C. apply (Hownids y Hy). auto. }
  destruct (o_vol p2 =? 0) eqn:Hz.
  - pose proof Hrem as Hrem0. apply sd_remove_orders in Hrem0. rewrite Hq, kremove_head in Hrem0.
    msplit; auto.
    + split; rewrite Hrem0; [eapply ksorted_tail; eauto|].
      rewrite Forall_forall in *. intros x Hx. apply entry_ok_other; [apply H2; assumption | apply Hother; assumption].
    + eapply (vol_ok_remove (b_orders s) orders1 (get_side s (opp sd)) (e_kp pe) (e_kt pe) id v ps'); eauto.
      * rewrite Hq. assumption.
      * rewrite Hq. left; reflexivity.
      * unfold evol. rewrite Hn. symmetry. apply Hvfull. reflexivity.
      * rewrite Hq, kremove_head. intros y Hy. unfold orders1. apply evol_set_nth_neq. intros C. apply (Hother y Hy). auto.
  - pose proof Hrem as Hrem0. apply sd_remove_vol_orders in Hrem0.
    msplit; auto.
    + split; rewrite Hrem0, Hq; [assumption|]. constructor.
      * exists (set_eorder pe p2). cbn. unfold orders1. rewrite nth_error_set_nth_eq by assumption. rewrite Fp1. msplit; auto.
      * rewrite Forall_forall in *. intros x Hx. apply entry_ok_other; [apply H2; assumption | apply Hother; assumption].
    + eapply (vol_ok_remove_vol (b_orders s) orders1 (get_side s (opp sd)) (e_kp pe) (e_kt pe) id v ps'); eauto.
      * rewrite Hq. assumption.
      * rewrite Hq. left; reflexivity.
      * unfold orders1. rewrite evol_set_nth_eq by assumption. cbn. unfold evol. rewrite Hn. exact Hvsum.
      * rewrite Hq, kremove_head. intros y Hy. unfold orders1. apply evol_set_nth_neq. intros C. apply (Hother y Hy). auto.
Qed.

Lemma do_match_loop_inv sd s a s1 a1 : loop_inv sd s -> do_match sd s a = Ok (s1, a1) -> loop_inv sd s1.
Proof.
  intros Hi H. eapply (do_match_inv (fun s0 _ => loop_inv sd s0)); eauto.
  intros; eapply match_iter_loop_inv; eauto.
Qed.

(** ** Operations preserve [InvV] (given the queue invariant) *)
Lemma loop_inv_of sd ex s : InvQ ex s -> InvV s -> loop_inv sd s.
Proof. intros (Hb & Ha & Hwf & _) [Vb Va]. unfold loop_inv. destruct sd; cbn; auto 10. Qed.
Lemma InvV_of_loop_inv sd s : loop_inv sd s -> InvV s.
Proof. intros (_ & _ & _ & Vo & Vn). unfold InvV. destruct sd; cbn in *; auto. Qed.

Lemma ids_not (ids : Type) id (l : list (key * nat)) : ~ In id (map snd l) -> forall y, In y l -> snd y <> id.
Proof. intros H y Hy C. apply H. rewrite <- C. apply in_map; assumption. Qed.

Lemma writeback_invv_unqueued s1 id e1 :
  InvV s1 -> ~ In id (qof (b_bid s1)) -> ~ In id (qof (b_ask s1)) ->
  InvV (set_orders s1 (set_nth (b_orders s1) id e1)).
Proof.
  intros [Vb Va] Hnb Hna. unfold InvV. cbn [b_orders b_bid b_ask set_orders]. split.
  - eapply vol_ok_frame; [|exact Vb]. intros y Hy. apply evol_set_nth_neq. intros C. apply (ids_not nat id _ Hnb y Hy). auto.
  - eapply vol_ok_frame; [|exact Va]. intros y Hy. apply evol_set_nth_neq. intros C. apply (ids_not nat id _ Hna y Hy). auto.
Qed.

Lemma writeback_invv_queued s1 id sd o1 kp kt :
  InvV s1 -> ~ In id (qof (b_bid s1)) -> ~ In id (qof (b_ask s1)) -> (id < length (b_orders s1))%nat ->
  (forall t' v, In ((kp, t'), v) (sd_orders (get_side s1 sd)) -> t' < kt) ->
  let x' := sd_insert (get_side s1 sd) kp kt id (o_vol o1) in
  InvV (set_orders (set_side s1 sd x') (set_nth (b_orders (set_side s1 sd x')) id (mkEntry o1 sd kp kt))).
Proof.
  intros [Vb Va] Hnb Hna Hlt Hlater x'. rewrite b_orders_set_side.
  set (orders' := set_nth (b_orders s1) id (mkEntry o1 sd kp kt)).
  assert (Hfr : forall x, vol_ok (b_orders s1) x -> ~ In id (qof x) -> vol_ok orders' x).
  { intros x Hv Hn. eapply vol_ok_frame; [|exact Hv]. intros y Hy. unfold orders'. apply evol_set_nth_neq.
    intros C. apply (ids_not nat id _ Hn y Hy). auto. }
  assert (Hnew : vol_ok orders' x').
  { unfold x'. apply (vol_ok_insert (b_orders s1)).
    - destruct sd; assumption.
    - intros [[kp' kt'] v] Hy. unfold keq. cbn [fst snd]. destruct (kp =? kp') eqn:E; [|reflexivity].
      assert (kp' = kp) by lia; subst kp'. specialize (Hlater _ _ Hy). cbn. lia.
    - intros y Hy. unfold orders'. apply evol_set_nth_neq. intros C.
      assert (Hn : ~ In id (qof (get_side s1 sd))) by (destruct sd; assumption). apply (ids_not nat id _ Hn y Hy). auto.
    - unfold orders'. rewrite evol_set_nth_eq by assumption. reflexivity. }
  unfold InvV. cbn [b_orders set_orders].
  destruct sd; cbn [b_bid b_ask set_side set_orders]; split; auto.
Qed.

Lemma arrive_invv s0 ex id e_old e_blk sd o kp s2 e2 :
  InvQ ex s0 -> InvV s0 -> (ex = None \/ ex = Some id) ->
  nth_error (b_orders s0) id = Some e_old -> e_kside e_old = sd ->
  ~ In id (qof (b_bid s0)) -> ~ In id (qof (b_ask s0)) ->
  o_side o = sd -> o_price o <= MAXP -> o_id o = id -> o_status o = SActive -> kp = kp_of sd (o_price o) ->
  (do (s1, o1) <- (if b_trading s0 then do_match sd s0 o else Ok (s0, o));
   if status_eqb (o_status o1) SFilled then Ok (s1, set_eorder e_blk o1)
   else do (sdst, kt) <- sd_queue (get_side s1 sd) kp (b_t s1) (o_id o1) (o_vol o1);
        Ok (set_side s1 sd sdst, mkEntry o1 sd kp kt)) = Ok (s2, e2) ->
  InvV (set_orders s2 (set_nth (b_orders s2) id e2)).
Proof.
  intros Hinv Hv Hex Hn Hks Hnb Hna Hosd Hopr Hoid Host Hkp H. subst kp.
  assert (Hsd : side_eqb (o_side o) sd = true) by (rewrite Hosd; apply side_eqb_refl).
  assert (Hnopp : ~ In id (qof (get_side s0 (opp sd)))) by (destruct (opp sd); assumption).
  assert (Hm1 : forall s1 o1, (if b_trading s0 then do_match sd s0 o else Ok (s0, o)) = Ok (s1, o1) ->
      InvQ ex s1 /\ InvV s1 /\ loop_frame sd s0 s1 /\ o_id o1 = o_id o /\ o_price o1 = o_price o).
  { intros s1 o1 Hx. destruct (b_trading s0).
    - destruct (do_match_invq sd s0 o id ex s1 o1 Hinv Hex Hnopp Hsd Hopr Hx) as (_ & I1 & F1 & _ & P1 & Id1 & _).
      pose proof (do_match_loop_inv sd s0 o s1 o1 (loop_inv_of sd ex s0 Hinv Hv) Hx) as L1.
      msplit; auto. eapply InvV_of_loop_inv; eauto.
    - inv Hx. msplit; auto using loop_frame_refl. }
  destruct (if b_trading s0 then do_match sd s0 o else Ok (s0, o)) as [[s1 o1]|] eqn:Hdm; [|discriminate]. cbn in H.
  destruct (Hm1 _ _ eq_refl) as (Hinv1 & Hv1 & Hfr & Hi1 & Hp1).
  assert (Hn1 : nth_error (b_orders s1) id = Some e_old) by (destruct Hfr as [F1 F2 F3 F4 F5 F6]; rewrite F6; assumption).
  pose proof Hinv1 as (Hb1 & Ha1 & Hwf1 & Hc1).
  assert (Hown0 : get_side s1 sd = get_side s0 sd) by (destruct Hfr as [F1 F2 F3 F4 F5 F6]; assumption).
  assert (Hnown1 : ~ In id (qof (get_side s1 sd))) by (rewrite Hown0; destruct sd; assumption).
  assert (Hnopp1 : ~ In id (qof (get_side s1 (opp sd)))).
  { intros C. assert (Hok : side_ok (b_orders s1) (opp sd) (get_side s1 (opp sd))) by (destruct sd; assumption).
    destruct (in_qof_side _ _ _ _ Hok C) as (e3 & Hn3 & Hs3 & _). assert (e3 = e_old) by congruence; subst e3.
    pose proof Hinv as (_ & _ & Hwf0 & _). destruct (Hwf0 _ _ Hn) as (_ & Wks & _). rewrite Hks in Wks. rewrite <- Wks in Hs3.
    destruct sd; discriminate. }
  assert (Hnb1 : ~ In id (qof (b_bid s1))) by (destruct sd; assumption).
  assert (Hna1 : ~ In id (qof (b_ask s1))) by (destruct sd; assumption).
  destruct (status_eqb (o_status o1) SFilled).
  - inv H. apply writeback_invv_unqueued; assumption.
  - destruct (sd_queue (get_side s1 sd) (kp_of sd (o_price o)) (b_t s1) (o_id o1) (o_vol o1)) as [[x' kt]|] eqn:Hq; [|cbn in H; discriminate].
    cbn in H. injection H as <- <-.
    assert (Hown1 : side_ok (b_orders s1) sd (get_side s1 sd)) by (destruct sd; assumption).
    unfold sd_queue in Hq. destruct (MAXT <? queue_time (get_side s1 sd) (kp_of sd (o_price o)) (b_t s1)); [discriminate|].
    injection Hq as <- <-. rewrite Hi1, Hoid.
    apply (writeback_invv_queued s1 id sd o1); auto.
    + apply nth_error_Some. congruence.
    + intros t' v Hin. eapply queue_time_later; eauto. destruct Hown1; assumption.
Qed.


Theorem place_order_invv s id s' : InvQ None s -> InvV s -> place_order s id = Ok s' -> InvV s'.
Proof.
  intros Hinv Hv H. pose proof Hinv as (Hb & Ha & Hwf & Hc).
  unfold place_order in H. destruct (nth_error (b_orders s) id) as [e|] eqn:Hn; [|discriminate].
  destruct (negb (status_eqb (o_status (e_order e)) SNew)) eqn:Hnew; [inv H; assumption|].
  assert (Hst : o_status (e_order e) = SNew) by (apply status_eqb_eq; destruct (status_eqb _ _); [reflexivity | discriminate]).
  destruct (Hwf _ _ Hn) as (Wid & Wks & Wkp & Wpr). specialize (Wkp (or_introl Hst)).
  set (o := set_arr (set_status (e_order e) SActive) (b_t s)) in *.
  set (sd := o_side o) in *.
  assert (Hnb : ~ In id (qof (b_bid s))) by (eapply not_active_not_queued; eauto; congruence).
  assert (Hna : ~ In id (qof (b_ask s))) by (eapply not_active_not_queued; eauto; congruence).
  change (match sd with Bid => o_price o =? MAXP | Ask => o_price o =? 0 end) with (is_market o) in H.
  destruct (is_market o) eqn:Hm.
  - unfold place_market in H. destruct (b_trading s) eqn:Htr.
    + cbn [e_order set_eorder] in H. destruct (do_match sd s o) as [[s1 o1]|] eqn:Hdm; [|discriminate]. cbn in H.
      assert (Hsd : side_eqb (o_side o) sd = true) by apply side_eqb_refl.
      assert (Hnopp : ~ In id (qof (get_side s (opp sd)))) by (destruct (opp sd); assumption).
      destruct (do_match_invq sd s o id None s1 o1 Hinv (or_introl eq_refl) Hnopp Hsd Wpr Hdm) as (_ & Hinv1 & Hfr & _).
      pose proof (InvV_of_loop_inv sd s1 (do_match_loop_inv sd s o s1 o1 (loop_inv_of sd None s Hinv Hv) Hdm)) as Hv1.
      assert (Hn1 : nth_error (b_orders s1) id = Some e) by (destruct Hfr as [F1 F2 F3 F4 F5 F6]; rewrite F6; assumption).
      pose proof Hinv1 as (Hb1 & Ha1 & _ & _).
      assert (Hnb1 : ~ In id (qof (b_bid s1))) by (eapply not_active_not_queued; eauto; congruence).
      assert (Hna1 : ~ In id (qof (b_ask s1))) by (eapply not_active_not_queued; eauto; congruence).
      destruct (status_eqb (o_status o1) SFilled); injection H as <-; apply writeback_invv_unqueued; assumption.
    + injection H as <-. apply writeback_invv_unqueued; assumption.
  - unfold place_limit in H. cbn [e_order set_eorder e_kp] in H.
    match type of H with (do _ <- ?X; _) = _ => destruct X as [[s2 e2]|] eqn:Hp; [|discriminate] end.
    cbn in H. injection H as <-.
    eapply (arrive_invv s None id e (set_eorder e o) sd o (e_kp e) s2 e2); eauto.
Qed.

Theorem cancel_order_invv s id s' : InvQ None s -> InvV s -> cancel_order s id = Ok s' -> InvV s'.
Proof.
  intros Hinv [Vb Va] H. pose proof Hinv as (Hb & Ha & Hwf & Hc).
  unfold cancel_order in H. destruct (nth_error (b_orders s) id) as [e|] eqn:Hn; [|discriminate].
  destruct (status_eqb (o_status (e_order e)) SActive) eqn:Hst; [|inv H; split; assumption].
  apply status_eqb_eq in Hst.
  destruct (Hwf _ _ Hn) as (Wid & Wks & Wkp & Wpr). rewrite Wks in H.
  set (sd := o_side (e_order e)) in *.
  destruct (sd_remove (get_side s sd) (e_kp e) (e_kt e) (o_vol (set_end (set_status (e_order e) SCancelled) (b_t s)))) as [x'|] eqn:Hr; [|discriminate].
  cbn in H. injection H as <-. cbn [o_vol set_end set_status] in Hr.
  assert (Hown : side_ok (b_orders s) sd (get_side s sd)) by (destruct sd; assumption).
  assert (Hin : In ((e_kp e, e_kt e), id) (sd_orders (get_side s sd))) by (apply Hc; auto; discriminate).
  set (orders' := set_nth (b_orders s) id (set_eorder e (set_end (set_status (e_order e) SCancelled) (b_t s)))).
  assert (Hvown : vol_ok (b_orders s) (get_side s sd)) by (destruct sd; assumption).
  assert (Hks : ksorted (sd_orders (get_side s sd))) by (destruct Hown; assumption).
  assert (Hevol : evol (b_orders s) id = o_vol (e_order e)) by (unfold evol; rewrite Hn; reflexivity).
  assert (Hsame : forall y, In y (kremove (e_kp e, e_kt e) (sd_orders (get_side s sd))) -> evol orders' (snd y) = evol (b_orders s) (snd y)).
  { intros y Hy. unfold orders'. apply evol_set_nth_neq. intros C.
    pose proof (side_ok_nodup _ _ _ Hown) as Hnd.
    pose proof (kremove_perm _ _ _ Hks Hin) as Hp.
    assert (Hnd2 : NoDup (map snd (((e_kp e, e_kt e), id) :: kremove (e_kp e, e_kt e) (sd_orders (get_side s sd))))).
    { eapply Permutation_NoDup; [apply Permutation_map; exact Hp | exact Hnd]. }
    cbn in Hnd2. inv Hnd2. apply H1. rewrite C. apply in_map; assumption. }
  assert (Hnew : vol_ok orders' x')
    by exact (vol_ok_remove (b_orders s) orders' (get_side s sd) (e_kp e) (e_kt e) id _ x' Hvown Hks Hin Hevol Hsame Hr).
  assert (Hother : forall sd2, sd2 <> sd -> vol_ok orders' (get_side s sd2)).
  { intros sd2 Hne. apply (vol_ok_frame (b_orders s)); [|destruct sd2; cbn [get_side]; assumption]. intros y Hy. unfold orders'. apply evol_set_nth_neq. intros C.
    assert (Hok2 : side_ok (b_orders s) sd2 (get_side s sd2)) by (destruct sd2; assumption).
    destruct Hok2 as [_ Hf2]. rewrite Forall_forall in Hf2. destruct (Hf2 _ Hy) as (e2 & Hn2 & _ & _ & _ & Hs2 & _).
    rewrite <- C in Hn2. assert (e2 = e) by congruence; subst e2. apply Hne. symmetry; exact Hs2. }
  unfold InvV. simp_side. cbn [b_orders set_orders]. fold orders'.
  unfold sd in *. destruct (o_side (e_order e)) eqn:Esd; cbn [b_bid b_ask set_side set_orders].
  - split; [exact Hnew | apply (Hother Ask); discriminate].
  - split; [apply (Hother Bid); discriminate | exact Hnew].
Qed.

Lemma remove_own_entry_invv s id e x' :
  InvQ None s -> InvV s -> nth_error (b_orders s) id = Some e -> o_status (e_order e) = SActive ->
  sd_remove (get_side s (o_side (e_order e))) (e_kp e) (e_kt e) (o_vol (e_order e)) = Ok x' ->
  InvV (set_side s (o_side (e_order e)) x').
Proof.
  intros Hinv [Vb Va] Hn Hst Hr. pose proof Hinv as (Hb & Ha & Hwf & Hc).
  set (sd := o_side (e_order e)) in *.
  assert (Hown : side_ok (b_orders s) sd (get_side s sd)) by (destruct sd; assumption).
  assert (Hin : In ((e_kp e, e_kt e), id) (sd_orders (get_side s sd))) by (apply Hc; auto; discriminate).
  assert (Hvown : vol_ok (b_orders s) (get_side s sd)) by (destruct sd; assumption).
  assert (Hks : ksorted (sd_orders (get_side s sd))) by (destruct Hown; assumption).
  assert (Hevol : evol (b_orders s) id = o_vol (e_order e)) by (unfold evol; rewrite Hn; reflexivity).
  assert (Hnew : vol_ok (b_orders s) x')
    by exact (vol_ok_remove (b_orders s) (b_orders s) (get_side s sd) (e_kp e) (e_kt e) id _ x' Hvown Hks Hin Hevol (fun _ _ => eq_refl) Hr).
  unfold InvV. simp_side. unfold sd in *. destruct (o_side (e_order e)); cbn [b_bid b_ask set_side]; split; assumption.
Qed.

Theorem modify_order_invv s id np nv s' :
  InvQ None s -> InvV s -> (match np with Some p => p <= MAXP | None => True end) ->
  modify_order s id np nv = Ok s' -> InvV s'.
Proof.
  intros Hinv Hv Hp H. pose proof Hinv as (Hb & Ha & Hwf & Hc). pose proof Hv as [Vb Va].
  unfold modify_order in H. destruct (nth_error (b_orders s) id) as [e|] eqn:Hn; [|discriminate].
  destruct (match np with Some p => negb (p mod b_tick s =? 0) | None => false end); [injection H as <-; assumption|].
  destruct (status_eqb (o_status (e_order e)) SActive) eqn:Hst.
  2:{ cbn in H. injection H as <-. rewrite (set_nth_same _ _ _ Hn), set_orders_id. assumption. }
  apply status_eqb_eq in Hst.
  destruct (Hwf _ _ Hn) as (Wid & Wks & Wkp & Wpr).
  assert (Hrep : forall p v s1 e1, p <= MAXP -> replace_order s e p v = Ok (s1, e1) -> InvV (set_orders s1 (set_nth (b_orders s1) id e1))).
  { intros p v s1 e1 Hpp Hr. unfold replace_order in Hr. rewrite Wks in Hr.
    set (sd := o_side (e_order e)) in *.
    destruct (sd_remove (get_side s sd) (e_kp e) (e_kt e) (o_vol (e_order e))) as [x0|] eqn:Hrm; [|discriminate].
    cbn [rbind] in Hr.
    pose proof (remove_own_entry_invv s id e x0 Hinv Hv Hn Hst Hrm) as Hv0. fold sd in Hv0.
    pose proof Hrm as Hrm0. apply sd_remove_orders in Hrm0.
    destruct (remove_own_entry s id e x0 Hinv Hn Hst Hrm0) as (Hq & Hinv0 & Hnin). fold sd in Hq, Hinv0.
    set (s0 := set_side s sd x0) in *.
    assert (Hn0 : nth_error (b_orders s0) id = Some e) by (unfold s0; rewrite b_orders_set_side; exact Hn).
    assert (Hnb : ~ In id (qof (b_bid s0))).
    { unfold s0, sd in *. destruct (o_side (e_order e)) eqn:Esd; cbn [b_bid set_side]; [exact Hnin|].
      eapply wrong_side_not_queued; [exact Hb | exact Hn | congruence]. }
    assert (Hna : ~ In id (qof (b_ask s0))).
    { unfold s0, sd in *. destruct (o_side (e_order e)) eqn:Esd; cbn [b_ask set_side]; [|exact Hnin].
      eapply wrong_side_not_queued; [exact Ha | exact Hn | congruence]. }
    eapply (arrive_invv s0 (Some id) id e e sd (set_price (set_vol (e_order e) v) p) (kp_of sd p) s1 e1); eauto. }
  destruct np as [p|], nv as [v|]; cbn in Hp.
  - destruct (replace_order s e p v) as [[s1 e1]|] eqn:Hr; [|discriminate]. cbn in H. injection H as <-. exact (Hrep _ _ _ _ Hp Hr).
  - destruct (replace_order s e p (o_vol (e_order e))) as [[s1 e1]|] eqn:Hr; [|discriminate]. cbn in H. injection H as <-. exact (Hrep _ _ _ _ Hp Hr).
  - destruct (v <? o_vol (e_order e)) eqn:Hlt.
    + unfold reduce_order_vol in H.
      destruct (csub (o_vol (e_order e)) (o_vol (e_order e) - v)) as [v'|] eqn:Hc1; [|discriminate]. cbn [rbind] in H.
      destruct (sd_remove_vol (get_side s (e_kside e)) (e_kp e) (o_vol (e_order e) - v)) as [x'|] eqn:Hr; [|discriminate].
      cbn in H. injection H as <-.
      assert (Hv' : v' = v). { unfold csub in Hc1. destruct (_ <=? _); inv Hc1. lia. }
      subst v'. rewrite b_orders_set_side. rewrite Wks in *.
      set (sd := o_side (e_order e)) in *.
      set (orders' := set_nth (b_orders s) id (set_eorder e (set_vol (e_order e) v))).
      assert (Hown : side_ok (b_orders s) sd (get_side s sd)) by (destruct sd; assumption).
      assert (Hin : In ((e_kp e, e_kt e), id) (sd_orders (get_side s sd))) by (apply Hc; auto; discriminate).
      assert (Hvown : vol_ok (b_orders s) (get_side s sd)) by (destruct sd; assumption).
      assert (Hks : ksorted (sd_orders (get_side s sd))) by (destruct Hown; assumption).
      assert (Hlen : (id < length (b_orders s))%nat) by (apply nth_error_Some; congruence).
      assert (Hevol : evol orders' id + (o_vol (e_order e) - v) = evol (b_orders s) id).
      { unfold orders'. rewrite evol_set_nth_eq by assumption. cbn. unfold evol. rewrite Hn. lia. }
      assert (Hsame : forall y, In y (kremove (e_kp e, e_kt e) (sd_orders (get_side s sd))) -> evol orders' (snd y) = evol (b_orders s) (snd y)).
      { intros y Hy. unfold orders'. apply evol_set_nth_neq. intros C.
        pose proof (side_ok_nodup _ _ _ Hown) as Hnd.
        pose proof (kremove_perm _ _ _ Hks Hin) as Hpm.
        assert (Hnd2 : NoDup (map snd (((e_kp e, e_kt e), id) :: kremove (e_kp e, e_kt e) (sd_orders (get_side s sd))))).
        { eapply Permutation_NoDup; [apply Permutation_map; exact Hpm | exact Hnd]. }
        cbn in Hnd2. inv Hnd2. apply H1. rewrite C. apply in_map; assumption. }
      assert (Hnew : vol_ok orders' x')
        by exact (vol_ok_remove_vol (b_orders s) orders' (get_side s sd) (e_kp e) (e_kt e) id _ x' Hvown Hks Hin Hevol Hsame Hr).
      assert (Hother : forall sd2, sd2 <> sd -> vol_ok orders' (get_side s sd2)).
      { intros sd2 Hne. apply (vol_ok_frame (b_orders s)); [|destruct sd2; cbn [get_side]; assumption]. intros y Hy. unfold orders'. apply evol_set_nth_neq. intros C.
        assert (Hok2 : side_ok (b_orders s) sd2 (get_side s sd2)) by (destruct sd2; assumption).
        destruct Hok2 as [_ Hf2]. rewrite Forall_forall in Hf2. destruct (Hf2 _ Hy) as (e2 & Hn2 & _ & _ & _ & Hs2 & _).
        rewrite <- C in Hn2. assert (e2 = e) by congruence; subst e2. apply Hne. symmetry; exact Hs2. }
      unfold InvV. cbn [b_orders set_orders]. fold orders'.
      unfold sd in *. destruct (o_side (e_order e)) eqn:Esd; cbn [b_bid b_ask set_side set_orders].
      * split; [exact Hnew | apply (Hother Ask); discriminate].
      * split; [apply (Hother Bid); discriminate | exact Hnew].
    + destruct (replace_order s e (o_price (e_order e)) v) as [[s1 e1]|] eqn:Hr; [|discriminate]. cbn in H. injection H as <-. eapply Hrep; [exact Wpr | exact Hr].
  - cbn in H. injection H as <-. rewrite (set_nth_same _ _ _ Hn), set_orders_id. assumption.
Qed.

Theorem create_order_invv s sd v tr p s' c : InvQ None s -> InvV s -> create_order s sd v tr p = (s', c) -> InvV s'.
Proof.
  intros Hinv [Vb Va] H. pose proof Hinv as (Hb & Ha & _ & _). unfold create_order in H.
  assert (Hfr : forall extra, InvV (set_orders s (b_orders s ++ extra))).
  { intros extra. unfold InvV. cbn [b_orders b_bid b_ask set_orders].
    assert (Hx : forall sd2 x, side_ok (b_orders s) sd2 x -> vol_ok (b_orders s) x -> vol_ok (b_orders s ++ extra) x).
    { intros sd2 x Hok Hvx. apply (vol_ok_frame (b_orders s)); [|assumption]. intros y Hy.
      destruct Hok as [_ Hf]. rewrite Forall_forall in Hf. destruct (Hf _ Hy) as (e & Hn & _).
      unfold evol. rewrite nth_error_app1; [reflexivity | apply nth_error_Some; congruence]. }
    split; [eapply Hx; eauto | eapply Hx; eauto]. }
  destruct p as [p|]; [destruct (p mod b_tick s =? 0)|]; inv H; auto; try (split; assumption).
Qed.

Definition Inv (s : book) : Prop := InvQ None s /\ InvV s.

Theorem step_raw_inv s o s' x :
  Inv s -> op_u32 o -> o <> OReload -> step_raw s o = Ok (s', x) ->
  ref_step (abs s) o = Some (abs s', x) /\ Inv s'.
Proof.
  intros [Hq Hv] Hu Hnr H.
  destruct (step_raw_refines s o s' x Hq Hu Hnr H) as [R Hq']. split; [exact R|]. split; [exact Hq'|].
  destruct o; cbn [step_raw] in H.
  - destruct (create_order s sd vol trader price) as [s1 c] eqn:E. inv H. exact (create_order_invv _ _ _ _ _ _ _ Hq Hv E).
  - unfold create_and_place_order in H.
    destruct (create_order s sd vol trader price) as [s1 c] eqn:E.
    pose proof (create_order_invv _ _ _ _ _ _ _ Hq Hv E) as Hv1.
    destruct (create_order_refines s sd vol trader price s1 c Hq) as [_ Hq1]; [destruct price; exact Hu | exact E |].
    destruct c as [id|p t].
    + destruct (place_order s1 id) as [s2|] eqn:Hp; [|discriminate]. cbn in H. inv H. exact (place_order_invv _ _ _ Hq1 Hv1 Hp).
    + cbn in H. inv H. assumption.
  - destruct (place_order s id) as [s1|] eqn:Hp; [|discriminate]. inv H. exact (place_order_invv _ _ _ Hq Hv Hp).
  - destruct (cancel_order s id) as [s1|] eqn:Hp; [|discriminate]. inv H. exact (cancel_order_invv _ _ _ Hq Hv Hp).
  - destruct (modify_order s id new_price new_vol) as [s1|] eqn:Hp; [|discriminate]. inv H.
    refine (modify_order_invv _ _ _ _ _ Hq Hv _ Hp). destruct new_price; exact Hu.
  - destruct (process_event s ev) as [s1|] eqn:Hp; [|discriminate]. inv H. destruct ev; cbn in Hp.
    + exact (place_order_invv _ _ _ Hq Hv Hp).
    + exact (cancel_order_invv _ _ _ Hq Hv Hp).
    + refine (modify_order_invv _ _ _ _ _ Hq Hv _ Hp). destruct new_price; exact Hu.
  - inv H. exact Hv.
  - inv H. exact Hv.
  - inv H. exact Hv.
  - inv H. exact Hv.
  - contradiction.
Qed.

Lemma Inv_new t0 tick tr s0 : book_new t0 tick tr = Ok s0 -> Inv s0.
Proof.
  intros H. destruct (InvQ_new _ _ _ _ H) as [Hq _]. split; [exact Hq|].
  unfold book_new in H. destruct (tick =? 0); [discriminate|]. inv H.
  unfold InvV, vol_ok. cbn. msplit; try constructor; auto.
Qed.

Theorem run_inv ops : forall s s' xs,
  Inv s -> Forall op_u32 ops -> ~ In OReload ops ->
  run_outs s ops = Ok (s', xs) ->
  ref_run_outs (abs s) ops = Some (abs s', xs) /\ Inv s'.
Proof.
  induction ops as [|o r IH]; intros s s' xs Hinv Hu Hnr H; cbn in H.
  - inv H. auto.
  - unfold step in H. destruct (step_raw s o) as [[s1 x]|] eqn:E; [|discriminate]. cbn in H.
    destruct (bounded s1); [|discriminate]. cbn in H.
    destruct (run_outs s1 r) as [[s2 xs2]|] eqn:E2; [|discriminate]. cbn in H. inv H.
    inv Hu. destruct (step_raw_inv s o s1 x Hinv H1) as [R I]; [intros C; apply Hnr; left; auto | exact E |].
    destruct (IH s1 s' xs2 I H2) as [R2 I2]; [intros C; apply Hnr; right; assumption | exact E2 |].
    cbn [ref_run_outs]. rewrite R, R2. auto.
Qed.
