(** * C12: creation succeeds iff the price is on the grid; failures leave no
    trace; every price in the book stays on the grid under every operation *)
From Bourse Require Import Model.Types Model.Map Model.Side Model.Book Proofs.Basic.
From Coq Require Import ZifyBool ZifyNat ZifyN.

(** ** Creation *)
Lemma create_ok_iff s sd v tr p :
  (exists s' id, create_order s sd v tr (Some p) = (s', Created id)) <-> p mod b_tick s = 0.
Proof.
  unfold create_order. destruct (p mod b_tick s =? 0) eqn:E.
  - split; [lia | eauto].
  - split; [intros (s' & id & H); discriminate | lia].
Qed.

Lemma create_err_unchanged s sd v tr p :
  p mod b_tick s <> 0 -> create_order s sd v tr (Some p) = (s, PriceError p (b_tick s)).
Proof.
  unfold create_order; intros H. destruct (p mod b_tick s =? 0) eqn:E; [lia | reflexivity].
Qed.

Lemma create_market_always s sd v tr :
  exists s', create_order s sd v tr None = (s', Created (length (b_orders s))).
Proof. unfold create_order; eauto. Qed.

Lemma create_id_dense s sd v tr p s' id :
  create_order s sd v tr p = (s', Created id) ->
  id = length (b_orders s) /\ length (b_orders s') = S (length (b_orders s)).
Proof.
  unfold create_order; intros H.
  destruct p as [p|]; [destruct (p mod b_tick s =? 0)|]; inversion H; subst; simpl;
    rewrite app_length; simpl; lia.
Qed.

Lemma create_and_place_err_unchanged s sd v tr p :
  p mod b_tick s <> 0 ->
  create_and_place_order s sd v tr (Some p) = Ok (s, PriceError p (b_tick s)).
Proof. intros H; unfold create_and_place_order; rewrite create_err_unchanged; auto. Qed.

(** ** The grid invariant *)
Definition on_grid (tick : N) (o : order) : Prop :=
  o_price o mod tick = 0 \/ (o_side o = Bid /\ o_price o = MAXP).

Definition grid (s : book) : Prop :=
  Forall (fun e => on_grid (b_tick s) (e_order e)) (b_orders s).

(** [same_px a b]: side and price agree *)
Definition same_px (a b : order) : Prop := o_side a = o_side b /\ o_price a = o_price b.

Lemma on_grid_same tick a b : same_px a b -> on_grid tick a -> on_grid tick b.
Proof. unfold same_px, on_grid; intros [Hs Hp] H; rewrite <- Hs, <- Hp; exact H. Qed.

Lemma match_orders_same t a p a' p' tr v :
  match_orders t a p = (a', p', tr, v) -> same_px a a' /\ same_px p p'.
Proof.
  unfold match_orders; intros H; inversion H; subst; clear H; unfold same_px.
  split; split;
    repeat match goal with |- context [if ?c then _ else _] => destruct c end; reflexivity.
Qed.

Lemma match_iter_grid sd tick px s a s1 a1 :
  (grid s /\ b_tick s = tick /\ same_px px a) ->
  match_iter sd s a = ICont s1 a1 ->
  grid s1 /\ b_tick s1 = tick /\ same_px px a1.
Proof.
  intros (Hg & Ht & Hp) H. apply match_iter_cont in H.
  destruct H as (id & pe & ps' & _ & _ & Hn & H).
  destruct (match_orders (b_t s) a (e_order pe)) as [[[agg' pass'] tr] v] eqn:Hm.
  destruct H as (_ & -> & ->).
  apply match_orders_same in Hm; destruct Hm as [Ha Hpp].
  unfold grid. simp_side. cbn.
  repeat split.
  - apply Forall_set_nth; [exact Hg|]. cbn. eapply on_grid_same; [exact Hpp|].
    eapply (nth_error_Forall _ _ _ _ Hg Hn).
  - exact Ht.
  - destruct Hp as [? ?], Ha as [? ?]; congruence.
  - destruct Hp as [? ?], Ha as [? ?]; congruence.
Qed.

Lemma do_match_grid sd s a s' a' :
  grid s -> do_match sd s a = Ok (s', a') ->
  grid s' /\ b_tick s' = b_tick s /\ same_px a a'.
Proof.
  intros Hg H.
  eapply (do_match_inv (fun s0 a0 => grid s0 /\ b_tick s0 = b_tick s /\ same_px a a0)); eauto.
  - intros; eapply match_iter_grid; eauto.
  - repeat split; auto.
Qed.

Lemma grid_set_side s sd x : grid s -> grid (set_side s sd x).
Proof. unfold grid; destruct sd; simpl; auto. Qed.

Lemma grid_set_entry s id e :
  grid s -> on_grid (b_tick s) (e_order e) -> grid (set_orders s (set_nth (b_orders s) id e)).
Proof. unfold grid; simpl; intros; apply Forall_set_nth; auto. Qed.

Ltac inv H := inversion H; subst; clear H.

Lemma place_limit_grid sd s e s1 e1 :
  grid s -> place_limit sd s e = Ok (s1, e1) ->
  grid s1 /\ b_tick s1 = b_tick s /\ same_px (e_order e) (e_order e1).
Proof.
  intros Hg H. unfold place_limit in H.
  destruct (b_trading s).
  - destruct (do_match sd s (e_order e)) as [[s' o']|] eqn:Hm; [|discriminate]. cbn in H.
    apply do_match_grid in Hm; auto. destruct Hm as (Hg' & Ht' & Hp').
    destruct (status_eqb (o_status o') SFilled).
    + inv H; auto.
    + destruct (sd_queue (get_side s' sd) (e_kp e) (b_t s') (o_id o') (o_vol o')) as [[x kt]|]; [|discriminate].
      inv H. cbn. split; [apply grid_set_side; auto|].
      simp_side; auto.
  - cbn in H. destruct (status_eqb (o_status (e_order e)) SFilled).
    + inv H; repeat split; auto.
    + destruct (sd_queue (get_side s sd) (e_kp e) (b_t s) (o_id (e_order e)) (o_vol (e_order e))) as [[x kt]|]; [|discriminate].
      inv H. cbn. split; [apply grid_set_side; auto|].
      simp_side; repeat split; auto.
Qed.

Lemma place_market_grid sd s e s1 e1 :
  grid s -> place_market sd s e = Ok (s1, e1) ->
  grid s1 /\ b_tick s1 = b_tick s /\ same_px (e_order e) (e_order e1).
Proof.
  intros Hg H. unfold place_market in H.
  destruct (b_trading s).
  - destruct (do_match sd s (e_order e)) as [[s' o']|] eqn:Hm; [|discriminate]. cbn in H.
    apply do_match_grid in Hm; auto. destruct Hm as (Hg' & Ht' & Hp').
    destruct (status_eqb (o_status o') SFilled); inv H; auto.
  - inv H; repeat split; auto.
Qed.

Lemma place_order_grid s id s' :
  grid s -> place_order s id = Ok s' -> grid s' /\ b_tick s' = b_tick s.
Proof.
  intros Hg H. unfold place_order in H.
  destruct (nth_error (b_orders s) id) as [e|] eqn:Hn; [|discriminate].
  destruct (negb (status_eqb (o_status (e_order e)) SNew)); [inv H; auto|].
  set (o := set_arr (set_status (e_order e) SActive) (b_t s)) in *.
  assert (Hog : on_grid (b_tick s) o) by (apply (nth_error_Forall _ _ _ _ Hg Hn)).
  match type of H with (do _ <- ?X; _) = _ => destruct X as [[s1 e1]|] eqn:Hp; [|discriminate] end.
  cbn in H; inv H.
  assert (Hres : grid s1 /\ b_tick s1 = b_tick s /\ same_px o (e_order e1)).
  { destruct (match o_side o with Bid => o_price o =? MAXP | Ask => o_price o =? 0 end).
    - eapply place_market_grid in Hp; auto.
    - eapply place_limit_grid in Hp; auto. }
  destruct Hres as (Hg1 & Ht1 & Hp1).
  split; [|exact Ht1].
  apply grid_set_entry; auto. rewrite Ht1. eapply on_grid_same; eauto.
Qed.

Lemma cancel_order_grid s id s' :
  grid s -> cancel_order s id = Ok s' -> grid s' /\ b_tick s' = b_tick s.
Proof.
  intros Hg H. unfold cancel_order in H.
  destruct (nth_error (b_orders s) id) as [e|] eqn:Hn; [|discriminate].
  destruct (status_eqb (o_status (e_order e)) SActive); [|inv H; auto].
  destruct (sd_remove _ _ _ _) as [x|]; [|discriminate]. cbn in H; inv H.
  split.
  - apply grid_set_side. apply grid_set_entry; auto. cbn.
    apply (nth_error_Forall _ _ _ _ Hg Hn).
  - simp_side; reflexivity.
Qed.

Lemma replace_order_grid s e p v s1 e1 :
  grid s -> (p mod b_tick s = 0 \/ p = o_price (e_order e)) ->
  on_grid (b_tick s) (e_order e) ->
  replace_order s e p v = Ok (s1, e1) ->
  grid s1 /\ b_tick s1 = b_tick s /\ on_grid (b_tick s) (e_order e1).
Proof.
  intros Hg Hp He H. unfold replace_order in H.
  destruct (sd_remove _ _ _ _) as [x|]; [|discriminate]. cbn in H.
  set (s0 := set_side s (e_kside e) x) in *.
  set (o0 := set_price (set_vol (e_order e) v) p) in *.
  assert (Hg0 : grid s0) by (apply grid_set_side; auto).
  assert (Ht0 : b_tick s0 = b_tick s) by (unfold s0; simp_side; reflexivity).
  assert (Ho0 : on_grid (b_tick s) o0).
  { unfold on_grid in *; cbn. destruct Hp as [Hp| ->]; auto. }
  assert (Hm : forall s2 o2, (if b_trading s0 then do_match (e_kside e) s0 o0 else Ok (s0, o0)) = Ok (s2, o2) ->
               grid s2 /\ b_tick s2 = b_tick s /\ on_grid (b_tick s) o2).
  { intros s2 o2 Hx. destruct (b_trading s0).
    - apply do_match_grid in Hx; auto. destruct Hx as (? & ? & ?). repeat split; auto; try congruence.
      eapply on_grid_same; eauto.
    - inv Hx; auto. }
  destruct (if b_trading s0 then _ else _) as [[s2 o2]|] eqn:Hx; [|discriminate]. cbn in H.
  destruct (Hm _ _ eq_refl) as (Hg2 & Ht2 & Ho2).
  destruct (status_eqb (o_status o2) SFilled); [inv H; auto|].
  destruct (sd_queue _ _ _ _ _) as [[y kt]|]; [|discriminate]. inv H. cbn.
  split; [apply grid_set_side; auto|].
  simp_side; auto.
Qed.

Lemma modify_order_grid s id np nv s' :
  grid s -> modify_order s id np nv = Ok s' -> grid s' /\ b_tick s' = b_tick s.
Proof.
  intros Hg H. unfold modify_order in H.
  destruct (nth_error (b_orders s) id) as [e|] eqn:Hn; [|discriminate].
  assert (He : on_grid (b_tick s) (e_order e)) by (apply (nth_error_Forall _ _ _ _ Hg Hn)).
  destruct (match np with Some p => negb (p mod b_tick s =? 0) | None => false end) eqn:Hgrid; [inv H; auto|].
  match type of H with (do _ <- ?X; _) = _ => destruct X as [[s1 e1]|] eqn:Hp; [|discriminate] end.
  cbn in H; inv H.
  assert (Hres : grid s1 /\ b_tick s1 = b_tick s /\ on_grid (b_tick s) (e_order e1)).
  { destruct (status_eqb (o_status (e_order e)) SActive); [|inv Hp; auto].
    destruct np as [p|], nv as [v|].
    - eapply replace_order_grid in Hp; auto. left; lia.
    - eapply replace_order_grid in Hp; auto. left; lia.
    - destruct (v <? o_vol (e_order e)).
      + unfold reduce_order_vol in Hp.
        destruct (csub _ _) as [v'|]; [|discriminate]. cbn in Hp.
        destruct (sd_remove_vol _ _ _) as [x|]; [|discriminate]. inv Hp. cbn.
        split; [apply grid_set_side; auto|].
        simp_side; auto.
      + eapply replace_order_grid in Hp; auto.
    - inv Hp; auto. }
  destruct Hres as (Hg1 & Ht1 & Ho1). split; [|exact Ht1].
  apply grid_set_entry; auto. rewrite Ht1; auto.
Qed.

Lemma create_order_grid s sd v tr p s' c :
  grid s -> create_order s sd v tr p = (s', c) -> grid s' /\ b_tick s' = b_tick s.
Proof.
  intros Hg H. unfold create_order in H.
  destruct p as [p|].
  - destruct (p mod b_tick s =? 0) eqn:E; inv H; auto.
    split; auto. unfold grid; cbn. apply Forall_app; split; auto.
    constructor; auto. left; cbn; lia.
  - inv H. split; auto. unfold grid; cbn. apply Forall_app; split; auto.
    constructor; auto. destruct sd; cbn; [right; auto | left; reflexivity].
Qed.

Theorem grid_step_raw s o s' x :
  grid s -> step_raw s o = Ok (s', x) -> grid s' /\ b_tick s' = b_tick s.
Proof.
  intros Hg H. destruct o; cbn in H.
  - destruct (create_order s sd vol trader price) as [s1 c] eqn:E. inv H.
    eapply create_order_grid; eauto.
  - unfold create_and_place_order in H.
    destruct (create_order s sd vol trader price) as [s1 c] eqn:E.
    apply create_order_grid in E; auto. destruct E as [Hg1 Ht1].
    destruct c as [id|p t].
    + destruct (place_order s1 id) as [s2|] eqn:Hp; [|discriminate]. cbn in H. inv H.
      apply place_order_grid in Hp; auto. destruct Hp; split; congruence.
    + cbn in H. inv H. auto.
  - destruct (place_order s id) as [s1|] eqn:Hp; [|discriminate]. inv H. eapply place_order_grid; eauto.
  - destruct (cancel_order s id) as [s1|] eqn:Hp; [|discriminate]. inv H. eapply cancel_order_grid; eauto.
  - destruct (modify_order s id new_price new_vol) as [s1|] eqn:Hp; [|discriminate]. inv H. eapply modify_order_grid; eauto.
  - destruct (process_event s ev) as [s1|] eqn:Hp; [|discriminate]. inv H.
    destruct ev; cbn in Hp.
    + eapply place_order_grid; eauto.
    + eapply cancel_order_grid; eauto.
    + eapply modify_order_grid; eauto.
  - inv H; auto.
  - inv H; auto.
  - inv H; auto.
  - inv H; auto.
  - inv H. unfold of_snapshot, to_snapshot; cbn.
    destruct (fold_left _ _ _) as [bid ask]. split; auto.
Qed.

Theorem grid_step s o s' x :
  grid s -> step s o = Ok (s', x) -> grid s' /\ b_tick s' = b_tick s.
Proof.
  unfold step; intros Hg H.
  destruct (step_raw s o) as [[s1 x1]|] eqn:E; [|discriminate]. cbn in H.
  destruct (bounded s1); inv H. eapply grid_step_raw; eauto.
Qed.

Theorem grid_reachable t0 tick tr ops s0 s :
  book_new t0 tick tr = Ok s0 -> run s0 ops = Ok s ->
  Forall (fun e => on_grid tick (e_order e)) (b_orders s).
Proof.
  intros H0 Hr.
  assert (Hg0 : grid s0 /\ b_tick s0 = tick).
  { unfold book_new in H0. destruct (tick =? 0); inv H0. split; [constructor | reflexivity]. }
  clear H0. revert s0 Hg0 Hr. induction ops as [|o r IH]; intros s0 [Hg Ht] Hr; cbn in Hr.
  - injection Hr as <-. unfold grid in Hg. rewrite Ht in Hg. exact Hg.
  - destruct (step s0 o) as [[s1 x]|] eqn:E; [|discriminate].
    apply grid_step in E; auto. destruct E as [Hg1 Ht1]. apply (IH s1); [split; [exact Hg1 | congruence] | exact Hr].
Qed.
