(** * What the built-in agents submit: configured volumes, their own trader ids,
    limit prices on the grid (random agents inside their tick and volume ranges) *)
From Bourse Require Import Model.Types Model.Side Model.Book Model.Rng Model.Float Model.Env Model.Agents
  Proofs.Basic Proofs.EnvProps Proofs.AgentProps Proofs.AgentDir.
From Coq Require Import ZifyBool ZifyNat ZifyN.

Ltac inv H := inversion H; subst; clear H.
Local Arguments N.mul : simpl never.
Local Arguments N.modulo : simpl never.

(** book [a] of [e'] is book [a] of [e] with orders satisfying [P] appended (or the books are the same) *)
Definition adds_only (P : order -> Prop) (a : nat) (e e' : menv) : Prop :=
  en_market e' = en_market e \/
  exists b ents, nth_error (en_market e) a = Some b /\
    nth_error (en_market e') a = Some (set_orders b (b_orders b ++ ents)) /\
    Forall (fun en => P (e_order en)) ents.

Lemma adds_refl P a e : adds_only P a e e.
Proof. left; reflexivity. Qed.

Lemma adds_trans P a e1 e2 e3 : adds_only P a e1 e2 -> adds_only P a e2 e3 -> adds_only P a e1 e3.
Proof.
  intros [E12|(b & x & H1 & H2 & F12)] [E23|(b' & y & H3 & H4 & F23)].
  - left. congruence.
  - right. exists b', y. rewrite <- E12. auto.
  - right. exists b, x. rewrite E23. auto.
  - right. rewrite H2 in H3. injection H3 as <-. exists b, (x ++ y). split; [assumption|]. split.
    + rewrite H4. cbn [b_orders set_orders]. rewrite set_orders_twice, app_assoc. reflexivity.
    + apply Forall_app; auto.
Qed.

Lemma adds_weaken (P Q : order -> Prop) a e e' : (forall o, P o -> Q o) -> adds_only P a e e' -> adds_only Q a e e'.
Proof.
  intros H [E|(b & x & H1 & H2 & F)]; [left; assumption|]. right. exists b, x. repeat split; auto.
  eapply Forall_impl; [|exact F]. intros en; apply H.
Qed.

Lemma adds_from P a e0 e e' : en_market e = en_market e0 -> adds_only P a e e' -> adds_only P a e0 e'.
Proof. intros E [G|(b & x & H1 & H2 & F)]; [left; congruence | right; exists b, x; rewrite <- E; auto]. Qed.

(** the order [create_order] appends *)
Definition submitted (sd : side) (v tr : N) (p : option N) (o : order) : Prop :=
  o_side o = sd /\ o_status o = SNew /\ o_vol o = v /\ o_start o = v /\ o_trader o = tr /\
  o_price o = match p with Some px => px | None => match sd with Bid => MAXP | Ask => 0 end end.

Lemma create_order_submitted b sd v tr p b' id :
  create_order b sd v tr p = (b', Created id) ->
  exists ent, b' = set_orders b (b_orders b ++ [ent]) /\ submitted sd v tr p (e_order ent).
Proof.
  unfold create_order, submitted. intros H. destruct p as [p|]; [destruct (_ =? 0)|]; inv H; eexists; split; try reflexivity; cbn; auto 10.
Qed.

Lemma place_unwrap_adds e a sd v tr p e' id :
  place_unwrap e a sd v tr p = Ok (e', id) -> adds_only (submitted sd v tr p) a e e'.
Proof.
  unfold place_unwrap, menv_place. destruct (nth_error (en_market e) a) as [b|] eqn:Hb; [|discriminate].
  destruct (create_order b sd v tr p) as [b' c'] eqn:Hc. destruct c' as [i|pp tt]; [|cbn; discriminate].
  destruct (upd_nth (en_market e) a (fun _ => Ok b')) as [m'|] eqn:Hu; [|discriminate]. cbn. intros H; inv H.
  apply upd_nth_local in Hu. destruct Hu as (_ & _ & b0 & b1 & Hb0 & Hf & Hb1). inv Hf.
  destruct (create_order_submitted _ _ _ _ _ _ _ Hc) as (ent & -> & Hs).
  right. exists b, [ent]. cbn [en_market push_event set_market]. rewrite Hb in Hb0. inv Hb0. auto.
Qed.

(** what a noise or momentum trader may add: its own id, the configured volume, and a limit price on the grid *)
Definition helper_order (tick v tr : N) (o : order) : Prop :=
  o_status o = SNew /\ o_vol o = v /\ o_trader o = tr /\
  (o_price o mod tick = 0 \/ o_price o = match o_side o with Bid => MAXP | Ask => 0 end).

Lemma place_limit_dist_adds ln e c a buy mid tick v tr e' c' id :
  place_limit_dist ln e c a buy mid tick v tr = Ok (e', c', id) -> adds_only (helper_order tick v tr) a e e'.
Proof.
  unfold place_limit_dist. destruct (c_lognormal ln c) as [[d c1]|]; [|discriminate]. cbn [rbind].
  destruct (snap_to_grid _ tick) as [pr|] eqn:Es; [|discriminate]. cbn [rbind].
  destruct (place_unwrap e a (if buy then Bid else Ask) v tr (Some pr)) as [[e1 i]|] eqn:E; [|discriminate]. cbn.
  intros H; inv H. eapply adds_weaken; [|eapply place_unwrap_adds; eassumption].
  intros o (_ & S1 & S2 & _ & S4 & S5). destruct (snap_on_grid _ _ _ Es) as [G _]. unfold helper_order. rewrite S5. auto.
Qed.

Lemma market_order_adds e a sd v tr e' id :
  place_unwrap e a sd v tr None = Ok (e', id) -> adds_only (helper_order 1 v tr) a e e'.
Proof.
  intros H. eapply adds_weaken; [|eapply place_unwrap_adds; eassumption].
  intros o (_ & S1 & S2 & _ & S4 & _). unfold helper_order. repeat split; auto. left. apply N.mod_1_r.
Qed.

Lemma helper_tick1 tick v tr o : helper_order 1 v tr o -> helper_order tick v tr o \/ helper_order 1 v tr o.
Proof. auto. Qed.

(** a market order is recognisable by its sentinel price; for the statement below a market order
    submitted by an agent is described as: own id, configured volume *)
Definition agent_order (tick v tr : N) (o : order) : Prop :=
  o_status o = SNew /\ o_vol o = v /\ o_trader o = tr /\
  (o_price o mod tick = 0 \/ o_price o = match o_side o with Bid => MAXP | Ask => 0 end).

Section Orders.
Variable lognormal : N -> N -> option (N * N).
Variable tanh64 : N -> N.

Theorem noise_trader_orders ln e c a p mid tr live e' c' live' :
  noise_trader ln e c a p mid tr live = Ok (e', c', live') ->
  adds_only (agent_order (np_tick p) (np_vol p) tr) a e e'.
Proof.
  unfold noise_trader. destruct (c_f32 c) as [k c1]. intros H.
  assert (W : forall o, helper_order (np_tick p) (np_vol p) tr o -> agent_order (np_tick p) (np_vol p) tr o)
    by (intros o H0; exact H0).
  assert (W1 : forall sd o, submitted sd (np_vol p) tr None o -> agent_order (np_tick p) (np_vol p) tr o)
    by (intros sd o (S0 & A & B & _ & C & D); unfold agent_order; rewrite S0; auto).
  destruct (f32_draw_lt k (np_p_limit p)).
  - destruct (c_bool_half c1) as [buy c1'].
    destruct (place_limit_dist ln e c1' a buy mid (np_tick p) (np_vol p) tr) as [[[e1 c2] id]|] eqn:E1; [|discriminate]. cbn [rbind] in H.
    pose proof (adds_weaken _ _ _ _ _ W (place_limit_dist_adds _ _ _ _ _ _ _ _ _ _ _ _ E1)) as G1.
    destruct (c_f32 c2) as [k2 c3]. destruct (f32_draw_lt k2 (np_p_market p)); [|inv H; exact G1].
    destruct (c_bool_half c3) as [buy2 c4].
    destruct (place_unwrap e1 a (if buy2 then Bid else Ask) (np_vol p) tr None) as [[e2 i2]|] eqn:E2; [|discriminate]. cbn in H. inv H.
    eapply adds_trans; [exact G1|]. eapply adds_weaken; [apply W1 | eapply place_unwrap_adds; eassumption].
  - cbn [rbind] in H. destruct (c_f32 c1) as [k2 c3]. destruct (f32_draw_lt k2 (np_p_market p)); [|inv H; apply adds_refl].
    destruct (c_bool_half c3) as [buy2 c4].
    destruct (place_unwrap e a (if buy2 then Bid else Ask) (np_vol p) tr None) as [[e2 i2]|] eqn:E2; [|discriminate]. cbn in H. inv H.
    eapply adds_weaken; [apply W1 | eapply place_unwrap_adds; eassumption].
Qed.

Theorem mom_trader_orders ln e c a p mid m pl pm tr live e' c' live' :
  mom_trader ln e c a p mid m pl pm tr live = Ok (e', c', live') ->
  adds_only (agent_order (mp_tick p) (mp_vol p) tr) a e e'.
Proof.
  unfold mom_trader. destruct (c_f64 c) as [k c1]. intros H.
  assert (W : forall o, helper_order (mp_tick p) (mp_vol p) tr o -> agent_order (mp_tick p) (mp_vol p) tr o)
    by (intros o H0; exact H0).
  assert (W1 : forall sd o, submitted sd (mp_vol p) tr None o -> agent_order (mp_tick p) (mp_vol p) tr o)
    by (intros sd o (S0 & A & B & _ & C & D); unfold agent_order; rewrite S0; auto).
  assert (Hmk : forall (e0 : menv) (c0 : crng) (l0 : list nat) (e3 : menv) (c3 : crng) (l3 : list nat),
            (if fgt m f_zero then do (e2, _) <- place_unwrap e0 a Bid (mp_vol p) tr None; Ok (e2, c0, l0)
             else if flt m f_zero then do (e2, _) <- place_unwrap e0 a Ask (mp_vol p) tr None; Ok (e2, c0, l0)
             else Ok (e0, c0, l0)) = Ok (e3, c3, l3) -> adds_only (agent_order (mp_tick p) (mp_vol p) tr) a e0 e3).
  { intros e0 c0 l0 e3 c3 l3 Hx. destruct (fgt m f_zero); [|destruct (flt m f_zero)].
    - destruct (place_unwrap e0 a Bid (mp_vol p) tr None) as [[e2 i2]|] eqn:E2; [|discriminate]. cbn in Hx. inv Hx.
      eapply adds_weaken; [apply W1 | eapply place_unwrap_adds; eassumption].
    - destruct (place_unwrap e0 a Ask (mp_vol p) tr None) as [[e2 i2]|] eqn:E2; [|discriminate]. cbn in Hx. inv Hx.
      eapply adds_weaken; [apply W1 | eapply place_unwrap_adds; eassumption].
    - inv Hx. apply adds_refl. }
  assert (Hlim : forall (e0 : menv) (c0 : crng) (l0 : list nat) (e3 : menv) (c3 : crng) (l3 : list nat),
            (if fgt m f_zero then do (e', c', id) <- place_limit_dist ln e0 c0 a true mid (mp_tick p) (mp_vol p) tr; Ok (e', c', l0 ++ [id])
             else if flt m f_zero then do (e', c', id) <- place_limit_dist ln e0 c0 a false mid (mp_tick p) (mp_vol p) tr; Ok (e', c', l0 ++ [id])
             else Ok (e0, c0, l0)) = Ok (e3, c3, l3) -> adds_only (agent_order (mp_tick p) (mp_vol p) tr) a e0 e3).
  { intros e0 c0 l0 e3 c3 l3 Hx. destruct (fgt m f_zero); [|destruct (flt m f_zero)].
    - destruct (place_limit_dist ln e0 c0 a true mid (mp_tick p) (mp_vol p) tr) as [[[e1 c2] id]|] eqn:E1; [|discriminate]. cbn in Hx. inv Hx.
      exact (adds_weaken _ _ _ _ _ W (place_limit_dist_adds _ _ _ _ _ _ _ _ _ _ _ _ E1)).
    - destruct (place_limit_dist ln e0 c0 a false mid (mp_tick p) (mp_vol p) tr) as [[[e1 c2] id]|] eqn:E1; [|discriminate]. cbn in Hx. inv Hx.
      exact (adds_weaken _ _ _ _ _ W (place_limit_dist_adds _ _ _ _ _ _ _ _ _ _ _ _ E1)).
    - inv Hx. apply adds_refl. }
  destruct (flt _ pl).
  - match type of H with (do _ <- ?X; _) = _ => destruct X as [[[e1 c2] l1]|] eqn:E1; [|discriminate] end. cbn [rbind] in H.
    pose proof (Hlim _ _ _ _ _ _ E1) as G1. destruct (c_f64 c2) as [k2 c3].
    destruct (flt _ pm); [|inv H; exact G1]. eapply adds_trans; [exact G1 | eapply Hmk; exact H].
  - cbn [rbind] in H. destruct (c_f64 c1) as [k2 c3]. destruct (flt _ pm); [|inv H; apply adds_refl]. eapply Hmk; exact H.
Qed.

(** all traders [first .. first + n) of one agent *)
Lemma for_traders_adds (Q : N -> order -> Prop) a (f : menv * crng * list nat -> N -> res (menv * crng * list nat)) :
  (forall e c l tr e' c' l', f (e, c, l) tr = Ok (e', c', l') -> adds_only (Q tr) a e e') ->
  forall n e c l first e' c' l', for_traders f (e, c, l) first n = Ok (e', c', l') ->
    adds_only (fun o => exists tr, first <= tr < first + N.of_nat n /\ Q tr o) a e e'.
Proof.
  intros Hf. induction n as [|n IH]; intros e c l first e' c' l' H; cbn [for_traders] in H.
  - inv H. apply adds_refl.
  - destruct (f (e, c, l) first) as [[[e1 c1] l1]|] eqn:E1; [|discriminate]. cbn in H.
    eapply adds_trans.
    + eapply adds_weaken; [|eapply Hf; eassumption]. intros o Ho. exists first. split; [lia | assumption].
    + eapply adds_weaken; [|eapply IH; eassumption]. intros o (tr & Htr & Ho). exists tr. split; [lia | assumption].
Qed.

(** a whole update of a noise agent / a momentum agent *)
Theorem noise_update_orders k e c a orders first n p e' c' ag' :
  agent_update lognormal tanh64 k e c (ANoise a orders first n p) = Ok (e', c', ag') ->
  adds_only (fun o => exists tr, first <= tr < first + n /\ agent_order (np_tick p) (np_vol p) tr o) a e e'.
Proof.
  cbn [agent_update]. intros H.
  destruct (cancel_live_orders e c a orders (np_p_cancel p)) as [[[e1 c1] live]|] eqn:Ec; [|discriminate]. cbn [rbind] in H.
  pose proof (cancel_live_market _ _ _ _ _ _ _ _ Ec) as Em.
  destruct (mid_f64 e1 a) as [mid|]; [|discriminate]. cbn [rbind] in H.
  match type of H with (do _ <- for_traders ?f _ _ _; _) = _ => set (F := f) in * end.
  destruct (for_traders F (e1, c1, live) first (N.to_nat n)) as [[[e2 c2] live2]|] eqn:Ef; [|discriminate]. cbn in H. inv H.
  apply (adds_from _ a e e1 e' Em).
  eapply adds_weaken; [|eapply (for_traders_adds (fun tr => agent_order (np_tick p) (np_vol p) tr) a F); [|exact Ef]].
  - intros o (tr & Htr & Ho). exists tr. split; [lia | assumption].
  - intros e0 c0 l0 tr e3 c3 l3 Hx. unfold F in Hx. eapply noise_trader_orders; eassumption.
Qed.

Theorem momentum_update_orders k e c a orders first n p last mom e' c' ag' :
  agent_update lognormal tanh64 k e c (AMomentum a orders first n p last mom) = Ok (e', c', ag') ->
  adds_only (fun o => exists tr, first <= tr < first + n /\ agent_order (mp_tick p) (mp_vol p) tr o) a e e'.
Proof.
  cbn [agent_update]. intros H.
  destruct (cancel_live_orders e c a orders (mp_p_cancel p)) as [[[e1 c1] live]|] eqn:Ec; [|discriminate]. cbn [rbind] in H.
  pose proof (cancel_live_market _ _ _ _ _ _ _ _ Ec) as Em.
  destruct (mid_f64 e1 a) as [mid|]; [|discriminate]. cbn [rbind] in H.
  destruct (match last with Some lp => _ | None => (f_zero, f_zero) end) as [m pmk].
  match type of H with (do _ <- for_traders ?f _ _ _; _) = _ => set (F := f) in * end.
  destruct (for_traders F (e1, c1, live) first (N.to_nat n)) as [[[e2 c2] live2]|] eqn:Ef; [|discriminate]. cbn in H. inv H.
  apply (adds_from _ a e e1 e' Em).
  eapply adds_weaken; [|eapply (for_traders_adds (fun tr => agent_order (mp_tick p) (mp_vol p) tr) a F); [|exact Ef]].
  - intros o (tr & Htr & Ho). exists tr. split; [lia | assumption].
  - intros e0 c0 l0 tr e3 c3 l3 Hx. unfold F in Hx. eapply mom_trader_orders; eassumption.
Qed.

(** a random agent's slot: a limit order inside the tick and volume ranges, priced on the grid, with the slot's id *)
Definition random_order (p : rand_params) (n : nat) (o : order) : Prop :=
  o_status o = SNew /\ o_trader o = N.of_nat n /\ rp_vol_lo p <= o_vol o < rp_vol_hi p /\
  exists tk, rp_tick_lo p <= tk < rp_tick_hi p /\ o_price o = tk * rp_tick p.

Theorem random_slot_orders e c a p n slot e' c' slot' :
  random_slot e c a p n slot = Ok (e', c', slot') -> adds_only (random_order p n) a e e'.
Proof.
  unfold random_slot. destruct (c_f32 c) as [k c1]. intros H.
  destruct (f32_draw_lt k (rp_rate p)); [|inv H; apply adds_refl].
  match type of H with (do live <- ?X; _) = _ => destruct X as [live|]; [|discriminate] end. cbn [rbind] in H.
  assert (Hnew : forall (e3 : menv) (c3 : crng) (s3 : option nat),
            match c_below FUEL 2 c1 with
            | None => Panic
            | Some (si, c2) =>
                do (tk, c3) <- c_range (rp_tick_lo p) (rp_tick_hi p) c2;
                do (v, c4) <- c_range (rp_vol_lo p) (rp_vol_hi p) c3;
                if W32 <=? tk * rp_tick p then Panic
                else do (e', id) <- place_unwrap e a (if si =? 0 then Ask else Bid) v (N.of_nat n) (Some (tk * rp_tick p)); Ok (e', c4, Some id)
            end = Ok (e3, c3, s3) -> adds_only (random_order p n) a e e3).
  { intros e3 c3 s3 Hx. destruct (c_below FUEL 2 c1) as [[si c2]|]; [|discriminate].
    destruct (c_range (rp_tick_lo p) (rp_tick_hi p) c2) as [[tk c3']|] eqn:Et; [|discriminate]. cbn [rbind] in Hx.
    destruct (c_range (rp_vol_lo p) (rp_vol_hi p) c3') as [[v c4]|] eqn:Ev; [|discriminate]. cbn [rbind] in Hx.
    destruct (W32 <=? tk * rp_tick p); [discriminate|].
    destruct (place_unwrap e a (if si =? 0 then Ask else Bid) v (N.of_nat n) (Some (tk * rp_tick p))) as [[e2 i2]|] eqn:E2; [|discriminate].
    cbn in Hx. inv Hx. eapply adds_weaken; [|eapply place_unwrap_adds; eassumption].
    intros o (_ & S1 & S2 & _ & S4 & S5). unfold random_order. rewrite S2. repeat split; auto.
    - apply (c_range_spec _ _ _ _ _ Ev).
    - apply (c_range_spec _ _ _ _ _ Ev).
    - exists tk. split; [apply (c_range_spec _ _ _ _ _ Et) | assumption]. }
  destruct slot as [id|]; [destruct live|]; try (eapply Hnew; exact H).
  inv H. left. reflexivity.
Qed.

End Orders.

(** ** Cancellations: only of orders from the agent's own list that are Active when it looks *)
Lemma partition_live_spec e a pc : forall orders c keep drop c',
  partition_live e a orders pc c = Ok (keep, drop, c') ->
  forall id, In id keep \/ In id drop -> In id orders /\ order_status e a id = Ok SActive.
Proof.
  induction orders as [|id0 r IH]; intros c keep drop c' H id Hin; cbn [partition_live] in H.
  - inv H. destruct Hin as [[]|[]].
  - destruct (order_status e a id0) as [st|] eqn:Es; [|discriminate]. cbn [rbind] in H.
    destruct (status_eqb st SActive) eqn:Ea.
    + apply status_eqb_eq in Ea. subst st. destruct (c_f32 c) as [k c1].
      destruct (partition_live e a r pc c1) as [[[keep1 drop1] c2]|] eqn:Ep; [|discriminate]. cbn [rbind] in H.
      destruct (f32_draw_lt k pc); inv H.
      * destruct Hin as [Hk|[->|Hd]]; [| split; [left; reflexivity | assumption] |];
          (destruct (IH _ _ _ _ Ep id) as [A B]; [tauto | split; [right; assumption | assumption]]).
      * destruct Hin as [[->|Hk]|Hd]; [split; [left; reflexivity | assumption] | |];
          (destruct (IH _ _ _ _ Ep id) as [A B]; [tauto | split; [right; assumption | assumption]]).
    + destruct (IH _ _ _ _ H id Hin) as [A B]. split; [right; assumption | assumption].
Qed.

Theorem cancel_live_orders_spec e c a orders pc e1 c1 keep :
  cancel_live_orders e c a orders pc = Ok (e1, c1, keep) ->
  exists drop, en_queue e1 = en_queue e ++ map (MCancel a) drop /\ en_market e1 = en_market e /\
    (forall id, In id keep \/ In id drop -> In id orders /\ order_status e a id = Ok SActive).
Proof.
  unfold cancel_live_orders. destruct (partition_live e a orders pc c) as [[[keep0 drop] c2]|] eqn:Ep; [|discriminate]. cbn. intros H; inv H.
  exists drop. split; [|split; [|eapply partition_live_spec; eassumption]].
  - generalize e. clear Ep. induction drop as [|id r IH]; intros e0; cbn [fold_left map]; [rewrite app_nil_r; reflexivity|].
    rewrite IH. cbn [push_event en_queue]. rewrite <- app_assoc. reflexivity.
  - generalize e. clear Ep. induction drop as [|id r IH]; intros e0; cbn [fold_left]; [reflexivity|]. rewrite IH. reflexivity.
Qed.
