(** * C12 through the environments: a submission is accepted iff its limit price is on the addressed
    asset's grid; a rejected one returns the error and the *same* environment - no id consumed,
    nothing queued, no book, cache or record touched *)
From Bourse Require Import Model.Types Model.Map Model.Side Model.Book Model.Obs Model.Rng Model.Env
  Proofs.Basic Proofs.Grid.

Theorem menv_place_rejected e a sd v tr p b :
  nth_error (en_market e) a = Some b -> p mod b_tick b <> 0 ->
  menv_place e a sd v tr (Some p) = Ok (e, PriceError p (b_tick b)).
Proof.
  intros Hb Hp. unfold menv_place. rewrite Hb. rewrite (create_err_unchanged b sd v tr p Hp). reflexivity.
Qed.

Theorem menv_place_accepted_iff e a sd v tr p b :
  nth_error (en_market e) a = Some b ->
  ((exists e' id, menv_place e a sd v tr (Some p) = Ok (e', Created id)) <-> p mod b_tick b = 0).
Proof.
  intros Hb. split.
  - intros (e' & id & H). destruct (N.eq_dec (p mod b_tick b) 0) as [E|NE]; [exact E|].
    rewrite (menv_place_rejected e a sd v tr p b Hb NE) in H. discriminate.
  - intros Hp. destruct (proj2 (create_ok_iff b sd v tr p) Hp) as (b' & id & Hc).
    unfold menv_place. rewrite Hb, Hc.
    assert (Hu : exists m', upd_nth (en_market e) a (fun _ => Ok b') = Ok m').
    { clear - Hb. revert a Hb. induction (en_market e) as [|h t IH]; intros [|a] Hb; cbn in Hb; try discriminate.
      - cbn. eexists; reflexivity.
      - destruct (IH a Hb) as (m' & Hm). cbn [upd_nth]. rewrite Hm. cbn. eexists; reflexivity. }
    destruct Hu as (m' & Hm). rewrite Hm. cbn. eexists; eexists; reflexivity.
Qed.

(** market orders are always accepted *)
Theorem menv_place_market_always e a sd v tr b :
  nth_error (en_market e) a = Some b ->
  exists e', menv_place e a sd v tr None = Ok (e', Created (length (b_orders b))).
Proof.
  intros Hb. destruct (create_market_always b sd v tr) as (b' & Hc).
  unfold menv_place. rewrite Hb, Hc.
  assert (Hu : exists m', upd_nth (en_market e) a (fun _ => Ok b') = Ok m').
  { clear - Hb. revert a Hb. induction (en_market e) as [|h t IH]; intros [|a] Hb; cbn in Hb; try discriminate.
    - cbn. eexists; reflexivity.
    - destruct (IH a Hb) as (m' & Hm). cbn [upd_nth]. rewrite Hm. cbn. eexists; reflexivity. }
  destruct Hu as (m' & Hm). rewrite Hm. cbn. eexists; reflexivity.
Qed.
