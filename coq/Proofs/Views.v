(** * Market-data views: under [InvQ] and [InvV] every view of the book model
    equals the value recomputed from the order table alone ([ref_observe]). *)
From Bourse Require Import Model.Types Model.Map Model.Side Model.Book Model.Obs Spec.RefBook
  Proofs.Basic Proofs.MapLemmas Proofs.Refine Proofs.Volumes.
From Coq Require Import ZifyBool ZifyNat ZifyN Sorting.Sorted Permutation.

Local Arguments N.sub : simpl never.
Local Arguments N.add : simpl never.
Local Arguments N.mul : simpl never.
Local Arguments N.eqb : simpl never.
Local Arguments N.leb : simpl never.
Local Arguments N.ltb : simpl never.
Local Arguments N.min : simpl never.
Local Arguments N.max : simpl never.
Local Arguments N.modulo : simpl never.

(** the orders of a side in queue order *)
Definition qord (orders : list entry) (q : list (key * nat)) : list order :=
  map (fun y => oget (map e_order orders) (snd y)) q.

(** ** Generic list facts *)
Lemma nodup_map_inj {A B} (f : A -> B) l :
  NoDup l -> (forall a b, In a l -> In b l -> f a = f b -> a = b) -> NoDup (map f l).
Proof.
  induction 1 as [|a l Hn Hnd IH]; intros Hinj; cbn; constructor.
  - intros Hin. apply in_map_iff in Hin. destruct Hin as (b & E & Hb).
    assert (b = a) by (apply Hinj; [right; assumption | left; reflexivity | assumption]). subst b. contradiction.
  - apply IH. intros x y Hx Hy. apply Hinj; right; assumption.
Qed.

Lemma nodup_by_id (l : list order) :
  (forall i o, nth_error l i = Some o -> o_id o = i) -> NoDup l.
Proof.
  intros H. apply NoDup_nth_error. intros i j Hi E.
  destruct (nth_error l i) as [o|] eqn:Ei; [|apply nth_error_None in Ei; lia].
  symmetry in E. rewrite <- (H _ _ Ei), <- (H _ _ E). reflexivity.
Qed.

Lemma perm_filter {A} (f : A -> bool) l l' : Permutation l l' -> Permutation (filter f l) (filter f l').
Proof.
  induction 1 as [|x l l' Hp IH|x y l|l l' l'' H1 IH1 H2 IH2]; cbn [filter].
  - constructor.
  - destruct (f x); [constructor|]; assumption.
  - destruct (f x), (f y); try reflexivity. apply perm_swap.
  - etransitivity; eassumption.
Qed.

Lemma sum_vol_perm l l' : Permutation l l' -> sum_vol l = sum_vol l'.
Proof.
  unfold sum_vol. induction 1 as [|x l l' Hp IH|x y l|l l' l'' H1 IH1 H2 IH2]; cbn [fold_right]; lia.
Qed.
Lemma fmax_perm l l' : Permutation l l' ->
  fold_right (fun o a => N.max (o_price o) a) 0 l = fold_right (fun o a => N.max (o_price o) a) 0 l'.
Proof. induction 1 as [|x l l' Hp IH|x y l|l l' l'' H1 IH1 H2 IH2]; cbn [fold_right]; lia. Qed.
Lemma fmin_perm l l' : Permutation l l' ->
  fold_right (fun o a => N.min (o_price o) a) MAXP l = fold_right (fun o a => N.min (o_price o) a) MAXP l'.
Proof. induction 1 as [|x l l' Hp IH|x y l|l l' l'' H1 IH1 H2 IH2]; cbn [fold_right]; lia. Qed.

(** ** The queue of a side is a permutation of the resting orders of that side *)
Lemma table_ids s : table_wf (b_orders s) -> forall i o, nth_error (tbl s) i = Some o -> o_id o = i.
Proof.
  intros Hwf i o H. unfold tbl in H. rewrite nth_error_map in H.
  destruct (nth_error (b_orders s) i) as [e|] eqn:E; [|discriminate]. cbn in H. injection H as <-.
  apply (Hwf _ _ E).
Qed.

Theorem queue_perm_resting s sd :
  InvQ None s -> Permutation (qord (b_orders s) (sd_orders (get_side s sd))) (resting sd (tbl s)).
Proof.
  intros Hinv. pose proof (side_ok_get s sd Hinv) as Hok. destruct Hinv as (_ & _ & Hwf & Hc).
  pose proof (side_ok_nodup _ _ _ Hok) as Hnd. destruct Hok as [Hs Hf]. rewrite Forall_forall in Hf.
  apply NoDup_Permutation.
  - unfold qord. rewrite <- (map_map snd (fun id => oget (map e_order (b_orders s)) id)).
    apply nodup_map_inj; [exact Hnd|]. intros a b Ha Hb E.
    apply in_map_iff in Ha. destruct Ha as (ya & <- & Hya). apply in_map_iff in Hb. destruct Hb as (yb & <- & Hyb).
    destruct (Hf _ Hya) as (ea & Hna & _). destruct (Hf _ Hyb) as (eb & Hnb & _).
    rewrite (oget_tbl _ _ _ Hna), (oget_tbl _ _ _ Hnb) in E.
    destruct (Hwf _ _ Hna) as (Ia & _). destruct (Hwf _ _ Hnb) as (Ib & _). congruence.
  - apply NoDup_filter. apply nodup_by_id. apply table_ids; assumption.
  - intros o. unfold qord, resting. rewrite in_map_iff, filter_In. split.
    + intros (y & <- & Hy). destruct (Hf _ Hy) as (e & Hn & _ & _ & _ & Hsd & Hst).
      rewrite (oget_tbl _ _ _ Hn). split.
      * unfold tbl. apply in_map. eapply nth_error_In; eassumption.
      * rewrite Hst, Hsd, side_eqb_refl. reflexivity.
    + intros (Hin & Hb). apply andb_prop in Hb. destruct Hb as [Hst Hsd].
      apply status_eqb_eq in Hst. apply side_eqb_eq in Hsd.
      apply In_nth_error in Hin. destruct Hin as (i & Hi). unfold tbl in Hi. rewrite nth_error_map in Hi.
      destruct (nth_error (b_orders s) i) as [e|] eqn:E; [|discriminate]. cbn in Hi. injection Hi as <-.
      exists ((e_kp e, e_kt e), i). cbn [snd]. split; [apply oget_tbl; assumption|].
      rewrite <- Hsd. apply Hc; [assumption | assumption | discriminate].
Qed.

(** ** Sums over the priority map are sums over the queued orders *)
Definition el_ok (orders : list entry) (sd : side) (y : key * nat) : Prop :=
  exists e, nth_error orders (snd y) = Some e /\ fst (fst y) = kp_of sd (o_price (e_order e)) /\
            o_price (e_order e) <= MAXP.

Lemma InvQ_el_ok s sd : InvQ None s -> Forall (el_ok (b_orders s) sd) (sd_orders (get_side s sd)).
Proof.
  intros Hinv. pose proof (side_ok_get s sd Hinv) as [_ Hf]. destruct Hinv as (_ & _ & Hwf & _).
  eapply Forall_impl; [|exact Hf]. intros y (e & Hn & _ & Hkp & _ & Hsd & Hst).
  destruct (Hwf _ _ Hn) as (_ & _ & Wkp & Wpr). exists e. msplit; [assumption | | assumption].
  rewrite <- Hkp, Wkp by (right; assumption). rewrite Hsd. reflexivity.
Qed.

Lemma kp_of_inj sd a b : a <= MAXP -> b <= MAXP -> (kp_of sd a =? kp_of sd b) = (a =? b).
Proof. intros Ha Hb. destruct sd; unfold kp_of, MAXP in *; lia. Qed.

Lemma sum_vol_cons o l : sum_vol (o :: l) = o_vol o + sum_vol l.
Proof. reflexivity. Qed.

Lemma sumf_ftot_qord orders sd q : Forall (el_ok orders sd) q -> sumf (ftot orders) q = sum_vol (qord orders q).
Proof.
  induction 1 as [|y t (e & Hn & _) Hf IH]; [reflexivity|].
  rewrite sumf_cons, IH. cbn [qord map]. rewrite sum_vol_cons. fold (qord orders t).
  unfold ftot, evol. rewrite Hn, (oget_tbl _ _ _ Hn). reflexivity.
Qed.

Lemma sumf_fvol_qord orders sd p q : Forall (el_ok orders sd) q -> p <= MAXP ->
  sumf (fvol orders (kp_of sd p)) q = sum_vol (at_price p (qord orders q)) /\
  sumf (fcnt (kp_of sd p)) q = count (at_price p (qord orders q)).
Proof.
  intros Hf Hp. induction Hf as [|y t (e & Hn & Hk & Hpr) Hf IH]; [split; reflexivity|].
  destruct IH as [IH1 IH2]. rewrite !sumf_cons, IH1, IH2. cbn [qord map at_price filter].
  fold (qord orders t). fold (at_price p (qord orders t)).
  unfold fvol, fcnt, evol. rewrite Hn, (oget_tbl _ _ _ Hn), Hk, (kp_of_inj sd _ _ Hpr Hp).
  destruct (o_price (e_order e) =? p); [|split; lia].
  rewrite sum_vol_cons. unfold count. cbn [length]. split; lia.
Qed.

(** ** Touch price *)
Lemma fmin_lower a l : a <= MAXP -> (forall o, In o l -> a <= o_price o) ->
  a <= fold_right (fun o r => N.min (o_price o) r) MAXP l.
Proof.
  intros Ha. induction l as [|o t IH]; intros H; cbn [fold_right]; [assumption|].
  pose proof (H o (or_introl eq_refl)). assert (a <= fold_right (fun o r => N.min (o_price o) r) MAXP t) by (apply IH; intros; apply H; right; assumption). lia.
Qed.
Lemma fmax_upper a l : (forall o, In o l -> o_price o <= a) ->
  fold_right (fun o r => N.max (o_price o) r) 0 l <= a.
Proof.
  induction l as [|o t IH]; intros H; cbn [fold_right]; [lia|].
  pose proof (H o (or_introl eq_refl)). assert (fold_right (fun o r => N.max (o_price o) r) 0 t <= a) by (apply IH; intros; apply H; right; assumption). lia.
Qed.

Lemma best_price_touch s sd : InvQ None s -> best_price sd (get_side s sd) = touch sd (tbl s).
Proof.
  intros Hinv. pose proof (queue_perm_resting s sd Hinv) as Hp.
  pose proof (InvQ_el_ok s sd Hinv) as Hel. pose proof (side_ok_get s sd Hinv) as [Hs _].
  unfold best_price, sd_best_kp, touch, best_bid, best_ask.
  assert (Hm : forall y t, sd_orders (get_side s sd) = y :: t -> forall z, In z t -> fst (fst y) <= fst (fst z)).
  { intros y t E z Hz. rewrite E in Hs. pose proof (ksorted_head _ _ _ Hs Hz) as C. unfold klt in C. lia. }
  destruct sd.
  - rewrite <- (fmax_perm _ _ Hp). destruct (sd_orders (get_side s Bid)) as [|[[kp kt] id] t] eqn:E; [reflexivity|].
    specialize (Hm _ _ eq_refl). inversion Hel as [|? ? (e & Hn & Hk & Hpr) Hel']; subst. cbn [fst snd] in *.
    cbn [qord map fold_right snd]. rewrite (oget_tbl _ _ _ Hn), Hk. fold (qord (b_orders s) t).
    assert (fold_right (fun o a => N.max (o_price o) a) 0 (qord (b_orders s) t) <= o_price (e_order e)).
    { apply fmax_upper. intros o Ho. unfold qord in Ho. apply in_map_iff in Ho. destruct Ho as (z & <- & Hz).
      rewrite Forall_forall in Hel'. destruct (Hel' _ Hz) as (e2 & Hn2 & Hk2 & Hpr2). rewrite (oget_tbl _ _ _ Hn2).
      pose proof (Hm _ Hz) as C. rewrite Hk, Hk2 in C. unfold kp_of, MAXP in *. lia. }
    unfold kp_of, MAXP in *. lia.
  - rewrite <- (fmin_perm _ _ Hp). destruct (sd_orders (get_side s Ask)) as [|[[kp kt] id] t] eqn:E; [reflexivity|].
    specialize (Hm _ _ eq_refl). inversion Hel as [|? ? (e & Hn & Hk & Hpr) Hel']; subst. cbn [fst snd] in *.
    cbn [qord map fold_right snd]. rewrite (oget_tbl _ _ _ Hn), Hk. fold (qord (b_orders s) t).
    assert (o_price (e_order e) <= fold_right (fun o a => N.min (o_price o) a) MAXP (qord (b_orders s) t)).
    { apply fmin_lower; [assumption|]. intros o Ho. unfold qord in Ho. apply in_map_iff in Ho. destruct Ho as (z & <- & Hz).
      rewrite Forall_forall in Hel'. destruct (Hel' _ Hz) as (e2 & Hn2 & Hk2 & Hpr2). rewrite (oget_tbl _ _ _ Hn2).
      pose proof (Hm _ Hz) as C. rewrite Hk, Hk2 in C. unfold kp_of, MAXP in *. lia. }
    unfold kp_of, MAXP in *. lia.
Qed.

(** ** Total volume *)
Lemma side_vol_sum s sd : InvQ None s -> InvV s -> sd_vol (get_side s sd) = sum_vol (resting sd (tbl s)).
Proof.
  intros Hinv Hv. assert (Hvo : vol_ok (b_orders s) (get_side s sd)) by (destruct Hv; destruct sd; assumption).
  destruct Hvo as (_ & _ & Ht). rewrite Ht, (sumf_ftot_qord _ sd) by (apply InvQ_el_ok; assumption).
  apply sum_vol_perm, queue_perm_resting; assumption.
Qed.

(** ** Volume and count at a price *)
Lemma at_kp_vol_count s sd p : InvQ None s -> InvV s -> p <= MAXP ->
  sd_at_kp (get_side s sd) (kp_of sd p) = vol_count_at sd (tbl s) p.
Proof.
  intros Hinv Hv Hp. assert (Hvo : vol_ok (b_orders s) (get_side s sd)) by (destruct Hv; destruct sd; assumption).
  destruct Hvo as (_ & Hg & _). unfold sd_at_kp. rewrite Hg.
  destruct (sumf_fvol_qord (b_orders s) sd p _ (InvQ_el_ok s sd Hinv) Hp) as [E1 E2].
  pose proof (queue_perm_resting s sd Hinv) as Hpm.
  unfold vol_count_at.
  rewrite <- (sum_vol_perm _ _ (perm_filter (fun o => o_price o =? p) _ _ Hpm) : sum_vol (at_price p _) = sum_vol (at_price p _)).
  unfold count. rewrite <- (Permutation_length (perm_filter (fun o => o_price o =? p) _ _ Hpm) : length (at_price p _) = length (at_price p _)).
  fold (count (at_price p (qord (b_orders s) (sd_orders (get_side s sd))))).
  rewrite <- E1, <- E2.
  destruct (sumf (fcnt (kp_of sd p)) (sd_orders (get_side s sd)) =? 0) eqn:E0; [|reflexivity].
  assert (Hz : sumf (fcnt (kp_of sd p)) (sd_orders (get_side s sd)) = 0) by lia.
  rewrite Hz, (fcnt_zero_fvol_zero _ _ _ Hz). reflexivity.
Qed.

(** ** Volume and count at the touch: the first entry of the volume map *)
Lemma fcnt_pos_in p l : sumf (fcnt p) l <> 0 -> exists y, In y l /\ fst (fst y) = p.
Proof.
  induction l as [|y t IH]; intros H; [exfalso; apply H; reflexivity|]. rewrite sumf_cons in H.
  unfold fcnt at 1 in H. destruct (fst (fst y) =? p) eqn:E.
  - exists y. split; [left; reflexivity | lia].
  - destruct IH as (z & Hz & Ez); [lia|]. exists z. split; [right; assumption | assumption].
Qed.

Lemma volumes_head orders x :
  vol_ok orders x -> ksorted (sd_orders x) ->
  match sd_orders x with
  | [] => sd_volumes x = []
  | ((kp, _), _) :: _ => exists m, sd_volumes x = (kp, (sumf (fvol orders kp) (sd_orders x), sumf (fcnt kp) (sd_orders x))) :: m
  end.
Proof.
  intros (Hvs & Hg & _) Hs.
  assert (Hhead : forall k0 x0 m, sd_volumes x = (k0, x0) :: m ->
            sumf (fcnt k0) (sd_orders x) <> 0 /\ x0 = (sumf (fvol orders k0) (sd_orders x), sumf (fcnt k0) (sd_orders x))).
  { intros k0 x0 m E. pose proof (Hg k0) as G. rewrite E in G. cbn [vget] in G. rewrite N.eqb_refl in G.
    destruct (sumf (fcnt k0) (sd_orders x) =? 0) eqn:E0; [discriminate|]. split; [lia | congruence]. }
  destruct (sd_orders x) as [|[[kp kt] id] t] eqn:Eq.
  - destruct (sd_volumes x) as [|[k0 x0] m] eqn:Ev; [reflexivity|].
    destruct (Hhead _ _ _ eq_refl) as [C _]. exfalso; apply C; reflexivity.
  - pose proof (Hg kp) as G.
    assert (Hpos : sumf (fcnt kp) (((kp, kt), id) :: t) <> 0).
    { rewrite sumf_cons, fcnt_at, N.eqb_refl. lia. }
    unfold key in *. destruct (sumf (fcnt kp) (((kp, kt), id) :: t) =? 0) eqn:E0; [lia|]. try rewrite E0 in G.
    destruct (sd_volumes x) as [|[k0 x0] m] eqn:Ev; [discriminate|].
    destruct (Hhead _ _ _ eq_refl) as [Hc0 Hx0].
    destruct (fcnt_pos_in _ _ Hc0) as (y & Hy & Ey).
    assert (Hle : kp <= k0).
    { destruct Hy as [<-|Hy]; [cbn in Ey; lia|]. pose proof (ksorted_head _ _ _ Hs Hy) as C. unfold klt in C. cbn [fst snd] in C. lia. }
    assert (Hge : k0 <= kp).
    { destruct (N.le_gt_cases k0 kp) as [|Hlt]; [assumption|]. exfalso.
      rewrite vget_lt_head in G; [discriminate | assumption |].
      intros z Hz. destruct Hz as [<-|Hz]; [cbn; lia|].
      inversion Hvs as [|? ? Hvs' Hall]; subst. rewrite Forall_forall in Hall. specialize (Hall _ Hz). cbn [fst] in Hall. lia. }
    assert (Ek : k0 = kp) by lia. clear Ey Hy. subst k0. exists m. rewrite Hx0. reflexivity.
Qed.

Lemma if_nonempty {A B} (l : list A) (a b : B) : l <> [] -> (if l then a else b) = b.
Proof. destruct l; [intros C; contradiction|reflexivity]. Qed.

Lemma best_vol_and_orders_touch s sd : InvQ None s -> InvV s ->
  sd_best_vol_and_orders (get_side s sd) =
  (if resting sd (tbl s) then (0, 0) else vol_count_at sd (tbl s) (touch sd (tbl s))).
Proof.
  intros Hinv Hv. assert (Hvo : vol_ok (b_orders s) (get_side s sd)) by (destruct Hv; destruct sd; assumption).
  pose proof (side_ok_get s sd Hinv) as [Hs _].
  pose proof (volumes_head _ _ Hvo Hs) as Hh. pose proof (queue_perm_resting s sd Hinv) as Hpm.
  pose proof (best_price_touch s sd Hinv) as Hbp.
  unfold sd_best_vol_and_orders.
  destruct (sd_orders (get_side s sd)) as [|[[kp kt] id] t] eqn:Eq.
  - rewrite Hh. cbn [qord map] in Hpm. apply Permutation_nil in Hpm. rewrite Hpm. reflexivity.
  - destruct Hh as (m & Hh). rewrite Hh.
    rewrite if_nonempty by (intros C; rewrite C in Hpm; apply Permutation_sym, Permutation_nil in Hpm; discriminate).
    rewrite <- Hbp.
    pose proof (InvQ_el_ok s sd Hinv) as Hel. rewrite Eq in Hel. inversion Hel as [|? ? (e & Hn & Hk & Hpr) Hel']; subst.
    cbn [fst snd] in Hk.
    assert (Hbest : best_price sd (get_side s sd) = o_price (e_order e)).
    { unfold best_price, sd_best_kp. rewrite Eq. cbn [fst]. rewrite Hk. destruct sd; unfold kp_of, MAXP in *; lia. }
    rewrite Hbest. rewrite <- (at_kp_vol_count s sd _ Hinv Hv Hpr). rewrite <- Hk.
    unfold sd_at_kp. rewrite Hh. cbn [vget]. rewrite N.eqb_refl. reflexivity.
Qed.

(** ** Levels *)
Lemma level_price_bound sd start tick i p : level_price sd start tick i = Ok p -> p <= MAXP.
Proof.
  unfold level_price. destruct (W32 <=? N.of_nat i * tick); [discriminate|]. intros H. injection H as <-.
  unfold W32, MAXP. destruct sd.
  - pose proof (N.mod_upper_bound (start + 4294967296 - N.of_nat i * tick) 4294967296). lia.
  - pose proof (N.mod_upper_bound (start + N.of_nat i * tick) 4294967296). lia.
Qed.

Lemma levels_from_ref s sd start tick n : InvQ None s -> InvV s -> forall i,
  levels_from sd (get_side s sd) start tick i n =
  (fix go (i n : nat) : res (list (N * N)) :=
     match n with
     | O => Ok []
     | S n' =>
         do p <- level_price sd start tick i;
         do rest <- go (S i) n';
         Ok (vol_count_at sd (tbl s) p :: rest)
     end) i n.
Proof.
  intros Hinv Hv. induction n as [|n IH]; intros i; [reflexivity|]. cbn [levels_from].
  destruct (level_price sd start tick i) as [p|] eqn:Ep; [|reflexivity]. cbn [rbind].
  rewrite IH. unfold vol_and_orders_at_price. rewrite (at_kp_vol_count s sd p Hinv Hv (level_price_bound _ _ _ _ _ Ep)).
  reflexivity.
Qed.

(** ** All views at once *)
Theorem observe_recomputed L s : InvQ None s -> InvV s -> observe L s = ref_observe L (abs s).
Proof.
  intros Hinv Hv.
  pose proof (best_price_touch s Bid Hinv) as Hbb. pose proof (best_price_touch s Ask Hinv) as Hba.
  pose proof (side_vol_sum s Bid Hinv Hv) as Hbv. pose proof (side_vol_sum s Ask Hinv Hv) as Hav.
  pose proof (best_vol_and_orders_touch s Bid Hinv Hv) as Hbvo. pose proof (best_vol_and_orders_touch s Ask Hinv Hv) as Havo.
  cbn [get_side touch] in *.
  assert (Hbl : bid_levels L s = ref_levels Bid (tbl s) (b_tick s) L).
  { unfold bid_levels, bid_ask, ref_levels. cbn [fst]. rewrite Hbb. exact (levels_from_ref s Bid _ _ L Hinv Hv 0%nat). }
  assert (Hal : ask_levels L s = ref_levels Ask (tbl s) (b_tick s) L).
  { unfold ask_levels, bid_ask, ref_levels. cbn [snd]. rewrite Hba. exact (levels_from_ref s Ask _ _ L Hinv Hv 0%nat). }
  unfold observe, ref_observe, ref_observe_tbl, level_2_data, level_1_data, mid_price_x2,
    bid_ask, bid_vol, ask_vol, bid_best_vol, ask_best_vol, bid_best_vol_and_orders, ask_best_vol_and_orders, sd_best_vol.
  rewrite Hbl, Hal. cbn [fst snd abs r_t r_tick r_tvol r_orders r_trades touch].
  rewrite Hbb, Hba, Hbv, Hav, Hbvo, Havo.
  destruct (ref_levels Bid (tbl s) (b_tick s) L) as [bl|]; [|reflexivity]. cbn [rbind].
  destruct (ref_levels Ask (tbl s) (b_tick s) L) as [al|]; reflexivity.
Qed.
