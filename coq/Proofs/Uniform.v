(** * Uniformity of the shuffle algorithm itself

   1. The index sampler ([UniformInt<u32>::sample_single], widening multiply with
      rejection): for every range [r] each value [k < r] is produced by exactly
      [2^lz] of the [2^32] raw words, namely by an interval of that length
      ([sampler_fiber]) - equal counts, hence uniform on uniform words.
   2. Fisher-Yates: the map from the sequence of drawn indices to the resulting
      arrangement is injective ([fy_injective]); with [n!] index sequences and [n!]
      arrangements every arrangement arises from exactly one index sequence.
   Statistical quality of the word generator (Xoroshiro128StarStar) is outside any theorem. *)
From Bourse Require Import Model.Types Model.Rng Proofs.Basic Proofs.EnvProps.
From Coq Require Import ZifyBool ZifyNat ZifyN Permutation.

Local Arguments N.sub : simpl never.
Local Arguments N.add : simpl never.
Local Arguments N.mul : simpl never.
Local Arguments N.pow : simpl never.
Local Arguments N.div : simpl never.
Local Arguments N.modulo : simpl never.
Local Arguments N.shiftl : simpl never.
Local Arguments N.shiftr : simpl never.
Local Arguments N.land : simpl never.
Local Arguments N.log2 : simpl never.

Definition W32 : N := 4294967296.

Lemma m32_mod x : m32 x = x mod W32.
Proof. unfold m32, M32, W32. change 4294967295 with (N.ones 32). rewrite N.land_ones. reflexivity. Qed.

(** the scaled range [r * 2^lz] has its top bit set *)
Lemma scaled_range r : 0 < r -> r < W32 ->
  let m := 2 ^ lz32 r in 0 < m /\ r * m < W32 /\ N.shiftl r (lz32 r) = r * m.
Proof.
  intros H0 H1 m. unfold m, lz32, W32 in *.
  assert (Hl : N.log2 r <= 31).
  { destruct (N.le_gt_cases (N.log2 r) 31) as [|C]; [assumption|]. exfalso.
    assert (2 ^ 32 <= 2 ^ N.log2 r) by (apply N.pow_le_mono_r; lia).
    pose proof (N.log2_spec r H0) as [L _]. change (2 ^ 32) with 4294967296 in *. lia. }
  pose proof (N.log2_spec r H0) as [_ U].
  split; [apply N.neq_0_lt_0, N.pow_nonzero; discriminate|]. split.
  - assert (E : 2 ^ N.succ (N.log2 r) * 2 ^ (31 - N.log2 r) = 2 ^ 32).
    { rewrite <- N.pow_add_r. f_equal. lia. }
    change (2 ^ 32) with 4294967296 in E.
    assert (r * 2 ^ (31 - N.log2 r) < 2 ^ N.succ (N.log2 r) * 2 ^ (31 - N.log2 r)).
    { apply N.mul_lt_mono_pos_r; [apply N.neq_0_lt_0, N.pow_nonzero; discriminate | assumption]. }
    lia.
  - apply N.shiftl_mul_pow2.
Qed.

Lemma zone_of_spec r : 0 < r -> r < W32 -> zone_of r = r * 2 ^ lz32 r - 1.
Proof.
  intros H0 H1. destruct (scaled_range r H0 H1) as (Hm & HR & Hs). unfold zone_of. rewrite !m32_mod, Hs.
  assert (1 <= r * 2 ^ lz32 r) by nia.
  rewrite (N.mod_small (r * 2 ^ lz32 r)) by assumption.
  unfold M32, W32 in *. replace (r * 2 ^ lz32 r + 4294967295) with ((r * 2 ^ lz32 r - 1) + 1 * 4294967296) by lia.
  rewrite N.mod_add by discriminate. apply N.mod_small. lia.
Qed.

(** ceiling division *)
Definition cdiv (a r : N) : N := (a + r - 1) / r.
Lemma cdiv_spec a r : 0 < r -> a <= cdiv a r * r /\ cdiv a r * r < a + r.
Proof.
  intros Hr. unfold cdiv. pose proof (N.div_mod (a + r - 1) r) as D. pose proof (N.mod_lt (a + r - 1) r) as M.
  assert (r <> 0) by lia. specialize (D H). specialize (M H). nia.
Qed.

(** every value has exactly [2^lz] preimages among the 32-bit words: an interval *)
Theorem sampler_fiber r k v : 0 < r -> r < W32 -> k < r -> v < W32 ->
  let m := 2 ^ lz32 r in let c := cdiv (k * W32) r in
  ((m32 (v * r) <=? zone_of r) = true /\ N.shiftr (v * r) 32 = k) <-> (c <= v < c + m).
Proof.
  intros H0 H1 Hk Hv m c. destruct (scaled_range r H0 H1) as (Hm & HR & _). fold m in Hm, HR.
  rewrite (zone_of_spec r H0 H1), m32_mod, N.shiftr_div_pow2. fold m. change (2 ^ 32) with W32.
  destruct (cdiv_spec (k * W32) r H0) as [C1 C2]. fold c in C1, C2.
  pose proof (N.div_mod (v * r) W32) as D. pose proof (N.mod_lt (v * r) W32) as M.
  assert (HW : W32 <> 0) by (unfold W32; discriminate). specialize (D HW). specialize (M HW).
  set (q := v * r / W32) in *. set (lo := (v * r) mod W32) in *.
  split.
  - intros [A B]. assert (lo < r * m) by lia. subst k.
    split.
    + destruct (N.le_gt_cases c v) as [|C]; [assumption|]. exfalso.
      assert ((v + 1) * r <= c * r) by (apply N.mul_le_mono_r; lia). nia.
    + destruct (N.lt_ge_cases v (c + m)) as [|C]; [assumption|]. exfalso.
      assert ((c + m) * r <= v * r) by (apply N.mul_le_mono_r; lia). nia.
  - intros [A B].
    assert (L1 : c * r <= v * r) by (apply N.mul_le_mono_r; lia).
    assert (L2 : (v + 1) * r <= (c + m) * r) by (apply N.mul_le_mono_r; lia).
    assert (Hlow : k * W32 <= v * r) by lia.
    assert (Hhigh : v * r < k * W32 + r * m) by nia.
    assert (Hq : q = k).
    { destruct (N.lt_trichotomy q k) as [C|[C|C]]; [exfalso|assumption|exfalso].
      - assert ((q + 1) * W32 <= k * W32) by (apply N.mul_le_mono_r; lia). nia.
      - assert ((k + 1) * W32 <= q * W32) by (apply N.mul_le_mono_r; lia). nia. }
    split; [|assumption]. subst q. rewrite Hq in D. lia.
Qed.

(** all the fibers lie inside the 32-bit words and are pairwise disjoint, so the accepted words
    are [r * 2^lz] of the [2^32], each value taking [2^lz] of them *)
Theorem sampler_fiber_inside r k : 0 < r -> r < W32 -> k < r -> cdiv (k * W32) r + 2 ^ lz32 r <= W32.
Proof.
  intros H0 H1 Hk. destruct (scaled_range r H0 H1) as (Hm & HR & _).
  destruct (cdiv_spec (k * W32) r H0) as [C1 C2].
  set (c := cdiv (k * W32) r) in *. set (m := 2 ^ lz32 r) in *.
  destruct (N.le_gt_cases (c + m) W32) as [|C]; [assumption|]. exfalso.
  assert ((W32 + 1) * r <= (c + m) * r) by (apply N.mul_le_mono_r; lia).
  assert ((k + 1) * W32 <= r * W32) by (apply N.mul_le_mono_r; lia). nia.
Qed.

(** ** Fisher-Yates: distinct index sequences give distinct arrangements *)
Fixpoint fy {A} (i : nat) (js : list nat) (l : list A) : list A :=
  match i, js with
  | S i', j :: js' => fy i' js' (swap_nth l i j)
  | _, _ => l
  end.

(** the k-th drawn index (for position [i]) lies in [0..i] *)
Fixpoint js_ok (i : nat) (js : list nat) : Prop :=
  match i, js with
  | O, [] => True
  | S i', j :: js' => (j <= S i')%nat /\ js_ok i' js'
  | _, _ => False
  end.

Lemma swap_nth_length {A} (l : list A) i j : length (swap_nth l i j) = length l.
Proof.
  unfold swap_nth. destruct (nth_error l i); [|reflexivity]. destruct (nth_error l j); [|reflexivity].
  rewrite !set_nth_length. reflexivity.
Qed.

Lemma swap_nth_other {A} (l : list A) i j p : p <> i -> p <> j -> nth_error (swap_nth l i j) p = nth_error l p.
Proof.
  intros Hi Hj. unfold swap_nth. destruct (nth_error l i); [|reflexivity]. destruct (nth_error l j); [|reflexivity].
  rewrite !nth_error_set_nth_neq by auto. reflexivity.
Qed.

Lemma swap_nth_at {A} (l : list A) i j : (i < length l)%nat -> (j < length l)%nat -> nth_error (swap_nth l i j) i = nth_error l j.
Proof.
  intros Hi Hj. unfold swap_nth.
  destruct (nth_error l i) as [a|] eqn:Ei; [|apply nth_error_None in Ei; lia].
  destruct (nth_error l j) as [b|] eqn:Ej; [|apply nth_error_None in Ej; lia].
  destruct (Nat.eq_dec j i) as [->|Hne].
  - rewrite nth_error_set_nth_eq by (rewrite set_nth_length; assumption). congruence.
  - rewrite nth_error_set_nth_neq by assumption. rewrite nth_error_set_nth_eq by assumption. reflexivity.
Qed.

Lemma fy_length {A} i : forall js (l : list A), length (fy i js l) = length l.
Proof.
  induction i as [|i IH]; intros js l; [destruct js; reflexivity|].
  destruct js as [|j js]; [reflexivity|]. cbn [fy]. rewrite IH, swap_nth_length. reflexivity.
Qed.

Lemma fy_untouched {A} i : forall js (l : list A) p, js_ok i js -> (i < p)%nat -> nth_error (fy i js l) p = nth_error l p.
Proof.
  induction i as [|i IH]; intros js l p Hok Hp; [destruct js; reflexivity|].
  destruct js as [|j js]; [reflexivity|]. destruct Hok as [Hj Hok]. cbn [fy].
  rewrite IH by (auto; lia). apply swap_nth_other; lia.
Qed.

Theorem fy_injective {A} i : forall js js' (l : list A),
  NoDup l -> (i < length l)%nat -> js_ok i js -> js_ok i js' -> fy i js l = fy i js' l -> js = js'.
Proof.
  induction i as [|i IH]; intros js js' l Hnd Hlen Hok Hok' E.
  - destruct js, js'; try contradiction; reflexivity.
  - destruct js as [|j js], js' as [|j' js']; try contradiction.
    destruct Hok as [Hj Hok], Hok' as [Hj' Hok']. cbn [fy] in E.
    assert (Ej : j = j').
    { assert (E1 : nth_error (fy i js (swap_nth l (S i) j)) (S i) = nth_error l j).
      { rewrite fy_untouched by (auto; lia). apply swap_nth_at; lia. }
      assert (E2 : nth_error (fy i js' (swap_nth l (S i) j')) (S i) = nth_error l j').
      { rewrite fy_untouched by (auto; lia). apply swap_nth_at; lia. }
      rewrite E in E1. rewrite E1 in E2.
      apply (proj1 (NoDup_nth_error l) Hnd); [lia | assumption]. }
    subst j'. f_equal.
    apply (IH js js' (swap_nth l (S i) j)); auto.
    + eapply Permutation_NoDup; [apply swap_nth_perm | exact Hnd].
    + rewrite swap_nth_length. lia.
Qed.

(** the model's shuffle is [fy] on the indices it draws, each inside its range *)
Lemma sample_below_range fuel range g x g' : 0 < range -> sample_below fuel range g = Some (x, g') -> x < range.
Proof.
  intros Hr. revert g. induction fuel as [|f IH]; intros g H; cbn [sample_below] in H; [discriminate|].
  destruct (next_u32 g) as [v g1] eqn:Ev.
  assert (Hv : v < W32).
  { unfold next_u32 in Ev. destruct (next_u64 g) as [w g2]. injection Ev as <- _. rewrite m32_mod. apply N.mod_lt. unfold W32; discriminate. }
  destruct (m32 (v * range) <=? zone_of range).
  - injection H as <- _. rewrite N.shiftr_div_pow2. change (2 ^ 32) with W32.
    apply N.div_lt_upper_bound; [unfold W32; discriminate|]. nia.
  - eapply IH; eassumption.
Qed.

Theorem shuffle_from_is_fy {A} i : forall (l l' : list A) g g',
  shuffle_from i l g = Some (l', g') -> exists js, js_ok i js /\ l' = fy i js l.
Proof.
  induction i as [|i IH]; intros l l' g g' H; cbn [shuffle_from] in H.
  - injection H as <- _. exists []. split; [exact I | reflexivity].
  - destruct (gen_index (N.of_nat (S (S i))) g) as [[j g1]|] eqn:Ej; [|discriminate].
    apply sample_below_range in Ej; [|lia].
    destruct (IH _ _ _ _ H) as (js & Hok & E). exists (N.to_nat j :: js). split; [|exact E].
    split; [lia | assumption].
Qed.
