(** * C03: the trade log is append-only, every new record is stamped with the
    book time and names the operation's order as aggressor, and the
    traded-volume counter moves by exactly the logged volume *)
From Bourse Require Import Model.Types Model.Map Model.Side Model.Book Proofs.Basic.
From Coq Require Import ZifyBool ZifyNat ZifyN.

Ltac inv H := inversion H; subst; clear H.

Definition sumv (l : list trade) : N := fold_right (fun t a => tr_vol t + a) 0 l.

Lemma sumv_app a b : sumv (a ++ b) = sumv a + sumv b.
Proof. induction a as [|x a IH]; cbn [app sumv fold_right]; [reflexivity | fold (sumv (a ++ b)); fold (sumv a); rewrite IH; lia]. Qed.

(** [ledger t aid s s']: [s'] extends the log of [s] by records stamped [t]
    whose aggressor is [aid], and the counter moved by their total volume. *)
Definition ledger (t : N) (aid : nat) (s s' : book) : Prop :=
  exists new,
    b_trades s' = b_trades s ++ new /\ b_tvol s' = b_tvol s + sumv new /\
    Forall (fun tr => tr_t tr = t /\ tr_active tr = aid) new /\
    b_t s' = b_t s.

Lemma ledger_refl t a s : ledger t a s s.
Proof. exists []; rewrite app_nil_r; cbn; repeat split; auto; lia. Qed.

Lemma ledger_trans t a s1 s2 s3 : ledger t a s1 s2 -> ledger t a s2 s3 -> ledger t a s1 s3.
Proof.
  intros (n1 & T1 & V1 & F1 & E1) (n2 & T2 & V2 & F2 & E2). exists (n1 ++ n2).
  rewrite T2, T1, V2, V1, sumv_app, app_assoc. repeat split; auto; try lia; try congruence.
  apply Forall_app; auto.
Qed.

Lemma ledger_side t a s sd x : ledger t a s (set_side s sd x).
Proof. exists []; simp_side; rewrite app_nil_r; cbn; repeat split; auto; lia. Qed.

Lemma ledger_orders t a s x : ledger t a s (set_orders s x).
Proof. exists []; cbn; rewrite app_nil_r; repeat split; auto; lia. Qed.

Lemma match_orders_trade t a p a' p' tr v :
  match_orders t a p = (a', p', tr, v) ->
  tr_t tr = t /\ tr_active tr = o_id a /\ tr_passive tr = o_id p /\ tr_vol tr = v /\
  tr_price tr = o_price p /\ tr_side tr = o_side p /\ v = N.min (o_vol a) (o_vol p) /\
  o_id a' = o_id a /\ o_vol a' = o_vol a - v /\ o_vol p' = o_vol p - v.
Proof.
  unfold match_orders; intros H; inv H; cbn.
  repeat split; repeat match goal with |- context [if ?c then _ else _] => destruct c end; reflexivity.
Qed.

Lemma match_iter_ledger sd s0 aid s a s1 a1 :
  (ledger (b_t s0) aid s0 s /\ o_id a = aid) ->
  match_iter sd s a = ICont s1 a1 ->
  ledger (b_t s0) aid s0 s1 /\ o_id a1 = aid.
Proof.
  intros (L & Hid) H. apply match_iter_cont in H.
  destruct H as (id & pe & ps' & _ & _ & Hn & H).
  destruct (match_orders (b_t s) a (e_order pe)) as [[[agg' pass'] tr] v] eqn:Hm.
  destruct H as (_ & -> & ->). apply match_orders_trade in Hm.
  destruct Hm as (Ht & Ha & _ & Hv & _ & _ & _ & Hid' & _).
  split; [|congruence].
  eapply ledger_trans; [exact L|].
  destruct L as (n0 & _ & _ & _ & Et).
  exists [tr]. simp_side. cbn. repeat split; auto; try lia.
  constructor; auto. split; congruence.
Qed.

Lemma do_match_ledger sd s a s' a' :
  do_match sd s a = Ok (s', a') -> ledger (b_t s) (o_id a) s s' /\ o_id a' = o_id a.
Proof.
  intros H.
  eapply (do_match_inv (fun s1 a1 => ledger (b_t s) (o_id a) s s1 /\ o_id a1 = o_id a)); eauto.
  - intros; eapply match_iter_ledger; eauto.
  - split; [apply ledger_refl | reflexivity].
Qed.

Lemma place_limit_ledger sd s e s1 e1 :
  place_limit sd s e = Ok (s1, e1) -> ledger (b_t s) (o_id (e_order e)) s s1.
Proof.
  intros H. unfold place_limit in H.
  assert (Hm : forall s' o', (if b_trading s then do_match sd s (e_order e) else Ok (s, e_order e)) = Ok (s', o') ->
                ledger (b_t s) (o_id (e_order e)) s s').
  { intros s' o' Hx. destruct (b_trading s); [apply do_match_ledger in Hx; tauto|].
    inv Hx; apply ledger_refl. }
  destruct (if b_trading s then _ else _) as [[s' o']|]; [|discriminate]. cbn in H.
  pose proof (Hm _ _ eq_refl) as L.
  destruct (status_eqb _ _); [inv H; auto|].
  destruct (sd_queue _ _ _ _ _) as [[x kt]|]; [|discriminate]. inv H.
  eapply ledger_trans; [exact L | apply ledger_side].
Qed.

Lemma place_market_ledger sd s e s1 e1 :
  place_market sd s e = Ok (s1, e1) -> ledger (b_t s) (o_id (e_order e)) s s1.
Proof.
  intros H. unfold place_market in H. destruct (b_trading s).
  - destruct (do_match sd s (e_order e)) as [[s' o']|] eqn:Hm; [|discriminate]. cbn in H.
    apply do_match_ledger in Hm. destruct (status_eqb _ _); inv H; tauto.
  - inv H; apply ledger_refl.
Qed.

Lemma place_order_ledger s id s' :
  place_order s id = Ok s' ->
  exists aid, ledger (b_t s) aid s s' /\
    (forall e, nth_error (b_orders s) id = Some e -> aid = o_id (e_order e)).
Proof.
  intros H. unfold place_order in H.
  destruct (nth_error (b_orders s) id) as [e|] eqn:Hn; [|discriminate].
  exists (o_id (e_order e)). split; [|intros e0 E; congruence].
  destruct (negb _); [inv H; apply ledger_refl|].
  match type of H with (do _ <- ?X; _) = _ => destruct X as [[s1 e1]|] eqn:Hp; [|discriminate] end.
  cbn in H; inv H.
  eapply ledger_trans; [|apply ledger_orders].
  match type of Hp with (if ?c then _ else _) = _ => destruct c end;
    [apply place_market_ledger in Hp | apply place_limit_ledger in Hp]; exact Hp.
Qed.

Lemma cancel_order_ledger s id s' : cancel_order s id = Ok s' -> ledger (b_t s) id s s'.
Proof.
  intros H. unfold cancel_order in H.
  destruct (nth_error (b_orders s) id) as [e|]; [|discriminate].
  destruct (status_eqb _ _); [|inv H; apply ledger_refl].
  destruct (sd_remove _ _ _ _) as [x|]; [|discriminate]. cbn in H; inv H.
  eapply ledger_trans; [apply ledger_orders | apply ledger_side].
Qed.

Lemma replace_order_ledger s e p v s1 e1 :
  replace_order s e p v = Ok (s1, e1) -> ledger (b_t s) (o_id (e_order e)) s s1.
Proof.
  intros H. unfold replace_order in H.
  destruct (sd_remove _ _ _ _) as [x|]; [|discriminate]. cbn in H.
  set (s0 := set_side s (e_kside e) x) in *.
  set (o0 := set_price (set_vol (e_order e) v) p) in *.
  assert (Hm : forall s2 o2, (if b_trading s0 then do_match (e_kside e) s0 o0 else Ok (s0, o0)) = Ok (s2, o2) ->
               ledger (b_t s) (o_id (e_order e)) s s2).
  { intros s2 o2 Hx. eapply ledger_trans; [apply (ledger_side _ _ s (e_kside e) x)|]. fold s0.
    destruct (b_trading s0).
    - apply do_match_ledger in Hx. unfold s0 in Hx at 1. rewrite b_t_set_side in Hx. apply Hx.
    - inv Hx; apply ledger_refl. }
  destruct (if b_trading s0 then _ else _) as [[s2 o2]|]; [|discriminate]. cbn in H.
  pose proof (Hm _ _ eq_refl) as L.
  destruct (status_eqb _ _); [inv H; auto|].
  destruct (sd_queue _ _ _ _ _) as [[y kt]|]; [|discriminate]. inv H.
  eapply ledger_trans; [exact L | apply ledger_side].
Qed.

Lemma modify_order_ledger s id np nv s' :
  modify_order s id np nv = Ok s' ->
  exists aid, ledger (b_t s) aid s s' /\
    (forall e, nth_error (b_orders s) id = Some e -> aid = o_id (e_order e)).
Proof.
  intros H. unfold modify_order in H.
  destruct (nth_error (b_orders s) id) as [e|] eqn:Hn; [|discriminate].
  exists (o_id (e_order e)). split; [|intros e0 E; congruence].
  destruct (match np with Some p => _ | None => false end); [inv H; apply ledger_refl|].
  match type of H with (do _ <- ?X; _) = _ => destruct X as [[s1 e1]|] eqn:Hp; [|discriminate] end.
  cbn in H; inv H.
  eapply ledger_trans; [|apply ledger_orders].
  destruct (status_eqb _ _); [|inv Hp; apply ledger_refl].
  destruct np as [p|], nv as [v|]; try (eapply replace_order_ledger; eauto; fail).
  - destruct (v <? _); [|eapply replace_order_ledger; eauto].
    unfold reduce_order_vol in Hp.
    destruct (csub _ _); [|discriminate]. cbn in Hp.
    destruct (sd_remove_vol _ _ _) as [x|]; [|discriminate]. inv Hp. apply ledger_side.
  - inv Hp; apply ledger_refl.
Qed.

(** The ledger theorem for every operation of the API. *)
Theorem ledger_step s o s' x :
  step_raw s o = Ok (s', x) ->
  exists new,
    b_trades s' = b_trades s ++ new /\
    b_tvol s' = (match o with OResetTvol => 0 | _ => b_tvol s + sumv new end) /\
    Forall (fun tr => tr_t tr = b_t s) new /\
    (match o with OSetTime _ | OEnable | ODisable | OResetTvol | OReload | OCreate _ _ _ _ | OCancel _
                | OEvent (EvCancel _) => new = [] | _ => True end).
Proof.
  intros H.
  assert (Hl : forall aid a b, ledger (b_t s) aid a b ->
    exists new, b_trades b = b_trades a ++ new /\ b_tvol b = b_tvol a + sumv new /\ Forall (fun tr => tr_t tr = b_t s) new).
  { intros aid a b (n & T & V & F & _). exists n; repeat split; auto.
    eapply Forall_impl; [|exact F]. cbn; tauto. }
  assert (Hnil : forall (b : book), exists new : list trade, b_trades b = b_trades b ++ new /\ b_tvol b = b_tvol b + sumv new
               /\ Forall (fun tr => tr_t tr = b_t s) new /\ new = []).
  { intros b; exists []; rewrite app_nil_r; cbn; repeat split; auto; lia. }
  destruct o; cbn in H.
  - destruct (create_order s sd vol trader price) as [s1 c] eqn:E. inv H.
    unfold create_order in E. exists [].
    destruct price as [p|]; [destruct (_ =? 0)|]; inv E; cbn; rewrite app_nil_r; repeat split; auto; lia.
  - unfold create_and_place_order in H.
    destruct (create_order s sd vol trader price) as [s1 c] eqn:E.
    assert (E1 : b_trades s1 = b_trades s /\ b_tvol s1 = b_tvol s /\ b_t s1 = b_t s).
    { unfold create_order in E. destruct price as [p|]; [destruct (_ =? 0)|]; inv E; cbn; auto. }
    destruct E1 as (T1 & V1 & C1). destruct c as [id|p t].
    + destruct (place_order s1 id) as [s2|] eqn:Hp; [|discriminate]. cbn in H. inv H.
      apply place_order_ledger in Hp. destruct Hp as (aid & L & _). rewrite C1 in L.
      destruct (Hl _ _ _ L) as (n & T & V & F). exists n. rewrite T, V, T1, V1. auto.
    + cbn in H. inv H. exists []. rewrite app_nil_r; cbn. repeat split; auto; lia.
  - destruct (place_order s id) as [s1|] eqn:Hp; [|discriminate]. inv H.
    apply place_order_ledger in Hp. destruct Hp as (aid & L & _).
    destruct (Hl _ _ _ L) as (n & T & V & F). exists n; auto.
  - destruct (cancel_order s id) as [s1|] eqn:Hp; [|discriminate]. inv H.
    unfold cancel_order in Hp.
    destruct (nth_error (b_orders s) id) as [e|]; [|discriminate].
    destruct (status_eqb _ _).
    + destruct (sd_remove _ _ _ _) as [y|]; [|discriminate]. cbn in Hp; inv Hp.
      exists []. simp_side. cbn. rewrite app_nil_r. repeat split; auto; lia.
    + inv Hp. exists []. rewrite app_nil_r; cbn. repeat split; auto; lia.
  - destruct (modify_order s id new_price new_vol) as [s1|] eqn:Hp; [|discriminate]. inv H.
    apply modify_order_ledger in Hp. destruct Hp as (aid & L & _).
    destruct (Hl _ _ _ L) as (n & T & V & F). exists n; auto.
  - destruct (process_event s ev) as [s1|] eqn:Hp; [|discriminate]. inv H.
    destruct ev; cbn in Hp.
    + apply place_order_ledger in Hp. destruct Hp as (aid & L & _).
      destruct (Hl _ _ _ L) as (n & T & V & F). exists n; auto.
    + unfold cancel_order in Hp.
      destruct (nth_error (b_orders s) id) as [e|]; [|discriminate].
      destruct (status_eqb _ _).
      * destruct (sd_remove _ _ _ _) as [y|]; [|discriminate]. cbn in Hp; inv Hp.
        exists []. simp_side. cbn. rewrite app_nil_r. repeat split; auto; lia.
      * inv Hp. exists []. rewrite app_nil_r; cbn. repeat split; auto; lia.
    + apply modify_order_ledger in Hp. destruct Hp as (aid & L & _).
      destruct (Hl _ _ _ L) as (n & T & V & F). exists n; auto.
  - inv H. exists []. cbn. rewrite app_nil_r. repeat split; auto; lia.
  - inv H. exists []. cbn. rewrite app_nil_r. repeat split; auto; lia.
  - inv H. exists []. cbn. rewrite app_nil_r. repeat split; auto; lia.
  - inv H. exists []. cbn. rewrite app_nil_r. repeat split; auto.
  - inv H. exists []. unfold of_snapshot, to_snapshot; cbn.
    destruct (fold_left _ _ _) as [bid ask]; cbn. rewrite app_nil_r. repeat split; auto; lia.
Qed.

(** Lifted to histories: records already in the log never change, and the
    counter equals the logged volume since it was last reset. *)
Fixpoint since_reset (ops : list op) (acc : list op) : list op :=
  match ops with
  | [] => acc
  | OResetTvol :: r => since_reset r []
  | o :: r => since_reset r (acc ++ [o])
  end.

Theorem log_prefix_stable s ops s' :
  run s ops = Ok s' -> exists new, b_trades s' = b_trades s ++ new.
Proof.
  revert s; induction ops as [|o r IH]; intros s H; cbn in H.
  - inv H. exists []; rewrite app_nil_r; reflexivity.
  - destruct (step s o) as [[s1 x]|] eqn:E; [|discriminate].
    unfold step in E. destruct (step_raw s o) as [[s2 x2]|] eqn:E2; [|discriminate]. cbn in E.
    destruct (bounded s2); inv E.
    apply ledger_step in E2. destruct E2 as (n1 & T1 & _).
    destruct (IH _ H) as (n2 & T2). exists (n1 ++ n2). rewrite T2, T1, app_assoc. reflexivity.
Qed.
