(** * The traded volume a step records is the volume of the trades logged during that step,
    each stamped with the time of the instruction that caused it *)
From Bourse Require Import Model.Types Model.Map Model.Side Model.Book Model.Obs Model.Rng Model.Env
  Proofs.Basic Proofs.Ledger Proofs.EnvProps.
From Coq Require Import ZifyBool ZifyNat ZifyN.

Ltac inv H := inversion H; subst; clear H.
Local Arguments N.add : simpl never.
Local Arguments N.ltb : simpl never.

(** book [b'] is book [b] with the trades [new] appended to its log and counted *)
Definition logged (P : trade -> Prop) (b b' : book) : Prop :=
  exists new, b_trades b' = b_trades b ++ new /\ b_tvol b' = b_tvol b + sumv new /\ Forall P new.

Lemma logged_refl P b b' : b_trades b' = b_trades b -> b_tvol b' = b_tvol b -> logged P b b'.
Proof. intros T V. exists []. rewrite app_nil_r, T, V. cbn. repeat split; auto. lia. Qed.

Lemma logged_trans (P : trade -> Prop) a b c : logged P a b -> logged P b c -> logged P a c.
Proof.
  intros (n1 & T1 & V1 & F1) (n2 & T2 & V2 & F2). exists (n1 ++ n2).
  rewrite T2, T1, V2, V1, sumv_app, app_assoc. repeat split; [lia | apply Forall_app; auto].
Qed.

Lemma logged_weaken (P Q : trade -> Prop) a b : (forall t, P t -> Q t) -> logged P a b -> logged Q a b.
Proof. intros H (n & T & V & F). exists n. repeat split; auto. eapply Forall_impl; eauto. Qed.

Lemma upd_nth_Forall2 {A} (R : A -> A -> Prop) f : (forall x, R x x) -> (forall x x', f x = Ok x' -> R x x') ->
  forall l i l', upd_nth l i f = Ok l' -> Forall2 R l l'.
Proof.
  intros Hr Hf. induction l as [|h t IH]; intros i l' H; [destruct i; discriminate|].
  destruct i as [|i]; cbn [upd_nth] in H.
  - destruct (f h) as [h'|] eqn:E; [|discriminate]. inv H. constructor; [apply Hf; assumption|].
    clear - Hr. induction t; constructor; auto.
  - destruct (upd_nth t i f) as [t'|] eqn:E; [|discriminate]. inv H. constructor; [apply Hr | eapply IH; eassumption].
Qed.

Lemma market_process_logged m e m' :
  market_process m e = Ok m' ->
  Forall2 (fun b b' => logged (fun tr => tr_t tr = b_t b) b b') m m'.
Proof.
  intros H. unfold market_process in H. eapply upd_nth_Forall2; [| |exact H].
  - intros b. apply logged_refl; reflexivity.
  - intros b b' Hx. unfold book_event, step in Hx.
    destruct (step_raw b (OEvent (mev_event e))) as [[b1 y]|] eqn:E; [|discriminate]. cbn [rbind] in Hx.
    destruct (bounded b1); [|discriminate]. inv Hx.
    destruct (ledger_step _ _ _ _ E) as (new & T & V & F & _). exists new. auto.
Qed.

Lemma Forall2_trans_gen {A} (R1 R2 R3 : A -> A -> Prop) : (forall a b c, R1 a b -> R2 b c -> R3 a c) ->
  forall l1 l2 l3, Forall2 R1 l1 l2 -> Forall2 R2 l2 l3 -> Forall2 R3 l1 l3.
Proof.
  intros H l1 l2 l3 H12. revert l3. induction H12; intros l3 H23; inv H23; constructor; eauto.
Qed.

Lemma Forall2_map_l {A} (R : A -> A -> Prop) (f : A -> A) l : (forall x, R x (f x)) -> Forall2 R l (map f l).
Proof. intros H. induction l; constructor; auto. Qed.

(** the batch: instruction number [i + k] runs at [start + i + k] *)
Lemma process_all_logged start : forall q i m m',
  process_all start i m q = Ok m' ->
  Forall2 (logged (fun tr => start + i <= tr_t tr < start + i + N.of_nat (length q))) m m'.
Proof.
  induction q as [|e r IH]; intros i m m' H; cbn [process_all] in H.
  - inv H. clear. induction m'; constructor; auto. apply logged_refl; reflexivity.
  - destruct (MAXT <? start + i); [discriminate|].
    destruct (market_process (market_set_time m (start + i)) e) as [m1|] eqn:E; [|discriminate]. cbn [rbind] in H.
    pose proof (market_process_logged _ _ _ E) as L1. pose proof (IH _ _ _ H) as L2.
    assert (L0 : Forall2 (fun b b' => b_trades b' = b_trades b /\ b_tvol b' = b_tvol b /\ b_t b' = start + i) m (market_set_time m (start + i))).
    { unfold market_set_time. apply Forall2_map_l. intros b. cbn. auto. }
    assert (L01 : Forall2 (logged (fun tr => tr_t tr = start + i)) m m1).
    { refine (Forall2_trans_gen _ _ _ _ m _ m1 L0 L1).
      intros a b c (T & V & C) (n & T2 & V2 & F2). exists n. rewrite T2, V2, T, V. repeat split; auto.
      eapply Forall_impl; [|exact F2]. cbn. intros tr Ht. congruence. }
    refine (Forall2_trans_gen _ _ _ _ m m1 m' L01 L2).
    intros a b c La Lb. eapply logged_trans.
    + eapply logged_weaken; [|exact La]. cbn [length]. intros tr Ht. cbn in Ht. lia.
    + eapply logged_weaken; [|exact Lb]. cbn [length]. intros tr Ht. cbn in Ht. lia.
Qed.

(** one step: per asset, the counter the step records is the volume of the trades the step appended to
    that asset's log, and each of them carries a time-stamp of this step's batch *)
Theorem step_volume_is_logged_trades L e g e' g' :
  menv_step L e g = Ok (e', g') ->
  exists start, market_time (en_market e) = Ok start /\
    Forall2 (fun b b' => exists new, b_trades b' = b_trades b ++ new /\ b_tvol b' = sumv new /\
                          Forall (fun tr => start <= tr_t tr < start + N.of_nat (length (en_queue e))) new)
            (en_market e) (en_market e') /\
    en_tvols e' = map (fun p => fst p ++ [b_tvol (snd p)]) (combine (en_tvols e) (en_market e')).
Proof.
  intros H. unfold menv_step in H. destruct (market_time (en_market e)) as [start|] eqn:Et; [|discriminate]. cbn [rbind] in H.
  destruct (shuffle (en_queue e) g) as [[q g1]|] eqn:Es; [|discriminate].
  destruct (process_all start 0 (map reset_trade_vol (en_market e)) q) as [m1|] eqn:Ep; [|discriminate]. cbn [rbind] in H.
  destruct (MAXT <? start + en_step e); [discriminate|].
  destruct (all_l2 L (market_set_time m1 (start + en_step e))) as [l2|]; [|discriminate]. inv H. cbn [en_market en_tvols].
  exists start. split; [reflexivity|]. split; [|reflexivity].
  assert (Hlen : length q = length (en_queue e)).
  { symmetry. apply Permutation.Permutation_length. eapply shuffle_is_permutation; eassumption. }
  pose proof (process_all_logged start q 0 _ _ Ep) as Lp. rewrite N.add_0_r, Hlen in Lp.
  assert (L0 : Forall2 (fun b b' => b_trades b' = b_trades b /\ b_tvol b' = 0) (en_market e) (map reset_trade_vol (en_market e))).
  { apply Forall2_map_l. intros b. cbn. auto. }
  assert (L2 : Forall2 (fun b b' => b_trades b' = b_trades b /\ b_tvol b' = b_tvol b) m1 (market_set_time m1 (start + en_step e))).
  { unfold market_set_time. apply Forall2_map_l. intros b. cbn. auto. }
  set (P := fun tr : trade => start <= tr_t tr < start + N.of_nat (length (en_queue e))) in *.
  set (R3 := fun b b' : book => exists new, b_trades b' = b_trades b ++ new /\ b_tvol b' = sumv new /\ Forall P new).
  assert (L01 : Forall2 R3 (en_market e) m1).
  { refine (Forall2_trans_gen _ (logged P) R3 _ _ _ _ L0 Lp).
    intros a b c (T & V) (n & T2 & V2 & F2). exists n. rewrite T2, V2, T, V. repeat split; auto. }
  refine (Forall2_trans_gen R3 _ R3 _ _ _ _ L01 L2).
  intros a b c (n & T & V & F) (T2 & V2). exists n. rewrite T2, V2. auto.
Qed.
