(** * While trading has never been disabled the book is never crossed *)
From Bourse Require Import Model.Types Model.Map Model.Side Model.Book Model.Obs Spec.RefBook
  Proofs.Basic Proofs.MapLemmas Proofs.Refine Proofs.Volumes Proofs.Views Proofs.Reload Proofs.PosVol.
From Coq Require Import ZifyBool ZifyNat ZifyN Sorting.Sorted.

Ltac inv H := inversion H; subst; clear H.
Local Arguments N.sub : simpl never.
Local Arguments N.add : simpl never.
Local Arguments N.eqb : simpl never.
Local Arguments N.leb : simpl never.
Local Arguments N.ltb : simpl never.
Local Arguments N.min : simpl never.

(** every resting bid is priced strictly below every resting ask (on key prices:
    a bid is keyed by [MAXP - price]) *)
Definition uncrossed (s : book) : Prop :=
  forall yb ya, In yb (sd_orders (b_bid s)) -> In ya (sd_orders (b_ask s)) -> MAXP - fst (fst yb) < fst (fst ya).

Definition xless (sd : side) (kown kopp : N) : Prop :=
  match sd with Bid => MAXP - kown < kopp | Ask => MAXP - kopp < kown end.
Definition uncrossed_sd (sd : side) (s : book) : Prop :=
  forall y z, In y (sd_orders (get_side s sd)) -> In z (sd_orders (get_side s (opp sd))) -> xless sd (fst (fst y)) (fst (fst z)).

Lemma uncrossed_sd_iff sd s : uncrossed s <-> uncrossed_sd sd s.
Proof. unfold uncrossed, uncrossed_sd, xless. destruct sd; cbn [get_side opp]; split; intros H a b Ha Hb; apply H; assumption. Qed.

Lemma uncrossed_incl s s' :
  incl (sd_orders (b_bid s')) (sd_orders (b_bid s)) -> incl (sd_orders (b_ask s')) (sd_orders (b_ask s)) ->
  uncrossed s -> uncrossed s'.
Proof. intros Hb Ha H yb ya Hyb Hya. apply H; [apply Hb | apply Ha]; assumption. Qed.

Lemma uncrossed_set_orders s x : uncrossed (set_orders s x) <-> uncrossed s.
Proof. reflexivity. Qed.

Lemma get_set_side_other s sd x : get_side (set_side s (opp sd) x) sd = get_side s sd.
Proof. destruct sd; reflexivity. Qed.
Lemma get_set_side_opp_same s sd x : get_side (set_side s (opp sd) x) (opp sd) = x.
Proof. destruct sd; reflexivity. Qed.

(** ** The matching loop only shrinks the opposite side and stops on a non-crossing head *)
Lemma match_loop_done sd : forall fuel s a s' a',
  match_loop fuel sd s a = Some (Ok (s', a')) -> match_iter sd s' a' = IDone.
Proof.
  induction fuel as [|f IH]; intros s a s' a' H; cbn [match_loop] in H; [discriminate|].
  destruct (match_iter sd s a) as [|s1 a1|] eqn:E; [inv H; assumption | eapply IH; eassumption | discriminate].
Qed.

Definition loop_keys (sd : side) (s0 : book) (a0 : order) (s : book) (a : order) : Prop :=
  incl (sd_orders (get_side s (opp sd))) (sd_orders (get_side s0 (opp sd))) /\
  get_side s sd = get_side s0 sd /\ o_price a = o_price a0 /\ pos a /\ b_trading s = b_trading s0.

Lemma match_orders_price t a p a2 p2 tr v : match_orders t a p = (a2, p2, tr, v) -> o_price a2 = o_price a.
Proof. unfold match_orders. intros H. injection H as <- _ _ _. destruct (_ =? 0); reflexivity. Qed.

Lemma match_iter_loop_keys sd s0 a0 s a s1 a1 :
  loop_keys sd s0 a0 s a -> match_iter sd s a = ICont s1 a1 -> loop_keys sd s0 a0 s1 a1.
Proof.
  intros (Hin & Hown & Hp & _ & Htr) E. apply match_iter_cont in E.
  destruct E as (id & pe & ps' & _ & _ & _ & E).
  destruct (match_orders (b_t s) a (e_order pe)) as [[[a2 p2] tr] v] eqn:Hm.
  destruct E as (Hrem & -> & ->). unfold loop_keys.
  rewrite get_set_side_opp_same, get_set_side_other. cbn [get_side set_trades set_orders].
  repeat split.
  - intros y Hy. apply Hin. destruct (status_eqb (o_status p2) SFilled).
    + rewrite (sd_remove_orders _ _ _ _ _ Hrem) in Hy. eapply In_kremove; eassumption.
    + rewrite (sd_remove_vol_orders _ _ _ _ Hrem) in Hy. assumption.
  - rewrite <- Hown. destruct sd; reflexivity.
  - rewrite (match_orders_price _ _ _ _ _ _ _ Hm). assumption.
  - apply (match_orders_pos _ _ _ _ _ _ _ Hm).
  - rewrite b_trading_set_side. exact Htr.
Qed.

Lemma do_match_keys sd s a s' a' :
  pos a -> do_match sd s a = Ok (s', a') -> loop_keys sd s a s' a' /\ match_iter sd s' a' = IDone.
Proof.
  intros Hp H. unfold do_match in H.
  destruct (match_loop (match_fuel s sd) sd s a) as [[[s1 a1]|]|] eqn:E; try discriminate. inv H. split.
  - eapply (match_loop_inv (loop_keys sd s a) sd); [intros; eapply match_iter_loop_keys; eassumption | | exact E].
    unfold loop_keys. repeat split; auto. intros y Hy; exact Hy.
  - eapply match_loop_done; eassumption.
Qed.

(** the stop condition, read on keys *)
Lemma done_not_crossing sd s a kp :
  match_iter sd s a = IDone -> 0 < o_vol a -> o_price a <= MAXP -> kp = kp_of sd (o_price a) ->
  ksorted (sd_orders (get_side s (opp sd))) ->
  Forall (el_ok (b_orders s) (opp sd)) (sd_orders (get_side s (opp sd))) ->
  forall z, In z (sd_orders (get_side s (opp sd))) -> xless sd kp (fst (fst z)).
Proof.
  intros E Hv Hpr -> Hs Hel z Hz. unfold match_iter in E.
  destruct (sd_orders (get_side s (opp sd))) as [|[[hp ht] hid] t] eqn:Eq; [contradiction|].
  assert (Hhead : hp <= fst (fst z)).
  { destruct Hz as [<-|Hz]; [cbn; lia|]. pose proof (ksorted_head _ _ _ Hs Hz) as C. unfold klt in C. cbn [fst snd] in C. lia. }
  assert (Hhp : hp <= MAXP).
  { inversion Hel as [|? ? (e & _ & Hk & Hpe) _]; subst. cbn [fst] in Hk. rewrite Hk. unfold kp_of, MAXP in *. destruct (opp sd); lia. }
  destruct (crosses sd a s) eqn:Ec.
  - unfold sd_best_order_idx in E. rewrite Eq in E.
    destruct (nth_error (b_orders s) hid); [|discriminate].
    destruct (match_orders _ _ _) as [[[? ?] ?] ?]. destruct (if status_eqb _ _ then _ else _); discriminate.
  - unfold crosses in Ec. replace (0 <? o_vol a) with true in Ec by lia. cbn [andb] in Ec.
    unfold xless, kp_of. destruct sd; cbn [opp get_side] in *; unfold best_price, sd_best_kp, kp_of in Ec; rewrite Eq in Ec; cbn [fst] in Ec;
      unfold MAXP in *; lia.
Qed.

(** ** An arrival (after being taken out of its own queue) *)
Lemma arrive_uncrossed s0 ex id e_old e_blk sd o kp s2 e2 :
  InvQ ex s0 -> (ex = None \/ ex = Some id) ->
  nth_error (b_orders s0) id = Some e_old -> e_kside e_old = sd ->
  ~ In id (qof (b_bid s0)) -> ~ In id (qof (b_ask s0)) ->
  o_side o = sd -> o_price o <= MAXP -> o_id o = id -> o_status o = SActive -> kp = kp_of sd (o_price o) ->
  b_trading s0 = true -> uncrossed s0 -> 0 < o_vol o ->
  (do (s1, o1) <- (if b_trading s0 then do_match sd s0 o else Ok (s0, o));
   if status_eqb (o_status o1) SFilled then Ok (s1, set_eorder e_blk o1)
   else do (sdst, kt) <- sd_queue (get_side s1 sd) kp (b_t s1) (o_id o1) (o_vol o1);
        Ok (set_side s1 sd sdst, mkEntry o1 sd kp kt)) = Ok (s2, e2) ->
  uncrossed s2 /\ b_trading s2 = true.
Proof.
  intros Hinv Hex Hn Hks Hnb Hna Hosd Hopr Hoid Host Hkp Htr Hux Hvol H. subst kp. rewrite Htr in H.
  assert (Hsd : side_eqb (o_side o) sd = true) by (rewrite Hosd; apply side_eqb_refl).
  assert (Hnopp : ~ In id (qof (get_side s0 (opp sd)))) by (destruct (opp sd); assumption).
  destruct (do_match sd s0 o) as [[s1 o1]|] eqn:Hdm; [|discriminate]. cbn [rbind] in H.
  destruct (do_match_invq sd s0 o id ex s1 o1 Hinv Hex Hnopp Hsd Hopr Hdm) as (_ & Hinv1 & Hfr & _ & Hp1 & Hi1 & Hst1).
  destruct (do_match_keys sd s0 o s1 o1 (or_introl Hvol) Hdm) as ((Hin & Hown & _ & Hpos1 & Htr1) & Hdone).
  assert (Hux1 : uncrossed_sd sd s1).
  { apply (uncrossed_sd_iff sd) in Hux. intros y z Hy Hz. rewrite Hown in Hy. apply Hux; [assumption | apply Hin; assumption]. }
  destruct (status_eqb (o_status o1) SFilled) eqn:Ef.
  - injection H as <- _. split; [apply (uncrossed_sd_iff sd); assumption | congruence].
  - destruct (sd_queue (get_side s1 sd) (kp_of sd (o_price o)) (b_t s1) (o_id o1) (o_vol o1)) as [[x' kt]|] eqn:Hq; [|discriminate].
    cbn in H. injection H as <- <-. split; [|rewrite b_trading_set_side; congruence].
    unfold sd_queue in Hq. destruct (MAXT <? _); [discriminate|]. injection Hq as <- <-.
    assert (Hv1 : 0 < o_vol o1).
    { destruct Hpos1 as [P|P]; [exact P|]. exfalso. apply P. destruct Hst1 as [E|E]; [right; congruence|].
      rewrite E in Ef. discriminate. }
    assert (Hopp1 : side_ok (b_orders s1) (opp sd) (get_side s1 (opp sd))).
    { destruct Hinv1 as (Hb1 & Ha1 & _). destruct sd; assumption. }
    assert (Hel1 : Forall (el_ok (b_orders s1) (opp sd)) (sd_orders (get_side s1 (opp sd)))).
    { destruct Hinv1 as (_ & _ & Hwf1 & _). destruct Hopp1 as [_ Hf]. eapply Forall_impl; [|exact Hf].
      intros y (e & Hne & _ & Hkp & _ & Hsde & Hste). destruct (Hwf1 _ _ Hne) as (_ & _ & Wkp & Wpr).
      exists e. repeat split; [assumption | | assumption]. rewrite <- Hkp, Wkp by (right; assumption). rewrite Hsde. reflexivity. }
    apply (uncrossed_sd_iff sd). intros y z Hy Hz.
    rewrite get_set_side_same in Hy. cbn [sd_insert sd_orders] in Hy.
    assert (Hz1 : In z (sd_orders (get_side s1 (opp sd)))).
    { destruct sd; cbn [opp get_side set_side b_bid b_ask] in *; assumption. }
    apply In_kinsert in Hy. destruct Hy as [->|Hy]; [|apply Hux1; assumption].
    cbn [fst]. rewrite <- Hp1.
    eapply (done_not_crossing sd s1 o1); try eassumption; [congruence | reflexivity | destruct Hopp1; assumption].
Qed.

(** ** Operations *)
Theorem place_order_uncrossed s id s' :
  InvQ None s -> posvol_tbl (tbl s) -> b_trading s = true -> uncrossed s ->
  place_order s id = Ok s' -> uncrossed s' /\ b_trading s' = true.
Proof.
  intros Hinv Hpv Htr Hux H. pose proof Hinv as (Hb & Ha & Hwf & Hc).
  unfold place_order in H. destruct (nth_error (b_orders s) id) as [e|] eqn:Hn; [|discriminate].
  destruct (negb (status_eqb (o_status (e_order e)) SNew)) eqn:Hnew; [inv H; auto|].
  assert (Hst : o_status (e_order e) = SNew) by (apply status_eqb_eq; destruct (status_eqb _ _); [reflexivity | discriminate]).
  destruct (Hwf _ _ Hn) as (Wid & Wks & Wkp & Wpr). specialize (Wkp (or_introl Hst)).
  assert (Hvol : 0 < o_vol (e_order e)).
  { assert (Hnt : nth_error (tbl s) id = Some (e_order e)) by (unfold tbl; rewrite nth_error_map, Hn; reflexivity).
    destruct (Hpv _ _ Hnt) as [P|P]; [exact P|]. exfalso. apply P. left. assumption. }
  set (o := set_arr (set_status (e_order e) SActive) (b_t s)) in *.
  set (sd := o_side o) in *.
  assert (Hnb : ~ In id (qof (b_bid s))) by (eapply not_active_not_queued; eauto; congruence).
  assert (Hna : ~ In id (qof (b_ask s))) by (eapply not_active_not_queued; eauto; congruence).
  change (match sd with Bid => o_price o =? MAXP | Ask => o_price o =? 0 end) with (is_market o) in H.
  destruct (is_market o) eqn:Hm.
  - unfold place_market in H. rewrite Htr in H.
    cbn [e_order set_eorder] in H. destruct (do_match sd s o) as [[s1 o1]|] eqn:Hdm; [|discriminate]. cbn in H.
    destruct (do_match_keys sd s o s1 o1 (or_introl Hvol) Hdm) as ((Hin & Hown & _ & _ & Htr1) & _).
    assert (Hux1 : uncrossed s1).
    { apply (uncrossed_sd_iff sd). apply (uncrossed_sd_iff sd) in Hux. intros y z Hy Hz. rewrite Hown in Hy. apply Hux; [assumption | apply Hin; assumption]. }
    destruct (status_eqb (o_status o1) SFilled); injection H as <-; (split; [exact Hux1 | cbn; congruence]).
  - unfold place_limit in H. cbn [e_order set_eorder e_kp] in H.
    match type of H with (do _ <- ?X; _) = _ => destruct X as [[s2 e2]|] eqn:Hp; [|discriminate] end.
    cbn in H. injection H as <-.
    eapply (arrive_uncrossed s None id e (set_eorder e o) sd o (e_kp e) s2 e2); eauto.
Qed.

Theorem cancel_order_uncrossed s id s' :
  uncrossed s -> cancel_order s id = Ok s' -> uncrossed s' /\ b_trading s' = b_trading s.
Proof.
  intros Hux H. unfold cancel_order in H. destruct (nth_error (b_orders s) id) as [e|]; [|discriminate].
  destruct (status_eqb (o_status (e_order e)) SActive); [|inv H; auto].
  destruct (sd_remove (get_side s (e_kside e)) (e_kp e) (e_kt e) _) as [x'|] eqn:Hr; [|discriminate].
  cbn in H. injection H as <-. split; [|rewrite b_trading_set_side; reflexivity].
  apply sd_remove_orders in Hr. eapply uncrossed_incl; [| |exact Hux];
    destruct (e_kside e); cbn [set_side b_bid b_ask set_orders]; intros y Hy; try assumption;
    rewrite Hr in Hy; eapply In_kremove; eassumption.
Qed.

Theorem modify_order_uncrossed s id np nv s' :
  InvQ None s -> posvol_tbl (tbl s) -> b_trading s = true -> uncrossed s ->
  (match np with Some p => p <= MAXP | None => True end) -> (match nv with Some v => 1 <= v | None => True end) ->
  modify_order s id np nv = Ok s' -> uncrossed s' /\ b_trading s' = true.
Proof.
  intros Hinv Hpv Htr Hux Hp Hvv H. pose proof Hinv as (Hb & Ha & Hwf & Hc).
  unfold modify_order in H. destruct (nth_error (b_orders s) id) as [e|] eqn:Hn; [|discriminate].
  destruct (match np with Some p => negb (p mod b_tick s =? 0) | None => false end); [injection H as <-; auto|].
  destruct (status_eqb (o_status (e_order e)) SActive) eqn:Hst.
  2:{ cbn in H. injection H as <-. auto. }
  apply status_eqb_eq in Hst.
  destruct (Hwf _ _ Hn) as (Wid & Wks & Wkp & Wpr).
  assert (Hvol : 0 < o_vol (e_order e)).
  { assert (Hnt : nth_error (tbl s) id = Some (e_order e)) by (unfold tbl; rewrite nth_error_map, Hn; reflexivity).
    destruct (Hpv _ _ Hnt) as [P|P]; [exact P|]. exfalso. apply P. right. assumption. }
  assert (Hrep : forall p v s1 e1, p <= MAXP -> 0 < v -> replace_order s e p v = Ok (s1, e1) -> uncrossed s1 /\ b_trading s1 = true).
  { intros p v s1 e1 Hpp Hv0 Hr. unfold replace_order in Hr. rewrite Wks in Hr.
    set (sd := o_side (e_order e)) in *.
    destruct (sd_remove (get_side s sd) (e_kp e) (e_kt e) (o_vol (e_order e))) as [x0|] eqn:Hrm; [|discriminate].
    cbn [rbind] in Hr.
    pose proof Hrm as Hrm0. apply sd_remove_orders in Hrm0.
    destruct (remove_own_entry s id e x0 Hinv Hn Hst Hrm0) as (Hq & Hinv0 & Hnin). fold sd in Hq, Hinv0.
    set (s0 := set_side s sd x0) in *.
    assert (Hn0 : nth_error (b_orders s0) id = Some e) by (unfold s0; rewrite b_orders_set_side; exact Hn).
    assert (Hnb : ~ In id (qof (b_bid s0))).
    { unfold s0, sd in *. destruct (o_side (e_order e)) eqn:Esd; cbn [b_bid set_side]; [exact Hnin|].
      eapply wrong_side_not_queued; [exact Hb | exact Hn | congruence]. }
    assert (Hna : ~ In id (qof (b_ask s0))).
    { unfold s0, sd in *. destruct (o_side (e_order e)) eqn:Esd; cbn [b_ask set_side]; [|exact Hnin].
      eapply wrong_side_not_queued; [exact Ha | exact Hn | congruence]. }
    assert (Hux0 : uncrossed s0).
    { eapply uncrossed_incl; [| |exact Hux]; unfold s0; destruct sd; cbn [set_side b_bid b_ask]; intros y Hy; try assumption;
        rewrite Hrm0 in Hy; eapply In_kremove; eassumption. }
    assert (Htr0 : b_trading s0 = true) by (unfold s0; rewrite b_trading_set_side; exact Htr).
    eapply (arrive_uncrossed s0 (Some id) id e e sd (set_price (set_vol (e_order e) v) p) (kp_of sd p) s1 e1); eauto. }
  destruct np as [p|], nv as [v|]; cbn in Hp, Hvv.
  - destruct (replace_order s e p v) as [[s1 e1]|] eqn:Hr; [|discriminate]. cbn in H. injection H as <-.
    apply (Hrep p v s1 e1); [assumption | lia | assumption].
  - destruct (replace_order s e p (o_vol (e_order e))) as [[s1 e1]|] eqn:Hr; [|discriminate]. cbn in H. injection H as <-.
    apply (Hrep p (o_vol (e_order e)) s1 e1); assumption.
  - destruct (v <? o_vol (e_order e)) eqn:Hlt.
    + unfold reduce_order_vol in H.
      destruct (csub (o_vol (e_order e)) (o_vol (e_order e) - v)) as [v'|] eqn:Hc1; [|discriminate]. cbn [rbind] in H.
      destruct (sd_remove_vol (get_side s (e_kside e)) (e_kp e) (o_vol (e_order e) - v)) as [x'|] eqn:Hr; [|discriminate].
      cbn in H. injection H as <-. split; [|cbn; rewrite b_trading_set_side; exact Htr].
      apply sd_remove_vol_orders in Hr. eapply uncrossed_incl; [| |exact Hux];
        destruct (e_kside e); cbn [set_side b_bid b_ask set_orders]; intros y Hy; try assumption; rewrite Hr in Hy; assumption.
    + destruct (replace_order s e (o_price (e_order e)) v) as [[s1 e1]|] eqn:Hr; [|discriminate]. cbn in H. injection H as <-.
      apply (Hrep (o_price (e_order e)) v s1 e1); [exact Wpr | lia | assumption].
  - cbn in H. injection H as <-. auto.
Qed.

Lemma create_order_sides s sd v tr p s' c :
  create_order s sd v tr p = (s', c) -> b_bid s' = b_bid s /\ b_ask s' = b_ask s /\ b_trading s' = b_trading s.
Proof.
  unfold create_order. intros H. destruct p as [p|]; [destruct (p mod b_tick s =? 0)|]; inv H; auto.
Qed.

(** ** Every operation, every history *)
Definition XInv (s : book) : Prop :=
  Inv s /\ posvol_tbl (tbl s) /\ b_trading s = true /\ uncrossed s.

Theorem step_raw_xinv s o s' x :
  XInv s -> op_u32 o -> op_vols o -> o <> ODisable -> step_raw s o = Ok (s', x) -> XInv s'.
Proof.
  intros (Hinv & Hpv & Htr & Hux) Hu Hvo Hnd H.
  destruct (step_raw_inv_all s o s' x Hinv Hu H) as [R Hinv'].
  assert (Hpv' : posvol_tbl (tbl s')) by (exact (ref_step_pos _ _ _ _ R Hvo Hpv)).
  pose proof Hinv as [Hq Hv].
  assert (Hgoal : uncrossed s' /\ b_trading s' = true); [|destruct Hgoal as [G1 G2]; exact (conj Hinv' (conj Hpv' (conj G2 G1)))].
  destruct o; cbn [step_raw] in H; cbn [op_u32 op_vols] in Hu, Hvo.
  - destruct (create_order s sd vol trader price) as [s1 c] eqn:E. inv H.
    destruct (create_order_sides _ _ _ _ _ _ _ E) as (Eb & Ea & Et). unfold uncrossed. rewrite Eb, Ea, Et. auto.
  - unfold create_and_place_order in H.
    destruct (create_order s sd vol trader price) as [s1 c] eqn:E.
    destruct (create_order_sides _ _ _ _ _ _ _ E) as (Eb & Ea & Et).
    assert (Hux1 : uncrossed s1) by (unfold uncrossed; rewrite Eb, Ea; exact Hux).
    destruct (create_order_refines s sd vol trader price s1 c Hq) as [R1 Hq1]; [destruct price; exact Hu | exact E |].
    destruct c as [id|p t].
    + destruct (place_order s1 id) as [s2|] eqn:Hp; [|discriminate]. cbn in H. inv H.
      apply (place_order_uncrossed s1 id s' Hq1); [|congruence | assumption | assumption].
      assert (Hr : ref_step (abs s) (OCreate sd vol trader price) = Some (abs s1, OCreated (Created id))) by (cbn [ref_step]; rewrite R1; reflexivity).
      exact (ref_step_pos _ _ _ _ Hr Hvo Hpv).
    + cbn in H. inv H. split; [assumption | congruence].
  - destruct (place_order s id) as [s1|] eqn:Hp; [|discriminate]. inv H. eapply place_order_uncrossed; eauto.
  - destruct (cancel_order s id) as [s1|] eqn:Hp; [|discriminate]. inv H.
    destruct (cancel_order_uncrossed _ _ _ Hux Hp). split; [assumption | congruence].
  - destruct (modify_order s id new_price new_vol) as [s1|] eqn:Hp; [|discriminate]. inv H.
    refine (modify_order_uncrossed s id new_price new_vol s' Hq Hpv Htr Hux _ _ Hp); [destruct new_price; exact Hu | destruct new_vol; exact Hvo].
  - destruct (process_event s ev) as [s1|] eqn:Hp; [|discriminate]. inv H. destruct ev; cbn in Hp, Hu, Hvo.
    + eapply place_order_uncrossed; eauto.
    + destruct (cancel_order_uncrossed _ _ _ Hux Hp). split; [assumption | congruence].
    + refine (modify_order_uncrossed s id new_price new_vol s' Hq Hpv Htr Hux _ _ Hp); [destruct new_price; exact Hu | destruct new_vol; exact Hvo].
  - inv H. auto.
  - inv H. auto.
  - contradiction.
  - inv H. auto.
  - rewrite (reload_identity s Hq Hv) in H. inv H. auto.
Qed.

Lemma XInv_new t0 tick s0 : book_new t0 tick true = Ok s0 -> XInv s0.
Proof.
  intros H. pose proof (Inv_new _ _ _ _ H) as Hinv. unfold book_new in H. destruct (tick =? 0); [discriminate|]. inv H.
  refine (conj Hinv (conj _ (conj eq_refl _))).
  - intros i o Hn. destruct i; discriminate.
  - intros yb ya Hyb. contradiction.
Qed.

Theorem run_xinv ops : forall s s' xs,
  XInv s -> Forall op_u32 ops -> Forall op_vols ops -> ~ In ODisable ops ->
  run_outs s ops = Ok (s', xs) -> XInv s'.
Proof.
  induction ops as [|o r IH]; intros s s' xs Hinv Hu Hvo Hnd H; cbn in H.
  - inv H. assumption.
  - unfold step in H. destruct (step_raw s o) as [[s1 x]|] eqn:E; [|discriminate]. cbn in H.
    destruct (bounded s1); [|discriminate]. cbn in H.
    destruct (run_outs s1 r) as [[s2 xs2]|] eqn:E2; [|discriminate]. cbn in H. inv H.
    inversion Hu as [|? ? Hu1 Hu2]; subst. inversion Hvo as [|? ? Hv1 Hv2]; subst.
    assert (Hx1 : XInv s1).
    { eapply step_raw_xinv; [exact Hinv | exact Hu1 | exact Hv1 | intros C; apply Hnd; left; auto | exact E]. }
    exact (IH s1 s' xs2 Hx1 Hu2 Hv2 (fun C => Hnd (or_intror C)) E2).
Qed.

(** on the published touch prices: best bid strictly below best ask when both sides are non-empty *)
Theorem uncrossed_touch s :
  InvQ None s -> uncrossed s -> sd_orders (b_bid s) <> [] -> sd_orders (b_ask s) <> [] ->
  fst (bid_ask s) < snd (bid_ask s).
Proof.
  intros Hinv Hux Hb Ha. unfold bid_ask, best_price, sd_best_kp. cbn [fst snd].
  destruct (sd_orders (b_bid s)) as [|[[kb tb] ib] qb] eqn:Eb; [contradiction|].
  destruct (sd_orders (b_ask s)) as [|[[ka ta] ia] qa] eqn:Ea; [contradiction|].
  cbn [fst kp_of]. apply (Hux ((kb, tb), ib) ((ka, ta), ia)); [rewrite Eb | rewrite Ea]; left; reflexivity.
Qed.

Lemma nonempty_resting s sd : InvQ None s -> resting sd (tbl s) <> [] -> sd_orders (get_side s sd) <> [].
Proof.
  intros Hinv Hne E. pose proof (queue_perm_resting s sd Hinv) as Hp. rewrite E in Hp. cbn in Hp.
  apply Permutation.Permutation_nil in Hp. contradiction.
Qed.

Theorem never_crossed_history t0 tick s0 ops s xs :
  book_new t0 tick true = Ok s0 -> Forall op_u32 ops -> Forall op_vols ops -> ~ In ODisable ops ->
  run_outs s0 ops = Ok (s, xs) ->
  resting Bid (tbl s) <> [] -> resting Ask (tbl s) <> [] -> fst (bid_ask s) < snd (bid_ask s).
Proof.
  intros H0 Hu Hv Hnd H Hb Ha.
  destruct (run_xinv ops s0 s xs (XInv_new _ _ _ H0) Hu Hv Hnd H) as ((Hq & _) & _ & _ & Hux).
  apply uncrossed_touch; [assumption | assumption | exact (nonempty_resting s Bid Hq Hb) | exact (nonempty_resting s Ask Hq Ha)].
Qed.
