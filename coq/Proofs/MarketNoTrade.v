(** * C13 at market and environment level: an asset whose trading flag is off records no trade
    during a whole step, whatever the batch and its processing order; the market-wide switch sets
    the flag of every asset and changes nothing else *)
From Bourse Require Import Model.Types Model.Map Model.Side Model.Book Model.Obs Model.Rng Model.Env
  Proofs.Basic Proofs.NoTrade Proofs.StepVolume.
From Coq Require Import ZifyBool ZifyNat ZifyN.

Local Arguments N.add : simpl never.
Local Arguments N.ltb : simpl never.

Lemma event_off_same_ledger s ev s' x :
  b_trading s = false -> step_raw s (OEvent ev) = Ok (s', x) -> same_ledger s s'.
Proof.
  intros Hoff H. cbn in H. destruct (process_event s ev) as [s1|] eqn:Hp; [|discriminate]. inv H.
  destruct ev; cbn in Hp.
  - eapply place_order_off; eauto.
  - eapply cancel_order_ledger; eauto.
  - eapply modify_order_off; eauto.
Qed.

(** if [b] is in a no-trading period, so is [b'], with [b]'s ledger *)
Definition quiet (b b' : book) : Prop :=
  b_trading b = false -> b_trading b' = false /\ b_trades b' = b_trades b /\ b_tvol b' = b_tvol b.

Lemma quiet_refl b : quiet b b.
Proof. intros H; auto. Qed.

Lemma quiet_trans a b c : quiet a b -> quiet b c -> quiet a c.
Proof.
  intros L1 L2 Hoff. destruct (L1 Hoff) as (F1 & T1 & V1). destruct (L2 F1) as (F2 & T2 & V2).
  repeat split; congruence.
Qed.

Lemma market_process_quiet m e m' : market_process m e = Ok m' -> Forall2 quiet m m'.
Proof.
  intros H. unfold market_process in H. eapply upd_nth_Forall2; [| |exact H].
  - apply quiet_refl.
  - intros b b' Hx Hoff. unfold book_event, step in Hx.
    destruct (step_raw b (OEvent (mev_event e))) as [[b1 y]|] eqn:E; [|discriminate]. cbn [rbind] in Hx.
    destruct (bounded b1); [|discriminate]. inv Hx.
    destruct (event_off_same_ledger _ _ _ _ Hoff E) as (T & V & F). repeat split; congruence.
Qed.

Lemma Forall2_refl_gen {A} (R : A -> A -> Prop) : (forall x, R x x) -> forall l, Forall2 R l l.
Proof. intros H. induction l; constructor; auto. Qed.

Lemma process_all_quiet start : forall q i m m', process_all start i m q = Ok m' -> Forall2 quiet m m'.
Proof.
  induction q as [|e r IH]; intros i m m' H; cbn [process_all] in H.
  - inv H. apply Forall2_refl_gen, quiet_refl.
  - destruct (MAXT <? start + i); [discriminate|].
    destruct (market_process (market_set_time m (start + i)) e) as [m1|] eqn:E; [|discriminate]. cbn [rbind] in H.
    pose proof (market_process_quiet _ _ _ E) as L1. pose proof (IH _ _ _ H) as L2.
    assert (L0 : Forall2 quiet m (market_set_time m (start + i))).
    { unfold market_set_time. apply Forall2_map_l. intros b Hoff. cbn. auto. }
    refine (Forall2_trans_gen _ _ _ quiet_trans _ _ _ _ L2).
    exact (Forall2_trans_gen _ _ _ quiet_trans _ _ _ L0 L1).
Qed.

(** one step of the environment: every asset that is in a no-trading period stays in it, its trade log is
    untouched and the traded volume the step records for it is 0 - for every batch and every schedule *)
Theorem step_no_trade_when_off L e g e' g' :
  menv_step L e g = Ok (e', g') ->
  Forall2 (fun b b' => b_trading b = false ->
             b_trading b' = false /\ b_trades b' = b_trades b /\ b_tvol b' = 0)
          (en_market e) (en_market e').
Proof.
  intros H. unfold menv_step in H. destruct (market_time (en_market e)) as [start|] eqn:Et; [|discriminate]. cbn [rbind] in H.
  destruct (shuffle (en_queue e) g) as [[q g1]|] eqn:Es; [|discriminate].
  destruct (process_all start 0 (map reset_trade_vol (en_market e)) q) as [m1|] eqn:Ep; [|discriminate]. cbn [rbind] in H.
  destruct (MAXT <? start + en_step e); [discriminate|].
  destruct (all_l2 L (market_set_time m1 (start + en_step e))) as [l2|]; [|discriminate]. inv H. cbn [en_market].
  pose proof (process_all_quiet start q 0 _ _ Ep) as Lp.
  set (R0 := fun b b' : book => b_trading b = false -> b_trading b' = false /\ b_trades b' = b_trades b /\ b_tvol b' = 0).
  assert (L0 : Forall2 R0 (en_market e) (map reset_trade_vol (en_market e))).
  { apply Forall2_map_l. intros b Hoff. cbn. auto. }
  assert (L2 : Forall2 quiet m1 (market_set_time m1 (start + en_step e))).
  { unfold market_set_time. apply Forall2_map_l. intros b Hoff. cbn. auto. }
  assert (Hc : forall a b c, R0 a b -> quiet b c -> R0 a c).
  { intros a b c Ha Hb Hoff. destruct (Ha Hoff) as (F1 & T1 & V1). destruct (Hb F1) as (F2 & T2 & V2). repeat split; congruence. }
  refine (Forall2_trans_gen _ _ _ Hc _ _ _ _ L2).
  exact (Forall2_trans_gen _ _ _ Hc _ _ _ L0 Lp).
Qed.

(** the market-wide switches set every asset's flag and nothing else: clocks, ledgers, order tables and
    both sides of every book are those before the call *)
Theorem market_switch_only_flags L e g (sw : bool) e' g' x :
  menv_apply L e g (if sw then EEnable else EDisable) = Ok (e', g', x) ->
  g' = g /\ en_queue e' = en_queue e /\
  Forall2 (fun b b' => b' = set_trading b sw) (en_market e) (en_market e').
Proof.
  intros H. destruct sw; cbn in H; inv H; cbn; repeat split;
    apply Forall2_map_l; intros b; reflexivity.
Qed.
