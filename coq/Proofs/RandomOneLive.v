(** * C16: a random agent never holds more than one live order per trader - a trader whose remembered
    order is Active when it looks never submits a new one (it can only queue the cancellation of that
    order, or do nothing); it submits a new order only when it remembers none or the remembered one
    is no longer Active, and then remembers exactly the new one *)
From Bourse Require Import Model.Types Model.Map Model.Side Model.Book Model.Obs Model.Rng Model.Env Model.Agents
  Proofs.Basic Proofs.EnvProps Proofs.AgentOrders.

Ltac inv H := inversion H; subst; clear H.

Theorem random_slot_active_never_places e c a p n id e' c' slot' :
  random_slot e c a p n (Some id) = Ok (e', c', slot') -> order_status e a id = Ok SActive ->
  en_market e' = en_market e /\
  ((slot' = Some id /\ en_queue e' = en_queue e) \/ (slot' = None /\ en_queue e' = en_queue e ++ [MCancel a id])).
Proof.
  unfold random_slot. destruct (c_f32 c) as [k c1]. intros H Hst. rewrite Hst in H. cbn [rbind status_eqb] in H.
  destruct (f32_draw_lt k (rp_rate p)).
  - inv H. cbn [en_market en_queue push_event]. split; [reflexivity|]. right. auto.
  - inv H. split; [reflexivity|]. left. auto.
Qed.

(** when it does place, it is because nothing it remembers is Active, and it remembers the new id *)
Theorem random_slot_places_only_when_free e c a p n slot e' c' slot' :
  random_slot e c a p n slot = Ok (e', c', slot') -> en_market e' <> en_market e ->
  (slot = None \/ exists id st, slot = Some id /\ order_status e a id = Ok st /\ st <> SActive) /\
  exists b x id', nth_error (en_market e) a = Some b /\ slot' = Some id' /\ id' = length (b_orders b) /\
                  nth_error (en_market e') a = Some (set_orders b (b_orders b ++ [x])).
Proof.
  unfold random_slot. destruct (c_f32 c) as [k c1]. intros H Hne.
  destruct (f32_draw_lt k (rp_rate p)); [|inv H; contradiction].
  assert (Hfree : (slot = None \/ exists id st, slot = Some id /\ order_status e a id = Ok st /\ st <> SActive) \/
                  (exists id, slot = Some id /\ order_status e a id = Ok SActive)).
  { destruct slot as [id|]; [|left; left; reflexivity].
    destruct (order_status e a id) as [st|] eqn:Es; [|discriminate].
    destruct st; try (left; right; exists id; eexists; repeat split; [exact Es | discriminate]).
    right. exists id. auto. }
  destruct Hfree as [Hfree|(id & -> & Hact)].
  2:{ rewrite Hact in H. cbn [rbind status_eqb] in H. inv H. contradiction. }
  split; [exact Hfree|].
  assert (Hgo : match c_below FUEL 2 c1 with
                | None => Panic
                | Some (si, c2) =>
                    do (tk, c3) <- c_range (rp_tick_lo p) (rp_tick_hi p) c2;
                    do (v, c4) <- c_range (rp_vol_lo p) (rp_vol_hi p) c3;
                    let price := tk * rp_tick p in
                    if W32 <=? price then Panic
                    else do (e', id) <- place_unwrap e a (if si =? 0 then Ask else Bid) v (N.of_nat n) (Some price); Ok (e', c4, Some id)
                end = Ok (e', c', slot')).
  { destruct Hfree as [->|(id & st & -> & Es & Hna)]; [exact H|].
    rewrite Es in H. cbn [rbind] in H. destruct st; try (exact H). contradiction. }
  clear H. destruct (c_below FUEL 2 c1) as [[si c2]|]; [|discriminate].
  destruct (c_range (rp_tick_lo p) (rp_tick_hi p) c2) as [[tk c3]|]; [|discriminate]. cbn [rbind] in Hgo.
  destruct (c_range (rp_vol_lo p) (rp_vol_hi p) c3) as [[v c4]|]; [|discriminate]. cbn [rbind] in Hgo.
  cbv zeta in Hgo. destruct (W32 <=? tk * rp_tick p); [discriminate|].
  destruct (place_unwrap e a (if si =? 0 then Ask else Bid) v (N.of_nat n) (Some (tk * rp_tick p))) as [[e1 id1]|] eqn:Ep; [|discriminate].
  cbn in Hgo. inv Hgo.
  unfold place_unwrap in Ep. destruct (menv_place e a (if si =? 0 then Ask else Bid) v (N.of_nat n) (Some (tk * rp_tick p))) as [[e2 cc]|] eqn:Em; [|discriminate].
  cbn in Ep. destruct cc as [idc|? ?]; [|discriminate]. inv Ep.
  pose proof (submission_invisible _ _ _ _ _ _ _ _ Em) as (_ & _ & _ & _ & (_ & _ & b & x & Hb & Hb' & _ & Hid)).
  exists b, x, id1. auto.
Qed.
