(** * Resting (Active) orders are priced on the tick grid; the premises of the
    level-accounting theorem hold in every reachable state *)
From Bourse Require Import Model.Types Model.Map Model.Side Model.Book Model.Obs Spec.RefBook Spec.Monitors
  Proofs.Basic Proofs.MapLemmas Proofs.Grid Proofs.Refine Proofs.Volumes Proofs.Views Proofs.Reload Proofs.PosVol Proofs.LifeRef
  Proofs.LevelsAccount.
From Coq Require Import ZifyBool ZifyNat ZifyN.

Local Arguments N.sub : simpl never.
Local Arguments N.add : simpl never.
Local Arguments N.mul : simpl never.
Local Arguments N.eqb : simpl never.
Local Arguments N.leb : simpl never.
Local Arguments N.ltb : simpl never.
Local Arguments N.min : simpl never.
Local Arguments N.max : simpl never.
Local Arguments N.modulo : simpl never.

Definition rg (tick : N) (o : order) : Prop := o_status o = SActive -> o_price o mod tick = 0.
Definition rg_tbl (tick : N) (tb : list order) : Prop := forall i o, nth_error tb i = Some o -> rg tick o.

Lemma rg_set_nth tick tb id o : rg_tbl tick tb -> rg tick o -> rg_tbl tick (set_nth tb id o).
Proof.
  intros H Ho i x Hx. destruct (Nat.eq_dec id i) as [->|Hne].
  - destruct (Nat.lt_ge_cases i (length tb)) as [Hlt|Hge].
    + rewrite nth_error_set_nth_eq in Hx by assumption. injection Hx as <-. assumption.
    + assert (nth_error (set_nth tb i o) i = None) by (apply nth_error_None; rewrite set_nth_length; assumption). congruence.
  - rewrite nth_error_set_nth_neq in Hx by assumption. eapply H; eassumption.
Qed.

Lemma rg_fill tick t a b : fill_rel t a b -> rg tick a -> rg tick b.
Proof.
  intros (_ & _ & _ & _ & Hp & _ & Hs) Ha Hb. rewrite Hp. apply Ha.
  destruct Hs as [[S _]|[S _]]; congruence.
Qed.

Lemma ref_match_rg tick t : forall q agg tb log tv agg' tb' q' log' tv',
  ref_match t agg tb q log tv = (agg', tb', q', log', tv') -> rg_tbl tick tb -> rg_tbl tick tb' /\ (rg tick agg -> rg tick agg').
Proof.
  induction q as [|id q IH]; intros agg tb log tv agg' tb' q' log' tv' H Ht; cbn [ref_match] in H.
  - injection H as <- <- _ _ _. auto.
  - destruct ((0 <? o_vol agg) && admits agg (oget tb id)); [|injection H as <- <- _ _ _; auto].
    destruct (match_orders t agg (oget tb id)) as [[[a2 p2] tr] v] eqn:Em.
    destruct (match_orders_fill _ _ _ _ _ _ _ Em) as [Fa Fp].
    assert (Hp2 : rg tick p2).
    { apply (rg_fill tick t (oget tb id) p2 Fp). unfold oget. intros Hs.
      destruct (nth_error tb id) as [p|] eqn:Ep.
      - rewrite (nth_error_nth _ _ _ Ep) in *. exact (Ht _ _ Ep Hs).
      - rewrite nth_overflow in Hs by (apply nth_error_None; assumption). discriminate. }
    destruct (o_vol p2 =? 0).
    + destruct (IH _ _ _ _ _ _ _ _ _ H (rg_set_nth _ _ _ _ Ht Hp2)) as [T A]. split; [assumption|]. intros Ha. apply A. eapply rg_fill; eassumption.
    + injection H as <- <- _ _ _. split; [apply rg_set_nth; assumption | intros Ha; eapply rg_fill; eassumption].
Qed.

Lemma ref_arrive_rg tick r o r1 o1 :
  ref_arrive r o = (r1, o1) -> rg_tbl tick (r_orders r) -> rg tick o -> rg_tbl tick (r_orders r1) /\ rg tick o1.
Proof.
  unfold ref_arrive. intros H Ht Ho. destruct (r_trading r).
  - destruct (ref_match (r_t r) o (r_orders r) (rq r (opp (o_side o))) (r_trades r) (r_tvol r)) as [[[[a tb] oq] lg] tv] eqn:Em.
    destruct (ref_match_rg tick _ _ _ _ _ _ _ _ _ _ _ Em Ht) as [Ht' Ha].
    destruct (status_eqb (o_status a) SFilled); injection H as <- <-; (split; [|auto]); destruct (o_side o), (o_side a); cbn; assumption.
  - destruct (status_eqb (o_status o) SFilled); injection H as <- <-; (split; [|assumption]); destruct (o_side o); cbn; assumption.
Qed.

Definition tgrid (tick : N) (tb : list order) : Prop := forall i o, nth_error tb i = Some o -> on_grid tick o.

Lemma rg_not_active tick o : o_status o <> SActive -> rg tick o.
Proof. intros H C. contradiction. Qed.

Lemma ref_place_rg r id r2 :
  ref_place r id = Some r2 -> tgrid (r_tick r) (r_orders r) -> rg_tbl (r_tick r) (r_orders r) -> rg_tbl (r_tick r) (r_orders r2).
Proof.
  intros Hp Hg Ht. set (tick := r_tick r) in *.
  unfold ref_place in Hp. destruct (nth_error (r_orders r) id) as [o0|] eqn:Hn; [|discriminate].
  destruct (status_eqb (o_status o0) SNew) eqn:Es; cbn [negb] in Hp; [|injection Hp as <-; assumption].
  set (oa := set_arr (set_status o0 SActive) (r_t r)) in *.
  destruct (is_market oa) eqn:Em.
  - destruct (r_trading r).
    + destruct (ref_match _ _ _ _ _ _) as [[[[a tb] oq] lg] tv] eqn:Emt.
      destruct (ref_match_rg tick _ _ _ _ _ _ _ _ _ _ _ Emt Ht) as [Ht' _].
      injection Hp as <-. cbn [r_orders set_rorders]. rewrite r_orders_set_rq. cbn [r_orders].
      apply rg_set_nth; [assumption|].
      destruct (status_eqb (o_status a) SFilled) eqn:Ef; [apply status_eqb_eq in Ef|]; apply rg_not_active; [congruence | discriminate].
    + injection Hp as <-. cbn [r_orders set_rorders]. apply rg_set_nth; [assumption | apply rg_not_active; discriminate].
  - destruct (ref_arrive r oa) as [r1 o1] eqn:Ea.
    assert (Hoa : rg tick oa).
    { intros _. destruct (Hg _ _ Hn) as [G|[Gs Gp]]; [exact G|]. exfalso.
      unfold is_market in Em. cbn in Em. rewrite Gs, Gp in Em. discriminate. }
    destruct (ref_arrive_rg tick r oa r1 o1 Ea Ht Hoa) as [Ht1 Ho1].
    injection Hp as <-. cbn [r_orders set_rorders]. apply rg_set_nth; assumption.
Qed.

Lemma ref_cancel_rg tick r id r2 : ref_cancel r id = Some r2 -> rg_tbl tick (r_orders r) -> rg_tbl tick (r_orders r2).
Proof.
  intros Hp Ht. unfold ref_cancel in Hp. destruct (nth_error (r_orders r) id) as [o0|]; [|discriminate].
  destruct (status_eqb (o_status o0) SActive); injection Hp as <-; [|assumption].
  rewrite r_orders_set_rq. cbn [r_orders set_rorders]. apply rg_set_nth; [assumption | apply rg_not_active; discriminate].
Qed.

Lemma ref_modify_rg r id np nv r2 :
  ref_modify r id np nv = Some r2 -> rg_tbl (r_tick r) (r_orders r) -> rg_tbl (r_tick r) (r_orders r2).
Proof.
  intros Hp Ht. set (tick := r_tick r) in *.
  unfold ref_modify in Hp. destruct (nth_error (r_orders r) id) as [o0|] eqn:Hn; [|discriminate].
  destruct (match np with Some p => negb (p mod r_tick r =? 0) | None => false end) eqn:Egd; [injection Hp as <-; assumption|].
  destruct (status_eqb (o_status o0) SActive) eqn:Es; cbn [negb] in Hp; [|injection Hp as <-; assumption].
  apply status_eqb_eq in Es.
  assert (Hrep : forall p v, p mod tick = 0 -> rg_tbl tick (r_orders (ref_replace r id o0 p v))).
  { intros p v Hpm. unfold ref_replace.
    destruct (ref_arrive (set_rq r (o_side o0) (remove_id id (rq r (o_side o0)))) (set_price (set_vol o0 v) p)) as [r1 o1] eqn:Ea.
    destruct (ref_arrive_rg tick _ _ r1 o1 Ea) as [Ht1 Ho1]; [rewrite r_orders_set_rq; assumption | intros _; exact Hpm |].
    cbn [r_orders set_rorders]. apply rg_set_nth; assumption. }
  assert (Hown : o_price o0 mod tick = 0) by (apply (Ht _ _ Hn Es)).
  destruct np as [p|], nv as [v|]; try (injection Hp as <-); try assumption.
  - apply Hrep. fold tick in Egd. lia.
  - apply Hrep. fold tick in Egd. lia.
  - destruct (v <? o_vol o0); injection Hp as <-; [|apply Hrep; assumption].
    cbn [r_orders set_rorders]. apply rg_set_nth; [assumption | intros _; exact Hown].
Qed.

Lemma ref_create_rg r sd v tr p r1 c :
  ref_create r sd v tr p = (r1, c) -> tgrid (r_tick r) (r_orders r) -> rg_tbl (r_tick r) (r_orders r) ->
  r_tick r1 = r_tick r /\ tgrid (r_tick r) (r_orders r1) /\ rg_tbl (r_tick r) (r_orders r1).
Proof.
  intros E Hg Ht. unfold ref_create in E.
  assert (Hmk : forall px, on_grid (r_tick r) (mkOrder sd SNew (r_t r) MAXT v v px tr (length (r_orders r))) ->
            tgrid (r_tick r) (r_orders r ++ [mkOrder sd SNew (r_t r) MAXT v v px tr (length (r_orders r))]) /\
            rg_tbl (r_tick r) (r_orders r ++ [mkOrder sd SNew (r_t r) MAXT v v px tr (length (r_orders r))])).
  { intros px Hpx. split; intros i o Hi; (destruct (Nat.lt_ge_cases i (length (r_orders r))) as [Hlt|Hge];
      [rewrite nth_error_app1 in Hi by assumption; first [exact (Hg _ _ Hi) | exact (Ht _ _ Hi)] |
       rewrite nth_error_app2 in Hi by assumption; destruct (i - length (r_orders r))%nat as [|k]; [|destruct k; discriminate];
       cbn in Hi; injection Hi as <-]); [exact Hpx | apply rg_not_active; discriminate]. }
  destruct p as [p|]; [destruct (p mod r_tick r =? 0) eqn:Epm|]; injection E as <- _; cbn [r_orders set_rorders r_tick]; auto.
  - destruct (Hmk p) as [A B]; [left; cbn; lia | auto].
  - destruct (Hmk (match sd with Bid => MAXP | Ask => 0 end)) as [A B]; [|auto].
    destruct sd; [right; split; reflexivity | left; cbn; destruct (r_tick r); reflexivity].
Qed.

Theorem ref_step_rg r o r' x :
  ref_step r o = Some (r', x) -> tgrid (r_tick r) (r_orders r) -> rg_tbl (r_tick r) (r_orders r) -> rg_tbl (r_tick r) (r_orders r').
Proof.
  intros H Hg Ht. destruct o; cbn [ref_step] in H.
  - destruct (ref_create r sd vol trader price) as [r1 c] eqn:E. injection H as <- _. apply (ref_create_rg _ _ _ _ _ _ _ E Hg Ht).
  - destruct (ref_create r sd vol trader price) as [r1 c] eqn:E. destruct (ref_create_rg _ _ _ _ _ _ _ E Hg Ht) as (Et & Hg1 & Ht1).
    destruct c as [id|p t].
    + destruct (ref_place r1 id) as [r2|] eqn:Ep; [|discriminate]. cbn in H. injection H as <- _.
      rewrite <- Et in *. eapply ref_place_rg; eassumption.
    + injection H as <- _. assumption.
  - destruct (ref_place r id) as [r2|] eqn:Ep; [|discriminate]. cbn in H. injection H as <- _. eapply ref_place_rg; eassumption.
  - destruct (ref_cancel r id) as [r2|] eqn:Ep; [|discriminate]. cbn in H. injection H as <- _. eapply ref_cancel_rg; eassumption.
  - destruct (ref_modify r id new_price new_vol) as [r2|] eqn:Ep; [|discriminate]. cbn in H. injection H as <- _. eapply ref_modify_rg; eassumption.
  - destruct ev; cbn in H.
    + destruct (ref_place r id) as [r2|] eqn:Ep; [|discriminate]. cbn in H. injection H as <- _. eapply ref_place_rg; eassumption.
    + destruct (ref_cancel r id) as [r2|] eqn:Ep; [|discriminate]. cbn in H. injection H as <- _. eapply ref_cancel_rg; eassumption.
    + destruct (ref_modify r id new_price new_vol) as [r2|] eqn:Ep; [|discriminate]. cbn in H. injection H as <- _. eapply ref_modify_rg; eassumption.
  - injection H as <- _. assumption.
  - injection H as <- _. assumption.
  - injection H as <- _. assumption.
  - injection H as <- _. assumption.
  - injection H as <- _. assumption.
Qed.

(** ** The model: premises of the accounting theorem in every reachable state *)
Definition RInv (s : book) : Prop := Inv s /\ grid s /\ rg_tbl (b_tick s) (tbl s) /\ 0 < b_tick s.

Lemma tgrid_of_grid s : grid s -> tgrid (b_tick s) (tbl s).
Proof.
  unfold grid, tgrid, tbl. intros H i o Hi. rewrite nth_error_map in Hi.
  destruct (nth_error (b_orders s) i) as [e|] eqn:E; [|discriminate]. cbn in Hi. injection Hi as <-.
  rewrite Forall_forall in H. apply H. eapply nth_error_In; eassumption.
Qed.

Theorem step_rinv s o s' x : RInv s -> op_u32 o -> step s o = Ok (s', x) -> RInv s'.
Proof.
  intros (Hinv & Hg & Hr & Ht) Hu H. destruct (grid_step s o s' x Hg H) as [Hg' Etick].
  unfold step in H. destruct (step_raw s o) as [[s1 y]|] eqn:E; [|discriminate]. cbn [rbind] in H.
  destruct (bounded s1); [|discriminate]. injection H as <- <-.
  destruct (step_raw_inv_all s o s1 y Hinv Hu E) as [R Hinv'].
  pose proof (ref_step_rg (abs s) o (abs s1) y R (tgrid_of_grid s Hg) Hr) as Hr'. cbn [abs r_tick r_orders] in Hr'.
  unfold RInv. rewrite Etick. auto.
Qed.

Lemma RInv_new t0 tick tr s0 : book_new t0 tick tr = Ok s0 -> RInv s0.
Proof.
  intros H. pose proof (Inv_new _ _ _ _ H) as Hinv. unfold book_new in H. destruct (tick =? 0) eqn:E; [discriminate|]. injection H as <-.
  refine (conj Hinv (conj _ (conj _ _))).
  - constructor.
  - intros i o Hi. destruct i; discriminate.
  - cbn. lia.
Qed.

Lemma fmax_ge l o : In o l -> o_price o <= fold_right (fun o a => N.max (o_price o) a) 0 l.
Proof. induction l as [|x t IH]; intros H; [contradiction|]. cbn [fold_right]. destruct H as [->|H]; [lia | specialize (IH H); lia]. Qed.
Lemma fmin_le l o : In o l -> fold_right (fun o a => N.min (o_price o) a) MAXP l <= o_price o.
Proof. induction l as [|x t IH]; intros H; [contradiction|]. cbn [fold_right]. destruct H as [->|H]; [lia | specialize (IH H); lia]. Qed.
Lemma fmax_attained l : l <> [] -> exists o, In o l /\ fold_right (fun o a => N.max (o_price o) a) 0 l = o_price o.
Proof.
  induction l as [|x t IH]; intros H; [contradiction|]. cbn [fold_right]. destruct t as [|y t'].
  - exists x. split; [left; reflexivity | cbn; lia].
  - destruct IH as (o & Ho & Eo); [discriminate|]. rewrite Eo.
    destruct (N.le_gt_cases (o_price o) (o_price x)); [exists x; split; [left; reflexivity | lia] | exists o; split; [right; assumption | lia]].
Qed.
Lemma fmin_attained l : l <> [] -> (forall o, In o l -> o_price o <= MAXP) ->
  exists o, In o l /\ fold_right (fun o a => N.min (o_price o) a) MAXP l = o_price o.
Proof.
  induction l as [|x t IH]; intros H Hu; [contradiction|]. cbn [fold_right]. destruct t as [|y t'].
  - exists x. split; [left; reflexivity|]. cbn. pose proof (Hu x (or_introl eq_refl)). lia.
  - destruct IH as (o & Ho & Eo); [discriminate | intros z Hz; apply Hu; right; assumption|]. rewrite Eo.
    destruct (N.le_gt_cases (o_price x) (o_price o)); [exists x; split; [left; reflexivity | lia] | exists o; split; [right; assumption | lia]].
Qed.

Lemma multiple_of tick p : 0 < tick -> p mod tick = 0 -> exists a, p = a * tick.
Proof. intros Ht Hm. exists (p / tick). pose proof (N.div_mod p tick). lia. Qed.

Lemma rest_ok_state s sd : RInv s -> rest_ok sd (b_tick s) (touch sd (tbl s)) (resting sd (tbl s)).
Proof.
  intros ((Hq & _) & _ & Hr & Ht). destruct Hq as (_ & _ & Hwf & _).
  assert (Hmem : forall o, In o (resting sd (tbl s)) -> o_price o mod b_tick s = 0 /\ o_price o <= MAXP).
  { intros o Ho. unfold resting in Ho. apply filter_In in Ho. destruct Ho as [Hin Hb]. apply andb_prop in Hb. destruct Hb as [Hst _].
    apply status_eqb_eq in Hst. apply In_nth_error in Hin. destruct Hin as (i & Hi). split; [exact (Hr _ _ Hi Hst)|].
    unfold tbl in Hi. rewrite nth_error_map in Hi. destruct (nth_error (b_orders s) i) as [e|] eqn:E; [|discriminate]. cbn in Hi. injection Hi as <-.
    apply (Hwf _ _ E). }
  assert (Htch : forall o, In o (resting sd (tbl s)) -> touch sd (tbl s) mod b_tick s = 0).
  { intros o Ho. assert (Hne : resting sd (tbl s) <> []) by (intros C; rewrite C in Ho; contradiction).
    destruct sd; unfold touch, best_bid, best_ask.
    - destruct (fmax_attained _ Hne) as (z & Hz & ->). apply Hmem; assumption.
    - destruct (fmin_attained _ Hne (fun z Hz => proj2 (Hmem z Hz))) as (z & Hz & ->). apply Hmem; assumption. }
  constructor; [assumption | | | intros o Ho; apply Hmem; assumption |].
  - intros o Ho. destruct sd; unfold touch, best_bid, best_ask; [apply fmax_ge | apply fmin_le]; assumption.
  - intros o Ho. destruct (Hmem o Ho) as [Hm _]. destruct (multiple_of _ _ Ht Hm) as (b & Eb). destruct (multiple_of _ _ Ht (Htch o Ho)) as (a & Ea).
    destruct sd; [exists (a - b) | exists (b - a)]; rewrite Ea, Eb, N.mul_sub_distr_r; reflexivity.
  - destruct sd; unfold touch, best_bid, best_ask.
    + assert (G : forall l, (forall o, In o l -> o_price o <= MAXP) -> fold_right (fun o a => N.max (o_price o) a) 0 l <= MAXP).
      { induction l as [|x t IHl]; intros Hl; cbn [fold_right]; [unfold MAXP; lia|].
        pose proof (Hl x (or_introl eq_refl)). assert (fold_right (fun o a => N.max (o_price o) a) 0 t <= MAXP) by (apply IHl; intros; apply Hl; right; assumption). lia. }
      apply G. intros o Ho. apply Hmem; assumption.
    + assert (G : forall l, fold_right (fun o a => N.min (o_price o) a) MAXP l <= MAXP) by (induction l as [|x t IHl]; cbn [fold_right]; lia).
      apply G.
Qed.

(** the published levels account for all resting volume within their range *)
Theorem levels_account_state L s ob : RInv s -> observe L s = Ok ob ->
  sumfst (ob_bid_levels ob) =
    sum_vol (filter (fun o => in_levels Bid (b_tick s) L (ob_bid ob) (o_price o)) (resting Bid (ob_orders ob))) /\
  sumfst (ob_ask_levels ob) =
    sum_vol (filter (fun o => in_levels Ask (b_tick s) L (ob_ask ob) (o_price o)) (resting Ask (ob_orders ob))).
Proof.
  intros Hr H. pose proof Hr as ((Hq & Hv) & _). rewrite (observe_recomputed L s Hq Hv) in H.
  unfold ref_observe, ref_observe_tbl in H. cbn [abs r_t r_tick r_tvol r_orders r_trades] in H.
  destruct (ref_levels Bid (tbl s) (b_tick s) L) as [bl|] eqn:Eb; [|discriminate]. cbn [rbind] in H.
  destruct (ref_levels Ask (tbl s) (b_tick s) L) as [al|] eqn:Ea; [|discriminate]. cbn [rbind] in H.
  injection H as <-. cbn [ob_bid_levels ob_ask_levels ob_bid ob_ask ob_orders].
  split; [exact (levels_account Bid (tbl s) (b_tick s) L bl (rest_ok_state s Bid Hr) Eb) | exact (levels_account Ask (tbl s) (b_tick s) L al (rest_ok_state s Ask Hr) Ea)].
Qed.

Theorem run_rinv ops : forall s s' xs, RInv s -> Forall op_u32 ops -> run_outs s ops = Ok (s', xs) -> RInv s'.
Proof.
  induction ops as [|o r IH]; intros s s' xs Hinv Hu H; cbn in H.
  - injection H as <- _. assumption.
  - destruct (step s o) as [[s1 x]|] eqn:E; [|discriminate]. cbn in H.
    destruct (run_outs s1 r) as [[s2 xs2]|] eqn:E2; [|discriminate]. cbn in H. injection H as <- _.
    inversion Hu as [|? ? H1 H2]; subst. eapply IH; [eapply step_rinv; eassumption | eassumption | eassumption].
Qed.
