(** * C14, last clause: through a step of a multi-asset environment, each asset's book goes through
    exactly the history of a stand-alone book that is fed that asset's instructions - and only
    those - at the same times (the shared clock is set before every instruction of the batch,
    whichever asset it addresses) *)
From Bourse Require Import Model.Types Model.Map Model.Side Model.Book Model.Obs Model.Rng Model.Env
  Proofs.Basic Proofs.EnvProps.
From Coq Require Import ZifyBool ZifyNat ZifyN.

Local Arguments N.add : simpl never.
Local Arguments N.ltb : simpl never.

(** the stand-alone book: sees the clock of every instruction of the batch, executes only its own *)
Fixpoint asset_run (a : nat) (start i : N) (b : book) (q : list mevent) : res book :=
  match q with
  | [] => Ok b
  | e :: r =>
      let b0 := set_time b (start + i) in
      if Nat.eqb (mev_asset e) a
      then do b1 <- book_event b0 (mev_event e); asset_run a start (i + 1) b1 r
      else asset_run a start (i + 1) b0 r
  end.

Lemma nth_error_market_set_time m t a :
  nth_error (market_set_time m t) a = option_map (fun b => set_time b t) (nth_error m a).
Proof. unfold market_set_time. apply nth_error_map. Qed.

Theorem process_all_projects start a : forall q i m m' b,
  process_all start i m q = Ok m' -> nth_error m a = Some b ->
  exists b', nth_error m' a = Some b' /\ asset_run a start i b q = Ok b'.
Proof.
  induction q as [|e r IH]; intros i m m' b H Hb; cbn [process_all asset_run] in *.
  - injection H as <-. exists b; auto.
  - destruct (MAXT <? start + i); [discriminate|].
    destruct (market_process (market_set_time m (start + i)) e) as [m1|] eqn:E; [|discriminate]. cbn [rbind] in H.
    destruct (market_event_local _ _ _ E) as (_ & Hoth & b0 & b1 & Hb0 & Hev & Hb1).
    rewrite nth_error_market_set_time in Hb0.
    destruct (Nat.eqb (mev_asset e) a) eqn:Ea.
    + apply Nat.eqb_eq in Ea. subst a. rewrite Hb in Hb0. cbn [option_map] in Hb0. injection Hb0 as <-.
      rewrite Hev. cbn [rbind]. eapply IH; eassumption.
    + apply Nat.eqb_neq in Ea.
      assert (Hb' : nth_error m1 a = Some (set_time b (start + i))).
      { rewrite Hoth by (intros C; apply Ea; symmetry; exact C). rewrite nth_error_market_set_time, Hb. reflexivity. }
      eapply IH; eassumption.
Qed.

(** the whole step: reset the counter, run the batch, move the clock to the end of the step *)
Theorem step_projects L e g e' g' :
  menv_step L e g = Ok (e', g') ->
  exists start q g1, market_time (en_market e) = Ok start /\ shuffle (en_queue e) g = Some (q, g1) /\
    forall a b, nth_error (en_market e) a = Some b ->
      exists b1, asset_run a start 0 (reset_trade_vol b) q = Ok b1 /\
                 nth_error (en_market e') a = Some (set_time b1 (start + en_step e)).
Proof.
  intros H. unfold menv_step in H. destruct (market_time (en_market e)) as [start|] eqn:Et; [|discriminate]. cbn [rbind] in H.
  destruct (shuffle (en_queue e) g) as [[q g1]|] eqn:Es; [|discriminate].
  destruct (process_all start 0 (map reset_trade_vol (en_market e)) q) as [m1|] eqn:Ep; [|discriminate]. cbn [rbind] in H.
  destruct (MAXT <? start + en_step e); [discriminate|].
  destruct (all_l2 L (market_set_time m1 (start + en_step e))) as [l2|]; [|discriminate]. injection H as <- _. cbn [en_market].
  exists start, q, g1. repeat split; auto. intros a b Hb.
  assert (Hb0 : nth_error (map reset_trade_vol (en_market e)) a = Some (reset_trade_vol b)) by (rewrite nth_error_map, Hb; reflexivity).
  destruct (process_all_projects start a q 0 _ _ _ Ep Hb0) as (b1 & Hb1 & Hr).
  exists b1. split; [exact Hr|]. rewrite nth_error_market_set_time, Hb1. reflexivity.
Qed.

(** ** ... and that stand-alone run is an ordinary book history: a list of [set_time] and
    [process_event] operations through [Book.run], to which every book-level theorem applies *)
Fixpoint asset_ops (a : nat) (start i : N) (q : list mevent) : list op :=
  match q with
  | [] => []
  | e :: r =>
      OSetTime (start + i) ::
      (if Nat.eqb (mev_asset e) a then [OEvent (mev_event e)] else []) ++ asset_ops a start (i + 1) r
  end.

Lemma bounded_set_time b t : bounded (set_time b t) = bounded b.
Proof. reflexivity. Qed.

Lemma book_event_bounded b ev b' : book_event b ev = Ok b' -> bounded b' = true.
Proof.
  unfold book_event, step. intros H. destruct (step_raw b (OEvent ev)) as [[b1 y]|]; [|discriminate]. cbn [rbind] in H.
  destruct (bounded b1) eqn:E; [|discriminate]. cbn [rbind] in H. injection H as <-. exact E.
Qed.

Lemma book_event_is_step b ev b' : book_event b ev = Ok b' -> exists x, step b (OEvent ev) = Ok (b', x).
Proof.
  unfold book_event. intros H. destruct (step b (OEvent ev)) as [[b1 y]|]; [|discriminate]. cbn [rbind] in H.
  injection H as <-. exists y. reflexivity.
Qed.

Theorem asset_run_is_run a start : forall q i b b',
  bounded b = true -> asset_run a start i b q = Ok b' ->
  run b (asset_ops a start i q) = Ok b' /\ bounded b' = true.
Proof.
  induction q as [|e r IH]; intros i b b' Hb H; cbn [asset_run asset_ops run] in *.
  - injection H as <-. auto.
  - assert (Hst : step b (OSetTime (start + i)) = Ok (set_time b (start + i), ONone)).
    { unfold step. cbn [step_raw rbind]. rewrite bounded_set_time, Hb. reflexivity. }
    rewrite Hst. destruct (Nat.eqb (mev_asset e) a).
    + destruct (book_event (set_time b (start + i)) (mev_event e)) as [b1|] eqn:E; [|discriminate]. cbn [rbind] in H.
      destruct (book_event_is_step _ _ _ E) as (x & Hx). cbn [app run]. rewrite Hx.
      apply IH; [exact (book_event_bounded _ _ _ E) | exact H].
    + cbn [app]. apply IH; [rewrite bounded_set_time; exact Hb | exact H].
Qed.

Theorem step_projects_to_runs L e g e' g' :
  Forall (fun b => bounded b = true) (en_market e) ->
  menv_step L e g = Ok (e', g') ->
  exists start q g1, market_time (en_market e) = Ok start /\ shuffle (en_queue e) g = Some (q, g1) /\
    forall a b, nth_error (en_market e) a = Some b ->
      exists b1, run b (OResetTvol :: asset_ops a start 0 q) = Ok b1 /\
                 nth_error (en_market e') a = Some (set_time b1 (start + en_step e)).
Proof.
  intros Hbd H. destruct (step_projects L e g e' g' H) as (start & q & g1 & Et & Es & Hp).
  exists start, q, g1. repeat split; auto. intros a b Hb. destruct (Hp a b Hb) as (b1 & Hr & Hn).
  rewrite Forall_forall in Hbd. pose proof (Hbd b (nth_error_In _ _ Hb)) as Hbb.
  assert (Hb0 : bounded (reset_trade_vol b) = true).
  { unfold bounded in *. cbn. apply andb_true_iff in Hbb. destruct Hbb as [Hbb _]. rewrite Hbb. reflexivity. }
  destruct (asset_run_is_run a start q 0 _ _ Hb0 Hr) as [Hrun _].
  exists b1. split; [|exact Hn]. cbn [run]. unfold step. cbn [step_raw rbind]. rewrite Hb0. exact Hrun.
Qed.

(** [run] and [run_outs] (the same history, results collected) end in the same book *)
From Bourse Require Import Spec.RefBook Proofs.Refine Proofs.Volumes Proofs.Reload.

Lemma run_has_outs : forall ops b b', run b ops = Ok b' -> exists xs, run_outs b ops = Ok (b', xs).
Proof.
  induction ops as [|o r IH]; intros b b' H; cbn [run run_outs] in *.
  - injection H as <-. exists []. reflexivity.
  - destruct (step b o) as [[b1 x]|]; [|discriminate]. cbn [rbind].
    destruct (IH _ _ H) as (xs & Hx). rewrite Hx. cbn [rbind]. exists (x :: xs). reflexivity.
Qed.

(** so, for instance, priority (C01) holds asset by asset through a step: each asset's book after the
    step abstracts to what the reference engine makes of that asset's own instructions *)
Theorem step_refines_per_asset L e g e' g' :
  Forall Inv (en_market e) -> Forall (fun b => bounded b = true) (en_market e) ->
  Forall (fun ev => match ev with MModify _ _ (Some p) _ => p <= MAXP | _ => True end) (en_queue e) ->
  menv_step L e g = Ok (e', g') ->
  exists start q g1, market_time (en_market e) = Ok start /\ shuffle (en_queue e) g = Some (q, g1) /\
    forall a b, nth_error (en_market e) a = Some b ->
      exists b1 xs, ref_run_outs (abs b) (OResetTvol :: asset_ops a start 0 q) = Some (abs b1, xs) /\ Inv b1 /\
                    nth_error (en_market e') a = Some (set_time b1 (start + en_step e)).
Proof.
  intros Hinv Hbd Hq H. destruct (step_projects_to_runs L e g e' g' Hbd H) as (start & q & g1 & Et & Es & Hp).
  exists start, q, g1. repeat split; auto. intros a b Hb. destruct (Hp a b Hb) as (b1 & Hr & Hn).
  destruct (run_has_outs _ _ _ Hr) as (xs & Hx).
  rewrite Forall_forall in Hinv. pose proof (Hinv b (nth_error_In _ _ Hb)) as Hib.
  assert (Hu : Forall op_u32 (OResetTvol :: asset_ops a start 0 q)).
  { constructor; [exact I|].
    assert (Hq' : Forall (fun ev => match ev with MModify _ _ (Some p) _ => p <= MAXP | _ => True end) q).
    { pose proof (shuffle_is_permutation _ _ _ _ Es) as Pm. rewrite Forall_forall in *. intros x Hxin. apply Hq.
      eapply Permutation.Permutation_in; [apply Permutation.Permutation_sym; exact Pm | exact Hxin]. }
    clear - Hq'. generalize 0 as i. induction q as [|ev r IH]; intros i; cbn [asset_ops]; [constructor|].
    inversion Hq' as [|? ? H1 H2]; subst. constructor; [exact I|]. apply Forall_app. split; [|apply IH; exact H2].
    destruct (Nat.eqb (mev_asset ev) a); [|constructor]. constructor; [|constructor].
    destruct ev as [x y|x y|x y [p|] nv]; cbn; exact H1 || exact I. }
  destruct (run_inv_all _ _ _ _ Hib Hu Hx) as [R I1].
  exists b1, xs. auto.
Qed.

(** ** [bounded] (the u32 volume counters did not overflow) holds of every book of every reachable
    environment: each operation that can move a counter goes through [Book.step], which checks it *)
From Bourse Require Import Proofs.MarketInv.

Definition MBounded (m : market) : Prop := Forall (fun b => bounded b = true) m.

Lemma step_bounded b o b' x : step b o = Ok (b', x) -> bounded b' = true.
Proof.
  unfold step. intros H. destruct (step_raw b o) as [[b1 y]|]; [|discriminate]. cbn [rbind] in H.
  destruct (bounded b1) eqn:E; [|discriminate]. injection H as <- _. exact E.
Qed.

Lemma create_order_bounded b sd v tr p b' c : create_order b sd v tr p = (b', c) -> bounded b' = bounded b.
Proof.
  unfold create_order. intros H. destruct p as [p|]; [destruct (p mod b_tick b =? 0)|]; injection H as <- _; reflexivity.
Qed.

Lemma market_process_bounded m e m' : MBounded m -> market_process m e = Ok m' -> MBounded m'.
Proof.
  intros Hm H. unfold market_process in H. eapply (upd_nth_Forall (fun b => bounded b = true)); [|exact Hm|exact H].
  intros b b' _ Hx. exact (book_event_bounded _ _ _ Hx).
Qed.

Lemma process_all_bounded start : forall q i m m', MBounded m -> process_all start i m q = Ok m' -> MBounded m'.
Proof.
  induction q as [|e r IH]; intros i m m' Hm H; cbn [process_all] in H; [injection H as <-; assumption|].
  destruct (MAXT <? start + i); [discriminate|].
  destruct (market_process (market_set_time m (start + i)) e) as [m1|] eqn:E; [|discriminate]. cbn [rbind] in H.
  eapply IH; [|exact H]. eapply market_process_bounded; [|exact E].
  unfold MBounded, market_set_time. rewrite Forall_map. exact Hm.
Qed.

Theorem menv_apply_bounded L e g o e' g' x :
  MBounded (en_market e) -> menv_apply L e g o = Ok (e', g', x) -> MBounded (en_market e').
Proof.
  intros Hm H. destruct o; cbn [menv_apply] in H.
  - unfold menv_place in H. destruct (nth_error (en_market e) a) as [b|] eqn:Hb; [|discriminate].
    destruct (create_order b sd vol trader price) as [b' c] eqn:Hc. destruct c as [id|pp tt].
    + destruct (upd_nth (en_market e) a (fun _ => Ok b')) as [m'|] eqn:Hup; [|discriminate]. cbn in H. injection H as <- _ _.
      cbn [en_market push_event set_market].
      eapply (upd_nth_Forall (fun b => bounded b = true)); [|exact Hm|exact Hup]. intros y y' _ Hy. injection Hy as <-.
      rewrite (create_order_bounded _ _ _ _ _ _ _ Hc). unfold MBounded in Hm. rewrite Forall_forall in Hm. apply Hm. eapply nth_error_In; eassumption.
    + cbn in H. injection H as <- _ _. exact Hm.
  - injection H as <- _ _. exact Hm.
  - injection H as <- _ _. exact Hm.
  - destruct (menv_step L e g) as [[e1 g1]|] eqn:Es; [|discriminate]. cbn in H. injection H as <- _ _.
    unfold menv_step in Es. destruct (market_time (en_market e)) as [start|]; [|discriminate]. cbn [rbind] in Es.
    destruct (shuffle (en_queue e) g) as [[q g2]|]; [|discriminate].
    destruct (process_all start 0 (map reset_trade_vol (en_market e)) q) as [m1|] eqn:Ep; [|discriminate]. cbn [rbind] in Es.
    destruct (MAXT <? start + en_step e); [discriminate|].
    destruct (all_l2 L (market_set_time m1 (start + en_step e))) as [l2|]; [|discriminate]. injection Es as <- _. cbn [en_market].
    unfold MBounded, market_set_time. rewrite Forall_map. change (MBounded m1).
    eapply process_all_bounded; [|exact Ep]. unfold MBounded. rewrite Forall_map.
    eapply Forall_impl; [|exact Hm]. intros b Hb. unfold bounded in *. cbn. apply andb_true_iff in Hb. destruct Hb as [Hb _]. rewrite Hb. reflexivity.
  - injection H as <- _ _. cbn [en_market set_market]. unfold MBounded. rewrite Forall_map. exact Hm.
  - injection H as <- _ _. cbn [en_market set_market]. unfold MBounded. rewrite Forall_map. exact Hm.
  - destruct (nth_error (en_market e) a) as [b|] eqn:Hb; [|discriminate].
    destruct (step b o) as [[b' y]|] eqn:Es; [|discriminate]. cbn [rbind] in H.
    destruct (upd_nth (en_market e) a (fun _ => Ok b')) as [m'|] eqn:Hup; [|discriminate]. cbn in H. injection H as <- _ _.
    cbn [en_market set_market].
    eapply (upd_nth_Forall (fun b => bounded b = true)); [|exact Hm|exact Hup]. intros z z' _ Hz. injection Hz as <-.
    exact (step_bounded _ _ _ _ Es).
  - injection H as <- _ _. cbn [en_market set_market]. unfold MBounded, market_set_time. rewrite Forall_map. exact Hm.
  - injection H as <- _ _. cbn [en_market set_market]. unfold MBounded. rewrite Forall_map.
    eapply Forall_impl; [|exact Hm]. intros b Hb. unfold bounded in *. cbn. apply andb_true_iff in Hb. destruct Hb as [Hb _]. rewrite Hb. reflexivity.
Qed.

Lemma market_new_bounded t0 : forall ticks tr m, market_new t0 ticks tr = Ok m -> MBounded m.
Proof.
  induction ticks as [|tk r IH]; intros tr m H; cbn [market_new] in H; [injection H as <-; constructor|].
  destruct (book_new t0 tk tr) as [b|] eqn:Eb; [|discriminate]. cbn [rbind] in H.
  destruct (market_new t0 r tr) as [m1|] eqn:Em; [|discriminate]. cbn [rbind] in H. injection H as <-.
  constructor; [|eapply IH; exact Em].
  unfold book_new in Eb. destruct (tk =? 0); [discriminate|]. injection Eb as <-. reflexivity.
Qed.
