(** * C14, last clause: through a step of a multi-asset environment, each asset's book goes through
    exactly the history of a stand-alone book that is fed that asset's instructions - and only
    those - at the same times (the shared clock is set before every instruction of the batch,
    whichever asset it addresses) *)
From Bourse Require Import Model.Types Model.Map Model.Side Model.Book Model.Obs Model.Rng Model.Env
  Proofs.Basic Proofs.EnvProps.
From Coq Require Import ZifyBool ZifyNat ZifyN.

Local Arguments N.add : simpl never.
Local Arguments N.ltb : simpl never.

(** the stand-alone book: sees the clock of every instruction of the batch, executes only its own *)
Fixpoint asset_run (a : nat) (start i : N) (b : book) (q : list mevent) : res book :=
  match q with
  | [] => Ok b
  | e :: r =>
      let b0 := set_time b (start + i) in
      if Nat.eqb (mev_asset e) a
      then do b1 <- book_event b0 (mev_event e); asset_run a start (i + 1) b1 r
      else asset_run a start (i + 1) b0 r
  end.

Lemma nth_error_market_set_time m t a :
  nth_error (market_set_time m t) a = option_map (fun b => set_time b t) (nth_error m a).
Proof. unfold market_set_time. apply nth_error_map. Qed.

Theorem process_all_projects start a : forall q i m m' b,
  process_all start i m q = Ok m' -> nth_error m a = Some b ->
  exists b', nth_error m' a = Some b' /\ asset_run a start i b q = Ok b'.
Proof.
  induction q as [|e r IH]; intros i m m' b H Hb; cbn [process_all asset_run] in *.
  - injection H as <-. exists b; auto.
  - destruct (MAXT <? start + i); [discriminate|].
    destruct (market_process (market_set_time m (start + i)) e) as [m1|] eqn:E; [|discriminate]. cbn [rbind] in H.
    destruct (market_event_local _ _ _ E) as (_ & Hoth & b0 & b1 & Hb0 & Hev & Hb1).
    rewrite nth_error_market_set_time in Hb0.
    destruct (Nat.eqb (mev_asset e) a) eqn:Ea.
    + apply Nat.eqb_eq in Ea. subst a. rewrite Hb in Hb0. cbn [option_map] in Hb0. injection Hb0 as <-.
      rewrite Hev. cbn [rbind]. eapply IH; eassumption.
    + apply Nat.eqb_neq in Ea.
      assert (Hb' : nth_error m1 a = Some (set_time b (start + i))).
      { rewrite Hoth by (intros C; apply Ea; symmetry; exact C). rewrite nth_error_market_set_time, Hb. reflexivity. }
      eapply IH; eassumption.
Qed.

(** the whole step: reset the counter, run the batch, move the clock to the end of the step *)
Theorem step_projects L e g e' g' :
  menv_step L e g = Ok (e', g') ->
  exists start q g1, market_time (en_market e) = Ok start /\ shuffle (en_queue e) g = Some (q, g1) /\
    forall a b, nth_error (en_market e) a = Some b ->
      exists b1, asset_run a start 0 (reset_trade_vol b) q = Ok b1 /\
                 nth_error (en_market e') a = Some (set_time b1 (start + en_step e)).
Proof.
  intros H. unfold menv_step in H. destruct (market_time (en_market e)) as [start|] eqn:Et; [|discriminate]. cbn [rbind] in H.
  destruct (shuffle (en_queue e) g) as [[q g1]|] eqn:Es; [|discriminate].
  destruct (process_all start 0 (map reset_trade_vol (en_market e)) q) as [m1|] eqn:Ep; [|discriminate]. cbn [rbind] in H.
  destruct (MAXT <? start + en_step e); [discriminate|].
  destruct (all_l2 L (market_set_time m1 (start + en_step e))) as [l2|]; [|discriminate]. injection H as <- _. cbn [en_market].
  exists start, q, g1. repeat split; auto. intros a b Hb.
  assert (Hb0 : nth_error (map reset_trade_vol (en_market e)) a = Some (reset_trade_vol b)) by (rewrite nth_error_map, Hb; reflexivity).
  destruct (process_all_projects start a q 0 _ _ _ Ep Hb0) as (b1 & Hb1 & Hr).
  exists b1. split; [exact Hr|]. rewrite nth_error_market_set_time, Hb1. reflexivity.
Qed.
