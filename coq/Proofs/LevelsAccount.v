(** * The published per-level data accounts for all resting volume within its range *)
From Bourse Require Import Model.Types Model.Map Model.Side Model.Book Model.Obs Spec.RefBook Spec.Monitors
  Proofs.Basic Proofs.Refine Proofs.Volumes Proofs.Views.
From Coq Require Import ZifyBool ZifyNat ZifyN.

Local Arguments N.sub : simpl never.
Local Arguments N.add : simpl never.
Local Arguments N.mul : simpl never.
Local Arguments N.eqb : simpl never.
Local Arguments N.leb : simpl never.
Local Arguments N.ltb : simpl never.
Local Arguments N.modulo : simpl never.
Local Arguments N.of_nat : simpl never.

Definition sumfst (l : list (N * N)) : N := fold_right (fun x a => fst x + a) 0 l.

Lemma sum_vol_filter_split (f g h : order -> bool) l :
  (forall o, In o l -> f o = g o || h o /\ g o && h o = false) ->
  sum_vol (filter f l) = sum_vol (filter g l) + sum_vol (filter h l).
Proof.
  induction l as [|o t IH]; intros H; [reflexivity|]. cbn [filter].
  destruct (H o (or_introl eq_refl)) as [E D]. rewrite E.
  assert (IH' : sum_vol (filter f t) = sum_vol (filter g t) + sum_vol (filter h t)) by (apply IH; intros x Hx; apply H; right; assumption).
  destruct (g o), (h o); cbn [orb andb] in *; try discriminate; rewrite ?sum_vol_cons, IH'; lia.
Qed.

(** orders whose distance from the touch lies in the band of levels [i .. i+n) *)
Definition inband (sd : side) (tick tch : N) (i n : nat) (o : order) : bool :=
  match sd with
  | Bid => (o_price o <=? tch) && (N.of_nat i * tick <=? tch - o_price o) && (tch - o_price o <? N.of_nat (i + n) * tick)
  | Ask => (tch <=? o_price o) && (N.of_nat i * tick <=? o_price o - tch) && (o_price o - tch <? N.of_nat (i + n) * tick)
  end.

(** what is known about the resting orders of one side *)
Record rest_ok (sd : side) (tick tch : N) (R : list order) : Prop := mkRestOk {
  ro_tick : 0 < tick;
  ro_side : forall o, In o R -> match sd with Bid => o_price o <= tch | Ask => tch <= o_price o end;
  ro_grid : forall o, In o R -> exists j, match sd with Bid => tch - o_price o = j * tick | Ask => o_price o - tch = j * tick end;
  ro_u32 : forall o, In o R -> o_price o <= MAXP;
  ro_tch : tch <= MAXP }.

Lemma level_band sd tick tch R i p :
  rest_ok sd tick tch R -> level_price sd tch tick i = Ok p ->
  forall o, In o R ->
    inband sd tick tch i 1 o = (o_price o =? p) /\
    forall n, inband sd tick tch i (S n) o = (o_price o =? p) || inband sd tick tch (S i) n o /\
              (o_price o =? p) && inband sd tick tch (S i) n o = false.
Proof.
  intros [Ht Hs Hg Hu Htc] Hp o Ho. unfold level_price in Hp.
  destruct (W32 <=? N.of_nat i * tick) eqn:Ed; [discriminate|]. injection Hp as <-.
  specialize (Hs o Ho). destruct (Hg o Ho) as (j & Hj). specialize (Hu o Ho).
  assert (HW : W32 = 4294967296) by reflexivity. assert (HM : MAXP = 4294967295) by reflexivity.
  assert (Hsi : N.of_nat (S i) = N.of_nat i + 1) by lia.
  assert (Hband : forall n, N.of_nat (i + S n) = N.of_nat i + 1 + N.of_nat n /\ N.of_nat (S i + n) = N.of_nat i + 1 + N.of_nat n) by (intros; lia).
  set (d := N.of_nat i * tick) in *.
  destruct sd; unfold inband.
  - (* bids: the level price is tch - d, or wraps above the touch when d > tch *)
    assert (Hp : (tch + W32 - d) mod W32 = if d <=? tch then tch - d else tch + W32 - d).
    { destruct (d <=? tch) eqn:E.
      - replace (tch + W32 - d) with ((tch - d) + 1 * W32) by lia. rewrite N.mod_add by (rewrite HW; discriminate). apply N.mod_small. lia.
      - apply N.mod_small. lia. }
    rewrite Hp.
    assert (Hj1 : (j =? N.of_nat i) = (o_price o =? (if d <=? tch then tch - d else tch + W32 - d))).
    { destruct (d <=? tch) eqn:E; unfold d in *; nia. }
    split.
    + rewrite <- Hj1. destruct (Hband 0%nat) as [B _]. rewrite B. nia.
    + intros n. rewrite <- Hj1. destruct (Hband n) as [B1 B2]. rewrite B1, B2, Hsi. nia.
  - (* asks: the level price is tch + d, or wraps below the touch when tch + d >= 2^32 *)
    assert (Hp : (tch + d) mod W32 = if tch + d <? W32 then tch + d else tch + d - W32).
    { destruct (tch + d <? W32) eqn:E.
      - apply N.mod_small. lia.
      - assert (Hx : exists x, tch + d = x + 1 * W32 /\ x < W32) by (exists (tch + d - W32); lia).
        destruct Hx as (x & Ex & Lx). rewrite Ex, N.mod_add by (rewrite HW; discriminate). rewrite N.mod_small by assumption. lia. }
    rewrite Hp.
    assert (Hj1 : (j =? N.of_nat i) = (o_price o =? (if tch + d <? W32 then tch + d else tch + d - W32))).
    { destruct (tch + d <? W32) eqn:E; unfold d in *; nia. }
    split.
    + rewrite <- Hj1. destruct (Hband 0%nat) as [B _]. rewrite B. nia.
    + intros n. rewrite <- Hj1. destruct (Hband n) as [B1 B2]. rewrite B1, B2, Hsi. nia.
Qed.

Lemma go_account sd tbl tick : forall n i lv,
  rest_ok sd tick (touch sd tbl) (resting sd tbl) ->
  (fix go (i n : nat) : res (list (N * N)) :=
     match n with
     | O => Ok []
     | S n' =>
         do p <- level_price sd (touch sd tbl) tick i;
         do rest <- go (S i) n';
         Ok (vol_count_at sd tbl p :: rest)
     end) i n = Ok lv ->
  sumfst lv = sum_vol (filter (inband sd tick (touch sd tbl) i n) (resting sd tbl)).
Proof.
  induction n as [|n IH]; intros i lv Hok H.
  - injection H as <-. cbn [sumfst fold_right]. symmetry.
    assert (E : forall l, sum_vol (filter (inband sd tick (touch sd tbl) i 0) l) = 0).
    { induction l as [|o t IHl]; [reflexivity|]. cbn [filter].
      replace (inband sd tick (touch sd tbl) i 0 o) with false; [exact IHl|].
      unfold inband. rewrite Nat.add_0_r. destruct sd; lia. }
    apply E.
  - destruct (level_price sd (touch sd tbl) tick i) as [p|] eqn:Ep; [|discriminate]. cbn [rbind] in H.
    match type of H with (do rest <- ?G; _) = _ => destruct G as [rest|] eqn:Eg; [|discriminate] end.
    cbn [rbind] in H. injection H as <-. cbn [sumfst fold_right]. fold (sumfst rest).
    rewrite (IH (S i) rest Hok Eg).
    rewrite (sum_vol_filter_split (inband sd tick (touch sd tbl) i (S n)) (fun o => o_price o =? p) (inband sd tick (touch sd tbl) (S i) n)).
    + unfold vol_count_at, at_price. cbn [fst]. reflexivity.
    + intros o Ho. destruct (level_band sd tick _ _ i p Hok Ep o Ho) as [_ Hn]. exact (Hn n).
Qed.

Lemma inband_in_levels sd tick tch L o :
  inband sd tick tch 0 L o = in_levels sd tick L tch (o_price o).
Proof. unfold inband, in_levels. cbn [Nat.add]. destruct sd; lia. Qed.

Theorem levels_account sd tbl tick L lv :
  rest_ok sd tick (touch sd tbl) (resting sd tbl) ->
  ref_levels sd tbl tick L = Ok lv ->
  sumfst lv = sum_vol (filter (fun o => in_levels sd tick L (touch sd tbl) (o_price o)) (resting sd tbl)).
Proof.
  intros Hok H. unfold ref_levels in H. rewrite (go_account sd tbl tick L 0%nat lv Hok H).
  f_equal. apply filter_ext. intros o. apply inband_in_levels.
Qed.
