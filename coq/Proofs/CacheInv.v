(** * C10, second sentence: the level-2 snapshot an environment hands to agents equals the live
    books' level-2 data as of the end of the most recent step, or of construction - as an invariant
    of every environment operation *)
From Bourse Require Import Model.Types Model.Map Model.Side Model.Book Model.Obs Model.Rng Model.Env
  Proofs.Basic Proofs.EnvProps.

Ltac inv H := inversion H; subst; clear H.

(** the cache is the level-2 data of market [m0], whose books differ from the live ones only in
    their order lists and flags - to which level-2 data is blind *)
Definition CacheOk (L : nat) (e : menv) : Prop := all_l2 L (en_market e) = Ok (en_l2 e).

Lemma all_l2_pointwise L : forall m m',
  Forall2 (fun b b' => level_2_data L b' = level_2_data L b) m m' -> all_l2 L m' = all_l2 L m.
Proof.
  intros m m' H. induction H as [|b b' t t' Hb Ht IH]; [reflexivity|]. cbn [all_l2]. rewrite Hb, IH. reflexivity.
Qed.

Lemma Forall2_same {A} (R : A -> A -> Prop) : (forall x, R x x) -> forall l, Forall2 R l l.
Proof. intros H. induction l; constructor; auto. Qed.

Lemma upd_nth_Forall2_const {A} (R : A -> A -> Prop) (b' : A) : (forall x, R x x) ->
  forall l i l' b, nth_error l i = Some b -> R b b' -> upd_nth l i (fun _ => Ok b') = Ok l' -> Forall2 R l l'.
Proof.
  intros Hr. induction l as [|h t IH]; intros i l' b Hb Hbb H; [destruct i; discriminate|].
  destruct i as [|i]; cbn [upd_nth nth_error] in *.
  - inv Hb. cbn in H. inv H. constructor; [assumption | apply Forall2_same; assumption].
  - destruct (upd_nth t i (fun _ => Ok b')) as [t'|] eqn:E; [|discriminate]. cbn in H. inv H.
    constructor; [apply Hr | eapply IH; eassumption].
Qed.

Theorem cache_ok_new L t0 ticks step trading e : menv_new L t0 ticks step trading = Ok e -> CacheOk L e.
Proof.
  unfold menv_new, CacheOk. destruct (market_new t0 ticks trading) as [m|]; [|discriminate]. cbn [rbind].
  destruct (all_l2 L m) as [l2|] eqn:E; [|discriminate]. cbn [rbind]. intros H. inv H. exact E.
Qed.

(** every operation an environment offers: submit, cancel, modify, step, enable, disable *)
Definition env_op (o : eop) : Prop :=
  match o with EPlace _ _ _ _ _ | ECancel _ _ | EModify _ _ _ _ | EStep | EEnable | EDisable => True | _ => False end.

Theorem cache_ok_preserved L e g o e' g' x :
  env_op o -> CacheOk L e -> menv_apply L e g o = Ok (e', g', x) -> CacheOk L e'.
Proof.
  intros Ho Hc H. unfold CacheOk in *. destruct o; try contradiction; cbn [menv_apply] in H.
  - destruct (menv_place e a sd vol trader price) as [[e1 c]|] eqn:Ep; [|discriminate]. cbn in H. inv H.
    pose proof (submission_invisible _ _ _ _ _ _ _ _ Ep) as S. destruct S as (El & _ & _ & _ & Sc). rewrite El.
    destruct c as [id|pp tt]; [|rewrite Sc; exact Hc].
    rewrite <- Hc. apply all_l2_pointwise.
    unfold menv_place in Ep. destruct (nth_error (en_market e) a) as [b|] eqn:Hb; [|discriminate].
    destruct (create_order b sd vol trader price) as [b' c'] eqn:Hcr. destruct c' as [i|? ?]; [|inv Ep].
    destruct (upd_nth (en_market e) a (fun _ => Ok b')) as [m'|] eqn:Hu; [|discriminate]. cbn in Ep. inv Ep.
    cbn [en_market push_event set_market].
    eapply (upd_nth_Forall2_const (fun x y => level_2_data L y = level_2_data L x)); [reflexivity | exact Hb | | exact Hu].
    apply create_order_shape in Hcr. destruct Hcr as (ent & -> & _). apply level2_ignores_orders.
  - inv H. exact Hc.
  - inv H. exact Hc.
  - destruct (menv_step L e g) as [[e1 g1]|] eqn:Es; [|discriminate]. cbn in H. inv H.
    apply step_spec in Es. destruct Es as (start & q & m1 & l2 & _ & _ & _ & _ & _ & _ & _ & Hl & <- & _). exact Hl.
  - inv H. cbn [en_market en_l2 set_market]. rewrite <- Hc. apply all_l2_pointwise.
    clear. induction (en_market e); constructor; [apply level2_ignores_flag | assumption].
  - inv H. cbn [en_market en_l2 set_market]. rewrite <- Hc. apply all_l2_pointwise.
    clear. induction (en_market e); constructor; [apply level2_ignores_flag | assumption].
Qed.
