(** * Refinement: the book model implements the reference matching engine

   [abs] forgets keys, time-stamps and aggregates: each side's priority map is
   read as the list of its ids. Under the queue invariant [InvQ] every
   successful operation of the model is the reference engine's operation on
   the abstraction, and [InvQ] is preserved. No clock hypothesis is needed:
   [queue_order] keys every arrival behind the last order at its price. *)
From Bourse Require Import Model.Types Model.Map Model.Side Model.Book Model.Obs Spec.RefBook
  Proofs.Basic Proofs.MapLemmas.
From Coq Require Import ZifyBool ZifyNat ZifyN Sorting.Sorted.

Ltac inv H := inversion H; subst; clear H.
Ltac msplit := repeat match goal with |- _ /\ _ => split end.
Local Arguments N.sub : simpl never.
Local Arguments N.add : simpl never.
Local Arguments N.mul : simpl never.
Local Arguments N.leb : simpl never.
Local Arguments N.ltb : simpl never.
Local Arguments N.eqb : simpl never.
Local Arguments N.min : simpl never.

Definition tbl (s : book) : list order := map e_order (b_orders s).
Definition qof (x : sidest) : list nat := map snd (sd_orders x).

Definition abs (s : book) : rbook :=
  mkRef (b_t s) (b_tick s) (b_tvol s) (tbl s) (qof (b_bid s)) (qof (b_ask s)) (b_trades s) (b_trading s).

Lemma rq_abs s sd : rq (abs s) sd = qof (get_side s sd).
Proof. destruct sd; reflexivity. Qed.

(** ** The queue invariant *)
Definition entry_ok (orders : list entry) (sd : side) (x : key * nat) : Prop :=
  exists e, nth_error orders (snd x) = Some e /\ e_kside e = sd /\ e_kp e = fst (fst x) /\ e_kt e = snd (fst x) /\
            o_side (e_order e) = sd /\ o_status (e_order e) = SActive.

Definition side_ok (orders : list entry) (sd : side) (x : sidest) : Prop :=
  ksorted (sd_orders x) /\ Forall (entry_ok orders sd) (sd_orders x).

(** the stored key price is the transform of the order's price as long as the order can still be
    queued (a terminal order keeps whatever key it had last) *)
Definition live (st : status) : Prop := st = SNew \/ st = SActive.
Definition entry_wf (i : nat) (e : entry) : Prop :=
  o_id (e_order e) = i /\ e_kside e = o_side (e_order e) /\
  (live (o_status (e_order e)) -> e_kp e = kp_of (o_side (e_order e)) (o_price (e_order e))) /\
  o_price (e_order e) <= MAXP.
Definition table_wf (orders : list entry) : Prop :=
  forall i e, nth_error orders i = Some e -> entry_wf i e.

(** every Active order is queued on its side under its own key (except the
    order currently being processed, [ex]) *)
Definition complete (ex : option nat) (s : book) : Prop :=
  forall i e, nth_error (b_orders s) i = Some e -> o_status (e_order e) = SActive -> Some i <> ex ->
    In ((e_kp e, e_kt e), i) (sd_orders (get_side s (o_side (e_order e)))).

Definition InvQ (ex : option nat) (s : book) : Prop :=
  side_ok (b_orders s) Bid (b_bid s) /\ side_ok (b_orders s) Ask (b_ask s) /\
  table_wf (b_orders s) /\ complete ex s.

Lemma side_ok_get s sd : InvQ None s -> side_ok (b_orders s) sd (get_side s sd).
Proof. intros (Hb & Ha & _); destruct sd; assumption. Qed.

(** ids in a side's map are pairwise distinct *)
Lemma side_ok_nodup orders sd x : side_ok orders sd x -> NoDup (qof x).
Proof.
  unfold qof. intros [Hs Hf]. induction (sd_orders x) as [|[k id] t IH]; cbn; [constructor|].
  inv Hf. constructor; [|apply IH; [eapply ksorted_tail; eauto | assumption]].
  intros Hin. apply in_map_iff in Hin. destruct Hin as ([k2 id2] & E & Hin). cbn in E; subst id2.
  destruct H1 as (e & Hn & _ & Hp & Ht & _). cbn in *.
  rewrite Forall_forall in H2. destruct (H2 _ Hin) as (e2 & Hn2 & _ & Hp2 & Ht2 & _). cbn in *.
  rewrite Hn in Hn2; inv Hn2.
  assert (k = k2) by (destruct k, k2; cbn in *; congruence). subst k2.
  pose proof (ksorted_head _ _ _ Hs Hin) as C. cbn in C. rewrite klt_irrefl in C. discriminate.
Qed.

Lemma oget_tbl orders id e : nth_error orders id = Some e -> oget (map e_order orders) id = e_order e.
Proof.
  intros H. unfold oget. erewrite nth_indep; [|rewrite map_length; apply nth_error_Some; congruence].
  erewrite map_nth. erewrite nth_error_nth; eauto.
  Unshelve. exact e.
Qed.

(** ** Side operations on the priority map *)
Lemma sd_remove_orders ps kp kt v ps' :
  sd_remove ps kp kt v = Ok ps' -> sd_orders ps' = kremove (kp, kt) (sd_orders ps).
Proof.
  unfold sd_remove. destruct (vget kp (sd_volumes ps)) as [[v0 c0]|]; [|discriminate].
  destruct (csub v0 v); [|discriminate]. cbn. destruct (csub c0 1); [|discriminate]. cbn.
  destruct (csub (sd_vol ps) v); [|discriminate]. cbn. intros H; inv H. reflexivity.
Qed.

Lemma sd_remove_vol_orders ps kp v ps' :
  sd_remove_vol ps kp v = Ok ps' -> sd_orders ps' = sd_orders ps.
Proof.
  unfold sd_remove_vol. destruct (vget kp (sd_volumes ps)) as [[v0 c0]|]; [|discriminate].
  destruct (csub v0 v); [|discriminate]. cbn. destruct (csub (sd_vol ps) v); [|discriminate]. cbn.
  intros H; inv H. reflexivity.
Qed.

Lemma kremove_head k id t : kremove k ((k, id) :: t) = t.
Proof. cbn. rewrite (proj2 (keq_spec k k) eq_refl). reflexivity. Qed.

(** the loop guard is the reference engine's guard on the head of the queue *)
Lemma crosses_guard sd s agg k id t pe :
  sd_orders (get_side s (opp sd)) = (k, id) :: t ->
  entry_ok (b_orders s) (opp sd) (k, id) -> table_wf (b_orders s) ->
  nth_error (b_orders s) id = Some pe ->
  o_side agg = sd -> o_price agg <= MAXP ->
  crosses sd agg s = (0 <? o_vol agg) && admits agg (e_order pe).
Proof.
  intros Hq (e & Hn & _ & Hkp & _ & Hsd & Hact) Hwf Hpe Hs Hp. cbn in Hn. assert (e = pe) by congruence; subst e.
  destruct (Hwf _ _ Hpe) as (_ & _ & Hk & Hle). specialize (Hk (or_intror Hact)).
  unfold crosses, admits. f_equal. rewrite Hs.
  destruct sd; cbn in *.
  - (* bid aggressor against the ask side *)
    unfold best_price, sd_best_kp. rewrite Hq. cbn. rewrite Hsd in Hk. cbn in Hk. cbn in Hkp. rewrite <- Hkp, Hk. reflexivity.
  - unfold best_price, sd_best_kp. rewrite Hq. cbn. rewrite Hsd in Hk. cbn in Hk. cbn in Hkp. rewrite <- Hkp, Hk.
    unfold MAXP in *. destruct (o_price agg <=? 4294967295 - (4294967295 - o_price (e_order pe))) eqn:E1;
      destruct (o_price agg <=? o_price (e_order pe)) eqn:E2; try reflexivity; lia.
Qed.

(** ** The matching loop is [ref_match] *)

(** facts the loop preserves about the book outside the opposite side's queue *)
Record loop_frame (sd : side) (s s' : book) : Prop := mkFrame {
  fr_side : get_side s' sd = get_side s sd;
  fr_t : b_t s' = b_t s; fr_tick : b_tick s' = b_tick s; fr_trading : b_trading s' = b_trading s;
  fr_len : length (b_orders s') = length (b_orders s);
  fr_other : forall i, ~ In i (qof (get_side s (opp sd))) -> nth_error (b_orders s') i = nth_error (b_orders s) i }.

Lemma loop_frame_refl sd s : loop_frame sd s s.
Proof. constructor; auto. Qed.

Lemma entry_ok_other orders sd x id e' :
  entry_ok orders sd x -> snd x <> id -> entry_ok (set_nth orders id e') sd x.
Proof.
  intros (e & Hn & H) Hne. exists e. rewrite nth_error_set_nth_neq by auto. auto.
Qed.

Lemma table_wf_set orders id e e' :
  table_wf orders -> nth_error orders id = Some e -> entry_wf id e' -> table_wf (set_nth orders id e').
Proof.
  intros Hwf Hn He i x Hx. destruct (Nat.eq_dec id i) as [->|Hne].
  - rewrite nth_error_set_nth_eq in Hx by (apply nth_error_Some; congruence). inv Hx. assumption.
  - rewrite nth_error_set_nth_neq in Hx by auto. apply Hwf; assumption.
Qed.

Lemma match_orders_fields t a p a' p' tr v :
  match_orders t a p = (a', p', tr, v) ->
  o_side a' = o_side a /\ o_price a' = o_price a /\ o_id a' = o_id a /\
  o_side p' = o_side p /\ o_price p' = o_price p /\ o_id p' = o_id p.
Proof.
  unfold match_orders; intros H; inv H.
  repeat split; repeat match goal with |- context [if ?c then _ else _] => destruct c end; reflexivity.
Qed.

Lemma match_orders_status t a p a2 p2 tr v :
  o_status p = SActive -> match_orders t a p = (a2, p2, tr, v) ->
  status_eqb (o_status p2) SFilled = (o_vol p2 =? 0) /\
  ((o_vol p2 =? 0) = false -> o_vol a2 = 0) /\
  ((o_vol p2 =? 0) = false -> o_status p2 = SActive).
Proof.
  intros Hact H. unfold match_orders in H. inv H.
  cbn [o_vol set_vol].
  destruct (o_vol p - N.min (o_vol a) (o_vol p) =? 0) eqn:E1.
  - cbn [o_vol o_status set_status set_end set_vol status_eqb]. rewrite E1.
    msplit; [reflexivity | discriminate | discriminate].
  - cbn [o_vol o_status set_status set_end set_vol]. rewrite E1, Hact.
    msplit; [reflexivity | | reflexivity].
    intros _. destruct (o_vol a - N.min (o_vol a) (o_vol p) =? 0) eqn:E2;
      cbn [o_vol o_status set_status set_end set_vol]; lia.
Qed.

Theorem match_loop_refines sd : forall fuel s agg s' agg',
  side_ok (b_orders s) (opp sd) (get_side s (opp sd)) -> table_wf (b_orders s) ->
  side_eqb (o_side agg) sd = true -> o_price agg <= MAXP ->
  match_loop fuel sd s agg = Some (Ok (s', agg')) ->
  ref_match (b_t s) agg (tbl s) (qof (get_side s (opp sd))) (b_trades s) (b_tvol s)
    = (agg', tbl s', qof (get_side s' (opp sd)), b_trades s', b_tvol s') /\
  side_ok (b_orders s') (opp sd) (get_side s' (opp sd)) /\ table_wf (b_orders s') /\
  loop_frame sd s s' /\
  side_eqb (o_side agg') sd = true /\ o_price agg' = o_price agg /\ o_id agg' = o_id agg /\
  (* passive orders: whoever is still Active is still queued under its key; nobody becomes Active *)
  (forall i e', nth_error (b_orders s') i = Some e' -> o_status (e_order e') = SActive ->
                In i (qof (get_side s (opp sd))) ->
                In ((e_kp e', e_kt e'), i) (sd_orders (get_side s' (opp sd)))).
Proof.
  induction fuel as [|f IH]; intros s agg s' agg' Hok Hwf Hsd Hpr Hl; cbn [match_loop] in Hl; [discriminate|].
  destruct (match_iter sd s agg) as [| s1 a1 |] eqn:E; [| |discriminate].
  - (* the loop stops here *)
    inv Hl. msplit; auto using loop_frame_refl.
    + unfold match_iter in E.
      destruct (sd_orders (get_side s' (opp sd))) as [|[k id] t] eqn:Hq.
      * unfold qof. rewrite Hq. reflexivity.
      * unfold qof. rewrite Hq. cbn [map snd ref_match].
        destruct Hok as [Hs Hf]. rewrite Hq in Hf. inv Hf.
        pose proof H1 as Hent. destruct H1 as (e & Hn & _). cbn in Hn.
        rewrite (crosses_guard sd s' agg' k id t e Hq Hent Hwf Hn (proj1 (side_eqb_eq _ _) Hsd) Hpr) in E.
        change (oget (tbl s') id) with (oget (map e_order (b_orders s')) id). rewrite (oget_tbl _ _ _ Hn).
        destruct ((0 <? o_vol agg') && admits agg' (e_order e)) eqn:G; [|reflexivity].
        unfold sd_best_order_idx in E. rewrite Hq in E. rewrite Hn in E.
        destruct (match_orders (b_t s') agg' (e_order e)) as [[[x1 x2] x3] x4].
        destruct (if status_eqb (o_status x2) SFilled then _ else _); discriminate.
    + intros i e' Hn Hst Hin. destruct Hok as [Hs Hf]. rewrite Forall_forall in Hf.
      unfold qof in Hin. apply in_map_iff in Hin. destruct Hin as ([k id] & Ei & Hin). cbn in Ei; subst id.
      destruct (Hf _ Hin) as (e & Hn2 & _ & Hp & Ht & _). cbn in *. rewrite Hn in Hn2; inv Hn2.
      destruct k; cbn in *; subst; assumption.
  - (* one fill, then the rest of the loop *)
    pose proof E as Econt. apply match_iter_cont in E.
    destruct E as (id & pe & ps' & Hcr & Hbest & Hn & E).
    destruct (match_orders (b_t s) agg (e_order pe)) as [[[a2 p2] tr] v] eqn:Hm.
    destruct E as (Hrem & -> & ->).
    destruct (sd_orders (get_side s (opp sd))) as [|[k id0] t] eqn:Hq; [unfold sd_best_order_idx in Hbest; rewrite Hq in Hbest; discriminate|].
    unfold sd_best_order_idx in Hbest. rewrite Hq in Hbest. inv Hbest.
    destruct Hok as [Hs Hf]. rewrite Hq in Hs, Hf. pose proof Hf as Hf0. inv Hf.
    pose proof H1 as Hent. destruct H1 as (e & Hn' & Hks & Hkp & Hkt & Hside & Hact). cbn in Hn', Hkp, Hkt.
    assert (e = pe) by congruence; subst e.
    rewrite (crosses_guard sd s agg k id t pe Hq Hent Hwf Hn (proj1 (side_eqb_eq _ _) Hsd) Hpr) in Hcr.
    pose proof (match_orders_fields _ _ _ _ _ _ _ Hm) as (Fa1 & Fa2 & Fa3 & Fp1 & Fp2 & Fp3).
    (* unfold one step of the reference engine *)
    unfold qof at 1. rewrite Hq. cbn [map snd ref_match].
    change (oget (tbl s) id) with (oget (map e_order (b_orders s)) id). rewrite (oget_tbl _ _ _ Hn). rewrite Hcr, Hm.
    set (s1 := set_side (set_trades (set_orders s (set_nth (b_orders s) id (set_eorder pe p2)))
                  (b_trades s ++ [tr]) (b_tvol s + v)) (opp sd) ps') in *.
    assert (Horders1 : b_orders s1 = set_nth (b_orders s) id (set_eorder pe p2)) by (unfold s1; simp_side; reflexivity).
    assert (Htbl1 : tbl s1 = set_nth (tbl s) id p2) by (unfold tbl; rewrite Horders1, map_set_nth; reflexivity).
    assert (Hnd : ~ In id (map snd t)).
    { pose proof (side_ok_nodup (b_orders s) (opp sd) (mkSide 0 [] ((k, id) :: t)) (conj Hs Hf0)) as Hnd.
      unfold qof in Hnd. cbn in Hnd. inv Hnd. assumption. }
    assert (Hwf1 : table_wf (b_orders s1)).
    { rewrite Horders1. eapply table_wf_set; eauto.
      destruct (Hwf _ _ Hn) as (W1 & W2 & W3 & W4). unfold entry_wf. cbn. rewrite Fp1, Fp2, Fp3. msplit; auto.
      intros _. apply W3. right; exact Hact. }
    pose proof (match_orders_status _ _ _ _ _ _ _ Hact Hm) as (Hfilled & Hpart & Hp2act).
    rewrite Hfilled in Hrem.
    assert (Hfr_t : b_t s1 = b_t s /\ b_tick s1 = b_tick s /\ b_trading s1 = b_trading s /\ get_side s1 sd = get_side s sd
                    /\ get_side s1 (opp sd) = ps' /\ b_trades s1 = b_trades s ++ [tr]
                    /\ b_tvol s1 = b_tvol s + v).
    { unfold s1. simp_side. rewrite get_set_side_opp', get_set_side_same. cbn. repeat split; destruct sd; reflexivity. }
    destruct Hfr_t as (T1 & T2 & T3 & T4 & T5 & T6 & T7).
    destruct (o_vol p2 =? 0) eqn:Hz.
    + (* the head is exhausted: dropped, the loop goes on *)
      apply sd_remove_orders in Hrem. rewrite Hq in Hrem.
      replace (e_kp pe, e_kt pe) with k in Hrem by (destruct k; cbn in *; congruence).
      rewrite kremove_head in Hrem.
      assert (Hok1 : side_ok (b_orders s1) (opp sd) (get_side s1 (opp sd))).
      { rewrite T5. split; rewrite Hrem; [eapply ksorted_tail; eauto|].
        rewrite Horders1. rewrite Forall_forall in *. intros x Hx. apply entry_ok_other; [apply H2; assumption|].
        intros C. apply Hnd. rewrite <- C. apply in_map; assumption. }
      assert (Ha2 : side_eqb (o_side a2) sd = true /\ o_price a2 <= MAXP) by (rewrite Fa1, Fa2; auto).
      destruct Ha2 as [Ha2s Ha2p].
      specialize (IH s1 a2 s' agg' Hok1 Hwf1 Ha2s Ha2p Hl).
      destruct IH as (IHr & IHok & IHwf & IHfr & IHs & IHp & IHid & IHact).
      rewrite T1, Htbl1, T5, T6, T7 in IHr. unfold qof in IHr at 1. rewrite Hrem in IHr.
      msplit; [exact IHr | exact IHok | exact IHwf | | exact IHs | congruence | congruence | ].
      * destruct IHfr. constructor; try congruence; [rewrite fr_len0, Horders1; apply set_nth_length|].
        intros i Hi. rewrite fr_other0.
        -- rewrite Horders1. apply nth_error_set_nth_neq. intros C; subst i. apply Hi. unfold qof; rewrite Hq; left; reflexivity.
        -- rewrite T5. unfold qof. rewrite Hrem. intros C. apply Hi. unfold qof; rewrite Hq. right; assumption.
      * intros i e' Hn1 Hst Hin. unfold qof in Hin. rewrite Hq in Hin. cbn in Hin. destruct Hin as [<-|Hin].
        -- (* the exhausted head is Filled for good *)
           exfalso. destruct IHfr. rewrite fr_other0 in Hn1.
           ++ rewrite Horders1, nth_error_set_nth_eq in Hn1 by (apply nth_error_Some; congruence).
              injection Hn1 as He'. rewrite <- He' in Hst.
              cbn in Hst. apply status_eqb_eq in Hfilled. congruence.
           ++ rewrite T5. unfold qof. rewrite Hrem. exact Hnd.
        -- apply IHact; auto. rewrite T5. unfold qof. rewrite Hrem. assumption.
    + (* the head is only partly filled: the aggressor is exhausted and both stop *)
      apply sd_remove_vol_orders in Hrem.
      assert (Hv0 : o_vol a2 = 0) by (apply Hpart; reflexivity).
      assert (Hstop : match_iter sd s1 a2 = IDone).
      { unfold match_iter, crosses. rewrite Hv0. reflexivity. }
      destruct f as [|f']; cbn [match_loop] in Hl; [discriminate|]. rewrite Hstop in Hl. injection Hl as Es Ea. subst s' agg'.
      assert (Hok1 : side_ok (b_orders s1) (opp sd) (get_side s1 (opp sd))).
      { rewrite T5. split; rewrite Hrem, Hq; [assumption|].
        rewrite Horders1. constructor.
        - exists (set_eorder pe p2). cbn. rewrite nth_error_set_nth_eq by (apply nth_error_Some; congruence).
          rewrite Fp1. msplit; auto.
        - rewrite Forall_forall in *. intros x Hx. apply entry_ok_other; [apply H2; assumption|].
          intros C. apply Hnd. rewrite <- C. apply in_map; assumption. }
      rewrite Htbl1, T6, T7.
      replace (qof (get_side s1 (opp sd))) with (id :: map snd t) by (rewrite T5; unfold qof; rewrite Hrem, Hq; reflexivity).
      msplit; [reflexivity | exact Hok1 | exact Hwf1 | | rewrite Fa1; exact Hsd | exact Fa2 | exact Fa3 | ].
      * constructor; try congruence; [rewrite Horders1; apply set_nth_length|]. intros i Hi. rewrite Horders1. apply nth_error_set_nth_neq.
        intros C; subst i. apply Hi. unfold qof; rewrite Hq; left; reflexivity.
      * intros i e' Hn1 Hst Hin. rewrite T5, Hrem, Hq.
        destruct Hok1 as [_ Hf1]. rewrite T5, Hrem, Hq in Hf1. rewrite Forall_forall in Hf1.
        unfold qof in Hin. rewrite Hq in Hin. apply in_map_iff in Hin. destruct Hin as ([k2 i2] & Ei & Hin). cbn in Ei; subst i2.
        destruct (Hf1 _ Hin) as (e3 & Hn3 & _ & Hp3 & Ht3 & _). cbn [fst snd] in *.
        assert (e3 = e') by congruence. subst e3.
        destruct k2 as [kp2 kt2]; cbn [fst snd] in *. rewrite Hp3, Ht3. exact Hin.
Qed.

(** ** From the loop to whole operations *)
Lemma match_loop_status sd : forall fuel s a s' a',
  match_loop fuel sd s a = Some (Ok (s', a')) -> o_status a' = o_status a \/ o_status a' = SFilled.
Proof.
  intros fuel s a s' a' H.
  apply (match_loop_inv (fun _ x => o_status x = o_status a \/ o_status x = SFilled) sd) with (fuel:=fuel) (s:=s) (a:=a) (s':=s'); auto.
  intros s0 a0 s1 a1 Hi Hc. apply match_iter_cont in Hc.
  destruct Hc as (id & pe & ps' & _ & _ & _ & Hc).
  destruct (match_orders (b_t s0) a0 (e_order pe)) as [[[x1 x2] x3] x4] eqn:Hm. destruct Hc as (_ & -> & _).
  unfold match_orders in Hm. injection Hm as <- _ _ _.
  match goal with |- context [if ?c then _ else _] => destruct c end; cbn; auto.
Qed.

Lemma in_qof_side orders sd x i :
  side_ok orders sd x -> In i (qof x) ->
  exists e, nth_error orders i = Some e /\ o_side (e_order e) = sd /\ o_status (e_order e) = SActive /\
            In ((e_kp e, e_kt e), i) (sd_orders x).
Proof.
  intros [_ Hf] Hin. unfold qof in Hin. apply in_map_iff in Hin. destruct Hin as ([k j] & E & Hin). cbn in E; subst j.
  rewrite Forall_forall in Hf. destruct (Hf _ Hin) as (e & Hn & _ & Hp & Ht & Hs & Ha). cbn [fst snd] in *.
  exists e. msplit; auto. destruct k as [kp kt]; cbn [fst snd] in *. rewrite Hp, Ht. exact Hin.
Qed.

Lemma side_ok_frame orders orders' sd x :
  side_ok orders sd x -> (forall i, In i (qof x) -> nth_error orders' i = nth_error orders i) ->
  side_ok orders' sd x.
Proof.
  intros [Hs Hf] Hsame. split; [assumption|]. rewrite Forall_forall in *. intros y Hy.
  destruct (Hf _ Hy) as (e & Hn & H). exists e. rewrite Hsame; [auto|]. unfold qof. apply in_map; assumption.
Qed.

(** The matching phase of an arrival: it is [ref_match], and the queue invariant survives.
    [ex] is the order being processed when its table entry is still marked Active (re-pricing). *)
Lemma do_match_invq sd s o id ex s1 o1 :
  InvQ ex s -> (ex = None \/ ex = Some id) ->
  ~ In id (qof (get_side s (opp sd))) ->
  side_eqb (o_side o) sd = true -> o_price o <= MAXP ->
  do_match sd s o = Ok (s1, o1) ->
  ref_match (b_t s) o (tbl s) (qof (get_side s (opp sd))) (b_trades s) (b_tvol s)
    = (o1, tbl s1, qof (get_side s1 (opp sd)), b_trades s1, b_tvol s1) /\
  InvQ ex s1 /\ loop_frame sd s s1 /\
  side_eqb (o_side o1) sd = true /\ o_price o1 = o_price o /\ o_id o1 = o_id o /\
  (o_status o1 = o_status o \/ o_status o1 = SFilled).
Proof.
  intros (Hb & Ha & Hwf & Hc) Hex Hnot Hsd Hpr H. unfold do_match in H.
  destruct (match_loop (match_fuel s sd) sd s o) as [[[s1' o1']|]|] eqn:E; try discriminate. inv H.
  assert (Hopp : side_ok (b_orders s) (opp sd) (get_side s (opp sd))) by (destruct sd; assumption).
  assert (Hown : side_ok (b_orders s) sd (get_side s sd)) by (destruct sd; assumption).
  pose proof (match_loop_status _ _ _ _ _ _ E) as Hst.
  destruct (match_loop_refines sd _ _ _ _ _ Hopp Hwf Hsd Hpr E) as (R & Hok1 & Hwf1 & Hfr & Hs1 & Hp1 & Hi1 & Hact).
  msplit; auto.
  assert (Hown1 : side_ok (b_orders s1) sd (get_side s1 sd)).
  { destruct Hfr. rewrite fr_side0. eapply side_ok_frame; [exact Hown|].
    intros i Hi. apply fr_other0. intros C.
    destruct (in_qof_side _ _ _ _ Hown Hi) as (e1 & Hn1 & Hsd1 & _).
    destruct (in_qof_side _ _ _ _ Hopp C) as (e2 & Hn2 & Hsd2 & _).
    assert (e2 = e1) by congruence; subst e2. destruct sd; cbn in *; congruence. }
  split; [|split; [|split]].
  - destruct sd; assumption.
  - destruct sd; assumption.
  - assumption.
  - intros i e Hn Hact' Hne.
    destruct (in_dec Nat.eq_dec i (qof (get_side s (opp sd)))) as [Hin|Hnin].
    + (* a passive order of this arrival *)
      destruct (in_qof_side _ _ _ _ Hopp Hin) as (e0 & Hn0 & Hsd0 & _).
      assert (Hside : o_side (e_order e) = opp sd).
      { destruct (Hwf1 _ _ Hn) as (_ & _ & _ & _).
        (* sides never change: read it off the new side map *)
        pose proof (Hact _ _ Hn Hact' Hin) as Hin1.
        destruct Hok1 as [_ Hf1]. rewrite Forall_forall in Hf1. destruct (Hf1 _ Hin1) as (e3 & Hn3 & _ & _ & _ & Hs3 & _).
        cbn in Hn3. congruence. }
      rewrite Hside. apply Hact; assumption.
    + destruct Hfr. rewrite fr_other0 in Hn by assumption.
      pose proof (Hc _ _ Hn Hact' Hne) as Hin0.
      destruct (side_eqb (o_side (e_order e)) sd) eqn:Es.
      * apply side_eqb_eq in Es. rewrite Es in *. rewrite fr_side0. exact Hin0.
      * exfalso. apply Hnin. assert (o_side (e_order e) = opp sd) by (destruct (o_side (e_order e)), sd; cbn in *; congruence).
        rewrite H in Hin0. unfold qof. apply in_map_iff. exists ((e_kp e, e_kt e), i). auto.
Qed.

(** ** Queueing behind every order at a better or equal price *)
Lemma kinsert_ref tb o id kp kt l :
  (forall x, In x l -> better_eq o (oget tb (snd x)) = (fst (fst x) <=? kp) /\ (fst (fst x) = kp -> snd (fst x) < kt)) ->
  map snd (kinsert (kp, kt) id l) = ref_insert tb o id (map snd l).
Proof.
  induction l as [|[[kp' kt'] h] t IH]; intros H; cbn [kinsert map snd ref_insert]; [reflexivity|].
  destruct (H _ (or_introl eq_refl)) as [Hb Ht]. cbn [fst snd] in *.
  rewrite Hb. unfold klt, keq. cbn [fst snd].
  destruct (kp' <=? kp) eqn:E.
  - assert (Hlt : (kp <? kp') || (kp =? kp') && (kt <? kt') = false).
    { destruct (kp =? kp') eqn:E2; [assert (kp' = kp) by lia; specialize (Ht H0)|]; lia. }
    rewrite Hlt.
    assert (Heq : (kp =? kp') && (kt =? kt') = false).
    { destruct (kp =? kp') eqn:E2; [assert (kp' = kp) by lia; specialize (Ht H0)|]; lia. }
    rewrite Heq. cbn [map snd]. f_equal. apply IH. intros x Hx. apply H. right; assumption.
  - assert (Hlt : (kp <? kp') || (kp =? kp') && (kt <? kt') = true) by lia.
    rewrite Hlt. reflexivity.
Qed.

Lemma queue_time_later x kp t : ksorted (sd_orders x) ->
  forall t' v, In ((kp, t'), v) (sd_orders x) -> t' < queue_time x kp t.
Proof.
  intros Hs t' v Hin. unfold queue_time.
  destruct (klast_at kp (sd_orders x)) as [tl|] eqn:E.
  - pose proof (klast_at_max _ _ _ Hs E _ _ Hin). destruct (t <=? tl) eqn:E2; lia.
  - exfalso. eapply klast_at_none; eauto.
Qed.

Lemma better_eq_kp sd o h :
  o_side o = sd -> o_price o <= MAXP -> o_price h <= MAXP ->
  better_eq o h = (kp_of sd (o_price h) <=? kp_of sd (o_price o)).
Proof.
  intros Hs H1 H2. unfold better_eq. rewrite Hs. destruct sd; cbn [kp_of]; unfold MAXP in *.
  - destruct (o_price o <=? o_price h) eqn:E1; destruct (4294967295 - o_price h <=? 4294967295 - o_price o) eqn:E2; try reflexivity; lia.
  - reflexivity.
Qed.

Lemma In_kinsert_self k v l : In (k, v) (kinsert k v l).
Proof.
  induction l as [|[k' v'] t IH]; cbn; [auto|].
  destruct (klt k k'); [left; reflexivity|]. destruct (keq k k'); [left; reflexivity | right; assumption].
Qed.

Lemma sd_queue_refines orders sd x o id kp t vol x' kt :
  side_ok orders sd x -> table_wf orders ->
  o_side o = sd -> o_price o <= MAXP -> kp = kp_of sd (o_price o) ->
  sd_queue x kp t id vol = Ok (x', kt) ->
  qof x' = ref_insert (map e_order orders) o id (qof x) /\
  sd_orders x' = kinsert (kp, kt) id (sd_orders x) /\ ksorted (sd_orders x').
Proof.
  intros [Hs Hf] Hwf Hsd Hpr Hkp H. unfold sd_queue in H.
  destruct (MAXT <? queue_time x kp t); [discriminate|]. inv H.
  unfold sd_insert, qof. cbn [sd_orders]. msplit; [|reflexivity|apply kinsert_sorted; assumption].
  apply kinsert_ref. intros [[kp' kt'] h] Hin. cbn [fst snd].
  rewrite Forall_forall in Hf. destruct (Hf _ Hin) as (e & Hn & _ & Hp & Ht & Hside & Hact). cbn [fst snd] in *.
  destruct (Hwf _ _ Hn) as (_ & _ & Hk & Hle). specialize (Hk (or_intror Hact)).
  split.
  - rewrite (oget_tbl _ _ _ Hn). rewrite (better_eq_kp (o_side o) o (e_order e) eq_refl Hpr Hle).
    rewrite <- Hp, Hk, Hside. reflexivity.
  - intros ->. eapply queue_time_later; eauto.
Qed.

(** ** Writing the processed entry back *)
Lemma complete_entry_status s ex i e :
  complete ex s -> nth_error (b_orders s) i = Some e -> Some i <> ex -> o_status (e_order e) = SActive ->
  In i (qof (get_side s (o_side (e_order e)))).
Proof.
  intros Hc Hn Hne Ha. unfold qof. apply in_map_iff. exists ((e_kp e, e_kt e), i). split; [reflexivity|]. eapply Hc; eauto.
Qed.

Lemma writeback_unqueued s1 ex id e_old e1 :
  InvQ ex s1 -> (ex = None \/ ex = Some id) ->
  nth_error (b_orders s1) id = Some e_old ->
  ~ In id (qof (b_bid s1)) -> ~ In id (qof (b_ask s1)) ->
  entry_wf id e1 -> o_status (e_order e1) <> SActive ->
  InvQ None (set_orders s1 (set_nth (b_orders s1) id e1)).
Proof.
  intros (Hb & Ha & Hwf & Hc) Hex Hn Hnb Hna Hwf1 Hst.
  assert (Hsame : forall x, ~ In id (qof x) -> forall i, In i (qof x) -> nth_error (set_nth (b_orders s1) id e1) i = nth_error (b_orders s1) i).
  { intros x Hx i Hi. apply nth_error_set_nth_neq. intros C; subst i. contradiction. }
  unfold InvQ. cbn [b_orders b_bid b_ask set_orders]. msplit.
  - eapply side_ok_frame; [exact Hb | apply Hsame; assumption].
  - eapply side_ok_frame; [exact Ha | apply Hsame; assumption].
  - eapply table_wf_set; eauto.
  - intros i e Hi Hact _. cbn [b_orders set_orders] in Hi.
    destruct (Nat.eq_dec id i) as [->|Hne].
    + rewrite nth_error_set_nth_eq in Hi by (apply nth_error_Some; congruence). inv Hi. contradiction.
    + rewrite nth_error_set_nth_neq in Hi by assumption.
      assert (Hnex : Some i <> ex) by (destruct Hex as [->| ->]; congruence).
      pose proof (Hc _ _ Hi Hact Hnex) as Hin. destruct (o_side (e_order e)); exact Hin.
Qed.

Lemma In_kinsert_old k v l x : In x l -> fst x <> k -> In x (kinsert k v l).
Proof.
  induction l as [|[k' v'] t IH]; intros Hin Hne; [contradiction|]. cbn.
  destruct (klt k k'); [right; assumption|].
  destruct (keq k k') eqn:E.
  - apply keq_spec in E; subst k'. destruct Hin as [<-|Hin]; [cbn in Hne; contradiction | right; assumption].
  - destruct Hin as [<-|Hin]; [left; reflexivity | right; apply IH; assumption].
Qed.

Lemma writeback_queued s1 ex id e_old sd o1 kp kt x' :
  InvQ ex s1 -> (ex = None \/ ex = Some id) ->
  nth_error (b_orders s1) id = Some e_old ->
  ~ In id (qof (b_bid s1)) -> ~ In id (qof (b_ask s1)) ->
  entry_wf id (mkEntry o1 sd kp kt) -> o_status o1 = SActive -> o_side o1 = sd ->
  sd_orders x' = kinsert (kp, kt) id (sd_orders (get_side s1 sd)) ->
  (forall t' v, In ((kp, t'), v) (sd_orders (get_side s1 sd)) -> t' < kt) ->
  InvQ None (set_orders (set_side s1 sd x') (set_nth (b_orders (set_side s1 sd x')) id (mkEntry o1 sd kp kt))).
Proof.
  intros (Hb & Ha & Hwf & Hc) Hex Hn Hnb Hna Hwf1 Hst Hsd Hins Hlater.
  rewrite b_orders_set_side.
  set (orders' := set_nth (b_orders s1) id (mkEntry o1 sd kp kt)).
  assert (Hsame : forall x, ~ In id (qof x) -> forall i, In i (qof x) -> nth_error orders' i = nth_error (b_orders s1) i).
  { intros x Hx i Hi. apply nth_error_set_nth_neq. intros C; subst i. contradiction. }
  assert (Hown : side_ok (b_orders s1) sd (get_side s1 sd)) by (destruct sd; assumption).
  assert (Hnown : ~ In id (qof (get_side s1 sd))) by (destruct sd; assumption).
  assert (Hnew : side_ok orders' sd x').
  { destruct Hown as [Hs Hf]. split; rewrite Hins; [apply kinsert_sorted; assumption|].
    rewrite Forall_forall in *. intros y Hy. apply In_kinsert in Hy. destruct Hy as [->|Hy].
    - exists (mkEntry o1 sd kp kt). cbn. unfold orders'. rewrite nth_error_set_nth_eq by (apply nth_error_Some; congruence). msplit; auto.
    - apply entry_ok_other; [apply Hf; assumption|]. intros C. apply Hnown. rewrite <- C. unfold qof. apply in_map; assumption. }
  unfold InvQ. cbn [b_orders set_orders].
  assert (Hbid : b_bid (set_orders (set_side s1 sd x') orders') = match sd with Bid => x' | Ask => b_bid s1 end) by (destruct sd; reflexivity).
  assert (Hask : b_ask (set_orders (set_side s1 sd x') orders') = match sd with Ask => x' | Bid => b_ask s1 end) by (destruct sd; reflexivity).
  rewrite Hbid, Hask. msplit.
  - destruct sd; [exact Hnew | eapply side_ok_frame; [exact Hb | apply Hsame; assumption]].
  - destruct sd; [eapply side_ok_frame; [exact Ha | apply Hsame; assumption] | exact Hnew].
  - unfold orders'. eapply table_wf_set; eauto.
  - intros i e Hi Hact _. cbn [b_orders set_orders] in Hi.
    assert (Hgs : forall sd2, get_side (set_orders (set_side s1 sd x') orders') sd2 = if side_eqb sd2 sd then x' else get_side s1 sd2)
      by (intros sd2; destruct sd, sd2; reflexivity).
    rewrite Hgs.
    destruct (Nat.eq_dec id i) as [->|Hne].
    + unfold orders' in Hi. rewrite nth_error_set_nth_eq in Hi by (apply nth_error_Some; congruence). inv Hi. cbn.
      rewrite side_eqb_refl, Hins. apply In_kinsert_self.
    + unfold orders' in Hi. rewrite nth_error_set_nth_neq in Hi by assumption.
      assert (Hnex : Some i <> ex) by (destruct Hex as [->| ->]; congruence).
      pose proof (Hc _ _ Hi Hact Hnex) as Hin.
      destruct (side_eqb (o_side (e_order e)) sd) eqn:Es; [|exact Hin].
      apply side_eqb_eq in Es. rewrite Es in Hin. rewrite Hins. apply In_kinsert_old; [assumption|].
      cbn [fst]. intros C. injection C as C1 C2. specialize (Hlater (e_kt e) i). rewrite C1 in Hin. specialize (Hlater Hin). lia.
Qed.

(** ** Operations *)
Lemma not_active_not_queued orders sd x id e :
  side_ok orders sd x -> nth_error orders id = Some e -> o_status (e_order e) <> SActive -> ~ In id (qof x).
Proof.
  intros Hok Hn Hst Hin. destruct (in_qof_side _ _ _ _ Hok Hin) as (e2 & Hn2 & _ & Ha & _). congruence.
Qed.

Lemma wrong_side_not_queued orders sd x id e :
  side_ok orders sd x -> nth_error orders id = Some e -> o_side (e_order e) <> sd -> ~ In id (qof x).
Proof.
  intros Hok Hn Hst Hin. destruct (in_qof_side _ _ _ _ Hok Hin) as (e2 & Hn2 & Hs & _). congruence.
Qed.

Lemma abs_writeback s1 id e1 :
  abs (set_orders s1 (set_nth (b_orders s1) id e1)) = set_rorders (abs s1) (set_nth (tbl s1) id (e_order e1)).
Proof. unfold abs, tbl, set_rorders. cbn. rewrite map_set_nth. reflexivity. Qed.

Lemma abs_after_match sd s s1 :
  loop_frame sd s s1 ->
  abs s1 = set_rq (mkRef (b_t s) (b_tick s) (b_tvol s1) (tbl s1) (qof (b_bid s)) (qof (b_ask s)) (b_trades s1) (b_trading s))
             (opp sd) (qof (get_side s1 (opp sd))).
Proof.
  intros [F1 F2 F3 F4 _ _]. unfold abs. rewrite F2, F3, F4. destruct sd; cbn in *; rewrite F1; reflexivity.
Qed.

Lemma nth_error_tbl s id e : nth_error (b_orders s) id = Some e -> nth_error (tbl s) id = Some (e_order e).
Proof. intros H. unfold tbl. rewrite nth_error_map, H. reflexivity. Qed.

Lemma abs_set_side_own s sd x :
  abs (set_side s sd x) = set_rq (abs s) sd (qof x).
Proof. destruct sd; reflexivity. Qed.

Theorem place_order_refines s id s' :
  InvQ None s -> place_order s id = Ok s' ->
  ref_place (abs s) id = Some (abs s') /\ InvQ None s'.
Proof.
  intros Hinv H. pose proof Hinv as (Hb & Ha & Hwf & Hc).
  unfold place_order in H. destruct (nth_error (b_orders s) id) as [e|] eqn:Hn; [|discriminate].
  unfold ref_place, ref_arrive. cbn [r_orders r_t r_trades r_tvol r_trading r_tick r_bidq r_askq abs]. rewrite (nth_error_tbl _ _ _ Hn).
  destruct (negb (status_eqb (o_status (e_order e)) SNew)) eqn:Hnew.
  { inv H. auto. }
  assert (Hst : o_status (e_order e) = SNew) by (apply status_eqb_eq; destruct (status_eqb _ _); [reflexivity | discriminate]).
  destruct (Hwf _ _ Hn) as (Wid & Wks & Wkp & Wpr). specialize (Wkp (or_introl Hst)).
  set (o := set_arr (set_status (e_order e) SActive) (b_t s)) in *.
  set (sd := o_side o) in *.
  assert (Hsd : side_eqb (o_side o) sd = true) by apply side_eqb_refl.
  assert (Hopr : o_price o <= MAXP) by exact Wpr.
  assert (Hnb : ~ In id (qof (b_bid s))) by (eapply not_active_not_queued; eauto; congruence).
  assert (Hna : ~ In id (qof (b_ask s))) by (eapply not_active_not_queued; eauto; congruence).
  assert (Hnopp : ~ In id (qof (get_side s (opp sd)))) by (destruct (opp sd); assumption).
  change (match sd with Bid => o_price o =? MAXP | Ask => o_price o =? 0 end) with (is_market o) in H.
  destruct (is_market o) eqn:Hm.
  - (* market order *)
    unfold place_market in H. destruct (b_trading s) eqn:Htr.
    + cbn [e_order set_eorder] in H. destruct (do_match sd s o) as [[s1 o1]|] eqn:Hdm; [|discriminate].
      cbn in H.
      destruct (do_match_invq sd s o id None s1 o1 Hinv (or_introl eq_refl) Hnopp Hsd Hopr Hdm) as (R & Hinv1 & Hfr & Hs1 & Hp1 & Hi1 & Hst1).
      rewrite rq_abs. rewrite R.
      assert (Hn1 : nth_error (b_orders s1) id = Some e) by (destruct Hfr; rewrite fr_other0; assumption).
      pose proof Hinv1 as (Hb1 & Ha1 & Hwf1 & Hc1).
      assert (Hnb1 : ~ In id (qof (b_bid s1))) by (eapply not_active_not_queued; eauto; congruence).
      assert (Hna1 : ~ In id (qof (b_ask s1))) by (eapply not_active_not_queued; eauto; congruence).
      assert (Hwfo1 : forall st en, entry_wf id (set_eorder (set_eorder e o) (set_end (set_status o1 st) en))).
      { intros st en. unfold entry_wf. cbn. apply side_eqb_eq in Hs1. rewrite Hs1, Hp1, Hi1. unfold sd, o. cbn. msplit; auto. }
      assert (Hwfo1' : entry_wf id (set_eorder (set_eorder e o) o1)).
      { unfold entry_wf. cbn. apply side_eqb_eq in Hs1. rewrite Hs1, Hp1, Hi1. unfold sd, o. cbn. msplit; auto. }
      pose proof (abs_after_match sd s s1 Hfr) as Habs1. rewrite Htr in Habs1. rewrite <- Habs1.
      cbn [r_orders abs].
      destruct (status_eqb (o_status o1) SFilled) eqn:Hf1; inv H.
      * split; [rewrite abs_writeback; reflexivity|].
        eapply writeback_unqueued; eauto. cbn. apply status_eqb_eq in Hf1. congruence.
      * split; [rewrite abs_writeback; cbn [e_order set_eorder]; destruct Hfr; rewrite fr_t0; reflexivity|].
        eapply writeback_unqueued; eauto. cbn. congruence.
    + inv H. split.
      * rewrite abs_writeback. reflexivity.
      * eapply writeback_unqueued; eauto.
        -- unfold entry_wf. cbn. msplit; auto.
        -- cbn. congruence.
  - (* limit order *)
    unfold place_limit in H.
    assert (Hm1 : forall s1 o1, (if b_trading s then do_match sd s o else Ok (s, o)) = Ok (s1, o1) ->
        (if b_trading s then ref_match (b_t s) o (tbl s) (qof (get_side s (opp sd))) (b_trades s) (b_tvol s)
         else (o, tbl s, qof (get_side s (opp sd)), b_trades s, b_tvol s))
        = (o1, tbl s1, qof (get_side s1 (opp sd)), b_trades s1, b_tvol s1) /\
        InvQ None s1 /\ loop_frame sd s s1 /\ side_eqb (o_side o1) sd = true /\ o_price o1 = o_price o /\ o_id o1 = o_id o /\
        (o_status o1 = o_status o \/ o_status o1 = SFilled)).
    { intros s1 o1 Hx. destruct (b_trading s).
      - eapply do_match_invq; eauto.
      - inv Hx. msplit; auto using loop_frame_refl. }
    cbn [e_order set_eorder] in H.
    destruct (if b_trading s then do_match sd s o else Ok (s, o)) as [[s1 o1]|] eqn:Hdm; [|discriminate]. cbn in H.
    destruct (Hm1 _ _ eq_refl) as (R & Hinv1 & Hfr & Hs1 & Hp1 & Hi1 & Hst1).
    rewrite !rq_abs. rewrite R.
    assert (Hn1 : nth_error (b_orders s1) id = Some e) by (destruct Hfr; rewrite fr_other0; assumption).
    pose proof Hinv1 as (Hb1 & Ha1 & Hwf1 & Hc1).
    assert (Hnb1 : ~ In id (qof (b_bid s1))) by (eapply not_active_not_queued; eauto; congruence).
    assert (Hna1 : ~ In id (qof (b_ask s1))) by (eapply not_active_not_queued; eauto; congruence).
    apply side_eqb_eq in Hs1.
    assert (Hr1 : set_rq (mkRef (b_t s) (b_tick s) (b_tvol s1) (tbl s1) (qof (b_bid s)) (qof (b_ask s)) (b_trades s1) (b_trading s))
                    (opp sd) (qof (get_side s1 (opp sd))) = abs s1) by (symmetry; apply abs_after_match; assumption).
    rewrite Hr1.
    destruct (status_eqb (o_status o1) SFilled) eqn:Hf1.
    + inv H. split; [rewrite abs_writeback; reflexivity|].
      eapply writeback_unqueued; eauto.
      * unfold entry_wf. cbn. rewrite Hs1, Hp1, Hi1. unfold sd, o. cbn. msplit; auto.
      * cbn. apply status_eqb_eq in Hf1. congruence.
    + change (o_side (e_order e)) with sd in H.
      destruct (sd_queue (get_side s1 sd) (e_kp e) (b_t s1) (o_id o1) (o_vol o1)) as [[x' kt]|] eqn:Hq; [|cbn in H; discriminate]. cbn in H. injection H as <-.
      assert (Hown1 : side_ok (b_orders s1) sd (get_side s1 sd)) by (destruct sd; assumption).
      assert (Hkp : e_kp e = kp_of sd (o_price o1)) by (rewrite Hp1; exact Wkp).
      assert (Hpr1 : o_price o1 <= MAXP) by (rewrite Hp1; exact Wpr).
      destruct (sd_queue_refines (b_orders s1) sd (get_side s1 sd) o1 (o_id o1) (e_kp e) (b_t s1) (o_vol o1) x' kt Hown1 Hwf1 Hs1 Hpr1 Hkp Hq)
        as (Hqof & Hins & Hsorted).
      assert (Hact1 : o_status o1 = SActive).
      { destruct Hst1 as [Hx|Hx]; [rewrite Hx; reflexivity|]. rewrite Hx in Hf1. discriminate. }
      assert (Hid1 : o_id o1 = id) by (rewrite Hi1; exact Wid).
      rewrite Hid1 in *.
      split.
      * rewrite abs_writeback. cbn [e_order]. rewrite abs_set_side_own, rq_abs.
        change (o_side (e_order e)) with sd. rewrite Hqof.
        assert (Ht : tbl (set_side s1 sd x') = tbl s1) by (unfold tbl; rewrite b_orders_set_side; reflexivity).
        rewrite Ht. fold (tbl s1).
        assert (Hro : forall q, r_orders (set_rq (abs s1) sd q) = tbl s1) by (intros q; destruct sd; reflexivity).
        rewrite Hro. reflexivity.
      * eapply (writeback_queued s1 None id e sd o1 (e_kp e) kt x'); eauto.
        -- unfold entry_wf. cbn. rewrite Hs1, Hp1. msplit; auto.
        -- intros t' v Hin. unfold sd_queue in Hq. destruct (MAXT <? queue_time (get_side s1 sd) (e_kp e) (b_t s1)); [discriminate|].
           inv Hq. eapply queue_time_later; eauto. destruct Hown1; assumption.
Qed.

(** ** Creation *)
Lemma side_ok_app orders extra sd x : side_ok orders sd x -> side_ok (orders ++ extra) sd x.
Proof.
  intros Hok. eapply side_ok_frame; [exact Hok|]. intros i Hi.
  destruct (in_qof_side _ _ _ _ Hok Hi) as (e & Hn & _).
  rewrite nth_error_app1; [reflexivity | apply nth_error_Some; congruence].
Qed.

Theorem create_order_refines s sd v tr p s' c :
  InvQ None s -> (match p with Some p => p <= MAXP | None => True end) ->
  create_order s sd v tr p = (s', c) ->
  ref_create (abs s) sd v tr p = (abs s', c) /\ InvQ None s'.
Proof.
  intros (Hb & Ha & Hwf & Hc) Hp H. unfold create_order in H. unfold ref_create. cbn [r_orders r_tick r_t abs].
  assert (Hlen : length (tbl s) = length (b_orders s)) by (unfold tbl; apply map_length).
  assert (Hmk : forall px, px <= MAXP ->
     let o := mkOrder sd SNew (b_t s) MAXT v v px tr (length (b_orders s)) in
     let s1 := set_orders s (b_orders s ++ [mkEntry o sd (kp_of sd px) 0]) in
     set_rorders (abs s) (tbl s ++ [mkOrder sd SNew (b_t s) MAXT v v px tr (length (tbl s))]) = abs s1 /\ InvQ None s1).
  { intros px Hpx o s1. split.
    - unfold abs, set_rorders, tbl, s1. cbn. rewrite map_app, map_length. reflexivity.
    - unfold InvQ, s1. cbn [b_orders b_bid b_ask set_orders]. msplit.
      + apply side_ok_app; assumption.
      + apply side_ok_app; assumption.
      + intros i e Hi. destruct (Nat.lt_ge_cases i (length (b_orders s))) as [Hlt|Hge].
        * rewrite nth_error_app1 in Hi by assumption. apply Hwf; assumption.
        * rewrite nth_error_app2 in Hi by assumption.
          destruct (i - length (b_orders s))%nat as [|k] eqn:Ek; cbn in Hi; [|destruct k; discriminate].
          inv Hi. unfold entry_wf. cbn. msplit; auto. lia.
      + intros i e Hi Hact _. cbn [b_orders set_orders] in Hi.
        destruct (Nat.lt_ge_cases i (length (b_orders s))) as [Hlt|Hge].
        * rewrite nth_error_app1 in Hi by assumption.
          pose proof (Hc _ _ Hi Hact) as Hin. destruct (o_side (e_order e)); apply Hin; discriminate.
        * rewrite nth_error_app2 in Hi by assumption.
          destruct (i - length (b_orders s))%nat as [|k] eqn:Ek; cbn in Hi; [|destruct k; discriminate].
          inv Hi. cbn in Hact. discriminate. }
  destruct p as [p|].
  - destruct (p mod b_tick s =? 0).
    + inv H. destruct (Hmk p Hp) as [E1 E2]. rewrite E1. rewrite Hlen. auto.
    + inv H. split; [reflexivity | unfold InvQ; auto].
  - inv H. assert (Hpx : match sd with Bid => MAXP | Ask => 0 end <= MAXP) by (destruct sd; unfold MAXP; lia).
    destruct (Hmk _ Hpx) as [E1 E2]. rewrite E1. rewrite Hlen. auto.
Qed.

(** ** Cancellation *)
Lemma kremove_ref k id l :
  ksorted l -> NoDup (map snd l) -> In (k, id) l ->
  map snd (kremove k l) = remove_id id (map snd l).
Proof.
  induction l as [|[k' i'] t IH]; intros Hs Hnd Hin; [contradiction|]. cbn [kremove map snd remove_id].
  destruct Hin as [E|Hin].
  - inv E. rewrite (proj2 (keq_spec k k) eq_refl). rewrite Nat.eqb_refl. reflexivity.
  - assert (Hne : keq k k' = false).
    { destruct (keq k k') eqn:E; [|reflexivity]. apply keq_spec in E; subst k'.
      pose proof (ksorted_head _ _ _ Hs Hin) as C. cbn in C. rewrite klt_irrefl in C. discriminate. }
    rewrite Hne. inv Hnd.
    assert (Hni : Nat.eqb i' id = false).
    { apply Nat.eqb_neq. intros ->. apply H1. apply in_map_iff. exists (k, id); auto. }
    rewrite Hni. cbn [map snd]. f_equal. apply IH; [eapply ksorted_tail; eauto | assumption | assumption].
Qed.

Lemma In_kremove_other k l x : In x l -> fst x <> k -> In x (kremove k l).
Proof.
  induction l as [|[k' v'] t IH]; intros Hin Hne; [contradiction|]. cbn.
  destruct (keq k k') eqn:E.
  - apply keq_spec in E; subst k'. destruct Hin as [<-|Hin]; [cbn in Hne; contradiction | assumption].
  - destruct Hin as [<-|Hin]; [left; reflexivity | right; apply IH; assumption].
Qed.

(** removing the entry of [id] from its side: the queue loses [id] and nothing else *)
Lemma remove_own_entry s id e x' :
  InvQ None s -> nth_error (b_orders s) id = Some e -> o_status (e_order e) = SActive ->
  sd_orders x' = kremove (e_kp e, e_kt e) (sd_orders (get_side s (o_side (e_order e)))) ->
  qof x' = remove_id id (qof (get_side s (o_side (e_order e)))) /\
  InvQ (Some id) (set_side s (o_side (e_order e)) x') /\ ~ In id (qof x').
Proof.
  intros Hinv Hn Hact Hrem. pose proof Hinv as (Hb & Ha & Hwf & Hc).
  set (sd := o_side (e_order e)) in *.
  assert (Hown : side_ok (b_orders s) sd (get_side s sd)) by (destruct sd; assumption).
  assert (Hin : In ((e_kp e, e_kt e), id) (sd_orders (get_side s sd))) by (apply Hc; auto; discriminate).
  pose proof (side_ok_nodup _ _ _ Hown) as Hnd.
  destruct Hown as [Hs Hf].
  assert (Hq : qof x' = remove_id id (qof (get_side s sd))).
  { unfold qof. rewrite Hrem. apply kremove_ref; assumption. }
  assert (Hnot : forall y, In y (sd_orders x') -> snd y <> id).
  { intros [k2 i2] Hy C. cbn in C; subst i2. rewrite Hrem in Hy.
    pose proof (In_kremove _ _ _ Hy) as Hy0.
    rewrite Forall_forall in Hf. destruct (Hf _ Hy0) as (e2 & Hn2 & _ & Hp2 & Ht2 & _). cbn [fst snd] in *.
    assert (e2 = e) by congruence; subst e2.
    assert (k2 = (e_kp e, e_kt e)) by (destruct k2; cbn in *; congruence). subst k2.
    clear - Hy Hs. induction (sd_orders (get_side s sd)) as [|[k' v'] t IH]; cbn in Hy; [contradiction|].
    destruct (keq (e_kp e, e_kt e) k') eqn:E.
    - apply keq_spec in E; subst k'. pose proof (ksorted_head _ _ _ Hs Hy) as C. cbn in C. rewrite klt_irrefl in C. discriminate.
    - destruct Hy as [Hy|Hy]; [inv Hy; rewrite (proj2 (keq_spec _ _) eq_refl) in E; discriminate|].
      apply IH; [eapply ksorted_tail; eauto | assumption]. }
  msplit; [exact Hq | | ].
  - unfold InvQ. rewrite b_orders_set_side.
    assert (Hnew : side_ok (b_orders s) sd x').
    { split; rewrite Hrem; [apply kremove_sorted; assumption|].
      rewrite Forall_forall in *. intros y Hy. apply Hf. eapply In_kremove; eauto. }
    msplit.
    + destruct sd; [exact Hnew | exact Hb].
    + destruct sd; [exact Ha | exact Hnew].
    + exact Hwf.
    + intros i e2 Hi Hact2 Hne. rewrite b_orders_set_side in Hi.
      assert (Hne' : i <> id) by congruence.
      pose proof (Hc _ _ Hi Hact2) as Hin2.
      assert (Hgs : forall sd2, get_side (set_side s sd x') sd2 = if side_eqb sd2 sd then x' else get_side s sd2)
        by (intros sd2; destruct sd, sd2; reflexivity).
      rewrite Hgs. destruct (side_eqb (o_side (e_order e2)) sd) eqn:Es; [|apply Hin2; discriminate].
      apply side_eqb_eq in Es. rewrite Hrem. apply In_kremove_other; [rewrite <- Es; apply Hin2; discriminate|].
      cbn [fst]. intros C. injection C as C1 C2.
      assert (In ((e_kp e, e_kt e), i) (sd_orders (get_side s sd))) by (rewrite <- C1, <- C2, <- Es; apply Hin2; discriminate).
      apply Hne'. eapply ksorted_key_unique; eauto.
  - intros C. unfold qof in C. apply in_map_iff in C. destruct C as (y & Ey & Hy). apply (Hnot y Hy Ey).
Qed.

Theorem cancel_order_refines s id s' :
  InvQ None s -> cancel_order s id = Ok s' ->
  ref_cancel (abs s) id = Some (abs s') /\ InvQ None s'.
Proof.
  intros Hinv H. pose proof Hinv as (Hb & Ha & Hwf & Hc).
  unfold cancel_order in H. destruct (nth_error (b_orders s) id) as [e|] eqn:Hn; [|discriminate].
  unfold ref_cancel. cbn [r_orders r_t abs]. rewrite (nth_error_tbl _ _ _ Hn).
  destruct (status_eqb (o_status (e_order e)) SActive) eqn:Hst; [|inv H; auto].
  apply status_eqb_eq in Hst.
  destruct (Hwf _ _ Hn) as (Wid & Wks & Wkp & Wpr).
  rewrite Wks in H.
  destruct (sd_remove (get_side s (o_side (e_order e))) (e_kp e) (e_kt e)
              (o_vol (set_end (set_status (e_order e) SCancelled) (b_t s)))) as [x'|] eqn:Hr; [|discriminate].
  cbn in H. injection H as <-.
  apply sd_remove_orders in Hr.
  destruct (remove_own_entry s id e x' Hinv Hn Hst Hr) as (Hq & Hinv1 & Hnin).
  set (o1 := set_end (set_status (e_order e) SCancelled) (b_t s)).
  set (sd := o_side (e_order e)) in *.
  (* the model writes the entry first and the side afterwards; the two commute *)
  assert (Hcomm : set_side (set_orders s (set_nth (b_orders s) id (set_eorder e o1))) sd x'
                  = set_orders (set_side s sd x') (set_nth (b_orders (set_side s sd x')) id (set_eorder e o1))).
  { rewrite b_orders_set_side. destruct sd; reflexivity. }
  rewrite Hcomm. split.
  - rewrite abs_writeback, abs_set_side_own, rq_abs. cbn [e_order set_eorder]. rewrite Hq.
    assert (Ht : tbl (set_side s sd x') = tbl s) by (unfold tbl; rewrite b_orders_set_side; reflexivity).
    rewrite Ht. destruct sd; reflexivity.
  - assert (Hn' : nth_error (b_orders (set_side s sd x')) id = Some e) by (rewrite b_orders_set_side; exact Hn).
    pose proof Hinv1 as (Hb1 & Ha1 & _ & _).
    assert (Hnb : ~ In id (qof (b_bid (set_side s sd x')))).
    { unfold sd in *. destruct (o_side (e_order e)) eqn:Esd; cbn [b_bid set_side]; [exact Hnin|].
      eapply wrong_side_not_queued; [exact Hb | exact Hn | congruence]. }
    assert (Hna : ~ In id (qof (b_ask (set_side s sd x')))).
    { unfold sd in *. destruct (o_side (e_order e)) eqn:Esd; cbn [b_ask set_side]; [|exact Hnin].
      eapply wrong_side_not_queued; [exact Ha | exact Hn | congruence]. }
    eapply (writeback_unqueued (set_side s sd x') (Some id) id e); eauto.
    + unfold entry_wf. cbn. msplit; auto. intros [C|C]; discriminate.
    + cbn. discriminate.
Qed.

(** ** Re-entering an order as if newly arrived (used by modifications) *)
Lemma arrive_refines s0 ex id e_old sd o kp s2 e2 :
  InvQ ex s0 -> (ex = None \/ ex = Some id) ->
  nth_error (b_orders s0) id = Some e_old -> e_kside e_old = sd ->
  ~ In id (qof (b_bid s0)) -> ~ In id (qof (b_ask s0)) ->
  o_side o = sd -> o_price o <= MAXP -> o_id o = id -> o_status o = SActive -> kp = kp_of sd (o_price o) ->
  (do (s1, o1) <- (if b_trading s0 then do_match sd s0 o else Ok (s0, o));
   if status_eqb (o_status o1) SFilled then Ok (s1, set_eorder e_old o1)
   else do (sdst, kt) <- sd_queue (get_side s1 sd) kp (b_t s1) (o_id o1) (o_vol o1);
        Ok (set_side s1 sd sdst, mkEntry o1 sd kp kt)) = Ok (s2, e2) ->
  (let '(r1, o1') := ref_arrive (abs s0) o in set_rorders r1 (set_nth (r_orders r1) id o1'))
    = abs (set_orders s2 (set_nth (b_orders s2) id e2)) /\
  InvQ None (set_orders s2 (set_nth (b_orders s2) id e2)).
Proof.
  intros Hinv Hex Hn Hks Hnb Hna Hosd Hopr Hoid Host Hkp H. subst kp.
  assert (Hsd : side_eqb (o_side o) sd = true) by (rewrite Hosd; apply side_eqb_refl).
  assert (Hnopp : ~ In id (qof (get_side s0 (opp sd)))) by (destruct (opp sd); assumption).
  unfold ref_arrive. cbn [r_orders r_t r_trades r_tvol r_trading r_tick r_bidq r_askq abs]. rewrite Hosd.
  assert (Hm1 : forall s1 o1, (if b_trading s0 then do_match sd s0 o else Ok (s0, o)) = Ok (s1, o1) ->
      (if b_trading s0 then ref_match (b_t s0) o (tbl s0) (qof (get_side s0 (opp sd))) (b_trades s0) (b_tvol s0)
       else (o, tbl s0, qof (get_side s0 (opp sd)), b_trades s0, b_tvol s0))
      = (o1, tbl s1, qof (get_side s1 (opp sd)), b_trades s1, b_tvol s1) /\
      InvQ ex s1 /\ loop_frame sd s0 s1 /\ side_eqb (o_side o1) sd = true /\ o_price o1 = o_price o /\ o_id o1 = o_id o /\
      (o_status o1 = o_status o \/ o_status o1 = SFilled)).
  { intros s1 o1 Hx. destruct (b_trading s0).
    - eapply do_match_invq; eauto.
    - inv Hx. msplit; auto using loop_frame_refl. }
  destruct (if b_trading s0 then do_match sd s0 o else Ok (s0, o)) as [[s1 o1]|] eqn:Hdm; [|discriminate]. cbn in H.
  destruct (Hm1 _ _ eq_refl) as (R & Hinv1 & Hfr & Hs1 & Hp1 & Hi1 & Hst1).
  rewrite !rq_abs. rewrite R.
  assert (Hn1 : nth_error (b_orders s1) id = Some e_old) by (destruct Hfr; rewrite fr_other0; assumption).
  pose proof Hinv1 as (Hb1 & Ha1 & Hwf1 & Hc1).
  apply side_eqb_eq in Hs1.
  assert (Hown0 : get_side s1 sd = get_side s0 sd) by (destruct Hfr; assumption).
  assert (Hnown1 : ~ In id (qof (get_side s1 sd))) by (rewrite Hown0; destruct sd; assumption).
  assert (Hnopp1 : ~ In id (qof (get_side s1 (opp sd)))).
  { intros C. assert (Hok : side_ok (b_orders s1) (opp sd) (get_side s1 (opp sd))) by (destruct sd; assumption).
    destruct (in_qof_side _ _ _ _ Hok C) as (e3 & Hn3 & Hs3 & _). assert (e3 = e_old) by congruence; subst e3.
    pose proof Hinv as (_ & _ & Hwf0 & _). destruct (Hwf0 _ _ Hn) as (_ & Wks & _). rewrite Hks in Wks. rewrite <- Wks in Hs3.
    destruct sd; discriminate. }
  assert (Hnb1 : ~ In id (qof (b_bid s1))) by (destruct sd; assumption).
  assert (Hna1 : ~ In id (qof (b_ask s1))) by (destruct sd; assumption).
  assert (Hr1 : set_rq (mkRef (b_t s0) (b_tick s0) (b_tvol s1) (tbl s1) (qof (b_bid s0)) (qof (b_ask s0)) (b_trades s1) (b_trading s0))
                  (opp sd) (qof (get_side s1 (opp sd))) = abs s1) by (symmetry; apply abs_after_match; assumption).
  rewrite Hr1.
  destruct (status_eqb (o_status o1) SFilled) eqn:Hf1.
  - inv H. split; [rewrite abs_writeback; reflexivity|].
    eapply writeback_unqueued; eauto.
    + unfold entry_wf. cbn. rewrite Hs1, Hp1, Hi1. pose proof Hinv as (_ & _ & Hwf0 & _). destruct (Hwf0 _ _ Hn) as (_ & Wks & _). msplit; auto; try congruence.
      apply status_eqb_eq in Hf1. rewrite Hf1. intros [C|C]; discriminate.
    + cbn. apply status_eqb_eq in Hf1. congruence.
  - destruct (sd_queue (get_side s1 sd) (kp_of sd (o_price o)) (b_t s1) (o_id o1) (o_vol o1)) as [[x' kt]|] eqn:Hq; [|cbn in H; discriminate].
    cbn in H. injection H as <- <-.
    assert (Hown1 : side_ok (b_orders s1) sd (get_side s1 sd)) by (destruct sd; assumption).
    assert (Hkp1 : kp_of sd (o_price o) = kp_of sd (o_price o1)) by (rewrite Hp1; reflexivity).
    assert (Hpr1 : o_price o1 <= MAXP) by (rewrite Hp1; exact Hopr).
    destruct (sd_queue_refines (b_orders s1) sd (get_side s1 sd) o1 (o_id o1) (kp_of sd (o_price o)) (b_t s1) (o_vol o1) x' kt Hown1 Hwf1 Hs1 Hpr1 Hkp1 Hq)
      as (Hqof & Hins & Hsorted).
    assert (Hact1 : o_status o1 = SActive).
    { destruct Hst1 as [Hx|Hx]; [rewrite Hx; exact Host|]. rewrite Hx in Hf1. discriminate. }
    assert (Hid1 : o_id o1 = id) by congruence.
    rewrite Hid1 in *.
    split.
    + rewrite abs_writeback. cbn [e_order]. rewrite abs_set_side_own, rq_abs. rewrite Hqof.
      assert (Ht : tbl (set_side s1 sd x') = tbl s1) by (unfold tbl; rewrite b_orders_set_side; reflexivity).
      rewrite Ht. fold (tbl s1).
      assert (Hro : forall q, r_orders (set_rq (abs s1) sd q) = tbl s1) by (intros q; destruct sd; reflexivity).
      rewrite Hro. reflexivity.
    + eapply (writeback_queued s1 ex id e_old sd o1 (kp_of sd (o_price o)) kt x'); eauto.
      * unfold entry_wf. cbn. rewrite Hs1, Hp1. msplit; auto.
      * intros t' v Hin. unfold sd_queue in Hq. destruct (MAXT <? queue_time (get_side s1 sd) (kp_of sd (o_price o)) (b_t s1)); [discriminate|].
        inv Hq. eapply queue_time_later; eauto. destruct Hown1; assumption.
Qed.

(** ** Modification *)
Lemma set_orders_id s : set_orders s (b_orders s) = s.
Proof. destruct s; reflexivity. Qed.

Lemma replace_order_refines s id e p v s1 e1 :
  InvQ None s -> nth_error (b_orders s) id = Some e -> o_status (e_order e) = SActive -> p <= MAXP ->
  replace_order s e p v = Ok (s1, e1) ->
  ref_replace (abs s) id (e_order e) p v = abs (set_orders s1 (set_nth (b_orders s1) id e1)) /\
  InvQ None (set_orders s1 (set_nth (b_orders s1) id e1)).
Proof.
  intros Hinv Hn Hact Hp H. pose proof Hinv as (Hb & Ha & Hwf & Hc).
  destruct (Hwf _ _ Hn) as (Wid & Wks & Wkp & Wpr).
  unfold replace_order in H. rewrite Wks in H.
  set (sd := o_side (e_order e)) in *.
  destruct (sd_remove (get_side s sd) (e_kp e) (e_kt e) (o_vol (e_order e))) as [x0|] eqn:Hr; [|discriminate].
  cbn [rbind] in H. apply sd_remove_orders in Hr.
  destruct (remove_own_entry s id e x0 Hinv Hn Hact Hr) as (Hq & Hinv0 & Hnin).
  fold sd in Hq, Hinv0.
  set (s0 := set_side s sd x0) in *.
  set (o0 := set_price (set_vol (e_order e) v) p) in *.
  assert (Hn0 : nth_error (b_orders s0) id = Some e) by (unfold s0; rewrite b_orders_set_side; exact Hn).
  assert (Hnb : ~ In id (qof (b_bid s0))).
  { unfold s0, sd in *. destruct (o_side (e_order e)) eqn:Esd; cbn [b_bid set_side]; [exact Hnin|].
    eapply wrong_side_not_queued; [exact Hb | exact Hn | congruence]. }
  assert (Hna : ~ In id (qof (b_ask s0))).
  { unfold s0, sd in *. destruct (o_side (e_order e)) eqn:Esd; cbn [b_ask set_side]; [|exact Hnin].
    eapply wrong_side_not_queued; [exact Ha | exact Hn | congruence]. }
  assert (Habs0 : abs s0 = set_rq (abs s) sd (remove_id id (rq (abs s) sd))).
  { unfold s0. rewrite abs_set_side_own, rq_abs, Hq. reflexivity. }
  unfold ref_replace. fold sd. rewrite <- Habs0.
  change (set_price (set_vol (e_order e) v) p) with o0.
  assert (Hgoal := arrive_refines s0 (Some id) id e sd o0 (kp_of sd p) s1 e1 Hinv0 (or_intror eq_refl) Hn0 Wks Hnb Hna eq_refl Hp Wid Hact eq_refl).
  cbn [o_price set_price set_vol o0] in Hgoal.
  destruct (ref_arrive (abs s0) o0) as [r1 o1'].
  apply Hgoal. exact H.
Qed.

Theorem modify_order_refines s id np nv s' :
  InvQ None s -> (match np with Some p => p <= MAXP | None => True end) ->
  modify_order s id np nv = Ok s' ->
  ref_modify (abs s) id np nv = Some (abs s') /\ InvQ None s'.
Proof.
  intros Hinv Hp H. pose proof Hinv as (Hb & Ha & Hwf & Hc).
  unfold modify_order in H. destruct (nth_error (b_orders s) id) as [e|] eqn:Hn; [|discriminate].
  unfold ref_modify. cbn [r_orders r_tick abs]. rewrite (nth_error_tbl _ _ _ Hn).
  destruct (match np with Some p => negb (p mod b_tick s =? 0) | None => false end); [inv H; auto|].
  destruct (status_eqb (o_status (e_order e)) SActive) eqn:Hst; cbn [negb].
  2:{ cbn in H. injection H as <-. rewrite (set_nth_same _ _ _ Hn), set_orders_id. auto. }
  apply status_eqb_eq in Hst.
  destruct (Hwf _ _ Hn) as (Wid & Wks & Wkp & Wpr).
  destruct np as [p|], nv as [v|].
  - destruct (replace_order s e p v) as [[s1 e1]|] eqn:Hr; [|discriminate]. cbn in H. injection H as <-.
    destruct (replace_order_refines s id e p v s1 e1 Hinv Hn Hst Hp Hr) as [E I]. rewrite E. auto.
  - destruct (replace_order s e p (o_vol (e_order e))) as [[s1 e1]|] eqn:Hr; [|discriminate]. cbn in H. injection H as <-.
    destruct (replace_order_refines s id e p _ s1 e1 Hinv Hn Hst Hp Hr) as [E I]. rewrite E. auto.
  - destruct (v <? o_vol (e_order e)) eqn:Hv.
    + (* pure reduction: nothing but the volume changes *)
      unfold reduce_order_vol in H.
      destruct (csub (o_vol (e_order e)) (o_vol (e_order e) - v)) as [v'|] eqn:Hc1; [|discriminate]. cbn [rbind] in H.
      destruct (sd_remove_vol (get_side s (e_kside e)) (e_kp e) (o_vol (e_order e) - v)) as [x'|] eqn:Hr; [|discriminate].
      cbn in H. injection H as <-.
      apply sd_remove_vol_orders in Hr.
      assert (Hv' : v' = v). { unfold csub in Hc1. destruct (_ <=? _); inv Hc1. lia. }
      subst v'. rewrite b_orders_set_side.
      set (e1 := set_eorder e (set_vol (e_order e) v)).
      split.
      * unfold abs, tbl, set_rorders. cbn. rewrite map_set_nth. cbn.
        assert (Hqq : forall sd2, qof (get_side (set_side s (e_kside e) x') sd2) = qof (get_side s sd2)).
        { intros sd2. unfold qof. destruct (e_kside e), sd2; cbn; try rewrite Hr; reflexivity. }
        pose proof (Hqq Bid) as Q1. pose proof (Hqq Ask) as Q2. cbn in Q1, Q2. rewrite Q1, Q2.
        destruct (e_kside e); reflexivity.
      * (* the maps are unchanged; the entry keeps key, side and status *)
        assert (Hsame : forall sd2 x, side_ok (b_orders s) sd2 x -> side_ok (set_nth (b_orders s) id e1) sd2 x).
        { intros sd2 x [Hs Hf]. split; [assumption|]. rewrite Forall_forall in *. intros y Hy.
          destruct (Hf _ Hy) as (e2 & Hn2 & Hr2). destruct (Nat.eq_dec (snd y) id) as [Ey|Ney].
          - exists e1. rewrite Ey, nth_error_set_nth_eq by (apply nth_error_Some; congruence).
            rewrite Ey in Hn2. assert (e2 = e) by congruence; subst e2. unfold e1; cbn. auto.
          - exists e2. rewrite nth_error_set_nth_neq by auto. auto. }
        unfold InvQ. cbn [b_orders set_orders].
        assert (Hbb : sd_orders (b_bid (set_orders (set_side s (e_kside e) x') (set_nth (b_orders s) id e1))) = sd_orders (b_bid s))
          by (destruct (e_kside e); cbn; try rewrite Hr; reflexivity).
        assert (Haa : sd_orders (b_ask (set_orders (set_side s (e_kside e) x') (set_nth (b_orders s) id e1))) = sd_orders (b_ask s))
          by (destruct (e_kside e); cbn; try rewrite Hr; reflexivity).
        msplit.
        -- destruct (Hsame Bid _ Hb) as [S1 S2]. split; rewrite Hbb; assumption.
        -- destruct (Hsame Ask _ Ha) as [S1 S2]. split; rewrite Haa; assumption.
        -- eapply table_wf_set; eauto. unfold entry_wf, e1. cbn. auto.
        -- intros i e2 Hi Hact2 _. cbn [b_orders set_orders] in Hi.
           assert (Hgs : forall sd2, sd_orders (get_side (set_orders (set_side s (e_kside e) x') (set_nth (b_orders s) id e1)) sd2) = sd_orders (get_side s sd2))
             by (intros sd2; destruct sd2; cbn [get_side]; assumption).
           rewrite Hgs. destruct (Nat.eq_dec id i) as [->|Hne].
           ++ rewrite nth_error_set_nth_eq in Hi by (apply nth_error_Some; congruence). inv Hi. cbn.
              apply (Hc _ _ Hn Hst). discriminate.
           ++ rewrite nth_error_set_nth_neq in Hi by assumption. apply (Hc _ _ Hi Hact2). discriminate.
    + destruct (replace_order s e (o_price (e_order e)) v) as [[s1 e1]|] eqn:Hr; [|discriminate]. cbn in H. injection H as <-.
      destruct (replace_order_refines s id e _ v s1 e1 Hinv Hn Hst Wpr Hr) as [E I]. rewrite E. auto.
  - cbn in H. injection H as <-. rewrite (set_nth_same _ _ _ Hn), set_orders_id. auto.
Qed.

(** ** Every operation of the API, and every history *)
Definition op_u32 (o : op) : Prop :=
  match o with
  | OCreate _ _ _ (Some p) | OCreatePlace _ _ _ (Some p) | OModify _ (Some p) _ | OEvent (EvModify _ (Some p) _) => p <= MAXP
  | _ => True
  end.

Lemma InvQ_fields ex s s' :
  b_orders s' = b_orders s -> b_bid s' = b_bid s -> b_ask s' = b_ask s -> InvQ ex s -> InvQ ex s'.
Proof.
  intros E1 E2 E3 (Hb & Ha & Hwf & Hc). unfold InvQ. rewrite E1, E2, E3. msplit; auto.
  intros i e Hi Hact Hne. rewrite E1 in Hi. pose proof (Hc i e Hi Hact Hne) as Hin.
  destruct (o_side (e_order e)); cbn [get_side] in *; [rewrite E2 | rewrite E3]; exact Hin.
Qed.

Theorem step_raw_refines s o s' x :
  InvQ None s -> op_u32 o -> o <> OReload ->
  step_raw s o = Ok (s', x) ->
  ref_step (abs s) o = Some (abs s', x) /\ InvQ None s'.
Proof.
  intros Hinv Hu Hnr H. destruct o; cbn [step_raw] in H; cbn [ref_step].
  - destruct (create_order s sd vol trader price) as [s1 c] eqn:E. inv H.
    destruct (create_order_refines s sd vol trader price s' c Hinv) as [R I]; [destruct price; exact Hu | exact E |].
    rewrite R. auto.
  - unfold create_and_place_order in H.
    destruct (create_order s sd vol trader price) as [s1 c] eqn:E.
    destruct (create_order_refines s sd vol trader price s1 c Hinv) as [R I]; [destruct price; exact Hu | exact E |].
    rewrite R. destruct c as [id|p t].
    + destruct (place_order s1 id) as [s2|] eqn:Hp; [|discriminate]. cbn in H. inv H.
      destruct (place_order_refines s1 id s' I Hp) as [R2 I2]. rewrite R2. auto.
    + cbn in H. inv H. auto.
  - destruct (place_order s id) as [s1|] eqn:Hp; [|discriminate]. inv H.
    destruct (place_order_refines s id s' Hinv Hp) as [R I]. rewrite R. auto.
  - destruct (cancel_order s id) as [s1|] eqn:Hp; [|discriminate]. inv H.
    destruct (cancel_order_refines s id s' Hinv Hp) as [R I]. rewrite R. auto.
  - destruct (modify_order s id new_price new_vol) as [s1|] eqn:Hp; [|discriminate]. inv H.
    destruct (modify_order_refines s id new_price new_vol s' Hinv) as [R I]; [destruct new_price; exact Hu | exact Hp |].
    rewrite R. auto.
  - destruct (process_event s ev) as [s1|] eqn:Hp; [|discriminate]. inv H.
    destruct ev; cbn in Hp.
    + destruct (place_order_refines s id s' Hinv Hp) as [R I]. rewrite R. auto.
    + destruct (cancel_order_refines s id s' Hinv Hp) as [R I]. rewrite R. auto.
    + destruct (modify_order_refines s id new_price new_vol s' Hinv) as [R I]; [destruct new_price; exact Hu | exact Hp |].
      rewrite R. auto.
  - inv H. split; [reflexivity | eapply InvQ_fields; eauto].
  - inv H. split; [reflexivity | eapply InvQ_fields; eauto].
  - inv H. split; [reflexivity | eapply InvQ_fields; eauto].
  - inv H. split; [reflexivity | eapply InvQ_fields; eauto].
  - contradiction.
Qed.

Lemma InvQ_new t0 tick tr s0 : book_new t0 tick tr = Ok s0 -> InvQ None s0 /\ abs s0 = ref_new t0 tick tr.
Proof.
  unfold book_new. destruct (tick =? 0); [discriminate|]. intros H; inv H. split; [|reflexivity].
  unfold InvQ. cbn. msplit.
  - split; constructor.
  - split; constructor.
  - intros i e Hi. destruct i; discriminate.
  - intros i e Hi. destruct i; discriminate.
Qed.

(** whole histories, with the results returned along the way *)
Fixpoint run_outs (s : book) (ops : list op) : res (book * list out) :=
  match ops with
  | [] => Ok (s, [])
  | o :: r => do (s1, x) <- step s o; do (s2, xs) <- run_outs s1 r; Ok (s2, x :: xs)
  end.
Fixpoint ref_run_outs (r : rbook) (ops : list op) : option (rbook * list out) :=
  match ops with
  | [] => Some (r, [])
  | o :: rest =>
      match ref_step r o with
      | Some (r1, x) => match ref_run_outs r1 rest with Some (r2, xs) => Some (r2, x :: xs) | None => None end
      | None => None
      end
  end.

Theorem run_refines ops : forall s s' xs,
  InvQ None s -> Forall op_u32 ops -> ~ In OReload ops ->
  run_outs s ops = Ok (s', xs) ->
  ref_run_outs (abs s) ops = Some (abs s', xs) /\ InvQ None s'.
Proof.
  induction ops as [|o r IH]; intros s s' xs Hinv Hu Hnr H; cbn in H.
  - inv H. auto.
  - unfold step in H. destruct (step_raw s o) as [[s1 x]|] eqn:E; [|discriminate]. cbn in H.
    destruct (bounded s1); [|discriminate]. cbn in H.
    destruct (run_outs s1 r) as [[s2 xs2]|] eqn:E2; [|discriminate]. cbn in H. inv H.
    inv Hu. destruct (step_raw_refines s o s1 x Hinv H1) as [R I]; [intros C; apply Hnr; left; auto | exact E |].
    destruct (IH s1 s' xs2 I H2) as [R2 I2]; [intros C; apply Hnr; right; assumption | exact E2 |].
    cbn [ref_run_outs]. rewrite R, R2. auto.
Qed.
