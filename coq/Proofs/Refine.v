(** * Refinement: the book model implements the reference matching engine

   [abs] forgets keys, time-stamps and aggregates: each side's priority map is
   read as the list of its ids. Under the queue invariant [InvQ] every
   successful operation of the model is the reference engine's operation on
   the abstraction, and [InvQ] is preserved. No clock hypothesis is needed:
   [queue_order] keys every arrival behind the last order at its price. *)
From Bourse Require Import Model.Types Model.Map Model.Side Model.Book Model.Obs Spec.RefBook
  Proofs.Basic Proofs.MapLemmas.
From Coq Require Import ZifyBool ZifyNat ZifyN Sorting.Sorted.

Ltac inv H := inversion H; subst; clear H.
Ltac msplit := repeat match goal with |- _ /\ _ => split end.
Local Arguments N.sub : simpl never.
Local Arguments N.add : simpl never.
Local Arguments N.mul : simpl never.
Local Arguments N.leb : simpl never.
Local Arguments N.ltb : simpl never.
Local Arguments N.eqb : simpl never.
Local Arguments N.min : simpl never.

Definition tbl (s : book) : list order := map e_order (b_orders s).
Definition qof (x : sidest) : list nat := map snd (sd_orders x).

Definition abs (s : book) : rbook :=
  mkRef (b_t s) (b_tick s) (b_tvol s) (tbl s) (qof (b_bid s)) (qof (b_ask s)) (b_trades s) (b_trading s).

Lemma rq_abs s sd : rq (abs s) sd = qof (get_side s sd).
Proof. destruct sd; reflexivity. Qed.

(** ** The queue invariant *)
Definition entry_ok (orders : list entry) (sd : side) (x : key * nat) : Prop :=
  exists e, nth_error orders (snd x) = Some e /\ e_kside e = sd /\ e_kp e = fst (fst x) /\ e_kt e = snd (fst x) /\
            o_side (e_order e) = sd /\ o_status (e_order e) = SActive.

Definition side_ok (orders : list entry) (sd : side) (x : sidest) : Prop :=
  ksorted (sd_orders x) /\ Forall (entry_ok orders sd) (sd_orders x).

Definition entry_wf (i : nat) (e : entry) : Prop :=
  o_id (e_order e) = i /\ e_kside e = o_side (e_order e) /\
  e_kp e = kp_of (o_side (e_order e)) (o_price (e_order e)) /\ o_price (e_order e) <= MAXP.
Definition table_wf (orders : list entry) : Prop :=
  forall i e, nth_error orders i = Some e -> entry_wf i e.

(** every Active order is queued on its side under its own key (except the
    order currently being processed, [ex]) *)
Definition complete (ex : option nat) (s : book) : Prop :=
  forall i e, nth_error (b_orders s) i = Some e -> o_status (e_order e) = SActive -> Some i <> ex ->
    In ((e_kp e, e_kt e), i) (sd_orders (get_side s (o_side (e_order e)))).

Definition InvQ (ex : option nat) (s : book) : Prop :=
  side_ok (b_orders s) Bid (b_bid s) /\ side_ok (b_orders s) Ask (b_ask s) /\
  table_wf (b_orders s) /\ complete ex s.

Lemma side_ok_get s sd : InvQ None s -> side_ok (b_orders s) sd (get_side s sd).
Proof. intros (Hb & Ha & _); destruct sd; assumption. Qed.

(** ids in a side's map are pairwise distinct *)
Lemma side_ok_nodup orders sd x : side_ok orders sd x -> NoDup (qof x).
Proof.
  unfold qof. intros [Hs Hf]. induction (sd_orders x) as [|[k id] t IH]; cbn; [constructor|].
  inv Hf. constructor; [|apply IH; [eapply ksorted_tail; eauto | assumption]].
  intros Hin. apply in_map_iff in Hin. destruct Hin as ([k2 id2] & E & Hin). cbn in E; subst id2.
  destruct H1 as (e & Hn & _ & Hp & Ht & _). cbn in *.
  rewrite Forall_forall in H2. destruct (H2 _ Hin) as (e2 & Hn2 & _ & Hp2 & Ht2 & _). cbn in *.
  rewrite Hn in Hn2; inv Hn2.
  assert (k = k2) by (destruct k, k2; cbn in *; congruence). subst k2.
  pose proof (ksorted_head _ _ _ Hs Hin) as C. cbn in C. rewrite klt_irrefl in C. discriminate.
Qed.

Lemma oget_tbl orders id e : nth_error orders id = Some e -> oget (map e_order orders) id = e_order e.
Proof.
  intros H. unfold oget. erewrite nth_indep; [|rewrite map_length; apply nth_error_Some; congruence].
  erewrite map_nth. erewrite nth_error_nth; eauto.
  Unshelve. exact e.
Qed.

(** ** Side operations on the priority map *)
Lemma sd_remove_orders ps kp kt v ps' :
  sd_remove ps kp kt v = Ok ps' -> sd_orders ps' = kremove (kp, kt) (sd_orders ps).
Proof.
  unfold sd_remove. destruct (vget kp (sd_volumes ps)) as [[v0 c0]|]; [|discriminate].
  destruct (csub v0 v); [|discriminate]. cbn. destruct (csub c0 1); [|discriminate]. cbn.
  destruct (csub (sd_vol ps) v); [|discriminate]. cbn. intros H; inv H. reflexivity.
Qed.

Lemma sd_remove_vol_orders ps kp v ps' :
  sd_remove_vol ps kp v = Ok ps' -> sd_orders ps' = sd_orders ps.
Proof.
  unfold sd_remove_vol. destruct (vget kp (sd_volumes ps)) as [[v0 c0]|]; [|discriminate].
  destruct (csub v0 v); [|discriminate]. cbn. destruct (csub (sd_vol ps) v); [|discriminate]. cbn.
  intros H; inv H. reflexivity.
Qed.

Lemma kremove_head k id t : kremove k ((k, id) :: t) = t.
Proof. cbn. rewrite (proj2 (keq_spec k k) eq_refl). reflexivity. Qed.

(** the loop guard is the reference engine's guard on the head of the queue *)
Lemma crosses_guard sd s agg k id t pe :
  sd_orders (get_side s (opp sd)) = (k, id) :: t ->
  entry_ok (b_orders s) (opp sd) (k, id) -> table_wf (b_orders s) ->
  nth_error (b_orders s) id = Some pe ->
  o_side agg = sd -> o_price agg <= MAXP ->
  crosses sd agg s = (0 <? o_vol agg) && admits agg (e_order pe).
Proof.
  intros Hq (e & Hn & _ & Hkp & _ & Hsd & _) Hwf Hpe Hs Hp. cbn in Hn. assert (e = pe) by congruence; subst e.
  destruct (Hwf _ _ Hpe) as (_ & _ & Hk & Hle).
  unfold crosses, admits. f_equal. rewrite Hs.
  destruct sd; cbn in *.
  - (* bid aggressor against the ask side *)
    unfold best_price, sd_best_kp. rewrite Hq. cbn. rewrite Hsd in Hk. cbn in Hk. cbn in Hkp. rewrite <- Hkp, Hk. reflexivity.
  - unfold best_price, sd_best_kp. rewrite Hq. cbn. rewrite Hsd in Hk. cbn in Hk. cbn in Hkp. rewrite <- Hkp, Hk.
    unfold MAXP in *. destruct (o_price agg <=? 4294967295 - (4294967295 - o_price (e_order pe))) eqn:E1;
      destruct (o_price agg <=? o_price (e_order pe)) eqn:E2; try reflexivity; lia.
Qed.

(** ** The matching loop is [ref_match] *)

(** facts the loop preserves about the book outside the opposite side's queue *)
Record loop_frame (sd : side) (s s' : book) : Prop := mkFrame {
  fr_side : get_side s' sd = get_side s sd;
  fr_t : b_t s' = b_t s; fr_tick : b_tick s' = b_tick s; fr_trading : b_trading s' = b_trading s;
  fr_len : length (b_orders s') = length (b_orders s);
  fr_other : forall i, ~ In i (qof (get_side s (opp sd))) -> nth_error (b_orders s') i = nth_error (b_orders s) i }.

Lemma loop_frame_refl sd s : loop_frame sd s s.
Proof. constructor; auto. Qed.

Lemma entry_ok_other orders sd x id e' :
  entry_ok orders sd x -> snd x <> id -> entry_ok (set_nth orders id e') sd x.
Proof.
  intros (e & Hn & H) Hne. exists e. rewrite nth_error_set_nth_neq by auto. auto.
Qed.

Lemma table_wf_set orders id e e' :
  table_wf orders -> nth_error orders id = Some e -> entry_wf id e' -> table_wf (set_nth orders id e').
Proof.
  intros Hwf Hn He i x Hx. destruct (Nat.eq_dec id i) as [->|Hne].
  - rewrite nth_error_set_nth_eq in Hx by (apply nth_error_Some; congruence). inv Hx. assumption.
  - rewrite nth_error_set_nth_neq in Hx by auto. apply Hwf; assumption.
Qed.

Lemma match_orders_fields t a p a' p' tr v :
  match_orders t a p = (a', p', tr, v) ->
  o_side a' = o_side a /\ o_price a' = o_price a /\ o_id a' = o_id a /\
  o_side p' = o_side p /\ o_price p' = o_price p /\ o_id p' = o_id p.
Proof.
  unfold match_orders; intros H; inv H.
  repeat split; repeat match goal with |- context [if ?c then _ else _] => destruct c end; reflexivity.
Qed.

Lemma match_orders_status t a p a2 p2 tr v :
  o_status p = SActive -> match_orders t a p = (a2, p2, tr, v) ->
  status_eqb (o_status p2) SFilled = (o_vol p2 =? 0) /\
  ((o_vol p2 =? 0) = false -> o_vol a2 = 0) /\
  ((o_vol p2 =? 0) = false -> o_status p2 = SActive).
Proof.
  intros Hact H. unfold match_orders in H. inv H.
  cbn [o_vol set_vol].
  destruct (o_vol p - N.min (o_vol a) (o_vol p) =? 0) eqn:E1.
  - cbn [o_vol o_status set_status set_end set_vol status_eqb]. rewrite E1.
    msplit; [reflexivity | discriminate | discriminate].
  - cbn [o_vol o_status set_status set_end set_vol]. rewrite E1, Hact.
    msplit; [reflexivity | | reflexivity].
    intros _. destruct (o_vol a - N.min (o_vol a) (o_vol p) =? 0) eqn:E2;
      cbn [o_vol o_status set_status set_end set_vol]; lia.
Qed.

Theorem match_loop_refines sd : forall fuel s agg s' agg',
  side_ok (b_orders s) (opp sd) (get_side s (opp sd)) -> table_wf (b_orders s) ->
  side_eqb (o_side agg) sd = true -> o_price agg <= MAXP ->
  match_loop fuel sd s agg = Some (Ok (s', agg')) ->
  ref_match (b_t s) agg (tbl s) (qof (get_side s (opp sd))) (b_trades s) (b_tvol s)
    = (agg', tbl s', qof (get_side s' (opp sd)), b_trades s', b_tvol s') /\
  side_ok (b_orders s') (opp sd) (get_side s' (opp sd)) /\ table_wf (b_orders s') /\
  loop_frame sd s s' /\
  side_eqb (o_side agg') sd = true /\ o_price agg' = o_price agg /\ o_id agg' = o_id agg /\
  (* passive orders: whoever is still Active is still queued under its key; nobody becomes Active *)
  (forall i e', nth_error (b_orders s') i = Some e' -> o_status (e_order e') = SActive ->
                In i (qof (get_side s (opp sd))) ->
                In ((e_kp e', e_kt e'), i) (sd_orders (get_side s' (opp sd)))).
Proof.
  induction fuel as [|f IH]; intros s agg s' agg' Hok Hwf Hsd Hpr Hl; cbn [match_loop] in Hl; [discriminate|].
  destruct (match_iter sd s agg) as [| s1 a1 |] eqn:E; [| |discriminate].
  - (* the loop stops here *)
    inv Hl. msplit; auto using loop_frame_refl.
    + unfold match_iter in E.
      destruct (sd_orders (get_side s' (opp sd))) as [|[k id] t] eqn:Hq.
      * unfold qof. rewrite Hq. reflexivity.
      * unfold qof. rewrite Hq. cbn [map snd ref_match].
        destruct Hok as [Hs Hf]. rewrite Hq in Hf. inv Hf.
        pose proof H1 as Hent. destruct H1 as (e & Hn & _). cbn in Hn.
        rewrite (crosses_guard sd s' agg' k id t e Hq Hent Hwf Hn (proj1 (side_eqb_eq _ _) Hsd) Hpr) in E.
        change (oget (tbl s') id) with (oget (map e_order (b_orders s')) id). rewrite (oget_tbl _ _ _ Hn).
        destruct ((0 <? o_vol agg') && admits agg' (e_order e)) eqn:G; [|reflexivity].
        unfold sd_best_order_idx in E. rewrite Hq in E. rewrite Hn in E.
        destruct (match_orders (b_t s') agg' (e_order e)) as [[[x1 x2] x3] x4].
        destruct (if status_eqb (o_status x2) SFilled then _ else _); discriminate.
    + intros i e' Hn Hst Hin. destruct Hok as [Hs Hf]. rewrite Forall_forall in Hf.
      unfold qof in Hin. apply in_map_iff in Hin. destruct Hin as ([k id] & Ei & Hin). cbn in Ei; subst id.
      destruct (Hf _ Hin) as (e & Hn2 & _ & Hp & Ht & _). cbn in *. rewrite Hn in Hn2; inv Hn2.
      destruct k; cbn in *; subst; assumption.
  - (* one fill, then the rest of the loop *)
    pose proof E as Econt. apply match_iter_cont in E.
    destruct E as (id & pe & ps' & Hcr & Hbest & Hn & E).
    destruct (match_orders (b_t s) agg (e_order pe)) as [[[a2 p2] tr] v] eqn:Hm.
    destruct E as (Hrem & -> & ->).
    destruct (sd_orders (get_side s (opp sd))) as [|[k id0] t] eqn:Hq; [unfold sd_best_order_idx in Hbest; rewrite Hq in Hbest; discriminate|].
    unfold sd_best_order_idx in Hbest. rewrite Hq in Hbest. inv Hbest.
    destruct Hok as [Hs Hf]. rewrite Hq in Hs, Hf. pose proof Hf as Hf0. inv Hf.
    pose proof H1 as Hent. destruct H1 as (e & Hn' & Hks & Hkp & Hkt & Hside & Hact). cbn in Hn', Hkp, Hkt.
    assert (e = pe) by congruence; subst e.
    rewrite (crosses_guard sd s agg k id t pe Hq Hent Hwf Hn (proj1 (side_eqb_eq _ _) Hsd) Hpr) in Hcr.
    pose proof (match_orders_fields _ _ _ _ _ _ _ Hm) as (Fa1 & Fa2 & Fa3 & Fp1 & Fp2 & Fp3).
    (* unfold one step of the reference engine *)
    unfold qof at 1. rewrite Hq. cbn [map snd ref_match].
    change (oget (tbl s) id) with (oget (map e_order (b_orders s)) id). rewrite (oget_tbl _ _ _ Hn). rewrite Hcr, Hm.
    set (s1 := set_side (set_trades (set_orders s (set_nth (b_orders s) id (set_eorder pe p2)))
                  (b_trades s ++ [tr]) (b_tvol s + v)) (opp sd) ps') in *.
    assert (Horders1 : b_orders s1 = set_nth (b_orders s) id (set_eorder pe p2)) by (unfold s1; simp_side; reflexivity).
    assert (Htbl1 : tbl s1 = set_nth (tbl s) id p2) by (unfold tbl; rewrite Horders1, map_set_nth; reflexivity).
    assert (Hnd : ~ In id (map snd t)).
    { pose proof (side_ok_nodup (b_orders s) (opp sd) (mkSide 0 [] ((k, id) :: t)) (conj Hs Hf0)) as Hnd.
      unfold qof in Hnd. cbn in Hnd. inv Hnd. assumption. }
    assert (Hwf1 : table_wf (b_orders s1)).
    { rewrite Horders1. eapply table_wf_set; eauto.
      destruct (Hwf _ _ Hn) as (W1 & W2 & W3 & W4). unfold entry_wf. cbn. rewrite Fp1, Fp2, Fp3. auto. }
    pose proof (match_orders_status _ _ _ _ _ _ _ Hact Hm) as (Hfilled & Hpart & Hp2act).
    rewrite Hfilled in Hrem.
    assert (Hfr_t : b_t s1 = b_t s /\ b_tick s1 = b_tick s /\ b_trading s1 = b_trading s /\ get_side s1 sd = get_side s sd
                    /\ get_side s1 (opp sd) = ps' /\ b_trades s1 = b_trades s ++ [tr]
                    /\ b_tvol s1 = b_tvol s + v).
    { unfold s1. simp_side. rewrite get_set_side_opp', get_set_side_same. cbn. repeat split; destruct sd; reflexivity. }
    destruct Hfr_t as (T1 & T2 & T3 & T4 & T5 & T6 & T7).
    destruct (o_vol p2 =? 0) eqn:Hz.
    + (* the head is exhausted: dropped, the loop goes on *)
      apply sd_remove_orders in Hrem. rewrite Hq in Hrem.
      replace (e_kp pe, e_kt pe) with k in Hrem by (destruct k; cbn in *; congruence).
      rewrite kremove_head in Hrem.
      assert (Hok1 : side_ok (b_orders s1) (opp sd) (get_side s1 (opp sd))).
      { rewrite T5. split; rewrite Hrem; [eapply ksorted_tail; eauto|].
        rewrite Horders1. rewrite Forall_forall in *. intros x Hx. apply entry_ok_other; [apply H2; assumption|].
        intros C. apply Hnd. rewrite <- C. apply in_map; assumption. }
      assert (Ha2 : side_eqb (o_side a2) sd = true /\ o_price a2 <= MAXP) by (rewrite Fa1, Fa2; auto).
      destruct Ha2 as [Ha2s Ha2p].
      specialize (IH s1 a2 s' agg' Hok1 Hwf1 Ha2s Ha2p Hl).
      destruct IH as (IHr & IHok & IHwf & IHfr & IHs & IHp & IHid & IHact).
      rewrite T1, Htbl1, T5, T6, T7 in IHr. unfold qof in IHr at 1. rewrite Hrem in IHr.
      msplit; [exact IHr | exact IHok | exact IHwf | | exact IHs | congruence | congruence | ].
      * destruct IHfr. constructor; try congruence; [rewrite fr_len0, Horders1; apply set_nth_length|].
        intros i Hi. rewrite fr_other0.
        -- rewrite Horders1. apply nth_error_set_nth_neq. intros C; subst i. apply Hi. unfold qof; rewrite Hq; left; reflexivity.
        -- rewrite T5. unfold qof. rewrite Hrem. intros C. apply Hi. unfold qof; rewrite Hq. right; assumption.
      * intros i e' Hn1 Hst Hin. unfold qof in Hin. rewrite Hq in Hin. cbn in Hin. destruct Hin as [<-|Hin].
        -- (* the exhausted head is Filled for good *)
           exfalso. destruct IHfr. rewrite fr_other0 in Hn1.
           ++ rewrite Horders1, nth_error_set_nth_eq in Hn1 by (apply nth_error_Some; congruence).
              injection Hn1 as He'. rewrite <- He' in Hst.
              cbn in Hst. apply status_eqb_eq in Hfilled. congruence.
           ++ rewrite T5. unfold qof. rewrite Hrem. exact Hnd.
        -- apply IHact; auto. rewrite T5. unfold qof. rewrite Hrem. assumption.
    + (* the head is only partly filled: the aggressor is exhausted and both stop *)
      apply sd_remove_vol_orders in Hrem.
      assert (Hv0 : o_vol a2 = 0) by (apply Hpart; reflexivity).
      assert (Hstop : match_iter sd s1 a2 = IDone).
      { unfold match_iter, crosses. rewrite Hv0. reflexivity. }
      destruct f as [|f']; cbn [match_loop] in Hl; [discriminate|]. rewrite Hstop in Hl. injection Hl as Es Ea. subst s' agg'.
      assert (Hok1 : side_ok (b_orders s1) (opp sd) (get_side s1 (opp sd))).
      { rewrite T5. split; rewrite Hrem, Hq; [assumption|].
        rewrite Horders1. constructor.
        - exists (set_eorder pe p2). cbn. rewrite nth_error_set_nth_eq by (apply nth_error_Some; congruence).
          rewrite Fp1. msplit; auto.
        - rewrite Forall_forall in *. intros x Hx. apply entry_ok_other; [apply H2; assumption|].
          intros C. apply Hnd. rewrite <- C. apply in_map; assumption. }
      rewrite Htbl1, T6, T7.
      replace (qof (get_side s1 (opp sd))) with (id :: map snd t) by (rewrite T5; unfold qof; rewrite Hrem, Hq; reflexivity).
      msplit; [reflexivity | exact Hok1 | exact Hwf1 | | rewrite Fa1; exact Hsd | exact Fa2 | exact Fa3 | ].
      * constructor; try congruence; [rewrite Horders1; apply set_nth_length|]. intros i Hi. rewrite Horders1. apply nth_error_set_nth_neq.
        intros C; subst i. apply Hi. unfold qof; rewrite Hq; left; reflexivity.
      * intros i e' Hn1 Hst Hin. rewrite T5, Hrem, Hq.
        destruct Hok1 as [_ Hf1]. rewrite T5, Hrem, Hq in Hf1. rewrite Forall_forall in Hf1.
        unfold qof in Hin. rewrite Hq in Hin. apply in_map_iff in Hin. destruct Hin as ([k2 i2] & Ei & Hin). cbn in Ei; subst i2.
        destruct (Hf1 _ Hin) as (e3 & Hn3 & _ & Hp3 & Ht3 & _). cbn [fst snd] in *.
        assert (e3 = e') by congruence. subst e3.
        destruct k2 as [kp2 kt2]; cbn [fst snd] in *. rewrite Hp3, Ht3. exact Hin.
Qed.

(** ** From the loop to whole operations *)
Lemma match_loop_status sd : forall fuel s a s' a',
  match_loop fuel sd s a = Some (Ok (s', a')) -> o_status a' = o_status a \/ o_status a' = SFilled.
Proof.
  intros fuel s a s' a' H.
  apply (match_loop_inv (fun _ x => o_status x = o_status a \/ o_status x = SFilled) sd) with (fuel:=fuel) (s:=s) (a:=a) (s':=s'); auto.
  intros s0 a0 s1 a1 Hi Hc. apply match_iter_cont in Hc.
  destruct Hc as (id & pe & ps' & _ & _ & _ & Hc).
  destruct (match_orders (b_t s0) a0 (e_order pe)) as [[[x1 x2] x3] x4] eqn:Hm. destruct Hc as (_ & -> & _).
  unfold match_orders in Hm. injection Hm as <- _ _ _.
  match goal with |- context [if ?c then _ else _] => destruct c end; cbn; auto.
Qed.

Lemma in_qof_side orders sd x i :
  side_ok orders sd x -> In i (qof x) ->
  exists e, nth_error orders i = Some e /\ o_side (e_order e) = sd /\ o_status (e_order e) = SActive /\
            In ((e_kp e, e_kt e), i) (sd_orders x).
Proof.
  intros [_ Hf] Hin. unfold qof in Hin. apply in_map_iff in Hin. destruct Hin as ([k j] & E & Hin). cbn in E; subst j.
  rewrite Forall_forall in Hf. destruct (Hf _ Hin) as (e & Hn & _ & Hp & Ht & Hs & Ha). cbn [fst snd] in *.
  exists e. msplit; auto. destruct k as [kp kt]; cbn [fst snd] in *. rewrite Hp, Ht. exact Hin.
Qed.

Lemma side_ok_frame orders orders' sd x :
  side_ok orders sd x -> (forall i, In i (qof x) -> nth_error orders' i = nth_error orders i) ->
  side_ok orders' sd x.
Proof.
  intros [Hs Hf] Hsame. split; [assumption|]. rewrite Forall_forall in *. intros y Hy.
  destruct (Hf _ Hy) as (e & Hn & H). exists e. rewrite Hsame; [auto|]. unfold qof. apply in_map; assumption.
Qed.

(** The matching phase of an arrival: it is [ref_match], and the queue invariant survives.
    [ex] is the order being processed when its table entry is still marked Active (re-pricing). *)
Lemma do_match_invq sd s o id ex s1 o1 :
  InvQ ex s -> (ex = None \/ ex = Some id) ->
  ~ In id (qof (get_side s (opp sd))) ->
  side_eqb (o_side o) sd = true -> o_price o <= MAXP ->
  do_match sd s o = Ok (s1, o1) ->
  ref_match (b_t s) o (tbl s) (qof (get_side s (opp sd))) (b_trades s) (b_tvol s)
    = (o1, tbl s1, qof (get_side s1 (opp sd)), b_trades s1, b_tvol s1) /\
  InvQ ex s1 /\ loop_frame sd s s1 /\
  side_eqb (o_side o1) sd = true /\ o_price o1 = o_price o /\ o_id o1 = o_id o /\
  (o_status o1 = o_status o \/ o_status o1 = SFilled).
Proof.
  intros (Hb & Ha & Hwf & Hc) Hex Hnot Hsd Hpr H. unfold do_match in H.
  destruct (match_loop (match_fuel s sd) sd s o) as [[[s1' o1']|]|] eqn:E; try discriminate. inv H.
  assert (Hopp : side_ok (b_orders s) (opp sd) (get_side s (opp sd))) by (destruct sd; assumption).
  assert (Hown : side_ok (b_orders s) sd (get_side s sd)) by (destruct sd; assumption).
  pose proof (match_loop_status _ _ _ _ _ _ E) as Hst.
  destruct (match_loop_refines sd _ _ _ _ _ Hopp Hwf Hsd Hpr E) as (R & Hok1 & Hwf1 & Hfr & Hs1 & Hp1 & Hi1 & Hact).
  msplit; auto.
  assert (Hown1 : side_ok (b_orders s1) sd (get_side s1 sd)).
  { destruct Hfr. rewrite fr_side0. eapply side_ok_frame; [exact Hown|].
    intros i Hi. apply fr_other0. intros C.
    destruct (in_qof_side _ _ _ _ Hown Hi) as (e1 & Hn1 & Hsd1 & _).
    destruct (in_qof_side _ _ _ _ Hopp C) as (e2 & Hn2 & Hsd2 & _).
    assert (e2 = e1) by congruence; subst e2. destruct sd; cbn in *; congruence. }
  split; [|split; [|split]].
  - destruct sd; assumption.
  - destruct sd; assumption.
  - assumption.
  - intros i e Hn Hact' Hne.
    destruct (in_dec Nat.eq_dec i (qof (get_side s (opp sd)))) as [Hin|Hnin].
    + (* a passive order of this arrival *)
      destruct (in_qof_side _ _ _ _ Hopp Hin) as (e0 & Hn0 & Hsd0 & _).
      assert (Hside : o_side (e_order e) = opp sd).
      { destruct (Hwf1 _ _ Hn) as (_ & _ & _ & _).
        (* sides never change: read it off the new side map *)
        pose proof (Hact _ _ Hn Hact' Hin) as Hin1.
        destruct Hok1 as [_ Hf1]. rewrite Forall_forall in Hf1. destruct (Hf1 _ Hin1) as (e3 & Hn3 & _ & _ & _ & Hs3 & _).
        cbn in Hn3. congruence. }
      rewrite Hside. apply Hact; assumption.
    + destruct Hfr. rewrite fr_other0 in Hn by assumption.
      pose proof (Hc _ _ Hn Hact' Hne) as Hin0.
      destruct (side_eqb (o_side (e_order e)) sd) eqn:Es.
      * apply side_eqb_eq in Es. rewrite Es in *. rewrite fr_side0. exact Hin0.
      * exfalso. apply Hnin. assert (o_side (e_order e) = opp sd) by (destruct (o_side (e_order e)), sd; cbn in *; congruence).
        rewrite H in Hin0. unfold qof. apply in_map_iff. exists ((e_kp e, e_kt e), i). auto.
Qed.

(** ** Queueing behind every order at a better or equal price *)
Lemma kinsert_ref tb o id kp kt l :
  (forall x, In x l -> better_eq o (oget tb (snd x)) = (fst (fst x) <=? kp) /\ (fst (fst x) = kp -> snd (fst x) < kt)) ->
  map snd (kinsert (kp, kt) id l) = ref_insert tb o id (map snd l).
Proof.
  induction l as [|[[kp' kt'] h] t IH]; intros H; cbn [kinsert map snd ref_insert]; [reflexivity|].
  destruct (H _ (or_introl eq_refl)) as [Hb Ht]. cbn [fst snd] in *.
  rewrite Hb. unfold klt, keq. cbn [fst snd].
  destruct (kp' <=? kp) eqn:E.
  - assert (Hlt : (kp <? kp') || (kp =? kp') && (kt <? kt') = false).
    { destruct (kp =? kp') eqn:E2; [assert (kp' = kp) by lia; specialize (Ht H0)|]; lia. }
    rewrite Hlt.
    assert (Heq : (kp =? kp') && (kt =? kt') = false).
    { destruct (kp =? kp') eqn:E2; [assert (kp' = kp) by lia; specialize (Ht H0)|]; lia. }
    rewrite Heq. cbn [map snd]. f_equal. apply IH. intros x Hx. apply H. right; assumption.
  - assert (Hlt : (kp <? kp') || (kp =? kp') && (kt <? kt') = true) by lia.
    rewrite Hlt. reflexivity.
Qed.

Lemma queue_time_later x kp t : ksorted (sd_orders x) ->
  forall t' v, In ((kp, t'), v) (sd_orders x) -> t' < queue_time x kp t.
Proof.
  intros Hs t' v Hin. unfold queue_time.
  destruct (klast_at kp (sd_orders x)) as [tl|] eqn:E.
  - pose proof (klast_at_max _ _ _ Hs E _ _ Hin). destruct (t <=? tl) eqn:E2; lia.
  - exfalso. eapply klast_at_none; eauto.
Qed.

Lemma better_eq_kp sd o h :
  o_side o = sd -> o_price o <= MAXP -> o_price h <= MAXP ->
  better_eq o h = (kp_of sd (o_price h) <=? kp_of sd (o_price o)).
Proof.
  intros Hs H1 H2. unfold better_eq. rewrite Hs. destruct sd; cbn [kp_of]; unfold MAXP in *.
  - destruct (o_price o <=? o_price h) eqn:E1; destruct (4294967295 - o_price h <=? 4294967295 - o_price o) eqn:E2; try reflexivity; lia.
  - reflexivity.
Qed.

Lemma In_kinsert_self k v l : In (k, v) (kinsert k v l).
Proof.
  induction l as [|[k' v'] t IH]; cbn; [auto|].
  destruct (klt k k'); [left; reflexivity|]. destruct (keq k k'); [left; reflexivity | right; assumption].
Qed.

Lemma sd_queue_refines orders sd x o id kp t vol x' kt :
  side_ok orders sd x -> table_wf orders ->
  o_side o = sd -> o_price o <= MAXP -> kp = kp_of sd (o_price o) ->
  sd_queue x kp t id vol = Ok (x', kt) ->
  qof x' = ref_insert (map e_order orders) o id (qof x) /\
  sd_orders x' = kinsert (kp, kt) id (sd_orders x) /\ ksorted (sd_orders x').
Proof.
  intros [Hs Hf] Hwf Hsd Hpr Hkp H. unfold sd_queue in H.
  destruct (MAXT <? queue_time x kp t); [discriminate|]. inv H.
  unfold sd_insert, qof. cbn [sd_orders]. msplit; [|reflexivity|apply kinsert_sorted; assumption].
  apply kinsert_ref. intros [[kp' kt'] h] Hin. cbn [fst snd].
  rewrite Forall_forall in Hf. destruct (Hf _ Hin) as (e & Hn & _ & Hp & Ht & Hside & _). cbn [fst snd] in *.
  destruct (Hwf _ _ Hn) as (_ & _ & Hk & Hle).
  split.
  - rewrite (oget_tbl _ _ _ Hn). rewrite (better_eq_kp (o_side o) o (e_order e) eq_refl Hpr Hle).
    rewrite <- Hp, Hk, Hside. reflexivity.
  - intros ->. eapply queue_time_later; eauto.
Qed.

(** ** Writing the processed entry back *)
Lemma complete_entry_status s ex i e :
  complete ex s -> nth_error (b_orders s) i = Some e -> Some i <> ex -> o_status (e_order e) = SActive ->
  In i (qof (get_side s (o_side (e_order e)))).
Proof.
  intros Hc Hn Hne Ha. unfold qof. apply in_map_iff. exists ((e_kp e, e_kt e), i). split; [reflexivity|]. eapply Hc; eauto.
Qed.

Lemma writeback_unqueued s1 ex id e_old e1 :
  InvQ ex s1 -> (ex = None \/ ex = Some id) ->
  nth_error (b_orders s1) id = Some e_old ->
  ~ In id (qof (b_bid s1)) -> ~ In id (qof (b_ask s1)) ->
  entry_wf id e1 -> o_status (e_order e1) <> SActive ->
  InvQ None (set_orders s1 (set_nth (b_orders s1) id e1)).
Proof.
  intros (Hb & Ha & Hwf & Hc) Hex Hn Hnb Hna Hwf1 Hst.
  assert (Hsame : forall x, ~ In id (qof x) -> forall i, In i (qof x) -> nth_error (set_nth (b_orders s1) id e1) i = nth_error (b_orders s1) i).
  { intros x Hx i Hi. apply nth_error_set_nth_neq. intros C; subst i. contradiction. }
  unfold InvQ. cbn [b_orders b_bid b_ask set_orders]. msplit.
  - eapply side_ok_frame; [exact Hb | apply Hsame; assumption].
  - eapply side_ok_frame; [exact Ha | apply Hsame; assumption].
  - eapply table_wf_set; eauto.
  - intros i e Hi Hact _. cbn [b_orders set_orders] in Hi.
    destruct (Nat.eq_dec id i) as [->|Hne].
    + rewrite nth_error_set_nth_eq in Hi by (apply nth_error_Some; congruence). inv Hi. contradiction.
    + rewrite nth_error_set_nth_neq in Hi by assumption.
      assert (Hnex : Some i <> ex) by (destruct Hex as [->| ->]; congruence).
      pose proof (Hc _ _ Hi Hact Hnex) as Hin. destruct (o_side (e_order e)); exact Hin.
Qed.

Lemma In_kinsert_old k v l x : In x l -> fst x <> k -> In x (kinsert k v l).
Proof.
  induction l as [|[k' v'] t IH]; intros Hin Hne; [contradiction|]. cbn.
  destruct (klt k k'); [right; assumption|].
  destruct (keq k k') eqn:E.
  - apply keq_spec in E; subst k'. destruct Hin as [<-|Hin]; [cbn in Hne; contradiction | right; assumption].
  - destruct Hin as [<-|Hin]; [left; reflexivity | right; apply IH; assumption].
Qed.

Lemma writeback_queued s1 ex id e_old sd o1 kp kt x' :
  InvQ ex s1 -> (ex = None \/ ex = Some id) ->
  nth_error (b_orders s1) id = Some e_old ->
  ~ In id (qof (b_bid s1)) -> ~ In id (qof (b_ask s1)) ->
  entry_wf id (mkEntry o1 sd kp kt) -> o_status o1 = SActive -> o_side o1 = sd ->
  sd_orders x' = kinsert (kp, kt) id (sd_orders (get_side s1 sd)) ->
  (forall t' v, In ((kp, t'), v) (sd_orders (get_side s1 sd)) -> t' < kt) ->
  InvQ None (set_orders (set_side s1 sd x') (set_nth (b_orders (set_side s1 sd x')) id (mkEntry o1 sd kp kt))).
Proof.
  intros (Hb & Ha & Hwf & Hc) Hex Hn Hnb Hna Hwf1 Hst Hsd Hins Hlater.
  rewrite b_orders_set_side.
  set (orders' := set_nth (b_orders s1) id (mkEntry o1 sd kp kt)).
  assert (Hsame : forall x, ~ In id (qof x) -> forall i, In i (qof x) -> nth_error orders' i = nth_error (b_orders s1) i).
  { intros x Hx i Hi. apply nth_error_set_nth_neq. intros C; subst i. contradiction. }
  assert (Hown : side_ok (b_orders s1) sd (get_side s1 sd)) by (destruct sd; assumption).
  assert (Hnown : ~ In id (qof (get_side s1 sd))) by (destruct sd; assumption).
  assert (Hnew : side_ok orders' sd x').
  { destruct Hown as [Hs Hf]. split; rewrite Hins; [apply kinsert_sorted; assumption|].
    rewrite Forall_forall in *. intros y Hy. apply In_kinsert in Hy. destruct Hy as [->|Hy].
    - exists (mkEntry o1 sd kp kt). cbn. unfold orders'. rewrite nth_error_set_nth_eq by (apply nth_error_Some; congruence). msplit; auto.
    - apply entry_ok_other; [apply Hf; assumption|]. intros C. apply Hnown. rewrite <- C. unfold qof. apply in_map; assumption. }
  unfold InvQ. cbn [b_orders set_orders].
  assert (Hbid : b_bid (set_orders (set_side s1 sd x') orders') = match sd with Bid => x' | Ask => b_bid s1 end) by (destruct sd; reflexivity).
  assert (Hask : b_ask (set_orders (set_side s1 sd x') orders') = match sd with Ask => x' | Bid => b_ask s1 end) by (destruct sd; reflexivity).
  rewrite Hbid, Hask. msplit.
  - destruct sd; [exact Hnew | eapply side_ok_frame; [exact Hb | apply Hsame; assumption]].
  - destruct sd; [eapply side_ok_frame; [exact Ha | apply Hsame; assumption] | exact Hnew].
  - unfold orders'. eapply table_wf_set; eauto.
  - intros i e Hi Hact _. cbn [b_orders set_orders] in Hi.
    assert (Hgs : forall sd2, get_side (set_orders (set_side s1 sd x') orders') sd2 = if side_eqb sd2 sd then x' else get_side s1 sd2)
      by (intros sd2; destruct sd, sd2; reflexivity).
    rewrite Hgs.
    destruct (Nat.eq_dec id i) as [->|Hne].
    + unfold orders' in Hi. rewrite nth_error_set_nth_eq in Hi by (apply nth_error_Some; congruence). inv Hi. cbn.
      rewrite side_eqb_refl, Hins. apply In_kinsert_self.
    + unfold orders' in Hi. rewrite nth_error_set_nth_neq in Hi by assumption.
      assert (Hnex : Some i <> ex) by (destruct Hex as [->| ->]; congruence).
      pose proof (Hc _ _ Hi Hact Hnex) as Hin.
      destruct (side_eqb (o_side (e_order e)) sd) eqn:Es; [|exact Hin].
      apply side_eqb_eq in Es. rewrite Es in Hin. rewrite Hins. apply In_kinsert_old; [assumption|].
      cbn [fst]. intros C. injection C as C1 C2. specialize (Hlater (e_kt e) i). rewrite C1 in Hin. specialize (Hlater Hin). lia.
Qed.

(** ** Operations *)
Lemma not_active_not_queued orders sd x id e :
  side_ok orders sd x -> nth_error orders id = Some e -> o_status (e_order e) <> SActive -> ~ In id (qof x).
Proof.
  intros Hok Hn Hst Hin. destruct (in_qof_side _ _ _ _ Hok Hin) as (e2 & Hn2 & _ & Ha & _). congruence.
Qed.

Lemma wrong_side_not_queued orders sd x id e :
  side_ok orders sd x -> nth_error orders id = Some e -> o_side (e_order e) <> sd -> ~ In id (qof x).
Proof.
  intros Hok Hn Hst Hin. destruct (in_qof_side _ _ _ _ Hok Hin) as (e2 & Hn2 & Hs & _). congruence.
Qed.

Lemma abs_writeback s1 id e1 :
  abs (set_orders s1 (set_nth (b_orders s1) id e1)) = set_rorders (abs s1) (set_nth (tbl s1) id (e_order e1)).
Proof. unfold abs, tbl, set_rorders. cbn. rewrite map_set_nth. reflexivity. Qed.

Lemma abs_after_match sd s s1 :
  loop_frame sd s s1 ->
  abs s1 = set_rq (mkRef (b_t s) (b_tick s) (b_tvol s1) (tbl s1) (qof (b_bid s)) (qof (b_ask s)) (b_trades s1) (b_trading s))
             (opp sd) (qof (get_side s1 (opp sd))).
Proof.
  intros [F1 F2 F3 F4 _ _]. unfold abs. rewrite F2, F3, F4. destruct sd; cbn in *; rewrite F1; reflexivity.
Qed.

Lemma nth_error_tbl s id e : nth_error (b_orders s) id = Some e -> nth_error (tbl s) id = Some (e_order e).
Proof. intros H. unfold tbl. rewrite nth_error_map, H. reflexivity. Qed.

Lemma abs_set_side_own s sd x :
  abs (set_side s sd x) = set_rq (abs s) sd (qof x).
Proof. destruct sd; reflexivity. Qed.

Theorem place_order_refines s id s' :
  InvQ None s -> place_order s id = Ok s' ->
  ref_place (abs s) id = Some (abs s') /\ InvQ None s'.
Proof.
  intros Hinv H. pose proof Hinv as (Hb & Ha & Hwf & Hc).
  unfold place_order in H. destruct (nth_error (b_orders s) id) as [e|] eqn:Hn; [|discriminate].
  unfold ref_place, ref_arrive. cbn [r_orders r_t r_trades r_tvol r_trading r_tick r_bidq r_askq abs]. rewrite (nth_error_tbl _ _ _ Hn).
  destruct (negb (status_eqb (o_status (e_order e)) SNew)) eqn:Hnew.
  { inv H. auto. }
  assert (Hst : o_status (e_order e) = SNew) by (apply status_eqb_eq; destruct (status_eqb _ _); [reflexivity | discriminate]).
  destruct (Hwf _ _ Hn) as (Wid & Wks & Wkp & Wpr).
  set (o := set_arr (set_status (e_order e) SActive) (b_t s)) in *.
  set (sd := o_side o) in *.
  assert (Hsd : side_eqb (o_side o) sd = true) by apply side_eqb_refl.
  assert (Hopr : o_price o <= MAXP) by exact Wpr.
  assert (Hnb : ~ In id (qof (b_bid s))) by (eapply not_active_not_queued; eauto; congruence).
  assert (Hna : ~ In id (qof (b_ask s))) by (eapply not_active_not_queued; eauto; congruence).
  assert (Hnopp : ~ In id (qof (get_side s (opp sd)))) by (destruct (opp sd); assumption).
  change (match sd with Bid => o_price o =? MAXP | Ask => o_price o =? 0 end) with (is_market o) in H.
  destruct (is_market o) eqn:Hm.
  - (* market order *)
    unfold place_market in H. destruct (b_trading s) eqn:Htr.
    + cbn [e_order set_eorder] in H. destruct (do_match sd s o) as [[s1 o1]|] eqn:Hdm; [|discriminate].
      cbn in H.
      destruct (do_match_invq sd s o id None s1 o1 Hinv (or_introl eq_refl) Hnopp Hsd Hopr Hdm) as (R & Hinv1 & Hfr & Hs1 & Hp1 & Hi1 & Hst1).
      rewrite rq_abs. rewrite R.
      assert (Hn1 : nth_error (b_orders s1) id = Some e) by (destruct Hfr; rewrite fr_other0; assumption).
      pose proof Hinv1 as (Hb1 & Ha1 & Hwf1 & Hc1).
      assert (Hnb1 : ~ In id (qof (b_bid s1))) by (eapply not_active_not_queued; eauto; congruence).
      assert (Hna1 : ~ In id (qof (b_ask s1))) by (eapply not_active_not_queued; eauto; congruence).
      assert (Hwfo1 : forall st en, entry_wf id (set_eorder (set_eorder e o) (set_end (set_status o1 st) en))).
      { intros st en. unfold entry_wf. cbn. apply side_eqb_eq in Hs1. rewrite Hs1, Hp1, Hi1. unfold sd, o. cbn. msplit; auto. }
      assert (Hwfo1' : entry_wf id (set_eorder (set_eorder e o) o1)).
      { unfold entry_wf. cbn. apply side_eqb_eq in Hs1. rewrite Hs1, Hp1, Hi1. unfold sd, o. cbn. msplit; auto. }
      pose proof (abs_after_match sd s s1 Hfr) as Habs1. rewrite Htr in Habs1. rewrite <- Habs1.
      cbn [r_orders abs].
      destruct (status_eqb (o_status o1) SFilled) eqn:Hf1; inv H.
      * split; [rewrite abs_writeback; reflexivity|].
        eapply writeback_unqueued; eauto. cbn. apply status_eqb_eq in Hf1. congruence.
      * split; [rewrite abs_writeback; cbn [e_order set_eorder]; destruct Hfr; rewrite fr_t0; reflexivity|].
        eapply writeback_unqueued; eauto. cbn. congruence.
    + inv H. split.
      * rewrite abs_writeback. reflexivity.
      * eapply writeback_unqueued; eauto.
        -- unfold entry_wf. cbn. msplit; auto.
        -- cbn. congruence.
  - (* limit order *)
    unfold place_limit in H.
    assert (Hm1 : forall s1 o1, (if b_trading s then do_match sd s o else Ok (s, o)) = Ok (s1, o1) ->
        (if b_trading s then ref_match (b_t s) o (tbl s) (qof (get_side s (opp sd))) (b_trades s) (b_tvol s)
         else (o, tbl s, qof (get_side s (opp sd)), b_trades s, b_tvol s))
        = (o1, tbl s1, qof (get_side s1 (opp sd)), b_trades s1, b_tvol s1) /\
        InvQ None s1 /\ loop_frame sd s s1 /\ side_eqb (o_side o1) sd = true /\ o_price o1 = o_price o /\ o_id o1 = o_id o /\
        (o_status o1 = o_status o \/ o_status o1 = SFilled)).
    { intros s1 o1 Hx. destruct (b_trading s).
      - eapply do_match_invq; eauto.
      - inv Hx. msplit; auto using loop_frame_refl. }
    cbn [e_order set_eorder] in H.
    destruct (if b_trading s then do_match sd s o else Ok (s, o)) as [[s1 o1]|] eqn:Hdm; [|discriminate]. cbn in H.
    destruct (Hm1 _ _ eq_refl) as (R & Hinv1 & Hfr & Hs1 & Hp1 & Hi1 & Hst1).
    rewrite !rq_abs. rewrite R.
    assert (Hn1 : nth_error (b_orders s1) id = Some e) by (destruct Hfr; rewrite fr_other0; assumption).
    pose proof Hinv1 as (Hb1 & Ha1 & Hwf1 & Hc1).
    assert (Hnb1 : ~ In id (qof (b_bid s1))) by (eapply not_active_not_queued; eauto; congruence).
    assert (Hna1 : ~ In id (qof (b_ask s1))) by (eapply not_active_not_queued; eauto; congruence).
    apply side_eqb_eq in Hs1.
    assert (Hr1 : set_rq (mkRef (b_t s) (b_tick s) (b_tvol s1) (tbl s1) (qof (b_bid s)) (qof (b_ask s)) (b_trades s1) (b_trading s))
                    (opp sd) (qof (get_side s1 (opp sd))) = abs s1) by (symmetry; apply abs_after_match; assumption).
    rewrite Hr1.
    destruct (status_eqb (o_status o1) SFilled) eqn:Hf1.
    + inv H. split; [rewrite abs_writeback; reflexivity|].
      eapply writeback_unqueued; eauto.
      * unfold entry_wf. cbn. rewrite Hs1, Hp1, Hi1. unfold sd, o. cbn. msplit; auto.
      * cbn. apply status_eqb_eq in Hf1. congruence.
    + change (o_side (e_order e)) with sd in H.
      destruct (sd_queue (get_side s1 sd) (e_kp e) (b_t s1) (o_id o1) (o_vol o1)) as [[x' kt]|] eqn:Hq; [|cbn in H; discriminate]. cbn in H. injection H as <-.
      assert (Hown1 : side_ok (b_orders s1) sd (get_side s1 sd)) by (destruct sd; assumption).
      assert (Hkp : e_kp e = kp_of sd (o_price o1)) by (rewrite Hp1; exact Wkp).
      assert (Hpr1 : o_price o1 <= MAXP) by (rewrite Hp1; exact Wpr).
      destruct (sd_queue_refines (b_orders s1) sd (get_side s1 sd) o1 (o_id o1) (e_kp e) (b_t s1) (o_vol o1) x' kt Hown1 Hwf1 Hs1 Hpr1 Hkp Hq)
        as (Hqof & Hins & Hsorted).
      assert (Hact1 : o_status o1 = SActive).
      { destruct Hst1 as [Hx|Hx]; [rewrite Hx; reflexivity|]. rewrite Hx in Hf1. discriminate. }
      assert (Hid1 : o_id o1 = id) by (rewrite Hi1; exact Wid).
      rewrite Hid1 in *.
      split.
      * rewrite abs_writeback. cbn [e_order]. rewrite abs_set_side_own, rq_abs.
        change (o_side (e_order e)) with sd. rewrite Hqof.
        assert (Ht : tbl (set_side s1 sd x') = tbl s1) by (unfold tbl; rewrite b_orders_set_side; reflexivity).
        rewrite Ht. fold (tbl s1).
        assert (Hro : forall q, r_orders (set_rq (abs s1) sd q) = tbl s1) by (intros q; destruct sd; reflexivity).
        rewrite Hro. reflexivity.
      * eapply (writeback_queued s1 None id e sd o1 (e_kp e) kt x'); eauto.
        -- unfold entry_wf. cbn. rewrite Hs1, Hp1. msplit; auto.
        -- intros t' v Hin. unfold sd_queue in Hq. destruct (MAXT <? queue_time (get_side s1 sd) (e_kp e) (b_t s1)); [discriminate|].
           inv Hq. eapply queue_time_later; eauto. destruct Hown1; assumption.
Qed.
