(** * Basic lemmas: lists, the matching loop's induction principle *)
From Bourse Require Import Model.Types Model.Map Model.Side Model.Book.
From Coq Require Import ZifyBool ZifyNat ZifyN.

Lemma set_nth_length {A} (l : list A) i x : length (set_nth l i x) = length l.
Proof. revert i; induction l as [|h t IH]; intros [|i]; simpl; auto. Qed.

Lemma nth_error_set_nth_eq {A} (l : list A) i x :
  (i < length l)%nat -> nth_error (set_nth l i x) i = Some x.
Proof.
  revert i; induction l as [|h t IH]; intros [|i] H; simpl in *; try lia; auto.
  apply IH; lia.
Qed.

Lemma nth_error_set_nth_neq {A} (l : list A) i j x :
  i <> j -> nth_error (set_nth l i x) j = nth_error l j.
Proof.
  revert i j; induction l as [|h t IH]; intros [|i] [|j] H; simpl; auto; try congruence.
Qed.

Lemma set_nth_same {A} (l : list A) i x :
  nth_error l i = Some x -> set_nth l i x = l.
Proof.
  revert i; induction l as [|h t IH]; intros [|i] H; simpl in *; try congruence.
  f_equal; auto.
Qed.

Lemma Forall_set_nth {A} (P : A -> Prop) (l : list A) i x :
  Forall P l -> P x -> Forall P (set_nth l i x).
Proof.
  intros H Hx; revert i; induction H as [|h t Hh Ht IH]; intros [|i]; simpl; auto.
Qed.

Lemma map_set_nth {A B} (f : A -> B) (l : list A) i x :
  map f (set_nth l i x) = set_nth (map f l) i (f x).
Proof. revert i; induction l as [|h t IH]; intros [|i]; simpl; f_equal; auto. Qed.

Lemma nth_error_Forall {A} (P : A -> Prop) (l : list A) i x :
  Forall P l -> nth_error l i = Some x -> P x.
Proof.
  intros H; revert i; induction H as [|h t Hh Ht IH]; intros [|i] E; simpl in E; try discriminate.
  - inversion E; subst; auto.
  - eauto.
Qed.

(** ** Invariants of the matching loop *)
Lemma match_loop_inv (I : book -> order -> Prop) sd :
  (forall s a s1 a1, I s a -> match_iter sd s a = ICont s1 a1 -> I s1 a1) ->
  forall fuel s a s' a',
    I s a -> match_loop fuel sd s a = Some (Ok (s', a')) -> I s' a'.
Proof.
  intros Hstep fuel; induction fuel as [|f IH]; intros s a s' a' Hi Hl; simpl in Hl; [discriminate|].
  destruct (match_iter sd s a) as [| s1 a1 |] eqn:E.
  - inversion Hl; subst; auto.
  - eapply IH; [eapply Hstep; eauto | exact Hl].
  - discriminate.
Qed.

Lemma do_match_inv (I : book -> order -> Prop) sd :
  (forall s a s1 a1, I s a -> match_iter sd s a = ICont s1 a1 -> I s1 a1) ->
  forall s a s' a', I s a -> do_match sd s a = Ok (s', a') -> I s' a'.
Proof.
  intros Hstep s a s' a' Hi H. unfold do_match in H.
  destruct (match_loop (match_fuel s sd) sd s a) as [[[s1 a1]|]|] eqn:E; try discriminate.
  inversion H; subst. eapply match_loop_inv; eauto.
Qed.

(** Unfolding one iteration into its ingredients. *)
Lemma match_iter_cont sd s a s1 a1 :
  match_iter sd s a = ICont s1 a1 ->
  exists id pe ps',
    crosses sd a s = true /\
    sd_best_order_idx (get_side s (opp sd)) = Some id /\
    nth_error (b_orders s) id = Some pe /\
    let '(agg', pass', tr, v) := match_orders (b_t s) a (e_order pe) in
    (if status_eqb (o_status pass') SFilled
     then sd_remove (get_side s (opp sd)) (e_kp pe) (e_kt pe) v
     else sd_remove_vol (get_side s (opp sd)) (e_kp pe) v) = Ok ps' /\
    a1 = agg' /\
    s1 = set_side (set_trades (set_orders s (set_nth (b_orders s) id (set_eorder pe pass')))
                     (b_trades s ++ [tr]) (b_tvol s + v)) (opp sd) ps'.
Proof.
  unfold match_iter. destruct (crosses sd a s) eqn:Hc; [|discriminate].
  destruct (sd_best_order_idx (get_side s (opp sd))) as [id|] eqn:Hb; [|discriminate].
  destruct (nth_error (b_orders s) id) as [pe|] eqn:Hn; [|discriminate].
  destruct (match_orders (b_t s) a (e_order pe)) as [[[agg' pass'] tr] v] eqn:Hm.
  destruct (if status_eqb (o_status pass') SFilled then _ else _) as [ps'|] eqn:Hr; [|discriminate].
  intros H; inversion H; subst. exists id, pe, ps'. rewrite Hm. cbn. repeat split; auto.
Qed.

(** Projections through the setters (used everywhere with [cbn]). *)
Lemma set_side_fields s sd x :
  b_t (set_side s sd x) = b_t s /\ b_tick (set_side s sd x) = b_tick s /\
  b_tvol (set_side s sd x) = b_tvol s /\ b_orders (set_side s sd x) = b_orders s /\
  b_trades (set_side s sd x) = b_trades s /\ b_trading (set_side s sd x) = b_trading s.
Proof. destruct sd; simpl; auto 10. Qed.

Lemma b_tick_set_side s sd x : b_tick (set_side s sd x) = b_tick s.
Proof. destruct sd; reflexivity. Qed.
Lemma b_t_set_side s sd x : b_t (set_side s sd x) = b_t s.
Proof. destruct sd; reflexivity. Qed.
Lemma b_tvol_set_side s sd x : b_tvol (set_side s sd x) = b_tvol s.
Proof. destruct sd; reflexivity. Qed.
Lemma b_orders_set_side s sd x : b_orders (set_side s sd x) = b_orders s.
Proof. destruct sd; reflexivity. Qed.
Lemma b_trades_set_side s sd x : b_trades (set_side s sd x) = b_trades s.
Proof. destruct sd; reflexivity. Qed.
Lemma b_trading_set_side s sd x : b_trading (set_side s sd x) = b_trading s.
Proof. destruct sd; reflexivity. Qed.
Ltac simp_side := rewrite ?b_tick_set_side, ?b_t_set_side, ?b_tvol_set_side, ?b_orders_set_side,
  ?b_trades_set_side, ?b_trading_set_side in *.

Lemma get_set_side_same s sd x : get_side (set_side s sd x) sd = x.
Proof. destruct sd; reflexivity. Qed.
Lemma get_set_side_opp s sd x : get_side (set_side s sd x) (opp sd) = get_side s (opp sd).
Proof. destruct sd; reflexivity. Qed.
Lemma get_set_side_opp' s sd x : get_side (set_side s (opp sd) x) sd = get_side s sd.
Proof. destruct sd; reflexivity. Qed.
