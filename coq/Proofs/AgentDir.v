(** * Momentum agents: the side of every order a trader submits is the sign of the signal M *)
From Bourse Require Import Model.Types Model.Side Model.Book Model.Rng Model.Float Model.Env Model.Agents
  Proofs.Basic Proofs.EnvProps Proofs.AgentProps.

Ltac inv H := inversion H; subst; clear H.

(** book [a] of [e'] is book [a] of [e] with orders of side [sd] appended (or nothing happened) *)
Definition grows_with (sd : side) (a : nat) (e e' : menv) : Prop :=
  en_market e' = en_market e \/
  exists b ents, nth_error (en_market e) a = Some b /\
    nth_error (en_market e') a = Some (set_orders b (b_orders b ++ ents)) /\
    Forall (fun en => o_side (e_order en) = sd) ents.

Lemma grows_refl sd a e : grows_with sd a e e.
Proof. left; reflexivity. Qed.

Lemma set_orders_twice b x y : set_orders (set_orders b x) y = set_orders b y.
Proof. reflexivity. Qed.

Lemma grows_trans sd a e1 e2 e3 : grows_with sd a e1 e2 -> grows_with sd a e2 e3 -> grows_with sd a e1 e3.
Proof.
  intros [E12|(b & x & H1 & H2 & F12)] [E23|(b' & y & H3 & H4 & F23)].
  - left. congruence.
  - right. exists b', y. rewrite <- E12. auto.
  - right. exists b, x. rewrite E23. auto.
  - right. rewrite H2 in H3. injection H3 as <-. exists b, (x ++ y). split; [assumption|]. split.
    + rewrite H4. cbn [b_orders set_orders]. rewrite set_orders_twice, app_assoc. reflexivity.
    + apply Forall_app; auto.
Qed.

Lemma create_order_side b sd v tr p b' id :
  create_order b sd v tr p = (b', Created id) ->
  exists ent, b' = set_orders b (b_orders b ++ [ent]) /\ o_side (e_order ent) = sd.
Proof.
  unfold create_order. intros H. destruct p as [p|]; [destruct (_ =? 0)|]; inv H; eexists; split; reflexivity.
Qed.

Lemma place_unwrap_grows e a sd v tr p e' id :
  place_unwrap e a sd v tr p = Ok (e', id) -> grows_with sd a e e'.
Proof.
  unfold place_unwrap, menv_place. destruct (nth_error (en_market e) a) as [b|] eqn:Hb; [|discriminate].
  destruct (create_order b sd v tr p) as [b' c'] eqn:Hc. destruct c' as [i|pp tt]; [|cbn; discriminate].
  destruct (upd_nth (en_market e) a (fun _ => Ok b')) as [m'|] eqn:Hu; [|discriminate]. cbn. intros H; inv H.
  apply upd_nth_local in Hu. destruct Hu as (_ & _ & b0 & b1 & Hb0 & Hf & Hb1). inv Hf.
  destruct (create_order_side _ _ _ _ _ _ _ Hc) as (ent & -> & Hs).
  right. exists b, [ent]. cbn [en_market push_event set_market]. rewrite Hb in Hb0. inv Hb0. auto.
Qed.

Section Dir.
Variable lognormal : N -> N -> option (N * N).
Variable tanh64 : N -> N.

Lemma place_limit_dist_grows ln e c a buy mid tick v tr e' c' id :
  place_limit_dist ln e c a buy mid tick v tr = Ok (e', c', id) -> grows_with (if buy then Bid else Ask) a e e'.
Proof.
  unfold place_limit_dist. destruct (c_lognormal ln c) as [[d c1]|]; [|discriminate]. cbn [rbind].
  destruct (snap_to_grid _ tick) as [pr|]; [|discriminate]. cbn [rbind].
  destruct (place_unwrap e a (if buy then Bid else Ask) v tr (Some pr)) as [[e1 i]|] eqn:E; [|discriminate]. cbn.
  intros H; inv H. eapply place_unwrap_grows; eassumption.
Qed.

(** one trader: buys only when M > 0, sells only when M < 0 *)
Theorem mom_trader_direction ln e c a p mid m pl pm trader live e' c' live' :
  mom_trader ln e c a p mid m pl pm trader live = Ok (e', c', live') ->
  (fgt m f_zero = true -> grows_with Bid a e e') /\
  (fgt m f_zero = false -> flt m f_zero = true -> grows_with Ask a e e') /\
  (fgt m f_zero = false -> flt m f_zero = false -> en_market e' = en_market e).
Proof.
  unfold mom_trader. destruct (c_f64 c) as [k c1]. intros H.
  destruct (fgt m f_zero) eqn:Eg; [|destruct (flt m f_zero) eqn:El].
  - split; [intros _|split; intros; discriminate].
    destruct (flt _ pl).
    + destruct (place_limit_dist ln e c1 a true mid (mp_tick p) (mp_vol p) trader) as [[[e1 c2] id]|] eqn:E1; [|discriminate]. cbn in H.
      destruct (c_f64 c2) as [k2 c3]. pose proof (place_limit_dist_grows _ _ _ _ _ _ _ _ _ _ _ _ E1) as G1.
      destruct (flt _ pm); [|inv H; exact G1].
      destruct (place_unwrap e1 a Bid (mp_vol p) trader None) as [[e2 i2]|] eqn:E2; [|discriminate]. cbn in H. inv H.
      eapply grows_trans; [exact G1 | eapply place_unwrap_grows; eassumption].
    + cbn in H. destruct (c_f64 c1) as [k2 c3]. destruct (flt _ pm); [|inv H; apply grows_refl].
      destruct (place_unwrap e a Bid (mp_vol p) trader None) as [[e2 i2]|] eqn:E2; [|discriminate]. cbn in H. inv H.
      eapply place_unwrap_grows; eassumption.
  - split; [intros; discriminate|]. split; [intros _ _|intros; discriminate].
    destruct (flt _ pl).
    + destruct (place_limit_dist ln e c1 a false mid (mp_tick p) (mp_vol p) trader) as [[[e1 c2] id]|] eqn:E1; [|discriminate]. cbn in H.
      destruct (c_f64 c2) as [k2 c3]. pose proof (place_limit_dist_grows _ _ _ _ _ _ _ _ _ _ _ _ E1) as G1.
      destruct (flt _ pm); [|inv H; exact G1].
      destruct (place_unwrap e1 a Ask (mp_vol p) trader None) as [[e2 i2]|] eqn:E2; [|discriminate]. cbn in H. inv H.
      eapply grows_trans; [exact G1 | eapply place_unwrap_grows; eassumption].
    + cbn in H. destruct (c_f64 c1) as [k2 c3]. destruct (flt _ pm); [|inv H; apply grows_refl].
      destruct (place_unwrap e a Ask (mp_vol p) trader None) as [[e2 i2]|] eqn:E2; [|discriminate]. cbn in H. inv H.
      eapply place_unwrap_grows; eassumption.
  - split; [intros; discriminate|]. split; [intros; discriminate|intros _ _].
    destruct (flt _ pl); cbn in H; destruct (c_f64 c1) as [k2 c3]; destruct (flt _ pm); inv H; reflexivity.
Qed.

(** all traders of one agent in one step *)
Lemma for_traders_grows sd a (f : menv * crng * list nat -> N -> res (menv * crng * list nat)) :
  (forall e c l tr e' c' l', f (e, c, l) tr = Ok (e', c', l') -> grows_with sd a e e') ->
  forall n e c l first e' c' l', for_traders f (e, c, l) first n = Ok (e', c', l') -> grows_with sd a e e'.
Proof.
  intros Hf. induction n as [|n IH]; intros e c l first e' c' l' H; cbn [for_traders] in H.
  - inv H. apply grows_refl.
  - destruct (f (e, c, l) first) as [[[e1 c1] l1]|] eqn:E1; [|discriminate]. cbn in H.
    eapply grows_trans; [eapply Hf; eassumption | eapply IH; eassumption].
Qed.

(** the sign of the signal is opposite for opposite signals: what makes the mirrored flow mirror *)
Lemma sign_of_opp (m : f64) :
  fgt (BinarySingleNaN.Bopp m) f_zero = flt m f_zero /\ flt (BinarySingleNaN.Bopp m) f_zero = fgt m f_zero.
Proof. destruct m as [s|s| |s mm ee He]; try destruct s; split; reflexivity. Qed.

Lemma grows_from sd a e0 e e' : en_market e = en_market e0 -> grows_with sd a e e' -> grows_with sd a e0 e'.
Proof. intros E [G|(b & x & H1 & H2 & F)]; [left; congruence | right; exists b, x; rewrite <- E; auto]. Qed.

Lemma cancel_live_market e c a orders pc e1 c1 live :
  cancel_live_orders e c a orders pc = Ok (e1, c1, live) -> en_market e1 = en_market e.
Proof.
  unfold cancel_live_orders. destruct (partition_live e a orders pc c) as [[[keep drop] c2]|]; [|discriminate]. cbn. intros H; inv H.
  generalize e. induction drop as [|id r IH]; intros e0; cbn [fold_left]; [reflexivity|]. rewrite IH. reflexivity.
Qed.

(** the momentum signal as the agent computes it *)
Definition mom_signal (p : mom_params) (mom mid lp : f64) : f64 :=
  fadd (fmul mom (fsub f_one (f_of_bits (mp_decay p)))) (fmul (f_of_bits (mp_decay p)) (fsub mid lp)).

(** a whole update of a momentum agent: every order it adds to its asset's book is a buy when the
    signal is positive, a sell when it is negative, and nothing is added when it is zero (or on the
    first look, when there is no previous price) *)
Theorem momentum_update_direction k e c a orders first n p last mom e' c' ag' :
  agent_update lognormal tanh64 k e c (AMomentum a orders first n p last mom) = Ok (e', c', ag') ->
  match last with
  | None => en_market e' = en_market e
  | Some lp =>
      exists mid, mid_f64 e a = Ok mid /\
        let m := mom_signal p mom mid lp in
        (fgt m f_zero = true -> grows_with Bid a e e') /\
        (fgt m f_zero = false -> flt m f_zero = true -> grows_with Ask a e e') /\
        (fgt m f_zero = false -> flt m f_zero = false -> en_market e' = en_market e)
  end.
Proof.
  cbn [agent_update]. intros H.
  destruct (cancel_live_orders e c a orders (mp_p_cancel p)) as [[[e1 c1] live]|] eqn:Ec; [|discriminate]. cbn [rbind] in H.
  pose proof (cancel_live_market _ _ _ _ _ _ _ _ Ec) as Em.
  destruct (mid_f64 e1 a) as [mid|] eqn:Emid; [|discriminate]. cbn [rbind] in H.
  assert (Emid0 : mid_f64 e a = Ok mid) by (unfold mid_f64 in *; rewrite <- Em; exact Emid).
  destruct last as [lp|].
  - fold (mom_signal p mom mid lp) in H. set (m := mom_signal p mom mid lp) in *.
    match type of H with (do _ <- for_traders ?f _ _ _; _) = _ => set (F := f) in * end.
    destruct (for_traders F (e1, c1, live) first (N.to_nat n)) as [[[e2 c2] live2]|] eqn:Ef; [|discriminate]. cbn in H. inv H.
    exists mid. split; [assumption|]. cbn zeta.
    assert (Hdir : forall e0 c0 l0 tr e3 c3 l3, F (e0, c0, l0) tr = Ok (e3, c3, l3) ->
              (fgt m f_zero = true -> grows_with Bid a e0 e3) /\
              (fgt m f_zero = false -> flt m f_zero = true -> grows_with Ask a e0 e3) /\
              (fgt m f_zero = false -> flt m f_zero = false -> en_market e3 = en_market e0)).
    { intros e0 c0 l0 tr e3 c3 l3 Hx. unfold F in Hx. eapply mom_trader_direction; eassumption. }
    split; [|split].
    + intros Hg. apply (grows_from Bid a e e1 e' Em). eapply (for_traders_grows Bid a F); [|exact Ef].
      intros; eapply Hdir; eassumption.
    + intros Hg Hl. apply (grows_from Ask a e e1 e' Em). eapply (for_traders_grows Ask a F); [|exact Ef].
      intros e0 c0 l0 tr e3 c3 l3 Hx. destruct (Hdir _ _ _ _ _ _ _ Hx) as (_ & A & _). auto.
    + intros Hg Hl. rewrite <- Em.
      assert (G : grows_with Bid a e1 e').
      { eapply (for_traders_grows Bid a F); [|exact Ef]. intros e0 c0 l0 tr e3 c3 l3 Hx.
        destruct (Hdir _ _ _ _ _ _ _ Hx) as (_ & _ & A). left. auto. }
      clear - Ef Hdir Hg Hl. revert Ef. generalize (N.to_nat n) as kk, e1, c1, live, first.
      induction kk as [|kk IH]; intros e0 c0 l0 f0 H; cbn [for_traders] in H; [inv H; reflexivity|].
      destruct (F (e0, c0, l0) f0) as [[[e3 c3] l3]|] eqn:E1; [|discriminate]. cbn in H.
      destruct (Hdir _ _ _ _ _ _ _ E1) as (_ & _ & A). rewrite (IH _ _ _ _ H). auto.
  - match type of H with (do _ <- for_traders ?f _ _ _; _) = _ => set (F := f) in * end.
    destruct (for_traders F (e1, c1, live) first (N.to_nat n)) as [[[e2 c2] live2]|] eqn:Ef; [|discriminate]. cbn in H. inv H.
    rewrite <- Em. revert Ef. generalize (N.to_nat n) as kk, e1, c1, live, first.
    induction kk as [|kk IH]; intros e0 c0 l0 f0 H; cbn [for_traders] in H; [inv H; reflexivity|].
    destruct (F (e0, c0, l0) f0) as [[[e3 c3] l3]|] eqn:E1; [|discriminate]. cbn in H.
    unfold F in E1. apply mom_flat_no_orders in E1. destruct E1 as [-> _]. exact (IH _ _ _ _ H).
Qed.

End Dir.
