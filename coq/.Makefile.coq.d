Generated/MacroShapes.vo Generated/MacroShapes.glob Generated/MacroShapes.v.beautified Generated/MacroShapes.required_vo: Generated/MacroShapes.v 
Generated/MacroShapes.vio: Generated/MacroShapes.v 
Generated/MacroShapes.vos Generated/MacroShapes.vok Generated/MacroShapes.required_vos: Generated/MacroShapes.v 
Generated/Layout.vo Generated/Layout.glob Generated/Layout.v.beautified Generated/Layout.required_vo: Generated/Layout.v 
Generated/Layout.vio: Generated/Layout.v 
Generated/Layout.vos Generated/Layout.vok Generated/Layout.required_vos: Generated/Layout.v 
Model/Macro.vo Model/Macro.glob Model/Macro.v.beautified Model/Macro.required_vo: Model/Macro.v Generated/MacroShapes.vo
Model/Macro.vio: Model/Macro.v Generated/MacroShapes.vio
Model/Macro.vos Model/Macro.vok Model/Macro.required_vos: Model/Macro.v Generated/MacroShapes.vos
Model/Types.vo Model/Types.glob Model/Types.v.beautified Model/Types.required_vo: Model/Types.v 
Model/Types.vio: Model/Types.v 
Model/Types.vos Model/Types.vok Model/Types.required_vos: Model/Types.v 
Model/Map.vo Model/Map.glob Model/Map.v.beautified Model/Map.required_vo: Model/Map.v Model/Types.vo
Model/Map.vio: Model/Map.v Model/Types.vio
Model/Map.vos Model/Map.vok Model/Map.required_vos: Model/Map.v Model/Types.vos
Model/Side.vo Model/Side.glob Model/Side.v.beautified Model/Side.required_vo: Model/Side.v Model/Types.vo Model/Map.vo
Model/Side.vio: Model/Side.v Model/Types.vio Model/Map.vio
Model/Side.vos Model/Side.vok Model/Side.required_vos: Model/Side.v Model/Types.vos Model/Map.vos
Model/Book.vo Model/Book.glob Model/Book.v.beautified Model/Book.required_vo: Model/Book.v Model/Types.vo Model/Map.vo Model/Side.vo
Model/Book.vio: Model/Book.v Model/Types.vio Model/Map.vio Model/Side.vio
Model/Book.vos Model/Book.vok Model/Book.required_vos: Model/Book.v Model/Types.vos Model/Map.vos Model/Side.vos
Model/Obs.vo Model/Obs.glob Model/Obs.v.beautified Model/Obs.required_vo: Model/Obs.v Model/Types.vo Model/Map.vo Model/Side.vo Model/Book.vo
Model/Obs.vio: Model/Obs.v Model/Types.vio Model/Map.vio Model/Side.vio Model/Book.vio
Model/Obs.vos Model/Obs.vok Model/Obs.required_vos: Model/Obs.v Model/Types.vos Model/Map.vos Model/Side.vos Model/Book.vos
Model/Codec.vo Model/Codec.glob Model/Codec.v.beautified Model/Codec.required_vo: Model/Codec.v Model/Types.vo Model/Book.vo Model/Obs.vo
Model/Codec.vio: Model/Codec.v Model/Types.vio Model/Book.vio Model/Obs.vio
Model/Codec.vos Model/Codec.vok Model/Codec.required_vos: Model/Codec.v Model/Types.vos Model/Book.vos Model/Obs.vos
Model/PyView.vo Model/PyView.glob Model/PyView.v.beautified Model/PyView.required_vo: Model/PyView.v Model/Types.vo Model/Book.vo Model/Obs.vo Model/Codec.vo
Model/PyView.vio: Model/PyView.v Model/Types.vio Model/Book.vio Model/Obs.vio Model/Codec.vio
Model/PyView.vos Model/PyView.vok Model/PyView.required_vos: Model/PyView.v Model/Types.vos Model/Book.vos Model/Obs.vos Model/Codec.vos
Model/Rng.vo Model/Rng.glob Model/Rng.v.beautified Model/Rng.required_vo: Model/Rng.v Model/Types.vo
Model/Rng.vio: Model/Rng.v Model/Types.vio
Model/Rng.vos Model/Rng.vok Model/Rng.required_vos: Model/Rng.v Model/Types.vos
Model/Float.vo Model/Float.glob Model/Float.v.beautified Model/Float.required_vo: Model/Float.v 
Model/Float.vio: Model/Float.v 
Model/Float.vos Model/Float.vok Model/Float.required_vos: Model/Float.v 
Model/Env.vo Model/Env.glob Model/Env.v.beautified Model/Env.required_vo: Model/Env.v Model/Types.vo Model/Map.vo Model/Side.vo Model/Book.vo Model/Obs.vo Model/Rng.vo
Model/Env.vio: Model/Env.v Model/Types.vio Model/Map.vio Model/Side.vio Model/Book.vio Model/Obs.vio Model/Rng.vio
Model/Env.vos Model/Env.vok Model/Env.required_vos: Model/Env.v Model/Types.vos Model/Map.vos Model/Side.vos Model/Book.vos Model/Obs.vos Model/Rng.vos
Model/EnvObs.vo Model/EnvObs.glob Model/EnvObs.v.beautified Model/EnvObs.required_vo: Model/EnvObs.v Model/Types.vo Model/Book.vo Model/Obs.vo Model/Codec.vo Model/Rng.vo Model/Env.vo
Model/EnvObs.vio: Model/EnvObs.v Model/Types.vio Model/Book.vio Model/Obs.vio Model/Codec.vio Model/Rng.vio Model/Env.vio
Model/EnvObs.vos Model/EnvObs.vok Model/EnvObs.required_vos: Model/EnvObs.v Model/Types.vos Model/Book.vos Model/Obs.vos Model/Codec.vos Model/Rng.vos Model/Env.vos
Model/Agents.vo Model/Agents.glob Model/Agents.v.beautified Model/Agents.required_vo: Model/Agents.v Model/Types.vo Model/Side.vo Model/Book.vo Model/Obs.vo Model/Rng.vo Model/Float.vo Model/Env.vo
Model/Agents.vio: Model/Agents.v Model/Types.vio Model/Side.vio Model/Book.vio Model/Obs.vio Model/Rng.vio Model/Float.vio Model/Env.vio
Model/Agents.vos Model/Agents.vok Model/Agents.required_vos: Model/Agents.v Model/Types.vos Model/Side.vos Model/Book.vos Model/Obs.vos Model/Rng.vos Model/Float.vos Model/Env.vos
Spec/RefBook.vo Spec/RefBook.glob Spec/RefBook.v.beautified Spec/RefBook.required_vo: Spec/RefBook.v Model/Types.vo Model/Book.vo Model/Obs.vo
Spec/RefBook.vio: Spec/RefBook.v Model/Types.vio Model/Book.vio Model/Obs.vio
Spec/RefBook.vos Spec/RefBook.vok Spec/RefBook.required_vos: Spec/RefBook.v Model/Types.vos Model/Book.vos Model/Obs.vos
Spec/Monitors.vo Spec/Monitors.glob Spec/Monitors.v.beautified Spec/Monitors.required_vo: Spec/Monitors.v Model/Types.vo Model/Book.vo Model/Obs.vo Model/Codec.vo Spec/RefBook.vo
Spec/Monitors.vio: Spec/Monitors.v Model/Types.vio Model/Book.vio Model/Obs.vio Model/Codec.vio Spec/RefBook.vio
Spec/Monitors.vos Spec/Monitors.vok Spec/Monitors.required_vos: Spec/Monitors.v Model/Types.vos Model/Book.vos Model/Obs.vos Model/Codec.vos Spec/RefBook.vos
Spec/Runner.vo Spec/Runner.glob Spec/Runner.v.beautified Spec/Runner.required_vo: Spec/Runner.v Model/Types.vo Model/Book.vo Model/Obs.vo Model/Codec.vo Spec/RefBook.vo Spec/Monitors.vo
Spec/Runner.vio: Spec/Runner.v Model/Types.vio Model/Book.vio Model/Obs.vio Model/Codec.vio Spec/RefBook.vio Spec/Monitors.vio
Spec/Runner.vos Spec/Runner.vok Spec/Runner.required_vos: Spec/Runner.v Model/Types.vos Model/Book.vos Model/Obs.vos Model/Codec.vos Spec/RefBook.vos Spec/Monitors.vos
Spec/EnvRunner.vo Spec/EnvRunner.glob Spec/EnvRunner.v.beautified Spec/EnvRunner.required_vo: Spec/EnvRunner.v Model/Types.vo Model/Book.vo Model/Obs.vo Model/Codec.vo Model/Rng.vo Model/Float.vo Model/Env.vo Model/EnvObs.vo Model/Agents.vo Spec/RefBook.vo Spec/Monitors.vo Spec/Runner.vo
Spec/EnvRunner.vio: Spec/EnvRunner.v Model/Types.vio Model/Book.vio Model/Obs.vio Model/Codec.vio Model/Rng.vio Model/Float.vio Model/Env.vio Model/EnvObs.vio Model/Agents.vio Spec/RefBook.vio Spec/Monitors.vio Spec/Runner.vio
Spec/EnvRunner.vos Spec/EnvRunner.vok Spec/EnvRunner.required_vos: Spec/EnvRunner.v Model/Types.vos Model/Book.vos Model/Obs.vos Model/Codec.vos Model/Rng.vos Model/Float.vos Model/Env.vos Model/EnvObs.vos Model/Agents.vos Spec/RefBook.vos Spec/Monitors.vos Spec/Runner.vos
Proofs/Basic.vo Proofs/Basic.glob Proofs/Basic.v.beautified Proofs/Basic.required_vo: Proofs/Basic.v Model/Types.vo Model/Map.vo Model/Side.vo Model/Book.vo
Proofs/Basic.vio: Proofs/Basic.v Model/Types.vio Model/Map.vio Model/Side.vio Model/Book.vio
Proofs/Basic.vos Proofs/Basic.vok Proofs/Basic.required_vos: Proofs/Basic.v Model/Types.vos Model/Map.vos Model/Side.vos Model/Book.vos
Proofs/Grid.vo Proofs/Grid.glob Proofs/Grid.v.beautified Proofs/Grid.required_vo: Proofs/Grid.v Model/Types.vo Model/Map.vo Model/Side.vo Model/Book.vo Proofs/Basic.vo
Proofs/Grid.vio: Proofs/Grid.v Model/Types.vio Model/Map.vio Model/Side.vio Model/Book.vio Proofs/Basic.vio
Proofs/Grid.vos Proofs/Grid.vok Proofs/Grid.required_vos: Proofs/Grid.v Model/Types.vos Model/Map.vos Model/Side.vos Model/Book.vos Proofs/Basic.vos
Proofs/NoTrade.vo Proofs/NoTrade.glob Proofs/NoTrade.v.beautified Proofs/NoTrade.required_vo: Proofs/NoTrade.v Model/Types.vo Model/Map.vo Model/Side.vo Model/Book.vo Model/Obs.vo Proofs/Basic.vo
Proofs/NoTrade.vio: Proofs/NoTrade.v Model/Types.vio Model/Map.vio Model/Side.vio Model/Book.vio Model/Obs.vio Proofs/Basic.vio
Proofs/NoTrade.vos Proofs/NoTrade.vok Proofs/NoTrade.required_vos: Proofs/NoTrade.v Model/Types.vos Model/Map.vos Model/Side.vos Model/Book.vos Model/Obs.vos Proofs/Basic.vos
Proofs/Lifecycle.vo Proofs/Lifecycle.glob Proofs/Lifecycle.v.beautified Proofs/Lifecycle.required_vo: Proofs/Lifecycle.v Model/Types.vo Model/Map.vo Model/Side.vo Model/Book.vo Model/Obs.vo Proofs/Basic.vo
Proofs/Lifecycle.vio: Proofs/Lifecycle.v Model/Types.vio Model/Map.vio Model/Side.vio Model/Book.vio Model/Obs.vio Proofs/Basic.vio
Proofs/Lifecycle.vos Proofs/Lifecycle.vok Proofs/Lifecycle.required_vos: Proofs/Lifecycle.v Model/Types.vos Model/Map.vos Model/Side.vos Model/Book.vos Model/Obs.vos Proofs/Basic.vos
Properties/C04.vo Properties/C04.glob Properties/C04.v.beautified Properties/C04.required_vo: Properties/C04.v Model/Types.vo Model/Book.vo Spec/RefBook.vo Spec/Monitors.vo Proofs/Lifecycle.vo Proofs/Refine.vo Proofs/Volumes.vo Proofs/LifeRef.vo
Properties/C04.vio: Properties/C04.v Model/Types.vio Model/Book.vio Spec/RefBook.vio Spec/Monitors.vio Proofs/Lifecycle.vio Proofs/Refine.vio Proofs/Volumes.vio Proofs/LifeRef.vio
Properties/C04.vos Properties/C04.vok Properties/C04.required_vos: Properties/C04.v Model/Types.vos Model/Book.vos Spec/RefBook.vos Spec/Monitors.vos Proofs/Lifecycle.vos Proofs/Refine.vos Proofs/Volumes.vos Proofs/LifeRef.vos
Properties/C12.vo Properties/C12.glob Properties/C12.v.beautified Properties/C12.required_vo: Properties/C12.v Model/Types.vo Model/Book.vo Model/Obs.vo Spec/RefBook.vo Spec/Monitors.vo Proofs/Grid.vo Proofs/Refine.vo Proofs/Volumes.vo Proofs/LevelsAccount.vo Proofs/RestGrid.vo
Properties/C12.vio: Properties/C12.v Model/Types.vio Model/Book.vio Model/Obs.vio Spec/RefBook.vio Spec/Monitors.vio Proofs/Grid.vio Proofs/Refine.vio Proofs/Volumes.vio Proofs/LevelsAccount.vio Proofs/RestGrid.vio
Properties/C12.vos Properties/C12.vok Properties/C12.required_vos: Properties/C12.v Model/Types.vos Model/Book.vos Model/Obs.vos Spec/RefBook.vos Spec/Monitors.vos Proofs/Grid.vos Proofs/Refine.vos Proofs/Volumes.vos Proofs/LevelsAccount.vos Proofs/RestGrid.vos
Properties/C13.vo Properties/C13.glob Properties/C13.v.beautified Properties/C13.required_vo: Properties/C13.v Model/Types.vo Model/Side.vo Model/Book.vo Model/Obs.vo Model/Rng.vo Model/Env.vo Spec/RefBook.vo Proofs/NoTrade.vo Proofs/MarketNoTrade.vo Proofs/Refine.vo Proofs/Volumes.vo Proofs/FlagRef.vo
Properties/C13.vio: Properties/C13.v Model/Types.vio Model/Side.vio Model/Book.vio Model/Obs.vio Model/Rng.vio Model/Env.vio Spec/RefBook.vio Proofs/NoTrade.vio Proofs/MarketNoTrade.vio Proofs/Refine.vio Proofs/Volumes.vio Proofs/FlagRef.vio
Properties/C13.vos Properties/C13.vok Properties/C13.required_vos: Properties/C13.v Model/Types.vos Model/Side.vos Model/Book.vos Model/Obs.vos Model/Rng.vos Model/Env.vos Spec/RefBook.vos Proofs/NoTrade.vos Proofs/MarketNoTrade.vos Proofs/Refine.vos Proofs/Volumes.vos Proofs/FlagRef.vos
Proofs/Ledger.vo Proofs/Ledger.glob Proofs/Ledger.v.beautified Proofs/Ledger.required_vo: Proofs/Ledger.v Model/Types.vo Model/Map.vo Model/Side.vo Model/Book.vo Proofs/Basic.vo
Proofs/Ledger.vio: Proofs/Ledger.v Model/Types.vio Model/Map.vio Model/Side.vio Model/Book.vio Proofs/Basic.vio
Proofs/Ledger.vos Proofs/Ledger.vok Proofs/Ledger.required_vos: Proofs/Ledger.v Model/Types.vos Model/Map.vos Model/Side.vos Model/Book.vos Proofs/Basic.vos
Properties/C03.vo Properties/C03.glob Properties/C03.v.beautified Properties/C03.required_vo: Properties/C03.v Model/Types.vo Model/Book.vo Spec/RefBook.vo Proofs/Ledger.vo Proofs/Refine.vo Proofs/Volumes.vo Proofs/PosVol.vo Proofs/LedgerRef.vo
Properties/C03.vio: Properties/C03.v Model/Types.vio Model/Book.vio Spec/RefBook.vio Proofs/Ledger.vio Proofs/Refine.vio Proofs/Volumes.vio Proofs/PosVol.vio Proofs/LedgerRef.vio
Properties/C03.vos Properties/C03.vok Properties/C03.required_vos: Properties/C03.v Model/Types.vos Model/Book.vos Spec/RefBook.vos Proofs/Ledger.vos Proofs/Refine.vos Proofs/Volumes.vos Proofs/PosVol.vos Proofs/LedgerRef.vos
Proofs/EnvProps.vo Proofs/EnvProps.glob Proofs/EnvProps.v.beautified Proofs/EnvProps.required_vo: Proofs/EnvProps.v Model/Types.vo Model/Map.vo Model/Side.vo Model/Book.vo Model/Obs.vo Model/Rng.vo Model/Env.vo Model/EnvObs.vo Proofs/Basic.vo
Proofs/EnvProps.vio: Proofs/EnvProps.v Model/Types.vio Model/Map.vio Model/Side.vio Model/Book.vio Model/Obs.vio Model/Rng.vio Model/Env.vio Model/EnvObs.vio Proofs/Basic.vio
Proofs/EnvProps.vos Proofs/EnvProps.vok Proofs/EnvProps.required_vos: Proofs/EnvProps.v Model/Types.vos Model/Map.vos Model/Side.vos Model/Book.vos Model/Obs.vos Model/Rng.vos Model/Env.vos Model/EnvObs.vos Proofs/Basic.vos
Properties/C08.vo Properties/C08.glob Properties/C08.v.beautified Properties/C08.required_vo: Properties/C08.v Model/Types.vo Model/Book.vo Model/Obs.vo Model/Rng.vo Model/Env.vo Proofs/EnvProps.vo
Properties/C08.vio: Properties/C08.v Model/Types.vio Model/Book.vio Model/Obs.vio Model/Rng.vio Model/Env.vio Proofs/EnvProps.vio
Properties/C08.vos Properties/C08.vok Properties/C08.required_vos: Properties/C08.v Model/Types.vos Model/Book.vos Model/Obs.vos Model/Rng.vos Model/Env.vos Proofs/EnvProps.vos
Properties/C10.vo Properties/C10.glob Properties/C10.v.beautified Properties/C10.required_vo: Properties/C10.v Model/Types.vo Model/Book.vo Model/Obs.vo Model/Rng.vo Model/Env.vo Proofs/EnvProps.vo
Properties/C10.vio: Properties/C10.v Model/Types.vio Model/Book.vio Model/Obs.vio Model/Rng.vio Model/Env.vio Proofs/EnvProps.vio
Properties/C10.vos Properties/C10.vok Properties/C10.required_vos: Properties/C10.v Model/Types.vos Model/Book.vos Model/Obs.vos Model/Rng.vos Model/Env.vos Proofs/EnvProps.vos
Properties/C11.vo Properties/C11.glob Properties/C11.v.beautified Properties/C11.required_vo: Properties/C11.v Model/Types.vo Model/Book.vo Model/Obs.vo Model/Rng.vo Model/Env.vo Model/EnvObs.vo Proofs/EnvProps.vo Proofs/Ledger.vo Proofs/StepVolume.vo
Properties/C11.vio: Properties/C11.v Model/Types.vio Model/Book.vio Model/Obs.vio Model/Rng.vio Model/Env.vio Model/EnvObs.vio Proofs/EnvProps.vio Proofs/Ledger.vio Proofs/StepVolume.vio
Properties/C11.vos Properties/C11.vok Properties/C11.required_vos: Properties/C11.v Model/Types.vos Model/Book.vos Model/Obs.vos Model/Rng.vos Model/Env.vos Model/EnvObs.vos Proofs/EnvProps.vos Proofs/Ledger.vos Proofs/StepVolume.vos
Properties/C14.vo Properties/C14.glob Properties/C14.v.beautified Properties/C14.required_vo: Properties/C14.v Model/Types.vo Model/Book.vo Model/Obs.vo Model/Rng.vo Model/Env.vo Spec/RefBook.vo Proofs/EnvProps.vo Proofs/Refine.vo Proofs/Volumes.vo Proofs/MarketInv.vo Proofs/AssetProjection.vo
Properties/C14.vio: Properties/C14.v Model/Types.vio Model/Book.vio Model/Obs.vio Model/Rng.vio Model/Env.vio Spec/RefBook.vio Proofs/EnvProps.vio Proofs/Refine.vio Proofs/Volumes.vio Proofs/MarketInv.vio Proofs/AssetProjection.vio
Properties/C14.vos Properties/C14.vok Properties/C14.required_vos: Properties/C14.v Model/Types.vos Model/Book.vos Model/Obs.vos Model/Rng.vos Model/Env.vos Spec/RefBook.vos Proofs/EnvProps.vos Proofs/Refine.vos Proofs/Volumes.vos Proofs/MarketInv.vos Proofs/AssetProjection.vos
Properties/C15.vo Properties/C15.glob Properties/C15.v.beautified Properties/C15.required_vo: Properties/C15.v Model/Types.vo Model/Rng.vo Model/Env.vo Proofs/EnvProps.vo Proofs/Uniform.vo
Properties/C15.vio: Properties/C15.v Model/Types.vio Model/Rng.vio Model/Env.vio Proofs/EnvProps.vio Proofs/Uniform.vio
Properties/C15.vos Properties/C15.vok Properties/C15.required_vos: Properties/C15.v Model/Types.vos Model/Rng.vos Model/Env.vos Proofs/EnvProps.vos Proofs/Uniform.vos
Proofs/AgentProps.vo Proofs/AgentProps.glob Proofs/AgentProps.v.beautified Proofs/AgentProps.required_vo: Proofs/AgentProps.v Model/Types.vo Model/Side.vo Model/Book.vo Model/Obs.vo Model/Rng.vo Model/Float.vo Model/Env.vo Model/Agents.vo
Proofs/AgentProps.vio: Proofs/AgentProps.v Model/Types.vio Model/Side.vio Model/Book.vio Model/Obs.vio Model/Rng.vio Model/Float.vio Model/Env.vio Model/Agents.vio
Proofs/AgentProps.vos Proofs/AgentProps.vok Proofs/AgentProps.required_vos: Proofs/AgentProps.v Model/Types.vos Model/Side.vos Model/Book.vos Model/Obs.vos Model/Rng.vos Model/Float.vos Model/Env.vos Model/Agents.vos
Properties/C09.vo Properties/C09.glob Properties/C09.v.beautified Properties/C09.required_vo: Properties/C09.v Model/Types.vo Model/Book.vo Model/Rng.vo Model/Float.vo Model/Env.vo Model/Agents.vo
Properties/C09.vio: Properties/C09.v Model/Types.vio Model/Book.vio Model/Rng.vio Model/Float.vio Model/Env.vio Model/Agents.vio
Properties/C09.vos Properties/C09.vok Properties/C09.required_vos: Properties/C09.v Model/Types.vos Model/Book.vos Model/Rng.vos Model/Float.vos Model/Env.vos Model/Agents.vos
Properties/C16.vo Properties/C16.glob Properties/C16.v.beautified Properties/C16.required_vo: Properties/C16.v Model/Types.vo Model/Side.vo Model/Book.vo Model/Rng.vo Model/Float.vo Model/Env.vo Model/Agents.vo Proofs/AgentProps.vo Proofs/AgentDir.vo Proofs/AgentOrders.vo
Properties/C16.vio: Properties/C16.v Model/Types.vio Model/Side.vio Model/Book.vio Model/Rng.vio Model/Float.vio Model/Env.vio Model/Agents.vio Proofs/AgentProps.vio Proofs/AgentDir.vio Proofs/AgentOrders.vio
Properties/C16.vos Properties/C16.vok Properties/C16.required_vos: Properties/C16.v Model/Types.vos Model/Side.vos Model/Book.vos Model/Rng.vos Model/Float.vos Model/Env.vos Model/Agents.vos Proofs/AgentProps.vos Proofs/AgentDir.vos Proofs/AgentOrders.vos
Properties/C17.vo Properties/C17.glob Properties/C17.v.beautified Properties/C17.required_vo: Properties/C17.v Model/Types.vo Model/Side.vo Model/Book.vo Model/Rng.vo Model/Float.vo Model/Env.vo Model/Agents.vo Proofs/AgentProps.vo Proofs/AgentDir.vo Proofs/FloatSym.vo
Properties/C17.vio: Properties/C17.v Model/Types.vio Model/Side.vio Model/Book.vio Model/Rng.vio Model/Float.vio Model/Env.vio Model/Agents.vio Proofs/AgentProps.vio Proofs/AgentDir.vio Proofs/FloatSym.vio
Properties/C17.vos Properties/C17.vok Properties/C17.required_vos: Properties/C17.v Model/Types.vos Model/Side.vos Model/Book.vos Model/Rng.vos Model/Float.vos Model/Env.vos Model/Agents.vos Proofs/AgentProps.vos Proofs/AgentDir.vos Proofs/FloatSym.vos
Properties/C20.vo Properties/C20.glob Properties/C20.v.beautified Properties/C20.required_vo: Properties/C20.v Generated/MacroShapes.vo Model/Macro.vo
Properties/C20.vio: Properties/C20.v Generated/MacroShapes.vio Model/Macro.vio
Properties/C20.vos Properties/C20.vok Properties/C20.required_vos: Properties/C20.v Generated/MacroShapes.vos Model/Macro.vos
Properties/C19.vo Properties/C19.glob Properties/C19.v.beautified Properties/C19.required_vo: Properties/C19.v Generated/Layout.vo
Properties/C19.vio: Properties/C19.v Generated/Layout.vio
Properties/C19.vos Properties/C19.vok Properties/C19.required_vos: Properties/C19.v Generated/Layout.vos
Properties/C18.vo Properties/C18.glob Properties/C18.v.beautified Properties/C18.required_vo: Properties/C18.v Model/Types.vo Model/Book.vo Model/Obs.vo Model/Codec.vo Model/PyView.vo Proofs/Grid.vo Generated/Layout.vo
Properties/C18.vio: Properties/C18.v Model/Types.vio Model/Book.vio Model/Obs.vio Model/Codec.vio Model/PyView.vio Proofs/Grid.vio Generated/Layout.vio
Properties/C18.vos Properties/C18.vok Properties/C18.required_vos: Properties/C18.v Model/Types.vos Model/Book.vos Model/Obs.vos Model/Codec.vos Model/PyView.vos Proofs/Grid.vos Generated/Layout.vos
Proofs/MapLemmas.vo Proofs/MapLemmas.glob Proofs/MapLemmas.v.beautified Proofs/MapLemmas.required_vo: Proofs/MapLemmas.v Model/Types.vo Model/Map.vo Proofs/Basic.vo
Proofs/MapLemmas.vio: Proofs/MapLemmas.v Model/Types.vio Model/Map.vio Proofs/Basic.vio
Proofs/MapLemmas.vos Proofs/MapLemmas.vok Proofs/MapLemmas.required_vos: Proofs/MapLemmas.v Model/Types.vos Model/Map.vos Proofs/Basic.vos
Proofs/Refine.vo Proofs/Refine.glob Proofs/Refine.v.beautified Proofs/Refine.required_vo: Proofs/Refine.v Model/Types.vo Model/Map.vo Model/Side.vo Model/Book.vo Model/Obs.vo Spec/RefBook.vo Proofs/Basic.vo Proofs/MapLemmas.vo
Proofs/Refine.vio: Proofs/Refine.v Model/Types.vio Model/Map.vio Model/Side.vio Model/Book.vio Model/Obs.vio Spec/RefBook.vio Proofs/Basic.vio Proofs/MapLemmas.vio
Proofs/Refine.vos Proofs/Refine.vok Proofs/Refine.required_vos: Proofs/Refine.v Model/Types.vos Model/Map.vos Model/Side.vos Model/Book.vos Model/Obs.vos Spec/RefBook.vos Proofs/Basic.vos Proofs/MapLemmas.vos
Proofs/RefProps.vo Proofs/RefProps.glob Proofs/RefProps.v.beautified Proofs/RefProps.required_vo: Proofs/RefProps.v Model/Types.vo Model/Book.vo Model/Obs.vo Spec/RefBook.vo Proofs/Basic.vo Proofs/Ledger.vo
Proofs/RefProps.vio: Proofs/RefProps.v Model/Types.vio Model/Book.vio Model/Obs.vio Spec/RefBook.vio Proofs/Basic.vio Proofs/Ledger.vio
Proofs/RefProps.vos Proofs/RefProps.vok Proofs/RefProps.required_vos: Proofs/RefProps.v Model/Types.vos Model/Book.vos Model/Obs.vos Spec/RefBook.vos Proofs/Basic.vos Proofs/Ledger.vos
Proofs/Volumes.vo Proofs/Volumes.glob Proofs/Volumes.v.beautified Proofs/Volumes.required_vo: Proofs/Volumes.v Model/Types.vo Model/Map.vo Model/Side.vo Model/Book.vo Model/Obs.vo Spec/RefBook.vo Proofs/Basic.vo Proofs/MapLemmas.vo Proofs/Refine.vo
Proofs/Volumes.vio: Proofs/Volumes.v Model/Types.vio Model/Map.vio Model/Side.vio Model/Book.vio Model/Obs.vio Spec/RefBook.vio Proofs/Basic.vio Proofs/MapLemmas.vio Proofs/Refine.vio
Proofs/Volumes.vos Proofs/Volumes.vok Proofs/Volumes.required_vos: Proofs/Volumes.v Model/Types.vos Model/Map.vos Model/Side.vos Model/Book.vos Model/Obs.vos Spec/RefBook.vos Proofs/Basic.vos Proofs/MapLemmas.vos Proofs/Refine.vos
Proofs/Views.vo Proofs/Views.glob Proofs/Views.v.beautified Proofs/Views.required_vo: Proofs/Views.v Model/Types.vo Model/Map.vo Model/Side.vo Model/Book.vo Model/Obs.vo Spec/RefBook.vo Proofs/Basic.vo Proofs/MapLemmas.vo Proofs/Refine.vo Proofs/Volumes.vo
Proofs/Views.vio: Proofs/Views.v Model/Types.vio Model/Map.vio Model/Side.vio Model/Book.vio Model/Obs.vio Spec/RefBook.vio Proofs/Basic.vio Proofs/MapLemmas.vio Proofs/Refine.vio Proofs/Volumes.vio
Proofs/Views.vos Proofs/Views.vok Proofs/Views.required_vos: Proofs/Views.v Model/Types.vos Model/Map.vos Model/Side.vos Model/Book.vos Model/Obs.vos Spec/RefBook.vos Proofs/Basic.vos Proofs/MapLemmas.vos Proofs/Refine.vos Proofs/Volumes.vos
Proofs/Reload.vo Proofs/Reload.glob Proofs/Reload.v.beautified Proofs/Reload.required_vo: Proofs/Reload.v Model/Types.vo Model/Map.vo Model/Side.vo Model/Book.vo Model/Obs.vo Spec/RefBook.vo Proofs/Basic.vo Proofs/MapLemmas.vo Proofs/Refine.vo Proofs/Volumes.vo
Proofs/Reload.vio: Proofs/Reload.v Model/Types.vio Model/Map.vio Model/Side.vio Model/Book.vio Model/Obs.vio Spec/RefBook.vio Proofs/Basic.vio Proofs/MapLemmas.vio Proofs/Refine.vio Proofs/Volumes.vio
Proofs/Reload.vos Proofs/Reload.vok Proofs/Reload.required_vos: Proofs/Reload.v Model/Types.vos Model/Map.vos Model/Side.vos Model/Book.vos Model/Obs.vos Spec/RefBook.vos Proofs/Basic.vos Proofs/MapLemmas.vos Proofs/Refine.vos Proofs/Volumes.vos
Proofs/PosVol.vo Proofs/PosVol.glob Proofs/PosVol.v.beautified Proofs/PosVol.required_vo: Proofs/PosVol.v Model/Types.vo Model/Map.vo Model/Side.vo Model/Book.vo Model/Obs.vo Spec/RefBook.vo Proofs/Basic.vo Proofs/MapLemmas.vo Proofs/Refine.vo
Proofs/PosVol.vio: Proofs/PosVol.v Model/Types.vio Model/Map.vio Model/Side.vio Model/Book.vio Model/Obs.vio Spec/RefBook.vio Proofs/Basic.vio Proofs/MapLemmas.vio Proofs/Refine.vio
Proofs/PosVol.vos Proofs/PosVol.vok Proofs/PosVol.required_vos: Proofs/PosVol.v Model/Types.vos Model/Map.vos Model/Side.vos Model/Book.vos Model/Obs.vos Spec/RefBook.vos Proofs/Basic.vos Proofs/MapLemmas.vos Proofs/Refine.vos
Proofs/Uncrossed.vo Proofs/Uncrossed.glob Proofs/Uncrossed.v.beautified Proofs/Uncrossed.required_vo: Proofs/Uncrossed.v Model/Types.vo Model/Map.vo Model/Side.vo Model/Book.vo Model/Obs.vo Spec/RefBook.vo Proofs/Basic.vo Proofs/MapLemmas.vo Proofs/Refine.vo Proofs/Volumes.vo Proofs/Views.vo Proofs/Reload.vo Proofs/PosVol.vo
Proofs/Uncrossed.vio: Proofs/Uncrossed.v Model/Types.vio Model/Map.vio Model/Side.vio Model/Book.vio Model/Obs.vio Spec/RefBook.vio Proofs/Basic.vio Proofs/MapLemmas.vio Proofs/Refine.vio Proofs/Volumes.vio Proofs/Views.vio Proofs/Reload.vio Proofs/PosVol.vio
Proofs/Uncrossed.vos Proofs/Uncrossed.vok Proofs/Uncrossed.required_vos: Proofs/Uncrossed.v Model/Types.vos Model/Map.vos Model/Side.vos Model/Book.vos Model/Obs.vos Spec/RefBook.vos Proofs/Basic.vos Proofs/MapLemmas.vos Proofs/Refine.vos Proofs/Volumes.vos Proofs/Views.vos Proofs/Reload.vos Proofs/PosVol.vos
Proofs/LifeRef.vo Proofs/LifeRef.glob Proofs/LifeRef.v.beautified Proofs/LifeRef.required_vo: Proofs/LifeRef.v Model/Types.vo Model/Map.vo Model/Side.vo Model/Book.vo Model/Obs.vo Spec/RefBook.vo Spec/Monitors.vo Proofs/Basic.vo Proofs/MapLemmas.vo Proofs/Refine.vo Proofs/Volumes.vo Proofs/Reload.vo Proofs/PosVol.vo
Proofs/LifeRef.vio: Proofs/LifeRef.v Model/Types.vio Model/Map.vio Model/Side.vio Model/Book.vio Model/Obs.vio Spec/RefBook.vio Spec/Monitors.vio Proofs/Basic.vio Proofs/MapLemmas.vio Proofs/Refine.vio Proofs/Volumes.vio Proofs/Reload.vio Proofs/PosVol.vio
Proofs/LifeRef.vos Proofs/LifeRef.vok Proofs/LifeRef.required_vos: Proofs/LifeRef.v Model/Types.vos Model/Map.vos Model/Side.vos Model/Book.vos Model/Obs.vos Spec/RefBook.vos Spec/Monitors.vos Proofs/Basic.vos Proofs/MapLemmas.vos Proofs/Refine.vos Proofs/Volumes.vos Proofs/Reload.vos Proofs/PosVol.vos
Proofs/LedgerRef.vo Proofs/LedgerRef.glob Proofs/LedgerRef.v.beautified Proofs/LedgerRef.required_vo: Proofs/LedgerRef.v Model/Types.vo Model/Map.vo Model/Side.vo Model/Book.vo Model/Obs.vo Spec/RefBook.vo Spec/Monitors.vo Proofs/Basic.vo Proofs/MapLemmas.vo Proofs/Ledger.vo Proofs/Refine.vo Proofs/Volumes.vo Proofs/Views.vo Proofs/Reload.vo Proofs/PosVol.vo Proofs/LifeRef.vo
Proofs/LedgerRef.vio: Proofs/LedgerRef.v Model/Types.vio Model/Map.vio Model/Side.vio Model/Book.vio Model/Obs.vio Spec/RefBook.vio Spec/Monitors.vio Proofs/Basic.vio Proofs/MapLemmas.vio Proofs/Ledger.vio Proofs/Refine.vio Proofs/Volumes.vio Proofs/Views.vio Proofs/Reload.vio Proofs/PosVol.vio Proofs/LifeRef.vio
Proofs/LedgerRef.vos Proofs/LedgerRef.vok Proofs/LedgerRef.required_vos: Proofs/LedgerRef.v Model/Types.vos Model/Map.vos Model/Side.vos Model/Book.vos Model/Obs.vos Spec/RefBook.vos Spec/Monitors.vos Proofs/Basic.vos Proofs/MapLemmas.vos Proofs/Ledger.vos Proofs/Refine.vos Proofs/Volumes.vos Proofs/Views.vos Proofs/Reload.vos Proofs/PosVol.vos Proofs/LifeRef.vos
Proofs/Progress.vo Proofs/Progress.glob Proofs/Progress.v.beautified Proofs/Progress.required_vo: Proofs/Progress.v Model/Types.vo Model/Map.vo Model/Side.vo Model/Book.vo Model/Obs.vo Spec/RefBook.vo Proofs/Basic.vo Proofs/MapLemmas.vo Proofs/Refine.vo Proofs/Volumes.vo Proofs/Views.vo Proofs/Reload.vo
Proofs/Progress.vio: Proofs/Progress.v Model/Types.vio Model/Map.vio Model/Side.vio Model/Book.vio Model/Obs.vio Spec/RefBook.vio Proofs/Basic.vio Proofs/MapLemmas.vio Proofs/Refine.vio Proofs/Volumes.vio Proofs/Views.vio Proofs/Reload.vio
Proofs/Progress.vos Proofs/Progress.vok Proofs/Progress.required_vos: Proofs/Progress.v Model/Types.vos Model/Map.vos Model/Side.vos Model/Book.vos Model/Obs.vos Spec/RefBook.vos Proofs/Basic.vos Proofs/MapLemmas.vos Proofs/Refine.vos Proofs/Volumes.vos Proofs/Views.vos Proofs/Reload.vos
Proofs/Uniform.vo Proofs/Uniform.glob Proofs/Uniform.v.beautified Proofs/Uniform.required_vo: Proofs/Uniform.v Model/Types.vo Model/Rng.vo Proofs/Basic.vo Proofs/EnvProps.vo
Proofs/Uniform.vio: Proofs/Uniform.v Model/Types.vio Model/Rng.vio Proofs/Basic.vio Proofs/EnvProps.vio
Proofs/Uniform.vos Proofs/Uniform.vok Proofs/Uniform.required_vos: Proofs/Uniform.v Model/Types.vos Model/Rng.vos Proofs/Basic.vos Proofs/EnvProps.vos
Proofs/LevelsAccount.vo Proofs/LevelsAccount.glob Proofs/LevelsAccount.v.beautified Proofs/LevelsAccount.required_vo: Proofs/LevelsAccount.v Model/Types.vo Model/Map.vo Model/Side.vo Model/Book.vo Model/Obs.vo Spec/RefBook.vo Spec/Monitors.vo Proofs/Basic.vo Proofs/Refine.vo Proofs/Volumes.vo Proofs/Views.vo
Proofs/LevelsAccount.vio: Proofs/LevelsAccount.v Model/Types.vio Model/Map.vio Model/Side.vio Model/Book.vio Model/Obs.vio Spec/RefBook.vio Spec/Monitors.vio Proofs/Basic.vio Proofs/Refine.vio Proofs/Volumes.vio Proofs/Views.vio
Proofs/LevelsAccount.vos Proofs/LevelsAccount.vok Proofs/LevelsAccount.required_vos: Proofs/LevelsAccount.v Model/Types.vos Model/Map.vos Model/Side.vos Model/Book.vos Model/Obs.vos Spec/RefBook.vos Spec/Monitors.vos Proofs/Basic.vos Proofs/Refine.vos Proofs/Volumes.vos Proofs/Views.vos
Proofs/RestGrid.vo Proofs/RestGrid.glob Proofs/RestGrid.v.beautified Proofs/RestGrid.required_vo: Proofs/RestGrid.v Model/Types.vo Model/Map.vo Model/Side.vo Model/Book.vo Model/Obs.vo Spec/RefBook.vo Spec/Monitors.vo Proofs/Basic.vo Proofs/MapLemmas.vo Proofs/Grid.vo Proofs/Refine.vo Proofs/Volumes.vo Proofs/Views.vo Proofs/Reload.vo Proofs/PosVol.vo Proofs/LifeRef.vo Proofs/LevelsAccount.vo
Proofs/RestGrid.vio: Proofs/RestGrid.v Model/Types.vio Model/Map.vio Model/Side.vio Model/Book.vio Model/Obs.vio Spec/RefBook.vio Spec/Monitors.vio Proofs/Basic.vio Proofs/MapLemmas.vio Proofs/Grid.vio Proofs/Refine.vio Proofs/Volumes.vio Proofs/Views.vio Proofs/Reload.vio Proofs/PosVol.vio Proofs/LifeRef.vio Proofs/LevelsAccount.vio
Proofs/RestGrid.vos Proofs/RestGrid.vok Proofs/RestGrid.required_vos: Proofs/RestGrid.v Model/Types.vos Model/Map.vos Model/Side.vos Model/Book.vos Model/Obs.vos Spec/RefBook.vos Spec/Monitors.vos Proofs/Basic.vos Proofs/MapLemmas.vos Proofs/Grid.vos Proofs/Refine.vos Proofs/Volumes.vos Proofs/Views.vos Proofs/Reload.vos Proofs/PosVol.vos Proofs/LifeRef.vos Proofs/LevelsAccount.vos
Proofs/AgentDir.vo Proofs/AgentDir.glob Proofs/AgentDir.v.beautified Proofs/AgentDir.required_vo: Proofs/AgentDir.v Model/Types.vo Model/Side.vo Model/Book.vo Model/Rng.vo Model/Float.vo Model/Env.vo Model/Agents.vo Proofs/Basic.vo Proofs/EnvProps.vo Proofs/AgentProps.vo
Proofs/AgentDir.vio: Proofs/AgentDir.v Model/Types.vio Model/Side.vio Model/Book.vio Model/Rng.vio Model/Float.vio Model/Env.vio Model/Agents.vio Proofs/Basic.vio Proofs/EnvProps.vio Proofs/AgentProps.vio
Proofs/AgentDir.vos Proofs/AgentDir.vok Proofs/AgentDir.required_vos: Proofs/AgentDir.v Model/Types.vos Model/Side.vos Model/Book.vos Model/Rng.vos Model/Float.vos Model/Env.vos Model/Agents.vos Proofs/Basic.vos Proofs/EnvProps.vos Proofs/AgentProps.vos
Proofs/AgentOrders.vo Proofs/AgentOrders.glob Proofs/AgentOrders.v.beautified Proofs/AgentOrders.required_vo: Proofs/AgentOrders.v Model/Types.vo Model/Side.vo Model/Book.vo Model/Rng.vo Model/Float.vo Model/Env.vo Model/Agents.vo Proofs/Basic.vo Proofs/EnvProps.vo Proofs/AgentProps.vo Proofs/AgentDir.vo
Proofs/AgentOrders.vio: Proofs/AgentOrders.v Model/Types.vio Model/Side.vio Model/Book.vio Model/Rng.vio Model/Float.vio Model/Env.vio Model/Agents.vio Proofs/Basic.vio Proofs/EnvProps.vio Proofs/AgentProps.vio Proofs/AgentDir.vio
Proofs/AgentOrders.vos Proofs/AgentOrders.vok Proofs/AgentOrders.required_vos: Proofs/AgentOrders.v Model/Types.vos Model/Side.vos Model/Book.vos Model/Rng.vos Model/Float.vos Model/Env.vos Model/Agents.vos Proofs/Basic.vos Proofs/EnvProps.vos Proofs/AgentProps.vos Proofs/AgentDir.vos
Proofs/FloatSym.vo Proofs/FloatSym.glob Proofs/FloatSym.v.beautified Proofs/FloatSym.required_vo: Proofs/FloatSym.v Model/Float.vo Model/Types.vo Model/Agents.vo Proofs/AgentDir.vo Model/Map.vo Model/Side.vo Model/Book.vo Model/Env.vo Proofs/Refine.vo Proofs/Views.vo
Proofs/FloatSym.vio: Proofs/FloatSym.v Model/Float.vio Model/Types.vio Model/Agents.vio Proofs/AgentDir.vio Model/Map.vio Model/Side.vio Model/Book.vio Model/Env.vio Proofs/Refine.vio Proofs/Views.vio
Proofs/FloatSym.vos Proofs/FloatSym.vok Proofs/FloatSym.required_vos: Proofs/FloatSym.v Model/Float.vos Model/Types.vos Model/Agents.vos Proofs/AgentDir.vos Model/Map.vos Model/Side.vos Model/Book.vos Model/Env.vos Proofs/Refine.vos Proofs/Views.vos
Proofs/MarketInv.vo Proofs/MarketInv.glob Proofs/MarketInv.v.beautified Proofs/MarketInv.required_vo: Proofs/MarketInv.v Model/Types.vo Model/Map.vo Model/Side.vo Model/Book.vo Model/Obs.vo Model/Rng.vo Model/Env.vo Spec/RefBook.vo Proofs/Basic.vo Proofs/Refine.vo Proofs/Volumes.vo Proofs/Views.vo Proofs/Reload.vo Proofs/EnvProps.vo
Proofs/MarketInv.vio: Proofs/MarketInv.v Model/Types.vio Model/Map.vio Model/Side.vio Model/Book.vio Model/Obs.vio Model/Rng.vio Model/Env.vio Spec/RefBook.vio Proofs/Basic.vio Proofs/Refine.vio Proofs/Volumes.vio Proofs/Views.vio Proofs/Reload.vio Proofs/EnvProps.vio
Proofs/MarketInv.vos Proofs/MarketInv.vok Proofs/MarketInv.required_vos: Proofs/MarketInv.v Model/Types.vos Model/Map.vos Model/Side.vos Model/Book.vos Model/Obs.vos Model/Rng.vos Model/Env.vos Spec/RefBook.vos Proofs/Basic.vos Proofs/Refine.vos Proofs/Volumes.vos Proofs/Views.vos Proofs/Reload.vos Proofs/EnvProps.vos
Proofs/StepVolume.vo Proofs/StepVolume.glob Proofs/StepVolume.v.beautified Proofs/StepVolume.required_vo: Proofs/StepVolume.v Model/Types.vo Model/Map.vo Model/Side.vo Model/Book.vo Model/Obs.vo Model/Rng.vo Model/Env.vo Proofs/Basic.vo Proofs/Ledger.vo Proofs/EnvProps.vo
Proofs/StepVolume.vio: Proofs/StepVolume.v Model/Types.vio Model/Map.vio Model/Side.vio Model/Book.vio Model/Obs.vio Model/Rng.vio Model/Env.vio Proofs/Basic.vio Proofs/Ledger.vio Proofs/EnvProps.vio
Proofs/StepVolume.vos Proofs/StepVolume.vok Proofs/StepVolume.required_vos: Proofs/StepVolume.v Model/Types.vos Model/Map.vos Model/Side.vos Model/Book.vos Model/Obs.vos Model/Rng.vos Model/Env.vos Proofs/Basic.vos Proofs/Ledger.vos Proofs/EnvProps.vos
Proofs/MarketNoTrade.vo Proofs/MarketNoTrade.glob Proofs/MarketNoTrade.v.beautified Proofs/MarketNoTrade.required_vo: Proofs/MarketNoTrade.v Model/Types.vo Model/Map.vo Model/Side.vo Model/Book.vo Model/Obs.vo Model/Rng.vo Model/Env.vo Proofs/Basic.vo Proofs/NoTrade.vo Proofs/StepVolume.vo
Proofs/MarketNoTrade.vio: Proofs/MarketNoTrade.v Model/Types.vio Model/Map.vio Model/Side.vio Model/Book.vio Model/Obs.vio Model/Rng.vio Model/Env.vio Proofs/Basic.vio Proofs/NoTrade.vio Proofs/StepVolume.vio
Proofs/MarketNoTrade.vos Proofs/MarketNoTrade.vok Proofs/MarketNoTrade.required_vos: Proofs/MarketNoTrade.v Model/Types.vos Model/Map.vos Model/Side.vos Model/Book.vos Model/Obs.vos Model/Rng.vos Model/Env.vos Proofs/Basic.vos Proofs/NoTrade.vos Proofs/StepVolume.vos
Proofs/FlagRef.vo Proofs/FlagRef.glob Proofs/FlagRef.v.beautified Proofs/FlagRef.required_vo: Proofs/FlagRef.v Model/Types.vo Model/Map.vo Model/Side.vo Model/Book.vo Model/Obs.vo Spec/RefBook.vo Proofs/Basic.vo Proofs/Refine.vo Proofs/Volumes.vo Proofs/Reload.vo
Proofs/FlagRef.vio: Proofs/FlagRef.v Model/Types.vio Model/Map.vio Model/Side.vio Model/Book.vio Model/Obs.vio Spec/RefBook.vio Proofs/Basic.vio Proofs/Refine.vio Proofs/Volumes.vio Proofs/Reload.vio
Proofs/FlagRef.vos Proofs/FlagRef.vok Proofs/FlagRef.required_vos: Proofs/FlagRef.v Model/Types.vos Model/Map.vos Model/Side.vos Model/Book.vos Model/Obs.vos Spec/RefBook.vos Proofs/Basic.vos Proofs/Refine.vos Proofs/Volumes.vos Proofs/Reload.vos
Proofs/AssetProjection.vo Proofs/AssetProjection.glob Proofs/AssetProjection.v.beautified Proofs/AssetProjection.required_vo: Proofs/AssetProjection.v Model/Types.vo Model/Map.vo Model/Side.vo Model/Book.vo Model/Obs.vo Model/Rng.vo Model/Env.vo Proofs/Basic.vo Proofs/EnvProps.vo
Proofs/AssetProjection.vio: Proofs/AssetProjection.v Model/Types.vio Model/Map.vio Model/Side.vio Model/Book.vio Model/Obs.vio Model/Rng.vio Model/Env.vio Proofs/Basic.vio Proofs/EnvProps.vio
Proofs/AssetProjection.vos Proofs/AssetProjection.vok Proofs/AssetProjection.required_vos: Proofs/AssetProjection.v Model/Types.vos Model/Map.vos Model/Side.vos Model/Book.vos Model/Obs.vos Model/Rng.vos Model/Env.vos Proofs/Basic.vos Proofs/EnvProps.vos
Properties/C01.vo Properties/C01.glob Properties/C01.v.beautified Properties/C01.required_vo: Properties/C01.v Model/Types.vo Model/Map.vo Model/Side.vo Model/Book.vo Model/Obs.vo Spec/RefBook.vo Proofs/Ledger.vo Proofs/Refine.vo Proofs/RefProps.vo Proofs/Volumes.vo Proofs/Reload.vo Proofs/Progress.vo
Properties/C01.vio: Properties/C01.v Model/Types.vio Model/Map.vio Model/Side.vio Model/Book.vio Model/Obs.vio Spec/RefBook.vio Proofs/Ledger.vio Proofs/Refine.vio Proofs/RefProps.vio Proofs/Volumes.vio Proofs/Reload.vio Proofs/Progress.vio
Properties/C01.vos Properties/C01.vok Properties/C01.required_vos: Properties/C01.v Model/Types.vos Model/Map.vos Model/Side.vos Model/Book.vos Model/Obs.vos Spec/RefBook.vos Proofs/Ledger.vos Proofs/Refine.vos Proofs/RefProps.vos Proofs/Volumes.vos Proofs/Reload.vos Proofs/Progress.vos
Properties/C02.vo Properties/C02.glob Properties/C02.v.beautified Properties/C02.required_vo: Properties/C02.v Model/Types.vo Model/Map.vo Model/Side.vo Model/Book.vo Model/Obs.vo Spec/RefBook.vo Proofs/Refine.vo Proofs/Volumes.vo Proofs/Views.vo Proofs/Reload.vo Proofs/PosVol.vo Proofs/Uncrossed.vo
Properties/C02.vio: Properties/C02.v Model/Types.vio Model/Map.vio Model/Side.vio Model/Book.vio Model/Obs.vio Spec/RefBook.vio Proofs/Refine.vio Proofs/Volumes.vio Proofs/Views.vio Proofs/Reload.vio Proofs/PosVol.vio Proofs/Uncrossed.vio
Properties/C02.vos Properties/C02.vok Properties/C02.required_vos: Properties/C02.v Model/Types.vos Model/Map.vos Model/Side.vos Model/Book.vos Model/Obs.vos Spec/RefBook.vos Proofs/Refine.vos Proofs/Volumes.vos Proofs/Views.vos Proofs/Reload.vos Proofs/PosVol.vos Proofs/Uncrossed.vos
Properties/C05.vo Properties/C05.glob Properties/C05.v.beautified Properties/C05.required_vo: Properties/C05.v Model/Types.vo Model/Map.vo Model/Side.vo Model/Book.vo Model/Obs.vo Model/Rng.vo Model/Env.vo Spec/RefBook.vo Proofs/MapLemmas.vo Proofs/Refine.vo Proofs/EnvProps.vo
Properties/C05.vio: Properties/C05.v Model/Types.vio Model/Map.vio Model/Side.vio Model/Book.vio Model/Obs.vio Model/Rng.vio Model/Env.vio Spec/RefBook.vio Proofs/MapLemmas.vio Proofs/Refine.vio Proofs/EnvProps.vio
Properties/C05.vos Properties/C05.vok Properties/C05.required_vos: Properties/C05.v Model/Types.vos Model/Map.vos Model/Side.vos Model/Book.vos Model/Obs.vos Model/Rng.vos Model/Env.vos Spec/RefBook.vos Proofs/MapLemmas.vos Proofs/Refine.vos Proofs/EnvProps.vos
Properties/C06.vo Properties/C06.glob Properties/C06.v.beautified Properties/C06.required_vo: Properties/C06.v Model/Types.vo Model/Book.vo Model/Obs.vo Spec/RefBook.vo Proofs/Refine.vo Proofs/RefProps.vo
Properties/C06.vio: Properties/C06.v Model/Types.vio Model/Book.vio Model/Obs.vio Spec/RefBook.vio Proofs/Refine.vio Proofs/RefProps.vio
Properties/C06.vos Properties/C06.vok Properties/C06.required_vos: Properties/C06.v Model/Types.vos Model/Book.vos Model/Obs.vos Spec/RefBook.vos Proofs/Refine.vos Proofs/RefProps.vos
Properties/C07.vo Properties/C07.glob Properties/C07.v.beautified Properties/C07.required_vo: Properties/C07.v Model/Types.vo Model/Map.vo Model/Side.vo Model/Book.vo Model/Obs.vo Spec/RefBook.vo Proofs/Refine.vo Proofs/Volumes.vo Proofs/Views.vo Proofs/Reload.vo Model/Rng.vo Model/Env.vo Proofs/MarketInv.vo
Properties/C07.vio: Properties/C07.v Model/Types.vio Model/Map.vio Model/Side.vio Model/Book.vio Model/Obs.vio Spec/RefBook.vio Proofs/Refine.vio Proofs/Volumes.vio Proofs/Views.vio Proofs/Reload.vio Model/Rng.vio Model/Env.vio Proofs/MarketInv.vio
Properties/C07.vos Properties/C07.vok Properties/C07.required_vos: Properties/C07.v Model/Types.vos Model/Map.vos Model/Side.vos Model/Book.vos Model/Obs.vos Spec/RefBook.vos Proofs/Refine.vos Proofs/Volumes.vos Proofs/Views.vos Proofs/Reload.vos Model/Rng.vos Model/Env.vos Proofs/MarketInv.vos
