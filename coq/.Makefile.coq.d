Model/Types.vo Model/Types.glob Model/Types.v.beautified Model/Types.required_vo: Model/Types.v 
Model/Types.vio: Model/Types.v 
Model/Types.vos Model/Types.vok Model/Types.required_vos: Model/Types.v 
Model/Map.vo Model/Map.glob Model/Map.v.beautified Model/Map.required_vo: Model/Map.v Model/Types.vo
Model/Map.vio: Model/Map.v Model/Types.vio
Model/Map.vos Model/Map.vok Model/Map.required_vos: Model/Map.v Model/Types.vos
Model/Side.vo Model/Side.glob Model/Side.v.beautified Model/Side.required_vo: Model/Side.v Model/Types.vo Model/Map.vo
Model/Side.vio: Model/Side.v Model/Types.vio Model/Map.vio
Model/Side.vos Model/Side.vok Model/Side.required_vos: Model/Side.v Model/Types.vos Model/Map.vos
Model/Book.vo Model/Book.glob Model/Book.v.beautified Model/Book.required_vo: Model/Book.v Model/Types.vo Model/Map.vo Model/Side.vo
Model/Book.vio: Model/Book.v Model/Types.vio Model/Map.vio Model/Side.vio
Model/Book.vos Model/Book.vok Model/Book.required_vos: Model/Book.v Model/Types.vos Model/Map.vos Model/Side.vos
Model/Obs.vo Model/Obs.glob Model/Obs.v.beautified Model/Obs.required_vo: Model/Obs.v Model/Types.vo Model/Map.vo Model/Side.vo Model/Book.vo
Model/Obs.vio: Model/Obs.v Model/Types.vio Model/Map.vio Model/Side.vio Model/Book.vio
Model/Obs.vos Model/Obs.vok Model/Obs.required_vos: Model/Obs.v Model/Types.vos Model/Map.vos Model/Side.vos Model/Book.vos
Model/Codec.vo Model/Codec.glob Model/Codec.v.beautified Model/Codec.required_vo: Model/Codec.v Model/Types.vo Model/Book.vo Model/Obs.vo
Model/Codec.vio: Model/Codec.v Model/Types.vio Model/Book.vio Model/Obs.vio
Model/Codec.vos Model/Codec.vok Model/Codec.required_vos: Model/Codec.v Model/Types.vos Model/Book.vos Model/Obs.vos
Spec/RefBook.vo Spec/RefBook.glob Spec/RefBook.v.beautified Spec/RefBook.required_vo: Spec/RefBook.v Model/Types.vo Model/Book.vo Model/Obs.vo
Spec/RefBook.vio: Spec/RefBook.v Model/Types.vio Model/Book.vio Model/Obs.vio
Spec/RefBook.vos Spec/RefBook.vok Spec/RefBook.required_vos: Spec/RefBook.v Model/Types.vos Model/Book.vos Model/Obs.vos
Spec/Monitors.vo Spec/Monitors.glob Spec/Monitors.v.beautified Spec/Monitors.required_vo: Spec/Monitors.v Model/Types.vo Model/Book.vo Model/Obs.vo Model/Codec.vo Spec/RefBook.vo
Spec/Monitors.vio: Spec/Monitors.v Model/Types.vio Model/Book.vio Model/Obs.vio Model/Codec.vio Spec/RefBook.vio
Spec/Monitors.vos Spec/Monitors.vok Spec/Monitors.required_vos: Spec/Monitors.v Model/Types.vos Model/Book.vos Model/Obs.vos Model/Codec.vos Spec/RefBook.vos
Spec/Runner.vo Spec/Runner.glob Spec/Runner.v.beautified Spec/Runner.required_vo: Spec/Runner.v Model/Types.vo Model/Book.vo Model/Obs.vo Model/Codec.vo Spec/RefBook.vo Spec/Monitors.vo
Spec/Runner.vio: Spec/Runner.v Model/Types.vio Model/Book.vio Model/Obs.vio Model/Codec.vio Spec/RefBook.vio Spec/Monitors.vio
Spec/Runner.vos Spec/Runner.vok Spec/Runner.required_vos: Spec/Runner.v Model/Types.vos Model/Book.vos Model/Obs.vos Model/Codec.vos Spec/RefBook.vos Spec/Monitors.vos
