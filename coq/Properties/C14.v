(** * C14 — assets of a multi-asset market are independent books sharing one clock *)
From Bourse Require Import Model.Types Model.Book Model.Obs Model.Rng Model.Env Spec.RefBook Proofs.EnvProps Proofs.Refine Proofs.Volumes Proofs.MarketInv Proofs.AssetProjection.

(** A direct operation on asset [a] is the stand-alone book step on the a-th
    book and leaves every other book *equal*. *)
Theorem c14_direct_op_local : forall L e g a o e' g' x,
  menv_apply L e g (MDirect a o) = Ok (e', g', x) ->
  g' = g /\ length (en_market e') = length (en_market e) /\
  (forall j, j <> a -> nth_error (en_market e') j = nth_error (en_market e) j) /\
  exists b b', nth_error (en_market e) a = Some b /\ step b o = Ok (b', x) /\
               nth_error (en_market e') a = Some b'.
Proof. exact market_direct_local. Qed.

(** An instruction processed inside an environment step is likewise the
    stand-alone book's [process_event] on the addressed asset only. *)
Theorem c14_event_local : forall m e m',
  market_process m e = Ok m' ->
  length m' = length m /\
  (forall j, j <> mev_asset e -> nth_error m' j = nth_error m j) /\
  exists b b', nth_error m (mev_asset e) = Some b /\ book_event b (mev_event e) = Ok b' /\
               nth_error m' (mev_asset e) = Some b'.
Proof. exact market_event_local. Qed.

(** Setting the clock sets every book's clock (and is [map], so touches nothing else). *)
Theorem c14_clock_shared : forall m t,
  market_set_time m t = map (fun b => set_time b t) m /\
  Forall (fun b => b_t b = t) (market_set_time m t).
Proof. exact market_clock_shared. Qed.

(** Order ids are (asset, per-asset sequence number): a submission to asset [a]
    returns the length of a's own order list and leaves the other assets equal. *)
Theorem c14_ids_per_asset : forall e a sd v tr p e' id,
  menv_place e a sd v tr p = Ok (e', Created id) ->
  (forall j, j <> a -> nth_error (en_market e') j = nth_error (en_market e) j) /\
  exists b, nth_error (en_market e) a = Some b /\ id = length (b_orders b).
Proof.
  intros e a sd v tr p e' id H. apply submission_invisible in H.
  destruct H as (_ & _ & _ & _ & _ & Ho & b & ent & Hb & _ & _ & Hid). split; eauto.
Qed.


(** Every asset's book keeps the stand-alone book's invariant through every market
    and environment operation, so everything proved of a stand-alone book holds
    asset by asset; in particular every per-asset market-data view is the value
    recomputed from that asset's own order list. *)
Theorem c14_each_asset_keeps_book_invariant : forall L e g o e' g' x,
  MInv (en_market e) -> Forall mev_u32 (en_queue e) -> eop_u32 o -> menv_apply L e g o = Ok (e', g', x) ->
  MInv (en_market e') /\ Forall mev_u32 (en_queue e').
Proof. exact menv_apply_inv. Qed.

Theorem c14_per_asset_views_recomputed : forall L m a b,
  MInv m -> nth_error m a = Some b ->
  observe L b = ref_observe_tbl L (b_t b) (b_tick b) (b_tvol b) (map e_order (b_orders b)) (b_trades b).
Proof. exact market_views_recomputed. Qed.

(** Each asset's history through a step equals that of a stand-alone book fed that asset's
    instructions - and only those - at the same times: [asset_run a] is a single book that has
    its clock set to [start + i] before the i-th instruction of the batch and executes the
    instruction only when it is addressed to asset [a]. *)
Theorem c14_step_projects_to_standalone_books : forall L e g e' g',
  menv_step L e g = Ok (e', g') ->
  exists start q g1, market_time (en_market e) = Ok start /\ shuffle (en_queue e) g = Some (q, g1) /\
    forall a b, nth_error (en_market e) a = Some b ->
      exists b1, asset_run a start 0 (reset_trade_vol b) q = Ok b1 /\
                 nth_error (en_market e') a = Some (set_time b1 (start + en_step e)).
Proof. exact step_projects. Qed.

Theorem c14_batch_projects_to_standalone_books : forall start a q i m m' b,
  process_all start i m q = Ok m' -> nth_error m a = Some b ->
  exists b', nth_error m' a = Some b' /\ asset_run a start i b q = Ok b'.
Proof. exact (fun start a => process_all_projects start a). Qed.

(** ... and that stand-alone run is an ordinary book history - a list of [set_time] and
    [process_event] operations executed by [Book.run] - so every book-level theorem (priority,
    ledger, lifecycle, views, snapshots: C01-C07) applies to each asset of a stepping environment. *)
Theorem c14_step_is_book_histories : forall L e g e' g',
  Forall (fun b => bounded b = true) (en_market e) ->
  menv_step L e g = Ok (e', g') ->
  exists start q g1, market_time (en_market e) = Ok start /\ shuffle (en_queue e) g = Some (q, g1) /\
    forall a b, nth_error (en_market e) a = Some b ->
      exists b1, run b (OResetTvol :: asset_ops a start 0 q) = Ok b1 /\
                 nth_error (en_market e') a = Some (set_time b1 (start + en_step e)).
Proof. exact step_projects_to_runs. Qed.

(** For instance price-time priority (C01), asset by asset through a step: each asset's book after the
    step abstracts to what the reference engine makes of that asset's own instructions, fed at the
    same times. *)
Theorem c14_each_asset_matches_reference_engine : forall L e g e' g',
  Forall Inv (en_market e) -> Forall (fun b => bounded b = true) (en_market e) ->
  Forall (fun ev => match ev with MModify _ _ (Some p) _ => p <= MAXP | _ => True end) (en_queue e) ->
  menv_step L e g = Ok (e', g') ->
  exists start q g1, market_time (en_market e) = Ok start /\ shuffle (en_queue e) g = Some (q, g1) /\
    forall a b, nth_error (en_market e) a = Some b ->
      exists b1 xs, ref_run_outs (abs b) (OResetTvol :: asset_ops a start 0 q) = Some (abs b1, xs) /\ Inv b1 /\
                    nth_error (en_market e') a = Some (set_time b1 (start + en_step e)).
Proof. exact step_refines_per_asset. Qed.

(** Non-vacuity: a two-asset batch; asset 1's book ends exactly where the stand-alone run ends. *)
Example c14_projection_nonvacuous :
  (do m <- market_new 0 [1; 5] true;
   let q := [MNew 0 0; MNew 1 0; MNew 1 1] in
   do m0 <- upd_nth m 0 (fun b => Ok (fst (create_order b Bid 3 1 (Some 10))));
   do m1 <- upd_nth m0 1 (fun b => Ok (fst (create_order (fst (create_order b Ask 4 2 (Some 50))) Bid 2 3 (Some 50))));
   do m2 <- process_all 100 0 m1 q;
   do b1 <- match nth_error m1 1 with Some b => asset_run 1 100 0 b q | None => Panic end;
   Ok (match nth_error m2 1 with Some b => (length (b_trades b), b_t b) | None => (0%nat, 0) end,
       (length (b_trades b1), b_t b1)))
  = Ok ((1%nat, 102), (1%nat, 102)).
Proof. vm_compute. reflexivity. Qed.

Check c14_direct_op_local.
Print Assumptions c14_direct_op_local.
Print Assumptions c14_step_projects_to_standalone_books.
Print Assumptions c14_batch_projects_to_standalone_books.
Print Assumptions c14_step_is_book_histories.
Print Assumptions c14_each_asset_matches_reference_engine.
Print Assumptions c14_event_local.
Print Assumptions c14_clock_shared.
Print Assumptions c14_ids_per_asset.
Print Assumptions c14_each_asset_keeps_book_invariant.
Print Assumptions c14_per_asset_views_recomputed.
