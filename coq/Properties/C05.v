(** * C05 — equal timestamps never lose or reorder queued orders *)
From Bourse Require Import Model.Types Model.Map Model.Side Model.Book Model.Obs Model.Rng Model.Env Spec.RefBook
  Proofs.MapLemmas Proofs.Refine Proofs.EnvProps.

(** The refinement theorems of C01 (and with them C03, C04, C06 as far as they
    are stated on the reference engine) carry *no clock hypothesis*: the
    reference engine's queues contain no time-stamps at all, and the model
    equals it on every history, however the clock is (not) advanced between
    queue insertions. *)
Theorem c05_refinement_without_clock_discipline : forall t0 tick tr s0 ops s xs,
  book_new t0 tick tr = Ok s0 -> Forall op_u32 ops -> ~ In OReload ops ->
  run_outs s0 ops = Ok (s, xs) ->
  ref_run_outs (ref_new t0 tick tr) ops = Some (abs s, xs) /\ InvQ None s.
Proof.
  intros t0 tick tr s0 ops s xs H0 Hu Hnr H. destruct (InvQ_new _ _ _ _ H0) as [I E]. rewrite <- E.
  eapply run_refines; eauto.
Qed.

(** What makes it true: an order queued at a price is keyed strictly after
    every order already at that price, whatever the book time is, so no key is
    ever overwritten and arrival order is queue order. *)
Theorem c05_queued_strictly_after : forall x kp t,
  ksorted (sd_orders x) -> forall t' v, In ((kp, t'), v) (sd_orders x) -> t' < queue_time x kp t.
Proof. exact queue_time_later. Qed.

(** Nothing is lost: every Active order is in its side's map under its own key
    (part of the invariant the refinement preserves). *)
Theorem c05_every_active_order_is_queued : forall s i e,
  InvQ None s -> nth_error (b_orders s) i = Some e -> o_status (e_order e) = SActive ->
  In ((e_kp e, e_kt e), i) (sd_orders (get_side s (o_side (e_order e)))).
Proof. intros s i e (_ & _ & _ & Hc) Hn Ha. apply Hc; auto. discriminate. Qed.

(** The environment step needs no bound on the batch size relative to the step
    size: [c08_step_spec] (Properties/C08.v) is stated for every queue length. *)
Theorem c05_step_for_any_batch_size : forall L e g e' g',
  menv_step L e g = Ok (e', g') ->
  exists start q m1, market_time (en_market e) = Ok start /\ shuffle (en_queue e) g = Some (q, g') /\
    process_all start 0 (map reset_trade_vol (en_market e)) q = Ok m1 /\
    en_market e' = market_set_time m1 (start + en_step e).
Proof.
  intros L e g e' g' H. apply step_spec in H.
  destruct H as (start & q & m1 & l2 & H1 & H2 & _ & H4 & H5 & _). eauto 10.
Qed.

Check c05_refinement_without_clock_discipline.

(** Non-vacuity: three asks at one price with one time-stamp, then a market
    buy for two and a half of them: all three are visible, they execute in the
    order queued, the third can still be cancelled. *)
Example c05_ties_execute_in_queue_order :
  (do s0 <- book_new 7 1 true;
   do (s, _) <- run_outs s0 [OCreatePlace Ask 2 1 (Some 100); OCreatePlace Ask 2 2 (Some 100); OCreatePlace Ask 2 3 (Some 100);
                             OCreatePlace Bid 5 4 None];
   do (s2, _) <- run_outs s [OCancel 2];
   Ok (ask_best_vol_and_orders s, map (fun t => (tr_passive t, tr_vol t)) (b_trades s), map snd (sd_orders (b_ask s)),
       map (fun e => e_kt e) (b_orders s), ask_vol s2))
  = Ok ((1, 1), [(0%nat, 2); (1%nat, 2); (2%nat, 1)], [2%nat], [7; 8; 9; 0], 0).
Proof. vm_compute. reflexivity. Qed.

(** ... and a step carrying more instructions than the step size has time units *)
Example c05_batch_larger_than_step :
  (do e0 <- menv_new 1 0 [1] 2 true;
   do (e1, _) <- menv_place e0 0 Ask 1 1 (Some 10);
   do (e2, _) <- menv_place e1 0 Ask 1 2 (Some 10);
   do (e3, _) <- menv_place e2 0 Ask 1 3 (Some 10);
   do (e4, _) <- menv_place e3 0 Ask 1 4 (Some 10);
   do (e5, g) <- menv_step 1 e4 (seed_from_u64 3);
   do (e6, _) <- menv_place e5 0 Ask 1 5 (Some 10);
   do (e7, _) <- menv_step 1 e6 g;
   Ok (map (fun b => (b_t b, ask_best_vol_and_orders b, length (sd_orders (b_ask b)))) (en_market e7)))
  = Ok [(4, (5, 5), 5%nat)].
Proof. vm_compute. reflexivity. Qed.

Print Assumptions c05_refinement_without_clock_discipline.
Print Assumptions c05_queued_strictly_after.
Print Assumptions c05_every_active_order_is_queued.
Print Assumptions c05_step_for_any_batch_size.
