(** * C12 — every resting price is on the tick grid; rejected creations leave no trace *)
From Bourse Require Import Model.Types Model.Book Proofs.Grid.

(** An order can be created iff its limit price is a multiple of the tick size. *)
Theorem c12_create_iff : forall s sd v tr p,
  (exists s' id, create_order s sd v tr (Some p) = (s', Created id)) <-> p mod b_tick s = 0.
Proof. exact create_ok_iff. Qed.

(** Market orders always can. *)
Theorem c12_market_always : forall s sd v tr,
  exists s', create_order s sd v tr None = (s', Created (length (b_orders s))).
Proof. exact create_market_always. Qed.

(** A rejected creation reports the error and returns the *same* state: no id
    is consumed and no view of the book can differ. *)
Theorem c12_rejected_no_trace : forall s sd v tr p,
  p mod b_tick s <> 0 ->
  create_order s sd v tr (Some p) = (s, PriceError p (b_tick s)) /\
  create_and_place_order s sd v tr (Some p) = Ok (s, PriceError p (b_tick s)).
Proof. intros; split; [apply create_err_unchanged | apply create_and_place_err_unchanged]; assumption. Qed.

(** The grid invariant is preserved by every operation of the public API,
    with *arbitrary* creation and modification prices. *)
Theorem c12_grid_step : forall s o s' x,
  grid s -> step s o = Ok (s', x) -> grid s' /\ b_tick s' = b_tick s.
Proof. exact grid_step. Qed.

(** Hence the price of every order in every reachable book is a multiple of
    the tick size (or the market-buy sentinel), for every history. *)
Theorem c12_grid_reachable : forall t0 tick tr ops s0 s,
  book_new t0 tick tr = Ok s0 -> run s0 ops = Ok s ->
  Forall (fun e => on_grid tick (e_order e)) (b_orders s).
Proof. exact grid_reachable. Qed.

Check c12_create_iff : forall s sd v tr p,
  (exists s' id, create_order s sd v tr (Some p) = (s', Created id)) <-> p mod b_tick s = 0.
Check c12_grid_reachable : forall t0 tick tr ops s0 s,
  book_new t0 tick tr = Ok s0 -> run s0 ops = Ok s ->
  Forall (fun e => on_grid tick (e_order e)) (b_orders s).

(** Non-vacuity: a concrete history with an off-grid creation, an off-grid
    modification and a crossing on-grid modification reaches a book with a
    resting order, and the theorem's premises hold for it. *)
Example c12_nonvacuous :
  (do s0 <- book_new 0 2 true;
   do s <- run s0 [OCreatePlace Bid 5 1 (Some 10); OCreatePlace Ask 5 1 (Some 11);
                   OCreatePlace Ask 4 2 (Some 14); OModify 0 (Some 13) None; OModify 0 (Some 14) (Some 7)];
   Ok (length (b_orders s), b_tvol s, map (fun e => o_price (e_order e)) (b_orders s)))
  = Ok (2%nat, 4, [14; 14]).
Proof. vm_compute. reflexivity. Qed.

Print Assumptions c12_create_iff.
Print Assumptions c12_market_always.
Print Assumptions c12_rejected_no_trace.
Print Assumptions c12_grid_step.
Print Assumptions c12_grid_reachable.
