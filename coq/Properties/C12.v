(** * C12 — every resting price is on the tick grid; rejected creations leave no trace *)
From Bourse Require Import Model.Types Model.Book Model.Obs Spec.RefBook Spec.Monitors Proofs.Grid Proofs.Refine Proofs.Volumes Proofs.LevelsAccount Proofs.RestGrid Proofs.EnvGrid Proofs.MarketInv Proofs.MarketGrid.
From Bourse Require Import Model.Rng Model.Env.

(** An order can be created iff its limit price is a multiple of the tick size. *)
Theorem c12_create_iff : forall s sd v tr p,
  (exists s' id, create_order s sd v tr (Some p) = (s', Created id)) <-> p mod b_tick s = 0.
Proof. exact create_ok_iff. Qed.

(** Market orders always can. *)
Theorem c12_market_always : forall s sd v tr,
  exists s', create_order s sd v tr None = (s', Created (length (b_orders s))).
Proof. exact create_market_always. Qed.

(** A rejected creation reports the error and returns the *same* state: no id
    is consumed and no view of the book can differ. *)
Theorem c12_rejected_no_trace : forall s sd v tr p,
  p mod b_tick s <> 0 ->
  create_order s sd v tr (Some p) = (s, PriceError p (b_tick s)) /\
  create_and_place_order s sd v tr (Some p) = Ok (s, PriceError p (b_tick s)).
Proof. intros; split; [apply create_err_unchanged | apply create_and_place_err_unchanged]; assumption. Qed.

(** The same through the multi-asset market and the environments: a submission to asset [a] is
    accepted iff its limit price is a multiple of *that asset's* tick size (market orders always
    are); a rejected one returns the error and the same environment - no id consumed, nothing
    queued, no book, cached level-2 data or recorded history touched. *)
Theorem c12_env_submission_accepted_iff : forall e a sd v tr p b,
  nth_error (en_market e) a = Some b ->
  ((exists e' id, menv_place e a sd v tr (Some p) = Ok (e', Created id)) <-> p mod b_tick b = 0).
Proof. exact menv_place_accepted_iff. Qed.

Theorem c12_env_rejected_no_trace : forall e a sd v tr p b,
  nth_error (en_market e) a = Some b -> p mod b_tick b <> 0 ->
  menv_place e a sd v tr (Some p) = Ok (e, PriceError p (b_tick b)).
Proof. exact menv_place_rejected. Qed.

Theorem c12_env_market_always : forall e a sd v tr b,
  nth_error (en_market e) a = Some b ->
  exists e', menv_place e a sd v tr None = Ok (e', Created (length (b_orders b))).
Proof. exact menv_place_market_always. Qed.

(** ... and in every reachable market / environment every asset's book keeps the invariant behind
    the grid and level-accounting theorems ([RInv], with "no u32 counter overflowed"): through
    submissions, direct operations, switches, clock moves and whole steps. Hence every asset's
    published per-level data accounts for all of that asset's resting volume within range. *)
Theorem c12_env_every_asset_keeps_grid_invariant : forall L e g o e' g' x,
  MGB (en_market e) -> Forall mev_u32 (en_queue e) -> eop_u32 o -> menv_apply L e g o = Ok (e', g', x) ->
  MGB (en_market e') /\ Forall mev_u32 (en_queue e').
Proof. exact menv_apply_gb. Qed.

Theorem c12_env_new_market_on_grid : forall t0 ticks tr m, market_new t0 ticks tr = Ok m -> MGB m.
Proof. exact market_new_gb. Qed.

Theorem c12_env_levels_account_per_asset : forall L m a b ob,
  MGB m -> nth_error m a = Some b -> observe L b = Ok ob ->
  sumfst (ob_bid_levels ob) =
    sum_vol (filter (fun o => in_levels Bid (b_tick b) L (ob_bid ob) (o_price o)) (resting Bid (ob_orders ob))) /\
  sumfst (ob_ask_levels ob) =
    sum_vol (filter (fun o => in_levels Ask (b_tick b) L (ob_ask ob) (o_price o)) (resting Ask (ob_orders ob))).
Proof. exact mgb_levels_account. Qed.

(** The grid invariant is preserved by every operation of the public API,
    with *arbitrary* creation and modification prices. *)
Theorem c12_grid_step : forall s o s' x,
  grid s -> step s o = Ok (s', x) -> grid s' /\ b_tick s' = b_tick s.
Proof. exact grid_step. Qed.

(** Hence the price of every order in every reachable book is a multiple of
    the tick size (or the market-buy sentinel), for every history. *)
Theorem c12_grid_reachable : forall t0 tick tr ops s0 s,
  book_new t0 tick tr = Ok s0 -> run s0 ops = Ok s ->
  Forall (fun e => on_grid tick (e_order e)) (b_orders s).
Proof. exact grid_reachable. Qed.

(** The published per-level data accounts for all resting volume within its range:
    in every reachable state and for every level count [L], the volumes of the [L]
    published bid (ask) levels add up to the volume of the resting bids (asks)
    whose price lies less than [L] ticks from the touch - no resting order inside
    the range is missed or counted twice, and levels whose wrapped price falls
    outside the book contribute nothing. [RInv] = the invariant [Inv] + every
    order on the grid + every Active order priced at a multiple of the tick +
    tick > 0; it holds of a new book and is preserved by every operation. *)
Theorem c12_levels_account : forall L s ob,
  RInv s -> observe L s = Ok ob ->
  sumfst (ob_bid_levels ob) =
    sum_vol (filter (fun o => in_levels Bid (b_tick s) L (ob_bid ob) (o_price o)) (resting Bid (ob_orders ob))) /\
  sumfst (ob_ask_levels ob) =
    sum_vol (filter (fun o => in_levels Ask (b_tick s) L (ob_ask ob) (o_price o)) (resting Ask (ob_orders ob))).
Proof. exact levels_account_state. Qed.

Theorem c12_levels_account_every_reachable_state : forall L t0 tick tr s0 ops s xs ob,
  book_new t0 tick tr = Ok s0 -> Forall op_u32 ops -> run_outs s0 ops = Ok (s, xs) -> observe L s = Ok ob ->
  sumfst (ob_bid_levels ob) =
    sum_vol (filter (fun o => in_levels Bid (b_tick s) L (ob_bid ob) (o_price o)) (resting Bid (ob_orders ob))) /\
  sumfst (ob_ask_levels ob) =
    sum_vol (filter (fun o => in_levels Ask (b_tick s) L (ob_ask ob) (o_price o)) (resting Ask (ob_orders ob))).
Proof.
  intros L t0 tick tr s0 ops s xs ob H0 Hu H Hob. apply c12_levels_account; [|assumption].
  eapply run_rinv; [eapply RInv_new; eassumption | eassumption | eassumption].
Qed.

(** Every resting (Active) order is priced at a multiple of the tick, after any modification. *)
Theorem c12_resting_on_grid : forall s o s' x,
  RInv s -> op_u32 o -> step s o = Ok (s', x) -> RInv s'.
Proof. exact step_rinv. Qed.

Example c12_levels_nonvacuous :
  (do s0 <- book_new 0 5 true;
   do (s, xs) <- run_outs s0 [OCreatePlace Bid 3 1 (Some 100); OCreatePlace Bid 4 1 (Some 90); OCreatePlace Bid 9 1 (Some 80);
                              OCreatePlace Ask 2 2 (Some 105); OCreatePlace Ask 6 2 (Some 125); OModify 1 (Some 95) None];
   do ob <- observe 3 s;
   Ok (ob_bid_levels ob, ob_ask_levels ob, sumfst (ob_bid_levels ob), sumfst (ob_ask_levels ob)))
  = Ok ([(3, 1); (4, 1); (0, 0)], [(2, 1); (0, 0); (0, 0)], 7, 2).
Proof. vm_compute. reflexivity. Qed.

Check c12_create_iff : forall s sd v tr p,
  (exists s' id, create_order s sd v tr (Some p) = (s', Created id)) <-> p mod b_tick s = 0.
Check c12_grid_reachable : forall t0 tick tr ops s0 s,
  book_new t0 tick tr = Ok s0 -> run s0 ops = Ok s ->
  Forall (fun e => on_grid tick (e_order e)) (b_orders s).

(** Non-vacuity: a concrete history with an off-grid creation, an off-grid
    modification and a crossing on-grid modification reaches a book with a
    resting order, and the theorem's premises hold for it. *)
Example c12_nonvacuous :
  (do s0 <- book_new 0 2 true;
   do s <- run s0 [OCreatePlace Bid 5 1 (Some 10); OCreatePlace Ask 5 1 (Some 11);
                   OCreatePlace Ask 4 2 (Some 14); OModify 0 (Some 13) None; OModify 0 (Some 14) (Some 7)];
   Ok (length (b_orders s), b_tvol s, map (fun e => o_price (e_order e)) (b_orders s)))
  = Ok (2%nat, 4, [14; 14]).
Proof. vm_compute. reflexivity. Qed.

Print Assumptions c12_create_iff.
Print Assumptions c12_market_always.
Print Assumptions c12_rejected_no_trace.
Print Assumptions c12_grid_step.
Print Assumptions c12_grid_reachable.
Print Assumptions c12_levels_account.
Print Assumptions c12_levels_account_every_reachable_state.
Print Assumptions c12_resting_on_grid.
Print Assumptions c12_env_submission_accepted_iff.
Print Assumptions c12_env_rejected_no_trace.
Print Assumptions c12_env_market_always.
Print Assumptions c12_env_every_asset_keeps_grid_invariant.
Print Assumptions c12_env_new_market_on_grid.
Print Assumptions c12_env_levels_account_per_asset.
