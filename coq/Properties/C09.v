(** * C09 — a simulation is a pure function of its seed and parameters *)
From Bourse Require Import Model.Types Model.Book Model.Rng Model.Float Model.Env Model.Agents.

(** The model's simulation loop: agents in order, then the step, [n] times,
    all on one generator derived from the seed. It is a Gallina function: equal
    seed, parameters, agents and oracles give equal results. The content of the
    property is that the *implementation* equals this function, which the
    correspondence check establishes run by run (raw draws included). *)
Section Sim.
Variable lognormal : N -> N -> option (N * N).
Variable tanh64 : N -> N.

Fixpoint update_all (k : N) (e : menv) (c : crng) (ags : list agent) : res (menv * crng * list agent) :=
  match ags with
  | [] => Ok (e, c, [])
  | ag :: r =>
      do (e1, c1, ag') <- agent_update lognormal tanh64 k e c ag;
      do (e2, c2, r') <- update_all (k + 1) e1 c1 r;
      Ok (e2, c2, ag' :: r')
  end.

Fixpoint sim (L : nat) (n : nat) (e : menv) (c : crng) (ags : list agent) : res (menv * crng * list agent) :=
  match n with
  | O => Ok (e, c, ags)
  | S k =>
      do (e1, c1, ags1) <- update_all 0 e c ags;
      do (e2, g2) <- menv_step L e1 (cg c1);
      sim L k e2 (mkC g2 (cpos c1 + shuffle_draws (en_queue e1) (cg c1))) ags1
  end.

Definition run_sim (L : nat) (seed : N) (n : nat) (e : menv) (ags : list agent) :=
  sim L n e (mkC (seed_from_u64 seed) 0) ags.
End Sim.

(** Determinism: the run depends on the seed only through the generator state
    it seeds. *)
Theorem c09_run_depends_on_seed_through_stream : forall ln th L s1 s2 n e ags,
  seed_from_u64 s1 = seed_from_u64 s2 -> run_sim ln th L s1 n e ags = run_sim ln th L s2 n e ags.
Proof. intros ln th L s1 s2 n e ags H. unfold run_sim. rewrite H. reflexivity. Qed.

Check c09_run_depends_on_seed_through_stream.

(** Non-vacuity: a three-step run with random agents from seed 7 places orders. *)
Example c09_nonvacuous :
  (do e0 <- menv_new 2 0 [1] 1000 true;
   do (e, _, _) <- run_sim (fun _ _ => None) (fun x => x) 2 7 3 e0
                     [ARandom 0 [None; None; None] (mkRP 10 20 1 5 1 1065353216)];
   Ok (map (fun b => length (b_orders b)) (en_market e)))
  = Ok [7%nat].
Proof. vm_compute. reflexivity. Qed.

Print Assumptions c09_run_depends_on_seed_through_stream.
