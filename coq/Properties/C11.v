(** * C11 — recorded market-data histories are complete, aligned and faithful *)
From Bourse Require Import Model.Types Model.Book Model.Obs Model.Rng Model.Env Model.EnvObs Proofs.EnvProps Proofs.Ledger Proofs.StepVolume Proofs.CacheInv Proofs.Aligned.

(** What a step records: exactly one record per asset, which is that asset's
    level-2 data at the end of the step (bid fields from the bid getters, ask
    fields from the ask getters, by definition of [level_2_data]), and one
    traded-volume entry, which is the book's counter (reset at the start of the step). *)
Theorem c11_step_records : forall L e g e' g',
  menv_step L e g = Ok (e', g') ->
  exists l2, all_l2 L (en_market e') = Ok l2 /\
    en_hist e' = map (fun p => fst p ++ [snd p]) (combine (en_hist e) l2) /\
    en_tvols e' = map (fun p => fst p ++ [b_tvol (snd p)]) (combine (en_tvols e) (en_market e')).
Proof.
  intros L e g e' g' H. apply step_spec in H.
  destruct H as (start & q & m1 & l2 & _ & _ & _ & _ & _ & _ & _ & Hl & _ & Hh & Ht). eauto.
Qed.

(** Every series grows by exactly one entry per step (so after k steps each has k entries). *)
Theorem c11_records_grow : forall L e g e' g',
  menv_step L e g = Ok (e', g') ->
  length (en_hist e) = length (en_market e) -> length (en_tvols e) = length (en_market e) ->
  Forall2 (fun h h' => exists d, h' = h ++ [d]) (en_hist e) (en_hist e') /\
  Forall2 (fun t t' => exists v, t' = t ++ [v]) (en_tvols e) (en_tvols e').
Proof. exact records_grow. Qed.

(** The per-step traded volume is the volume of the trades logged during the step:
    for every asset the step appends some trades [new] to the trade log, the
    counter it records is exactly [sumv new] (the counter is reset at the start of
    the step), and each of those trades is time-stamped inside the step's batch,
    [start <= t < start + number of instructions]. *)
Theorem c11_step_volume_is_logged_trades : forall L e g e' g',
  menv_step L e g = Ok (e', g') ->
  exists start, market_time (en_market e) = Ok start /\
    Forall2 (fun b b' => exists new, b_trades b' = b_trades b ++ new /\ b_tvol b' = sumv new /\
                          Forall (fun tr => start <= tr_t tr < start + N.of_nat (length (en_queue e))) new)
            (en_market e) (en_market e') /\
    en_tvols e' = map (fun p => fst p ++ [b_tvol (snd p)]) (combine (en_tvols e) (en_market e')).
Proof. exact step_volume_is_logged_trades. Qed.

(** Aligned: every recorded series of every asset (each per-level series is a projection of the
    record list) and every per-step volume series has exactly as many entries as steps were taken -
    0 at construction, one more after each step, unchanged by every other operation. *)
Theorem c11_aligned_at_construction : forall L t0 ticks step trading e,
  menv_new L t0 ticks step trading = Ok e -> Aligned 0 e.
Proof. exact aligned_new. Qed.

Theorem c11_aligned_after_step : forall L e g e' g' k,
  Aligned k e -> menv_step L e g = Ok (e', g') -> Aligned (S k) e'.
Proof. exact aligned_step. Qed.

Theorem c11_aligned_between_steps : forall L e g o e' g' x k,
  env_op o -> o <> EStep -> Aligned k e -> menv_apply L e g o = Ok (e', g', x) -> Aligned k e'.
Proof. exact aligned_other. Qed.

(** Submissions and toggles never touch the histories (C10's theorems), so the
    series change only in [menv_step]. *)
Check c11_step_records.

Example c11_nonvacuous :
  (do e0 <- menv_new 2 0 [2] 5 true;
   do (e1, _) <- menv_place e0 0 Ask 7 1 (Some 24);
   do (e2, _) <- menv_place e1 0 Bid 3 2 (Some 20);
   do (e3, g) <- menv_step 2 e2 (seed_from_u64 1);
   do (e4, _) <- menv_place e3 0 Bid 2 2 (Some 18);
   do (e5, _) <- menv_step 2 e4 g;
   Ok (map (series 2) (en_hist e5), en_tvols e5))
  = Ok ([[[20; 20]; [24; 24]; [3; 5]; [7; 7]; [3; 3]; [1; 1]; [7; 7]; [1; 1]; [0; 2]; [0; 1]; [0; 0]; [0; 0]]], [[0; 0]]).
Proof. vm_compute. reflexivity. Qed.

Print Assumptions c11_step_records.
Print Assumptions c11_records_grow.
Print Assumptions c11_step_volume_is_logged_trades.
Print Assumptions c11_aligned_at_construction.
Print Assumptions c11_aligned_after_step.
Print Assumptions c11_aligned_between_steps.
