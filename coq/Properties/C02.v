(** * C02 — published market data always equals the resting orders *)
From Bourse Require Import Model.Types Model.Map Model.Side Model.Book Model.Obs Spec.RefBook
  Proofs.Refine Proofs.Volumes Proofs.Views Proofs.Reload Proofs.PosVol Proofs.Uncrossed Proofs.MarketInv Proofs.MarketUncrossed.
From Bourse Require Import Model.Rng Model.Env.

(** [Inv] is the queue invariant [InvQ] (both priority maps are strictly sorted
    and hold exactly the Active orders of their side under their stored keys)
    together with the volume invariant [InvV] (the per-level (volume, count)
    map and the side total equal the sums over the priority map). It holds of a
    new book and is preserved by every successful operation, reloads included
    ([c02_invariant_every_reachable_state]). *)

(** Every view (touch prices with the sentinels 0 / maximum price, total and
    touch volumes, touch order counts, per-level volumes and counts from the
    touch outward, level-1 and level-2 records, mid-price) equals the value
    recomputed from the order list alone: [ref_observe_tbl] looks at nothing
    but its arguments [tbl = get_orders()], the tick size and the carried
    clock / traded-volume / trade log. *)
Theorem c02_views_recomputed : forall L s,
  Inv s ->
  observe L s = ref_observe_tbl L (b_t s) (b_tick s) (b_tvol s) (map e_order (b_orders s)) (b_trades s).
Proof. intros L s [Hq Hv]. exact (observe_recomputed L s Hq Hv). Qed.

Theorem c02_invariant_every_reachable_state : forall t0 tick tr s0 ops s xs,
  book_new t0 tick tr = Ok s0 -> Forall op_u32 ops -> run_outs s0 ops = Ok (s, xs) -> Inv s.
Proof.
  intros t0 tick tr s0 ops s xs H0 Hu H. eapply run_inv_all; [eapply Inv_new; eassumption | eassumption | eassumption].
Qed.

(** ... at every reachable state: any history of operations from a new book
    (placements, cancels, modifications, toggles, clock moves, reloads; prices 32-bit). *)
Theorem c02_views_recomputed_every_reachable_state : forall L t0 tick tr s0 ops s xs,
  book_new t0 tick tr = Ok s0 -> Forall op_u32 ops -> run_outs s0 ops = Ok (s, xs) ->
  observe L s = ref_observe_tbl L (b_t s) (b_tick s) (b_tvol s) (map e_order (b_orders s)) (b_trades s).
Proof. intros. apply c02_views_recomputed. eapply c02_invariant_every_reachable_state; eassumption. Qed.

(** The views agree with one another: level-1 and level-2 records repeat the
    touch prices, volumes and counts, the touch volume is the first component
    of (touch volume, touch orders), the mid-price is the mean of the touch
    prices, and the recomputed order list is the book's own. *)
Theorem c02_views_agree : forall L s ob,
  Inv s -> observe L s = Ok ob ->
  ob_l1 ob = [ob_bid ob; ob_ask ob; ob_bid_vol ob; ob_ask_vol ob;
              fst (ob_bid_bvo ob); fst (ob_ask_bvo ob); snd (ob_bid_bvo ob); snd (ob_ask_bvo ob)] /\
  ob_l2 ob = mkL2 (ob_bid ob) (ob_ask ob) (ob_bid_vol ob) (ob_ask_vol ob) (ob_bid_levels ob) (ob_ask_levels ob) /\
  ob_bid_bv ob = fst (ob_bid_bvo ob) /\ ob_ask_bv ob = fst (ob_ask_bvo ob) /\
  ob_mid ob = f64_bits_of_half (ob_bid ob + ob_ask ob) /\
  ob_bid ob = touch Bid (ob_orders ob) /\ ob_ask ob = touch Ask (ob_orders ob) /\
  ob_bid_vol ob = sum_vol (resting Bid (ob_orders ob)) /\ ob_ask_vol ob = sum_vol (resting Ask (ob_orders ob)).
Proof.
  intros L s ob Hinv H. rewrite (c02_views_recomputed L s Hinv) in H. unfold ref_observe_tbl in H.
  destruct (ref_levels Bid _ _ L) as [bl|]; [|discriminate]. cbn [rbind] in H.
  destruct (ref_levels Ask _ _ L) as [al|]; [|discriminate]. cbn [rbind] in H.
  injection H as <-. cbn. repeat split; reflexivity.
Qed.

(** Sentinels of an empty side. *)
Theorem c02_sentinels : forall tbl,
  (resting Bid tbl = [] -> touch Bid tbl = 0) /\ (resting Ask tbl = [] -> touch Ask tbl = MAXP).
Proof. intros tbl. unfold touch, best_bid, best_ask. split; intros ->; reflexivity. Qed.

(** As long as trading has never been disabled (the book is created with trading
    on and the history contains no [disable_trading]; request volumes are >= 1,
    prices 32-bit, nothing else is assumed - no clock discipline, any ids, reloads
    allowed) the best bid is strictly below the best ask whenever both sides hold a
    resting order. One operation preserves the invariant [XInv] = [Inv] + "orders
    that can rest have positive volume" + "flag on" + "every resting bid is priced
    strictly below every resting ask". *)
Theorem c02_never_crossed_step : forall s o s' x,
  XInv s -> op_u32 o -> op_vols o -> o <> ODisable -> step_raw s o = Ok (s', x) -> XInv s'.
Proof. exact step_raw_xinv. Qed.

Theorem c02_never_crossed : forall t0 tick s0 ops s xs,
  book_new t0 tick true = Ok s0 -> Forall op_u32 ops -> Forall op_vols ops -> ~ In ODisable ops ->
  run_outs s0 ops = Ok (s, xs) ->
  resting Bid (map e_order (b_orders s)) <> [] -> resting Ask (map e_order (b_orders s)) <> [] ->
  fst (bid_ask s) < snd (bid_ask s).
Proof. exact never_crossed_history. Qed.

(** The same for the environments ([Env] is the one-asset [MarketEnv]): from a market created with
    trading on, through every operation except disabling trading - submissions with volume >= 1,
    cancellations, modifications to volumes >= 1, direct operations on one asset, whole steps with
    any batch in any processing order - every asset keeps [XInv], so on every asset quoted on both
    sides the best bid is strictly below the best ask. *)
Theorem c02_env_never_crossed_op : forall L e g o e' g' x,
  MXInv (en_market e) -> Forall mev_u32 (en_queue e) -> Forall mev_vols (en_queue e) ->
  eop_u32 o -> eop_vols o -> menv_apply L e g o = Ok (e', g', x) ->
  MXInv (en_market e') /\ Forall mev_u32 (en_queue e') /\ Forall mev_vols (en_queue e').
Proof. exact menv_apply_xinv. Qed.

Theorem c02_env_new_market_uncrossed : forall t0 ticks m, market_new t0 ticks true = Ok m -> MXInv m.
Proof. exact market_new_xinv. Qed.

Theorem c02_env_touch_uncrossed : forall m a b,
  MXInv m -> nth_error m a = Some b ->
  resting Bid (map e_order (b_orders b)) <> [] -> resting Ask (map e_order (b_orders b)) <> [] ->
  fst (bid_ask b) < snd (bid_ask b).
Proof. exact mxinv_touch. Qed.

Check c02_never_crossed : forall t0 tick s0 ops s xs,
  book_new t0 tick true = Ok s0 -> Forall op_u32 ops -> Forall op_vols ops -> ~ In ODisable ops ->
  run_outs s0 ops = Ok (s, xs) ->
  resting Bid (map e_order (b_orders s)) <> [] -> resting Ask (map e_order (b_orders s)) <> [] ->
  fst (bid_ask s) < snd (bid_ask s).

(** The volume hypothesis is needed: an order of volume 0 is not matched and
    rests at a crossing price (a witness on the model). *)
Example c02_zero_volume_crosses :
  (do s0 <- book_new 0 1 true;
   do (s, xs) <- run_outs s0 [OCreatePlace Ask 5 1 (Some 100); OCreatePlace Bid 0 2 (Some 105)];
   Ok (bid_ask s)) = Ok (105, 100).
Proof. vm_compute. reflexivity. Qed.

Check c02_views_recomputed_every_reachable_state : forall L t0 tick tr s0 ops s xs,
  book_new t0 tick tr = Ok s0 -> Forall op_u32 ops -> run_outs s0 ops = Ok (s, xs) ->
  observe L s = ref_observe_tbl L (b_t s) (b_tick s) (b_tvol s) (map e_order (b_orders s)) (b_trades s).

(** Non-vacuity: a partial fill followed by a cancel and a modification (the
    case the property text singles out), then a reload; the recomputed views. *)
Example c02_nonvacuous :
  (do s0 <- book_new 0 2 true;
   do (s, xs) <- run_outs s0 [OCreatePlace Ask 5 1 (Some 100); OCreatePlace Ask 4 2 (Some 100); OCreatePlace Ask 3 3 (Some 104);
                              OCreatePlace Bid 2 4 (Some 96); OCreatePlace Bid 7 5 (Some 100); OCancel 2;
                              OModify 1 None (Some 1); OReload; OCreatePlace Bid 9 6 (Some 98)];
   do ob <- observe 3 s;
   Ok (ob_bid ob, ob_ask ob, ob_bid_vol ob, ob_ask_vol ob, ob_bid_bvo ob, ob_ask_bvo ob, ob_bid_levels ob, ob_ask_levels ob))
  = Ok (98, 100, 11, 1, (9, 1), (1, 1), [(9, 1); (2, 1); (0, 0)], [(1, 1); (0, 0); (0, 0)]).
Proof. vm_compute. reflexivity. Qed.

Print Assumptions c02_views_recomputed.
Print Assumptions c02_invariant_every_reachable_state.
Print Assumptions c02_views_recomputed_every_reachable_state.
Print Assumptions c02_views_agree.
Print Assumptions c02_sentinels.
Print Assumptions c02_never_crossed_step.
Print Assumptions c02_never_crossed.
Print Assumptions c02_env_never_crossed_op.
Print Assumptions c02_env_new_market_uncrossed.
Print Assumptions c02_env_touch_uncrossed.
