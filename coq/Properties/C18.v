(** * C18 — the Python classes are transparent views of the Rust core *)
From Bourse Require Import Model.Types Model.Book Model.Obs Model.Codec Model.PyView Proofs.Grid Generated.Layout.
From Coq Require Import ZArith String List. Import ListNotations.

(** In-range arguments: the Python call *is* the core call, and its result is
    the core's result (ids unchanged; a price error becomes ValueError). *)
Theorem c18_place_transparent : forall s bid vol tr price v t p,
  ext_u32 vol = Some v -> ext_u32 tr = Some t -> ext_opt_u32 price = Some p ->
  py_place_order s bid vol tr price =
  match create_and_place_order s (side_of_bool bid) v t p with
  | Ok (s', Created id) => (s', PyOk id)
  | Ok (s', PriceError _ _) => (s', PyErr ValueError)
  | Panic => (s, PyPanic)
  end.
Proof. intros. unfold py_place_order. rewrite H, H0, H1. reflexivity. Qed.

(** An out-of-range integer raises OverflowError and leaves the object unchanged. *)
Theorem c18_overflow_unchanged : forall s bid vol tr price,
  (ext_u32 vol = None \/ ext_u32 tr = None \/ ext_opt_u32 price = None) ->
  py_place_order s bid vol tr price = (s, PyErr OverflowError).
Proof.
  intros s bid vol tr price H. unfold py_place_order.
  destruct (ext_u32 vol), (ext_u32 tr), (ext_opt_u32 price); try reflexivity;
    destruct H as [H|[H|H]]; discriminate.
Qed.

Theorem c18_overflow_unchanged_others : forall s,
  (forall id, ext_usize id = None -> py_cancel_order s id = (s, PyErr OverflowError)) /\
  (forall t, ext_u64 t = None -> py_set_time s t = (s, PyErr OverflowError)) /\
  (forall id np nv, (ext_usize id = None \/ ext_opt_u32 np = None \/ ext_opt_u32 nv = None) ->
                    py_modify_order s id np nv = (s, PyErr OverflowError)).
Proof.
  intros s. repeat split.
  - intros id H. unfold py_cancel_order. rewrite H. reflexivity.
  - intros t H. unfold py_set_time. rewrite H. reflexivity.
  - intros id np nv H. unfold py_modify_order.
    destruct (ext_usize id), (ext_opt_u32 np), (ext_opt_u32 nv); try reflexivity;
      destruct H as [H|[H|H]]; discriminate.
Qed.

(** An off-grid price raises ValueError and leaves the object unchanged. *)
Theorem c18_off_grid_value_error : forall s bid vol tr price v t p,
  ext_u32 vol = Some v -> ext_u32 tr = Some t -> ext_u32 price = Some p ->
  p mod b_tick s <> 0 ->
  py_place_order s bid vol tr (Some price) = (s, PyErr ValueError).
Proof.
  intros s bid vol tr price v t p Hv Ht Hp Hg. unfold py_place_order, ext_opt_u32.
  rewrite Hv, Ht, Hp. cbn. rewrite create_and_place_err_unchanged by assumption. reflexivity.
Qed.

(** The documented encodings: True = bid; statuses 0..4, injective; tuple field
    orders and the status table agree with what the translator re-read from
    rust/src/types.rs, crates/order_book/src/types.rs and the docstrings. *)
Theorem c18_side_round_trip : forall sd b,
  side_of_bool (bool_of_side sd) = sd /\ bool_of_side (side_of_bool b) = b /\ side_of_bool true = Bid.
Proof. intros [] []; repeat split. Qed.

Theorem c18_status_codes : forall a b,
  (status_code a = status_code b -> a = b) /\
  status_code SNew = 0%N /\ status_code SActive = 1%N /\ status_code SFilled = 2%N /\
  status_code SCancelled = 3%N /\ status_code SRejected = 4%N.
Proof. intros [] []; cbn; repeat split; intros H; try reflexivity; discriminate. Qed.

Theorem c18_tables_match_source :
  status_codes = [("New", "0"); ("Active", "1"); ("Filled", "2"); ("Cancelled", "3"); ("Rejected", "4")]%string /\
  status_codes = doc_status_codes /\
  side_of_bool_table = [("true", "Bid"); ("false", "Ask")]%string /\
  tuple_order = ["side"; "status"; "arr_time"; "end_time"; "vol"; "start_vol"; "price"; "trader_id"; "order_id"]%string /\
  tuple_trade = ["t"; "side"; "price"; "vol"; "active_order_id"; "passive_order_id"]%string.
Proof. repeat split; reflexivity. Qed.

Check c18_place_transparent.
Print Assumptions c18_place_transparent.
Print Assumptions c18_overflow_unchanged.
Print Assumptions c18_overflow_unchanged_others.
Print Assumptions c18_off_grid_value_error.
Print Assumptions c18_side_round_trip.
Print Assumptions c18_status_codes.
Print Assumptions c18_tables_match_source.
