(** * C10 — queued instructions are invisible until the next step *)
From Bourse Require Import Model.Types Model.Book Model.Obs Model.Rng Model.Env Proofs.EnvProps Proofs.CacheInv.

(** Submitting a new order changes nothing in the environment except that the
    addressed book's order list gains one entry with status New and the queue
    gains one instruction; a rejected submission changes nothing at all. *)
Theorem c10_submission_invisible : forall e a sd v tr p e' c,
  menv_place e a sd v tr p = Ok (e', c) ->
  en_l2 e' = en_l2 e /\ en_tvols e' = en_tvols e /\ en_hist e' = en_hist e /\ en_step e' = en_step e /\
  match c with
  | Created id =>
      en_queue e' = en_queue e ++ [MNew a id] /\
      (forall j, j <> a -> nth_error (en_market e') j = nth_error (en_market e) j) /\
      exists b ent, nth_error (en_market e) a = Some b /\
        nth_error (en_market e') a = Some (set_orders b (b_orders b ++ [ent])) /\
        o_status (e_order ent) = SNew /\ id = length (b_orders b)
  | PriceError _ _ => e' = e
  end.
Proof. exact submission_invisible. Qed.

(** Every getter of a book except the order list is blind to the order list:
    the observation of the book with extra entries is the old observation with
    only [ob_orders] replaced. *)
Theorem c10_getters_ignore_orders : forall L s x,
  observe L (set_orders s x) =
  (do o <- observe L s;
   Ok (mkObs (ob_t o) (ob_tvol o) (ob_bid o) (ob_ask o) (ob_bid_vol o) (ob_ask_vol o) (ob_bid_bv o)
         (ob_ask_bv o) (ob_bid_bvo o) (ob_ask_bvo o) (ob_bid_levels o) (ob_ask_levels o) (ob_l1 o)
         (ob_l2 o) (ob_mid o) (map e_order x) (ob_trades o))).
Proof. exact getters_ignore_orders. Qed.

(** Cancel and modify submissions change only the queue. *)
Theorem c10_cancel_modify_only_queue : forall e ev,
  let e' := push_event e ev in
  en_market e' = en_market e /\ en_l2 e' = en_l2 e /\ en_tvols e' = en_tvols e /\
  en_hist e' = en_hist e /\ en_queue e' = en_queue e ++ [ev].
Proof. exact cancel_modify_only_queue. Qed.

(** The cached level-2 snapshot is exactly the live books' level-2 data at the
    end of a step, and neither submissions nor trading toggles change the live
    level-2 data. *)
Theorem c10_cache_refreshed_by_step : forall L e g e' g',
  menv_step L e g = Ok (e', g') -> all_l2 L (en_market e') = Ok (en_l2 e').
Proof.
  intros L e g e' g' H. apply step_spec in H.
  destruct H as (start & q & m1 & l2 & _ & _ & _ & _ & _ & _ & _ & Hl & <- & _). exact Hl.
Qed.
(** ... as an invariant: the cached snapshot equals the level-2 data of the live books at
    construction and after every operation an environment offers (submit, cancel, modify, step,
    enable, disable) - between steps because level-2 data is blind to what those operations change,
    at a step because the step refreshes it. *)
Theorem c10_cache_ok_at_construction : forall L t0 ticks step trading e,
  menv_new L t0 ticks step trading = Ok e -> all_l2 L (en_market e) = Ok (en_l2 e).
Proof. exact cache_ok_new. Qed.

Theorem c10_cache_ok_after_every_operation : forall L e g o e' g' x,
  env_op o -> all_l2 L (en_market e) = Ok (en_l2 e) -> menv_apply L e g o = Ok (e', g', x) ->
  all_l2 L (en_market e') = Ok (en_l2 e').
Proof. exact cache_ok_preserved. Qed.

Theorem c10_level2_blind_to_orders_and_flag : forall L s x b,
  level_2_data L (set_orders s x) = level_2_data L s /\ level_2_data L (set_trading s b) = level_2_data L s.
Proof. intros; split; [apply level2_ignores_orders | apply level2_ignores_flag]. Qed.

Check c10_submission_invisible.
Print Assumptions c10_submission_invisible.
Print Assumptions c10_getters_ignore_orders.
Print Assumptions c10_cancel_modify_only_queue.
Print Assumptions c10_cache_refreshed_by_step.
Print Assumptions c10_level2_blind_to_orders_and_flag.
Print Assumptions c10_cache_ok_at_construction.
Print Assumptions c10_cache_ok_after_every_operation.
