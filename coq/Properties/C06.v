(** * C06 — modification keeps priority only for pure volume reductions *)
From Bourse Require Import Model.Types Model.Book Model.Obs Spec.RefBook Proofs.Refine Proofs.RefProps.

(** The model's modify is the reference engine's modify (every request, every
    status, every price that fits 32 bits), and the invariant is preserved. *)
Theorem c06_modify_refines : forall s id np nv s',
  InvQ None s -> (match np with Some p => p <= MAXP | None => True end) ->
  modify_order s id np nv = Ok s' ->
  ref_modify (abs s) id np nv = Some (abs s') /\ InvQ None s'.
Proof. exact modify_order_refines. Qed.

(** On the reference engine: reducing only the volume of an active order
    changes that order's volume and nothing else — both queues are the same
    lists, so it keeps its place. *)
Theorem c06_reduction_keeps_place : forall r id o v,
  nth_error (r_orders r) id = Some o -> o_status o = SActive -> v < o_vol o ->
  ref_modify r id None (Some v) = Some (set_rorders r (set_nth (r_orders r) id (set_vol o v))).
Proof. exact ref_modify_reduce. Qed.

(** Any other effective modification (a price is given, or the volume given is
    not smaller — the boundary [v = vol] included) takes the order out of its
    queue and re-enters it as if newly arrived at the current time with the new
    price and volume ([ref_replace] = [remove_id] then [ref_arrive]); omitted
    fields keep their current values; id, side, trader, arrival time and
    starting volume are untouched because [ref_replace] only sets price and volume. *)
Theorem c06_otherwise_requeued : forall r id o np nv,
  nth_error (r_orders r) id = Some o -> o_status o = SActive ->
  (match np with Some p => p mod r_tick r = 0 | None => True end) ->
  (match np, nv with None, None => False | None, Some v => o_vol o <= v | _, _ => True end) ->
  ref_modify r id np nv =
  Some (ref_replace r id o (match np with Some p => p | None => o_price o end)
                           (match nv with Some v => v | None => o_vol o end)).
Proof. exact ref_modify_replace. Qed.

(** A modification with nothing to change, or of an order that is not active, does nothing. *)
Theorem c06_nothing_to_change : forall r id o np nv,
  nth_error (r_orders r) id = Some o -> o_status o <> SActive -> ref_modify r id np nv = Some r.
Proof. exact ref_modify_noop. Qed.

Check c06_modify_refines.

(** Non-vacuity, including the boundary: order 0 and 1 rest at 100; reducing 0
    keeps it first; setting 0's volume to its current value re-queues it behind 1. *)
Example c06_boundary :
  (do s0 <- book_new 0 1 true;
   do (s1, _) <- run_outs s0 [OCreatePlace Ask 5 1 (Some 100); OSetTime 1; OCreatePlace Ask 5 2 (Some 100); OSetTime 2;
                              OModify 0 None (Some 3)];
   do (s2, _) <- run_outs s1 [OModify 0 None (Some 3)];
   Ok (r_askq (abs s1), r_askq (abs s2), ask_vol s2))
  = Ok ([0%nat; 1%nat], [1%nat; 0%nat], 8).
Proof. vm_compute. reflexivity. Qed.

Print Assumptions c06_modify_refines.
Print Assumptions c06_reduction_keeps_place.
Print Assumptions c06_otherwise_requeued.
Print Assumptions c06_nothing_to_change.
