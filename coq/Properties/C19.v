(** * C19 — Python-facing arrays, dictionaries and data frames are laid out as documented

   Generated/Layout.v is re-extracted on every run from the function bodies and
   from the documentation tables that describe them. The observation arrays
   are, in the source, a list of expressions over the market state; two such
   lists denote the same array for *every* market state exactly when they are
   equal as lists of field selectors, which is what is proved here. *)
From Coq Require Import String List. Import ListNotations.
From Bourse Require Import Generated.Layout.
Open Scope string_scope.

(** semantics: an array builder maps a market state (a valuation of the field
    selectors) to the list of values *)
Definition eval (st : string -> nat) (code : list string) : list nat := map st code.

Theorem c19_arrays_as_documented : forall st k,
  nth_error (eval st code_StepEnv_level_1) k = nth_error (eval st doc_StepEnv_level_1) k /\
  nth_error (eval st code_StepEnv_level_2) k = nth_error (eval st doc_StepEnv_level_2) k /\
  nth_error (eval st code_StepEnvNumpy_level_1) k = nth_error (eval st doc_StepEnvNumpy_level_1) k /\
  nth_error (eval st code_StepEnvNumpy_level_2) k = nth_error (eval st doc_StepEnvNumpy_level_2) k /\
  nth_error (eval st code_StepEnvNumpy_level_2) k = nth_error (eval st doc_BaseNumpyAgent_level_2) k.
Proof. intros st k. repeat split; reflexivity. Qed.

Theorem c19_documented_lengths :
  length code_StepEnv_level_1 = 9 /\ length code_StepEnvNumpy_level_1 = 9 /\
  length code_StepEnv_level_2 = 45 /\ length code_StepEnvNumpy_level_2 = 45.
Proof. repeat split; reflexivity. Qed.

(** the documented index table itself: traded volume, bid price, ask price, bid
    volume, ask volume, then per level bid volume, bid count, ask volume, ask count *)
Definition level_block (i : string) : list string :=
  [String.append "BidLvlVol:" i; String.append "BidLvlCnt:" i; String.append "AskLvlVol:" i; String.append "AskLvlCnt:" i].
Theorem c19_index_table :
  doc_StepEnv_level_1 = List.app ["TradeVol"; "BidPrice"; "AskPrice"; "BidVol"; "AskVol"] (level_block "0") /\
  doc_StepEnv_level_2 = List.app ["TradeVol"; "BidPrice"; "AskPrice"; "BidVol"; "AskVol"]
     (flat_map level_block ["0"; "1"; "2"; "3"; "4"; "5"; "6"; "7"; "8"; "9"]).
Proof. split; reflexivity. Qed.

(** the market-data dictionary has exactly the documented keys, each bound to the matching series *)
Theorem c19_market_data_keys :
  code_StepEnv_market_data = doc_StepEnv_market_data /\
  code_StepEnvNumpy_market_data = doc_StepEnvNumpy_market_data /\
  length code_StepEnv_market_data = 45.
Proof. repeat split; reflexivity. Qed.

(** data-frame helpers: column k is named after tuple field k *)
Definition canon (s : string) : string :=
  if string_dec s "t" then "time" else
  if string_dec s "active_order_id" then "active_id" else
  if string_dec s "passive_order_id" then "passive_id" else s.
Theorem c19_dataframe_columns :
  columns_orders = tuple_order /\ columns_orders = doc_columns_orders /\
  map canon tuple_trade = columns_trades.
Proof. repeat split; reflexivity. Qed.

Check c19_arrays_as_documented.
Print Assumptions c19_arrays_as_documented.
Print Assumptions c19_documented_lengths.
Print Assumptions c19_index_table.
Print Assumptions c19_market_data_keys.
Print Assumptions c19_dataframe_columns.
