(** * C08 — a simulation step applies exactly the queued instructions, once each, as a batch *)
From Bourse Require Import Model.Types Model.Book Model.Obs Model.Rng Model.Env Proofs.EnvProps.
From Coq Require Import Permutation.

(** One step: the processed list [q] is the shuffle of the queue — a permutation
    of it, so every instruction is applied exactly once and nothing else is —
    the market afterwards is the plain replay of [q] on the books at times
    [start + i] ([process_all]) followed by the clock jump to [start + step_size];
    the queue is empty; the cached level-2 data and the recorded series are
    refreshed from the resulting books; the per-step traded volume is the books'
    counter, which was reset at the start of the step. *)
Theorem c08_step_spec : forall L e g e' g',
  menv_step L e g = Ok (e', g') ->
  exists start q m1 l2,
    market_time (en_market e) = Ok start /\
    shuffle (en_queue e) g = Some (q, g') /\ Permutation (en_queue e) q /\
    process_all start 0 (map reset_trade_vol (en_market e)) q = Ok m1 /\
    en_market e' = market_set_time m1 (start + en_step e) /\
    en_queue e' = [] /\ en_step e' = en_step e /\
    all_l2 L (en_market e') = Ok l2 /\ en_l2 e' = l2 /\
    en_hist e' = map (fun p => fst p ++ [snd p]) (combine (en_hist e) l2) /\
    en_tvols e' = map (fun p => fst p ++ [b_tvol (snd p)]) (combine (en_tvols e) (en_market e')).
Proof. exact step_spec. Qed.

(** The i-th processed instruction is handled with every book's clock at [start + i]. *)
Theorem c08_ith_at_start_plus_i : forall start i m e r m',
  process_all start i m (e :: r) = Ok m' ->
  exists m1, market_process (market_set_time m (start + i)) e = Ok m1 /\
             process_all start (i + 1) m1 r = Ok m'.
Proof. exact process_all_times. Qed.

Check c08_step_spec.

Example c08_nonvacuous :
  (do e0 <- menv_new 2 100 [1] 10 true;
   do (e1, _) <- menv_place e0 0 Ask 5 1 (Some 20);
   do (e2, _) <- menv_place e1 0 Bid 3 2 (Some 20);
   do (e3, _) <- menv_place e2 0 Bid 4 3 None;
   do (e4, g) <- menv_step 2 (push_event e3 (MCancel 0 0)) (seed_from_u64 7);
   Ok (map (fun b => (b_t b, b_tvol b, length (b_trades b))) (en_market e4), length (en_queue e4), en_tvols e4))
  = Ok ([(110, 3, 1%nat)], 0%nat, [[3]]).
Proof. vm_compute. reflexivity. Qed.

Print Assumptions c08_step_spec.
Print Assumptions c08_ith_at_start_plus_i.
