(** * C08 — a simulation step applies exactly the queued instructions, once each, as a batch *)
From Bourse Require Import Model.Types Model.Book Model.Obs Model.Rng Model.Env Proofs.EnvProps Proofs.AssetProjection.
From Coq Require Import Permutation.

(** One step: the processed list [q] is the shuffle of the queue — a permutation
    of it, so every instruction is applied exactly once and nothing else is —
    the market afterwards is the plain replay of [q] on the books at times
    [start + i] ([process_all]) followed by the clock jump to [start + step_size];
    the queue is empty; the cached level-2 data and the recorded series are
    refreshed from the resulting books; the per-step traded volume is the books'
    counter, which was reset at the start of the step. *)
Theorem c08_step_spec : forall L e g e' g',
  menv_step L e g = Ok (e', g') ->
  exists start q m1 l2,
    market_time (en_market e) = Ok start /\
    shuffle (en_queue e) g = Some (q, g') /\ Permutation (en_queue e) q /\
    process_all start 0 (map reset_trade_vol (en_market e)) q = Ok m1 /\
    en_market e' = market_set_time m1 (start + en_step e) /\
    en_queue e' = [] /\ en_step e' = en_step e /\
    all_l2 L (en_market e') = Ok l2 /\ en_l2 e' = l2 /\
    en_hist e' = map (fun p => fst p ++ [snd p]) (combine (en_hist e) l2) /\
    en_tvols e' = map (fun p => fst p ++ [b_tvol (snd p)]) (combine (en_tvols e) (en_market e')).
Proof. exact step_spec. Qed.

(** The i-th processed instruction is handled with every book's clock at [start + i]. *)
Theorem c08_ith_at_start_plus_i : forall start i m e r m',
  process_all start i m (e :: r) = Ok m' ->
  exists m1, market_process (market_set_time m (start + i)) e = Ok m1 /\
             process_all start (i + 1) m1 r = Ok m'.
Proof. exact process_all_times. Qed.

Check c08_step_spec.

Example c08_nonvacuous :
  (do e0 <- menv_new 2 100 [1] 10 true;
   do (e1, _) <- menv_place e0 0 Ask 5 1 (Some 20);
   do (e2, _) <- menv_place e1 0 Bid 3 2 (Some 20);
   do (e3, _) <- menv_place e2 0 Bid 4 3 None;
   do (e4, g) <- menv_step 2 (push_event e3 (MCancel 0 0)) (seed_from_u64 7);
   Ok (map (fun b => (b_t b, b_tvol b, length (b_trades b))) (en_market e4), length (en_queue e4), en_tvols e4))
  = Ok ([(110, 3, 1%nat)], 0%nat, [[3]]).
Proof. vm_compute. reflexivity. Qed.

(** "The market after the step is exactly what a plain order book produces when those instructions
    are replayed on it in that order at those times": for every asset, the book after the step is the
    result of [Book.run] - the plain order book's own history function - on the counter reset
    followed by, for the i-th processed instruction, [set_time (start + i)] and (when it is addressed
    to this asset) [process_event], with the clock then moved to [start + step_size]. *)
Theorem c08_step_is_replay_on_plain_books : forall L e g e' g',
  Forall (fun b => bounded b = true) (en_market e) ->
  menv_step L e g = Ok (e', g') ->
  exists start q g1, market_time (en_market e) = Ok start /\ shuffle (en_queue e) g = Some (q, g1) /\
    forall a b, nth_error (en_market e) a = Some b ->
      exists b1, run b (OResetTvol :: asset_ops a start 0 q) = Ok b1 /\
                 nth_error (en_market e') a = Some (set_time b1 (start + en_step e)).
Proof. exact step_projects_to_runs. Qed.

(** the hypothesis above holds in every reachable environment: a new market is bounded and every
    operation keeps it so (each operation that can move a u32 counter goes through [Book.step]) *)
Theorem c08_bounded_every_reachable_environment : forall L e g o e' g' x,
  MBounded (en_market e) -> menv_apply L e g o = Ok (e', g', x) -> MBounded (en_market e').
Proof. exact menv_apply_bounded. Qed.

Theorem c08_new_market_bounded : forall t0 ticks tr m, market_new t0 ticks tr = Ok m -> MBounded m.
Proof. exact market_new_bounded. Qed.

Print Assumptions c08_step_is_replay_on_plain_books.
Print Assumptions c08_bounded_every_reachable_environment.
Print Assumptions c08_step_spec.
Print Assumptions c08_ith_at_start_plus_i.
