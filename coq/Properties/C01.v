(** * C01 — orders execute by strict price-time priority; equality with a reference engine *)
From Bourse Require Import Model.Types Model.Map Model.Side Model.Book Model.Obs Spec.RefBook
  Proofs.Ledger Proofs.Refine Proofs.RefProps Proofs.Volumes Proofs.Reload Proofs.Progress.

(** Refinement, one operation: under the queue invariant every successful
    operation of the model (create / place / create-and-place / cancel / modify /
    process-event / set-time / toggles) is the reference engine's operation on
    the abstraction (order table, the two priority queues as id lists, trade
    log, counter, clock, flag), returns the same result, and preserves the
    invariant. [op_u32] only says that prices are 32-bit. No hypothesis on the
    clock is needed. *)
Theorem c01_refines_step : forall s o s' x,
  InvQ None s -> op_u32 o -> o <> OReload ->
  step_raw s o = Ok (s', x) ->
  ref_step (abs s) o = Some (abs s', x) /\ InvQ None s'.
Proof. exact step_raw_refines. Qed.

(** Refinement, every history from a new book: the model's final state abstracts
    to the reference engine's, with the same results along the way. *)
Theorem c01_refines_history : forall t0 tick tr s0 ops s xs,
  book_new t0 tick tr = Ok s0 -> Forall op_u32 ops -> ~ In OReload ops ->
  run_outs s0 ops = Ok (s, xs) ->
  ref_run_outs (ref_new t0 tick tr) ops = Some (abs s, xs) /\ InvQ None s.
Proof.
  intros t0 tick tr s0 ops s xs H0 Hu Hnr H. destruct (InvQ_new _ _ _ _ H0) as [I E]. rewrite <- E.
  eapply run_refines; eauto.
Qed.

(** The same with snapshot reloads anywhere in the history (the reference engine's
    reload is the identity): this needs the volume invariant too ([Inv] = [InvQ] + [InvV]),
    because the reload theorem rebuilds the per-level maps. *)
Theorem c01_refines_history_with_reloads : forall t0 tick tr s0 ops s xs,
  book_new t0 tick tr = Ok s0 -> Forall op_u32 ops ->
  run_outs s0 ops = Ok (s, xs) ->
  ref_run_outs (ref_new t0 tick tr) ops = Some (abs s, xs) /\ Inv s.
Proof.
  intros t0 tick tr s0 ops s xs H0 Hu H. destruct (InvQ_new _ _ _ _ H0) as [_ E]. rewrite <- E.
  eapply run_inv_all; [eapply Inv_new; eassumption | eassumption | eassumption].
Qed.

(** Progress: the refinement theorems speak of successful steps; this one says
    when a step succeeds. In a state satisfying the invariant a request whose ids
    exist never aborts - no [unwrap] on a missing price level, no unsigned
    underflow of a volume or a count, and the matching loop ends within its fuel
    ([do_match_ok]) - as long as the u64 clock and queue stamps are below their
    maximum ([clock_ok]). Over a history the only aborts are therefore ids that do
    not exist and arithmetic overflow (u32 volumes, [bounded]; u64 stamps):
    [valid_run] says exactly that these do not occur along the way. *)
Theorem c01_progress_step : forall s o,
  Inv s -> clock_ok s -> op_u32 o -> op_ids s o -> exists s' x, step_raw s o = Ok (s', x).
Proof. exact step_raw_progress. Qed.

Theorem c01_progress_history : forall ops s,
  Inv s -> valid_run s ops -> exists s' xs, run_outs s ops = Ok (s', xs).
Proof. exact run_progress. Qed.

Theorem c01_matching_loop_terminates : forall sd s a,
  loop_inv sd s -> exists s' a', do_match sd s a = Ok (s', a').
Proof. exact do_match_ok. Qed.

(** The matching loop is the reference walk over the opposite queue. *)
Theorem c01_matching_is_reference_walk : forall sd fuel s agg s' agg',
  side_ok (b_orders s) (opp sd) (get_side s (opp sd)) -> table_wf (b_orders s) ->
  side_eqb (o_side agg) sd = true -> o_price agg <= MAXP ->
  match_loop fuel sd s agg = Some (Ok (s', agg')) ->
  ref_match (b_t s) agg (tbl s) (qof (get_side s (opp sd))) (b_trades s) (b_tvol s)
    = (agg', tbl s', qof (get_side s' (opp sd)), b_trades s', b_tvol s').
Proof. intros. eapply match_loop_refines; eauto. Qed.

(** What the reference engine itself guarantees: the orders consumed by an
    arrival are a prefix of the opposite queue (best first, earliest first);
    the walk stops exactly when the aggressor is exhausted or the next head
    does not satisfy its limit; the log is only extended, by records stamped
    with the book time and naming the arrival as aggressor; a resting remainder
    goes behind every order at a better or equal price. *)
Theorem c01_ref_consumes_prefix : forall t q agg tb log tv agg' tb' q' log' tv',
  ref_match t agg tb q log tv = (agg', tb', q', log', tv') -> exists done, q = done ++ q'.
Proof. exact ref_match_suffix. Qed.

Theorem c01_ref_stops_when_exhausted_or_limit : forall t q agg tb log tv agg' tb' q' log' tv',
  ref_match t agg tb q log tv = (agg', tb', q', log', tv') ->
  match q' with [] => True | h :: _ => (0 <? o_vol agg') && admits agg' (oget tb' h) = false end.
Proof. exact ref_match_stops. Qed.

Theorem c01_ref_log_extended : forall t q agg tb log tv agg' tb' q' log' tv',
  ref_match t agg tb q log tv = (agg', tb', q', log', tv') ->
  exists new, log' = log ++ new /\ tv' = tv + sumv new /\ Forall (fun tr => tr_t tr = t /\ tr_active tr = o_id agg) new.
Proof. exact ref_match_log. Qed.

Theorem c01_ref_rests_behind_better_or_equal : forall tb o id q,
  exists l1 l2, q = l1 ++ l2 /\ ref_insert tb o id q = l1 ++ id :: l2 /\
    Forall (fun h => better_eq o (oget tb h) = true) l1 /\
    match l2 with [] => True | h :: _ => better_eq o (oget tb h) = false end.
Proof. exact ref_insert_position. Qed.

Check c01_refines_history.

(** Non-vacuity: a history with a partial fill, a level exhaustion, a cancel of
    a resting order and a re-pricing satisfies the premises, and the abstraction
    of its final state shows the queues. *)
Example c01_nonvacuous :
  (do s0 <- book_new 0 1 true;
   do (s, xs) <- run_outs s0 [OCreatePlace Ask 5 1 (Some 100); OSetTime 1; OCreatePlace Ask 4 2 (Some 100);
                              OCreatePlace Ask 3 3 (Some 101); OCreatePlace Bid 2 4 (Some 99); OSetTime 2;
                              OCreatePlace Bid 7 5 (Some 100); OCancel 2; OEvent (EvModify 3 (Some 98) None)];
   Ok (r_bidq (abs s), r_askq (abs s), length (b_trades s), map (fun t => (tr_passive t, tr_vol t)) (b_trades s)))
  = Ok ([3%nat], [1%nat], 2%nat, [(0%nat, 5); (1%nat, 2)]).
Proof. vm_compute. reflexivity. Qed.

Print Assumptions c01_refines_step.
Print Assumptions c01_refines_history.
Print Assumptions c01_refines_history_with_reloads.
Print Assumptions c01_progress_step.
Print Assumptions c01_progress_history.
Print Assumptions c01_matching_loop_terminates.
Print Assumptions c01_matching_is_reference_walk.
Print Assumptions c01_ref_consumes_prefix.
Print Assumptions c01_ref_stops_when_exhausted_or_limit.
Print Assumptions c01_ref_log_extended.
Print Assumptions c01_ref_rests_behind_better_or_equal.
