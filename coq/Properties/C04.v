(** * C04 — order lifecycle is a one-way state machine; redundant requests are no-ops *)
From Bourse Require Import Model.Types Model.Book Proofs.Lifecycle.

(** Redundant requests return the *same* state (so every observable is unchanged). *)
Theorem c04_place_twice_noop : forall s id e,
  nth_error (b_orders s) id = Some e -> o_status (e_order e) <> SNew -> place_order s id = Ok s.
Proof. exact place_noop. Qed.

Theorem c04_cancel_inactive_noop : forall s id e,
  nth_error (b_orders s) id = Some e -> o_status (e_order e) <> SActive -> cancel_order s id = Ok s.
Proof. exact cancel_noop. Qed.

Theorem c04_modify_inactive_noop : forall s id e np nv,
  nth_error (b_orders s) id = Some e -> o_status (e_order e) <> SActive -> modify_order s id np nv = Ok s.
Proof. exact modify_noop. Qed.

Theorem c04_event_noop : forall s ev e,
  nth_error (b_orders s) (match ev with EvNew i | EvCancel i | EvModify i _ _ => i end) = Some e ->
  (match ev with EvNew _ => o_status (e_order e) <> SNew | _ => o_status (e_order e) <> SActive end) ->
  process_event s ev = Ok s.
Proof. exact process_event_noop. Qed.

Theorem c04_clock_changes_only_clock : forall s t,
  let s' := set_time s t in
  b_t s' = t /\ b_tick s' = b_tick s /\ b_tvol s' = b_tvol s /\ b_ask s' = b_ask s /\
  b_bid s' = b_bid s /\ b_orders s' = b_orders s /\ b_trades s' = b_trades s /\
  b_trading s' = b_trading s.
Proof. exact set_time_only_clock. Qed.

(** Ids are assigned densely in creation order; id, side, trader and starting
    volume of every existing order survive every operation. *)
Theorem c04_identity_preserved : forall s o s' x,
  step_raw s o = Ok (s', x) ->
  keeps (b_orders s) (b_orders s') /\
  length (b_orders s') =
    (match x with OCreated (Created _) => S (length (b_orders s)) | _ => length (b_orders s) end) /\
  (match x with OCreated (Created id) => id = length (b_orders s) | _ => True end).
Proof. exact identity_preserved. Qed.

Check c04_modify_inactive_noop : forall s id e np nv,
  nth_error (b_orders s) id = Some e -> o_status (e_order e) <> SActive -> modify_order s id np nv = Ok s.

Print Assumptions c04_place_twice_noop.
Print Assumptions c04_cancel_inactive_noop.
Print Assumptions c04_modify_inactive_noop.
Print Assumptions c04_event_noop.
Print Assumptions c04_clock_changes_only_clock.
Print Assumptions c04_identity_preserved.
