(** * C04 — order lifecycle is a one-way state machine; redundant requests are no-ops *)
From Bourse Require Import Model.Types Model.Book Spec.RefBook Spec.Monitors Proofs.Lifecycle Proofs.Refine Proofs.Volumes Proofs.LifeRef.

(** Redundant requests return the *same* state (so every observable is unchanged). *)
Theorem c04_place_twice_noop : forall s id e,
  nth_error (b_orders s) id = Some e -> o_status (e_order e) <> SNew -> place_order s id = Ok s.
Proof. exact place_noop. Qed.

Theorem c04_cancel_inactive_noop : forall s id e,
  nth_error (b_orders s) id = Some e -> o_status (e_order e) <> SActive -> cancel_order s id = Ok s.
Proof. exact cancel_noop. Qed.

Theorem c04_modify_inactive_noop : forall s id e np nv,
  nth_error (b_orders s) id = Some e -> o_status (e_order e) <> SActive -> modify_order s id np nv = Ok s.
Proof. exact modify_noop. Qed.

Theorem c04_event_noop : forall s ev e,
  nth_error (b_orders s) (match ev with EvNew i | EvCancel i | EvModify i _ _ => i end) = Some e ->
  (match ev with EvNew _ => o_status (e_order e) <> SNew | _ => o_status (e_order e) <> SActive end) ->
  process_event s ev = Ok s.
Proof. exact process_event_noop. Qed.

Theorem c04_clock_changes_only_clock : forall s t,
  let s' := set_time s t in
  b_t s' = t /\ b_tick s' = b_tick s /\ b_tvol s' = b_tvol s /\ b_ask s' = b_ask s /\
  b_bid s' = b_bid s /\ b_orders s' = b_orders s /\ b_trades s' = b_trades s /\
  b_trading s' = b_trading s.
Proof. exact set_time_only_clock. Qed.

(** Ids are assigned densely in creation order; id, side, trader and starting
    volume of every existing order survive every operation. *)
Theorem c04_identity_preserved : forall s o s' x,
  step_raw s o = Ok (s', x) ->
  keeps (b_orders s) (b_orders s') /\
  length (b_orders s') =
    (match x with OCreated (Created _) => S (length (b_orders s)) | _ => length (b_orders s) end) /\
  (match x with OCreated (Created id) => id = length (b_orders s) | _ => True end).
Proof. exact identity_preserved. Qed.

(** The state machine. [life_ok trading t a b] relates what the order list holds
    for one order before ([a]) and after ([b]) an operation executed at book time
    [t] with the trading flag [trading]: side, trader, id and starting volume are
    equal; the status pair is one of New->New, New->Active (limit only), New->Filled,
    New->Cancelled (market only), New->Rejected (market only, trading off),
    Active->Active / Filled / Cancelled, or terminal->same; a terminal order is
    returned unchanged ([b = a]); the arrival time becomes [t] exactly when the
    order leaves New and is otherwise unchanged; the end time becomes [t] exactly
    when the order reaches a terminal status and is otherwise unchanged. It holds
    for every order across every successful operation, reloads included, in every
    state satisfying the invariant [Inv] (every reachable state: C02). *)
Theorem c04_lifecycle_step : forall s o s' x,
  Inv s -> op_u32 o -> step_raw s o = Ok (s', x) ->
  forall j a, nth_error (map e_order (b_orders s)) j = Some a ->
    exists b, nth_error (map e_order (b_orders s')) j = Some b /\ life_ok (b_trading s) (b_t s) a b.
Proof. exact step_raw_life. Qed.

(** The order a call creates starts as New with the book time as arrival time, no
    end time and its whole volume; what the list holds after the call (the call
    may place it at once) is one lifecycle step away from that. *)
Theorem c04_created_order : forall s o s' id,
  Inv s -> op_u32 o -> step_raw s o = Ok (s', OCreated (Created id)) ->
  exists a b, fresh_order (b_t s) o id = Some a /\ id = length (map e_order (b_orders s)) /\
              nth_error (map e_order (b_orders s')) id = Some b /\ life_ok (b_trading s) (b_t s) a b.
Proof. exact step_raw_fresh. Qed.

(** A Filled, Cancelled or Rejected order never changes again, whatever follows. *)
Theorem c04_terminal_forever : forall ops s s' xs,
  Inv s -> Forall op_u32 ops -> run_outs s ops = Ok (s', xs) ->
  forall j a, nth_error (map e_order (b_orders s)) j = Some a -> terminal (o_status a) = true ->
    nth_error (map e_order (b_orders s')) j = Some a.
Proof. exact run_terminal_forever. Qed.

Check c04_lifecycle_step : forall s o s' x,
  Inv s -> op_u32 o -> step_raw s o = Ok (s', x) ->
  forall j a, nth_error (map e_order (b_orders s)) j = Some a ->
    exists b, nth_error (map e_order (b_orders s')) j = Some b /\ life_ok (b_trading s) (b_t s) a b.

(** Non-vacuity: one history in which orders reach every status. *)
Example c04_nonvacuous :
  (do s0 <- book_new 0 1 true;
   do (s, xs) <- run_outs s0 [OCreate Bid 3 9 (Some 90); OCreatePlace Ask 5 1 (Some 100); OSetTime 4; OCreatePlace Ask 4 2 (Some 100);
                              OCreatePlace Bid 7 5 (Some 100); OCancel 2; OCreatePlace Bid 2 6 None; ODisable; OCreatePlace Bid 1 7 None];
   Ok (map (fun e => (o_status (e_order e), o_arr (e_order e), o_end (e_order e))) (b_orders s)))
  = Ok [(SNew, 0, MAXT); (SFilled, 0, 4); (SCancelled, 4, 4); (SFilled, 4, 4); (SCancelled, 4, 4); (SRejected, 4, 4)].
Proof. vm_compute. reflexivity. Qed.

Check c04_modify_inactive_noop : forall s id e np nv,
  nth_error (b_orders s) id = Some e -> o_status (e_order e) <> SActive -> modify_order s id np nv = Ok s.

Print Assumptions c04_place_twice_noop.
Print Assumptions c04_cancel_inactive_noop.
Print Assumptions c04_modify_inactive_noop.
Print Assumptions c04_event_noop.
Print Assumptions c04_clock_changes_only_clock.
Print Assumptions c04_identity_preserved.
Print Assumptions c04_lifecycle_step.
Print Assumptions c04_created_order.
Print Assumptions c04_terminal_forever.
