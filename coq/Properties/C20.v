(** * C20 — derived agent sets update every member once, in order, on the shared state *)
From Coq Require Import String List. Import ListNotations.
From Bourse Require Import Generated.MacroShapes Model.Macro.

(** The source of both derive macros, as re-read by the translator on this run,
    has exactly the canonical shape ... *)
Theorem c20_source_has_canonical_shape :
  agent_set_shape = canonical agent_set_sig /\
  market_agent_set_shape = canonical market_agent_set_sig /\
  derive_entries = [("AgentSet", "impl_agents_macro"); ("MarketAgentSet", "impl_market_agents_macro")]%string.
Proof. repeat split; reflexivity. Qed.

(** ... and a macro of that shape expands, for every struct shape (any number
    of fields, any names, any update functions), to the hand-written sequence:
    each named field exactly once, in declaration order, each on the state
    (environment and generator) left by the previous one. *)
Theorem c20_derive_is_sequence : forall (St : Type) (upd : string -> St -> St) fields s,
  run_calls St upd (expand fields) s = hand_written St upd fields s.
Proof. exact derive_is_sequence. Qed.

Theorem c20_each_field_once_in_order : forall names, expand (map Some names) = names.
Proof. exact expand_names. Qed.

Theorem c20_nesting_flattens : forall (St : Type) (upd : string -> St -> St) pre inner post s,
  run_calls St upd (pre ++ inner ++ post) s = run_calls St upd post (run_calls St upd inner (run_calls St upd pre s)).
Proof. exact nested_flattens. Qed.

Check c20_derive_is_sequence.

Example c20_nonvacuous :
  expand [Some "maker"; Some "_hedger"; None; Some "taker"]%string = ["maker"; "_hedger"; "taker"]%string.
Proof. reflexivity. Qed.

Print Assumptions c20_source_has_canonical_shape.
Print Assumptions c20_derive_is_sequence.
Print Assumptions c20_each_field_once_in_order.
Print Assumptions c20_nesting_flattens.
