(** * C03 — the trade ledger is complete, exact and conserves volume *)
From Bourse Require Import Model.Types Model.Book Spec.RefBook Proofs.Ledger Proofs.Refine Proofs.Volumes Proofs.PosVol Proofs.LedgerRef.

(** For every operation of the API: the new log is the old log plus a suffix
    (records already in the log never change), every new record carries the
    book time at execution, operations that cannot trade add nothing, and the
    cumulative counter moves by exactly the logged volume (or is reset). *)
Theorem c03_ledger_step : forall s o s' x,
  step_raw s o = Ok (s', x) ->
  exists new,
    b_trades s' = b_trades s ++ new /\
    b_tvol s' = (match o with OResetTvol => 0 | _ => b_tvol s + sumv new end) /\
    Forall (fun tr => tr_t tr = b_t s) new /\
    (match o with OSetTime _ | OEnable | ODisable | OResetTvol | OReload | OCreate _ _ _ _ | OCancel _
                | OEvent (EvCancel _) => new = [] | _ => True end).
Proof. exact ledger_step. Qed.

(** Each fill: volume [min] of the two remaining volumes, the passive order's
    price and side, both ids, and both orders lose exactly that volume. *)
Theorem c03_fill_record : forall t a p a' p' tr v,
  match_orders t a p = (a', p', tr, v) ->
  tr_t tr = t /\ tr_active tr = o_id a /\ tr_passive tr = o_id p /\ tr_vol tr = v /\
  tr_price tr = o_price p /\ tr_side tr = o_side p /\ v = N.min (o_vol a) (o_vol p) /\
  o_id a' = o_id a /\ o_vol a' = o_vol a - v /\ o_vol p' = o_vol p - v.
Proof. exact match_orders_trade. Qed.

(** Over any history the log only grows at its end. *)
Theorem c03_log_prefix_stable : forall s ops s',
  run s ops = Ok s' -> exists new, b_trades s' = b_trades s ++ new.
Proof. exact log_prefix_stable. Qed.

(** Every new record, read against the order list after the operation
    ([trade_ok]): positive volume; stamped with the book time; aggressor and passive
    are two different existing orders on opposite sides; the record carries the
    passive order's side and price; the aggressor's limit admits that price (the
    passive's limit is the price). Every order ([ledger_audit]): the volume it held
    before equals the volume it holds after plus the volume of this operation's
    records it is a party of - unless the operation explicitly sets its volume, in
    which case the requested volume takes the place of the volume before. An order
    created (and possibly placed) by the call: requested volume = remaining volume
    + its records. Holds in every state satisfying [Inv] whose restable orders have
    positive volume (every reachable state of a valid history, see C02). *)
Theorem c03_ledger_audit_step : forall s o s' x,
  Inv s -> posvol_tbl (map e_order (b_orders s)) -> op_u32 o -> step_raw s o = Ok (s', x) ->
  exists new, b_trades s' = b_trades s ++ new /\
    ledger_audit o (b_t s) (map e_order (b_orders s)) (map e_order (b_orders s')) new /\
    (forall id, x = OCreated (Created id) ->
       exists b, nth_error (map e_order (b_orders s')) id = Some b /\ req_vol o = o_vol b + traded id new).
Proof. exact step_raw_ledger. Qed.

(** Over any history: remaining volume plus everything the log says the order
    traded is constant as long as no request sets its volume explicitly. *)
Theorem c03_conservation_history : forall ops s s' xs,
  Inv s -> posvol_tbl (map e_order (b_orders s)) -> Forall op_u32 ops -> Forall op_vols ops ->
  run_outs s ops = Ok (s', xs) ->
  forall j a, nth_error (map e_order (b_orders s)) j = Some a -> Forall (fun o => ~ vol_modifies j o) ops ->
    exists b, nth_error (map e_order (b_orders s')) j = Some b /\
              o_vol a + traded j (b_trades s) = o_vol b + traded j (b_trades s').
Proof. exact run_conservation. Qed.

(** The reference walk behind the records: per passive order, volume before =
    volume after + its records of this walk; aggressor likewise; counter moves by
    the same sum. *)
Theorem c03_walk_conserves : forall t q agg tb log tv agg' tb' q' log' tv',
  NoDup q ->
  (forall id, In id q -> exists p, nth_error tb id = Some p /\ o_id p = id /\ o_side p = opp (o_side agg) /\ 0 < o_vol p) ->
  ref_match t agg tb q log tv = (agg', tb', q', log', tv') ->
  exists new, log' = log ++ new /\ tv' = tv + sumv new /\
    Forall (walk_trade t agg tb q) new /\
    o_vol agg = o_vol agg' + sumv new /\
    (forall j a, nth_error tb j = Some a ->
       exists b, nth_error tb' j = Some b /\ o_vol a = o_vol b + pvol j new /\ o_price b = o_price a /\ o_side b = o_side a).
Proof. exact ref_match_ledger. Qed.

Check c03_ledger_audit_step.

Check c03_ledger_step : forall s o s' x,
  step_raw s o = Ok (s', x) ->
  exists new,
    b_trades s' = b_trades s ++ new /\
    b_tvol s' = (match o with OResetTvol => 0 | _ => b_tvol s + sumv new end) /\
    Forall (fun tr => tr_t tr = b_t s) new /\
    (match o with OSetTime _ | OEnable | ODisable | OResetTvol | OReload | OCreate _ _ _ _ | OCancel _
                | OEvent (EvCancel _) => new = [] | _ => True end).

Example c03_nonvacuous :
  (do s0 <- book_new 7 1 true;
   do s <- run s0 [OCreatePlace Ask 5 1 (Some 100); OCreatePlace Ask 4 1 (Some 101); OSetTime 9;
                   OCreatePlace Bid 7 2 (Some 101); OModify 1 (Some 90) None];
   Ok (map (fun t => (tr_t t, tr_price t, tr_vol t, tr_active t, tr_passive t)) (b_trades s), b_tvol s))
  = Ok ([(9, 100, 5, 2%nat, 0%nat); (9, 101, 2, 2%nat, 1%nat)], 7).
Proof. vm_compute. reflexivity. Qed.

Print Assumptions c03_ledger_step.
Print Assumptions c03_fill_record.
Print Assumptions c03_log_prefix_stable.
Print Assumptions c03_ledger_audit_step.
Print Assumptions c03_conservation_history.
Print Assumptions c03_walk_conserves.
