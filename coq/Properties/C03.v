(** * C03 — the trade ledger is complete, exact and conserves volume *)
From Bourse Require Import Model.Types Model.Book Proofs.Ledger.

(** For every operation of the API: the new log is the old log plus a suffix
    (records already in the log never change), every new record carries the
    book time at execution, operations that cannot trade add nothing, and the
    cumulative counter moves by exactly the logged volume (or is reset). *)
Theorem c03_ledger_step : forall s o s' x,
  step_raw s o = Ok (s', x) ->
  exists new,
    b_trades s' = b_trades s ++ new /\
    b_tvol s' = (match o with OResetTvol => 0 | _ => b_tvol s + sumv new end) /\
    Forall (fun tr => tr_t tr = b_t s) new /\
    (match o with OSetTime _ | OEnable | ODisable | OResetTvol | OReload | OCreate _ _ _ _ | OCancel _
                | OEvent (EvCancel _) => new = [] | _ => True end).
Proof. exact ledger_step. Qed.

(** Each fill: volume [min] of the two remaining volumes, the passive order's
    price and side, both ids, and both orders lose exactly that volume. *)
Theorem c03_fill_record : forall t a p a' p' tr v,
  match_orders t a p = (a', p', tr, v) ->
  tr_t tr = t /\ tr_active tr = o_id a /\ tr_passive tr = o_id p /\ tr_vol tr = v /\
  tr_price tr = o_price p /\ tr_side tr = o_side p /\ v = N.min (o_vol a) (o_vol p) /\
  o_id a' = o_id a /\ o_vol a' = o_vol a - v /\ o_vol p' = o_vol p - v.
Proof. exact match_orders_trade. Qed.

(** Over any history the log only grows at its end. *)
Theorem c03_log_prefix_stable : forall s ops s',
  run s ops = Ok s' -> exists new, b_trades s' = b_trades s ++ new.
Proof. exact log_prefix_stable. Qed.

Check c03_ledger_step : forall s o s' x,
  step_raw s o = Ok (s', x) ->
  exists new,
    b_trades s' = b_trades s ++ new /\
    b_tvol s' = (match o with OResetTvol => 0 | _ => b_tvol s + sumv new end) /\
    Forall (fun tr => tr_t tr = b_t s) new /\
    (match o with OSetTime _ | OEnable | ODisable | OResetTvol | OReload | OCreate _ _ _ _ | OCancel _
                | OEvent (EvCancel _) => new = [] | _ => True end).

Example c03_nonvacuous :
  (do s0 <- book_new 7 1 true;
   do s <- run s0 [OCreatePlace Ask 5 1 (Some 100); OCreatePlace Ask 4 1 (Some 101); OSetTime 9;
                   OCreatePlace Bid 7 2 (Some 101); OModify 1 (Some 90) None];
   Ok (map (fun t => (tr_t t, tr_price t, tr_vol t, tr_active t, tr_passive t)) (b_trades s), b_tvol s))
  = Ok ([(9, 100, 5, 2%nat, 0%nat); (9, 101, 2, 2%nat, 1%nat)], 7).
Proof. vm_compute. reflexivity. Qed.

Print Assumptions c03_ledger_step.
Print Assumptions c03_fill_record.
Print Assumptions c03_log_prefix_stable.
