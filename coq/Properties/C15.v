(** * C15 — processing order within a step is a shuffle driven only by the generator *)
From Bourse Require Import Model.Types Model.Rng Model.Env Proofs.EnvProps.
From Coq Require Import Permutation.

(** The processed order is a permutation of the queue. *)
Theorem c15_shuffle_is_permutation : forall (A : Type) (l l' : list A) g g',
  shuffle l g = Some (l', g') -> Permutation l l'.
Proof. intros A; exact (@shuffle_is_permutation A). Qed.

(** It does not depend on what the instructions are: shuffling commutes with
    every relabelling of the items, i.e. the permutation is a function of the
    batch length and the generator state alone. Equal generator states give
    equal permutations because [shuffle] is a function. *)
Theorem c15_shuffle_parametric : forall (A B : Type) (f : A -> B) (l : list A) g,
  shuffle (map f l) g = option_map (fun p => (map f (fst p), snd p)) (shuffle l g).
Proof. intros A B; exact (@shuffle_parametric A B). Qed.

Check c15_shuffle_parametric.

(** Non-vacuity and a pin of the algorithm: the permutations rand 0.8.5 /
    rand_xoshiro 0.6.0 produce for two seeds (the same the real crates give). *)
Example c15_known_permutations :
  option_map fst (shuffle [0;1;2;3;4;5;6;7]%nat (seed_from_u64 101)) = Some [2;5;0;1;7;3;6;4]%nat /\
  option_map fst (shuffle [0;1;2;3;4]%nat (seed_from_u64 7)) = Some [1;2;3;0;4]%nat.
Proof. vm_compute. split; reflexivity. Qed.

Print Assumptions c15_shuffle_is_permutation.
Print Assumptions c15_shuffle_parametric.
