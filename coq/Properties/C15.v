(** * C15 — processing order within a step is a shuffle driven only by the generator *)
From Bourse Require Import Model.Types Model.Rng Model.Env Proofs.EnvProps Proofs.Uniform.
From Coq Require Import Permutation.

(** The processed order is a permutation of the queue. *)
Theorem c15_shuffle_is_permutation : forall (A : Type) (l l' : list A) g g',
  shuffle l g = Some (l', g') -> Permutation l l'.
Proof. intros A; exact (@shuffle_is_permutation A). Qed.

(** It does not depend on what the instructions are: shuffling commutes with
    every relabelling of the items, i.e. the permutation is a function of the
    batch length and the generator state alone. Equal generator states give
    equal permutations because [shuffle] is a function. *)
Theorem c15_shuffle_parametric : forall (A B : Type) (f : A -> B) (l : list A) g,
  shuffle (map f l) g = option_map (fun p => (map f (fst p), snd p)) (shuffle l g).
Proof. intros A B; exact (@shuffle_parametric A B). Qed.

Check c15_shuffle_parametric.

(** Uniformity of the algorithm, part 1 - the index sampler
    ([UniformInt<u32>::sample_single], widening multiply with rejection): for every
    range [0 < r < 2^32] and every value [k < r], the 32-bit words [v] that are
    accepted and yield [k] are exactly the interval [c_k <= v < c_k + 2^lz] with
    [c_k = ceil(k * 2^32 / r)] and [lz] the leading zeros of [r]; the interval lies
    inside the 32-bit words. Every value therefore has the same number [2^lz] of
    preimages: on uniformly distributed words the accepted draw is uniform on
    [0, r). (Unbounded in [r]: a proof, not an enumeration.) *)
Theorem c15_sampler_equal_fibers : forall r k v,
  0 < r -> r < 4294967296 -> k < r -> v < 4294967296 ->
  ((m32 (v * r) <=? zone_of r) = true /\ N.shiftr (v * r) 32 = k) <->
  (cdiv (k * 4294967296) r <= v < cdiv (k * 4294967296) r + 2 ^ lz32 r).
Proof. exact sampler_fiber. Qed.

Theorem c15_sampler_fibers_inside_words : forall r k,
  0 < r -> r < 4294967296 -> k < r -> cdiv (k * 4294967296) r + 2 ^ lz32 r <= 4294967296.
Proof. exact sampler_fiber_inside. Qed.

(** Part 2 - Fisher-Yates: the shuffle is [fy] applied to the indices it draws,
    the index for position [i] lying in [0..i]; and on a batch of distinct items
    two different index sequences give two different arrangements. There are
    [n!] index sequences and [n!] arrangements, so each arrangement arises from
    exactly one sequence: with uniform, independent index draws every processing
    order is equally likely. *)
Theorem c15_shuffle_is_fisher_yates : forall (A : Type) i (l l' : list A) g g',
  shuffle_from i l g = Some (l', g') -> exists js, js_ok i js /\ l' = fy i js l.
Proof. intros A; exact (@shuffle_from_is_fy A). Qed.

Theorem c15_fisher_yates_injective : forall (A : Type) i js js' (l : list A),
  NoDup l -> (i < length l)%nat -> js_ok i js -> js_ok i js' -> fy i js l = fy i js' l -> js = js'.
Proof. intros A; exact (@fy_injective A). Qed.

Check c15_sampler_equal_fibers.
Check c15_fisher_yates_injective.

(** Non-vacuity: range 6 has lz = 29; value 5 comes from the 2^29 words starting at ceil(5 * 2^32 / 6). *)
Example c15_fiber_example :
  lz32 6 = 29 /\ cdiv (5 * 4294967296) 6 = 3579139414 /\
  (m32 (3579139414 * 6) <=? zone_of 6) = true /\ N.shiftr (3579139414 * 6) 32 = 5 /\
  N.shiftr (3579139413 * 6) 32 = 4 /\ (m32 ((3579139414 + 536870912) * 6) <=? zone_of 6) = false.
Proof. vm_compute. repeat split; reflexivity. Qed.

(** Non-vacuity and a pin of the algorithm: the permutations rand 0.8.5 /
    rand_xoshiro 0.6.0 produce for two seeds (the same the real crates give). *)
Example c15_known_permutations :
  option_map fst (shuffle [0;1;2;3;4;5;6;7]%nat (seed_from_u64 101)) = Some [2;5;0;1;7;3;6;4]%nat /\
  option_map fst (shuffle [0;1;2;3;4]%nat (seed_from_u64 7)) = Some [1;2;3;0;4]%nat.
Proof. vm_compute. split; reflexivity. Qed.

Print Assumptions c15_shuffle_is_permutation.
Print Assumptions c15_shuffle_parametric.
Print Assumptions c15_sampler_equal_fibers.
Print Assumptions c15_sampler_fibers_inside_words.
Print Assumptions c15_shuffle_is_fisher_yates.
Print Assumptions c15_fisher_yates_injective.
