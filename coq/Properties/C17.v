(** * C17 — momentum agents trade symmetrically in rising and falling markets *)
From Bourse Require Import Model.Types Model.Side Model.Book Model.Rng Model.Float Model.Env Model.Agents Proofs.AgentProps.

(** When the momentum signal is exactly zero a trader submits nothing. *)
Theorem c17_flat_no_orders : forall ln e c a p mid pl pm trader live e' c' live',
  mom_trader ln e c a p mid f_zero pl pm trader live = Ok (e', c', live') -> e' = e /\ live' = live.
Proof. exact mom_flat_no_orders. Qed.

(** The trading probability is computed through [fabs], which forgets the sign
    of its argument: negating the signal (a mirrored price path negates M
    exactly in IEEE arithmetic; [tanh] odd is an oracle assumption) leaves the
    propensity unchanged. *)
Theorem c17_probability_ignores_sign : forall x : f64, fabs (BinarySingleNaN.Bopp x) = fabs x.
Proof. exact fabs_opp. Qed.

Check c17_flat_no_orders.
Print Assumptions c17_flat_no_orders.
Print Assumptions c17_probability_ignores_sign.
