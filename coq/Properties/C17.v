(** * C17 — momentum agents trade symmetrically in rising and falling markets *)
From Coq Require Import ZArith NArith.
From Bourse Require Import Model.Types Model.Side Model.Book Model.Rng Model.Float Model.Env Model.Agents Proofs.AgentProps Proofs.AgentDir Proofs.FloatSym.

(** When the momentum signal is exactly zero a trader submits nothing. *)
Theorem c17_flat_no_orders : forall ln e c a p mid pl pm trader live e' c' live',
  mom_trader ln e c a p mid f_zero pl pm trader live = Ok (e', c', live') -> e' = e /\ live' = live.
Proof. exact mom_flat_no_orders. Qed.

(** The trading probability is computed through [fabs], which forgets the sign
    of its argument: negating the signal (a mirrored price path negates M
    exactly in IEEE arithmetic; [tanh] odd is an oracle assumption) leaves the
    propensity unchanged. *)
Theorem c17_probability_ignores_sign : forall x : f64, fabs (BinarySingleNaN.Bopp x) = fabs x.
Proof. exact fabs_opp. Qed.

(** Direction. One update of a momentum agent (all its traders, limit and market
    orders): with [M = m (1 - decay) + decay (P - p)] computed in binary64 from the
    mid-price it sees and the one it saw last, every order it adds to its asset's
    book is a buy when [M > 0] and a sell when [M < 0]; when [M] is zero (or on the
    first look, when there is no previous price) the book is unchanged. [lognormal]
    and [tanh64] are arbitrary (the direction does not depend on the oracles). *)
Theorem c17_direction_follows_sign : forall lognormal tanh64 k e c a orders first n p last mom e' c' ag',
  agent_update lognormal tanh64 k e c (AMomentum a orders first n p last mom) = Ok (e', c', ag') ->
  match last with
  | None => en_market e' = en_market e
  | Some lp =>
      exists mid, mid_f64 e a = Ok mid /\
        let m := mom_signal p mom mid lp in
        (fgt m f_zero = true -> grows_with Bid a e e') /\
        (fgt m f_zero = false -> flt m f_zero = true -> grows_with Ask a e e') /\
        (fgt m f_zero = false -> flt m f_zero = false -> en_market e' = en_market e)
  end.
Proof. exact momentum_update_direction. Qed.

(** Opposite signals have opposite signs (and [fabs] gives them the same
    propensity, above): what makes the mirrored order flow the mirror image. *)
Theorem c17_opposite_signal_opposite_sign : forall m : f64,
  fgt (BinarySingleNaN.Bopp m) f_zero = flt m f_zero /\ flt (BinarySingleNaN.Bopp m) f_zero = fgt m f_zero.
Proof. exact sign_of_opp. Qed.

(** Mirroring. [mirror x y]: [y] is the negation of [x], up to the sign of a zero.
    One step of a run and of its mirror image, with mid-prices [a/2], [b/2] (now, last
    time) and mirrored mid-prices [a'/2], [b'/2] reflected about a fixed level
    ([a' - b' = b - a]; prices are half-integers below 2^51, exactly representable, and
    their differences are exact in binary64: [mirrored_move]): if the carried signals
    are mirrored, then the new signals are mirrored, the propensity
    [|demand * tanh(scale * M) / n|] is *equal* (and with it the limit-order
    probability, a multiple of it), and the direction tests are exchanged - the
    mirrored agent sells exactly when the original buys. Binary64 round-to-nearest
    arithmetic is sign-symmetric ([fmul_opp_l], [fmul_opp_r], [fdiv_opp_l], [fadd_opp]);
    of the [tanh] oracle it is assumed that it is odd and maps zeros to zeros. By
    induction over the steps (the first look carries M = 0 on both sides), with the same
    seed the two runs make the same draws against the same probabilities: buys become
    sells of the same size at the same steps. *)
Theorem c17_mirrored_history_step : forall tanh64
  (tanh_odd : forall x, T tanh64 (BinarySingleNaN.Bopp x) = BinarySingleNaN.Bopp (T tanh64 x))
  (tanh_zero : forall x, is_zero x -> is_zero (T tanh64 x))
  p n mom mom' a b a' b',
  (Z.of_N a < 2 ^ 52)%Z -> (Z.of_N b < 2 ^ 52)%Z -> (Z.of_N a' < 2 ^ 52)%Z -> (Z.of_N b' < 2 ^ 52)%Z ->
  (Z.of_N a' - Z.of_N b' = Z.of_N b - Z.of_N a)%Z ->
  mirror mom mom' ->
  let m := mom_signal p mom (h a) (h b) in let m' := mom_signal p mom' (h a') (h b') in
  mirror m m' /\ propensity tanh64 p n m' = propensity tanh64 p n m /\
  fgt m' f_zero = flt m f_zero /\ flt m' f_zero = fgt m f_zero.
Proof. exact mirrored_history_step. Qed.

(** the signal and the propensity of the theorem are the ones the agent computes, and the
    mid-price it reads is the half-integer embedding [h] *)
Theorem c17_agent_uses_signal_and_propensity : forall lognormal tanh64 k e c a orders first n p lp mom,
  agent_update lognormal tanh64 k e c (AMomentum a orders first n p (Some lp) mom) =
  (do (e1, c1, live) <- cancel_live_orders e c a orders (mp_p_cancel p);
   do mid <- mid_f64 e1 a;
   let m := mom_signal p mom mid lp in
   let p_market := propensity tanh64 p n m in
   do (e2, c2, live') <- for_traders (fun s tr => let '(e, c, l) := s in
                             mom_trader (lognormal k) e c a p mid m (fmul (f_of_bits (mp_ratio p)) p_market) p_market tr l)
                           (e1, c1, live) first (N.to_nat n);
   Ok (e2, c2, AMomentum a live' first n p (Some mid) m)).
Proof. reflexivity. Qed.

(** the mid-price an agent reads from a book satisfying the invariant is such a half-integer *)
Theorem c17_mid_price_is_small_half_integer : forall e a b,
  nth_error (en_market e) a = Some b -> Proofs.Refine.InvQ None b ->
  mid_f64 e a = Ok (h (mid_price_x2 b)) /\ (Z.of_N (mid_price_x2 b) < 2 ^ 52)%Z.
Proof. intros e a b H I. split; [apply mid_f64_is_half; assumption | apply mid_price_small; assumption]. Qed.

Check c17_flat_no_orders.
Check c17_direction_follows_sign.
Check c17_mirrored_history_step.
Print Assumptions c17_flat_no_orders.
Print Assumptions c17_probability_ignores_sign.
Print Assumptions c17_direction_follows_sign.
Print Assumptions c17_opposite_signal_opposite_sign.
Print Assumptions c17_mirrored_history_step.
Print Assumptions c17_agent_uses_signal_and_propensity.
Print Assumptions c17_mid_price_is_small_half_integer.
