(** * C17 — momentum agents trade symmetrically in rising and falling markets *)
From Bourse Require Import Model.Types Model.Side Model.Book Model.Rng Model.Float Model.Env Model.Agents Proofs.AgentProps Proofs.AgentDir.

(** When the momentum signal is exactly zero a trader submits nothing. *)
Theorem c17_flat_no_orders : forall ln e c a p mid pl pm trader live e' c' live',
  mom_trader ln e c a p mid f_zero pl pm trader live = Ok (e', c', live') -> e' = e /\ live' = live.
Proof. exact mom_flat_no_orders. Qed.

(** The trading probability is computed through [fabs], which forgets the sign
    of its argument: negating the signal (a mirrored price path negates M
    exactly in IEEE arithmetic; [tanh] odd is an oracle assumption) leaves the
    propensity unchanged. *)
Theorem c17_probability_ignores_sign : forall x : f64, fabs (BinarySingleNaN.Bopp x) = fabs x.
Proof. exact fabs_opp. Qed.

(** Direction. One update of a momentum agent (all its traders, limit and market
    orders): with [M = m (1 - decay) + decay (P - p)] computed in binary64 from the
    mid-price it sees and the one it saw last, every order it adds to its asset's
    book is a buy when [M > 0] and a sell when [M < 0]; when [M] is zero (or on the
    first look, when there is no previous price) the book is unchanged. [lognormal]
    and [tanh64] are arbitrary (the direction does not depend on the oracles). *)
Theorem c17_direction_follows_sign : forall lognormal tanh64 k e c a orders first n p last mom e' c' ag',
  agent_update lognormal tanh64 k e c (AMomentum a orders first n p last mom) = Ok (e', c', ag') ->
  match last with
  | None => en_market e' = en_market e
  | Some lp =>
      exists mid, mid_f64 e a = Ok mid /\
        let m := mom_signal p mom mid lp in
        (fgt m f_zero = true -> grows_with Bid a e e') /\
        (fgt m f_zero = false -> flt m f_zero = true -> grows_with Ask a e e') /\
        (fgt m f_zero = false -> flt m f_zero = false -> en_market e' = en_market e)
  end.
Proof. exact momentum_update_direction. Qed.

(** Opposite signals have opposite signs (and [fabs] gives them the same
    propensity, above): what makes the mirrored order flow the mirror image. *)
Theorem c17_opposite_signal_opposite_sign : forall m : f64,
  fgt (BinarySingleNaN.Bopp m) f_zero = flt m f_zero /\ flt (BinarySingleNaN.Bopp m) f_zero = fgt m f_zero.
Proof. exact sign_of_opp. Qed.

Check c17_flat_no_orders.
Check c17_direction_follows_sign.
Print Assumptions c17_flat_no_orders.
Print Assumptions c17_probability_ignores_sign.
Print Assumptions c17_direction_follows_sign.
Print Assumptions c17_opposite_signal_opposite_sign.
