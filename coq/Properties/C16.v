(** * C16 — built-in agents emit only valid instructions and never abort a simulation *)
From Bourse Require Import Model.Types Model.Side Model.Book Model.Rng Model.Float Model.Env Model.Agents Proofs.AgentProps Proofs.AgentDir Proofs.AgentOrders.

(** An action with probability 0 never happens, one with probability 1 always
    does: the uniform [f32] draw is [k * 2^-24] with [k < 2^24]; it is never
    below 0.0 and always below 1.0 (every agent decision is [draw < p], and
    after the repair the cancellation test is its negation). *)
Theorem c16_probability_zero_never : forall k, f32_draw_lt k 0 = false.
Proof. exact draw_never_below_zero. Qed.
Theorem c16_probability_one_always : forall g, f32_draw_lt (fst (gen_f32_num g)) 1065353216 = true.
Proof. intros g. apply draw_always_below_one. apply f32_num_bound. Qed.

(** Random agents quote inside their configured half-open tick and volume
    ranges: the index sampler never leaves [lo, hi). *)
Theorem c16_ranges_respected : forall lo hi c x c', c_range lo hi c = Ok (x, c') -> lo <= x < hi.
Proof. exact c_range_spec. Qed.

(** The limit price the noise and momentum helpers hand to the environment is
    a multiple of the tick size, whatever the float pipeline produced (this is
    what the repair of the clamp defect establishes), so the helpers' [unwrap]
    of the creation result cannot abort on a price error. *)
Theorem c16_helper_prices_on_grid : forall p tick q,
  snap_to_grid p tick = Ok q -> q mod tick = 0 /\ q <= p.
Proof. exact snap_on_grid. Qed.

(** What an update submits. [adds_only P a e e']: after the update, book [a] of the
    environment is its old order list with new orders appended, each satisfying
    [P] (or the books are unchanged); nothing else is touched in any book (cancel
    instructions only go to the queue). For a noise agent and a momentum agent
    [P] = New order, the configured volume, a trader id of the agent's own range
    [first .. first + n), and a price that is a multiple of the tick size or the
    market-order sentinel of its side. For a random agent's slot [n]: trader id
    [n], a volume in the configured half-open range and a price [tk * tick] with
    [tk] in the configured half-open tick range. Arbitrary oracles, seeds, states. *)
Theorem c16_noise_agent_orders : forall lognormal tanh64 k e c a orders first n p e' c' ag',
  agent_update lognormal tanh64 k e c (ANoise a orders first n p) = Ok (e', c', ag') ->
  adds_only (fun o => exists tr, first <= tr < first + n /\ agent_order (np_tick p) (np_vol p) tr o) a e e'.
Proof. exact noise_update_orders. Qed.

Theorem c16_momentum_agent_orders : forall lognormal tanh64 k e c a orders first n p last mom e' c' ag',
  agent_update lognormal tanh64 k e c (AMomentum a orders first n p last mom) = Ok (e', c', ag') ->
  adds_only (fun o => exists tr, first <= tr < first + n /\ agent_order (mp_tick p) (mp_vol p) tr o) a e e'.
Proof. exact momentum_update_orders. Qed.

Theorem c16_random_agent_orders : forall e c a p n slot e' c' slot',
  random_slot e c a p n slot = Ok (e', c', slot') -> adds_only (random_order p n) a e e'.
Proof. exact random_slot_orders. Qed.

(** Cancellations: the instructions an agent's cancel pass queues are cancellations
    of ids taken from the agent's own list of live orders, each Active at the
    moment the agent looks; the books are not touched. *)
Theorem c16_cancels_own_active_orders : forall e c a orders pc e1 c1 keep,
  cancel_live_orders e c a orders pc = Ok (e1, c1, keep) ->
  exists drop, en_queue e1 = en_queue e ++ map (MCancel a) drop /\ en_market e1 = en_market e /\
    (forall id, In id keep \/ In id drop -> In id orders /\ order_status e a id = Ok SActive).
Proof. exact cancel_live_orders_spec. Qed.

Check c16_probability_one_always.
Check c16_noise_agent_orders.

(** Non-vacuity: the modelled rounding agrees with the project's own unit tests. *)
Example c16_rounding_examples :
  round_price true (f_of_bits 4617315517961601024) (f_of_N 2) = 6 /\      (* round_price_up(5.0, 2.0) *)
  round_price true (f_of_bits 4611911198408756429) (f_of_N 2) = 4 /\      (* round_price_up(2.1, 2.0) *)
  round_price false (f_of_bits 4611911198408756429) (f_of_N 2) = 2 /\     (* round_price_down(2.1, 2.0) *)
  round_price false (f_of_bits 13835734247641979290) (f_of_N 4) = 0.      (* round_price_down(-2.2, 4.0) *)
Proof. vm_compute. auto. Qed.

Print Assumptions c16_probability_zero_never.
Print Assumptions c16_probability_one_always.
Print Assumptions c16_ranges_respected.
Print Assumptions c16_helper_prices_on_grid.
Print Assumptions c16_noise_agent_orders.
Print Assumptions c16_momentum_agent_orders.
Print Assumptions c16_random_agent_orders.
Print Assumptions c16_cancels_own_active_orders.
