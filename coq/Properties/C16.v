(** * C16 — built-in agents emit only valid instructions and never abort a simulation *)
From Bourse Require Import Model.Types Model.Side Model.Book Model.Rng Model.Float Model.Env Model.Agents Proofs.AgentProps Proofs.AgentDir Proofs.AgentOrders Proofs.FloatSym Proofs.FloatQuote Proofs.FloatQuote2 Proofs.RandomOneLive.
From Coq Require Import Reals.
From Flocq Require Import Core.Core IEEE754.BinarySingleNaN.

(** An action with probability 0 never happens, one with probability 1 always
    does: the uniform [f32] draw is [k * 2^-24] with [k < 2^24]; it is never
    below 0.0 and always below 1.0 (every agent decision is [draw < p], and
    after the repair the cancellation test is its negation). *)
Theorem c16_probability_zero_never : forall k, f32_draw_lt k 0 = false.
Proof. exact draw_never_below_zero. Qed.
Theorem c16_probability_one_always : forall g, f32_draw_lt (fst (gen_f32_num g)) 1065353216 = true.
Proof. intros g. apply draw_always_below_one. apply f32_num_bound. Qed.

(** Random agents quote inside their configured half-open tick and volume
    ranges: the index sampler never leaves [lo, hi). *)
Theorem c16_ranges_respected : forall lo hi c x c', c_range lo hi c = Ok (x, c') -> lo <= x < hi.
Proof. exact c_range_spec. Qed.

(** The limit price the noise and momentum helpers hand to the environment is
    a multiple of the tick size, whatever the float pipeline produced (this is
    what the repair of the clamp defect establishes), so the helpers' [unwrap]
    of the creation result cannot abort on a price error. *)
Theorem c16_helper_prices_on_grid : forall p tick q,
  snap_to_grid p tick = Ok q -> q mod tick = 0 /\ q <= p.
Proof. exact snap_on_grid. Qed.

(** What an update submits. [adds_only P a e e']: after the update, book [a] of the
    environment is its old order list with new orders appended, each satisfying
    [P] (or the books are unchanged); nothing else is touched in any book (cancel
    instructions only go to the queue). For a noise agent and a momentum agent
    [P] = New order, the configured volume, a trader id of the agent's own range
    [first .. first + n), and a price that is a multiple of the tick size or the
    market-order sentinel of its side. For a random agent's slot [n]: trader id
    [n], a volume in the configured half-open range and a price [tk * tick] with
    [tk] in the configured half-open tick range. Arbitrary oracles, seeds, states. *)
Theorem c16_noise_agent_orders : forall lognormal tanh64 k e c a orders first n p e' c' ag',
  agent_update lognormal tanh64 k e c (ANoise a orders first n p) = Ok (e', c', ag') ->
  adds_only (fun o => exists tr, first <= tr < first + n /\ agent_order (np_tick p) (np_vol p) tr o) a e e'.
Proof. exact noise_update_orders. Qed.

Theorem c16_momentum_agent_orders : forall lognormal tanh64 k e c a orders first n p last mom e' c' ag',
  agent_update lognormal tanh64 k e c (AMomentum a orders first n p last mom) = Ok (e', c', ag') ->
  adds_only (fun o => exists tr, first <= tr < first + n /\ agent_order (mp_tick p) (mp_vol p) tr o) a e e'.
Proof. exact momentum_update_orders. Qed.

Theorem c16_random_agent_orders : forall e c a p n slot e' c' slot',
  random_slot e c a p n slot = Ok (e', c', slot') -> adds_only (random_order p n) a e e'.
Proof. exact random_slot_orders. Qed.

(** "A random agent never holds more than one live order": a trader whose remembered order is Active
    when it looks never submits a new one - it queues the cancellation of that order (and forgets
    it) or does nothing; a new order is submitted only when the trader remembers none or the
    remembered one is no longer Active, and the trader then remembers exactly the new id. *)
Theorem c16_random_trader_with_live_order_never_places : forall e c a p n id e' c' slot',
  random_slot e c a p n (Some id) = Ok (e', c', slot') -> order_status e a id = Ok SActive ->
  en_market e' = en_market e /\
  ((slot' = Some id /\ en_queue e' = en_queue e) \/ (slot' = None /\ en_queue e' = en_queue e ++ [MCancel a id])).
Proof. exact random_slot_active_never_places. Qed.

Theorem c16_random_trader_places_only_when_free : forall e c a p n slot e' c' slot',
  random_slot e c a p n slot = Ok (e', c', slot') -> en_market e' <> en_market e ->
  (slot = None \/ exists id st, slot = Some id /\ order_status e a id = Ok st /\ st <> SActive) /\
  exists b x id', nth_error (en_market e) a = Some b /\ slot' = Some id' /\ id' = length (b_orders b) /\
                  nth_error (en_market e') a = Some (set_orders b (b_orders b ++ [x])).
Proof. exact random_slot_places_only_when_free. Qed.

(** Cancellations: the instructions an agent's cancel pass queues are cancellations
    of ids taken from the agent's own list of live orders, each Active at the
    moment the agent looks; the books are not touched. *)
Theorem c16_cancels_own_active_orders : forall e c a orders pc e1 c1 keep,
  cancel_live_orders e c a orders pc = Ok (e1, c1, keep) ->
  exists drop, en_queue e1 = en_queue e ++ map (MCancel a) drop /\ en_market e1 = en_market e /\
    (forall id, In id keep \/ In id drop -> In id orders /\ order_status e a id = Ok SActive).
Proof. exact cancel_live_orders_spec. Qed.

(** Buys at or below, sells at or above the observed mid-price - as real numbers, through every
    binary64 rounding on the way ([mid -/+ |d|], [/ tick], [floor]/[ceil], [* tick], clamp, cast,
    snap): for every finite non-negative mid-price whose quotient by the tick size is representable
    (true whenever both sides are quoted: the quotient is then a half-integer) and every draw [d]
    (any binary64 value for buys; any but NaN for sells). *)
Theorem c16_buy_quote_at_or_below_mid : forall (mid d : f64) (tick p : N),
  is_finite mid = true -> Bsign mid = false -> (1 <= tick < 4294967296)%N ->
  round radix2 (SpecFloat.fexp 53 1024) ZnearestE (B2R mid / IZR (Z.of_N tick)) = (B2R mid / IZR (Z.of_N tick))%R ->
  snap_to_grid (round_price false (fsub mid (fabs d)) (f_of_N tick)) tick = Ok p ->
  (IZR (Z.of_N p) <= B2R mid)%R.
Proof. exact buy_quote_le_mid. Qed.

Theorem c16_sell_quote_at_or_above_mid : forall (mid d : f64) (tick p : N),
  is_finite mid = true -> (0 <= B2R mid)%R -> is_nan d = false -> (1 <= tick < 4294967296)%N ->
  (B2R mid <= IZR (Z.of_N (4294967295 - 4294967295 mod tick)))%R ->
  round radix2 (SpecFloat.fexp 53 1024) ZnearestE (B2R mid / IZR (Z.of_N tick)) = (B2R mid / IZR (Z.of_N tick))%R ->
  snap_to_grid (round_price true (fadd mid (fabs d)) (f_of_N tick)) tick = Ok p ->
  (B2R mid <= IZR (Z.of_N p))%R.
Proof. exact sell_quote_ge_mid. Qed.

(** Without the representability hypothesis, for tick sizes up to 2^18 and any observed mid-price
    [x2 / 2] (one-sided and empty books included, where the sentinel touch price puts the mid-price
    off the half-tick grid): rounding the quotient moves it by less than 2^-19, while it stays at
    least [1 / (2 tick)] away from every integer it is not equal to. *)
Theorem c16_buy_quote_at_or_below_mid_any_book : forall (mid d : f64) (tick p : N) (x2 : Z),
  is_finite mid = true -> Bsign mid = false -> (1 <= tick <= 262144)%N ->
  B2R mid = (IZR x2 / 2)%R -> (0 <= x2 < 2 ^ 34)%Z ->
  snap_to_grid (round_price false (fsub mid (fabs d)) (f_of_N tick)) tick = Ok p ->
  (IZR (Z.of_N p) <= B2R mid)%R.
Proof. exact buy_quote_le_mid_any. Qed.

Theorem c16_sell_quote_at_or_above_mid_any_book : forall (mid d : f64) (tick p : N) (x2 : Z),
  is_finite mid = true -> is_nan d = false -> (1 <= tick <= 262144)%N ->
  B2R mid = (IZR x2 / 2)%R -> (0 <= x2 < 2 ^ 34)%Z ->
  (B2R mid <= IZR (Z.of_N (4294967295 - 4294967295 mod tick)))%R ->
  snap_to_grid (round_price true (fadd mid (fabs d)) (f_of_N tick)) tick = Ok p ->
  (B2R mid <= IZR (Z.of_N p))%R.
Proof. exact sell_quote_ge_mid_any. Qed.

(** The same in the integers the book uses: a limit order placed by [place_buy_limit_order] /
    [place_sell_limit_order] around the mid-price [x2 / 2] of a book quoted on both sides
    ([x2 = bid + ask = k * tick]) is on the grid, has the configured volume and trader id, and
    [2 * price <= bid + ask] for a buy, [bid + ask <= 2 * price] for a sell. Assumed of the
    log-normal oracle: it returns no NaN. *)
Theorem c16_limit_quote_on_its_side : forall (ln : N -> option (N * N)),
  (forall pos bits used, ln pos = Some (bits, used) -> is_nan (f_of_bits bits) = false) ->
  forall e c a (buy : bool) x2 tick v tr e' c' id,
  place_limit_dist ln e c a buy (h x2) tick v tr = Ok (e', c', id) ->
  (1 <= tick < 4294967296)%N -> grid_or_small x2 tick ->
  (x2 <= 2 * (4294967295 - 4294967295 mod tick))%N ->
  adds_only (fun o => helper_order tick v tr o /\ o_side o = (if buy then Bid else Ask) /\
                      if buy then (2 * o_price o <= x2)%N else (x2 <= 2 * o_price o)%N) a e e'.
Proof. exact limit_quote_on_its_side. Qed.

(** A whole update of a noise agent / a momentum agent (on any book when the tick size is at most
    2^18; on a book quoted on both sides at multiples of the tick size otherwise): every order it adds is a market order or a limit order on its side of
    the mid-price the agent observed ([bid + ask] of the book it looked at). *)
Theorem c16_noise_agent_quotes : forall (lognormal : N -> N -> option (N * N)) (tanh64 : N -> N),
  (forall k pos bits used, lognormal k pos = Some (bits, used) -> is_nan (f_of_bits bits) = false) ->
  forall k e c a orders first n p e' c' ag' b,
  agent_update lognormal tanh64 k e c (ANoise a orders first n p) = Ok (e', c', ag') ->
  nth_error (en_market e) a = Some b ->
  (1 <= np_tick p < 4294967296)%N -> grid_or_small (mid_price_x2 b) (np_tick p) ->
  (mid_price_x2 b <= 2 * (4294967295 - 4294967295 mod np_tick p))%N ->
  adds_only (quote_ok (mid_price_x2 b)) a e e'.
Proof. exact noise_update_quotes. Qed.

Theorem c16_momentum_agent_quotes : forall (lognormal : N -> N -> option (N * N)) (tanh64 : N -> N),
  (forall k pos bits used, lognormal k pos = Some (bits, used) -> is_nan (f_of_bits bits) = false) ->
  forall k e c a orders first n p last mom e' c' ag' b,
  agent_update lognormal tanh64 k e c (AMomentum a orders first n p last mom) = Ok (e', c', ag') ->
  nth_error (en_market e) a = Some b ->
  (1 <= mp_tick p < 4294967296)%N -> grid_or_small (mid_price_x2 b) (mp_tick p) ->
  (mid_price_x2 b <= 2 * (4294967295 - 4294967295 mod mp_tick p))%N ->
  adds_only (quote_ok (mid_price_x2 b)) a e e'.
Proof. exact momentum_update_quotes. Qed.

(** Non-vacuity: mid-price 100.5 (bid 100, ask 101), tick 1, draw 0.7: the buy is quoted at 99
    (floor of 99.8), the sell at 102 (ceil of 101.2); with tick 5 and mid 102.5: 100 and 105. *)
Example c16_quotes_nonvacuous :
  snap_to_grid (round_price false (fsub (h 201) (fabs (f_of_bits 4604480259023595110))) (f_of_N 1)) 1 = Ok 99 /\
  snap_to_grid (round_price true (fadd (h 201) (fabs (f_of_bits 4604480259023595110))) (f_of_N 1)) 1 = Ok 102 /\
  snap_to_grid (round_price false (fsub (h 205) (fabs (f_of_bits 4604480259023595110))) (f_of_N 5)) 5 = Ok 100 /\
  snap_to_grid (round_price true (fadd (h 205) (fabs (f_of_bits 4604480259023595110))) (f_of_N 5)) 5 = Ok 105.
Proof. vm_compute. auto. Qed.

(** ... and on a one-sided book (best bid 700, no asks: the mid-price is (700 + 2^32-1)/2, off the
    half-tick grid of tick 7): the buy lands on the largest grid price not above mid - 0.7. *)
Example c16_quotes_one_sided_book :
  snap_to_grid (round_price false (fsub (h 4294967995) (fabs (f_of_bits 4604480259023595110))) (f_of_N 7)) 7 = Ok 2147483996 /\
  (2 * 2147483996 <= 4294967995)%N /\ (4294967995 < 2 * (2147483996 + 7))%N.
Proof. vm_compute. repeat split; try reflexivity; intro H; discriminate H. Qed.

Check c16_probability_one_always.
Check c16_noise_agent_orders.

(** Non-vacuity: the modelled rounding agrees with the project's own unit tests. *)
Example c16_rounding_examples :
  round_price true (f_of_bits 4617315517961601024) (f_of_N 2) = 6 /\      (* round_price_up(5.0, 2.0) *)
  round_price true (f_of_bits 4611911198408756429) (f_of_N 2) = 4 /\      (* round_price_up(2.1, 2.0) *)
  round_price false (f_of_bits 4611911198408756429) (f_of_N 2) = 2 /\     (* round_price_down(2.1, 2.0) *)
  round_price false (f_of_bits 13835734247641979290) (f_of_N 4) = 0.      (* round_price_down(-2.2, 4.0) *)
Proof. vm_compute. auto. Qed.

Print Assumptions c16_probability_zero_never.
Print Assumptions c16_probability_one_always.
Print Assumptions c16_ranges_respected.
Print Assumptions c16_helper_prices_on_grid.
Print Assumptions c16_noise_agent_orders.
Print Assumptions c16_momentum_agent_orders.
Print Assumptions c16_random_agent_orders.
Print Assumptions c16_cancels_own_active_orders.
Print Assumptions c16_random_trader_with_live_order_never_places.
Print Assumptions c16_random_trader_places_only_when_free.
Print Assumptions c16_buy_quote_at_or_below_mid.
Print Assumptions c16_sell_quote_at_or_above_mid.
Print Assumptions c16_buy_quote_at_or_below_mid_any_book.
Print Assumptions c16_sell_quote_at_or_above_mid_any_book.
Print Assumptions c16_limit_quote_on_its_side.
Print Assumptions c16_noise_agent_quotes.
Print Assumptions c16_momentum_agent_quotes.
