(** * C07 — a snapshot restores a behaviourally identical book *)
From Bourse Require Import Model.Types Model.Map Model.Side Model.Book Model.Obs Spec.RefBook
  Proofs.Refine Proofs.Volumes Proofs.Views Proofs.Reload Model.Rng Model.Env Proofs.MarketInv.

(** The snapshot keeps the clock, tick size, traded volume, the order entries
    (with their stored keys), the trade log and the trading flag, and skips
    both side indexes; loading re-inserts every Active entry into empty sides.
    Under the invariant the rebuilt state *is* the saved state: both priority
    maps, both per-level (volume, count) maps and both totals come back
    identical, and every other field is copied. *)
Theorem c07_reload_identity : forall s, Inv s -> of_snapshot (to_snapshot s) = s.
Proof. intros s [Hq Hv]. exact (reload_identity s Hq Hv). Qed.

(** ... at every state reachable from a new book by any history (which may
    itself contain reloads at any point). *)
Theorem c07_reload_identity_every_reachable_state : forall t0 tick tr s0 ops s xs,
  book_new t0 tick tr = Ok s0 -> Forall op_u32 ops -> run_outs s0 ops = Ok (s, xs) ->
  of_snapshot (to_snapshot s) = s.
Proof.
  intros t0 tick tr s0 ops s xs H0 Hu H. apply c07_reload_identity.
  eapply run_inv_all; [eapply Inv_new; eassumption | eassumption | eassumption].
Qed.

(** Hence the reloaded book shows the same observation and stays
    indistinguishable under every continuation: same results, same final state. *)
Theorem c07_indistinguishable : forall L s ops,
  Inv s ->
  observe L (of_snapshot (to_snapshot s)) = observe L s /\
  run_outs (of_snapshot (to_snapshot s)) ops = run_outs s ops.
Proof. intros L s ops Hinv. rewrite (c07_reload_identity s Hinv). split; reflexivity. Qed.

(** A reload in the middle of a history is invisible. *)
Theorem c07_reload_step_is_identity : forall s, Inv s -> step_raw s OReload = Ok (s, ONone).
Proof. intros s Hinv. cbn [step_raw]. rewrite (c07_reload_identity s Hinv). reflexivity. Qed.

(** A multi-asset market serialises its array of books: restoring every book
    restores the identical market, in every state of a market or of a step
    environment reached by any sequence of operations (submissions, steps with
    their shuffled batches, direct per-asset operations, toggles, clock moves):
    [MInv] (every book satisfies [Inv]) is preserved by each of them. *)
Theorem c07_market_reload_identity : forall m, MInv m -> map (fun b => of_snapshot (to_snapshot b)) m = m.
Proof. exact market_reload_identity. Qed.

Theorem c07_market_invariant_preserved : forall L e g o e' g' x,
  MInv (en_market e) -> Forall mev_u32 (en_queue e) -> eop_u32 o -> menv_apply L e g o = Ok (e', g', x) ->
  MInv (en_market e') /\ Forall mev_u32 (en_queue e').
Proof. exact menv_apply_inv. Qed.

Theorem c07_new_market_invariant : forall t0 ticks tr m, market_new t0 ticks tr = Ok m -> MInv m.
Proof. exact market_new_inv. Qed.

Check c07_reload_identity_every_reachable_state : forall t0 tick tr s0 ops s xs,
  book_new t0 tick tr = Ok s0 -> Forall op_u32 ops -> run_outs s0 ops = Ok (s, xs) ->
  of_snapshot (to_snapshot s) = s.

(** Non-vacuity: unplaced, active, partially filled, modified, cancelled and
    rejected orders present, trading off at the snapshot point. *)
Example c07_nonvacuous :
  (do s0 <- book_new 0 1 true;
   do (s, xs) <- run_outs s0 [OCreate Bid 3 9 (Some 90); OCreatePlace Ask 5 1 (Some 100); OSetTime 1; OCreatePlace Ask 4 2 (Some 100);
                              OCreatePlace Bid 2 4 (Some 99); OCreatePlace Bid 7 5 (Some 100); OCancel 3;
                              OModify 2 (Some 101) None; ODisable; OCreatePlace Bid 1 6 None];
   Ok (map (fun e => o_status (e_order e)) (b_orders s), b_trading s,
       map snd (sd_orders (b_ask (of_snapshot (to_snapshot s)))), sd_volumes (b_ask (of_snapshot (to_snapshot s)))))
  = Ok ([SNew; SFilled; SActive; SCancelled; SFilled; SRejected], false, [2%nat], [(101, (2, 1))]).
Proof. vm_compute. reflexivity. Qed.

Print Assumptions c07_reload_identity.
Print Assumptions c07_reload_identity_every_reachable_state.
Print Assumptions c07_indistinguishable.
Print Assumptions c07_reload_step_is_identity.
Print Assumptions c07_market_reload_identity.
Print Assumptions c07_market_invariant_preserved.
Print Assumptions c07_new_market_invariant.
