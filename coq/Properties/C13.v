(** * C13 — while trading is disabled nothing trades and market orders are rejected *)
From Bourse Require Import Model.Types Model.Side Model.Book Model.Obs Model.Rng Model.Env Spec.RefBook Proofs.NoTrade Proofs.MarketNoTrade Proofs.Refine Proofs.Volumes Proofs.FlagRef.

Theorem c13_no_trade_when_off : forall s o s' x,
  b_trading s = false -> step_raw s o = Ok (s', x) ->
  b_trades s' = b_trades s /\
  b_tvol s' = (match o with OResetTvol => 0 | _ => b_tvol s end).
Proof. exact no_trade_when_off. Qed.

Theorem c13_market_rejected : forall s id e s',
  b_trading s = false ->
  nth_error (b_orders s) id = Some e ->
  o_status (e_order e) = SNew ->
  (match o_side (e_order e) with Bid => o_price (e_order e) =? MAXP | Ask => o_price (e_order e) =? 0 end) = true ->
  place_order s id = Ok s' ->
  exists e', nth_error (b_orders s') id = Some e' /\
    o_status (e_order e') = SRejected /\ o_end (e_order e') = b_t s /\
    b_bid s' = b_bid s /\ b_ask s' = b_ask s /\ b_trades s' = b_trades s /\
    forall j, j <> id -> nth_error (b_orders s') j = nth_error (b_orders s) j.
Proof. exact market_rejected_when_off. Qed.

Theorem c13_limit_rests : forall s id e s',
  b_trading s = false ->
  nth_error (b_orders s) id = Some e ->
  o_status (e_order e) = SNew ->
  (match o_side (e_order e) with Bid => o_price (e_order e) =? MAXP | Ask => o_price (e_order e) =? 0 end) = false ->
  place_order s id = Ok s' ->
  exists e', nth_error (b_orders s') id = Some e' /\
    o_status (e_order e') = SActive /\ o_vol (e_order e') = o_vol (e_order e) /\
    o_price (e_order e') = o_price (e_order e) /\ o_arr (e_order e') = b_t s /\
    get_side s' (opp (o_side (e_order e))) = get_side s (opp (o_side (e_order e))).
Proof. exact limit_rests_when_off. Qed.

Theorem c13_toggle_changes_nothing_else : forall L s b,
  observe L (set_trading s b) = observe L s.
Proof. exact toggle_observation. Qed.

(** Market and environment level: during a whole step - any batch, any processing order - an asset
    whose flag is off stays off, its trade log is untouched and the step records traded volume 0 for it. *)
Theorem c13_step_no_trade_when_off : forall L e g e' g',
  menv_step L e g = Ok (e', g') ->
  Forall2 (fun b b' => b_trading b = false ->
             b_trading b' = false /\ b_trades b' = b_trades b /\ b_tvol b' = 0)
          (en_market e) (en_market e').
Proof. exact step_no_trade_when_off. Qed.

(** The market-wide switches set the flag of every asset and change nothing else. *)
Theorem c13_market_switch_only_flags : forall L e g (sw : bool) e' g' x,
  menv_apply L e g (if sw then EEnable else EDisable) = Ok (e', g', x) ->
  g' = g /\ en_queue e' = en_queue e /\
  Forall2 (fun b b' => b' = set_trading b sw) (en_market e) (en_market e').
Proof. exact market_switch_only_flags. Qed.

(** Only the two switches change the flag (and only [set_time] the clock, nothing the tick size):
    one operation, and every history from a new book - snapshot reloads included. *)
Theorem c13_only_switches_change_flag : forall s o s' x,
  Inv s -> op_u32 o -> step_raw s o = Ok (s', x) ->
  (b_t s', b_tick s', b_trading s') = cfg_after o (b_t s, b_tick s, b_trading s).
Proof. exact step_raw_cfg. Qed.

Theorem c13_flag_is_last_switch : forall t0 tick tr s0 ops s xs,
  book_new t0 tick tr = Ok s0 -> Forall op_u32 ops -> run_outs s0 ops = Ok (s, xs) ->
  b_trading s = last_switch ops tr.
Proof. exact run_flag. Qed.

(** Once trading is enabled again - whatever the book looks like by then, crossed or not - the
    next operation is the reference engine's on the same order table, queues and log with the flag
    on: an arriving or re-priced order matches against the resting book by the usual rules. *)
Theorem c13_after_enable_usual_rules : forall s s1 x1 o s2 x2,
  Inv s -> op_u32 o -> step_raw s OEnable = Ok (s1, x1) -> step_raw s1 o = Ok (s2, x2) ->
  ref_step (mkRef (b_t s) (b_tick s) (b_tvol s) (tbl s) (qof (b_bid s)) (qof (b_ask s)) (b_trades s) true) o
  = Some (abs s2, x2) /\ Inv s2.
Proof. exact after_enable_usual_rules. Qed.

Check c13_no_trade_when_off : forall s o s' x,
  b_trading s = false -> step_raw s o = Ok (s', x) ->
  b_trades s' = b_trades s /\ b_tvol s' = (match o with OResetTvol => 0 | _ => b_tvol s end).

(** Non-vacuity: with trading off a crossing bid rests (the book is crossed),
    a market order is rejected; after re-enabling, the next arrival matches. *)
Example c13_nonvacuous :
  (do s0 <- book_new 0 1 false;
   do s1 <- run s0 [OCreatePlace Ask 5 1 (Some 100); OCreatePlace Bid 5 2 (Some 110); OCreatePlace Bid 3 3 None];
   do s2 <- run s1 [OEnable; OCreatePlace Ask 2 4 (Some 105)];
   Ok (b_trading s1, length (b_trades s1), bid_ask s1, length (b_trades s2)))
  = Ok (false, 0%nat, (110, 100), 1%nat).
Proof. vm_compute. reflexivity. Qed.

Print Assumptions c13_no_trade_when_off.
Print Assumptions c13_market_rejected.
Print Assumptions c13_limit_rests.
Print Assumptions c13_toggle_changes_nothing_else.
Print Assumptions c13_step_no_trade_when_off.
Print Assumptions c13_only_switches_change_flag.
Print Assumptions c13_flag_is_last_switch.
Print Assumptions c13_after_enable_usual_rules.
Print Assumptions c13_market_switch_only_flags.
