(** Extraction of the executable model, the reference engine, the monitors and
    the runner step to OCaml. [ExtrOcamlBasic] only: [positive]/[N]/[nat] stay
    Coq datatypes in OCaml; no [Extract Constant] is written by hand. *)
From Coq Require Extraction ExtrOcamlBasic.
From Bourse Require Import Model.Types Model.Book Model.Obs Model.Codec Model.Rng Model.Env Model.EnvObs Spec.RefBook Spec.Monitors Spec.Runner Spec.EnvRunner.
Extraction Language OCaml.
Extraction "model.ml" rs_init rs_step enc_report valid_op rs_valid rs_ended es_init es_step_fn es_valid es_ended es_add_agent.
