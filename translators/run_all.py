#!/usr/bin/env python3
"""Runs every translator (source tables of /repo -> coq/Generated/*.v)."""
import subprocess, sys, os, glob
here = os.path.dirname(os.path.abspath(__file__))
rc = 0
for t in sorted(glob.glob(os.path.join(here, "*.py"))):
    if os.path.basename(t) == "run_all.py":
        continue
    p = subprocess.run([sys.executable, t], stdout=subprocess.PIPE, stderr=subprocess.STDOUT, text=True)
    sys.stdout.write(p.stdout)
    if p.returncode != 0 and "TRANSLATOR-FAIL" not in p.stdout:
        print("TRANSLATOR-FAIL %s exited with %d" % (os.path.basename(t), p.returncode))
sys.exit(0)
