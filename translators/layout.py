#!/usr/bin/env python3
"""Regenerates coq/Generated/Layout.v from the sources that *are* the Python-facing layouts (C19, C18 tables):
rust/src/step_sim.rs, rust/src/step_sim_numpy.rs, rust/src/types.rs, crates/order_book/src/types.rs,
src/bourse/data_processing.py, src/bourse/step_sim/agents/base_agent.py.
Every list is a list of field names (strings); an expression or a documentation row the translator does not
recognise is kept as '?<text>' so that the theorems over the generated file fail instead of passing."""
import re, os, sys

REPO = "/repo"
OUT = "/verif/coq/Generated/Layout.v"
fails = []


def read(p):
    return open(os.path.join(REPO, p)).read()


EXPR = [
    (r"^self\.env\.get_orderbook\(\)\.get_trade_vol\(\)$", "TradeVol"),
    (r"^[A-Za-z_]\w*\.bid_price$", "BidPrice"), (r"^[A-Za-z_]\w*\.ask_price$", "AskPrice"),
    (r"^[A-Za-z_]\w*\.bid_vol$", "BidVol"), (r"^[A-Za-z_]\w*\.ask_vol$", "AskVol"),
    (r"^[A-Za-z_]\w*\.bid_price_levels\[(\w+)\]\.0$", "BidLvlVol:%s"), (r"^[A-Za-z_]\w*\.bid_price_levels\[(\w+)\]\.1$", "BidLvlCnt:%s"),
    (r"^[A-Za-z_]\w*\.ask_price_levels\[(\w+)\]\.0$", "AskLvlVol:%s"), (r"^[A-Za-z_]\w*\.ask_price_levels\[(\w+)\]\.1$", "AskLvlCnt:%s"),
]
DOC = [
    (r"^trade volume", "TradeVol"), (r"^bid touch price", "BidPrice"), (r"^ask touch price", "AskPrice"),
    (r"^bid total volume", "BidVol"), (r"^ask total volume", "AskVol"),
    (r"^bid touch volume", "BidLvlVol:0"), (r"^number of buy orders at touch", "BidLvlCnt:0"),
    (r"^ask touch volume", "AskLvlVol:0"), (r"^number of sell orders at touch", "AskLvlCnt:0"),
    (r"^bid volume at level", "BidLvlVol:n"), (r"^number of buy orders at level", "BidLvlCnt:n"),
    (r"^ask volume at level", "AskLvlVol:n"), (r"^number of sell orders at level", "AskLvlCnt:n"),
]


def field_of_expr(e, subst=None):
    e = re.sub(r"\s+", "", e)
    for pat, name in EXPR:
        m = re.match(pat, e)
        if m:
            if "%s" in name:
                idx = m.group(1)
                if subst and idx in subst:
                    idx = str(subst[idx])
                return name % idx
            return name
    return "?" + e


def field_of_doc(t):
    t = t.strip().lower()
    for pat, name in DOC:
        if re.match(pat, t):
            return name
    return "?" + t


def fn_with_doc(src, name):
    """(doc comment lines, body) of `pub fn name`"""
    m = re.search(r"((?:[ \t]*///[^\n]*\n)+)(?:[ \t]*#\[[^\n]*\]\n)*[ \t]*pub fn %s\b" % name, src)
    if not m:
        fails.append("function %s not found" % name)
        return "", ""
    doc = m.group(1)
    i = src.index("{", src.index(")", m.end()))
    # skip to the body brace after the return type
    j = src.index("{", m.end())
    depth, k = 0, j
    while k < len(src):
        if src[k] == "{":
            depth += 1
        elif src[k] == "}":
            depth -= 1
            if depth == 0:
                break
        k += 1
    return doc, src[j + 1:k]


def split_top(s):
    parts, depth, cur = [], 0, ""
    for ch in s:
        if ch in "([{":
            depth += 1
        elif ch in ")]}":
            depth -= 1
        if ch == "," and depth == 0:
            parts.append(cur); cur = ""
        else:
            cur += ch
    if cur.strip():
        parts.append(cur)
    return [p.strip() for p in parts if p.strip()]


def array_code(body):
    m = re.search(r"let\s+(?:mut\s+)?data_vec\s*=\s*(vec!)?\[(.*?)\];", body, re.S)
    if not m:
        fails.append("array constructor not found")
        return ["?"]
    out = [field_of_expr(e) for e in split_top(m.group(2))]
    for lm in re.finditer(r"for\s+(\w+)\s+in\s+(\d+)\.\.(\d+)\s*\{(.*?)\}", body, re.S):
        var, lo, hi, inner = lm.group(1), int(lm.group(2)), int(lm.group(3)), lm.group(4)
        pushes = re.findall(r"data_vec\.push\((.*?)\);", inner, re.S)
        stmts = [x for x in re.split(r";", inner) if x.strip()]
        if len(stmts) != len(pushes):
            out.append("?loop-body:" + re.sub(r"\s+", "", inner))
        for i in range(lo, hi):
            for e in pushes:
                out.append(field_of_expr(e, {var: i}))
    # anything else that writes to data_vec
    other = len(re.findall(r"data_vec\.(?!push|to_pyarray)\w+", body))
    if other:
        out.append("?other-writes")
    return out


def array_doc(doc):
    rows = []
    tables = re.findall(r"((?:[ \t]*/// [+|][^\n]*\n)+)", doc)
    for t in tables:
        for line in t.splitlines():
            line = line.strip()[3:].strip()
            if line.startswith("|"):
                cells = [c.strip() for c in line.strip("|").split("|")]
                rows.append(cells)
    out = []
    block = []
    for cells in rows:
        if len(cells) == 2 and re.match(r"^\d+$", cells[0]):
            out.append((int(cells[0]), field_of_doc(cells[1])))
        elif len(cells) == 1:
            block.append(field_of_doc(cells[0]))
    fields = [f for _, f in sorted(out)]
    if [i for i, _ in sorted(out)] != list(range(len(out))):
        fields.append("?index-gap")
    if block:
        m = re.search(r"following (\d+) values", doc)
        n = int(m.group(1)) // max(1, len(block)) if m else 0
        for i in range(n):
            fields += [b.replace(":n", ":%d" % i) for b in block]
    return fields


def market_data_code(body):
    pairs = []
    for m in re.finditer(r'\(\s*"(\w+)"\.to_string\(\)\s*,\s*(.+?)\s*\)\s*,?\s*\n', body):
        pairs.append((m.group(1), re.sub(r"\s+", "", m.group(2))))
    for m in re.finditer(r'format!\("(\w+)_\{i\}"\)\s*,\s*(data\.[\w.\[\]]+)\.to_pyarray', body):
        for i in range(10):
            pairs.append(("%s_%d" % (m.group(1), i), m.group(2).replace("[i]", "[%d]" % i)))
    SER = [(r"^[A-Za-z_]\w*\.prices\.0", "BidPrice"), (r"^[A-Za-z_]\w*\.prices\.1", "AskPrice"), (r"^[A-Za-z_]\w*\.volumes\.0", "BidVol"), (r"^[A-Za-z_]\w*\.volumes\.1", "AskVol"),
           (r"^trade_volumes", "TradeVol"), (r"^self\.get_trade_volumes", "TradeVol"),
           (r"^[A-Za-z_]\w*\.volumes_at_levels\.0\[(\d+)\]", "BidLvlVol:%s"), (r"^[A-Za-z_]\w*\.volumes_at_levels\.1\[(\d+)\]", "AskLvlVol:%s"),
           (r"^[A-Za-z_]\w*\.orders_at_levels\.0\[(\d+)\]", "BidLvlCnt:%s"), (r"^[A-Za-z_]\w*\.orders_at_levels\.1\[(\d+)\]", "AskLvlCnt:%s")]
    out = []
    for k, e in pairs:
        f = "?" + e
        for pat, name in SER:
            mm = re.match(pat, e)
            if mm:
                f = name % mm.group(1) if "%s" in name else name
                break
        out.append((k, f))
    return sorted(out)


def market_data_doc(doc):
    keys = re.findall(r"\|\s*``(\w+?)(_<N>)?``\s*\|", doc)
    MEAN = {"bid_price": "BidPrice", "ask_price": "AskPrice", "bid_vol": "BidVol", "ask_vol": "AskVol", "trade_vol": "TradeVol"}
    LV = {"bid_vol": "BidLvlVol", "ask_vol": "AskLvlVol", "n_bid": "BidLvlCnt", "n_ask": "AskLvlCnt"}
    out = []
    for k, n in keys:
        if n:
            for i in range(10):
                out.append(("%s_%d" % (k, i), "%s:%d" % (LV.get(k, "?" + k), i)))
        else:
            out.append((k, MEAN.get(k, "?" + k)))
    return sorted(out)


def coq_list(xs):
    return "[" + "; ".join('"%s"' % x.replace('"', "'") for x in xs) + "]"


def coq_pairs(xs):
    return "[" + "; ".join('("%s", "%s")' % (a, b.replace('"', "'")) for a, b in xs) + "]"


def columns_by_execution(src, fn):
    """The column list does not depend on the data: when the literal is not written inside the function (module
    constants, helper functions), the helper is executed on an empty record list with the recording pandas stand-in
    and the columns of the frame it builds are read off."""
    import types
    stub = os.path.join(os.path.dirname(os.path.dirname(os.path.abspath(__file__))), "pyharness", "pandas_stub")
    saved = sys.modules.get("pandas")
    sys.path.insert(0, stub)
    try:
        sys.modules.pop("pandas", None)
        mod = types.ModuleType("bourse_data_processing_under_translation")
        exec(compile(src, "data_processing.py", "exec"), mod.__dict__)
        df = getattr(mod, fn)([])
        cols = [str(c) for c in df.columns]
        return cols if cols else ["?"]
    except Exception as e:  # noqa
        fails.append("columns of %s: %r" % (fn, e))
        return ["?"]
    finally:
        sys.path.remove(stub)
        sys.modules.pop("pandas", None)
        if saved is not None:
            sys.modules["pandas"] = saved


def main():
    out = ["(* generated by translators/layout.py - do not edit *)",
           "From Coq Require Import String List. Import ListNotations. Open Scope string_scope.", ""]
    try:
        ss = read("rust/src/step_sim.rs"); sn = read("rust/src/step_sim_numpy.rs")
        for tag, src, fn in (("StepEnv_level_1", ss, "level_1_data_array"), ("StepEnv_level_2", ss, "level_2_data_array"),
                             ("StepEnvNumpy_level_1", sn, "level_1_data"), ("StepEnvNumpy_level_2", sn, "level_2_data")):
            doc, body = fn_with_doc(src, fn)
            out.append("Definition code_%s : list string := %s." % (tag, coq_list(array_code(body))))
            out.append("Definition doc_%s : list string := %s." % (tag, coq_list(array_doc(doc))))
        for tag, src in (("StepEnv", ss), ("StepEnvNumpy", sn)):
            doc, body = fn_with_doc(src, "get_market_data")
            out.append("Definition code_%s_market_data : list (string * string) := %s." % (tag, coq_pairs(market_data_code(body))))
            out.append("Definition doc_%s_market_data : list (string * string) := %s." % (tag, coq_pairs(market_data_doc(doc))))
        # base_agent.py: the level-2 array as described to numpy agents
        ba = read("src/bourse/step_sim/agents/base_agent.py")
        m = re.search(r"Contains the following values at positions:(.*?)Returns", ba, re.S)
        rows = re.findall(r"- (?:(\d+): )?([^\n]+)", m.group(1)) if m else []
        fields, block = [], []
        for idx, text in rows:
            (fields if idx else block).append(field_of_doc(text.replace("Number of buy orders at level", "number of buy orders at level n").replace("Number of sell orders at level", "number of sell orders at level n").replace("Bid volume at level", "bid volume at level n").replace("Ask volume at level", "ask volume at level n")))
        for i in range(10):
            fields += [b.replace(":n", ":%d" % i) for b in block]
        out.append("Definition doc_BaseNumpyAgent_level_2 : list string := %s." % coq_list(fields))
        # tuple layouts and data-frame columns
        ty = read("rust/src/types.rs")
        for tag, fn, var in (("order", "cast_order", "order"), ("trade", "cast_trade", "trade")):
            # the body may bind some components with `let` before the tuple: substitute them back
            mb = re.search(r"pub fn %s\(%s: &\w+\) -> \w+ \{(.*?)\n\}" % (fn, var), ty, re.S)
            m = None
            if mb:
                body = re.sub(r"//[^\n]*", "", mb.group(1))
                lets = dict(re.findall(r"let\s+(\w+)\s*=\s*([^;]+);", body))
                rest = re.sub(r"let\s+\w+\s*=\s*[^;]+;", "", body).strip()
                m = re.match(r"^\((.*)\)$", rest, re.S)
            # conversions are immaterial for the field *order*: `x.into()`, `bool::from(x)`, `u8::from(x)`, `x as T`
            def strip_conv(x):
                x = re.sub(r"\s+", "", x)
                x = re.sub(r"^[A-Za-z_][\w:]*::from\((.*)\)$", r"\1", x)
                x = re.sub(r"as\w+$", "", x) if re.search(r"\)?as[ui]\d+$", x) else x
                return x.replace(var + ".", "").replace(".into()", "")
            fs = [strip_conv(lets.get(re.sub(r"\s+", "", x), x)) for x in split_top(m.group(1))] if m else ["?"]
            out.append("Definition tuple_%s : list string := %s." % (tag, coq_list(fs)))
        dp = read("src/bourse/data_processing.py")
        for tag, fn in (("trades", "trades_to_dataframe"), ("orders", "orders_to_dataframe")):
            m = re.search(r"def %s\b(?:(?!\ndef ).)*?columns = \[(.*?)\]" % fn, dp, re.S)
            cols = re.findall(r'"([^"]*)"', m.group(1)) if m else columns_by_execution(dp, fn)
            d = re.search(r"def %s.*?Pandas dataframe with columns:(.*?)Notes" % fn, dp, re.S)
            doc_cols = re.findall(r"- ``(\w+)``", d.group(1)) if d else ["?"]
            out.append("Definition columns_%s : list string := %s." % (tag, coq_list(cols)))
            out.append("Definition doc_columns_%s : list string := %s." % (tag, coq_list(doc_cols)))
        # documented tuple field tables of get_orders / get_trades (StepEnv)
        for tag, fn in (("orders", "get_orders"), ("trades", "get_trades")):
            doc, _ = fn_with_doc(ss, fn)
            rows = [c.strip() for c in re.findall(r"\|\s*([^|\n]+?)\s*\|\s*\n", doc)]
            out.append("Definition doc_tuple_%s : list string := %s." % (tag, coq_list([r.lower() for r in rows])))
        # status codes and side encoding
        ct = read("crates/order_book/src/types.rs")
        st = re.findall(r"Status::(\w+) => (\d+)", ct)
        out.append("Definition status_codes : list (string * string) := %s." % coq_pairs(st))
        sd = re.findall(r"(true|false) => Self::(\w+)", ct)
        out.append("Definition side_of_bool_table : list (string * string) := %s." % coq_pairs(sd))
        doc, _ = fn_with_doc(ss, "order_status")
        out.append("Definition doc_status_codes : list (string * string) := %s." % coq_pairs([(b, a) for a, b in re.findall(r"``(\d) = (\w+)``", doc)]))
    except Exception as e:  # noqa
        fails.append("exception: %r" % (e,))
    for f in fails:
        print("TRANSLATOR-FAIL layout:", f)
    txt = "\n".join(out) + "\n"
    os.makedirs(os.path.dirname(OUT), exist_ok=True)
    if not os.path.exists(OUT) or open(OUT).read() != txt:
        open(OUT, "w").write(txt)
    return 0


if __name__ == "__main__":
    sys.exit(main())
