"""F7 reproducer: Python-facing array layouts vs. their documentation.
Usage: python3-vt f7_repro.py <dir containing bourse/core.so>  [repo root]"""
import sys, importlib.util, os
ext_dir = sys.argv[1]
spec = importlib.util.spec_from_file_location("core", os.path.join(ext_dir, "bourse", "core.so"))
core = importlib.util.module_from_spec(spec); spec.loader.exec_module(core)
import numpy as np
bad = []
env = core.StepEnv(1, 0, 1, 1000)
env.place_order(True, 17, 1, price=20); env.place_order(False, 11, 2, price=22); env.step()
a = env.level_1_data_array()
if len(a) != 9: bad.append("StepEnv.level_1_data_array has %d entries (documented 9): %s" % (len(a), list(a)))
a2 = env.level_2_data_array()
if (a2[3], a2[4]) != (17, 11): bad.append("StepEnv.level_2_data_array[3:5] = (%d,%d), documented (bid_vol, ask_vol) = (17,11)" % (a2[3], a2[4]))
envn = core.StepEnvNumpy(1, 0, 1, 1000)
envn.submit_limit_orders((np.array([True, False]), np.array([17, 11], dtype=np.uint32), np.array([1, 2], dtype=np.uint32), np.array([20, 22], dtype=np.uint32))); envn.step()
for name in ("level_1_data", "level_2_data"):
    b = getattr(envn, name)()
    if (b[3], b[4]) != (17, 11): bad.append("StepEnvNumpy.%s[3:5] = (%d,%d), documented (bid_vol, ask_vol) = (17,11)" % (name, b[3], b[4]))
if len(sys.argv) > 2:
    src = open(os.path.join(sys.argv[2], "src/bourse/data_processing.py")).read()
    if '"arr time"' in src: bad.append('orders_to_dataframe names a column "arr time" (documented arr_time)')
print("F7: DEFECT " + "; ".join(bad) if bad else "F7: ok")
