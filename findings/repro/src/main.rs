//! Reproducers for the defects F1..F6 found in zombie-einstein/bourse
//! (F7 is python-level: see ../f7_repro.py). Each probe prints
//! `Fx: DEFECT <what>` when the defect is present and `Fx: ok` otherwise.
use bourse_book::types::{Side, Status};
use bourse_book::OrderBook;
use bourse_de::agents::{Agent, MomentumAgent, MomentumParams, NoiseAgent, NoiseAgentParams};
use bourse_de::agents::common::cancel_live_orders;
use bourse_de::Env;
use rand_xoshiro::rand_core::SeedableRng;
use rand_xoshiro::Xoroshiro128StarStar;
use std::panic::{catch_unwind, AssertUnwindSafe};

fn f1() {
    // two asks at one price with one timestamp, then a market buy for both
    let mut b: OrderBook = OrderBook::new(0, 1, true);
    b.create_and_place_order(Side::Ask, 5, 0, Some(100)).unwrap();
    b.create_and_place_order(Side::Ask, 5, 0, Some(100)).unwrap();
    b.create_and_place_order(Side::Bid, 10, 1, None).unwrap();
    let o0 = *b.order(0);
    if o0.status == Status::Active && b.bid_ask().1 == u32::MAX {
        println!("F1: DEFECT order 0 still Active with vol {} but ask side shows empty touch; market buy filled only {}",
            o0.vol, b.get_trade_vol());
    } else {
        println!("F1: ok");
    }
}

fn f2() {
    let r = catch_unwind(AssertUnwindSafe(|| {
        let mut b: OrderBook = OrderBook::new(0, 1, false);
        b.create_and_place_order(Side::Ask, 5, 0, Some(100)).unwrap();
        b.create_and_place_order(Side::Bid, 5, 0, Some(110)).unwrap();
        b.mid_price()
    }));
    match r {
        Ok(m) if m == 105.0 => println!("F2: ok"),
        Ok(m) => println!("F2: DEFECT mid_price of crossed book (110,100) = {}", m),
        Err(_) => println!("F2: DEFECT mid_price panics on a crossed book (bid 110, ask 100)"),
    }
}

fn f3() {
    let mut b: OrderBook = OrderBook::new(0, 2, true);
    b.create_and_place_order(Side::Bid, 5, 0, Some(10)).unwrap();
    b.modify_order(0, Some(11), None);
    if b.order(0).price % 2 != 0 {
        println!("F3: DEFECT order rests at off-grid price {} (tick 2), bid_ask {:?}", b.order(0).price, b.bid_ask());
    } else {
        println!("F3: ok");
    }
}

fn f4() {
    let mut bad = Vec::new();
    for tick in [2u32, 4] {
        let r = catch_unwind(AssertUnwindSafe(|| {
            let mut env = Env::new(0, tick, 1000, true);
            let mut rng = Xoroshiro128StarStar::seed_from_u64(0);
            let mut agent = NoiseAgent::new(0, 10, NoiseAgentParams {
                tick_size: tick, p_limit: 1.0, p_market: 0.0, p_cancel: 0.1,
                trade_vol: 10, price_dist_mu: 0.0, price_dist_sigma: 10.0 });
            for _ in 0..200 { agent.update(&mut env, &mut rng); env.step(&mut rng); }
        }));
        if r.is_err() { bad.push(tick); }
    }
    if bad.is_empty() { println!("F4: ok") } else { println!("F4: DEFECT noise agent (sigma=10, seed 0) aborts for tick sizes {:?}", bad) }
}

fn f5() {
    let mut env = Env::new(0, 1, 1000, true);
    let mut rng = Xoroshiro128StarStar::seed_from_u64(1);
    let id = env.place_order(Side::Bid, 10, 0, Some(50)).unwrap();
    env.step(&mut rng);
    // seed whose first f32 draw is exactly 0.0
    let mut rng = Xoroshiro128StarStar::seed_from_u64(153381);
    let live = cancel_live_orders(&mut env, &mut rng, &[id], 0.0);
    if live.is_empty() { println!("F5: DEFECT p_cancel = 0 cancelled the order (draw 0.0, seed 153381)") } else { println!("F5: ok") }
}

fn momentum_orders(rising: bool) -> usize {
    let mut env = Env::new(0, 1, 1000, true);
    let mut rng = Xoroshiro128StarStar::seed_from_u64(7);
    let mut agent = MomentumAgent::new(0, 10, MomentumParams {
        tick_size: 1, p_cancel: 0.0, trade_vol: 1, decay: 1.0, demand: 1000.0, scale: 1.0,
        order_ratio: 1.0, price_dist_mu: 0.0, price_dist_sigma: 0.5 });
    let mut n = 0;
    for k in 0..6u32 {
        // harness-controlled quotes: one bid/ask pair per step moving up or down
        let base = if rising { 1000 + 10 * k } else { 1000 - 10 * k };
        env.place_order(Side::Bid, 1_000_000, 99, Some(base - 2)).unwrap();
        env.place_order(Side::Ask, 1_000_000, 99, Some(base + 2)).unwrap();
        env.step(&mut rng);
        let before = env.get_orders().len();
        agent.update(&mut env, &mut rng);
        n += env.get_orders().len() - before;
        // drop the agent's orders and old quotes so the imposed path is exact
        let ids: Vec<usize> = env.get_orders().iter().map(|o| o.order_id).collect();
        for i in ids { env.cancel_order(i); }
        env.step(&mut rng);
    }
    n
}

fn f6() {
    let up = momentum_orders(true);
    let down = momentum_orders(false);
    if up > 0 && down == 0 { println!("F6: DEFECT rising path -> {} orders, mirrored falling path -> {} orders", up, down) }
    else { println!("F6: ok (up {}, down {})", up, down) }
}

fn main() {
    std::panic::set_hook(Box::new(|_| {}));
    f1(); f2(); f3(); f4(); f5(); f6();
}
