"""Per-property configuration: proof obligations, correspondence jobs, classification."""
import os, json
import common
from common import CheckFailure

KIND_NAMES = {0: "undecodable line", 1: "panic on one side only", 2: "operation results differ",
              3: "implementation observation differs from the model's", 4: "implementation differs from the reference engine",
              5: "property monitor false on the implementation's trace"}
CATS = {1: "clock", 2: "traded-volume counter", 4: "market data", 8: "order records", 16: "trade log"}


def cats_text(c):
    return [v for k, v in CATS.items() if c & k] or ["result/other"]


# ------------------------------------------------------------------ book-level jobs

def rnd(fam, seed, count, length, levels, name=None):
    return {"name": name or "rnd-%s-L%d" % (fam, levels),
            "args": ["book-random", "--family", fam, "--seed", str(seed), "--count", str(count), "--len", str(length), "--levels", str(levels)]}


def tree(kind, depth, tick, levels, reduced=0, trading=1, name=None):
    return {"name": name or "tree-%s-d%d-t%d%s%s" % (kind, depth, tick, "-red" if reduced else "", "-off" if not trading else ""),
            "args": ["book-tree", "--kind", kind, "--depth", str(depth), "--tick", str(tick), "--levels", str(levels),
                     "--reduced", str(reduced), "--trading", str(trading)]}


def book_jobs(pid, tier, seed):
    q = tier == "quick"
    n = (lambda a, b: a if q else b)
    J = []
    if pid == "C01":
        J += [tree("C01", 3, 1, 3), tree("C01", n(4, 5), 3, 2, reduced=1)]
        if not q:
            J += [tree("C01", 4, 2, 4)]
        for L in (1, 3, 10, 24):
            J.append(rnd("C01", seed + L, n(600, 4000), n(80, 250), L))
    elif pid == "C02":
        J += [tree("C04", 3, 2, 3), tree("C13", 3, 1, 2, trading=0)]
        for L in (1, 2, 3, 4, 10, 24):
            J.append(rnd("C02", seed + L, n(400, 3000), n(80, 200), L))
        J.append(rnd("C05", seed + 7, n(300, 3000), 60, 4, name="rnd-ties-L4"))
    elif pid == "C03":
        J += [tree("C04", 3, 1, 2), tree("C06", 3, 2, 3)]
        for L in (1, 3, 10):
            J.append(rnd("C03", seed + L, n(700, 4000), n(80, 250), L))
    elif pid == "C04":
        J += [tree("C04", 3, 1, 3), tree("C04", 3, 2, 2, trading=0)]
        if not q:
            J += [tree("C04", 4, 1, 2, reduced=1)]
        for L in (1, 3, 10):
            J.append(rnd("C04", seed + L, n(700, 4000), n(80, 200), L))
        J.append(rnd("MAL", seed + 9, n(500, 4000), 60, 3, name="rnd-malformed-L3"))
    elif pid == "C05":
        J += [tree("C05", 3, 1, 3), tree("C05", n(4, 5), 2, 2, reduced=1)]
        for L in (1, 3, 10):
            J.append(rnd("C05", seed + L, n(700, 4000), n(80, 200), L))
    elif pid == "C06":
        J += [tree("C06", 3, 1, 3), tree("C06", 3, 3, 2)]
        if not q:
            J += [tree("C06", 4, 2, 3, reduced=1)]
        for L in (1, 3, 10):
            J.append(rnd("C06", seed + L, n(700, 4000), n(80, 200), L))
    elif pid == "C07":
        J += [tree("C04", 3, 1, 3)]
        for L in (1, 3, 10, 24):
            J.append(rnd("C07", seed + L, n(500, 3000), n(80, 200), L))
        J.append(rnd("C05", seed + 5, n(400, 3000), 60, 4, name="rnd-ties-L4"))
    elif pid == "C12":
        J += [tree("C12", 3, 2, 3), tree("C12", 3, 5, 2)]
        for L in (1, 3, 10, 24):
            J.append(rnd("C12", seed + L, n(600, 4000), n(80, 200), L))
    elif pid == "C13":
        J += [tree("C13", 3, 1, 3), tree("C13", 3, 2, 2, trading=0)]
        if not q:
            J += [tree("C13", 4, 1, 2, reduced=1)]
        for L in (1, 3, 10):
            J.append(rnd("C13", seed + L, n(700, 4000), n(80, 200), L))
    return J


MONITOR_OF = {"C02": 2, "C03": 3, "C04": 4, "C12": 12, "C13": 13}


def classify(pid, r):
    """'concrete': the property itself fails on this input; 'tie': the model no longer
    describes the code inside this property's projection; None: not this property's business."""
    k = r[0]
    if k == 0:
        return "tie"
    if k == 1:
        return "concrete" if r[1] == 0 else "tie"
    if k == 5:
        if pid == "C05" and r[1] in (2, 3, 4, 12):
            return "concrete"
        return "concrete" if MONITOR_OF.get(pid) == r[1] else None
    cats = r[1] if len(r) > 1 else 0
    if k == 4:
        if pid in ("C01", "C05", "C06", "C07"):
            return "concrete" if (cats == 0 or cats & (1 | 2 | 8 | 16)) else None
        if pid == "C13":
            return "concrete" if cats & (8 | 16) else None
        return None
    if k == 2:
        return "tie" if pid in ("C04", "C12", "C01", "C05") else None
    if k == 3:
        proj = {"C01": 1 | 2 | 8 | 16, "C02": 4, "C03": 2 | 16, "C04": 1 | 8, "C05": 31, "C06": 31, "C07": 31,
                "C12": 8 | 4, "C13": 8 | 16}.get(pid, 31)
        return "tie" if cats & proj else None
    return None


def describe(r):
    k = r[0]
    if k == 5:
        return "monitor C%02d clause %d is false" % (r[1], r[2])
    if k in (3, 4):
        return "%s: %s (first differing field index %d)" % (KIND_NAMES[k], ", ".join(cats_text(r[1])), r[2])
    if k == 1:
        return "the %s panicked and the other side did not" % ("model" if r[1] else "implementation")
    return KIND_NAMES.get(k, str(r))


RULE_BOOK = ("scripts = exhaustive depth-d trees over a small alphabet (every path, drain probe appended) plus seeded "
             "state-aware random histories (tick 1..10, prices over the whole u32 range and near both ends, volumes up to 2^20); "
             "each executed on the rebuilt implementation and on the extracted model, reference engine and monitors, compared after "
             "every operation. non-trivial = at least one trade AND (a partial fill OR a cancel/modify of a resting order); "
             "distinct = distinct operation sequences (hash of header and operations) within a shard.")


def run_book_property(ctx, theorem_file):
    pid = ctx.pid
    if os.environ.get("VERIF_NO_PROOF") != "1":     # (tools/try_mutation.sh only: correspondence part alone)
        common.proof_obligations(ctx, theorem_file)
    jobs = book_jobs(pid, ctx.tier, ctx.seed)
    reports, stats = common.run_jobs(ctx, jobs)
    common.coverage_from_stats(ctx, stats, RULE_BOOK)
    own = [(classify(pid, r["r"]), r) for r in reports]
    concrete = [r for c, r in own if c == "concrete"]
    tie = [r for c, r in own if c == "tie"]
    others = {}
    for c, r in own:
        if c is None:
            others[describe(r["r"])] = others.get(describe(r["r"]), 0) + 1
    ctx.coverage["reports_outside_this_property"] = others
    ctx.coverage["reports_total"] = len(reports)
    if ctx.coverage.get("evaluations", 0) == 0:
        raise CheckFailure("no script was executed")
    emitted = 0
    seen = set()
    for group, nofail in ((concrete, False), (tie, True)):
        if nofail and concrete:
            break    # a concrete failing input explains the broken tie
        group.sort(key=lambda r: (r["op"], len(r["job"]["args"])))
        for r in group:
            key = tuple(r["r"][:3]) if r["r"][0] == 5 else (r["r"][0],)
            if key in seen or emitted >= 3:
                continue
            seen.add(key)
            lines = common.fetch_script(ctx, r["job"], r["script"])
            kind0 = r["r"][0]
            want = classify

            def pred(reps, key=key, kind0=kind0):
                for _, rr in reps:
                    c = classify(pid, rr)
                    if c == ("tie" if nofail else "concrete") and ((tuple(rr[:3]) if rr[0] == 5 else (rr[0],)) == key):
                        return True
                return False
            try:
                small = common.shrink(ctx, lines, pred, budget=80 if ctx.tier == "quick" else 200)
            except Exception:
                small = lines
            reps = common.run_script(ctx, small)
            rp = ctx.write_replay({
                "kind": "failing-input" if not nofail else "correspondence-broken",
                "what": describe(r["r"]),
                "broken": None if not nofail else "correspondence impl-vs-model (Spec.Runner.rs_step) behind the theorems of coq/%s" % theorem_file,
                "job": r["job"]["name"], "script_id": r["script"], "op_index": r["op"],
                "script": small, "original_length": len(lines) - 1,
                "reports_on_replay": [{"op": k, "report": describe(x), "raw": x} for k, x in reps],
                "how_to_replay": "./check %s --replay <this file>" % pid,
            })
            ctx.violations.append((rp, nofail))
            emitted += 1
    return 1 if ctx.violations else 0


def replay(ctx, path):
    obj = json.load(open(path))
    if "script" not in obj:
        print("replay file has no script (it names a broken build/translator/theorem):", obj.get("what"))
        return 1
    reps = common.run_script(ctx, obj["script"])
    bad = 0
    for k, r in reps:
        c = classify(ctx.pid, r)
        print("op %d: %s%s" % (k, describe(r), "" if c is None else "   <- " + c))
        if c:
            bad += 1
    print("replay: %d report(s) concerning %s" % (bad, ctx.pid))
    return 1 if bad else 0


# ------------------------------------------------------------------ environment-level properties

def envjob(name, kind, seed, count, **kw):
    args = ["env-random", "--kind", str(kind), "--seed", str(seed), "--count", str(count)]
    for k, v in kw.items():
        args += ["--" + k, str(v)]
    return {"name": name, "args": args}


def env_jobs(pid, tier, seed):
    q = tier == "quick"
    n = (lambda a, b: a if q else b)
    if pid == "C08":
        return [envjob("env-batches", 0, seed, n(1200, 12000), maxbatch=6, rounds=6),
                envjob("menv-batches", 1, seed + 1, n(1200, 12000), maxbatch=7, rounds=5),
                envjob("env-bigstep-smallbatch", 0, seed + 2, n(600, 6000), maxbatch=3, rounds=8, smallstep=1)]
    if pid == "C05":
        return [envjob("env-overfull", 0, seed + 11, n(900, 8000), maxbatch=8, rounds=6, smallstep=1),
                envjob("menv-overfull", 1, seed + 12, n(700, 6000), maxbatch=8, rounds=5, smallstep=1)]
    if pid == "C10":
        return [envjob("env-submissions", 0, seed, n(1200, 12000), maxbatch=9, rounds=5),
                envjob("menv-submissions", 1, seed + 1, n(1200, 12000), maxbatch=9, rounds=5)]
    if pid == "C11":
        return [envjob("env-asym", 0, seed, n(1200, 12000), maxbatch=6, rounds=7, asym=1),
                envjob("menv-asym", 1, seed + 1, n(1200, 12000), maxbatch=6, rounds=6, asym=1),
                envjob("env-mixed", 0, seed + 2, n(800, 8000), maxbatch=6, rounds=7)]
    if pid == "C14":
        return [envjob("market-direct", 2, seed, n(1500, 15000)),
                envjob("menv-shuffled", 1, seed + 1, n(1200, 12000), maxbatch=8, rounds=5),
                envjob("menv-overfull", 1, seed + 2, n(600, 6000), maxbatch=8, rounds=5, smallstep=1)]
    if pid == "C13":
        return [envjob("market-direct-toggles", 2, seed + 21, n(1200, 12000)),
                envjob("menv-toggles", 1, seed + 22, n(900, 9000), maxbatch=7, rounds=6),
                envjob("env-toggles", 0, seed + 23, n(600, 6000), maxbatch=6, rounds=6)]
    if pid == "C15":
        return [envjob("env-distinct-batches", 0, seed, n(2500, 40000), maxbatch=n(16, 64), rounds=4, distinct=1, toggles=0),
                envjob("menv-distinct-batches", 1, seed + 1, n(2500, 40000), maxbatch=n(16, 64), rounds=4, distinct=1, toggles=0),
                envjob("env-mixed-kinds", 0, seed + 2, n(1000, 12000), maxbatch=8, rounds=5),
                envjob("menv-mixed-kinds-toggles", 1, seed + 3, n(800, 10000), maxbatch=8, rounds=5)]
    return []


ENV_MON = {"C08": 8, "C05": 8, "C10": 10, "C11": 11, "C14": 14, "C13": 13}
ECATS = {8: "book observations (orders, trades, market data, arrival times)", 32: "level-2 snapshot handed to agents",
         64: "per-step traded volumes", 128: "recorded series", 256: "generator state"}


def classify_env(pid, r, after_resched=False):
    """after_resched: an earlier step of this script was processed in a different (but valid) schedule than the
    model predicted, so model and implementation states differ from there on for a reason that concerns C15 only."""
    k = r[0]
    if k == 0:
        return "tie"
    if k == 6:
        return "concrete"          # two accessors of the same data disagree
    if k == 1:
        return ("concrete" if r[1] == 0 else "tie") if not after_resched else None
    if k == 5:
        if pid == "C14" and r[1] == 10 and len(r) > 2 and r[2] == 4:
            return "concrete"      # the all-asset level-2 query does not return an asset's own (live) values
        return "concrete" if ENV_MON.get(pid) == r[1] else None
    if k == 7:
        if r[1] == 0:              # no schedule of the batch explains what the step did
            return "concrete" if pid in ("C08", "C14", "C05") else ("tie" if pid == "C15" else None)
        return "tie" if pid == "C15" else None
    if k in (2, 3):
        if after_resched and pid != "C15":
            return None
        cats = r[1] if len(r) > 1 else 0
        proj = {"C08": 8 | 64 | 256, "C05": 8 | 64, "C10": 8 | 32 | 64 | 128, "C11": 64 | 128 | 32, "C14": 8 | 64 | 32, "C15": 8 | 256, "C13": 8 | 64}.get(pid, 511)
        if not (k == 2 or cats & proj):
            return None
        return "tie"
    return None


def describe_env(r):
    if r[0] == 6:
        return "two accessors of the same recorded data disagree (see the F line of the replay)"
    if r[0] == 7:
        return ["no processing schedule of the step's batch explains the resulting books",
                "the step was processed in a different (valid) schedule than rand's shuffle of the queue predicts",
                "the step's books differ from the predicted schedule's (batch too large to search other schedules)"][r[1]]
    if r[0] == 3:
        return "implementation observation differs from the model's: %s (first differing field index %d)" % (
            ", ".join(v for k, v in ECATS.items() if r[1] & k) or "other", r[2])
    return describe(r)


RULE_ENV = ("scripts = seeded random rounds of submissions (limit/market orders, cancels, modifies, several instructions for one order, "
            "instructions for orders created in the same step, off-grid creations, trading toggles) followed by a step, on Env<1|3|10|24>, "
            "MarketEnv<1..4 assets> and Market<1..4>, with the generator seeded per script; executed on the rebuilt crates and on the extracted "
            "model (which computes the exact shuffle from the seed); every observable (each book's full observation incl. arrival/end times, the "
            "cached level-2 data, every recorded series, the per-step traded volumes, the next raw draw of the generator) compared after every "
            "operation, monitors run on the implementation's observations. non-trivial = a script with at least one step that carried >= 2 instructions.")


def run_env_property(ctx, theorem_file, proof=True):
    pid = ctx.pid
    if proof and os.environ.get("VERIF_NO_PROOF") != "1":
        common.proof_obligations(ctx, theorem_file)
    jobs = env_jobs(pid, ctx.tier, ctx.seed)
    reports, stats = common.run_jobs(ctx, jobs)
    common.coverage_from_stats(ctx, stats, RULE_ENV)
    for k in ("operation_mix", "final_order_status_mix", "trades", "price_errors"):
        ctx.coverage.pop(k, None)
    for name, st in stats.items():
        try:
            d = {}
            for f in sorted(__import__("glob").glob(os.path.join(ctx.work, name + ".*.stats"))):
                x = json.load(open(f))
                for kk in ("steps", "overflow_batches"):
                    d[kk] = d.get(kk, 0) + x.get(kk, 0)
                d["batch_size_histogram"] = [a + b for a, b in zip(d.get("batch_size_histogram", [0] * 9), x["batch_size_histogram"])]
                d["env_op_kinds"] = [a + b for a, b in zip(d.get("env_op_kinds", [0] * 9), x["env_op_kinds"])]
            ctx.coverage["jobs"][name].update(d)
        except Exception:
            pass
    resched = {}
    for r in reports:
        if r["r"][0] == 7 and r["r"][1] == 1:
            key = (r["job"]["name"], r["script"])
            resched[key] = min(resched.get(key, 10 ** 9), r["op"])
    own = []
    for r in reports:
        key = (r["job"]["name"], r["script"])
        after = key in resched and r["op"] >= resched[key]
        c = classify_env(pid, r["r"], after)
        # a direct per-asset operation that differs from the stand-alone book step is C14 itself
        if pid == "C14" and c == "tie" and r["r"][0] == 3 and r["job"]["name"] == "market-direct":
            c = "concrete"
        own.append((c, r))
    concrete = [r for c, r in own if c == "concrete"]
    tie = [r for c, r in own if c == "tie"]
    ctx.coverage["reports_total"] = len(reports)
    if ctx.coverage.get("evaluations", 0) == 0:
        raise CheckFailure("no script was executed")
    emitted, seen = 0, set()
    for group, nofail in ((concrete, False), (tie, True)):
        if nofail and concrete:
            break
        group.sort(key=lambda r: r["op"])
        for r in group:
            key = tuple(r["r"][:3]) if r["r"][0] == 5 else (r["r"][0],)
            if key in seen or emitted >= 3:
                continue
            seen.add(key)
            import subprocess
            out = subprocess.run([common.DRIVE] + r["job"]["args"] + ["--only", str(r["script"])], env=common.ENV,
                                 stdout=subprocess.PIPE, text=True).stdout
            lines = [l for l in out.splitlines() if l[:2] in ("M ", "O ", "F ")]
            rp = ctx.write_replay({
                "kind": "failing-input" if not nofail else "correspondence-broken",
                "what": describe_env(r["r"]),
                "broken": None if not nofail else "correspondence impl-vs-model (Spec.EnvRunner.es_step_fn) behind the theorems of coq/%s" % theorem_file,
                "job": r["job"]["name"], "script_id": r["script"], "op_index": r["op"], "script": lines[: 2 + 3 * 400],
                "regenerate": " ".join([common.DRIVE] + r["job"]["args"] + ["--only", str(r["script"]), "|", common.RUNNER]),
            })
            ctx.violations.append((rp, nofail))
            emitted += 1
    return 1 if ctx.violations else 0


def aux_job(ctx, cmd, fail_prefix, stats_prefix, cov_key, what):
    """A harness job that decides by itself and prints '<FAIL> text' lines and one '<STATS> json' line."""
    import subprocess
    out = subprocess.run(cmd, env=common.ENV, stdout=subprocess.PIPE, stderr=subprocess.DEVNULL, text=True).stdout
    fails = [l[len(fail_prefix) + 1:] for l in out.splitlines() if l.startswith(fail_prefix + " ")]
    stats = [l[len(stats_prefix) + 1:] for l in out.splitlines() if l.startswith(stats_prefix + " ")]
    if not stats:
        raise CheckFailure("harness job did not finish: " + " ".join(cmd), out[-2000:])
    try:
        js = json.loads(stats[0])
    except Exception:
        js = {"raw": stats[0][:2000]}
    ctx.coverage[cov_key] = {"what": what, "result": js}
    for f in fails[:2]:
        rp = ctx.write_replay({"kind": "failing-input", "what": f, "how_to_replay": " ".join(cmd)})
        ctx.violations.append((rp, False))
    return fails


def agent_jobs(pid, tier, seed):
    q = tier == "quick"
    n = (lambda a, b: a if q else b)

    def aj(name, s, count, steps, **kw):
        args = ["agents-random", "--seed", str(s), "--count", str(count), "--steps", str(steps)]
        for k, v in kw.items():
            args += ["--" + k, str(v)]
        return {"name": name, "args": args}
    if pid == "C16":
        return [aj("agents-random-kind", seed, n(300, 2000), n(25, 80), kinds="0"),
                aj("agents-noise-kind", seed + 1, n(300, 2000), n(25, 80), kinds="1"),
                aj("agents-momentum-kind", seed + 2, n(300, 2000), n(25, 80), kinds="2"),
                aj("agents-mixed", seed + 3, n(300, 2000), n(25, 60), kinds="0,1,2")]
    if pid == "C17":
        return [aj("momentum-imposed-paths", seed, n(500, 4000), n(14, 30), kinds="2", paths=1),
                aj("momentum-free", seed + 1, n(200, 1500), n(20, 60), kinds="2")]
    if pid == "C09":
        return [aj("agents-mixed", seed, n(400, 2500), n(30, 80), kinds="0,1,2")]
    return []


RULE_AGENTS = ("scripts = seeded runs of 1-3 built-in agent groups (random / noise / momentum, single-asset Env and 2-asset MarketEnv; tick 1..10, "
               "probabilities in {0, (0,1), 1, 1.5}, sigma in {0.1, 1, 10}, empty / one-sided / two-sided starting books or harness-imposed price paths), "
               "each `update` and each `step` executed on the rebuilt crates with a draw-counting generator and on the extracted model (exact generator, "
               "Flocq binary64 rounding, log-normal samples from an oracle table produced by the real rand_distr on the same stream, libm tanh); every "
               "observable incl. the next raw draw compared after every call. non-trivial = a script with a step that carried >= 2 instructions.")


def classify_agent(pid, r):
    k = r[0]
    if k == 1:
        return "concrete" if r[1] == 0 else "tie"      # the implementation aborted where the model does not
    if k == 5:
        return "concrete" if (r[1] == 16 and pid == "C16") else None
    if k in (0, 2, 3, 6):
        return "tie"
    if k == 7:
        return "tie"
    return None


def run_agent_property(ctx, theorem_file, extra=None):
    pid = ctx.pid
    if os.environ.get("VERIF_NO_PROOF") != "1":
        common.proof_obligations(ctx, theorem_file)
    reports, stats = common.run_jobs(ctx, agent_jobs(pid, ctx.tier, ctx.seed))
    common.coverage_from_stats(ctx, stats, RULE_AGENTS)
    for k in ("operation_mix", "final_order_status_mix", "trades", "price_errors"):
        ctx.coverage.pop(k, None)
    ctx.coverage["reports_total"] = len(reports)
    concrete_found = False
    if extra:
        concrete_found = bool(extra(ctx))
    own = [(classify_agent(pid, r["r"]), r) for r in reports]
    concrete = [r for c, r in own if c == "concrete"]
    tie = [r for c, r in own if c == "tie"]
    import subprocess
    emitted = 0
    for group, nofail in ((concrete, False), (tie, True)):
        if nofail and (concrete or concrete_found):
            break
        group.sort(key=lambda r: r["op"])
        for r in group[:1]:
            out = subprocess.run([common.DRIVE] + r["job"]["args"] + ["--only", str(r["script"])], env=common.ENV,
                                 stdout=subprocess.PIPE, text=True).stdout
            lines = [l for l in out.splitlines() if l[:2] in ("M ", "G ", "O ", "F ")]
            rp = ctx.write_replay({
                "kind": "failing-input" if not nofail else "correspondence-broken",
                "what": (("the implementation aborted (panic) where the model of the agents does not" if r["r"][0] == 1 else describe_env(r["r"])) if not nofail else describe_env(r["r"])),
                "broken": None if not nofail else "correspondence impl-vs-model of the agents (Model/Agents.v via Spec.EnvRunner.es_step_fn) behind coq/%s" % theorem_file,
                "job": r["job"]["name"], "script_id": r["script"], "op_index": r["op"], "script": lines[:400],
                "regenerate": " ".join([common.DRIVE] + r["job"]["args"] + ["--only", str(r["script"]), "|", common.RUNNER])})
            ctx.violations.append((rp, nofail))
            emitted += 1
    return 1 if ctx.violations else 0


def run_c17(ctx):
    def extra(c):
        return aux_job(c, [common.DRIVE, "momentum-mirror", "--seed", str(c.seed), "--count", "600" if c.tier == "quick" else "20000"],
                       "MIRRORFAIL", "MIRRORSTATS", "mirrored_paths",
                       "pairs of runs on a harness-imposed mid-price path and its mirror image with one seed: the order flow must be mirrored "
                       "(buys <-> sells, same sizes, same steps); direction must follow the sign of M recomputed from the path; at saturated demand "
                       "every trader submits one limit and one market order")
    return run_agent_property(ctx, "Properties/C17.v", extra)


def run_c09(ctx):
    def extra(c):
        return aux_job(c, [common.DRIVE, "determinism", "--seed", str(c.seed), "--count", "60" if c.tier == "quick" else "600"],
                       "DETFAIL", "DETSTATS", "runner_determinism",
                       "sim_runner / market_sim_runner on derive-macro agent sets (random+noise+momentum, nested sets): twice in one process, in a "
                       "separate OS process, with and without the progress bar, and as a hand-written loop over Xoroshiro128StarStar::seed_from_u64(seed); "
                       "complete outputs (orders, trades, level-2 histories, per-step volumes) compared by digest; a different seed must change the output "
                       "(measured, not proved)")
    return run_agent_property(ctx, "Properties/C09.v", extra)


def run_c20(ctx):
    if os.environ.get("VERIF_NO_PROOF") != "1":
        common.proof_obligations(ctx, "Properties/C20.v")
    fails = aux_job(ctx, [common.DRIVE, "macros", "--seed", str(ctx.seed), "--rounds", "6" if ctx.tier == "quick" else "60"],
                    "MACROFAIL", "MACROSTATS", "derive_macros_dynamic",
                    "12 struct shapes (1..11 flattened members; names out of alphabetical order and with a leading underscore; repeated types; nested "
                    "derived sets) for both derive macros: probe agents log (tag, first draw, orders seen); derived update compared call-by-call and "
                    "draw-by-draw with the hand-written sequence, final environment and generator state included")
    st = ctx.coverage["derive_macros_dynamic"]["result"]
    ctx.coverage.update({"evaluations": st.get("calls_compared", 0), "distinct_nontrivial": st.get("shapes", 0),
                         "rule": "calls of probe agents compared between derived and hand-written sets; distinct = struct shapes",
                         "samples": ["D8{h,_g,f,nested:D3{maker,_hedger,taker},d,c,again:D2{zeta,alpha},a}", "M4{maker,taker,inner:M2{zeta,alpha},arbitrageur}"],
                         "traces_validated_against_impl": st.get("shapes", 0)})
    return 1 if ctx.violations else 0


def run_c19(ctx):
    proof_error = None
    if os.environ.get("VERIF_NO_PROOF") != "1":
        common.proof_obligations(ctx, "Properties/C19.v")
    common.build_extension()
    n = "120" if ctx.tier == "quick" else "3000"
    aux_job(ctx, ["python3-vt", os.path.join(common.VERIF, "pyharness", "c19.py"), common.PYEXT, common.REPO, str(ctx.seed), n],
            "PYFAIL", "PYSTATS", "python_dynamic",
            "random asymmetric market states driven through the real extension module under CPython (python3-vt, numpy): all four array methods, both "
            "market-data dictionaries and both data-frame helpers (pandas stub) compared element by element with the documented quantity recomputed "
            "from get_orders()/get_trades()")
    st = ctx.coverage["python_dynamic"]["result"]
    ctx.coverage.update({"evaluations": st.get("states", 0) * 2, "distinct_nontrivial": st.get("states", 0),
                         "rule": "states = (seed, random batch of asymmetric limit orders incl. crossing ones, cancels, 1..4 steps) on StepEnv and StepEnvNumpy; "
                                 "all are asymmetric (bid volumes offset by +100), distinct by construction (distinct seeds)",
                         "samples": st.get("samples", [])[:2], "traces_validated_against_impl": st.get("states", 0)})
    return 1 if ctx.violations else 0


def run_c18(ctx):
    if os.environ.get("VERIF_NO_PROOF") != "1":
        common.proof_obligations(ctx, "Properties/C18.v")
    common.build_extension()
    n = "150" if ctx.tier == "quick" else "4000"
    aux_job(ctx, ["python3-vt", os.path.join(common.VERIF, "pyharness", "c18.py"), common.PYEXT, common.DRIVE, common.RUNNER,
                  os.path.join(ctx.work, "c18"), str(ctx.seed), n],
            "PYFAIL", "PYSTATS", "python_three_way",
            "generated call scripts over the non-numpy API of bourse.core.OrderBook and StepEnv (keyword and positional forms; in-range, out-of-range "
            "and off-grid arguments; snapshots in both directions) executed on the real extension under CPython, on the Rust core by the harness and on "
            "the extracted model; every returned value compared")
    st = ctx.coverage["python_three_way"]["result"]
    ctx.coverage.update({"evaluations": st.get("calls", 0), "distinct_nontrivial": st.get("book_scripts", 0) + st.get("env_scripts", 0),
                         "rule": "calls = Python API calls compared with the core; distinct = scripts (distinct seeds; each has trades, cancels, modifies)",
                         "samples": st.get("samples", [])[:2], "traces_validated_against_impl": st.get("book_scripts", 0) + st.get("env_scripts", 0)})
    return 1 if ctx.violations else 0


def run_c15(ctx):
    import subprocess
    rc = run_env_property(ctx, "Properties/C15.v")
    q = ctx.tier == "quick"
    cmd = [common.DRIVE, "shuffle-stats", "--small", "200000" if q else "600000", "--large", "20000" if q else "60000", "--seed", str(ctx.seed)]
    out = subprocess.run(cmd, env=common.ENV, stdout=subprocess.PIPE, text=True).stdout
    fails = [l[9:] for l in out.splitlines() if l.startswith("STATFAIL ")]
    stats = [l[6:] for l in out.splitlines() if l.startswith("STATS ")]
    if not stats:
        raise CheckFailure("shuffle statistics job did not finish", out[-2000:])
    ctx.coverage["statistical_test_not_a_proof"] = {
        "what": "the property's own test on the implementation: all n! schedules counted for batch sizes 2..6, position-by-item and pairwise-order "
                "tables for 8..64, Env and 2-asset MarketEnv with mixed instruction kinds; Bernstein bound with union bound, false-alarm < 1e-9",
        "tables": json.loads(stats[0]) if stats[0] else []}
    if fails:
        # a concrete statistical counter-example replaces any 'no-failing-input-found' report
        ctx.violations = [v for v in ctx.violations if not v[1]]
        for f in fails[:2]:
            rp = ctx.write_replay({"kind": "failing-input", "what": f, "how_to_replay": " ".join(cmd)})
            ctx.violations.append((rp, False))
    return 1 if ctx.violations else rc


def run_c07(ctx):
    rc = run_book_property(ctx, "Properties/C07.v")
    import subprocess
    q = ctx.tier == "quick"
    d = os.path.join(ctx.work, "snap")
    cmd = [common.DRIVE, "snapshots", "--seed", str(ctx.seed), "--count", "60" if q else "1500", "--len", "60" if q else "120",
           "--trunc", "12" if q else "400", "--dir", d]
    out = subprocess.run(cmd, env=common.ENV, stdout=subprocess.PIPE, text=True).stdout
    import shutil
    shutil.rmtree(d, ignore_errors=True)
    fails = [l[9:] for l in out.splitlines() if l.startswith("SNAPFAIL ")]
    stats = [l[10:] for l in out.splitlines() if l.startswith("SNAPSTATS ")]
    if not stats:
        raise CheckFailure("snapshot job did not finish", out[-2000:])
    ctx.coverage["snapshot_text_and_file_level"] = json.loads(stats[0])
    ctx.coverage["snapshot_rule"] = ("at random points of random histories: compact and pretty text reloaded in memory (observation and re-serialisation "
                                     "must be equal), saved through save_json to a path that is reused (documents of varying length overwrite each other) "
                                     "and loaded back; the reloaded object is then driven in lock-step with the original; for the first files every byte "
                                     "offset is cut and load_json must return Err (no Ok, no panic); Market<1,2,4> likewise")
    for f in fails[:2]:
        rp = ctx.write_replay({"kind": "failing-input", "what": f, "how_to_replay": " ".join(cmd)})
        ctx.violations.append((rp, False))
    return 1 if ctx.violations else rc


def _prefer_concrete(ctx):
    """when one half found a failing input, the other half's broken-correspondence reports say nothing more"""
    if any(not nofail for _, nofail in ctx.violations):
        ctx.violations[:] = [(rp, nofail) for rp, nofail in ctx.violations if not nofail]


def run_c05(ctx):
    """C05 = the book-level tie histories plus environment steps that carry more instructions than the step size."""
    rc_env = run_env_property(ctx, "Properties/C05.v", proof=False)
    keep = ("evaluations", "distinct_nontrivial", "rule", "samples", "operations_compared", "jobs", "reports_total",
            "implementation_panics_observed", "traces_validated_against_impl")
    ctx.coverage["environment_overfull_steps"] = {k: ctx.coverage.pop(k) for k in keep if k in ctx.coverage}
    rc_book = run_book_property(ctx, "Properties/C05.v")
    _prefer_concrete(ctx)
    return 1 if (rc_env or rc_book or ctx.violations) else 0


def run_c13(ctx):
    """C13 = the book-level histories with toggles plus the market-wide and environment-wide switches."""
    rc_env = run_env_property(ctx, "Properties/C13.v", proof=False)
    keep = ("evaluations", "distinct_nontrivial", "rule", "samples", "operations_compared", "jobs", "reports_total",
            "implementation_panics_observed", "traces_validated_against_impl")
    ctx.coverage["market_and_environment_switches"] = {k: ctx.coverage.pop(k) for k in keep if k in ctx.coverage}
    rc_book = run_book_property(ctx, "Properties/C13.v")
    _prefer_concrete(ctx)
    return 1 if (rc_env or rc_book or ctx.violations) else 0


PROPS = {
    "C01": lambda ctx: run_book_property(ctx, "Properties/C01.v"),
    "C02": lambda ctx: run_book_property(ctx, "Properties/C02.v"),
    "C03": lambda ctx: run_book_property(ctx, "Properties/C03.v"),
    "C04": lambda ctx: run_book_property(ctx, "Properties/C04.v"),
    "C05": run_c05,
    "C06": lambda ctx: run_book_property(ctx, "Properties/C06.v"),
    "C07": run_c07,
    "C08": lambda ctx: run_env_property(ctx, "Properties/C08.v"),
    "C10": lambda ctx: run_env_property(ctx, "Properties/C10.v"),
    "C11": lambda ctx: run_env_property(ctx, "Properties/C11.v"),
    "C14": lambda ctx: run_env_property(ctx, "Properties/C14.v"),
    "C15": run_c15,
    "C09": run_c09,
    "C16": lambda ctx: run_agent_property(ctx, "Properties/C16.v"),
    "C17": run_c17,
    "C20": run_c20,
    "C18": run_c18,
    "C19": run_c19,
    "C12": lambda ctx: run_book_property(ctx, "Properties/C12.v"),
    "C13": run_c13,
}


def run_property(ctx):
    return PROPS[ctx.pid](ctx)


def search_after_failure(ctx):
    """Called when the property's theorem / generated table / build no longer checks: look for a concrete
    failing input on the implementation. Returns True when one was found (and recorded in ctx.violations)."""
    pid = ctx.pid
    before = len(ctx.violations)
    try:
        common.build_harness()
        # the runner may still be buildable (model files unchanged); try the full check without the proof step
        try:
            common.build_coq(None if False else "__none__")
            common.build_runner()
            PROPS[pid](ctx)
        except CheckFailure:
            if pid in ("C20", "C19", "C18"):
                PROPS[pid](ctx)
    except Exception:
        pass
    concrete = [v for v in ctx.violations[before:] if not v[1]]
    ctx.violations = ctx.violations[:before] + concrete
    return bool(concrete)
