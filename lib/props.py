"""Per-property configuration: proof obligations, correspondence jobs, classification."""
import os, json
import common
from common import CheckFailure

KIND_NAMES = {0: "undecodable line", 1: "panic on one side only", 2: "operation results differ",
              3: "implementation observation differs from the model's", 4: "implementation differs from the reference engine",
              5: "property monitor false on the implementation's trace"}
CATS = {1: "clock", 2: "traded-volume counter", 4: "market data", 8: "order records", 16: "trade log"}


def cats_text(c):
    return [v for k, v in CATS.items() if c & k] or ["result/other"]


# ------------------------------------------------------------------ book-level jobs

def rnd(fam, seed, count, length, levels, name=None):
    return {"name": name or "rnd-%s-L%d" % (fam, levels),
            "args": ["book-random", "--family", fam, "--seed", str(seed), "--count", str(count), "--len", str(length), "--levels", str(levels)]}


def tree(kind, depth, tick, levels, reduced=0, trading=1, name=None):
    return {"name": name or "tree-%s-d%d-t%d%s%s" % (kind, depth, tick, "-red" if reduced else "", "-off" if not trading else ""),
            "args": ["book-tree", "--kind", kind, "--depth", str(depth), "--tick", str(tick), "--levels", str(levels),
                     "--reduced", str(reduced), "--trading", str(trading)]}


def book_jobs(pid, tier, seed):
    q = tier == "quick"
    n = (lambda a, b: a if q else b)
    J = []
    if pid == "C01":
        J += [tree("C01", 3, 1, 3), tree("C01", n(4, 5), 3, 2, reduced=1)]
        if not q:
            J += [tree("C01", 4, 2, 4)]
        for L in (1, 3, 10, 24):
            J.append(rnd("C01", seed + L, n(600, 12000), n(80, 400), L))
    elif pid == "C02":
        J += [tree("C04", 3, 2, 3), tree("C13", 3, 1, 2, trading=0)]
        for L in (1, 2, 3, 4, 10, 24):
            J.append(rnd("C02", seed + L, n(400, 8000), n(80, 300), L))
        J.append(rnd("C05", seed + 7, n(300, 6000), 60, 4, name="rnd-ties-L4"))
    elif pid == "C03":
        J += [tree("C04", 3, 1, 2), tree("C06", 3, 2, 3)]
        for L in (1, 3, 10):
            J.append(rnd("C03", seed + L, n(700, 12000), n(80, 400), L))
    elif pid == "C04":
        J += [tree("C04", 3, 1, 3), tree("C04", 3, 2, 2, trading=0)]
        if not q:
            J += [tree("C04", 4, 1, 2, reduced=1)]
        for L in (1, 3, 10):
            J.append(rnd("C04", seed + L, n(700, 12000), n(80, 300), L))
        J.append(rnd("MAL", seed + 9, n(500, 8000), 60, 3, name="rnd-malformed-L3"))
    elif pid == "C05":
        J += [tree("C05", 3, 1, 3), tree("C05", n(4, 5), 2, 2, reduced=1)]
        for L in (1, 3, 10):
            J.append(rnd("C05", seed + L, n(700, 12000), n(80, 300), L))
    elif pid == "C06":
        J += [tree("C06", 3, 1, 3), tree("C06", 3, 3, 2)]
        if not q:
            J += [tree("C06", 4, 2, 3, reduced=1)]
        for L in (1, 3, 10):
            J.append(rnd("C06", seed + L, n(700, 12000), n(80, 300), L))
    elif pid == "C07":
        J += [tree("C04", 3, 1, 3)]
        for L in (1, 3, 10, 24):
            J.append(rnd("C07", seed + L, n(500, 8000), n(80, 300), L))
        J.append(rnd("C05", seed + 5, n(400, 6000), 60, 4, name="rnd-ties-L4"))
    elif pid == "C12":
        J += [tree("C12", 3, 2, 3), tree("C12", 3, 5, 2)]
        for L in (1, 3, 10, 24):
            J.append(rnd("C12", seed + L, n(600, 10000), n(80, 300), L))
    elif pid == "C13":
        J += [tree("C13", 3, 1, 3), tree("C13", 3, 2, 2, trading=0)]
        if not q:
            J += [tree("C13", 4, 1, 2, reduced=1)]
        for L in (1, 3, 10):
            J.append(rnd("C13", seed + L, n(700, 12000), n(80, 300), L))
    return J


MONITOR_OF = {"C02": 2, "C03": 3, "C04": 4, "C12": 12, "C13": 13}


def classify(pid, r):
    """'concrete': the property itself fails on this input; 'tie': the model no longer
    describes the code inside this property's projection; None: not this property's business."""
    k = r[0]
    if k == 0:
        return "tie"
    if k == 1:
        return "concrete" if r[1] == 0 else "tie"
    if k == 5:
        if pid == "C05" and r[1] in (2, 3, 4, 12):
            return "concrete"
        return "concrete" if MONITOR_OF.get(pid) == r[1] else None
    cats = r[1] if len(r) > 1 else 0
    if k == 4:
        if pid in ("C01", "C05", "C06", "C07"):
            return "concrete" if (cats == 0 or cats & (1 | 2 | 8 | 16)) else None
        if pid == "C13":
            return "concrete" if cats & (8 | 16) else None
        return None
    if k == 2:
        return "tie" if pid in ("C04", "C12", "C01", "C05") else None
    if k == 3:
        proj = {"C01": 1 | 2 | 8 | 16, "C02": 4, "C03": 2 | 16, "C04": 1 | 8, "C05": 31, "C06": 31, "C07": 31,
                "C12": 8 | 4, "C13": 8 | 16}.get(pid, 31)
        return "tie" if cats & proj else None
    return None


def describe(r):
    k = r[0]
    if k == 5:
        return "monitor C%02d clause %d is false" % (r[1], r[2])
    if k in (3, 4):
        return "%s: %s (first differing field index %d)" % (KIND_NAMES[k], ", ".join(cats_text(r[1])), r[2])
    if k == 1:
        return "the %s panicked and the other side did not" % ("model" if r[1] else "implementation")
    return KIND_NAMES.get(k, str(r))


RULE_BOOK = ("scripts = exhaustive depth-d trees over a small alphabet (every path, drain probe appended) plus seeded "
             "state-aware random histories (tick 1..10, prices over the whole u32 range and near both ends, volumes up to 2^20); "
             "each executed on the rebuilt implementation and on the extracted model, reference engine and monitors, compared after "
             "every operation. non-trivial = at least one trade AND (a partial fill OR a cancel/modify of a resting order); "
             "distinct = distinct operation sequences (hash of header and operations) within a shard.")


def run_book_property(ctx, theorem_file):
    pid = ctx.pid
    if os.environ.get("VERIF_NO_PROOF") != "1":     # (tools/try_mutation.sh only: correspondence part alone)
        common.proof_obligations(ctx, theorem_file)
    jobs = book_jobs(pid, ctx.tier, ctx.seed)
    reports, stats = common.run_jobs(ctx, jobs)
    common.coverage_from_stats(ctx, stats, RULE_BOOK)
    own = [(classify(pid, r["r"]), r) for r in reports]
    concrete = [r for c, r in own if c == "concrete"]
    tie = [r for c, r in own if c == "tie"]
    others = {}
    for c, r in own:
        if c is None:
            others[describe(r["r"])] = others.get(describe(r["r"]), 0) + 1
    ctx.coverage["reports_outside_this_property"] = others
    ctx.coverage["reports_total"] = len(reports)
    if ctx.coverage.get("evaluations", 0) == 0:
        raise CheckFailure("no script was executed")
    emitted = 0
    seen = set()
    for group, nofail in ((concrete, False), (tie, True)):
        if nofail and concrete:
            break    # a concrete failing input explains the broken tie
        group.sort(key=lambda r: (r["op"], len(r["job"]["args"])))
        for r in group:
            key = tuple(r["r"][:3]) if r["r"][0] == 5 else (r["r"][0],)
            if key in seen or emitted >= 3:
                continue
            seen.add(key)
            lines = common.fetch_script(ctx, r["job"], r["script"])
            kind0 = r["r"][0]
            want = classify

            def pred(reps, key=key, kind0=kind0):
                for _, rr in reps:
                    c = classify(pid, rr)
                    if c == ("tie" if nofail else "concrete") and ((tuple(rr[:3]) if rr[0] == 5 else (rr[0],)) == key):
                        return True
                return False
            try:
                small = common.shrink(ctx, lines, pred, budget=80 if ctx.tier == "quick" else 200)
            except Exception:
                small = lines
            reps = common.run_script(ctx, small)
            rp = ctx.write_replay({
                "kind": "failing-input" if not nofail else "correspondence-broken",
                "what": describe(r["r"]),
                "broken": None if not nofail else "correspondence impl-vs-model (Spec.Runner.rs_step) behind the theorems of coq/%s" % theorem_file,
                "job": r["job"]["name"], "script_id": r["script"], "op_index": r["op"],
                "script": small, "original_length": len(lines) - 1,
                "reports_on_replay": [{"op": k, "report": describe(x), "raw": x} for k, x in reps],
                "how_to_replay": "./check %s --replay <this file>" % pid,
            })
            ctx.violations.append((rp, nofail))
            emitted += 1
    return 1 if ctx.violations else 0


def replay(ctx, path):
    obj = json.load(open(path))
    if "script" not in obj:
        print("replay file has no script (it names a broken build/translator/theorem):", obj.get("what"))
        return 1
    reps = common.run_script(ctx, obj["script"])
    bad = 0
    for k, r in reps:
        c = classify(ctx.pid, r)
        print("op %d: %s%s" % (k, describe(r), "" if c is None else "   <- " + c))
        if c:
            bad += 1
    print("replay: %d report(s) concerning %s" % (bad, ctx.pid))
    return 1 if bad else 0


def run_c07(ctx):
    rc = run_book_property(ctx, "Properties/C07.v")
    import subprocess
    q = ctx.tier == "quick"
    d = os.path.join(ctx.work, "snap")
    cmd = [common.DRIVE, "snapshots", "--seed", str(ctx.seed), "--count", "60" if q else "1500", "--len", "60" if q else "120",
           "--trunc", "12" if q else "400", "--dir", d]
    out = subprocess.run(cmd, env=common.ENV, stdout=subprocess.PIPE, text=True).stdout
    import shutil
    shutil.rmtree(d, ignore_errors=True)
    fails = [l[9:] for l in out.splitlines() if l.startswith("SNAPFAIL ")]
    stats = [l[10:] for l in out.splitlines() if l.startswith("SNAPSTATS ")]
    if not stats:
        raise CheckFailure("snapshot job did not finish", out[-2000:])
    ctx.coverage["snapshot_text_and_file_level"] = json.loads(stats[0])
    ctx.coverage["snapshot_rule"] = ("at random points of random histories: compact and pretty text reloaded in memory (observation and re-serialisation "
                                     "must be equal), saved through save_json to a path that is reused (documents of varying length overwrite each other) "
                                     "and loaded back; the reloaded object is then driven in lock-step with the original; for the first files every byte "
                                     "offset is cut and load_json must return Err (no Ok, no panic); Market<1,2,4> likewise")
    for f in fails[:2]:
        rp = ctx.write_replay({"kind": "failing-input", "what": f, "how_to_replay": " ".join(cmd)})
        ctx.violations.append((rp, False))
    return 1 if ctx.violations else rc


PROPS = {
    "C01": lambda ctx: run_book_property(ctx, "Properties/C01.v"),
    "C02": lambda ctx: run_book_property(ctx, "Properties/C02.v"),
    "C03": lambda ctx: run_book_property(ctx, "Properties/C03.v"),
    "C04": lambda ctx: run_book_property(ctx, "Properties/C04.v"),
    "C05": lambda ctx: run_book_property(ctx, "Properties/C05.v"),
    "C06": lambda ctx: run_book_property(ctx, "Properties/C06.v"),
    "C07": run_c07,
    "C12": lambda ctx: run_book_property(ctx, "Properties/C12.v"),
    "C13": lambda ctx: run_book_property(ctx, "Properties/C13.v"),
}


def run_property(ctx):
    return PROPS[ctx.pid](ctx)
