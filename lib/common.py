"""Shared machinery of ./check: builds, proof obligations, pipelines, evidence."""
import os, sys, json, time, subprocess, hashlib, re, fcntl, shutil, contextlib, glob

VERIF = os.path.dirname(os.path.dirname(os.path.abspath(__file__)))
REPO = "/repo"
CACHE = os.path.join(VERIF, ".cache")
COQ = os.path.join(VERIF, "coq")
TARGET = os.path.join(CACHE, "target")
DRIVE = os.path.join(TARGET, "release", "drive")
OCAML = os.path.join(CACHE, "ocaml")
RUNNER = os.path.join(OCAML, "runner")
NCPU = min(16, os.cpu_count() or 4)

ENV = dict(os.environ, CARGO_NET_OFFLINE="true", CARGO_TARGET_DIR=TARGET)

# Axioms of the Coq standard library that a property theorem may depend on
# (named in DESIGN.md section 7); anything else fails the check.
AXIOM_ALLOW = {
    "ClassicalDedekindReals.sig_forall_dec", "ClassicalDedekindReals.sig_not_dec",
    "FunctionalExtensionality.functional_extensionality_dep", "Classical_Prop.classic",
    "functional_extensionality_dep", "classic", "sig_forall_dec", "sig_not_dec",
}
FORBIDDEN = re.compile(r"\b(Admitted|admit|Axiom|Parameter|Conjecture|Unset Guard|bypass_check|type-in-type|Admit Obligations)\b")


class CheckFailure(Exception):
    def __init__(self, what, detail=""):
        super().__init__(what)
        self.detail = detail


@contextlib.contextmanager
def build_lock():
    os.makedirs(CACHE, exist_ok=True)
    f = open(os.path.join(CACHE, "build.lock"), "w")
    fcntl.flock(f, fcntl.LOCK_EX)
    try:
        yield
    finally:
        fcntl.flock(f, fcntl.LOCK_UN)
        f.close()


def sh(cmd, cwd=None, timeout=3600, env=None, check=True):
    p = subprocess.run(cmd, cwd=cwd, env=env or ENV, shell=isinstance(cmd, str),
                       stdout=subprocess.PIPE, stderr=subprocess.STDOUT, text=True, timeout=timeout)
    if check and p.returncode != 0:
        raise CheckFailure("command failed: %s" % (cmd if isinstance(cmd, str) else " ".join(cmd)), p.stdout[-4000:])
    return p.stdout


def file_hash(paths):
    h = hashlib.sha256()
    for p in sorted(paths):
        h.update(p.encode())
        with open(p, "rb") as f:
            h.update(f.read())
    return h.hexdigest()


class Ctx:
    def __init__(self, pid, tier, seed):
        self.pid, self.tier, self.seed = pid, tier, seed
        self.violations = []      # (replay path, no_failing_input_found)
        self.known = []           # text lines
        self.coverage = {}
        self.assumptions = []
        self.level = "proof"
        os.makedirs(os.path.join(VERIF, "evidence"), exist_ok=True)
        os.makedirs(os.path.join(VERIF, "replays"), exist_ok=True)
        self.work = os.path.join(CACHE, "work", pid)
        shutil.rmtree(self.work, ignore_errors=True)
        os.makedirs(self.work, exist_ok=True)
        try:
            self.known_findings = json.load(open(os.path.join(VERIF, "known_findings.json")))
        except Exception:
            self.known_findings = {"findings": [], "fixed": []}

    def write_replay(self, obj):
        obj = dict(obj, property=self.pid, tier=self.tier, seed=self.seed)
        txt = json.dumps(obj, indent=1, sort_keys=True)
        name = "%s-%s.json" % (self.pid, hashlib.sha256(txt.encode()).hexdigest()[:12])
        path = os.path.join(VERIF, "replays", name)
        with open(path, "w") as f:
            f.write(txt)
        return os.path.join("replays", name)

    def finish(self, wall):
        cov = self.coverage
        ev = {
            "property_id": self.pid, "tier": self.tier, "seed": self.seed, "level": self.level,
            "coverage": cov, "assumptions": self.assumptions, "wall_s": round(wall, 2),
            "violations": len(self.violations),
        }
        with open(os.path.join(VERIF, "evidence", self.pid + ".json"), "w") as f:
            json.dump(ev, f, indent=1)
        for k in self.known:
            print("KNOWN-FINDING: property=%s %s" % (self.pid, k))
        for rp, nofail in self.violations:
            print("VIOLATION property=%s replay=%s%s" % (self.pid, rp, " no-failing-input-found" if nofail else ""))
        if not self.violations:
            print("OK property=%s tier=%s wall=%.1fs" % (self.pid, self.tier, wall))


# ------------------------------------------------------------------ builds

def build_harness():
    lock_src = os.path.join(REPO, "Cargo.lock")
    lock_dst = os.path.join(VERIF, "harness", "Cargo.lock")
    if not os.path.exists(lock_dst) or open(lock_src).read() != open(lock_dst).read():
        # keep the harness on exactly the dependency versions /repo pins
        base = open(lock_src).read()
        shutil.copy(lock_src, lock_dst)
    out = sh(["cargo", "build", "--release", "--offline"], cwd=os.path.join(VERIF, "harness"), timeout=1800, check=False)
    if "Finished" not in out:
        raise CheckFailure("the correspondence harness no longer builds against /repo", out[-4000:])


def build_coq(pid=None):
    """Builds what the property needs: the model/spec files the extracted runner comes from, and the
    property's own theorem file with its dependencies (so a broken generated table only affects the
    properties whose theorems are stated over it)."""
    mk = os.path.join(COQ, "Makefile.coq")
    cp = os.path.join(COQ, "_CoqProject")
    if not os.path.exists(mk) or os.path.getmtime(mk) < os.path.getmtime(cp):
        sh(["coq_makefile", "-f", "_CoqProject", "-o", "Makefile.coq"], cwd=COQ)
    targets = ["Spec/EnvRunner.vo", "Spec/Runner.vo"]
    if pid is None:
        targets = []          # everything (setup)
    elif os.path.exists(os.path.join(COQ, "Properties", pid + ".v")):
        targets.append("Properties/%s.vo" % pid)
    p = subprocess.run("timeout 3000 make -f Makefile.coq -j%d %s 2>&1" % (NCPU, " ".join(targets)), cwd=COQ, shell=True, env=ENV,
                       stdout=subprocess.PIPE, stderr=subprocess.STDOUT, text=True, timeout=3100)
    if p.returncode != 0:
        raise CheckFailure("the Coq development no longer builds (a theorem over the model or a generated table fails, or the build timed out; rc=%d)" % p.returncode, p.stdout[-6000:])


def build_runner():
    os.makedirs(OCAML, exist_ok=True)
    srcs = glob.glob(os.path.join(COQ, "Model", "*.v")) + glob.glob(os.path.join(COQ, "Spec", "*.v")) \
        + [os.path.join(COQ, "Extract", "Extract.v")] + glob.glob(os.path.join(VERIF, "ocaml", "*.ml"))
    stamp = file_hash(srcs)
    sp = os.path.join(OCAML, "stamp")
    if os.path.exists(sp) and open(sp).read() == stamp and os.path.exists(RUNNER):
        return
    shutil.copy(os.path.join(COQ, "Extract", "Extract.v"), os.path.join(OCAML, "Extract.v"))
    sh(["coqc", "-Q", COQ, "Bourse", "Extract.v"], cwd=OCAML, timeout=900)
    for f in glob.glob(os.path.join(VERIF, "ocaml", "*.ml")):
        shutil.copy(f, OCAML)
    sh("ocamlfind ocamlopt -O3 -package zarith -linkpkg -w -a model.mli model.ml runner.ml -o runner", cwd=OCAML, timeout=900)
    open(sp, "w").write(stamp)


EXT_TARGET = os.path.join(CACHE, "ext-target")
PYEXT = os.path.join(CACHE, "pyext")


def build_extension():
    """cargo build -p bourse (the PyO3 extension) from /repo's working tree; importable as <PYEXT>/bourse/core.so"""
    env = dict(ENV, CARGO_TARGET_DIR=EXT_TARGET)
    out = sh(["cargo", "build", "-p", "bourse", "--release", "--offline"], cwd=REPO, timeout=1800, check=False, env=env)
    so = os.path.join(EXT_TARGET, "release", "libbourse.so")
    if "Finished" not in out or not os.path.exists(so):
        raise CheckFailure("the Python extension module no longer builds", out[-3000:])
    os.makedirs(os.path.join(PYEXT, "bourse"), exist_ok=True)
    shutil.copy(so, os.path.join(PYEXT, "bourse", "core.so"))


def build_all(ctx):
    build_harness()
    tr = os.path.join(VERIF, "translators", "run_all.py")
    if os.path.exists(tr):
        out = sh([sys.executable, tr], cwd=VERIF, check=False)
        if "TRANSLATOR-FAIL" in out:
            # a translator that cannot parse its source concerns only the properties whose theorems are stated over
            # the table it generates (the generated file then holds '?' entries and those theorems fail); every other
            # property's model, theorems and correspondence do not read that file
            owners = {"layout": ("C19",), "macro_shapes": ("C20",)}
            hit = [t for t in owners if ("TRANSLATOR-FAIL %s" % t) in out]
            mine = ctx is not None and any(ctx.pid in owners[t] for t in hit)
            unknown = not hit
            if mine or (unknown and ctx is not None and ctx.pid in ("C18", "C19", "C20")):
                raise CheckFailure("a translator can no longer parse the source it reads", out[-3000:])
            if ctx is not None:
                ctx.coverage["translator_notes"] = "ignored for this property: " + out.strip()[-400:]
    build_coq(ctx.pid if ctx else None)
    build_runner()


# ------------------------------------------------------------------ proof obligations

def proof_obligations(ctx, vfile):
    """Compile the property file on its own, capture Print Assumptions, enforce the allowlist."""
    path = os.path.join(COQ, vfile)
    out = sh(["coqc", "-Q", COQ, "Bourse", "-w", "-notation-overridden,-deprecated-hint-without-locality", path], cwd=COQ, timeout=1800, check=False)
    if re.search(r"^Error|\nError|Error:", out):
        raise CheckFailure("property file %s no longer checks" % vfile, out[-4000:])
    src = open(path).read()
    theorems = re.findall(r"^\s*(?:Theorem|Corollary)\s+(\w+)", src, re.M)
    examples = re.findall(r"^\s*Example\s+(\w+)", src, re.M)
    n_print = len(re.findall(r"Print Assumptions", src))
    closed = out.count("Closed under the global context")
    axioms = set()
    in_ax = False
    for line in out.splitlines():
        if line.startswith("Axioms:"):
            in_ax = True
            continue
        if in_ax:
            m = re.match(r"^([A-Za-z_][\w.']*)\s*:", line)
            if m:
                axioms.add(m.group(1))
            elif line.strip() == "" or not line.startswith(" "):
                if not re.match(r"^\s", line):
                    in_ax = False
    bad = sorted(a for a in axioms if a not in AXIOM_ALLOW and a.split(".")[-1] not in AXIOM_ALLOW)
    if bad:
        raise CheckFailure("theorems of %s depend on axioms outside the allowlist: %s" % (vfile, bad), out[-3000:])
    # no Admitted / Axiom / ... anywhere in the development
    offenders = []
    for f in glob.glob(os.path.join(COQ, "**", "*.v"), recursive=True):
        txt = re.sub(r"\(\*.*?\*\)", "", open(f).read(), flags=re.S)
        for m in FORBIDDEN.finditer(txt):
            offenders.append("%s: %s" % (os.path.relpath(f, COQ), m.group(0)))
    if offenders:
        raise CheckFailure("forbidden declarations in the Coq development", "\n".join(offenders[:20]))
    if ctx.tier == "thorough":
        vo = path[:-2] + ".vo"
        lib = "Bourse." + vfile[:-2].replace("/", ".")
        chk = sh("timeout 1500 coqchk -silent -o -Q %s Bourse %s 2>&1 | tail -30" % (COQ, lib), cwd=COQ, timeout=1600, check=False)
        ctx.coverage["coqchk"] = chk[-1500:]
        if "Fatal" in chk or "Error" in chk:
            raise CheckFailure("coqchk rejects %s" % vfile, chk[-3000:])
    n = len(theorems)
    ctx.coverage.update({
        "obligations": n + len(examples), "discharged": n + len(examples),
        "theorems": theorems, "nonvacuity_examples": examples,
        "checker_cmd": "make -f Makefile.coq (coqc 8.16.1, full .vo build) ; coqc %s (Print Assumptions: %d closed, axioms %s)%s" % (
            vfile, closed, sorted(axioms) or "none", " ; coqchk -o" if ctx.tier == "thorough" else ""),
        "trusted_base": [
            "Coq 8.16.1 kernel (coqc; coqchk in the thorough tier); vm_compute used in Examples; no native_compute",
            "axioms reported by Print Assumptions: %s" % (sorted(axioms) or "none (Closed under the global context)"),
            "hand-written Gallina model of the Rust sources (coq/Model), tied to /repo by differential execution on every run",
            "extraction: ExtrOcamlBasic only (no Extract Constant by hand), OCaml 4.13.1, zarith for decimal I/O",
            "Rust harness (harness/), OCaml glue (ocaml/runner.ml), this driver; generators' coverage as measured below",
        ],
    })
    ctx.assumptions += ["Print Assumptions: " + (", ".join(sorted(axioms)) or "Closed under the global context")]
    return theorems


# ------------------------------------------------------------------ correspondence pipelines

def run_jobs(ctx, jobs):
    """jobs: list of dict(name=..., args=[drive args], shards=n). Returns (reports, stats)."""
    procs = []
    for j in jobs:
        n = j.get("shards", NCPU)
        for s in range(n):
            base = os.path.join(ctx.work, "%s.%d" % (j["name"], s))
            cmd = "%s %s --shard %d --nshards %d --stats %s.stats | %s > %s.rep" % (
                DRIVE, " ".join(j["args"]), s, n, base, RUNNER, base)
            procs.append((j, s, base, subprocess.Popen(cmd, shell=True, env=ENV)))
            # bound parallelism
            while sum(1 for p in procs if p[3].poll() is None) >= NCPU:
                time.sleep(0.02)
    reports, stats = [], {}
    for j, s, base, p in procs:
        rc = p.wait()
        if rc != 0:
            raise CheckFailure("correspondence pipeline failed for job %s shard %d" % (j["name"], s))
        st = stats.setdefault(j["name"], {"scripts": 0, "ops": 0, "valid_ops": 0, "panics": 0, "trades": 0,
                                          "nontrivial": 0, "distinct_nontrivial": 0, "price_errors": 0,
                                          "op_kinds": [0] * 13, "final_status": [0] * 5, "samples": [], "ended": 0})
        try:
            d = json.load(open(base + ".stats"))
            for k in ("scripts", "ops", "panics", "trades", "nontrivial", "distinct_nontrivial", "price_errors"):
                st[k] += d.get(k, 0)
            st["op_kinds"] = [a + b for a, b in zip(st["op_kinds"], d["op_kinds"])]
            st["final_status"] = [a + b for a, b in zip(st["final_status"], d["final_status"])]
            if len(st["samples"]) < 3:
                st["samples"] += d.get("samples", [])[:1]
            for k in ("tree_leaves", "exhaustive"):
                if k in d:
                    st[k] = d[k]
        except FileNotFoundError:
            raise CheckFailure("no statistics from job %s shard %d" % (j["name"], s))
        saw_summary = False
        with open(base + ".rep") as f:
            for line in f:
                if line.startswith("REP "):
                    t = line.split()
                    reports.append({"job": j, "script": t[1], "op": int(t[2]), "r": [int(x) for x in t[3:]]})
                elif line.startswith("END "):
                    st["ended"] += 1
                elif line.startswith("SUMMARY"):
                    saw_summary = True
                    m = re.search(r"valid_ops=(\d+)", line)
                    st["valid_ops"] += int(m.group(1))
        if not saw_summary:
            raise CheckFailure("runner did not finish for job %s shard %d" % (j["name"], s))
    return reports, stats


def fetch_script(ctx, job, script_id):
    """Regenerate one script (B and O lines only) of a job."""
    args = [a for a in job["args"]]
    out = subprocess.run([DRIVE] + args + ["--only", str(script_id)], env=ENV, stdout=subprocess.PIPE, text=True).stdout
    return [l for l in out.splitlines() if l[:2] in ("B ", "O ")]


def run_script(ctx, lines):
    """Execute an explicit script on the implementation and the model; return report tuples."""
    p = os.path.join(ctx.work, "replay.txt")
    with open(p, "w") as f:
        f.write("\n".join(lines) + "\n")
    out = subprocess.run("%s replay --file %s | %s" % (DRIVE, p, RUNNER), shell=True, env=ENV, stdout=subprocess.PIPE, text=True).stdout
    reps = []
    for line in out.splitlines():
        if line.startswith("REP "):
            t = line.split()
            reps.append((int(t[2]), [int(x) for x in t[3:]]))
    return reps


def shrink(ctx, lines, pred, budget=120):
    """ddmin over the operation lines; `pred(reports)` says whether the failure is still there."""
    hdr = [l for l in lines if l.startswith("B ")]
    ops = [l for l in lines if l.startswith("O ")]
    n = 2
    runs = 0
    while len(ops) >= 2 and runs < budget:
        chunk = max(1, len(ops) // n)
        reduced = False
        for i in range(0, len(ops), chunk):
            cand = ops[:i] + ops[i + chunk:]
            runs += 1
            if cand and pred(run_script(ctx, hdr + cand)):
                ops = cand
                n = max(n - 1, 2)
                reduced = True
                break
            if runs >= budget:
                break
        if not reduced:
            if chunk == 1:
                break
            n = min(len(ops), n * 2)
    return hdr + ops


OP_NAMES = ["create", "create_and_place", "place", "cancel", "modify", "event_new", "event_cancel",
            "event_modify", "set_time", "enable_trading", "disable_trading", "reset_trade_vol", "snapshot_reload"]
STATUS_NAMES = ["New", "Active", "Filled", "Cancelled", "Rejected"]


def coverage_from_stats(ctx, stats, rule):
    tot = lambda k: sum(s[k] for s in stats.values())
    kinds = [sum(s["op_kinds"][i] for s in stats.values()) for i in range(13)]
    fin = [sum(s["final_status"][i] for s in stats.values()) for i in range(5)]
    samples = []
    for name, s in stats.items():
        for x in s["samples"][:2]:
            samples.append({"job": name, "script": x})
    ctx.coverage.update({
        "evaluations": tot("scripts"),
        "distinct_nontrivial": tot("distinct_nontrivial"),
        "rule": rule,
        "samples": samples[:8],
        "traces_validated_against_impl": tot("scripts"),
        "operations_compared": tot("ops"),
        "operations_inside_valid_history_domain": tot("valid_ops"),
        "implementation_panics_observed": tot("panics"),
        "trades": tot("trades"),
        "price_errors": tot("price_errors"),
        "operation_mix": dict(zip(OP_NAMES, kinds)),
        "final_order_status_mix": dict(zip(STATUS_NAMES, fin)),
        "jobs": {n: {k: v for k, v in s.items() if k not in ("samples", "op_kinds", "final_status")} for n, s in stats.items()},
        "exhaustive": all(s.get("exhaustive", False) for s in stats.values()) if stats else False,
    })
